(* Simulation relations and proofs for C09 (reported state is truthful).  Statements: Props/C09.v. *)
From Coq Require Import List ZArith NArith Bool Lia.
From RecordUpdate Require Import RecordSet.
From PC.Base Require Import Assoc.
From PC.Sup Require Import Model Monitors Tactics Sim ObsFacts Effects RelCore LemC09.
Import ListNotations RecordSetNotations.

(* ---- the monitor, split into its four clauses ---------------------------------------------------------- *)
(* (a1) every status write is a legal transition of the reported status of the name *)
Definition mon_legal (o : obs) (te : tid * event) : bool :=
  match snd te with
  | EState i s0 =>
      let x := oi_get o i in
      let prev := r_status (on_get o (o_nm x)) in
      legal prev s0 || (Nat.eqb (o_launches x) 0 && status_eqb s0 SPending)
      || (status_eqb prev SPending && status_eqb s0 SPending)
  | _ => true
  end.
(* (a2) Completed / Skipped / Error is only written when no command of the instance is alive *)
Definition mon_term (o : obs) (te : tid * event) : bool :=
  match snd te with
  | EState i s0 => negb (terminal s0) || negb (o_alive (oi_get o i))
  | _ => true
  end.
(* (b) at a successful launch the reported status of the name is a running status *)
Definition mon_launch (o : obs) (te : tid * event) : bool :=
  match snd te with
  | ELaunch true => match ev_inst o (fst te) (snd te) with
                    | Some i => is_running_status (r_status (on_get o (o_nm (oi_get o i))))
                    | None => true
                    end
  | _ => true
  end.
(* (c) the exit code that is reported is the exit code of the instance's last command *)
Definition mon_code (o : obs) (te : tid * event) : bool :=
  match snd te with
  | EExitCode c => match ev_inst o (fst te) (snd te) with
                   | Some i => opt_eqb Z.eqb (o_code (oi_get o i)) (Some c)
                   | None => true
                   end
  | _ => true
  end.
Definition mon_a o te := mon_legal o te && mon_term o te.
Definition mon_b := mon_launch.
Definition mon_c := mon_code.

Lemma mon_C09_split cs o e : mon_C09 cs o e = mon_a o e && mon_b o e && mon_c o e.
Proof.
  unfold mon_C09, mon_a, mon_b, mon_c, mon_legal, mon_term, mon_launch, mon_code.
  destruct e as [th e]. cbn [snd fst]. destruct e; try reflexivity.
  - cbn. now rewrite !andb_true_r.
  - destruct ok; cbn; rewrite ?andb_true_r; reflexivity.
Qed.

Lemma holds_C09_split cs evs :
  holds_C09 cs evs = holds' cs mon_legal evs && holds' cs mon_term evs && holds' cs mon_launch evs && holds' cs mon_code evs.
Proof.
  unfold holds_C09, holds. change (match mon_run cs (mon_C09 cs) (obs0 cs) evs 0 with None => true | Some _ => false end)
    with (holds' cs (mon_C09 cs) evs).
  rewrite <- !holds'_and. unfold holds'.
  rewrite (mon_run_ext cs (mon_C09 cs) (fun o e => mon_legal o e && mon_term o e && mon_launch o e && mon_code o e)); [reflexivity|].
  intros o e. rewrite mon_C09_split. reflexivity.
Qed.

(* ---- per-instance relation: alive / exit code ------------------------------------------------------------ *)
Record I1 (x : inst) (xo : oinst) : Prop := mkI1 {
  i_alive : o_alive xo = alive x;
  i_pc : alive x = true -> pc x = IAlive;
  i_exited : forall c, exited x = Some c -> pc x = IAlive /\ alive x = false /\ o_code xo = Some c;
  i_code : forall c, pc x = IExited c -> o_code xo = Some c }.

Lemma I1_fr x x' xo xo' : ifr x x' -> ofr xo xo' -> I1 x xo -> I1 x' xo'.
Proof.
  intros (_ & _ & _ & Hp & Ha & He) (_ & _ & Hoa & Hoc & _) [A B C D].
  constructor; rewrite ?Hp, ?Ha, ?He, ?Hoa, ?Hoc; auto.
Qed.

Lemma I1_new n c : I1 (new_inst n c) (mkOI n 0 0 false None None false false false false false false false 0 false false false false false false []).
Proof. constructor; cbn; try discriminate; auto. Qed.

Lemma I1_own e x x' xo xo' : I1 x xo -> own_tr e (pc x) (pc x') = true ->
  alive x' = (match e with ELaunch true => true | _ => alive x end) ->
  exited x' = (match e with EWaitReturn _ => None | _ => exited x end) ->
  (match e with EWaitReturn c => exited x = Some c | _ => True end) ->
  o_code xo' = o_code xo ->
  o_alive xo' = (match e with ELaunch true => true | _ => o_alive xo end) ->
  I1 x' xo'.
Proof.
  intros [A B C D] Htr Ha He Hg Hoc Hoa.
  destruct e; try match goal with b : bool |- _ => destruct b end; cbn in Htr; try discriminate; destruct (pc x) eqn:Ep; try discriminate;
  destruct (pc x') eqn:Ep'; try discriminate.
  all: split_andb.
  all: destruct (alive x) eqn:Eal; [specialize (B eq_refl); try discriminate B|];
       (destruct (exited x) eqn:Eex; [destruct (C _ eq_refl) as (C1 & C2 & C3); try discriminate C1; try discriminate C2|]).
  all: constructor; rewrite ?Ha, ?He, ?Hoa, ?Hoc, ?A; try (intros; discriminate); try (intros; congruence); auto.
Qed.

Lemma I1_pc x x' xo xo' : I1 x xo -> alive x' = alive x -> exited x' = exited x ->
  o_alive xo' = o_alive xo -> o_code xo' = o_code xo ->
  (pc x' = pc x \/ (pc x <> IAlive /\ pc x' <> IAlive /\ forall c, pc x' <> IExited c)) -> I1 x' xo'.
Proof.
  intros [A B C D] Ha He Hoa Hoc [Hp|(N1 & N2 & N3)].
  - constructor; rewrite ?Hp, ?Ha, ?He, ?Hoa, ?Hoc; auto.
  - assert (Eal : alive x = false) by (destruct (alive x); [exfalso; auto|reflexivity]).
    assert (Eex : exited x = None) by (destruct (exited x) as [c|]; [destruct (C c eq_refl); exfalso; auto|reflexivity]).
    constructor; rewrite ?Ha, ?He, ?Hoa, ?Hoc, ?Eal, ?Eex; try congruence; try discriminate.
Qed.

Lemma I1_newinst n c xo : o_alive xo = false -> I1 (new_inst n c) xo.
Proof. intros H. constructor; cbn; try discriminate; auto. Qed.

(* ---- what the observer does to one instance record at the events that matter --------------------------- *)
Section ObsGet.
Context (cs : amap pconf).

Lemma obs_state_get o th i s0 j xo' :
  get j (oi (obs_step cs o (th, EState i s0))) = Some xo' ->
  exists xo, get j (oi o) = Some xo /\ o_nm xo' = o_nm xo /\ o_launches xo' = o_launches xo /\
    o_alive xo' = o_alive xo /\ o_code xo' = o_code xo /\ o_endst xo' = o_endst xo /\ o_byapi xo' = o_byapi xo /\
    o_ended xo' = (if N.eqb i j && opt_eqb status_eqb (o_endst xo) (Some s0) then true else o_ended xo).
Proof.
  unfold obs_step. cbn [fst snd ev_inst]. rewrite refresh_get, oi_upd_get, on_upd_oi.
  match goal with |- context[oi (if ?b then _ else _)] => replace (oi (if b then _ else _)) with (oi o) by (destruct b; reflexivity) end.
  destruct (N.eqb i j); destruct (get j (oi o)) as [xo|]; cbn; try discriminate; intros [= <-];
  (eexists; split; [reflexivity|]); destruct_matches; cbn; repeat split; reflexivity.
Qed.

Lemma obs_procend_get o th i s0 j xo' :
  get j (oi (obs_step cs o (th, EProcEnd i s0))) = Some xo' ->
  exists xo, get j (oi o) = Some xo /\ o_nm xo' = o_nm xo /\ o_launches xo' = o_launches xo /\
    o_alive xo' = o_alive xo /\ o_code xo' = o_code xo /\ o_ended xo' = o_ended xo /\ o_byapi xo' = o_byapi xo /\
    o_endst xo' = (if N.eqb i j then Some s0 else o_endst xo).
Proof.
  unfold obs_step. cbn [fst snd ev_inst]. rewrite refresh_get, oi_upd_get.
  destruct (N.eqb i j); destruct (get j (oi o)) as [xo|]; cbn; try discriminate; intros [= <-];
  (eexists; split; [reflexivity|]); destruct_matches; cbn; repeat split; reflexivity.
Qed.

Lemma obs_launch_get o th i j xo' : get th (o_th o) = Some i ->
  get j (oi (obs_step cs o (th, ELaunch true))) = Some xo' ->
  exists xo, get j (oi o) = Some xo /\ o_nm xo' = o_nm xo /\ o_code xo' = o_code xo /\ o_endst xo' = o_endst xo /\
    o_ended xo' = o_ended xo /\ o_byapi xo' = o_byapi xo /\
    o_alive xo' = (if N.eqb i j then true else o_alive xo) /\
    o_launches xo' = (if N.eqb i j then S (o_launches xo) else o_launches xo).
Proof.
  intros Hth. unfold obs_step. cbn [fst snd ev_inst]. rewrite Hth, refresh_get, oi_upd_get.
  destruct (N.eqb i j); destruct (get j (oi o)) as [xo|]; cbn; try discriminate; intros [= <-];
  (eexists; split; [reflexivity|]); destruct_matches; cbn; repeat split; reflexivity.
Qed.

Lemma obs_cmdexit_get o th i c j xo' :
  get j (oi (obs_step cs o (th, ECmdExit i c))) = Some xo' ->
  exists xo, get j (oi o) = Some xo /\ o_nm xo' = o_nm xo /\ o_launches xo' = o_launches xo /\ o_endst xo' = o_endst xo /\
    o_ended xo' = o_ended xo /\ o_byapi xo' = o_byapi xo /\
    o_alive xo' = (if N.eqb i j then false else o_alive xo) /\
    o_code xo' = (if N.eqb i j then Some c else o_code xo).
Proof.
  unfold obs_step. cbn [fst snd ev_inst]. rewrite refresh_get, oi_upd_get.
  destruct (N.eqb i j); destruct (get j (oi o)) as [xo|]; cbn; try discriminate; intros [= <-];
  (eexists; split; [reflexivity|]); destruct_matches; cbn; repeat split; reflexivity.
Qed.

Definition api_thread (o : obs) (th : tid) : bool :=
  match get th (o_api o) with Some OpRun | None => false | Some _ => true end.

Lemma obs_newinst_get o th i n j xo' :
  get j (oi (obs_step cs o (th, ENewInst i n))) = Some xo' ->
  if N.eqb i j then o_nm xo' = n /\ o_launches xo' = 0 /\ o_alive xo' = false /\ o_code xo' = None /\
                    o_endst xo' = None /\ o_ended xo' = false /\ o_byapi xo' = api_thread o th
  else exists xo, get j (oi o) = Some xo /\ ofr xo xo'.
Proof.
  unfold obs_step. cbn [fst snd ev_inst]. rewrite refresh_get.
  match goal with |- context[get j (oi ?X)] =>
    replace (oi X) with (set i (mkOI n (o_cnt o) 0 false None None false false false false false false false 0 false false (api_thread o th) false false false []) (oi o)) by reflexivity end.
  rewrite get_set. destruct (N.eqb i j).
  - cbn. intros [= <-]. unfold api_thread. repeat split; reflexivity.
  - destruct (get j (oi o)) as [xo|]; cbn; try discriminate; intros [= <-].
    eexists; split; [reflexivity|]. destruct_matches; unfold ofr; cbn; repeat split; reflexivity.
Qed.
End ObsGet.

(* which events each sub-step function accepts *)
Lemma api_oexc s th e s' : step_api s th e = Some s' -> oexc e = false /\ mexc e = false.
Proof. intros H. destruct e; try (split; reflexivity); kind_cases H. Qed.
Lemma stop_oexc s th e s' : step_stop s th e = Some s' -> oexc e = false /\ mexc e = false.
Proof. intros H. destruct e; try (split; reflexivity); kind_cases H. Qed.
Lemma shutdown_oexc s th e s' : step_shutdown s th e = Some s' -> oexc e = false /\ mexc e = false.
Proof. intros H. destruct e; try (split; reflexivity); kind_cases H. Qed.
Lemma reg_oexc s th e s' : step_reg s th e = Some s' -> mexc e = false -> oexc e = false.
Proof. intros H. destruct e; try reflexivity; try discriminate; kind_cases H. Qed.
Lemma env_oexc s th e s' : step_env s th e = Some s' -> mexc e = false -> oexc e = false.
Proof. intros H. destruct e; try reflexivity; try discriminate; kind_cases H. Qed.
Lemma own_oexc s th e s' : step_own s th e = Some s' -> e <> ELaunch true -> oexc e = false /\ mexc e = false.
Proof.
  intros H Hne. destruct e; try (split; reflexivity); try (destruct ok; [congruence|split; reflexivity]); kind_cases H.
Qed.
Lemma reg_mexc s th e s' : step_reg s th e = Some s' -> mexc e = true -> exists i n, e = ENewInst i n.
Proof. intros H. destruct e; try discriminate; eauto; kind_cases H. Qed.
Lemma env_mexc s th e s' : step_env s th e = Some s' -> mexc e = true -> exists i c, e = ECmdExit i c.
Proof. intros H. destruct e; try discriminate; eauto; kind_cases H. Qed.

Definition is_launch (e : event) : bool := match e with ELaunch true => true | _ => false end.
Lemma is_launch_true e : is_launch e = true -> e = ELaunch true.
Proof. destruct e; try discriminate. destruct ok; [reflexivity|discriminate]. Qed.
Lemma is_launch_false e : is_launch e = false -> e <> ELaunch true.
Proof. intros H ->. discriminate. Qed.

Section RelC09a.
Context (cs : amap pconf).

Definition IR (I : inst -> oinst -> Prop) (s : sys) (o : obs) : Prop :=
  forall i x xo, get i (insts s) = Some x -> get i (oi o) = Some xo -> I x xo.

Definition R1 (s : sys) (o : obs) : Prop := Rc cs s o /\ IR I1 s o.

Lemma IR1_frame s s' o o' : IR I1 s o -> msame s s' -> osame o o' -> IR I1 s' o'.
Proof.
  intros H (_ & _ & M & _) (O & _) i x' xo' Hx Hxo.
  specialize (M i). destruct (get i (insts s)) as [x|] eqn:E; [|congruence].
  destruct M as (x2 & E2 & F). assert (x2 = x') by congruence; subst x2.
  specialize (O i). destruct (get i (oi o)) as [xo|] eqn:Eo; [|congruence].
  destruct O as (xo2 & Eo2 & Fo). assert (xo2 = xo') by congruence. subst xo2.
  eapply I1_fr; eauto.
Qed.

Lemma R1_init ord : R1 (init cs ord) (obs0 cs).
Proof. split; [apply Rc_init|]. intros i x xo H. discriminate H. Qed.

Lemma R1_step s o th e s' : R1 s o -> step s (th, e) = Some s' -> R1 s' (obs_step cs o (th, e)).
Proof.
  intros [HRc HI] H. split; [eapply Rc_step; eauto|].
  unfold step in H. cbn [fst snd] in H.
  assert (HI0 : IR I1 (flush th s) o) by (eapply IR1_frame; eauto using msame_flush, osame_refl).
  assert (HRc0 : Rc cs (flush th s) o) by (eapply Rc_sys_same; eauto using sys_same_flush).
  set (s0 := flush th s) in *. clearbody s0. clear HI HRc s.
  destruct (step_core_kind _ _ _ _ H) as [? ?|i x ? ? ? ? ? ?|Hk|Hk|Hk|i st0 ? Hk|i st0 b ? Hk|Hk|i ? Hk|Hk|Hk]; subst.
  - (* resume *) eapply IR1_frame; eauto using msame_refl, obs_step_osame.
  - (* begin *) change (IR I1 s0 (obs_step cs o (th, EBegin i))).
    eapply IR1_frame; [eassumption|apply msame_refl|apply obs_step_osame; reflexivity].
  - (* reg *) destruct (mexc e) eqn:Hex.
    + destruct (reg_mexc _ _ _ _ Hk Hex) as (i & n & ->).
      destruct (newinst_effect _ _ _ _ _ Hk) as (c & Hc & Hi & _ & ->).
      intros j x' xo' Hx Hxo. apply obs_newinst_get in Hxo. cbn in Hx. rewrite get_set in Hx.
      destruct (N.eqb i j).
      * injection Hx as <-. apply I1_newinst. tauto.
      * destruct Hxo as (xo & Hxo & Fo). eapply I1_fr; [apply ifr_refl|exact Fo|eapply HI0; eauto].
    + eapply IR1_frame; [eassumption|eapply step_reg_msame; eauto|apply obs_step_osame; eapply reg_oexc; eauto].
  - (* api *) eapply IR1_frame; [eassumption|eapply step_api_msame; eauto|apply obs_step_osame; eapply api_oexc; eauto].
  - (* stop *) eapply IR1_frame; [eassumption|eapply step_stop_msame; eauto|apply obs_step_osame; eapply stop_oexc; eauto].
  - (* state *)
    destruct (state_effect _ _ _ _ _ Hk) as (x & x' & Hx & Hx' & Hfr & _ & _ & _ & _ & Ha & He & _ & _ & Htr & _).
    intros j y yo' Hy Hyo. apply obs_state_get in Hyo. destruct Hyo as (yo & Hyo & _ & _ & Hoa & Hoc & _).
    destruct (N.eqb_spec j i) as [->|Hne].
    + assert (y = x') by congruence. subst y.
      eapply (I1_pc x x' yo yo'); eauto.
      destruct Htr as [c E1 E2 E3|E1 E2 E3|todo E1 E2 E3 E4 E5|E1 E2 E3 E4|c E1 E2 E3 E4|c E1 E2 E3]; auto;
        right; rewrite ?E2, ?E3, ?E4; repeat split; congruence.
    + rewrite (Hfr j Hne) in Hy. eapply (I1_pc y y yo yo'); eauto.
  - (* procend *)
    destruct (procend_effect _ _ _ _ _ _ Hk) as (x & x' & Hx & Hx' & Hfr & _ & _ & _ & _ & Ha & He & _ & _ & Htr & _).
    assert (Hgoal : forall j y yo yo', get j (insts s') = Some y -> get j (oi o) = Some yo ->
                    o_alive yo' = o_alive yo -> o_code yo' = o_code yo -> I1 y yo').
    { intros j y yo yo' Hy Hyo Hoa Hoc. destruct (N.eqb_spec j i) as [->|Hne].
      + assert (y = x') by congruence. subst y.
        eapply (I1_pc x x' yo yo'); eauto.
        destruct Htr as [E0 E1 E2 E3|E0 E1 E2 E3|c E0 E1 E2 E3|c E0 E1 E2 E3]; auto;
          right; rewrite ?E2, ?E3; repeat split; try congruence;
          try (intros Hp; rewrite Hp in E3; discriminate); try (intros c0 Hp; rewrite Hp in E3; discriminate).
      + rewrite (Hfr j Hne) in Hy. eapply (I1_pc y y yo yo'); eauto. }
    destruct b.
    + intros j y yo' Hy Hyo. apply obs_procend_get in Hyo. destruct Hyo as (yo & Hyo & _ & _ & Hoa & Hoc & _). eauto.
    + pose proof (obs_step_osame cs o th (EProcEnded i st0) eq_refl) as (O & _).
      intros j y yo' Hy Hyo. specialize (O j). destruct (get j (oi o)) as [yo|] eqn:Eyo; [|congruence].
      destruct O as (y2 & E2 & (_ & _ & Hoa & Hoc & _)). assert (y2 = yo') by congruence. subst y2. eauto.
  - (* shutdown *) eapply IR1_frame; [eassumption|eapply step_shutdown_msame; eauto|apply obs_step_osame; eapply shutdown_oexc; eauto].
  - (* ordered *) eapply IR1_frame; [eassumption|eapply step_ordered_msame; eauto|apply obs_step_osame; reflexivity].
  - (* env *) destruct (mexc e) eqn:Hex.
    + destruct (env_mexc _ _ _ _ Hk Hex) as (i & c & ->).
      destruct (cmdexit_effect _ _ _ _ _ Hk) as (x & Hx & Hal & ->).
      intros j y yo' Hy Hyo. apply obs_cmdexit_get in Hyo. destruct Hyo as (yo & Hyo & _ & _ & _ & _ & _ & Hoa & Hoc).
      rewrite insts_upd_inst in Hy. destruct (N.eqb_spec i j) as [->|Hne].
      * rewrite Hx in Hy. cbn in Hy. injection Hy as <-. destruct (HI0 _ _ _ Hx Hyo) as [A B C D].
        assert (Ee : exited x = None) by (destruct (exited x) as [c0|]; [destruct (C c0 eq_refl) as (_ & F & _); congruence|reflexivity]).
        constructor; cbn; rewrite ?Hoa, ?Hoc; auto; try discriminate.
        intros c0 Hp. rewrite (B Hal) in Hp. discriminate.
      * eapply (I1_pc y y yo yo'); eauto.
    + eapply IR1_frame; [eassumption|eapply step_env_msame; eauto|apply obs_step_osame; eapply env_oexc; eauto].
  - (* own *)
    destruct (own_effect _ _ _ _ Hk) as (i & x & x' & Hth & Hx & Hx' & Hfr & _ & _ & _ & _ & Htr & Ha & He & _ & _ & Hg & _).
    assert (Hobs : forall j yo', get j (oi (obs_step cs o (th, e))) = Some yo' ->
              exists yo, get j (oi o) = Some yo /\ o_code yo' = o_code yo /\
                o_alive yo' = if N.eqb i j then (match e with ELaunch true => true | _ => o_alive yo end) else o_alive yo).
    { intros j yo' Hyo. destruct (is_launch e) eqn:El.
      - apply is_launch_true in El. subst e.
        assert (Hoth : get th (o_th o) = Some i) by (rewrite <- (rc_th _ _ _ HRc0); exact Hth).
        eapply obs_launch_get in Hyo; eauto. destruct Hyo as (yo & Hyo & _ & Hoc & _ & _ & _ & Hoa & _).
        exists yo. repeat split; auto.
      - apply is_launch_false in El. destruct (own_oexc _ _ _ _ Hk El) as [Ho _].
        pose proof (obs_step_osame cs o th e Ho) as (O & _). specialize (O j).
        destruct (get j (oi o)) as [yo|] eqn:Eyo; [|congruence].
        destruct O as (y2 & E2 & (_ & _ & Hoa & Hoc & _)). assert (y2 = yo') by congruence. subst y2.
        exists yo. repeat split; auto. rewrite Hoa. destruct (N.eqb i j); [|reflexivity].
        destruct e; try reflexivity. destruct ok; [congruence|reflexivity]. }
    intros j y yo' Hy Hyo. destruct (Hobs j yo' Hyo) as (yo & Eyo & Hoc & Hoa).
    destruct (N.eqb_spec i j) as [<-|Hne].
    + assert (y = x') by congruence. subst y. eapply (I1_own e x x' yo yo'); eauto.
    + rewrite (Hfr j) in Hy by congruence. eapply (I1_pc y y yo yo'); eauto.
Qed.

Lemma R1_flush s o th : R1 s o -> R1 (flush th s) o.
Proof.
  intros [HRc HI]. split; [eapply Rc_sys_same; eauto using sys_same_flush|].
  eapply IR1_frame; eauto using msame_flush, osame_refl.
Qed.

Lemma R1_oi s o i x : R1 s o -> get i (insts s) = Some x ->
  exists xo, get i (oi o) = Some xo /\ oi_get o i = xo /\ I1 x xo /\ o_nm xo = nm x /\ get (nm x) cs = Some (cf x).
Proof.
  intros [HRc HI] Hx. destruct (rc_inst _ _ _ HRc i x Hx) as (xo & Hxo & Hn & Hc & _).
  exists xo. unfold oi_get. rewrite Hxo. split; [reflexivity|]. split; [reflexivity|]. split; [eapply HI; eauto|]. auto.
Qed.

(* (c) *)
Lemma R1_mon_code s o th e s' : R1 s o -> step s (th, e) = Some s' -> mon_code o (th, e) = true.
Proof.
  intros HR H. destruct e; try reflexivity.
  apply (R1_flush _ _ th) in HR. unfold step in H. cbn [fst snd] in H.
  change (step_own (flush th s) th (EExitCode c) = Some s') in H.
  destruct (own_effect _ _ _ _ H) as (i & x & x' & Hth & Hx & _ & _ & _ & _ & _ & _ & Htr & _).
  destruct (R1_oi _ _ _ _ HR Hx) as (xo & Hxo & Hget & [A B C D] & _).
  unfold mon_code. cbn [fst snd ev_inst]. rewrite <- (rc_th _ _ _ (proj1 HR)), Hth, Hget.
  cbn in Htr. destruct (pc x) eqn:Ep; try discriminate. destruct (pc x'); try discriminate.
  split_andb. subst. rewrite (D _ eq_refl). cbn. apply Z.eqb_refl.
Qed.

(* (a2) *)
Lemma R1_mon_term s o th e s' : R1 s o -> step s (th, e) = Some s' -> mon_term o (th, e) = true.
Proof.
  intros HR H. destruct e; try reflexivity.
  apply (R1_flush _ _ th) in HR. unfold step in H. cbn [fst snd] in H.
  change (step_state (flush th s) th i s0 = Some s') in H.
  destruct (state_effect _ _ _ _ _ H) as (x & x' & Hx & _ & _ & _ & _ & _ & _ & _ & _ & _ & _ & Htr & _).
  destruct (R1_oi _ _ _ _ HR Hx) as (xo & Hxo & Hget & [A B C D] & _).
  unfold mon_term. cbn [fst snd]. rewrite Hget, A.
  destruct Htr as [c E1 E2 E3|E1 E2 E3|todo E1 E2 E3 E4 E5|E1 E2 E3 E4|c E1 E2 E3 E4|c E1 E2 E3]; subst; try reflexivity.
  destruct (alive x); [specialize (B eq_refl); congruence|]. apply orb_true_r.
Qed.

Theorem C09_code_holds ord evs s : accept (init cs ord) evs = Some s -> holds' cs mon_code evs = true.
Proof.
  intros Hacc. eapply (sim2_holds cs ord R1 mon_code mtrue wnone (R1_init ord)); eauto using holds'_mtrue.
  intros s1 o [th e] s1' HR Hs _. split; [eapply R1_step; eauto|left; eapply R1_mon_code; eauto].
Qed.

Theorem C09_term_holds ord evs s : accept (init cs ord) evs = Some s -> holds' cs mon_term evs = true.
Proof.
  intros Hacc. eapply (sim2_holds cs ord R1 mon_term mtrue wnone (R1_init ord)); eauto using holds'_mtrue.
  intros s1 o [th e] s1' HR Hs _. split; [eapply R1_step; eauto|left; eapply R1_mon_term; eauto].
Qed.
End RelC09a.
