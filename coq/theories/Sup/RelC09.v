(* Simulation relations and proofs for C09 (reported state is truthful).  Statements: Props/C09.v. *)
From Coq Require Import List ZArith NArith Bool Lia.
From RecordUpdate Require Import RecordSet.
From PC.Base Require Import Assoc.
From PC.Sup Require Import Model Monitors Tactics Sim ObsFacts Effects RelCore LemC09.
Import ListNotations RecordSetNotations.

(* ---- the monitor, split into its four clauses ---------------------------------------------------------- *)
(* (a1) every status write is a legal transition of the reported status of the name *)
Definition mon_legal (o : obs) (te : tid * event) : bool :=
  match snd te with
  | EState i s0 =>
      let x := oi_get o i in
      let prev := r_status (on_get o (o_nm x)) in
      legal prev s0 || (o_byapi x && Nat.eqb (o_launches x) 0 && status_eqb s0 SPending)
      || (status_eqb prev SPending && status_eqb s0 SPending)
  | _ => true
  end.
(* (a2) Completed / Skipped / Error is only written when no command of the instance is alive *)
Definition mon_term (o : obs) (te : tid * event) : bool :=
  match snd te with
  | EState i s0 => negb (terminal s0) || negb (o_alive (oi_get o i))
  | _ => true
  end.
(* (b) at a successful launch the reported status of the name is a running status *)
Definition mon_launch (o : obs) (te : tid * event) : bool :=
  match snd te with
  | ELaunch true => match ev_inst o (fst te) (snd te) with
                    | Some i => is_running_status (r_status (on_get o (o_nm (oi_get o i))))
                    | None => true
                    end
  | _ => true
  end.
(* (c) the exit code that is reported is the exit code of the instance's last command *)
Definition mon_code (o : obs) (te : tid * event) : bool :=
  match snd te with
  | EExitCode c => match ev_inst o (fst te) (snd te) with
                   | Some i => opt_eqb Z.eqb (o_code (oi_get o i)) (Some c)
                   | None => true
                   end
  | _ => true
  end.
Definition mon_a o te := mon_legal o te && mon_term o te.
Definition mon_b := mon_launch.
Definition mon_c := mon_code.

Lemma mon_C09_split cs o e : mon_C09 cs o e = mon_a o e && mon_b o e && mon_c o e.
Proof.
  unfold mon_C09, mon_a, mon_b, mon_c, mon_legal, mon_term, mon_launch, mon_code.
  destruct e as [th e]. cbn [snd fst]. destruct e; try reflexivity.
  - cbn. now rewrite !andb_true_r.
  - destruct ok; cbn; rewrite ?andb_true_r; reflexivity.
Qed.

Lemma holds_C09_split cs evs :
  holds_C09 cs evs = holds' cs mon_legal evs && holds' cs mon_term evs && holds' cs mon_launch evs && holds' cs mon_code evs.
Proof.
  unfold holds_C09, holds. change (match mon_run cs (mon_C09 cs) (obs0 cs) evs 0 with None => true | Some _ => false end)
    with (holds' cs (mon_C09 cs) evs).
  rewrite <- !holds'_and. unfold holds'.
  rewrite (mon_run_ext cs (mon_C09 cs) (fun o e => mon_legal o e && mon_term o e && mon_launch o e && mon_code o e)); [reflexivity|].
  intros o e. rewrite mon_C09_split. reflexivity.
Qed.

(* ---- per-instance relation: alive / exit code ------------------------------------------------------------ *)
Record I1 (x : inst) (xo : oinst) : Prop := mkI1 {
  i_alive : o_alive xo = alive x;
  i_pc : alive x = true -> pc x = IAlive;
  i_exited : forall c, exited x = Some c -> pc x = IAlive /\ alive x = false /\ o_code xo = Some c;
  i_code : forall c, pc x = IExited c -> o_code xo = Some c }.

Lemma I1_fr x x' xo xo' : ifr x x' -> ofr xo xo' -> I1 x xo -> I1 x' xo'.
Proof.
  intros (_ & _ & _ & Hp & Ha & He) (_ & _ & Hoa & Hoc & _) [A B C D].
  constructor; rewrite ?Hp, ?Ha, ?He, ?Hoa, ?Hoc; auto.
Qed.

Lemma I1_new n c : I1 (new_inst n c) (mkOI n 0 0 false None None false false false false false false false 0 false false false false false).
Proof. constructor; cbn; try discriminate; auto. Qed.

Lemma I1_own e x x' xo xo' : I1 x xo -> own_tr e (pc x) (pc x') = true ->
  alive x' = (match e with ELaunch true => true | _ => alive x end) ->
  exited x' = (match e with EWaitReturn _ => None | _ => exited x end) ->
  (match e with EWaitReturn c => exited x = Some c | _ => True end) ->
  o_code xo' = o_code xo ->
  o_alive xo' = (match e with ELaunch true => true | _ => o_alive xo end) ->
  I1 x' xo'.
Proof.
  intros [A B C D] Htr Ha He Hg Hoc Hoa.
  destruct e; try match goal with b : bool |- _ => destruct b end; cbn in Htr; try discriminate; destruct (pc x) eqn:Ep; try discriminate;
  destruct (pc x') eqn:Ep'; try discriminate.
  all: split_andb.
  all: destruct (alive x) eqn:Eal; [specialize (B eq_refl); try discriminate B|];
       (destruct (exited x) eqn:Eex; [destruct (C _ eq_refl) as (C1 & C2 & C3); try discriminate C1; try discriminate C2|]).
  all: constructor; rewrite ?Ha, ?He, ?Hoa, ?Hoc, ?A; try (intros; discriminate); try (intros; congruence); auto.
Qed.

Lemma I1_pc x x' xo xo' : I1 x xo -> alive x' = alive x -> exited x' = exited x ->
  o_alive xo' = o_alive xo -> o_code xo' = o_code xo ->
  (pc x' = pc x \/ (pc x <> IAlive /\ pc x' <> IAlive /\ forall c, pc x' <> IExited c)) -> I1 x' xo'.
Proof.
  intros [A B C D] Ha He Hoa Hoc [Hp|(N1 & N2 & N3)].
  - constructor; rewrite ?Hp, ?Ha, ?He, ?Hoa, ?Hoc; auto.
  - assert (Eal : alive x = false) by (destruct (alive x); [exfalso; auto|reflexivity]).
    assert (Eex : exited x = None) by (destruct (exited x) as [c|]; [destruct (C c eq_refl); exfalso; auto|reflexivity]).
    constructor; rewrite ?Ha, ?He, ?Hoa, ?Hoc, ?Eal, ?Eex; try congruence; try discriminate.
Qed.

Lemma I1_newinst n c xo : o_alive xo = false -> I1 (new_inst n c) xo.
Proof. intros H. constructor; cbn; try discriminate; auto. Qed.

(* ---- what the observer does to one instance record at the events that matter --------------------------- *)
Section ObsGet.
Context (cs : amap pconf).

Lemma obs_state_get o th i s0 j xo' :
  get j (oi (obs_step cs o (th, EState i s0))) = Some xo' ->
  exists xo, get j (oi o) = Some xo /\ o_nm xo' = o_nm xo /\ o_launches xo' = o_launches xo /\
    o_alive xo' = o_alive xo /\ o_code xo' = o_code xo /\ o_endst xo' = o_endst xo /\ o_byapi xo' = o_byapi xo /\
    o_ended xo' = (if N.eqb i j && opt_eqb status_eqb (o_endst xo) (Some s0) then true else o_ended xo).
Proof.
  unfold obs_step. cbn [fst snd ev_inst]. rewrite refresh_get, oi_upd_get, on_upd_oi.
  match goal with |- context[oi (if ?b then _ else _)] => replace (oi (if b then _ else _)) with (oi o) by (destruct b; reflexivity) end.
  destruct (N.eqb i j); destruct (get j (oi o)) as [xo|]; cbn; try discriminate; intros [= <-];
  (eexists; split; [reflexivity|]); destruct_matches; cbn; repeat split; reflexivity.
Qed.

Lemma obs_procend_get o th i s0 j xo' :
  get j (oi (obs_step cs o (th, EProcEnd i s0))) = Some xo' ->
  exists xo, get j (oi o) = Some xo /\ o_nm xo' = o_nm xo /\ o_launches xo' = o_launches xo /\
    o_alive xo' = o_alive xo /\ o_code xo' = o_code xo /\ o_ended xo' = o_ended xo /\ o_byapi xo' = o_byapi xo /\
    o_endst xo' = (if N.eqb i j then Some s0 else o_endst xo).
Proof.
  unfold obs_step. cbn [fst snd ev_inst]. rewrite refresh_get, oi_upd_get.
  destruct (N.eqb i j); destruct (get j (oi o)) as [xo|]; cbn; try discriminate; intros [= <-];
  (eexists; split; [reflexivity|]); destruct_matches; cbn; repeat split; reflexivity.
Qed.

Lemma obs_launch_get o th i j xo' : get th (o_th o) = Some i ->
  get j (oi (obs_step cs o (th, ELaunch true))) = Some xo' ->
  exists xo, get j (oi o) = Some xo /\ o_nm xo' = o_nm xo /\ o_code xo' = o_code xo /\ o_endst xo' = o_endst xo /\
    o_ended xo' = o_ended xo /\ o_byapi xo' = o_byapi xo /\
    o_alive xo' = (if N.eqb i j then true else o_alive xo) /\
    o_launches xo' = (if N.eqb i j then S (o_launches xo) else o_launches xo).
Proof.
  intros Hth. unfold obs_step. cbn [fst snd ev_inst]. rewrite Hth, refresh_get, oi_upd_get.
  destruct (N.eqb i j); destruct (get j (oi o)) as [xo|]; cbn; try discriminate; intros [= <-];
  (eexists; split; [reflexivity|]); destruct_matches; cbn; repeat split; reflexivity.
Qed.

Lemma obs_cmdexit_get o th i c j xo' :
  get j (oi (obs_step cs o (th, ECmdExit i c))) = Some xo' ->
  exists xo, get j (oi o) = Some xo /\ o_nm xo' = o_nm xo /\ o_launches xo' = o_launches xo /\ o_endst xo' = o_endst xo /\
    o_ended xo' = o_ended xo /\ o_byapi xo' = o_byapi xo /\
    o_alive xo' = (if N.eqb i j then false else o_alive xo) /\
    o_code xo' = (if N.eqb i j then Some c else o_code xo).
Proof.
  unfold obs_step. cbn [fst snd ev_inst]. rewrite refresh_get, oi_upd_get.
  destruct (N.eqb i j); destruct (get j (oi o)) as [xo|]; cbn; try discriminate; intros [= <-];
  (eexists; split; [reflexivity|]); destruct_matches; cbn; repeat split; reflexivity.
Qed.

Definition api_thread (o : obs) (th : tid) : bool :=
  match get th (o_api o) with Some OpRun | None => false | Some _ => true end.

Lemma obs_newinst_get o th i n j xo' :
  get j (oi (obs_step cs o (th, ENewInst i n))) = Some xo' ->
  if N.eqb i j then o_nm xo' = n /\ o_launches xo' = 0 /\ o_alive xo' = false /\ o_code xo' = None /\
                    o_endst xo' = None /\ o_ended xo' = false /\ o_byapi xo' = api_thread o th
  else exists xo, get j (oi o) = Some xo /\ ofr xo xo'.
Proof.
  unfold obs_step. cbn [fst snd ev_inst]. rewrite refresh_get.
  match goal with |- context[get j (oi ?X)] =>
    replace (oi X) with (set i (mkOI n (o_cnt o) 0 false None None false false false false false false false 0 false false (api_thread o th) false false) (oi o)) by reflexivity end.
  rewrite get_set. destruct (N.eqb i j).
  - cbn. intros [= <-]. unfold api_thread. repeat split; reflexivity.
  - destruct (get j (oi o)) as [xo|]; cbn; try discriminate; intros [= <-].
    eexists; split; [reflexivity|]. destruct_matches; unfold ofr; cbn; repeat split; reflexivity.
Qed.
End ObsGet.
