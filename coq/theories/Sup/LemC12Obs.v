(* C12 proof: facts about the observer (Monitors.obs_step) only: projections of the observer state after
   the helper updates, as rewrite rules (database obsn). *)
From Coq Require Import List ZArith NArith Bool Lia.
From RecordUpdate Require Import RecordSet.
From PC.Base Require Import Assoc.
From PC.Sup Require Import Model Monitors Tactics Sim ObsFacts Effects RelCore.
Import ListNotations RecordSetNotations.

Definition succ_upd (o : obs) (x : oinst) : oinst :=
  if o_ended x && (r_code (on_get o (o_nm x)) =? 0)%Z then x <| o_succ := true |> else x.

Lemma refresh_get' o j : get j (oi (refresh_succ o)) = option_map (succ_upd o) (get j (oi o)).
Proof. apply refresh_get. Qed.

Lemma succ_upd_alive o x : o_alive (succ_upd o x) = o_alive x. Proof. unfold succ_upd. now destruct (_ && _). Qed.
Lemma succ_upd_commit o x : o_commit (succ_upd o x) = o_commit x. Proof. unfold succ_upd. now destruct (_ && _). Qed.
Lemma succ_upd_stopreq o x : o_stopreq (succ_upd o x) = o_stopreq x. Proof. unfold succ_upd. now destruct (_ && _). Qed.
Lemma succ_upd_gone o x : o_gone (succ_upd o x) = o_gone x. Proof. unfold succ_upd. now destruct (_ && _). Qed.
Lemma succ_upd_nm o x : o_nm (succ_upd o x) = o_nm x. Proof. unfold succ_upd. now destruct (_ && _). Qed.
Lemma succ_upd_launches o x : o_launches (succ_upd o x) = o_launches x. Proof. unfold succ_upd. now destruct (_ && _). Qed.
Lemma succ_upd_ended o x : o_ended (succ_upd o x) = o_ended x. Proof. unfold succ_upd. now destruct (_ && _). Qed.

Ltac upd_tac := intros; unfold oi_upd, on_upd, note_late_commit;
  repeat match goal with |- context[match ?x with _ => _ end] => destruct x end; reflexivity.

Lemma oi_upd_w_commit i f o : w_commit (oi_upd i f o) = w_commit o. Proof. upd_tac. Qed.
Lemma oi_upd_w_sdlag i f o : w_sdlag (oi_upd i f o) = w_sdlag o. Proof. upd_tac. Qed.
Lemma oi_upd_w_dup i f o : w_dup (oi_upd i f o) = w_dup o. Proof. upd_tac. Qed.
Lemma oi_upd_w_zombie i f o : w_zombie (oi_upd i f o) = w_zombie o. Proof. upd_tac. Qed.
Lemma oi_upd_sd_cur i f o : o_sd_cur (oi_upd i f o) = o_sd_cur o. Proof. upd_tac. Qed.
Lemma on_upd_w_commit i f o : w_commit (on_upd i f o) = w_commit o. Proof. upd_tac. Qed.
Lemma on_upd_w_sdlag i f o : w_sdlag (on_upd i f o) = w_sdlag o. Proof. upd_tac. Qed.
Lemma on_upd_w_dup i f o : w_dup (on_upd i f o) = w_dup o. Proof. upd_tac. Qed.
Lemma on_upd_w_zombie i f o : w_zombie (on_upd i f o) = w_zombie o. Proof. upd_tac. Qed.
Lemma on_upd_sd_cur i f o : o_sd_cur (on_upd i f o) = o_sd_cur o. Proof. upd_tac. Qed.

Lemma nlc_oi o i : oi (note_late_commit o i) = oi o. Proof. upd_tac. Qed.
Lemma nlc_o_th o i : o_th (note_late_commit o i) = o_th o. Proof. upd_tac. Qed.
Lemma nlc_sd_cur o i : o_sd_cur (note_late_commit o i) = o_sd_cur o. Proof. upd_tac. Qed.
Lemma nlc_w_dup o i : w_dup (note_late_commit o i) = w_dup o. Proof. upd_tac. Qed.
Lemma nlc_w_zombie o i : w_zombie (note_late_commit o i) = w_zombie o. Proof. upd_tac. Qed.
Lemma nlc_flags o i :
  w_commit (note_late_commit o i) || w_sdlag (note_late_commit o i) = w_commit o || w_sdlag o || o_stopreq (oi_get o i).
Proof.
  unfold note_late_commit. destruct (o_stopreq (oi_get o i)); [|cbn; now rewrite orb_false_r].
  destruct (stopping o i); cbn; rewrite ?orb_true_r; reflexivity.
Qed.
Lemma oi_get_some o i x : get i (oi o) = Some x -> oi_get o i = x.
Proof. unfold oi_get. now intros ->. Qed.

Definition snap_upd (x : oinst) : oinst := x <| o_stopreq := true |> <| o_insnap := true |>.

Lemma fold_snap_get l : forall o j,
  get j (oi (fold_left (fun o i => oi_upd i snap_upd o) l o)) =
  option_map (fun x => if memN j l then snap_upd x else x) (get j (oi o)).
Proof.
  induction l as [|a l IH]; intros o j; cbn [fold_left].
  - cbn. now destruct (get j (oi o)).
  - rewrite IH, oi_upd_get. unfold memN. cbn [existsb]. rewrite (N.eqb_sym j a).
    destruct (N.eqb a j); destruct (get j (oi o)) as [x|]; cbn; try reflexivity.
    destruct (existsb (N.eqb j) l); reflexivity.
Qed.

Lemma fold_snap_proj {A} (P : obs -> A) l :
  (forall i o, P (oi_upd i snap_upd o) = P o) -> forall o, P (fold_left (fun o i => oi_upd i snap_upd o) l o) = P o.
Proof. intros HP. induction l as [|a l IH]; intros o; cbn; [reflexivity|]. now rewrite IH, HP. Qed.

Lemma fold_snap_w_commit l o : w_commit (fold_left (fun o i => oi_upd i snap_upd o) l o) = w_commit o.
Proof. apply (fold_snap_proj w_commit). intros. apply oi_upd_w_commit. Qed.
Lemma fold_snap_w_sdlag l o : w_sdlag (fold_left (fun o i => oi_upd i snap_upd o) l o) = w_sdlag o.
Proof. apply (fold_snap_proj w_sdlag). intros. apply oi_upd_w_sdlag. Qed.
Lemma fold_snap_w_dup l o : w_dup (fold_left (fun o i => oi_upd i snap_upd o) l o) = w_dup o.
Proof. apply (fold_snap_proj w_dup). intros. apply oi_upd_w_dup. Qed.
Lemma fold_snap_w_zombie l o : w_zombie (fold_left (fun o i => oi_upd i snap_upd o) l o) = w_zombie o.
Proof. apply (fold_snap_proj w_zombie). intros. apply oi_upd_w_zombie. Qed.
Lemma fold_snap_sd_cur l o : o_sd_cur (fold_left (fun o i => oi_upd i snap_upd o) l o) = o_sd_cur o.
Proof. apply (fold_snap_proj o_sd_cur). intros. apply oi_upd_sd_cur. Qed.
Lemma fold_snap_o_th l o : o_th (fold_left (fun o i => oi_upd i snap_upd o) l o) = o_th o.
Proof. apply (fold_snap_proj o_th). intros. apply oi_upd_o_th. Qed.

#[export] Hint Rewrite refresh_get' oi_upd_get on_upd_oi nlc_oi fold_snap_get
  succ_upd_alive succ_upd_commit succ_upd_stopreq succ_upd_gone succ_upd_nm succ_upd_launches succ_upd_ended
  oi_upd_w_commit oi_upd_w_sdlag oi_upd_w_dup oi_upd_w_zombie oi_upd_sd_cur
  on_upd_w_commit on_upd_w_sdlag on_upd_w_dup on_upd_w_zombie on_upd_sd_cur
  nlc_sd_cur nlc_w_dup nlc_w_zombie nlc_o_th
  fold_snap_w_commit fold_snap_w_sdlag fold_snap_w_dup fold_snap_w_zombie fold_snap_sd_cur fold_snap_o_th
  oi_upd_o_th on_upd_o_th : obsn.

(* the two windows the proof needs: F20/F21 (commit) and F37 (sdlag) *)
Definition F2 (o : obs) : bool := w_commit o || w_sdlag o.

(* what the observer adds to F2 at one event *)
Definition extra (o : obs) (th : tid) (e : event) : bool :=
  match e with
  | ENoRestart i | EStopPending i => o_commit (oi_get o i)
  | EStopEnter i c => c && o_commit (oi_get o i)
  | EShutdownOrder order => existsb (fun i => o_commit (oi_get o i)) order
  | ERunChecked false | EBackoffElapsed =>
      match get th (o_th o) with Some i => o_stopreq (oi_get o i) | None => false end
  | _ => false
  end.

Lemma F2_step cs o th e : F2 (obs_step cs o (th, e)) = false -> F2 o = false /\ extra o th e = false.
Proof.
  unfold F2, obs_step. cbn [fst snd].
  destruct e; cbn [ev_inst extra];
  try (destruct (get th (o_th o)) as [i0|] eqn:Eth);
  try match goal with |- context[match ?b with true => _ | false => _ end] => is_var b; destruct b end;
  cbn; autorewrite with obsn; cbn; rewrite ?nlc_flags; autorewrite with obsn; cbn;
  rewrite ?orb_false_iff; try tauto;
  try (destruct (status_eqb _ _ && _); cbn; tauto).
  all: try (destruct fatal; autorewrite with obsn; tauto).
  all: destruct found; cbn; tauto.
Qed.

