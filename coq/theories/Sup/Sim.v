(* Generic forward-simulation theorem: from a relation between model states and observer states that
   every accepted step preserves, and that makes the monitor's check true at every accepted step, to
   "every accepted history satisfies the monitor".  The second form allows the monitor to fail once the
   history has gone through one of the known windows (sticky observer flag W). *)
From Coq Require Import List ZArith NArith Bool Lia.
From PC.Base Require Import Assoc.
From PC.Sup Require Import Model Monitors.
Import ListNotations.

Section Sim.
Context (cs : amap pconf) (ord : bool).
Context (R : sys -> obs -> Prop) (m : obs -> tid * event -> bool) (W : obs -> bool).
Context (R0 : R (init cs ord) (obs0 cs)).
Context (Rstep : forall s o e s', R s o -> step s e = Some s' ->
                 R s' (obs_step cs o e) /\ (m o e = true \/ W o = true)).
Context (Wmono : forall o e, W o = true -> W (obs_step cs o e) = true).

Lemma sim_run : forall evs s o k s', R s o -> accept s evs = Some s' ->
  W (fold_left (obs_step cs) evs o) = false ->
  mon_run cs m o evs k = None.
Proof.
  induction evs as [|e evs IH]; intros s o k s' HR Hacc HW; [reflexivity|].
  cbn in Hacc. destruct (step s e) as [s1|] eqn:Es; [|discriminate].
  destruct (Rstep s o e s1 HR Es) as [HR1 Hm].
  cbn [mon_run fold_left] in *.
  assert (HWo : W o = false).
  { destruct (W o) eqn:E; [|reflexivity]. exfalso.
    assert (Hall : forall l o1, W o1 = true -> W (fold_left (obs_step cs) l o1) = true).
    { induction l as [|a l IHl]; intros o1 H1; [exact H1|]. cbn. apply IHl. now apply Wmono. }
    rewrite (Hall evs (obs_step cs o e) (Wmono o e E)) in HW. discriminate. }
  destruct Hm as [Hm|Hm]; [|congruence].
  rewrite Hm. eapply IH; eauto.
Qed.

Theorem sim_holds_partial : forall evs s,
  accept (init cs ord) evs = Some s ->
  W (fold_left (obs_step cs) evs (obs0 cs)) = false ->
  holds cs (fun _ => m) evs = true.
Proof.
  intros evs s Hacc HW. unfold holds. now rewrite (sim_run evs _ _ 0 s R0 Hacc HW).
Qed.
End Sim.

(* the window flags are sticky *)
Definition any_window (o : obs) : bool := existsb (fun b => b) (windows_of o).
