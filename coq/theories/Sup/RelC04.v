(* Simulation relation and proof for C04 (project completion and exit code).  Statements: Props/C04.v. *)
From Coq Require Import List ZArith NArith Bool Lia.
From RecordUpdate Require Import RecordSet.
From PC.Base Require Import Assoc.
From PC.Sup Require Import Model Monitors Check Tactics Sim ObsFacts Effects RelCore LemC04 LemC04i LemC04s LemC04t LemC04n LemC04g LemC04o LemC04c.
Import ListNotations RecordSetNotations.

(* ---- the ghost: facts about the history that neither the model state nor the observer keeps ---------- *)
Record ghost := mkG {
  g_sp : list iid;      (* wait-group tokens: one entry per ESpawn whose inst_exit release has not happened yet *)
  g_wp : list tid;      (* threads whose last event was inst_exit (waitGroup.Done() is next) *)
  g_tp : list tid }.    (* threads whose last event was exit_trigger (exitCodeOnce.Do is next) *)
#[export] Instance eta_ghost : Settable _ := settable! mkG <g_sp; g_wp; g_tp>.

Definition ghost0 := mkG [] [] [].
(* no side condition is left: the generic simulation theorem is used with a flag that is never raised *)
Definition gbad (g : ghost) : bool := false.

Definition gflush (o : obs) (th : tid) (g : ghost) : ghost :=
  let g1 := if memN th (g_wp g)
            then g <| g_wp := removeN th (g_wp g) |>
                   <| g_sp := match get th (o_th o) with Some i => rem1 i (g_sp g) | None => g_sp g end |>
            else g in
  if memN th (g_tp g1) then g1 <| g_tp := removeN th (g_tp g1) |> else g1.

Definition gcore (o : obs) (th : tid) (e : event) (g : ghost) : ghost :=
  match e with
  | ESpawn i _ => g <| g_sp := i :: g_sp g |>
  | EInstExit => g <| g_wp := th :: g_wp g |>
  | EExitTrigger _ => g <| g_tp := th :: g_tp g |>
  | _ => g
  end.

Definition gstep (o : obs) (g : ghost) (te : tid * event) : ghost := gcore o (fst te) (snd te) (gflush o (fst te) g).

Lemma gstep_bad_mono o g e : gbad g = true -> gbad (gstep o g e) = true.
Proof. intros H. exact H. Qed.

(* ---- the relation ------------------------------------------------------------------------------------ *)
Definition Pown (s : sys) (g : ghost) (th : tid) (i : iid) (x : inst) : Prop :=
  (cl (pc x) <> CRel \/ memN th (g_wp g) = true -> In i (g_sp g)) /\
  apc (get_thread s th) = ANone /\
  (dpc (get_thread s th) <> DNone -> code_set s = true) /\
  (cl (pc x) = CTrig -> code_set s = true \/ memN th (g_tp g) = true).

Definition Pinst (s : sys) (o : obs) (i : iid) (x : inst) (xo : oinst) : Prop :=
  o_alive xo = alive x /\
  (alive x = true -> cl (pc x) = CAlive /\ exited x = None) /\
  (exited x <> None -> cl (pc x) = CAlive) /\
  (cl (pc x) <> CPre -> exists th, get th (thinst s) = Some i) /\
  (o_insnap xo = true \/ o_sd_victim xo = true -> code_set s = true \/ o_api_sd_first o = true).

Section RelC04.
Context (cs : amap pconf).

Record R4 (s : sys) (o : obs) (g : ghost) : Prop := mkR4 {
  r_core : Rc cs s o;
  r_nodup : NoDup (map fst (oi o));
  r_wg : wg s = length (g_sp g);
  r_wp : forall th, memN th (g_wp g) = true <-> pk (pend (get_thread s th)) = PW;
  r_tp : forall th, memN th (g_tp g) = true <-> exists c, pk (pend (get_thread s th)) = PC c;
  r_fix : o_code_fixed o = true -> code_set s = true;
  r_trth : forall th, memN th (o_trig_th o) = true -> code_set s = true \/ memN th (g_tp g) = true;
  r_inj : forall t1 t2 i, get t1 (thinst s) = Some i -> get t2 (thinst s) = Some i -> t1 = t2;
  r_thi : forall th i, get th (thinst s) = Some i -> exists x, get i (insts s) = Some x;
  r_own : forall th i x, get th (thinst s) = Some i -> get i (insts s) = Some x -> Pown s g th i x;
  r_pend : forall th, memN th (g_wp g) = true \/ memN th (g_tp g) = true ->
           exists i x, get th (thinst s) = Some i /\ get i (insts s) = Some x /\
                       (memN th (g_wp g) = true -> cl (pc x) = CRel) /\ (memN th (g_tp g) = true -> cl (pc x) = CTrig);
  r_inst : forall i x xo, get i (insts s) = Some x -> get i (oi o) = Some xo -> Pinst s o i x xo;
  r_c0 : code_set s = false -> proj_code s = 0%Z;
  r_c1 : code_set s = true -> exists t, In t (o_triggers o) /\ snd (fst t) = proj_code s /\
                                        (snd t = false \/ o_api_sd_first o = true);
  r_c2 : forall th c, pk (pend (get_thread s th)) = PC c ->
         exists t, In t (o_triggers o) /\ snd (fst t) = c /\ (code_set s = true \/ snd t = false \/ o_api_sd_first o = true);
  r_c3 : o_triggers o <> [] -> code_set s = true \/ exists th, memN th (g_tp g) = true;
  (* hardened model: a spawned instance whose goroutine has not begun holds a token; begun instances have no stage *)
  r_stage : forall i c, get i (stage s) = Some (c, 3) -> In i (g_sp g);
  r_nostage : forall th i, get th (thinst s) = Some i -> get i (stage s) = None
}.

Lemma R4_init ord : R4 (init cs ord) (obs0 cs) ghost0.
Proof.
  constructor; cbn; try discriminate; try tauto; try reflexivity.
  - apply Rc_init.
  - constructor.
  - intros th. split; discriminate.
  - intros th. split; [discriminate|]. intros (c & H). discriminate.
  - intros th [H|H]; discriminate.
Qed.

(* transfer of the relation along a change of model state and ghost that leaves the observer alone *)
Lemma R4_frame s o g s0 g0 :
  R4 s o g ->
  sys_same s s0 -> thinst s0 = thinst s ->
  (forall j, match get j (insts s) with
             | Some x => exists x', get j (insts s0) = Some x' /\ pc x' = pc x /\ alive x' = alive x /\ exited x' = exited x
             | None => get j (insts s0) = None end) ->
  (forall th', apc (get_thread s0 th') = apc (get_thread s th') /\ dpc (get_thread s0 th') = dpc (get_thread s th')) ->
  (code_set s = true -> code_set s0 = true /\ proj_code s0 = proj_code s) ->
  wg s0 = length (g_sp g0) ->
  (forall th', memN th' (g_wp g0) = true <-> pk (pend (get_thread s0 th')) = PW) ->
  (forall th', memN th' (g_tp g0) = true <-> exists c, pk (pend (get_thread s0 th')) = PC c) ->
  (forall th', memN th' (g_wp g0) = true -> memN th' (g_wp g) = true) ->
  (forall th', memN th' (g_tp g0) = true -> memN th' (g_tp g) = true) ->
  (forall th' i' x, get th' (thinst s) = Some i' -> get i' (insts s) = Some x ->
     (cl (pc x) <> CRel \/ memN th' (g_wp g0) = true) -> In i' (g_sp g) -> In i' (g_sp g0)) ->
  (forall th', memN th' (g_tp g) = true -> code_set s0 = true \/ memN th' (g_tp g0) = true) ->
  (code_set s0 = false -> code_set s = false /\ proj_code s0 = proj_code s) ->
  (code_set s = false -> code_set s0 = true ->
     exists t, In t (o_triggers o) /\ snd (fst t) = proj_code s0 /\ (snd t = false \/ o_api_sd_first o = true)) ->
  (forall th' c, pk (pend (get_thread s0 th')) = PC c -> pk (pend (get_thread s th')) = PC c) ->
  stage s0 = stage s ->
  (forall j c, get j (stage s) = Some (c, 3) -> In j (g_sp g) -> In j (g_sp g0)) ->
  R4 s0 o g0.
Proof.
  intros HR Hsame Hthi Hins Hthr Hcs Hwg Hwp Htp Hwsub Htsub Hsp Htrig Hc0 Hc1 Hc2 Hstg Hsp3.
  assert (Hback : forall j x', get j (insts s0) = Some x' ->
            exists x, get j (insts s) = Some x /\ pc x' = pc x /\ alive x' = alive x /\ exited x' = exited x).
  { intros j x' Hx'. specialize (Hins j). destruct (get j (insts s)) as [x|]; [|congruence].
    destruct Hins as (x2 & E2 & ? & ? & ?). assert (x2 = x') by congruence. subst. eauto. }
  assert (Hmono : code_set s = true -> code_set s0 = true) by (intros H; now apply Hcs).
  constructor.
  - eapply Rc_sys_same; [apply (r_core _ _ _ HR)|exact Hsame].
  - apply (r_nodup _ _ _ HR).
  - exact Hwg.
  - exact Hwp.
  - exact Htp.
  - intros H. apply Hmono. now apply (r_fix _ _ _ HR).
  - intros th H. destruct (r_trth _ _ _ HR th H) as [H1|H1]; [left; now apply Hmono|now apply Htrig].
  - rewrite Hthi. apply (r_inj _ _ _ HR).
  - rewrite Hthi. intros th i Ht. destruct (r_thi _ _ _ HR th i Ht) as (x & Hx). specialize (Hins i). rewrite Hx in Hins.
    destruct Hins as (x' & ? & _). eauto.
  - rewrite Hthi. intros th i x' Ht Hx'. destruct (Hback _ _ Hx') as (x & Hx & Ep & Ea & Ee).
    destruct (r_own _ _ _ HR th i x Ht Hx) as (A & B & C & D). destruct (Hthr th) as (Eapc & Edpc).
    unfold Pown. rewrite Ep, Eapc, Edpc. repeat split.
    + intros H. eapply Hsp; eauto. apply A. destruct H as [H|H]; [now left|right; now apply Hwsub].
    + exact B.
    + intros H. apply Hmono. now apply C.
    + intros H. destruct (D H) as [H1|H1]; [left; now apply Hmono|now apply Htrig].
  - rewrite Hthi. intros th H.
    assert (H' : memN th (g_wp g) = true \/ memN th (g_tp g) = true) by (destruct H; [left; now apply Hwsub|right; now apply Htsub]).
    destruct (r_pend _ _ _ HR th H') as (i & x & Ht & Hx & A & B).
    specialize (Hins i). rewrite Hx in Hins. destruct Hins as (x' & Hx' & Ep & _).
    exists i, x'. rewrite Ep. repeat split; auto.
  - intros i x' xo Hx' Hxo. destruct (Hback _ _ Hx') as (x & Hx & Ep & Ea & Ee).
    destruct (r_inst _ _ _ HR i x xo Hx Hxo) as (A & B & C & D & E).
    unfold Pinst. rewrite Ep, Ea, Ee, Hthi. repeat split; auto; try (now apply B).
    intros H. destruct (E H) as [H1|H1]; [left; now apply Hmono|now right].
  - intros H. destruct (Hc0 H) as (H1 & H2). rewrite H2. now apply (r_c0 _ _ _ HR).
  - intros H. destruct (code_set s) eqn:Ecs.
    + destruct (Hcs eq_refl) as (_ & Ep). rewrite Ep. now apply (r_c1 _ _ _ HR).
    + now apply Hc1.
  - intros th c H. destruct (r_c2 _ _ _ HR th c (Hc2 _ _ H)) as (t & Hin & Hc & Hd). exists t. repeat split; auto.
    destruct Hd as [Hd|Hd]; [left; now apply Hmono|now right].
  - intros H. destruct (r_c3 _ _ _ HR H) as [H1|(th & H1)]; [left; now apply Hmono|].
    destruct (Htrig _ H1) as [H2|H2]; [now left|right; eauto].
  - rewrite Hstg. intros i c Hi. eapply Hsp3; eauto. apply (r_stage _ _ _ HR i c Hi).
  - rewrite Hstg, Hthi. apply (r_nostage _ _ _ HR).
Qed.

Lemma pk_none_upd (t : thread) : pk (pend (t <| pend := None |>)) = PO.
Proof. reflexivity. Qed.

Lemma R4_flush s o g th : R4 s o g ->
  R4 (flush th s) o (gflush o th g) /\ pend (get_thread (flush th s) th) = None.
Proof.
  intros HR. destruct (flush_spec th s) as (F1 & F2 & F3 & F4 & F5 & F6).
  split. 2:{ rewrite F3, N.eqb_refl. reflexivity. }
  assert (Hthr : forall th', apc (get_thread (flush th s) th') = apc (get_thread s th') /\
                             dpc (get_thread (flush th s) th') = dpc (get_thread s th')).
  { intros th'. rewrite F3. destruct (N.eqb_spec th th'); [subst|]; split; reflexivity. }
  assert (Hpk : forall th', pk (pend (get_thread (flush th s) th')) = if N.eqb th th' then PO else pk (pend (get_thread s th'))).
  { intros th'. rewrite F3. destruct (N.eqb th th'); reflexivity. }
  destruct (pk (pend (get_thread s th))) as [|c|] eqn:Epk.
  - (* waitGroup.Done() *)
    assert (Hw : memN th (g_wp g) = true) by (now apply (r_wp _ _ _ HR)).
    assert (Ht : memN th (g_tp g) = false).
    { destruct (memN th (g_tp g)) eqn:E; [|reflexivity]. apply (r_tp _ _ _ HR) in E. destruct E as (c & E). congruence. }
    destruct (r_pend _ _ _ HR th (or_introl Hw)) as (i & x & Hti & Hx & Hrel & _).
    assert (Hoth : get th (o_th o) = Some i) by (now rewrite <- (rc_th _ _ _ (r_core _ _ _ HR))).
    assert (Hin : In i (g_sp g)) by (apply (r_own _ _ _ HR th i x Hti Hx); now right).
    assert (Hg0 : gflush o th g = g <| g_wp := removeN th (g_wp g) |> <| g_sp := rem1 i (g_sp g) |>).
    { unfold gflush. rewrite Hw, Hoth. cbn -[memN removeN rem1]. now rewrite Ht. }
    rewrite Hg0. eapply R4_frame; try eassumption; cbn -[memN removeN rem1 length In get_thread flush pk get N.eqb].
    + apply sys_same_flush.
    + intros H. rewrite F5, F6. auto.
    + rewrite F4. pose proof (rem1_length _ _ Hin). rewrite (r_wg _ _ _ HR). unfold iid in *. lia.
    + intros th'. rewrite Hpk. destruct (N.eqb_spec th th').
      * subst. rewrite memN_removeN_same. split; discriminate.
      * rewrite memN_removeN_other by congruence. apply (r_wp _ _ _ HR).
    + intros th'. rewrite Hpk. destruct (N.eqb_spec th th').
      * subst. rewrite Ht. split; [discriminate|intros (c & H); discriminate].
      * apply (r_tp _ _ _ HR).
    + intros th'. destruct (N.eqb_spec th' th); [subst; now rewrite memN_removeN_same|now rewrite memN_removeN_other].
    + auto.
    + intros th' i' x' Hti' Hx' Hc Hin'. apply rem1_other; [|exact Hin'].
      intros ->. assert (th' = th) by (eapply (r_inj _ _ _ HR); eauto). subst th'.
      assert (x' = x) by congruence. subst x'. rewrite memN_removeN_same in Hc. destruct Hc as [Hc|Hc]; [apply Hc; now apply Hrel|discriminate].
    + auto.
    + rewrite F5, F6. auto.
    + rewrite F5. congruence.
    + intros th' c. rewrite Hpk. destruct (N.eqb th th'); [discriminate|auto].
    + apply flush_stage.
    + intros j c Hj Hinj. apply rem1_other; [|exact Hinj]. intros ->. rewrite (r_nostage _ _ _ HR th i Hti) in Hj. discriminate.
  - (* exitCodeOnce.Do *)
    assert (Ht : memN th (g_tp g) = true) by (apply (r_tp _ _ _ HR); eauto).
    assert (Hw : memN th (g_wp g) = false).
    { destruct (memN th (g_wp g)) eqn:E; [|reflexivity]. apply (r_wp _ _ _ HR) in E. congruence. }
    assert (Hg0 : gflush o th g = g <| g_tp := removeN th (g_tp g) |>).
    { unfold gflush. rewrite Hw. cbn -[memN removeN rem1]. now rewrite Ht. }
    rewrite Hg0. eapply R4_frame; try eassumption; cbn -[memN removeN rem1 length In get_thread flush pk get N.eqb].
    + apply sys_same_flush.
    + intros H. rewrite F5, F6, H. auto.
    + rewrite F4. apply (r_wg _ _ _ HR).
    + intros th'. rewrite Hpk. destruct (N.eqb_spec th th').
      * subst. rewrite Hw. split; discriminate.
      * apply (r_wp _ _ _ HR).
    + intros th'. rewrite Hpk. destruct (N.eqb_spec th th').
      * subst. rewrite memN_removeN_same. split; [discriminate|intros (c' & H); discriminate].
      * rewrite memN_removeN_other by congruence. apply (r_tp _ _ _ HR).
    + auto.
    + intros th'. destruct (N.eqb_spec th' th); [subst; now rewrite memN_removeN_same|now rewrite memN_removeN_other].
    + auto.
    + intros th' _. left. now rewrite F5.
    + rewrite F5. discriminate.
    + intros Hcs _. rewrite F6, Hcs. destruct (r_c2 _ _ _ HR th c Epk) as (t & Hin & Hc & Hd). exists t. repeat split; auto.
      destruct Hd as [Hd|Hd]; [congruence|exact Hd].
    + intros th' c'. rewrite Hpk. destruct (N.eqb th th'); [discriminate|auto].
    + apply flush_stage.
    + auto.
  - (* nothing (or a latch release) pending *)
    assert (Hw : memN th (g_wp g) = false).
    { destruct (memN th (g_wp g)) eqn:E; [|reflexivity]. apply (r_wp _ _ _ HR) in E. congruence. }
    assert (Ht : memN th (g_tp g) = false).
    { destruct (memN th (g_tp g)) eqn:E; [|reflexivity]. apply (r_tp _ _ _ HR) in E. destruct E as (c & E). congruence. }
    assert (Hg0 : gflush o th g = g).
    { unfold gflush. rewrite Hw. cbn -[memN removeN rem1]. now rewrite Ht. }
    rewrite Hg0. eapply R4_frame; try eassumption.
    + apply sys_same_flush.
    + intros H. rewrite F5, F6. auto.
    + rewrite F4. apply (r_wg _ _ _ HR).
    + intros th'. rewrite Hpk. destruct (N.eqb_spec th th').
      * subst. rewrite Hw. split; discriminate.
      * apply (r_wp _ _ _ HR).
    + intros th'. rewrite Hpk. destruct (N.eqb_spec th th').
      * subst. rewrite Ht. split; [discriminate|intros (c' & H); discriminate].
      * apply (r_tp _ _ _ HR).
    + auto.
    + auto.
    + auto.
    + auto.
    + rewrite F5, F6. auto.
    + rewrite F5. congruence.
    + intros th' c'. rewrite Hpk. destruct (N.eqb th th'); [discriminate|auto].
    + apply flush_stage.
    + auto.
Qed.
(*STOP*)

End RelC04.

(* ---- one accepted step (after the flush) preserves the relation --------------------------------------- *)
Section Core.
Context (cs : amap pconf).

Lemma own_false_of (m : amap iid) th j : own m th j = false <-> get th m <> Some j.
Proof. rewrite <- own_true. destruct (own m th j); split; congruence. Qed.

Lemma cl_next_rel e c : cl_next e c = CRel -> e = EInstExit \/ c = CRel.
Proof. destruct e; cbn; try (destruct ok; cbn); intros H; auto; try discriminate H. Qed.
Lemma cl_next_trig e c : cl_next e c = CTrig -> (exists z, e = EExitTrigger z) \/ c = CTrig.
Proof. destruct e; cbn; try (destruct ok; cbn); intros H; auto; try discriminate H; eauto. Qed.
Lemma cl_next_alive e c : cl_next e c = CAlive -> e = ELaunch true \/ c = CAlive.
Proof. destruct e; cbn; try (destruct ok; cbn); intros H; auto; try discriminate H. Qed.
Lemma cl_next_pre e c : cl_next e c <> CPre -> c = CPre -> True.
Proof. auto. Qed.
Lemma cl_next_nopre e c : cl_pre e = None -> cl_next e c = c.
Proof. destruct e; cbn; auto; discriminate. Qed.

Lemma g_begin2 s th i s' : step_core s th (EBegin i) = Some s' ->
  s' = s <| thinst := set th i (thinst s) |> <| stage := del i (stage s) |>.
Proof. intros H. unfold step_core in H. break_step H. now subst. Qed.

Lemma alive_next_cases ow e j a : alive_next ow e j a = true ->
  (e = ELaunch true /\ ow = true) \/ (a = true /\ forall c, e <> ECmdExit j c).
Proof.
  destruct e; cbn; try (intros ->; right; split; [reflexivity|intros; discriminate]).
  - destruct ok; [destruct ow; [auto|]|]; intros ->; right; split; try reflexivity; intros; discriminate.
  - destruct (N.eqb_spec i j); [discriminate|]. intros ->. right. split; [reflexivity|]. intros c' E. injection E as ? ?. contradiction.
Qed.
Lemma exited_next_cases ow e j x : exited_next ow e j x <> None ->
  (exists c, e = ECmdExit j c) \/ (x <> None /\ exited_next ow e j x = x).
Proof.
  destruct e; cbn; auto.
  - destruct ow; [congruence|auto].
  - destruct (N.eqb_spec i j); [subst; eauto|auto].
Qed.
Lemma cl_pre_alive e : cl_pre e = Some CAlive -> exists c, e = EWaitReturn c.
Proof. destruct e; cbn; try discriminate; eauto. Qed.
Lemma cl_pre_norel e : cl_pre e <> Some CRel.
Proof. destruct e; cbn; discriminate. Qed.

(* proved in an empty context: the same case analysis inside R4_core costs 100 s because of its many hypotheses *)
Lemma pk_next_pw e : match e with EInstExit => true | _ => false end = true <-> pk_next e = PW.
Proof. destruct e; cbn; split; congruence. Qed.
Lemma pk_next_pc e : match e with EExitTrigger _ => true | _ => false end = true <-> exists c, pk_next e = PC c.
Proof. destruct e; cbn; split; try congruence; try (intros (z & Hz); congruence); eauto. Qed.

Lemma classic_trig e : (exists z, e = EExitTrigger z) \/ (forall z, e <> EExitTrigger z).
Proof. destruct e; try (right; intros; discriminate). left. eauto. Qed.

Lemma newinst_inst_eff s th i n s' : step_core s th (ENewInst i n) = Some s' -> inst_eff s th (ENewInst i n) s'.
Proof.
  intros H j x Hj. destruct (newinst_eff _ _ _ _ _ H) as (Hnone & c & Hget).
  exists x. rewrite Hget. destruct (N.eqb_spec i j); [subst; congruence|]. split; [exact Hj|].
  cbn. destruct (own _ _ _); auto.
Qed.
Lemma is_newinst_dec e i : (exists n, e = ENewInst i n) \/ (forall n, e <> ENewInst i n).
Proof.
  destruct e; try (right; intros; discriminate). destruct (N.eqb_spec i0 i); [subst; eauto|].
  right. intros n' E. injection E as ? ?. contradiction.
Qed.
Lemma core_inst_eff' s th e s' : step_core s th e = Some s' -> inst_eff s th e s'.
Proof.
  intros H. destruct e; try (apply core_inst_eff; [exact H|intros; discriminate]). now apply newinst_inst_eff.
Qed.

Lemma classic_sdorder e : (exists l, e = EShutdownOrder l) \/ (forall l, e <> EShutdownOrder l).
Proof. destruct e; try (right; intros; discriminate). left. eauto. Qed.

Lemma R4_core s o g th e s' :
  R4 cs s o g -> pend (get_thread s th) = None -> step_core s th e = Some s' ->
  Rc cs s' (obs_step cs o (th, e)) ->
  R4 cs s' (obs_step cs o (th, e)) (gcore o th e g).
Proof.
  intros HR Hp H HRc.
  pose proof (core_stage _ _ _ _ H) as HSt.
  pose proof (core_inst_eff' _ _ _ _ H) as HI.
  pose proof (core_none _ _ _ _ H) as HN.
  destruct (core_scal _ _ _ _ H) as (Swg & Scs & Spc & Sthi & Sthr).
  destruct (core_thr _ _ _ _ H) as (Tpk & Tdpc & Tapc). specialize (Tpk Hp).
  pose proof (fun c => core_pre _ _ _ _ c H) as Gpre.
  assert (HRc0 := r_core _ _ _ _ HR).
  assert (Hoth : forall t, get t (thinst s) = get t (o_th o)) by (apply (rc_th _ _ _ HRc0)).
  assert (Hwf : memN th (g_wp g) = false).
  { destruct (memN th (g_wp g)) eqn:E; [|reflexivity]. apply (r_wp _ _ _ _ HR) in E. rewrite Hp in E. discriminate. }
  assert (Htf : memN th (g_tp g) = false).
  { destruct (memN th (g_tp g)) eqn:E; [|reflexivity]. apply (r_tp _ _ _ _ HR) in E. destruct E as (c & E). rewrite Hp in E. discriminate. }
  assert (Hback : forall j x' x, get j (insts s') = Some x' -> get j (insts s) = Some x ->
            cl (pc x') = (if own (thinst s) th j then cl_next e (cl (pc x)) else cl (pc x)) /\
            alive x' = alive_next (own (thinst s) th j) e j (alive x) /\
            exited x' = exited_next (own (thinst s) th j) e j (exited x)).
  { intros j x' x Hx' Ex. destruct (HI j x Ex) as (x2 & E2 & ?). assert (x2 = x') by congruence. subst. auto. }
  (* thinst after the step *)
  assert (Hthi' : forall t j, get t (thinst s') = Some j ->
            get t (thinst s) = Some j \/ (e = EBegin j /\ t = th /\ get th (thinst s) = None)).
  { intros t j. rewrite Sthi. destruct e; auto. rewrite get_set. destruct (N.eqb_spec th t); [|auto].
    intros E. injection E as <-. subst t. right. destruct (g_begin _ _ _ _ H) as (x & _ & Hn & _). auto. }
  assert (Hthi_mono : forall t j, get t (thinst s) = Some j -> get t (thinst s') = Some j).
  { intros t j Ht. rewrite Sthi. destruct e; auto. rewrite get_set. destruct (N.eqb_spec th t); [|auto].
    subst t. destruct (g_begin _ _ _ _ H) as (x & _ & Hn & _). congruence. }
  (* the ghost after the step *)
  assert (Gsp : forall j, In j (g_sp g) -> In j (g_sp (gcore o th e g))) by (intros j Hj; destruct e; cbn; auto).
  assert (Gwp : forall t, memN t (g_wp (gcore o th e g)) = if N.eqb t th then (match e with EInstExit => true | _ => memN t (g_wp g) end) else memN t (g_wp g)).
  { intros t. destruct e; cbn -[memN]; try (destruct (N.eqb t th); reflexivity). rewrite memN_cons. destruct (N.eqb t th); reflexivity. }
  assert (Gtp : forall t, memN t (g_tp (gcore o th e g)) = if N.eqb t th then (match e with EExitTrigger _ => true | _ => memN t (g_tp g) end) else memN t (g_tp g)).
  { intros t. destruct e; cbn -[memN]; try (destruct (N.eqb t th); reflexivity). rewrite memN_cons. destruct (N.eqb t th); reflexivity. }
  assert (Hpk' : forall t, pk (pend (get_thread s' t)) = if N.eqb t th then pk_next e else pk (pend (get_thread s t))).
  { intros t. destruct (N.eqb_spec t th); [subst; exact Tpk|now rewrite Sthr]. }
  assert (Otr : forall t, In t (o_triggers o) -> In t (o_triggers (obs_step cs o (th, e)))).
  { intros t Hin. rewrite obs_trig. destruct e; auto. destruct (get th (o_th o)); auto. apply in_or_app. now left. }
  assert (Oapi : o_api_sd_first o = true -> o_api_sd_first (obs_step cs o (th, e)) = true).
  { intros Ha. rewrite obs_api. destruct e; auto. now rewrite Ha. }
  constructor.
  - exact HRc.
  - apply obs_nodup, (r_nodup _ _ _ _ HR).
  - rewrite Swg, (r_wg _ _ _ _ HR). destruct e; reflexivity.
  - intros t. rewrite Gwp, Hpk'. destruct (N.eqb_spec t th); [subst|apply (r_wp _ _ _ _ HR)].
    rewrite Hwf. apply pk_next_pw.
  - intros t. rewrite Gtp, Hpk'. destruct (N.eqb_spec t th); [subst|apply (r_tp _ _ _ _ HR)].
    rewrite Htf. apply pk_next_pc.
  - (* the observer's "code fixed" implies the model's *)
    rewrite obs_fixed, Scs. intros Hf.
    assert (Hor : o_code_fixed o = true \/ memN th (o_trig_th o) = true).
    { destruct e; auto; apply orb_true_iff in Hf; exact Hf. }
    destruct Hor as [Hor|Hor]; [now apply (r_fix _ _ _ _ HR)|].
    destruct (r_trth _ _ _ _ HR th Hor) as [Hc|Hc]; [exact Hc|congruence].
  - (* goroutines that logged an exit_trigger *)
    intros t Ht. rewrite obs_trigth in Ht. rewrite Scs, Gtp. destruct (N.eqb_spec t th) as [Heq|Hne]; [subst t|].
    + destruct (classic_trig e) as [(z & ->)|Hnt]; [now right|].
      assert (Ht0 : memN th (o_trig_th o) = true) by (destruct e; auto; exfalso; eapply Hnt; reflexivity).
      destruct (r_trth _ _ _ _ HR th Ht0) as [Hc|Hc]; [now left|congruence].
    + assert (Ht0 : memN t (o_trig_th o) = true).
      { destruct e; auto. destruct (get th (o_th o)); auto. rewrite memN_cons in Ht.
        rewrite (proj2 (N.eqb_neq t th) Hne) in Ht. exact Ht. }
      destruct (r_trth _ _ _ _ HR t Ht0) as [Hc|Hc]; auto.
  - (* thinst injective *)
    intros t1 t2 i H1 H2. destruct (Hthi' _ _ H1) as [A1|(A1 & B1 & C1)]; destruct (Hthi' _ _ H2) as [A2|(A2 & B2 & C2)].
    + eapply (r_inj _ _ _ _ HR); eauto.
    + subst e. destruct (g_begin _ _ _ _ H) as (x & _ & _ & _ & Hne). exfalso. eapply Hne; eauto.
    + subst e. destruct (g_begin _ _ _ _ H) as (x & _ & _ & _ & Hne). exfalso. eapply Hne; eauto.
    + congruence.
  - (* begun instances exist *)
    intros t i Ht. destruct (Hthi' _ _ Ht) as [A|(A & B & C)].
    + destruct (r_thi _ _ _ _ HR t i A) as (x & Hx). destruct (HI i x Hx) as (x' & Hx' & _). eauto.
    + subst e. destruct (g_begin _ _ _ _ H) as (x & Hx & _). destruct (HI i x Hx) as (x' & Hx' & _). eauto.
  - (* Pown *)
    intros t i x' Ht Hx'.
    assert (Hex : exists x, get i (insts s) = Some x).
    { destruct (Hthi' _ _ Ht) as [A|(A & B & C)]; [now apply (r_thi _ _ _ _ HR t i)|].
      subst e. destruct (g_begin _ _ _ _ H) as (x0 & Hx0 & _). eauto. }
    destruct Hex as (x & Hx). destruct (Hback _ _ _ Hx' Hx) as (Ecl & _ & _).
    destruct (Hthi' _ _ Ht) as [A|(A & B & C)].
    2:{ (* the goroutine begins *)
      subst e t. pose proof (g_begin2 _ _ _ _ H) as Es'. destruct (g_begin _ _ _ _ H) as (x0 & Hx0 & _ & Hthr0 & Hne).
      assert (Eow : own (thinst s) th i = false) by (apply own_false_of; congruence). rewrite Eow in Ecl.
      assert (Et0 : get_thread s' th = thread0) by (subst s'; unfold get_thread; cbn; now rewrite Hthr0).
      unfold Pown. rewrite Et0. cbn [apc dpc thread0]. repeat split; try congruence.
      - intros _. apply Gsp. cbn in HSt. destruct HSt as (_ & c3 & Hc3). exact (r_stage _ _ _ _ HR i c3 Hc3).
      - intros Hc. exfalso. destruct (rc_inst _ _ _ HRc0 i x Hx) as (xo & Hxo & _).
        destruct (r_inst _ _ _ _ HR i x xo Hx Hxo) as (_ & _ & _ & D & _).
        destruct D as (t & Ht'); [congruence|]. eapply Hne; eauto. }
    destruct (r_own _ _ _ _ HR t i x A Hx) as (PA & PB & PC & PD).
    destruct (N.eqb_spec t th) as [->|Hne].
    + (* the thread of the event *)
      assert (Eow : own (thinst s) th i = true) by (now apply own_true). rewrite Eow in Ecl.
      assert (Hpre : forall c0, cl_pre e = Some c0 -> cl (pc x) = c0).
      { intros c0 Ec0. destruct (Gpre c0 Ec0) as (i2 & x2 & Hi2 & Hx2 & Hc2). congruence. }
      assert (Hhas : has th (thinst s) = true) by (unfold has; now rewrite A).
      unfold Pown. repeat split.
      * intros Hprem. apply Gsp, PA. left.
        destruct (cl_pre e) as [c0|] eqn:Ec0.
        -- rewrite (Hpre c0 eq_refl). intros ->. now apply (cl_pre_norel e).
        -- destruct Hprem as [Hc|Hm]; [now rewrite Ecl, cl_next_nopre in Hc|].
           rewrite Gwp, N.eqb_refl in Hm. destruct e; try (cbn in Ec0; discriminate Ec0); rewrite Hwf in Hm; discriminate.
      * now apply Tapc.
      * intros Hd. rewrite Scs. destruct (dpc (get_thread s th)) eqn:Ed; try (apply PC; discriminate).
        assert (Ee : e = EShutdownCall).
        { destruct e; try reflexivity; exfalso; apply Hd; apply Tdpc; auto; discriminate. }
        subst e. destruct (g_sdcall _ _ _ H) as [Ha|(i2 & x2 & c & Hi2 & Hx2 & Hp2)]; [congruence|].
        assert (i2 = i) by congruence. subst i2. assert (x2 = x) by congruence. subst x2.
        destruct PD as [PD|PD]; [now rewrite Hp2|exact PD|congruence].
      * intros Hc. rewrite Ecl in Hc. rewrite Scs, Gtp, N.eqb_refl.
        destruct (cl_next_trig _ _ Hc) as [(z & ->)|Hc2]; [now right|].
        destruct (PD Hc2) as [PD'|PD']; [now left|congruence].
    + (* another thread *)
      assert (Eow : own (thinst s) th i = false).
      { apply own_false_of. intros Hc. apply Hne. eapply (r_inj _ _ _ _ HR); eauto. }
      rewrite Eow in Ecl. unfold Pown. rewrite Ecl, (Sthr t Hne), Scs, Gwp, Gtp. rewrite (proj2 (N.eqb_neq t th) Hne).
      repeat split; auto.
  - (* threads with a pending release of interest *)
    intros t Hm. rewrite Gwp, Gtp in Hm. rewrite Gwp, Gtp. destruct (N.eqb_spec t th) as [Heq|Hne]; [subst t|].
    + rewrite Hwf, Htf in *.
      assert (Hee : e = EInstExit \/ exists z, e = EExitTrigger z).
      { destruct e; destruct Hm as [Hm|Hm]; try discriminate Hm; eauto. }
      assert (Hpre : cl_pre e = Some COther) by (destruct Hee as [->|(z & ->)]; reflexivity).
      destruct (Gpre _ Hpre) as (i & x & Hi & Hx & Hc). destruct (HI i x Hx) as (x' & Hx' & Ecl & _).
      assert (Eow : own (thinst s) th i = true) by (now apply own_true). rewrite Eow, Hc in Ecl.
      exists i, x'. split; [now apply Hthi_mono|]. split; [exact Hx'|]. rewrite Ecl.
      destruct Hee as [->|(z & ->)]; cbn; split; auto; discriminate.
    + destruct (r_pend _ _ _ _ HR t Hm) as (i & x & Hi & Hx & A & B).
      destruct (HI i x Hx) as (x' & Hx' & Ecl & _).
      assert (Eow : own (thinst s) th i = false).
      { apply own_false_of. intros Hc. apply Hne. eapply (r_inj _ _ _ _ HR); eauto. }
      rewrite Eow in Ecl. exists i, x'. rewrite Ecl. auto.
  - (* Pinst *)
    intros i x' xo' Hx' Hxo'. destruct (get i (insts s)) as [x|] eqn:Hx.
    2:{ (* a new instance *)
      destruct (is_newinst_dec e i) as [(n & ->)|Hno]; [|rewrite (HN i Hx Hno) in Hx'; discriminate].
      destruct (newinst_eff _ _ _ _ _ H) as (_ & c & Hget). rewrite Hget, N.eqb_refl in Hx'. injection Hx' as <-.
      destruct (obs_new cs o th i n) as (xo2 & Hxo2 & Oa & Oi & Ov). assert (xo2 = xo') by congruence. subst xo2.
      unfold Pinst. cbn. rewrite Oa, Oi, Ov. repeat split; try congruence. intros [?|?]; discriminate. }
    destruct (Hback _ _ _ Hx' Hx) as (Ecl & Eal & Eex).
    destruct (rc_inst _ _ _ HRc0 i x Hx) as (xo & Hxo & _).
    assert (Hnn : forall n, e <> ENewInst i n).
    { intros n ->. destruct (newinst_eff _ _ _ _ _ H) as (Hnone & _). congruence. }
    destruct (obs_oi cs o th e i xo Hxo Hnn) as (xo2 & Hxo2 & Oal & Oin & Ovi).
    assert (xo2 = xo') by congruence. subst xo2.
    assert (Eown : own (o_th o) th i = own (thinst s) th i) by (unfold own; now rewrite Hoth).
    rewrite Eown in Oal.
    destruct (r_inst _ _ _ _ HR i x xo Hx Hxo) as (PA & PB & PC & PD & PE).
    assert (Hpre : own (thinst s) th i = true -> forall c0, cl_pre e = Some c0 -> cl (pc x) = c0).
    { intros Ho c0 Ec0. apply own_true in Ho. destruct (Gpre c0 Ec0) as (i2 & x2 & Hi2 & Hx2 & Hc2). congruence. }
    assert (Hstay : cl (pc x) = CAlive -> exited x = None -> cl (pc x') = CAlive).
    { intros Hc He. rewrite Ecl. destruct (own (thinst s) th i) eqn:Eo; [|exact Hc].
      destruct (cl_pre e) as [c0|] eqn:Ec0; [|now rewrite cl_next_nopre].
      pose proof (Hpre eq_refl c0 eq_refl) as Hc0. rewrite Hc in Hc0. subst c0.
      destruct (cl_pre_alive _ Ec0) as (z & ->). destruct (g_waitret _ _ _ _ H) as (i2 & x2 & Hi2 & Hx2 & He2).
      apply own_true in Eo. congruence. }
    unfold Pinst. split; [|split; [|split; [|split]]].
    + rewrite Oal, Eal, PA. reflexivity.
    + intros Ha. split.
    { rewrite Eal in Ha. destruct (alive_next_cases _ _ _ _ Ha) as [(-> & Eo)|(Ha0 & Hnc)].
      * rewrite Ecl, Eo. reflexivity.
      * destruct (PB Ha0) as (Hc & He). now apply Hstay. }
      rewrite Eal in Ha. rewrite Eex. destruct (alive_next_cases _ _ _ _ Ha) as [(-> & Eo)|(Ha0 & Hnc)].
      * cbn. pose proof (Hpre Eo COther eq_refl) as Hc. destruct (exited x) eqn:Ee; [|reflexivity].
        exfalso. assert (cl (pc x) = CAlive) by (apply PC; congruence). congruence.
      * destruct (PB Ha0) as (Hc & He). rewrite He. destruct e; cbn; try reflexivity.
        -- destruct (own _ _ _); reflexivity.
        -- destruct (N.eqb_spec i0 i); [subst; exfalso; eapply Hnc; reflexivity|reflexivity].
    + intros He. rewrite Eex in He. destruct (exited_next_cases _ _ _ _ He) as [(c & ->)|(He0 & Esame)].
      * destruct (g_cmdexit _ _ _ _ _ H) as (x2 & Hx2 & Ha2). assert (x2 = x) by congruence. subst x2.
        destruct (PB Ha2) as (Hc & He2). now apply Hstay.
      * pose proof (PC He0) as Hc. rewrite Ecl. destruct (own (thinst s) th i) eqn:Eo; [|exact Hc].
        destruct (cl_pre e) as [c0|] eqn:Ec0; [|now rewrite cl_next_nopre].
        pose proof (Hpre eq_refl c0 eq_refl) as Hc0. rewrite Hc in Hc0. subst c0.
        destruct (cl_pre_alive _ Ec0) as (z & ->). cbn in Esame. congruence.
    + intros Hc. destruct (own (thinst s) th i) eqn:Eo.
      * apply own_true in Eo. exists th. now apply Hthi_mono.
      * rewrite Ecl in Hc. destruct (PD Hc) as (t & Ht). exists t. now apply Hthi_mono.
    + intros Hv. rewrite Scs. rewrite Oin, Ovi in Hv.
      destruct (classic_sdorder e) as [(l & ->)|Hns].
      * (* a shutdown snapshot: the code is fixed, or it is an API shutdown before any trigger *)
        rewrite obs_api. destruct (get th (o_th o)) as [j|] eqn:Ej.
        -- left. rewrite <- Hoth in Ej. destruct (r_thi _ _ _ _ HR th j Ej) as (xj & Hxj).
           apply (r_own _ _ _ _ HR th j xj Ej Hxj). rewrite (g_sdorder _ _ _ _ H). discriminate.
        -- destruct (o_code_fixed o) eqn:Efx; [left; now apply (r_fix _ _ _ _ HR)|right; now rewrite orb_true_r].
      * assert (Hv0 : o_insnap xo = true \/ o_sd_victim xo = true).
        { destruct e; try (exfalso; eapply Hns; reflexivity); cbn in Hv; rewrite ?orb_false_r in Hv; auto.
          destruct (N.eqb i0 i); destruct Hv; auto. }
        destruct (PE Hv0) as [E|E]; [now left|right; now apply Oapi].
  - rewrite Scs, Spc. apply (r_c0 _ _ _ _ HR).
  - rewrite Scs, Spc. intros Hc. destruct (r_c1 _ _ _ _ HR Hc) as (t & Hin & Hcode & Hd). exists t. repeat split; auto.
    destruct Hd as [Hd|Hd]; [now left|right; now apply Oapi].
  - intros t c. rewrite Hpk', Scs. destruct (N.eqb_spec t th) as [Heq|Hne]; [subst t|].
    + intros Hk. assert (Ee : e = EExitTrigger c) by (destruct e; cbn in Hk; try discriminate Hk; congruence). subst e.
      destruct (Gpre _ eq_refl) as (i & x & Hi & Hx & Hc).
      assert (Hoi : get th (o_th o) = Some i) by (now rewrite <- Hoth).
      destruct (rc_inst _ _ _ HRc0 i x Hx) as (xo & Hxo & _).
      exists (i, c, o_sd_victim (oi_get o i)). split; [|split; [reflexivity|]].
      * rewrite obs_trig, Hoi. apply in_or_app. right. now left.
      * cbn [snd]. unfold oi_get. rewrite Hxo. destruct (o_sd_victim xo) eqn:Ev; [|now right; left].
        destruct (r_inst _ _ _ _ HR i x xo Hx Hxo) as (_ & _ & _ & _ & E).
        destruct E as [E|E]; [now right|now left|right; right; now apply Oapi].
    + intros Hk. destruct (r_c2 _ _ _ _ HR t c Hk) as (tr & Hin & Hcode & Hd). exists tr. repeat split; auto.
      destruct Hd as [Hd|[Hd|Hd]]; auto.
  - intros Hne. destruct (classic_trig e) as [(z & ->)|Hnt].
    + right. exists th. now rewrite Gtp, N.eqb_refl.
    + assert (Etr : o_triggers (obs_step cs o (th, e)) = o_triggers o) by (rewrite obs_trig; destruct e; try reflexivity; exfalso; eapply Hnt; reflexivity).
      rewrite Etr in Hne. rewrite Scs. destruct (r_c3 _ _ _ _ HR Hne) as [Hc|(t & Ht)]; [now left|].
      right. exists t. rewrite Gtp. destruct (N.eqb_spec t th); [subst; congruence|exact Ht].
  - (* a spawned, not yet begun instance holds a token *)
    intros j c Hj. unfold stage_eff in HSt.
    assert (Hold : get j (stage s) = Some (c, 3) -> In j (g_sp (gcore o th e g))) by (intros Ho; apply Gsp; exact (r_stage _ _ _ _ HR j c Ho)).
    destruct e; try (rewrite HSt in Hj; now apply Hold).
    + rewrite HSt, get_set in Hj. destruct (N.eqb_spec i j); [discriminate|now apply Hold].
    + destruct HSt as [HSt _]. rewrite HSt, get_set in Hj. destruct (N.eqb_spec i j); [discriminate|now apply Hold].
    + destruct HSt as [HSt _]. rewrite HSt, get_set in Hj. cbn. destruct (N.eqb_spec i j); [now left|right].
      exact (r_stage _ _ _ _ HR j c Hj).
    + destruct HSt as [HSt _]. rewrite HSt, get_del in Hj. destruct (N.eqb_spec i j); [discriminate|now apply Hold].
    + destruct HSt as [HSt|[HSt _]]; rewrite HSt in Hj; [now apply Hold|].
      rewrite get_set in Hj. destruct (N.eqb_spec i j); [discriminate|now apply Hold].
  - (* begun instances have left the creation stages *)
    intros t j Ht. unfold stage_eff in HSt. destruct (Hthi' _ _ Ht) as [A|(A & B & C)].
    2:{ subst e t. destruct HSt as [HSt _]. rewrite HSt. apply get_del_same. }
    pose proof (r_nostage _ _ _ _ HR t j A) as Hn.
    destruct e; try (rewrite HSt; exact Hn).
    + rewrite HSt, get_set. destruct (N.eqb_spec i j); [|exact Hn]. subst i.
      destruct (newinst_eff _ _ _ _ _ H) as (Hnone & _). destruct (r_thi _ _ _ _ HR t j A) as (x & Hx). congruence.
    + destruct HSt as [HSt Hg]. rewrite HSt, get_set. destruct (N.eqb_spec i j); [subst; congruence|exact Hn].
    + destruct HSt as [HSt Hg]. rewrite HSt, get_set. destruct (N.eqb_spec i j); [subst; congruence|exact Hn].
    + destruct HSt as [HSt _]. rewrite HSt, get_del. destruct (N.eqb i j); [reflexivity|exact Hn].
    + destruct HSt as [HSt|[HSt Hg]]; rewrite HSt; [exact Hn|].
      rewrite get_set. destruct (N.eqb_spec i j); [subst; congruence|exact Hn].
Qed.

(* at ERunReturn the monitor's check follows from the relation *)
Lemma R4_mon s o g th : R4 cs s o g -> wg s = 0 -> mon_C04 cs o (th, ERunReturn (proj_code s)) = true.
Proof.
  intros HR Hwg. assert (Hsp : g_sp g = []).
  { rewrite (r_wg _ _ _ _ HR) in Hwg. destruct (g_sp g); [reflexivity|discriminate]. }
  assert (Hnotok : forall t i x, get t (thinst s) = Some i -> get i (insts s) = Some x -> cl (pc x) = CRel).
  { intros t i x Ht Hx. destruct (r_own _ _ _ _ HR t i x Ht Hx) as (A & _).
    destruct (cl (pc x)) eqn:E; try reflexivity; exfalso; (assert (Hin : In i (g_sp g)) by (apply A; left; discriminate));
      rewrite Hsp in Hin; exact Hin. }
  assert (Hnotp : forall t, memN t (g_tp g) = false).
  { intros t. destruct (memN t (g_tp g)) eqn:E; [|reflexivity].
    destruct (r_pend _ _ _ _ HR t (or_intror E)) as (i & x & Ht & Hx & _ & B).
    rewrite (Hnotok _ _ _ Ht Hx) in B. specialize (B E). discriminate. }
  unfold mon_C04. cbn [snd]. apply andb_true_iff. split.
  - (* no command alive *)
    apply forallb_forall. intros xo Hin.
    destruct (in_vals_get _ _ (r_nodup _ _ _ _ HR) Hin) as (i & Hxo).
    destruct (get i (insts s)) as [x|] eqn:Hx.
    2:{ rewrite (rc_noinst _ _ _ (r_core _ _ _ _ HR) i Hx) in Hxo. discriminate. }
    destruct (r_inst _ _ _ _ HR i x xo Hx Hxo) as (A & B & _ & D & _).
    rewrite A. destruct (alive x) eqn:Ea; [|reflexivity]. exfalso.
    destruct (B eq_refl) as (Hc & _). destruct D as (t & Ht); [congruence|].
    pose proof (Hnotok _ _ _ Ht Hx). congruence.
  - (* the exit code *)
    destruct (o_triggers o) as [|t0 ts] eqn:Etr.
    + destruct (code_set s) eqn:Ecs.
      * destruct (r_c1 _ _ _ _ HR Ecs) as (t & Hin & _). rewrite Etr in Hin. destruct Hin.
      * rewrite (r_c0 _ _ _ _ HR Ecs). reflexivity.
    + assert (Ecs : code_set s = true).
      { destruct (r_c3 _ _ _ _ HR) as [E|(t & E)]; [rewrite Etr; discriminate|exact E|]. rewrite Hnotp in E. discriminate. }
      destruct (r_c1 _ _ _ _ HR Ecs) as (t & Hin & Hcode & Hd). rewrite Etr in Hin.
      assert (Hany : existsb (fun t1 : iid * Z * bool => (snd (fst t1) =? proj_code s)%Z) (t0 :: ts) = true).
      { apply existsb_exists. exists t. split; [exact Hin|]. now apply Z.eqb_eq. }
      destruct (o_api_sd_first o) eqn:Eapi; [exact Hany|].
      destruct (filter (fun t1 : iid * Z * bool => negb (snd t1)) (t0 :: ts)) eqn:Ef; [exact Hany|].
      rewrite <- Ef. apply existsb_exists. exists t. split; [|now apply Z.eqb_eq].
      apply filter_In. split; [exact Hin|]. destruct Hd as [Hd|Hd]; [now rewrite Hd|discriminate].
Qed.

Lemma R4_step s o g te s' : R4 cs s o g -> step s te = Some s' ->
  R4 cs s' (obs_step cs o te) (gstep o g te) /\ mon_C04 cs o te = true.
Proof.
  intros HR H. destruct te as [th e]. pose proof (Rc_step cs _ _ _ _ _ (r_core _ _ _ _ HR) H) as HRc.
  unfold step in H. cbn [fst snd] in H. unfold gstep in *. cbn [fst snd] in *.
  destruct (R4_flush cs _ _ _ th HR) as (HR0 & Hp0).
  split; [now apply (R4_core _ _ _ _ _ _ HR0 Hp0 H)|].
  destruct e; try reflexivity.
  destruct (g_runret _ _ _ _ H) as (Hwg & ->). now apply (R4_mon _ _ _ th HR0).
Qed.
End Core.

(* ---- the theorem ------------------------------------------------------------------------------------- *)
Theorem C04_main_lemma : forall cs ord evs s,
  accept (init cs ord) evs = Some s -> holds_C04 cs evs = true.
Proof.
  intros cs ord evs s Hacc. unfold holds_C04.
  apply (gsim_holds cs ord ghost ghost0 gstep gbad (R4 cs) (mon_C04 cs) (R4_init cs ord)) with (s := s).
  - intros s0 o g e s1 HR Hs Hb. eapply R4_step; eauto.
  - intros o g e. apply gstep_bad_mono.
  - exact Hacc.
  - reflexivity.
Qed.

(* ---- concrete histories ------------------------------------------------------------------------------- *)
Module C04Refute.
Open Scope N_scope.
(* (1) under the first version of the model a goroutine could begin for an instance that was never spawned
   (no waitGroup.Add) and Run() returned with its command alive; the hardened model rejects this history
   (instance creation is staged on one thread: NewProcess by a creating API thread, Pending, registered,
   spawned, begun), and evs1b, which is in order except for the missing ESpawn, is rejected exactly at EBegin: *)
Definition cD := mkConf [] PNo 0 0 false false false false false false true.
Definition cs1 : amap pconf := [(1, cD)].
Definition evs1 : list (tid * event) :=
 [(10, ENewInst 1 1); (10, ERegAdd 1 1); (1, EBegin 1); (1, ERunChecked false); (1, EStarted); (1, EState 1 SRunning);
  (1, ELaunch true); (0, EApiBegin OpRun); (0, ERunSpawned); (0, ERunReturn 0%Z)].
(* (2) a shutdown requested through the API between the exit_trigger trace point of a failing
   exit_on_failure process (code 3) and its exitCodeOnce.Do: the victim of that shutdown (code 7) fixes
   the project exit code first.  Under the first version of the observer (o_api_sd_first only when NO
   exit_trigger had been logged) this history contradicted the monitor; with the widened o_api_sd_first
   it is an API shutdown that came before the code was fixed, and the monitor accepts any trigger's code
   (C04_api_shutdown_race_ok below). *)
Definition cF := mkConf [] PExitOnFailure 0 0 false false false false false false false.
Definition cs2 : amap pconf := [(0, cF); (1, cF)].
Definition evs2 : list (tid * event) :=
 [(1, EApiBegin OpRun);
  (1, ENewInst 1 0); (1, EState 1 SPending); (1, ERegAdd 1 0); (1, ESpawn 1 0);
  (1, ENewInst 2 1); (1, EState 2 SPending); (1, ERegAdd 2 1); (1, ESpawn 2 1);
  (1, ERunSpawned);
  (2, EBegin 1); (3, EBegin 2);
  (2, ERunChecked false); (2, EStarted); (2, EState 1 SRunning); (2, ELaunch true);
  (3, ERunChecked false); (3, EStarted); (3, EState 2 SRunning); (3, ELaunch true);
  (0, ECmdExit 1 3%Z); (2, EWaitReturn 3%Z); (2, EExitCode 3%Z); (2, ERestartDecision false);
  (2, EProcEnd 1 SCompleted); (2, EState 1 SCompleted); (2, EProcEnded 1 SCompleted);
  (2, ERunReturned 3%Z); (2, EDoneAdd 1); (2, EInstDone);
  (2, EExitTrigger 3%Z);
  (5, EApiBegin OpShutdown); (5, EShutdownCall); (5, EShutdownBegin); (5, EShutdownOrder [1; 2]);
  (5, EStopEnter 1 true); (5, EStopReturn 1);
  (5, EStopEnter 2 true); (5, EStopRunning 2); (5, EState 2 STerminating); (5, ESignal 2 15%Z false); (5, EStopReturn 2);
  (0, ECmdExit 2 7%Z); (3, EWaitReturn 7%Z); (3, EExitCode 7%Z); (3, ERestartDecision false);
  (3, EProcEnd 2 SCompleted); (3, EState 2 SCompleted); (3, EProcEnded 2 SCompleted);
  (3, ERunReturned 7%Z); (3, EDoneAdd 2); (3, EInstDone);
  (5, EShutdownEnd); (5, EShutdownUnlocked); (5, EApiReturn true);
  (3, EExitTrigger 7%Z); (3, EResume);
  (3, EShutdownCall); (3, EShutdownBegin); (3, EShutdownOrder [1; 2]);
  (3, EStopEnter 1 true); (3, EStopReturn 1); (3, EStopEnter 2 true); (3, EStopReturn 2);
  (3, EShutdownEnd); (3, EShutdownUnlocked); (3, EExitCodeSet 7%Z); (3, EInstExit); (3, EWgDone);
  (2, EResume);
  (2, EShutdownCall); (2, EShutdownBegin); (2, EShutdownOrder [1; 2]);
  (2, EStopEnter 1 true); (2, EStopReturn 1); (2, EStopEnter 2 true); (2, EStopReturn 2);
  (2, EShutdownEnd); (2, EShutdownUnlocked); (2, EExitCodeSet 7%Z); (2, EInstExit); (2, EWgDone);
  (1, ERunReturn 7%Z); (1, EApiReturn false)].
Definition cN := mkConf [] PNo 0 0 false false false false false false false.
Definition cs1b : amap pconf := [(1, cN)].
Definition evs1b : list (tid * event) :=
 [(0, EApiBegin OpRun); (0, ENewInst 1 1); (0, EState 1 SPending); (0, ERegAdd 1 1); (1, EBegin 1)].
End C04Refute.

Definition accepted_hist (cs : amap pconf) (ord : bool) (evs : list (tid * event)) : bool :=
  match accept (init cs ord) evs with Some _ => true | None => false end.

Lemma C04_nospawn_rejected_lemma :
  accept (init C04Refute.cs1 false) C04Refute.evs1 = None /\
  accept (init C04Refute.cs1b false) C04Refute.evs1b = None /\
  fst (accept_prefix (init C04Refute.cs1b false) C04Refute.evs1b 0) = 4.
Proof. repeat split; vm_compute; reflexivity. Qed.

(* regression: with the widened o_api_sd_first (API snapshot before the project exit code was fixed) the
   84-event history - formerly a counterexample to the exit-code clause - satisfies the monitor *)
Lemma C04_api_shutdown_race_ok :
  accepted_hist C04Refute.cs2 false C04Refute.evs2 = true /\
  holds_C04 C04Refute.cs2 C04Refute.evs2 = true /\ o_api_sd_first (final_obs C04Refute.cs2 C04Refute.evs2) = true.
Proof. repeat split; vm_compute; reflexivity. Qed.

(* ---- the monitor unfolded: a position-quantified statement about the history ----------------------- *)
Definition obs_at (cs : amap pconf) (evs : list (tid * event)) (k : nat) : obs :=
  fold_left (obs_step cs) (firstn k evs) (obs0 cs).

Lemma mon_run_nth cs m : forall evs o k0, mon_run cs m o evs k0 = None ->
  forall k te, nth_error evs k = Some te -> m (fold_left (obs_step cs) (firstn k evs) o) te = true.
Proof.
  induction evs as [|e r IH]; intros o k0 Hrun k te Hn; [destruct k; discriminate|].
  cbn in Hrun. destruct (m o e) eqn:Em; [|discriminate]. destruct k as [|k]; cbn in *.
  - injection Hn as <-. exact Em.
  - eapply IH; eauto.
Qed.

Lemma holds_nth cs m evs : holds cs m evs = true ->
  forall k te, nth_error evs k = Some te -> m cs (obs_at cs evs k) te = true.
Proof.
  unfold holds. destruct (mon_run cs (m cs) (obs0 cs) evs 0) eqn:E; [discriminate|]. intros _ k te Hn.
  exact (mon_run_nth cs (m cs) evs (obs0 cs) 0 E k te Hn).
Qed.

(* what mon_C04 says at a Run() return with code c, in words of the observer's facts *)
Definition C04_at_return (o : obs) (c : Z) : Prop :=
  (forall x, In x (vals (oi o)) -> o_alive x = true -> o_byapi x = true) /\
  (o_triggers o = [] -> c = 0%Z) /\
  (o_triggers o <> [] ->
     exists t, In t (o_triggers o) /\ snd (fst t) = c /\
               (snd t = false \/ o_api_sd_first o = true \/ forall t', In t' (o_triggers o) -> snd t' = true)).

Lemma mon_C04_spec cs o th c : mon_C04 cs o (th, ERunReturn c) = true -> C04_at_return o c.
Proof.
  unfold mon_C04. cbn [snd]. intros H. apply andb_true_iff in H. destruct H as [H1 H2]. split; [|split].
  - intros x Hin Ha. rewrite forallb_forall in H1. specialize (H1 x Hin). rewrite Ha in H1. exact H1.
  - intros E. rewrite E in H2. now apply Z.eqb_eq.
  - intros Hne. destruct (o_triggers o) as [|t0 ts] eqn:Etr; [congruence|].
    assert (Hany : existsb (fun t : iid * Z * bool => (snd (fst t) =? c)%Z) (t0 :: ts) = true ->
                   (o_api_sd_first o = true \/ forall t', In t' (t0 :: ts) -> snd t' = true) ->
                   exists t, In t (t0 :: ts) /\ snd (fst t) = c /\
                             (snd t = false \/ o_api_sd_first o = true \/ forall t', In t' (t0 :: ts) -> snd t' = true)).
    { intros Hex Hd. apply existsb_exists in Hex. destruct Hex as (t & Hin & Hc). apply Z.eqb_eq in Hc.
      exists t. repeat split; auto. }
    destruct (o_api_sd_first o) eqn:Eapi; [apply Hany; auto|].
    destruct (filter (fun t : iid * Z * bool => negb (snd t)) (t0 :: ts)) as [|g0 gs] eqn:Ef.
    + apply Hany; [exact H2|]. right. intros t' Hin. destruct (snd t') eqn:Es; [reflexivity|].
      assert (Hf : In t' (filter (fun t : iid * Z * bool => negb (snd t)) (t0 :: ts))) by (apply filter_In; split; [exact Hin|now rewrite Es]).
      rewrite Ef in Hf. destruct Hf.
    + rewrite <- Ef in H2. apply existsb_exists in H2. destruct H2 as (t & Hin & Hc). apply filter_In in Hin.
      destruct Hin as [Hin Hg]. apply Z.eqb_eq in Hc. apply negb_true_iff in Hg. exists t. auto.
Qed.

Theorem C04_declarative_lemma : forall cs ord evs s,
  accept (init cs ord) evs = Some s ->
  forall k th c, nth_error evs k = Some (th, ERunReturn c) -> C04_at_return (obs_at cs evs k) c.
Proof.
  intros cs ord evs s Hacc k th c Hn. apply (mon_C04_spec cs _ th).
  exact (holds_nth cs mon_C04 evs (C04_main_lemma cs ord evs s Hacc) k _ Hn).
Qed.
