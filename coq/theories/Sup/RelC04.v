(* Simulation relation and proof for C04 (project completion and exit code).  Statements: Props/C04.v. *)
From Coq Require Import List ZArith NArith Bool Lia.
From RecordUpdate Require Import RecordSet.
From PC.Base Require Import Assoc.
From PC.Sup Require Import Model Monitors Check Tactics Sim ObsFacts Effects RelCore LemC04 LemC04b.
Import ListNotations RecordSetNotations.

(* ---- the ghost: facts about the history that neither the model state nor the observer keeps ---------- *)
Record ghost := mkG {
  g_sp : list iid;      (* wait-group tokens: one entry per ESpawn whose inst_exit release has not happened yet *)
  g_wp : list tid;      (* threads whose last event was inst_exit (waitGroup.Done() is next) *)
  g_tp : list tid;      (* threads whose last event was exit_trigger (exitCodeOnce.Do is next) *)
  g_cs : bool;          (* some thread has moved on after its exit_trigger: the project exit code is fixed *)
  g_badb : bool;        (* an instance goroutine began (EBegin) without a preceding ESpawn of that instance *)
  g_badsd : bool }.     (* an API-requested shutdown took its snapshot after an exit_trigger, before the code was fixed *)
#[export] Instance eta_ghost : Settable _ := settable! mkG <g_sp; g_wp; g_tp; g_cs; g_badb; g_badsd>.

Definition ghost0 := mkG [] [] [] false false false.
Definition gbad (g : ghost) : bool := g_badb g || g_badsd g.

Definition gflush (o : obs) (th : tid) (g : ghost) : ghost :=
  let g1 := if memN th (g_wp g)
            then g <| g_wp := removeN th (g_wp g) |>
                   <| g_sp := match get th (o_th o) with Some i => rem1 i (g_sp g) | None => g_sp g end |>
            else g in
  if memN th (g_tp g1) then g1 <| g_tp := removeN th (g_tp g1) |> <| g_cs := true |> else g1.

Definition gcore (o : obs) (th : tid) (e : event) (g : ghost) : ghost :=
  match e with
  | ESpawn i _ => g <| g_sp := i :: g_sp g |>
  | EBegin i => g <| g_badb := g_badb g || negb (memN i (g_sp g)) |>
  | EInstExit => g <| g_wp := th :: g_wp g |>
  | EExitTrigger _ => g <| g_tp := th :: g_tp g |>
  | EShutdownOrder _ =>
      g <| g_badsd := g_badsd g || ((match get th (o_th o) with None => true | Some _ => false end)
                                    && (match o_triggers o with [] => false | _ => true end) && negb (g_cs g)) |>
  | _ => g
  end.

Definition gstep (o : obs) (g : ghost) (te : tid * event) : ghost := gcore o (fst te) (snd te) (gflush o (fst te) g).

Lemma gflush_bad o th g : gbad (gflush o th g) = gbad g.
Proof. unfold gflush, gbad. destruct (memN th (g_wp g)); cbn; match goal with |- context[if ?b then _ else _] => destruct b end; reflexivity. Qed.
Lemma gcore_bad_mono o th e g : gbad g = true -> gbad (gcore o th e g) = true.
Proof.
  unfold gbad. intros H. apply orb_true_iff in H. destruct e; cbn; try (apply orb_true_iff; exact H);
    destruct H as [H|H]; rewrite H; cbn; rewrite ?orb_true_r; reflexivity.
Qed.
Lemma gstep_bad_mono o g e : gbad g = true -> gbad (gstep o g e) = true.
Proof. intros H. unfold gstep. apply gcore_bad_mono. now rewrite gflush_bad. Qed.

(* ---- the relation ------------------------------------------------------------------------------------ *)
Definition Pown (s : sys) (g : ghost) (th : tid) (i : iid) (x : inst) : Prop :=
  (cl (pc x) <> CRel \/ memN th (g_wp g) = true -> In i (g_sp g)) /\
  apc (get_thread s th) = ANone /\
  (dpc (get_thread s th) <> DNone -> code_set s = true) /\
  (cl (pc x) = CTrig -> code_set s = true \/ memN th (g_tp g) = true).

Definition Pinst (s : sys) (o : obs) (i : iid) (x : inst) (xo : oinst) : Prop :=
  o_alive xo = alive x /\
  (alive x = true -> cl (pc x) = CAlive /\ exited x = None) /\
  (exited x <> None -> cl (pc x) = CAlive) /\
  (cl (pc x) <> CPre -> exists th, get th (thinst s) = Some i) /\
  (o_insnap xo = true \/ o_sd_victim xo = true -> code_set s = true \/ o_api_sd_first o = true).

Section RelC04.
Context (cs : amap pconf).

Record R4 (s : sys) (o : obs) (g : ghost) : Prop := mkR4 {
  r_core : Rc cs s o;
  r_nodup : NoDup (map fst (oi o));
  r_wg : wg s = length (g_sp g);
  r_wp : forall th, memN th (g_wp g) = true <-> pk (pend (get_thread s th)) = PW;
  r_tp : forall th, memN th (g_tp g) = true <-> exists c, pk (pend (get_thread s th)) = PC c;
  r_cs : g_cs g = code_set s;
  r_inj : forall t1 t2 i, get t1 (thinst s) = Some i -> get t2 (thinst s) = Some i -> t1 = t2;
  r_thi : forall th i, get th (thinst s) = Some i -> exists x, get i (insts s) = Some x;
  r_own : forall th i x, get th (thinst s) = Some i -> get i (insts s) = Some x -> Pown s g th i x;
  r_pend : forall th, memN th (g_wp g) = true \/ memN th (g_tp g) = true ->
           exists i x, get th (thinst s) = Some i /\ get i (insts s) = Some x /\
                       (memN th (g_wp g) = true -> cl (pc x) = CRel) /\ (memN th (g_tp g) = true -> cl (pc x) = CTrig);
  r_inst : forall i x xo, get i (insts s) = Some x -> get i (oi o) = Some xo -> Pinst s o i x xo;
  r_c0 : code_set s = false -> proj_code s = 0%Z;
  r_c1 : code_set s = true -> exists t, In t (o_triggers o) /\ snd (fst t) = proj_code s /\
                                        (snd t = false \/ o_api_sd_first o = true);
  r_c2 : forall th c, pk (pend (get_thread s th)) = PC c ->
         exists t, In t (o_triggers o) /\ snd (fst t) = c /\ (code_set s = true \/ snd t = false \/ o_api_sd_first o = true);
  r_c3 : o_triggers o <> [] -> code_set s = true \/ exists th, memN th (g_tp g) = true
}.

Lemma R4_init ord : R4 (init cs ord) (obs0 cs) ghost0.
Proof.
  constructor; cbn; try discriminate; try tauto; try reflexivity.
  - apply Rc_init.
  - constructor.
  - intros th. split; discriminate.
  - intros th. split; [discriminate|]. intros (c & H). discriminate.
  - intros th [H|H]; discriminate.
Qed.

(* transfer of the relation along a change of model state and ghost that leaves the observer alone *)
Lemma R4_frame s o g s0 g0 :
  R4 s o g ->
  sys_same s s0 -> thinst s0 = thinst s ->
  (forall j, match get j (insts s) with
             | Some x => exists x', get j (insts s0) = Some x' /\ pc x' = pc x /\ alive x' = alive x /\ exited x' = exited x
             | None => get j (insts s0) = None end) ->
  (forall th', apc (get_thread s0 th') = apc (get_thread s th') /\ dpc (get_thread s0 th') = dpc (get_thread s th')) ->
  (code_set s = true -> code_set s0 = true /\ proj_code s0 = proj_code s) ->
  wg s0 = length (g_sp g0) ->
  (forall th', memN th' (g_wp g0) = true <-> pk (pend (get_thread s0 th')) = PW) ->
  (forall th', memN th' (g_tp g0) = true <-> exists c, pk (pend (get_thread s0 th')) = PC c) ->
  g_cs g0 = code_set s0 ->
  (forall th', memN th' (g_wp g0) = true -> memN th' (g_wp g) = true) ->
  (forall th', memN th' (g_tp g0) = true -> memN th' (g_tp g) = true) ->
  (forall th' i' x, get th' (thinst s) = Some i' -> get i' (insts s) = Some x ->
     (cl (pc x) <> CRel \/ memN th' (g_wp g0) = true) -> In i' (g_sp g) -> In i' (g_sp g0)) ->
  (forall th', memN th' (g_tp g) = true -> code_set s0 = true \/ memN th' (g_tp g0) = true) ->
  (code_set s0 = false -> code_set s = false /\ proj_code s0 = proj_code s) ->
  (code_set s = false -> code_set s0 = true ->
     exists t, In t (o_triggers o) /\ snd (fst t) = proj_code s0 /\ (snd t = false \/ o_api_sd_first o = true)) ->
  (forall th' c, pk (pend (get_thread s0 th')) = PC c -> pk (pend (get_thread s th')) = PC c) ->
  R4 s0 o g0.
Proof.
  intros HR Hsame Hthi Hins Hthr Hcs Hwg Hwp Htp Hgcs Hwsub Htsub Hsp Htrig Hc0 Hc1 Hc2.
  assert (Hback : forall j x', get j (insts s0) = Some x' ->
            exists x, get j (insts s) = Some x /\ pc x' = pc x /\ alive x' = alive x /\ exited x' = exited x).
  { intros j x' Hx'. specialize (Hins j). destruct (get j (insts s)) as [x|]; [|congruence].
    destruct Hins as (x2 & E2 & ? & ? & ?). assert (x2 = x') by congruence. subst. eauto. }
  assert (Hmono : code_set s = true -> code_set s0 = true) by (intros H; now apply Hcs).
  constructor.
  - eapply Rc_sys_same; [apply (r_core _ _ _ HR)|exact Hsame].
  - apply (r_nodup _ _ _ HR).
  - exact Hwg.
  - exact Hwp.
  - exact Htp.
  - exact Hgcs.
  - rewrite Hthi. apply (r_inj _ _ _ HR).
  - rewrite Hthi. intros th i Ht. destruct (r_thi _ _ _ HR th i Ht) as (x & Hx). specialize (Hins i). rewrite Hx in Hins.
    destruct Hins as (x' & ? & _). eauto.
  - rewrite Hthi. intros th i x' Ht Hx'. destruct (Hback _ _ Hx') as (x & Hx & Ep & Ea & Ee).
    destruct (r_own _ _ _ HR th i x Ht Hx) as (A & B & C & D). destruct (Hthr th) as (Eapc & Edpc).
    unfold Pown. rewrite Ep, Eapc, Edpc. repeat split.
    + intros H. eapply Hsp; eauto. apply A. destruct H as [H|H]; [now left|right; now apply Hwsub].
    + exact B.
    + intros H. apply Hmono. now apply C.
    + intros H. destruct (D H) as [H1|H1]; [left; now apply Hmono|now apply Htrig].
  - rewrite Hthi. intros th H.
    assert (H' : memN th (g_wp g) = true \/ memN th (g_tp g) = true) by (destruct H; [left; now apply Hwsub|right; now apply Htsub]).
    destruct (r_pend _ _ _ HR th H') as (i & x & Ht & Hx & A & B).
    specialize (Hins i). rewrite Hx in Hins. destruct Hins as (x' & Hx' & Ep & _).
    exists i, x'. rewrite Ep. repeat split; auto.
  - intros i x' xo Hx' Hxo. destruct (Hback _ _ Hx') as (x & Hx & Ep & Ea & Ee).
    destruct (r_inst _ _ _ HR i x xo Hx Hxo) as (A & B & C & D & E).
    unfold Pinst. rewrite Ep, Ea, Ee, Hthi. repeat split; auto; try (now apply B).
    intros H. destruct (E H) as [H1|H1]; [left; now apply Hmono|now right].
  - intros H. destruct (Hc0 H) as (H1 & H2). rewrite H2. now apply (r_c0 _ _ _ HR).
  - intros H. destruct (code_set s) eqn:Ecs.
    + destruct (Hcs eq_refl) as (_ & Ep). rewrite Ep. now apply (r_c1 _ _ _ HR).
    + now apply Hc1.
  - intros th c H. destruct (r_c2 _ _ _ HR th c (Hc2 _ _ H)) as (t & Hin & Hc & Hd). exists t. repeat split; auto.
    destruct Hd as [Hd|Hd]; [left; now apply Hmono|now right].
  - intros H. destruct (r_c3 _ _ _ HR H) as [H1|(th & H1)]; [left; now apply Hmono|].
    destruct (Htrig _ H1) as [H2|H2]; [now left|right; eauto].
Qed.

Lemma pk_none_upd (t : thread) : pk (pend (t <| pend := None |>)) = PO.
Proof. reflexivity. Qed.

Lemma R4_flush s o g th : R4 s o g ->
  R4 (flush th s) o (gflush o th g) /\ pend (get_thread (flush th s) th) = None.
Proof.
  intros HR. destruct (flush_spec th s) as (F1 & F2 & F3 & F4 & F5 & F6).
  split. 2:{ rewrite F3, N.eqb_refl. reflexivity. }
  assert (Hthr : forall th', apc (get_thread (flush th s) th') = apc (get_thread s th') /\
                             dpc (get_thread (flush th s) th') = dpc (get_thread s th')).
  { intros th'. rewrite F3. destruct (N.eqb_spec th th'); [subst|]; split; reflexivity. }
  assert (Hpk : forall th', pk (pend (get_thread (flush th s) th')) = if N.eqb th th' then PO else pk (pend (get_thread s th'))).
  { intros th'. rewrite F3. destruct (N.eqb th th'); reflexivity. }
  destruct (pk (pend (get_thread s th))) as [|c|] eqn:Epk.
  - (* waitGroup.Done() *)
    assert (Hw : memN th (g_wp g) = true) by (now apply (r_wp _ _ _ HR)).
    assert (Ht : memN th (g_tp g) = false).
    { destruct (memN th (g_tp g)) eqn:E; [|reflexivity]. apply (r_tp _ _ _ HR) in E. destruct E as (c & E). congruence. }
    destruct (r_pend _ _ _ HR th (or_introl Hw)) as (i & x & Hti & Hx & Hrel & _).
    assert (Hoth : get th (o_th o) = Some i) by (now rewrite <- (rc_th _ _ _ (r_core _ _ _ HR))).
    assert (Hin : In i (g_sp g)) by (apply (r_own _ _ _ HR th i x Hti Hx); now right).
    assert (Hg0 : gflush o th g = g <| g_wp := removeN th (g_wp g) |> <| g_sp := rem1 i (g_sp g) |>).
    { unfold gflush. rewrite Hw, Hoth. cbn -[memN removeN rem1]. now rewrite Ht. }
    rewrite Hg0. eapply R4_frame; try eassumption; cbn -[memN removeN rem1 length In get_thread flush pk get N.eqb].
    + apply sys_same_flush.
    + intros H. rewrite F5, F6. auto.
    + rewrite F4. pose proof (rem1_length _ _ Hin). rewrite (r_wg _ _ _ HR). unfold iid in *. lia.
    + intros th'. rewrite Hpk. destruct (N.eqb_spec th th').
      * subst. rewrite memN_removeN_same. split; discriminate.
      * rewrite memN_removeN_other by congruence. apply (r_wp _ _ _ HR).
    + intros th'. rewrite Hpk. destruct (N.eqb_spec th th').
      * subst. rewrite Ht. split; [discriminate|intros (c & H); discriminate].
      * apply (r_tp _ _ _ HR).
    + rewrite F5. apply (r_cs _ _ _ HR).
    + intros th'. destruct (N.eqb_spec th' th); [subst; now rewrite memN_removeN_same|now rewrite memN_removeN_other].
    + auto.
    + intros th' i' x' Hti' Hx' Hc Hin'. apply rem1_other; [|exact Hin'].
      intros ->. assert (th' = th) by (eapply (r_inj _ _ _ HR); eauto). subst th'.
      assert (x' = x) by congruence. subst x'. rewrite memN_removeN_same in Hc. destruct Hc as [Hc|Hc]; [apply Hc; now apply Hrel|discriminate].
    + auto.
    + rewrite F5, F6. auto.
    + rewrite F5. congruence.
    + intros th' c. rewrite Hpk. destruct (N.eqb th th'); [discriminate|auto].
  - (* exitCodeOnce.Do *)
    assert (Ht : memN th (g_tp g) = true) by (apply (r_tp _ _ _ HR); eauto).
    assert (Hw : memN th (g_wp g) = false).
    { destruct (memN th (g_wp g)) eqn:E; [|reflexivity]. apply (r_wp _ _ _ HR) in E. congruence. }
    assert (Hg0 : gflush o th g = g <| g_tp := removeN th (g_tp g) |> <| g_cs := true |>).
    { unfold gflush. rewrite Hw. cbn -[memN removeN rem1]. now rewrite Ht. }
    rewrite Hg0. eapply R4_frame; try eassumption; cbn -[memN removeN rem1 length In get_thread flush pk get N.eqb].
    + apply sys_same_flush.
    + intros H. rewrite F5, F6, H. auto.
    + rewrite F4. apply (r_wg _ _ _ HR).
    + intros th'. rewrite Hpk. destruct (N.eqb_spec th th').
      * subst. rewrite Hw. split; discriminate.
      * apply (r_wp _ _ _ HR).
    + intros th'. rewrite Hpk. destruct (N.eqb_spec th th').
      * subst. rewrite memN_removeN_same. split; [discriminate|intros (c' & H); discriminate].
      * rewrite memN_removeN_other by congruence. apply (r_tp _ _ _ HR).
    + now rewrite F5.
    + auto.
    + intros th'. destruct (N.eqb_spec th' th); [subst; now rewrite memN_removeN_same|now rewrite memN_removeN_other].
    + auto.
    + intros th' _. left. now rewrite F5.
    + rewrite F5. discriminate.
    + intros Hcs _. rewrite F6, Hcs. destruct (r_c2 _ _ _ HR th c Epk) as (t & Hin & Hc & Hd). exists t. repeat split; auto.
      destruct Hd as [Hd|Hd]; [congruence|exact Hd].
    + intros th' c'. rewrite Hpk. destruct (N.eqb th th'); [discriminate|auto].
  - (* nothing (or a latch release) pending *)
    assert (Hw : memN th (g_wp g) = false).
    { destruct (memN th (g_wp g)) eqn:E; [|reflexivity]. apply (r_wp _ _ _ HR) in E. congruence. }
    assert (Ht : memN th (g_tp g) = false).
    { destruct (memN th (g_tp g)) eqn:E; [|reflexivity]. apply (r_tp _ _ _ HR) in E. destruct E as (c & E). congruence. }
    assert (Hg0 : gflush o th g = g).
    { unfold gflush. rewrite Hw. cbn -[memN removeN rem1]. now rewrite Ht. }
    rewrite Hg0. eapply R4_frame; try eassumption.
    + apply sys_same_flush.
    + intros H. rewrite F5, F6. auto.
    + rewrite F4. apply (r_wg _ _ _ HR).
    + intros th'. rewrite Hpk. destruct (N.eqb_spec th th').
      * subst. rewrite Hw. split; discriminate.
      * apply (r_wp _ _ _ HR).
    + intros th'. rewrite Hpk. destruct (N.eqb_spec th th').
      * subst. rewrite Ht. split; [discriminate|intros (c' & H); discriminate].
      * apply (r_tp _ _ _ HR).
    + rewrite F5. apply (r_cs _ _ _ HR).
    + auto.
    + auto.
    + auto.
    + auto.
    + rewrite F5, F6. auto.
    + rewrite F5. congruence.
    + intros th' c'. rewrite Hpk. destruct (N.eqb th th'); [discriminate|auto].
Qed.
(*STOP*)

End RelC04.
