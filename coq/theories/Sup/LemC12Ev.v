(* C12 proof, model-only part 4: the effect of the few events the C12 relation singles out. *)
From Coq Require Import List ZArith NArith Bool Lia.
From RecordUpdate Require Import RecordSet.
From PC.Base Require Import Assoc.
From PC.Sup Require Import Model Monitors Tactics Sim ObsFacts Effects RelCore LemC12 LemC12Inst.
Import ListNotations RecordSetNotations.

Lemma ev_order s th order s' : step_core s th (EShutdownOrder order) = Some s' ->
  sd_active s' = Some (th, order) /\ dpc (get_thread s th) = DBegun.
Proof.
  intros H. cbn in H. unfold step_shutdown in H. break_step H. subst s'. split; reflexivity.
Qed.

Lemma ev_end s th s' : step_core s th EShutdownEnd = Some s' ->
  sd_active s' = None /\ lock_pc (dpc (get_thread s th)) = true.
Proof.
  intros H. cbn in H. unfold step_shutdown in H. break_step H; subst s'; split; reflexivity.
Qed.

Lemma ev_go s th i s' : step_core s th (EOrderedGo i) = Some s' ->
  insts s' = insts s /\ sd_active s' = sd_active s /\
  exists sdth order, sd_active s = Some (sdth, order) /\ dependents_done s order i = true.
Proof.
  intros H. cbn in H. unfold step_ordered_go in H. break_step H. subst s'. split; [reflexivity|]. split; [exact E|]. eauto.
Qed.

Lemma ev_stoppending s th i s' : step_core s th (EStopPending i) = Some s' -> insts s' = insts s.
Proof.
  intros H. cbn in H. unfold step_stop in H. break_step H. subst s'. reflexivity.
Qed.

Lemma step_new_inst s th e s' : step_core s th e = Some s' -> forall j,
  get j (insts s) = None -> get j (insts s') <> None ->
  exists n c, e = ENewInst j n /\ get j (insts s') = Some (new_inst n c).
Proof.
  intros H. step_leaves H e; intros jj Hn Hs;
  try solve [exfalso; apply Hs; clear Hs;
  split_state_match; unfold set_pc, end_finish, end_release_early, write_status; autorewrite with sup; cbn;
  rewrite ?get_set;
  repeat match goal with |- context[N.eqb ?a jj] => destruct (N.eqb_spec a jj); [subst jj|] end;
  rewrite ?Hn; try reflexivity; try congruence].
  - cbn in Hs |- *. rewrite get_set in *. destruct (N.eqb_spec i jj); [subst; eauto|contradiction].
  - exfalso. apply Hs. pose proof (fold_fstopped_get order s jj) as Hf. rewrite Hn in Hf. exact Hf.
Qed.
