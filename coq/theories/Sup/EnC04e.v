(* C04 enabledness, part 9: with the guard "a thread creates one instance at a time" (Model.v, ENewInst) a stage
   entry below 3 belongs to a thread that is inside a creation; the quiet premise can then speak about threads. *)
From Coq Require Import List ZArith NArith Bool Lia.
From RecordUpdate Require Import RecordSet.
From PC.Base Require Import Assoc.
From PC.Sup Require Import Model Monitors Tactics Sim ObsFacts Effects RelCore
  LemC04 LemC04i LemC04s LemC04g LemC04c LemC04l RelC04 EnC04 EnC04p EnC04b EnC04q EnC04c EnC04d EnC04s.
Import ListNotations RecordSetNotations.

Record St (s : sys) : Prop := mkSt {
  s_le : forall i c k, get i (stage s) = Some (c, k) -> k <= 3;
  s_uniq : forall i1 i2 c k1 k2, get i1 (stage s) = Some (c, k1) -> get i2 (stage s) = Some (c, k2) -> k1 < 3 -> k2 < 3 -> i1 = i2;
  s_cr : forall i c k, get i (stage s) = Some (c, k) -> k < 3 ->
         exists x, get i (insts s) = Some x /\ creates (get_thread s c) (nm x) = true
}.

Lemma St_init cs ord : St (init cs ord).
Proof. constructor; cbn; discriminate. Qed.

Lemma g_newinst s th i n s' : step_core s th (ENewInst i n) = Some s' ->
  creates (get_thread s th) n = true /\ (forall j k, get j (stage s) = Some (th, k) -> k < 3 -> False).
Proof.
  intros H. unfold step_core, step_reg in H. cbv zeta in H. break_step H. split; [reflexivity|].
  intros j k Hj Hk. apply get_in in Hj.
  match goal with E : forallb _ (stage s) = true |- _ => rewrite forallb_forall in E; specialize (E _ Hj); cbn [fst snd] in E;
    rewrite N.eqb_refl in E; apply Nat.ltb_lt in Hk; rewrite Hk in E; discriminate E end.
Qed.

Lemma St_flush s th : St s -> St (flush th s).
Proof.
  intros [A B C]. destruct (flush_spec th s) as (_ & _ & F3 & _). constructor; rewrite ?flush_stage; auto.
  intros i c k Hi Hk. destruct (C i c k Hi Hk) as (x & Hx & Hc).
  pose proof (flush_insts th s i) as F. rewrite Hx in F. destruct F as (x' & Hx' & L). destruct L as (En & _).
  exists x'. split; [exact Hx'|]. rewrite En. unfold creates in *. rewrite F3. destruct (N.eqb th c) eqn:E; [|exact Hc].
  apply N.eqb_eq in E. subst c. exact Hc.
Qed.

Lemma St_core s th e s' : St s -> step_core s th e = Some s' -> St s'.
Proof.
  intros [A B C] H. pose proof (core_stage _ _ _ _ H) as HSt. pose proof (core_cr _ _ _ _ H) as HC.
  pose proof (core_blk _ _ _ _ H) as HB. destruct (core_scal _ _ _ _ H) as (_ & _ & _ & _ & Sthr).
  unfold stage_eff in HSt.
  (* the stage table after the step, entry by entry *)
  assert (Hst : forall j c k, get j (stage s') = Some (c, k) ->
            get j (stage s) = Some (c, k) \/
            (c = th /\ ((exists n, e = ENewInst j n /\ k = 0) \/
                        (exists s0, e = EState j s0 /\ k = 1 /\ get j (stage s) = Some (th, 0)) \/
                        (exists n, e = ERegAdd j n /\ k = 2 /\ get j (stage s) = Some (th, 1)) \/
                        (exists n, e = ESpawn j n /\ k = 3 /\ get j (stage s) = Some (th, 2))))).
  { intros j c k Hj. destruct e; try (rewrite HSt in Hj; now left).
    - rewrite HSt, get_set in Hj. destruct (N.eqb_spec i j); [|now left]. injection Hj as <- <-. subst. right. eauto 8.
    - destruct HSt as [HSt Hg]. rewrite HSt, get_set in Hj. destruct (N.eqb_spec i j); [|now left]. injection Hj as <- <-. subst. right. eauto 10.
    - destruct HSt as [HSt Hg]. rewrite HSt, get_set in Hj. destruct (N.eqb_spec i j); [|now left]. injection Hj as <- <-. subst. right. eauto 10.
    - destruct HSt as [HSt _]. rewrite HSt, get_del in Hj. destruct (N.eqb i j); [discriminate|now left].
    - destruct HSt as [HSt|[HSt Hg]]; rewrite HSt in Hj; [now left|]. rewrite get_set in Hj.
      destruct (N.eqb_spec i j); [|now left]. injection Hj as <- <-. subst. right. eauto 10. }
  (* an entry of the event's thread that was below 3 before the step and is still there *)
  assert (Hown : forall j k k', get j (stage s) = Some (th, k) -> k < 3 -> get j (stage s') = Some (th, k') -> k' < 3 ->
            forall i n, e = ESpawn i n -> False).
  { intros j k k' Hj Hk Hj' Hk' i n ->. destruct HSt as [HSt Hg]. assert (i = j) by (eapply B; eauto; lia). subst i.
    rewrite HSt, get_set_same in Hj'. injection Hj' as <-. lia. }
  constructor.
  - intros j c k Hj. destruct (Hst j c k Hj) as [Ho|(_ & [(n & _ & ->)|[(s0 & _ & -> & _)|[(n & _ & -> & _)|(n & _ & -> & _)]]])]; try lia. eauto.
  - intros i1 i2 c k1 k2 H1 H2 Hk1 Hk2.
    destruct (Hst _ _ _ H1) as [O1|(-> & N1)]; destruct (Hst _ _ _ H2) as [O2|(E2 & N2)].
    + eauto.
    + subst c. destruct N2 as [(n & -> & ->)|[(s0 & -> & -> & Hg)|[(n & -> & -> & Hg)|(n & -> & -> & Hg)]]]; try lia.
      * exfalso. destruct (g_newinst _ _ _ _ _ H) as (_ & Hno). eapply Hno; eauto.
      * eapply B; eauto.
      * eapply B; eauto.
    + destruct N1 as [(n & -> & ->)|[(s0 & -> & -> & Hg)|[(n & -> & -> & Hg)|(n & -> & -> & Hg)]]]; try lia.
      * exfalso. destruct (g_newinst _ _ _ _ _ H) as (_ & Hno). eapply Hno; eauto.
      * eapply B; eauto.
      * eapply B; eauto.
    + destruct N1 as [(n & -> & ->)|[(s0 & -> & -> & Hg)|[(n & -> & -> & Hg)|(n & -> & -> & Hg)]]];
      destruct N2 as [(n2 & E2' & ->)|[(s2 & E2' & -> & Hg2)|[(n2 & E2' & -> & Hg2)|(n2 & E2' & -> & Hg2)]]]; try lia; congruence.
  - intros j c k Hj Hk.
    assert (Hpers : forall x, get j (insts s) = Some x -> creates (get_thread s c) (nm x) = true ->
              exists x', get j (insts s') = Some x' /\ creates (get_thread s' c) (nm x') = true).
    { intros x Hx Hc. destruct (HB j x Hx) as (x' & Hx' & En & _). exists x'. split; [exact Hx'|]. rewrite En.
      destruct (N.eqb_spec c th) as [->|Hne]; [|now rewrite (Sthr c Hne)].
      destruct (HC _ Hc) as [Hc'|(i & ->)]; [exact Hc'|]. exfalso.
      destruct (Hst j th k Hj) as [Ho|(_ & N)].
      - eapply (Hown j k k); eauto.
      - destruct N as [(n & E & _)|[(s0 & E & _)|[(n & E & _)|(n & E & -> & _)]]]; try discriminate E. lia. }
    destruct (Hst j c k Hj) as [Ho|(-> & N)].
    + destruct (C j c k Ho Hk) as (x & Hx & Hc). eauto.
    + destruct N as [(n & -> & ->)|[(s0 & -> & -> & Hg)|[(n & -> & -> & Hg)|(n & -> & -> & Hg)]]]; try lia.
      * destruct (g_newinst _ _ _ _ _ H) as (Hc & _). destruct (newinst_eff _ _ _ _ _ H) as (_ & cf0 & Hget).
        exists (new_inst n cf0). rewrite Hget, N.eqb_refl. split; [reflexivity|]. cbn [nm new_inst].
        destruct (HC _ Hc) as [Hc'|(i & E)]; [exact Hc'|discriminate E].
      * destruct (C j th 0 Hg ltac:(lia)) as (x & Hx & Hc). eauto.
      * destruct (C j th 1 Hg ltac:(lia)) as (x & Hx & Hc). eauto.
Qed.

Lemma St_reach cs ord evs s : accept (init cs ord) evs = Some s -> St s.
Proof.
  assert (Hrun : forall evs s s', St s -> accept s evs = Some s' -> St s').
  { induction evs0 as [|[th e] r IH]; intros s1 s2 H1 Hacc; cbn in Hacc; [now injection Hacc as <-|].
    destruct (step s1 (th, e)) as [s3|] eqn:Es; [|discriminate]. unfold step in Es. cbn [fst snd] in Es.
    eapply IH; [eapply St_core; [apply St_flush; exact H1|exact Es]|exact Hacc]. }
  apply Hrun, St_init.
Qed.

(* ---- the quiet premise in terms of threads ------------------------------------------------------------ *)
(* as [quiet], with "no instance is half-created" replaced by "no thread is inside a creation": no Run() call is
   in its spawn loop with a process left to start, no Start/Restart call is between its check and its spawn *)
Record quiet2 (s : sys) : Prop := mkQuiet2 {
  q2_cmd : forall i x, get i (insts s) = Some x -> alive x = false /\ exited x = None;
  q2_lock : lock_free s = true;
  q2_api : forall th n, creates (get_thread s th) n = false;
  q2_idle : forall t i, get t (thinst s) = Some i -> spc (get_thread s t) = SIdle /\ dpc (get_thread s t) = DNone;
  q2_gone : forall i x, get i (insts s) = Some x -> pc x = IGone -> l_done x = true
}.

Lemma quiet2_quiet cs ord evs s : accept (init cs ord) evs = Some s -> quiet2 s -> quiet s.
Proof.
  intros Hacc [Q1 Q2 Q3 Q4 Q5]. pose proof (St_reach _ _ _ _ Hacc) as [A B C]. constructor; auto.
  intros i c k Hi. pose proof (A i c k Hi) as Hle. destruct (Nat.eq_dec k 3) as [->|Hne]; [reflexivity|].
  destruct (C i c k Hi ltac:(lia)) as (x & _ & Hc). rewrite Q3 in Hc. discriminate.
Qed.

Theorem progress_partial2 : forall cs ord rank evs s,
  ranked cs rank -> accept (init cs ord) evs = Some s -> quiet2 s -> ~ wg_quiet s -> Enabled s.
Proof. intros cs ord rank evs s Hr Hacc Hq. apply (progress_partial cs ord rank evs s Hr Hacc). eapply quiet2_quiet; eauto. Qed.

(* a decidable version of quiet2, for concrete states *)
Definition not_creating (a : apipc) : bool :=
  match a with ARun [] => true | ARun _ | AStartSpawn _ | ARestartSpawn _ => false | _ => true end.
Definition quiet2_b (s : sys) : bool :=
  forallb (fun p : N * inst => negb (alive (snd p)) && match exited (snd p) with None => true | Some _ => false end) (insts s) &&
  lock_free s &&
  forallb (fun p : N * thread => not_creating (apc (snd p))) (threads s) &&
  forallb (fun p : N * iid => match spc (get_thread s (fst p)), dpc (get_thread s (fst p)) with SIdle, DNone => true | _, _ => false end) (thinst s) &&
  forallb (fun p : N * inst => match pc (snd p) with IGone => l_done (snd p) | _ => true end) (insts s).

Lemma not_creating_spec a n : not_creating a = true ->
  match a with ARun todo => memN n todo | AStartSpawn n' | ARestartSpawn n' => N.eqb n n' | _ => false end = false.
Proof. destruct a as [|[|k l]| | | | | | | | | | | | | | ]; cbn; try discriminate; reflexivity. Qed.

Lemma quiet2_b_spec s : quiet2_b s = true -> quiet2 s.
Proof.
  unfold quiet2_b. intros H. repeat (apply andb_true_iff in H; destruct H as [H ?]).
  rewrite forallb_forall in *. constructor.
  - intros i x Hx. apply get_in in Hx. specialize (H _ Hx). cbn in H. apply andb_true_iff in H. destruct H as [A B].
    apply negb_true_iff in A. destruct (exited x); [discriminate|auto].
  - assumption.
  - intros th n. unfold creates, get_thread. destruct (get th (threads s)) as [t|] eqn:Et; [|reflexivity].
    apply get_in in Et. match goal with Hf : forall x, In x (threads s) -> _ |- _ => specialize (Hf _ Et); cbn in Hf; now apply not_creating_spec end.
  - intros t i Ht. apply get_in in Ht.
    match goal with Hf : forall x, In x (thinst s) -> _ |- _ => specialize (Hf _ Ht); cbn in Hf end.
    destruct (spc (get_thread s t)); try discriminate. destruct (dpc (get_thread s t)); try discriminate. auto.
  - intros i x Hx Hp. apply get_in in Hx.
    match goal with Hf : forall x, In x (insts s) -> match pc (snd x) with _ => _ end = true |- _ => specialize (Hf _ Hx); cbn in Hf; now rewrite Hp in Hf end.
Qed.
