(* C12, last clause ("processes unrelated by dependencies may stop concurrently, and the shutdown still
   completes"): ENABLEDNESS facts of the model - no fairness, no termination argument.
   1. [worker_can_go]: in every reachable state with an ordered shutdown in progress, the ordered_go step of a
      member i of the snapshot is enabled for a fresh worker thread exactly when every dependent of i in the
      snapshot has completed - the ordered shutdown waits for nothing but still-unfinished dependents;
   2. [independent_concurrent], [go_stays_enabled]: the go of one worker does not disable the go of another, and
      once a member's dependents are done its go stays enabled whatever the other threads do;
   3. [no_cyclic_wait]: if the dependency graph of the configuration is acyclic (has a rank function) and not
      all members are done, some unfinished member has all its dependents done (so some worker can go).
   Statements: Props/C12.v. *)
From Coq Require Import List ZArith NArith Bool Lia.
From RecordUpdate Require Import RecordSet.
From PC.Base Require Import Assoc.
From PC.Sup Require Import Model Monitors Tactics Sim ObsFacts Effects RelCore
  LemC12 LemC12Inst LemC12Frame LemC12Ev LemC12Run.
Import ListNotations RecordSetNotations.

(* a thread id that has not been used: the goroutine that shutDownInOrder starts for one process *)
Definition fresh (s : sys) (th : tid) : Prop := get th (threads s) = None /\ get th (thinst s) = None.

Definition worker_started (th : tid) (i : iid) (s : sys) : sys :=
  set_thread th (thread0 <| spc := SReady i true |>) s.

(* ---- the guard, on any state -------------------------------------------------------------------------- *)
Lemma go_enabled s th i sdth order :
  sd_active s = Some (sdth, order) -> ordered s = true -> In i order -> dependents_done s order i = true ->
  fresh s th -> step s (th, EOrderedGo i) = Some (worker_started th i s).
Proof.
  intros Hs Ho Hi Hd [Ht Hti]. unfold step, flush. cbn [fst snd]. rewrite Ht. cbn [step_core].
  unfold step_ordered_go, get_thread, has. rewrite Hs, Ht, Hti, Ho, Hd. apply (proj2 (memN_In _ _)) in Hi. rewrite Hi.
  reflexivity.
Qed.

Lemma go_only_if s th i s' : fresh s th -> step s (th, EOrderedGo i) = Some s' ->
  exists sdth order, sd_active s = Some (sdth, order) /\ In i order /\ dependents_done s order i = true.
Proof.
  intros [Ht _] H. unfold step, flush in H. cbn [fst snd] in H. rewrite Ht in H. cbn [step_core] in H.
  unfold step_ordered_go in H. break_step H. split_andb. subst. eexists; eexists. split; [reflexivity|].
  split; [now apply memN_In|assumption].
Qed.

(* what a false guard means: an unfinished dependent in the snapshot *)
Lemma not_dependents_done s order i x : get i (insts s) = Some x -> dependents_done s order i = false ->
  exists j y, In j order /\ get j (insts s) = Some y /\ In (nm x) (map fst (deps (cf y))) /\ l_done y = false.
Proof.
  intros Hx H. unfold dependents_done in H. rewrite Hx in H.
  assert (He : existsb (fun j => negb match get j (insts s) with
                                       | Some y => if memN (nm x) (map fst (deps (cf y))) then l_done y else true
                                       | None => true end) order = true).
  { clear Hx. induction order as [|a l IH]; cbn in *; [discriminate|].
    apply andb_false_iff in H. destruct H as [H|H]; [rewrite H; reflexivity|rewrite (IH H); apply orb_true_r]. }
  apply existsb_exists in He. destruct He as (j & Hj & Hn). exists j.
  destruct (get j (insts s)) as [y|]; [|discriminate]. exists y.
  destruct (memN (nm x) (map fst (deps (cf y)))) eqn:Em; [|discriminate]. apply negb_true_iff in Hn.
  repeat split; auto. now apply memN_In.
Qed.

(* ---- instances only grow ------------------------------------------------------------------------------ *)
Definition insts_le (s s' : sys) : Prop :=
  forall j y, get j (insts s) = Some y ->
    exists y', get j (insts s') = Some y' /\ nm y' = nm y /\ cf y' = cf y /\ (l_done y = true -> l_done y' = true).

Lemma insts_le_refl s : insts_le s s.
Proof. intros j y Hy. exists y. auto. Qed.
Lemma insts_le_trans s1 s2 s3 : insts_le s1 s2 -> insts_le s2 s3 -> insts_le s1 s3.
Proof.
  intros A B j y Hy. destruct (A j y Hy) as (y2 & H2 & ? & ? & ?). destruct (B j y2 H2) as (y3 & H3 & ? & ? & ?).
  exists y3. repeat split; try congruence. auto.
Qed.

Lemma insts_le_flush th s : insts_le s (flush th s).
Proof.
  intros j y Hy. pose proof (flush_insts th s j) as Hf. rewrite Hy in Hf. destruct Hf as (y' & E & L).
  exists y'. unfold inst_latch_le in L. tauto.
Qed.
Lemma insts_le_core s th e s' : step_core s th e = Some s' -> insts_le s s'.
Proof.
  intros H j y Hy. pose proof (step_ichange _ _ _ _ H j) as Hi. rewrite Hy in Hi. destruct Hi as (y' & E & A & B & C & _).
  exists y'. auto.
Qed.
Lemma insts_le_step s te s' : step s te = Some s' -> insts_le s s'.
Proof.
  intros H. unfold step in H. eapply insts_le_trans; [apply insts_le_flush|eapply insts_le_core; exact H].
Qed.
Lemma insts_le_accept evs : forall s s', accept s evs = Some s' -> insts_le s s'.
Proof.
  induction evs as [|e evs IH]; intros s s' H; cbn in H.
  - injection H as <-. apply insts_le_refl.
  - destruct (step s e) as [s1|] eqn:Es; [|discriminate].
    eapply insts_le_trans; [eapply insts_le_step; exact Es|now apply IH].
Qed.

(* the guard of a worker is never withdrawn (the members of the order exist, see EnInv below) *)
Lemma dependents_done_mono s s' order i :
  insts_le s s' -> (forall j, In j order -> get j (insts s) <> None) ->
  dependents_done s order i = true -> dependents_done s' order i = true.
Proof.
  intros Hle Hex H. unfold dependents_done in *. destruct (get i (insts s)) as [x|] eqn:Hx; [|discriminate].
  destruct (Hle i x Hx) as (x' & -> & Hn & _). rewrite forallb_forall in *. intros j Hj. specialize (H j Hj).
  destruct (get j (insts s)) as [y|] eqn:Hy; [|now destruct (Hex j Hj)].
  destruct (Hle j y Hy) as (y' & -> & _ & Hc & Hd). rewrite Hn, Hc.
  destruct (memN (nm x) (map fst (deps (cf y)))); [auto|reflexivity].
Qed.

(* ---- reachable states --------------------------------------------------------------------------------- *)
Section Reach.
Context (cs : amap pconf) (ord : bool).

Record EnInv (s : sys) (o : obs) : Prop := mkEnInv {
  en_core : Rc cs s o;
  en_ord : ordered s = ord;
  en_run : RunOK s;
  en_sd : forall sdth order, sd_active s = Some (sdth, order) -> forall j, In j order -> get j (insts s) <> None
}.

Lemma EnInv_init : EnInv (init cs ord) (obs0 cs).
Proof.
  constructor; cbn; try reflexivity; try discriminate.
  - apply Rc_init.
  - intros p [].
Qed.

Lemma ev_order_members s th order s' : step_core s th (EShutdownOrder order) = Some s' ->
  same_members order (map snd (running s)) = true.
Proof. intros H. cbn in H. unfold step_shutdown in H. break_step H. reflexivity. Qed.

Lemma exists_le s s' j : insts_le s s' -> get j (insts s) <> None -> get j (insts s') <> None.
Proof.
  intros Hle Hj. destruct (get j (insts s)) as [y|] eqn:Hy; [|congruence]. destruct (Hle j y Hy) as (y' & -> & _). discriminate.
Qed.

Lemma EnInv_step s o th e s' : EnInv s o -> step s (th, e) = Some s' -> EnInv s' (obs_step cs o (th, e)).
Proof.
  intros [HR Ho Hrun Hsd] H. constructor.
  - eapply Rc_step; eauto.
  - unfold step in H. cbn [fst snd] in H. rewrite (sf_ord _ _ _ _ (step_core_frame _ _ _ _ H)), flush_ordered. exact Ho.
  - unfold step in H. cbn [fst snd] in H. eapply RunOK_core; [apply RunOK_flush; exact Hrun|exact H].
  - pose proof (insts_le_step _ _ _ H) as Hle. unfold step in H. cbn [fst snd] in H.
    intros sdth order Hs' j Hj.
    destruct (step_core_frame _ _ _ _ H) as [_ _ [E|[(o1 & He & Hs1 & _)|(He & Hs1 & _)]] _ _].
    + rewrite E, flush_sd_active in Hs'. apply (exists_le s s' j Hle). exact (Hsd sdth order Hs' j Hj).
    + subst e. rewrite Hs1 in Hs'. injection Hs' as <- <-.
      pose proof (ev_order_members _ _ _ _ H) as Hm. pose proof (same_members_In _ _ Hm j Hj) as Hin.
      rewrite flush_running in Hin. apply in_map_iff in Hin. destruct Hin as (p & <- & Hp).
      apply (exists_le s s' _ Hle). exact (Hrun p Hp).
    + congruence.
Qed.

Lemma EnInv_accept evs : forall s o s', EnInv s o -> accept s evs = Some s' ->
  EnInv s' (fold_left (obs_step cs) evs o).
Proof.
  induction evs as [|[th e] evs IH]; intros s o s' HI H; cbn in H |- *.
  - injection H as <-. exact HI.
  - destruct (step s (th, e)) as [s1|] eqn:Es; [|discriminate]. eapply IH; [eapply EnInv_step; eauto|exact H].
Qed.

Lemma EnInv_reach evs s : accept (init cs ord) evs = Some s -> EnInv s (final_obs cs evs).
Proof. intros H. unfold final_obs. eapply EnInv_accept; [apply EnInv_init|exact H]. Qed.

End Reach.

(* ---- 1. a worker can go exactly when its dependents are done -------------------------------------------- *)
Theorem worker_can_go : forall cs evs s sdth order i th,
  accept (init cs true) evs = Some s -> sd_active s = Some (sdth, order) ->
  In i order -> dependents_done s order i = true -> fresh s th ->
  step s (th, EOrderedGo i) = Some (worker_started th i s) /\
  accept (init cs true) (evs ++ [(th, EOrderedGo i)]) = Some (worker_started th i s).
Proof.
  intros cs evs s sdth order i th Hacc Hs Hi Hd Hf.
  pose proof (EnInv_reach cs true evs s Hacc) as HI.
  pose proof (go_enabled s th i sdth order Hs (en_ord _ _ _ _ HI) Hi Hd Hf) as Hstep. split; [exact Hstep|].
  assert (Happ : forall l1 l2 s0, accept s0 (l1 ++ l2) = match accept s0 l1 with Some s1 => accept s1 l2 | None => None end).
  { induction l1 as [|e l1 IH]; intros l2 s0; cbn; [reflexivity|]. destruct (step s0 e); [apply IH|reflexivity]. }
  rewrite Happ, Hacc. cbn [accept]. now rewrite Hstep.
Qed.

(* ... and when it cannot go, an unfinished dependent of i in the snapshot is the reason *)
Theorem worker_blocked_only_by_dependent : forall cs evs s sdth order i th,
  accept (init cs true) evs = Some s -> sd_active s = Some (sdth, order) -> In i order -> fresh s th ->
  step s (th, EOrderedGo i) = None ->
  exists x j y, get i (insts s) = Some x /\ In j order /\ get j (insts s) = Some y /\
                In (nm x) (map fst (deps (cf y))) /\ l_done y = false.
Proof.
  intros cs evs s sdth order i th Hacc Hs Hi Hf Hno.
  pose proof (EnInv_reach cs true evs s Hacc) as HI.
  destruct (dependents_done s order i) eqn:Hd.
  - rewrite (go_enabled s th i sdth order Hs (en_ord _ _ _ _ HI) Hi Hd Hf) in Hno. discriminate.
  - pose proof (en_sd _ _ _ _ HI sdth order Hs i Hi) as Hex. destruct (get i (insts s)) as [x|] eqn:Hx; [|congruence].
    destruct (not_dependents_done s order i x Hx Hd) as (j & y & A & B & C & D). exists x, j, y. auto.
Qed.

(* ---- 2. unrelated workers go concurrently --------------------------------------------------------------- *)
Lemma worker_started_fresh s th i th' : th' <> th -> fresh s th' -> fresh (worker_started th i s) th'.
Proof.
  intros Hne [A B]. split; [|exact B]. unfold worker_started. rewrite threads_set_thread.
  destruct (N.eqb_spec th th'); [congruence|exact A].
Qed.

Theorem independent_concurrent : forall cs evs s sdth order i j thi thj,
  accept (init cs true) evs = Some s -> sd_active s = Some (sdth, order) ->
  In i order -> In j order -> dependents_done s order i = true -> dependents_done s order j = true ->
  fresh s thi -> fresh s thj -> thi <> thj ->
  accept (init cs true) (evs ++ [(thi, EOrderedGo i); (thj, EOrderedGo j)]) =
    Some (worker_started thj j (worker_started thi i s)) /\
  accept (init cs true) (evs ++ [(thj, EOrderedGo j); (thi, EOrderedGo i)]) =
    Some (worker_started thi i (worker_started thj j s)).
Proof.
  intros cs evs s sdth order i j thi thj Hacc Hs Hi Hj Hdi Hdj Hfi Hfj Hne.
  pose proof (EnInv_reach cs true evs s Hacc) as HI. pose proof (en_ord _ _ _ _ HI) as Ho.
  assert (Happ : forall l1 l2 s0, accept s0 (l1 ++ l2) = match accept s0 l1 with Some s1 => accept s1 l2 | None => None end).
  { induction l1 as [|e l1 IH]; intros l2 s0; cbn; [reflexivity|]. destruct (step s0 e); [apply IH|reflexivity]. }
  assert (Hpair : forall a b tha thb, In a order -> In b order -> dependents_done s order a = true ->
            dependents_done s order b = true -> fresh s tha -> fresh s thb -> tha <> thb ->
            accept s [(tha, EOrderedGo a); (thb, EOrderedGo b)] = Some (worker_started thb b (worker_started tha a s))).
  { intros a b tha thb Ha Hb Hda Hdb Hfa Hfb Hn. cbn [accept].
    rewrite (go_enabled s tha a sdth order Hs Ho Ha Hda Hfa).
    rewrite (go_enabled (worker_started tha a s) thb b sdth order); auto.
    apply worker_started_fresh; auto. }
  rewrite !Happ, Hacc. split; apply Hpair; auto.
Qed.

(* once the dependents of j are done, the go of j's worker stays enabled whatever happens next, as long as this
   shutdown is in progress *)
Theorem go_stays_enabled : forall cs evs s sdth order j evs2 s2 th,
  accept (init cs true) evs = Some s -> sd_active s = Some (sdth, order) ->
  In j order -> dependents_done s order j = true ->
  accept s evs2 = Some s2 -> sd_active s2 = Some (sdth, order) -> fresh s2 th ->
  dependents_done s2 order j = true /\ step s2 (th, EOrderedGo j) = Some (worker_started th j s2).
Proof.
  intros cs evs s sdth order j evs2 s2 th Hacc Hs Hj Hd Hacc2 Hs2 Hf.
  pose proof (EnInv_reach cs true evs s Hacc) as HI.
  assert (Hd2 : dependents_done s2 order j = true).
  { eapply dependents_done_mono; [eapply insts_le_accept; exact Hacc2|exact (en_sd _ _ _ _ HI sdth order Hs)|exact Hd]. }
  split; [exact Hd2|].
  assert (Hacc' : accept (init cs true) (evs ++ evs2) = Some s2).
  { assert (Happ : forall l1 l2 s0, accept s0 (l1 ++ l2) = match accept s0 l1 with Some s1 => accept s1 l2 | None => None end).
    { induction l1 as [|e l1 IH]; intros l2 s0; cbn; [reflexivity|]. destruct (step s0 e); [apply IH|reflexivity]. }
    now rewrite Happ, Hacc. }
  pose proof (EnInv_reach cs true _ s2 Hacc') as HI2.
  exact (go_enabled s2 th j sdth order Hs2 (en_ord _ _ _ _ HI2) Hj Hd2 Hf).
Qed.

(* ---- 3. no cyclic wait ---------------------------------------------------------------------------------- *)
(* the dependency graph of the configuration is acyclic: it has a rank function *)
Definition ranked (cs : amap pconf) (rank : name -> nat) : Prop :=
  forall n c d, get n cs = Some c -> In d (map fst (deps c)) -> rank d < rank n.

Lemma forallb_false_exists {A} (f : A -> bool) l : forallb f l = false -> exists a, In a l /\ f a = false.
Proof.
  induction l as [|a l IH]; cbn; [discriminate|]. intros H. apply andb_false_iff in H. destruct H as [H|H].
  - exists a. auto.
  - destruct (IH H) as (b & Hb & Hf). exists b. auto.
Qed.

Lemma max_exists {A} (f : A -> nat) (l : list A) : l <> [] -> exists a, In a l /\ forall b, In b l -> f b <= f a.
Proof.
  induction l as [|a l IH]; [congruence|]. intros _. destruct l as [|b l].
  - exists a. split; [now left|]. intros b [<-|[]]. lia.
  - destruct IH as (m & Hm & Hmax); [discriminate|]. destruct (le_lt_dec (f a) (f m)).
    + exists m. split; [now right|]. intros c [<-|Hc]; [lia|auto].
    + exists a. split; [now left|]. intros c [<-|Hc]; [lia|]. specialize (Hmax c Hc). lia.
Qed.

Definition undone (s : sys) (i : iid) : bool :=
  match get i (insts s) with Some x => negb (l_done x) | None => false end.
Definition irank (s : sys) (rank : name -> nat) (i : iid) : nat :=
  match get i (insts s) with Some x => rank (nm x) | None => 0 end.

Theorem no_cyclic_wait : forall cs rank evs s sdth order,
  ranked cs rank -> accept (init cs true) evs = Some s -> sd_active s = Some (sdth, order) ->
  all_done s order = false ->
  exists i x, In i order /\ get i (insts s) = Some x /\ l_done x = false /\ dependents_done s order i = true.
Proof.
  intros cs rank evs s sdth order Hrk Hacc Hs Hall.
  pose proof (EnInv_reach cs true evs s Hacc) as HI. pose proof (en_sd _ _ _ _ HI sdth order Hs) as Hex.
  set (C := filter (undone s) order).
  assert (HC : C <> []).
  { destruct (forallb_false_exists _ _ Hall) as (a & Ha & Hfa). specialize (Hex a Ha).
    destruct (get a (insts s)) as [x|] eqn:Hx; [|congruence].
    assert (Hin : In a C) by (unfold C; apply filter_In; split; [exact Ha|unfold undone; now rewrite Hx, Hfa]).
    intros E. rewrite E in Hin. destruct Hin. }
  destruct (max_exists (irank s rank) C HC) as (i & Hi & Hmax). unfold C in Hi. apply filter_In in Hi.
  destruct Hi as [Hio Hu]. unfold undone in Hu. destruct (get i (insts s)) as [x|] eqn:Hx; [|discriminate].
  apply negb_true_iff in Hu. exists i, x. repeat split; auto.
  unfold dependents_done. rewrite Hx. apply forallb_forall. intros j Hj.
  destruct (get j (insts s)) as [y|] eqn:Hy; [|reflexivity].
  destruct (memN (nm x) (map fst (deps (cf y)))) eqn:Em; [|reflexivity].
  destruct (l_done y) eqn:Hd; [reflexivity|exfalso].
  assert (Hjc : In j C) by (unfold C; apply filter_In; split; [exact Hj|unfold undone; now rewrite Hy, Hd]).
  specialize (Hmax j Hjc). unfold irank in Hmax. rewrite Hx, Hy in Hmax.
  destruct (rc_inst _ _ _ (en_core _ _ _ _ HI) j y Hy) as (_ & _ & _ & Hcf & _).
  apply memN_In in Em. specialize (Hrk (nm y) (cf y) (nm x) Hcf Em). lia.
Qed.

(* hence: while an ordered shutdown is in progress and not every member has completed, some worker can go *)
Theorem some_worker_can_go : forall cs rank evs s sdth order,
  ranked cs rank -> accept (init cs true) evs = Some s -> sd_active s = Some (sdth, order) ->
  all_done s order = false ->
  exists i x, In i order /\ get i (insts s) = Some x /\ l_done x = false /\
    forall th, fresh s th -> step s (th, EOrderedGo i) = Some (worker_started th i s).
Proof.
  intros cs rank evs s sdth order Hrk Hacc Hs Hall.
  destruct (no_cyclic_wait cs rank evs s sdth order Hrk Hacc Hs Hall) as (i & x & Hi & Hx & Hd & Hdd).
  exists i, x. repeat split; auto. intros th Hf.
  exact (proj1 (worker_can_go cs evs s sdth order i th Hacc Hs Hi Hdd Hf)).
Qed.
