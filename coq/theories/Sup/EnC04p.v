(* C04 enabledness, part 2: a program-counter-local invariant of instances, preserved by every step. *)
From Coq Require Import List ZArith NArith Bool Lia.
From RecordUpdate Require Import RecordSet.
From PC.Base Require Import Assoc.
From PC.Sup Require Import Model Monitors Tactics Sim ObsFacts Effects RelCore LemC04 LemC04i.
Import ListNotations RecordSetNotations.

(* what the program counter of an instance guarantees about its own record *)
Definition pc_ok (x : inst) : bool :=
  match pc x with
  | IProjEnd _ false => d_added x                       (* addDoneProcess precedes inst_done *)
  | IEnding s1 _ | IInEnd s1 _ _ => negb (status_eqb s1 SPending)
  | ICodeSet => false                                   (* unused program counter *)
  | _ => true
  end.

Definition pcok_eff (s : sys) (th : tid) (e : event) (s' : sys) : Prop :=
  forall j x, get j (insts s) = Some x -> exists x', get j (insts s') = Some x' /\ (pc_ok x = true -> pc_ok x' = true).

Ltac pcok_leaf :=
  unfold pc_ok; cbn;
  repeat match goal with E : pc _ = _ |- _ => rewrite E end; cbn;
  repeat match goal with
  | |- context[match ?b with _ => _ end] => is_var b; destruct b
  | |- context[if ?b then _ else _] => destruct b eqn:?
  end; cbn;
  repeat match goal with
  | |- context[match ?b with _ => _ end] => destruct b eqn:?
  end; cbn; intros Hok; auto; try discriminate; try congruence.

Ltac pcok_tac :=
  intros jj xx Hjj;
  repeat (sup_goal; match goal with |- context[insts ?X] =>
    match X with
    | match ?b with _ => _ end => destruct b eqn:?
    | if ?b then _ else _ => destruct b eqn:?
    end end);
  sup_goal; cbn -[get Assoc.set N.eqb get_thread]; sup_goal; cbn -[get Assoc.set N.eqb get_thread];
  repeat match goal with
  | |- context[N.eqb ?a jj] => destruct (N.eqb_spec a jj); [subst|]
  end;
  repeat match goal with
  | H1 : get ?i ?m = Some ?a, H2 : get ?i ?m = Some ?b |- _ => assert (a = b) by congruence; subst; clear H2
  end;
  repeat match goal with H : get jj (insts _) = _ |- _ => rewrite H end; cbn [option_map];
  (eexists; split; [reflexivity|]);
  split_andb; subst; pcok_leaf.

Lemma own_pcok s th e s' : step_own s th e = Some s' -> pcok_eff s th e s'.
Proof. intros H. unfold pcok_eff. destruct e; kind_cases H; pcok_tac.
Qed.
Lemma reg_pcok s th e s' : step_reg s th e = Some s' -> (forall i n, e <> ENewInst i n) -> pcok_eff s th e s'.
Proof. intros H Hn. unfold pcok_eff. destruct e; try (exfalso; eapply Hn; reflexivity); kind_cases H; pcok_tac. Qed.
Lemma api_pcok s th e s' : step_api s th e = Some s' -> pcok_eff s th e s'.
Proof. intros H. unfold pcok_eff. destruct e; kind_cases H; pcok_tac. Qed.
Lemma stop_pcok s th e s' : step_stop s th e = Some s' -> pcok_eff s th e s'.
Proof. intros H. unfold pcok_eff. destruct e; kind_cases H; pcok_tac. Qed.
Lemma ordered_pcok s th i s' : step_ordered_go s th i = Some s' -> pcok_eff s th (EOrderedGo i) s'.
Proof. intros H. unfold pcok_eff. kind_cases H; pcok_tac. Qed.
Lemma env_pcok s th e s' : step_env s th e = Some s' -> pcok_eff s th e s'.
Proof. intros H. unfold pcok_eff. destruct e; kind_cases H; pcok_tac. Qed.
Lemma procend_pcok s th i s0 b s' : step_procend s th i s0 b = Some s' -> pcok_eff s th (if b then EProcEnd i s0 else EProcEnded i s0) s'.
Proof. intros H. unfold pcok_eff. destruct b; kind_cases H; pcok_tac. Qed.
Lemma state_pcok s th i s0 s' : step_state s th i s0 = Some s' -> pcok_eff s th (EState i s0) s'.
Proof. intros H. unfold pcok_eff. kind_cases H; pcok_tac. Qed.

Lemma fold_stopped_get' l : forall s j x, get j (insts s) = Some x ->
  exists x', get j (insts (fold_left (fun s i => upd_inst i (fun x => x <| f_stopped := true |>) s) l s)) = Some x' /\
             (x' = x \/ x' = x <| f_stopped := true |>).
Proof.
  induction l as [|a l IH]; intros s j x Hj; cbn; [eauto|].
  assert (exists y, get j (insts (upd_inst a (fun x => x <| f_stopped := true |>) s)) = Some y /\ (y = x \/ y = x <| f_stopped := true |>)) as (y & Hy & Hd).
  { rewrite insts_upd_inst. destruct (N.eqb a j); rewrite Hj; cbn; eauto. }
  destruct (IH _ _ _ Hy) as (x' & Hx' & Hd'). exists x'. split; [exact Hx'|].
  destruct Hd as [->| ->]; destruct Hd' as [->| ->]; auto.
Qed.

Lemma shutdown_pcok s th e s' : step_shutdown s th e = Some s' -> pcok_eff s th e s'.
Proof.
  intros H. unfold pcok_eff. destruct e; kind_cases H; try pcok_tac.
  intros j x Hj. cbn -[get].
  destruct (fold_stopped_get' order s j x Hj) as (x' & Hx' & Hd). exists x'. split; [exact Hx'|].
  destruct Hd as [->| ->]; auto.
Qed.

Lemma core_pcok s th e s' : step_core s th e = Some s' -> pcok_eff s th e s'.
Proof.
  intros H. destruct (step_core_kind _ _ _ _ H) as [? ?|i x ? ? ? ? ? ? ?|Hk|Hk|Hk|i s0 ? Hk|i s0 b ? Hk|Hk|i ? Hk|Hk|Hk]; subst.
  - intros j x Hj. eauto.
  - intros j y Hj. eauto.
  - destruct e; try (apply reg_pcok; [exact Hk|intros; discriminate]).
    intros j x Hj. destruct (newinst_eff _ _ _ _ _ H) as (Hnone & c & Hget).
    exists x. rewrite Hget. destruct (N.eqb_spec i j); [subst; congruence|]. auto.
  - now apply api_pcok.
  - now apply stop_pcok.
  - now apply state_pcok.
  - now apply procend_pcok.
  - now apply shutdown_pcok.
  - now apply ordered_pcok.
  - now apply env_pcok.
  - now apply own_pcok.
Qed.

