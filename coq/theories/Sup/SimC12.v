(* C12: the simulation relation R, its preservation by every accepted step, and the theorems. *)
From Coq Require Import List ZArith NArith Bool Lia.
From RecordUpdate Require Import RecordSet.
From PC.Base Require Import Assoc.
From PC.Sup Require Import Model Monitors Tactics Sim ObsFacts Effects RelCore.
From PC.Sup Require Import MonC12w.
From PC.Sup Require Import LemC12 LemC12Inst LemC12Obs LemC12Obs2 LemC12Obs3 LemC12Frame LemC12Ev LemC12Run LemC12Mono RelC12.
From PC.Sup Require Import RelC12Api RelC12Stop RelC12State RelC12ProcEnd RelC12Env RelC12Own RelC12Shutdown.
Import ListNotations RecordSetNotations.

Lemma pend_at_same sp : LemC12Frame.pend_at sp = RelC12.pend_at sp.
Proof. reflexivity. Qed.

Section SimC12.
Context (cs : amap pconf).

Record R (s : sys) (o : obs) (g : gst) : Prop := mkR {
  r_core : Rc cs s o;
  r_lock : LockInv s;
  r_ok : forall i x, get i (insts s) = Some x -> AliveOK x;
  r_pi : forall i x xo, get i (insts s) = Some x -> get i (oi o) = Some xo -> PI (w_commit o) x xo;
  r_pend : forall th i, RelC12.pend_at (spc (get_thread s th)) = Some i ->
           get th (thinst s) <> Some i /\
           exists x, get i (insts s) = Some x /\ Q (w_commit o) x;
  r_ent : EntInv s;
  r_sd : o_sd_cur o = match sd_active s with Some p => [p] | None => [] end;
  r_run : RunOK s;
  r_sdinst : forall sdth order, sd_active s = Some (sdth, order) -> forall j, In j order -> get j (insts s) <> None;
  r_gnone : sd_active s = None -> g = [];
  r_gwork : forall th i, get th g = Some i ->
            exists sdth order x, sd_active s = Some (sdth, order) /\ get i (insts s) = Some x /\
              forall j, In j order ->
                match get j (insts s) with
                | Some y => memN (nm x) (map fst (deps (cf y))) = true -> l_done y = true
                | None => True
                end
}.

Lemma R_init ord : R (init cs ord) (obs0 cs) [].
Proof.
  constructor; cbn; try discriminate; try reflexivity.
  - apply Rc_init.
  - apply LockInv_init.
  - apply EntInv_init.
  - intros p [].
Qed.

Lemma flush_inst_eq th s j x' : get j (insts (flush th s)) = Some x' ->
  exists x, get j (insts s) = Some x /\ iview x' = iview x /\ launches x' = launches x /\
            (l_runctx x = true -> l_runctx x' = true).
Proof.
  intros Hx'. pose proof (flush_iview th s j) as Hv. pose proof (flush_insts th s j) as Hl.
  destruct (get j (insts s)) as [x|]; [|rewrite Hl in Hx'; discriminate].
  destruct Hl as (x2 & E2 & L). assert (x2 = x') by congruence. subst x2.
  exists x. split; [reflexivity|]. rewrite Hx' in Hv. cbn in Hv. split; [congruence|].
  unfold inst_latch_le in L. tauto.
Qed.

Lemma flush_inst_fw th s j x : get j (insts s) = Some x ->
  exists x', get j (insts (flush th s)) = Some x' /\ iview x' = iview x /\ launches x' = launches x /\
             (l_runctx x = true -> l_runctx x' = true).
Proof.
  intros Hx. pose proof (flush_insts th s j) as Hl. rewrite Hx in Hl. destruct Hl as (x' & E & L).
  exists x'. split; [exact E|]. destruct (flush_inst_eq th s j x' E) as (x0 & E0 & Hv & Hl & Hr).
  assert (x0 = x) by congruence. subst. auto.
Qed.

Lemma Q_view f x x' : iview x' = iview x -> launches x' = launches x -> (l_runctx x = true -> l_runctx x' = true) ->
  Q f x -> Q f x'.
Proof.
  intros Hv Hl Hr [A B]. apply iview_eq in Hv. destruct Hv as (_ & _ & Hp & _). unfold Q. rewrite Hp, Hl. auto.
Qed.

Lemma PI_view f x x' xo : iview x' = iview x -> launches x' = launches x -> (l_runctx x = true -> l_runctx x' = true) ->
  PI f x xo -> PI f x' xo.
Proof.
  intros Hv Hl Hr [A B D E]. pose proof (Q_view f x x' Hv Hl Hr) as HQ.
  apply iview_eq in Hv. destruct Hv as (? & ? & Hp & Hd & Ha & ?).
  constructor; rewrite ?Hp, ?Hd, ?Ha, ?Hl; try assumption.
  intros Hdone. destruct (D Hdone); auto.
Qed.

Lemma AliveOK_view x x' : iview x' = iview x -> AliveOK x -> AliveOK x'.
Proof. intros Hv. apply (ichange_of_view x x' Hv). Qed.

Lemma get_thread_flush th s th' : spc (get_thread (flush th s) th') = spc (get_thread s th').
Proof.
  unfold get_thread. pose proof (flush_threads th s th') as H. destruct (get th' (threads s)) as [t|].
  - destruct H as (t' & -> & Hv & _). apply tview_eq in Hv. tauto.
  - now rewrite H.
Qed.

Lemma R_flush s o g th : R s o g -> R (flush th s) o g.
Proof.
  intros [H1 H2 H3 H4 H5 Hent H6 Hrun Hsdi H7 H8]. constructor.
  - eapply Rc_sys_same; [exact H1|apply sys_same_flush].
  - now apply LockInv_flush.
  - intros i x' Hx'. destruct (flush_inst_eq th s i x' Hx') as (x & Hx & Hv & _).
    eapply AliveOK_view; eauto.
  - intros i x' xo Hx' Hxo. destruct (flush_inst_eq th s i x' Hx') as (x & Hx & Hv & Hl & Hr).
    eapply PI_view; eauto.
  - intros th' i. rewrite get_thread_flush, flush_thinst. intros Hp.
    destruct (H5 th' i Hp) as (Hn & x & Hx & HQ). split; [exact Hn|].
    destruct (flush_inst_fw th s i x Hx) as (x' & Hx' & Hv & Hl & Hr). exists x'. split; [exact Hx'|].
    eapply Q_view; eauto.
  - now apply EntInv_flush.
  - now rewrite flush_sd_active.
  - now apply RunOK_flush.
  - intros sdth order. rewrite flush_sd_active. intros Hs j Hj. specialize (Hsdi sdth order Hs j Hj).
    destruct (get j (insts s)) as [y|] eqn:Ey; [|congruence].
    destruct (flush_inst_fw th s j y Ey) as (y' & -> & _). discriminate.
  - now rewrite flush_sd_active.
  - intros th' i Hg. rewrite flush_sd_active. destruct (H8 th' i Hg) as (sdth & order & x & Hs & Hx & Hall).
    destruct (flush_inst_fw th s i x Hx) as (x' & Hx' & Hv & _). apply iview_eq in Hv. destruct Hv as (Hn & _).
    exists sdth, order, x'. split; [exact Hs|]. split; [exact Hx'|]. intros j Hj. specialize (Hall j Hj).
    destruct (get j (insts (flush th s))) as [y'|] eqn:Ey'; [|exact I].
    destruct (flush_inst_eq th s j y' Ey') as (y & Ey & Hvy & _). rewrite Ey in Hall.
    apply iview_eq in Hvy. destruct Hvy as (_ & Hc & _ & Hd & _). rewrite Hn, Hc, Hd. exact Hall.
Qed.

Lemma PI_core s o th e s' : step_core s th e = Some s' -> PI_goal cs s o th e s'.
Proof.
  intros H. destruct (step_core_kind _ _ _ _ H) as [? ?|i0 x0 ? ? ? ? ? ?|Hk|Hk|Hk|i0 s0 ? Hk|i0 s0 b ? Hk|Hk|i0 ? Hk|Hk|Hk]; subst.
  - intros f f' HR Hf HO HT j x xo x' xo' Hx Hxo [Pa Pc Pd Pl] Hx' Hxo'.
    pose proof (rc_th _ _ _ HR) as Hrth. pi_leaf j s x.
  - intros f f' HR Hf HO HT j x xo x' xo' Hx Hxo [Pa Pc Pd Pl] Hx' Hxo'.
    pose proof (rc_th _ _ _ HR) as Hrth. pi_leaf j s x.
  - now apply PI_reg.
  - now apply PI_api.
  - now apply PI_stop.
  - now apply PI_state.
  - destruct b; [now apply PI_procend1|now apply PI_procend2].
  - now apply PI_shutdown.
  - now apply PI_ordered.
  - now apply PI_env.
  - now apply PI_own.
Qed.

Lemma ev_order_members s th order s' : step_core s th (EShutdownOrder order) = Some s' ->
  same_members order (map snd (running s)) = true.
Proof. intros H. cbn in H. unfold step_shutdown in H. break_step H. reflexivity. Qed.

Lemma sd_pc_lock d : sd_pc d = true -> lock_pc d = true.
Proof. destruct d; cbn; congruence. Qed.

Lemma sd_holder s th th1 o1 : LockInv s -> sd_active s = Some (th1, o1) -> lock_pc (dpc (get_thread s th)) = true ->
  th1 = th /\ sd_pc (dpc (get_thread s th)) = true.
Proof.
  intros HL Hs Hd. destruct (li_sd _ HL th1 o1 Hs) as (t1 & Et1 & Hd1).
  assert (L1 : reg_lock s = Some th1).
  { apply (li_lock _ HL th1 t1 Et1). unfold holds_lock. now rewrite (sd_pc_lock _ Hd1). }
  assert (L2 : reg_lock s = Some th).
  { apply holds_lock_get_thread; [exact HL|]. unfold holds_lock. now rewrite Hd. }
  assert (th1 = th) by congruence. subst. split; [reflexivity|]. now rewrite (get_thread_some _ _ _ Et1).
Qed.

Lemma no_sd_when_begun s th : LockInv s -> dpc (get_thread s th) = DBegun -> sd_active s = None.
Proof.
  intros HL Hd. destruct (sd_active s) as [[th1 o1]|] eqn:E; [exfalso|reflexivity].
  destruct (sd_holder s th th1 o1 HL E) as [_ Hs]; [now rewrite Hd|]. rewrite Hd in Hs. discriminate.
Qed.

Lemma ev_stoppending_ent s th i s' : step_core s th (EStopPending i) = Some s' ->
  exists c, spc (get_thread s th) = SEntered i c.
Proof.
  intros H. cbn in H. unfold step_stop in H. break_step H. split_andb. subst. eauto.
Qed.

(* ---- one step of step_core from a state related by R ------------------------------------------------ *)
Section Core.
Context (s : sys) (o : obs) (g : gst) (th : tid) (e : event) (s' : sys).
Context (HR : R s o g) (H : step_core s th e = Some s') (Hpend : pend (get_thread s th) = None).
Context (Hside : side_ok o g (th, e) = true).
Context (HR' : Rc cs s' (obs_step cs o (th, e))).
Let o' := obs_step cs o (th, e).

Lemma core_HO : forall i, RelC12.pend_at (spc (get_thread s th)) = Some i -> get th (thinst s) <> Some i.
Proof. intros i Hp. now destruct (r_pend _ _ _ HR th i Hp). Qed.

Lemma core_HT : forall i x xo, RelC12.pend_at (spc (get_thread s th)) = Some i -> get i (insts s) = Some x -> get i (oi o) = Some xo ->
  Q (w_commit o) x.
Proof.
  intros i x xo Hp Hx Hxo. destruct (r_pend _ _ _ HR th i Hp) as (_ & x2 & Hx2 & A).
  assert (x2 = x) by congruence. subst. auto.
Qed.

Lemma core_old j x : get j (insts s) = Some x ->
  exists xo x' xo', get j (oi o) = Some xo /\ get j (insts s') = Some x' /\ get j (oi o') = Some xo' /\
    ichange x x' /\ PIstep (w_commit o) (w_commit o') x x' xo xo'.
Proof.
  intros Hx. destruct (rc_inst _ _ _ (r_core _ _ _ HR) j x Hx) as (xo & Hxo & _).
  pose proof (step_ichange _ _ _ _ H j) as Hi. rewrite Hx in Hi. destruct Hi as (x' & Hx' & Hch).
  destruct (rc_inst _ _ _ HR' j x' Hx') as (xo' & Hxo' & _).
  exists xo, x', xo'. split; [exact Hxo|]. split; [exact Hx'|]. split; [exact Hxo'|]. split; [exact Hch|].
  apply (PI_core _ _ _ _ _ H (w_commit o) (w_commit o') (r_core _ _ _ HR) (Wc_step cs o th e) core_HO core_HT j x xo x' xo' Hx Hxo);
    auto. apply (r_pi _ _ _ HR j x xo Hx Hxo).
Qed.

Lemma core_new j x' : get j (insts s) = None -> get j (insts s') = Some x' ->
  exists n c, e = ENewInst j n /\ x' = new_inst n c.
Proof.
  intros Hn Hx'. destruct (step_new_inst _ _ _ _ H j Hn) as (n & c & He & Hs); [congruence|].
  exists n, c. split; [exact He|congruence].
Qed.

Lemma core_ok : forall i x', get i (insts s') = Some x' -> AliveOK x'.
Proof.
  intros i x' Hx'. destruct (get i (insts s)) as [x|] eqn:Hx.
  - destruct (core_old i x Hx) as (xo & x2 & xo' & _ & Hx2 & _ & Hch & _). assert (x2 = x') by congruence. subst.
    apply Hch. apply (r_ok _ _ _ HR i x Hx).
  - destruct (core_new i x' Hx Hx') as (n & c & _ & ->). unfold AliveOK, new_inst. cbn. split; [discriminate|congruence].
Qed.

Lemma core_pi : forall i x' xo', get i (insts s') = Some x' -> get i (oi o') = Some xo' -> PI (w_commit o') x' xo'.
Proof.
  intros i x' xo' Hx' Hxo'. destruct (get i (insts s)) as [x|] eqn:Hx.
  - destruct (core_old i x Hx) as (xo & x2 & xo2 & _ & Hx2 & Hxo2 & _ & Hst & _).
    assert (x2 = x') by congruence. assert (xo2 = xo') by congruence. subst. exact Hst.
  - destruct (core_new i x' Hx Hx') as (n & c & He & ->). unfold o' in Hxo'. rewrite He in Hxo'.
    destruct (obs_newinst _ _ _ _ _ _ Hxo') as (A & B & C).
    constructor; unfold new_inst; cbn; try discriminate; congruence.
Qed.

Lemma core_carry i x : get i (insts s) = Some x -> Q (w_commit o) x ->
  exists x', get i (insts s') = Some x' /\ Q (w_commit o') x'.
Proof.
  intros Hx HQ. destruct (core_old i x Hx) as (xo & x' & xo' & Hxo & Hx' & Hxo' & _ & _ & Hq).
  exists x'. auto.
Qed.

Lemma core_pend : forall th' i, RelC12.pend_at (spc (get_thread s' th')) = Some i ->
  get th' (thinst s') <> Some i /\ exists x, get i (insts s') = Some x /\ Q (w_commit o') x.
Proof.
  destruct (step_core_frame _ _ _ _ H) as [Ford Fother Fsd Fthinst Fpend].
  assert (Hpre : forall th' i, RelC12.pend_at (spc (get_thread s th')) = Some i ->
            get th' (thinst s') <> Some i /\ exists x, get i (insts s') = Some x /\ Q (w_commit o') x).
  { intros th' i Hp. destruct (r_pend _ _ _ HR th' i Hp) as (Hn & x & Hx & HQ). split.
    - destruct Fthinst as [->|(i0 & He & Hnone & ->)]; [exact Hn|].
      rewrite get_set. destruct (N.eqb_spec th th') as [<-|Hne]; [|exact Hn].
      exfalso. unfold get_thread in Hp. rewrite Hnone in Hp. discriminate.
    - now apply (core_carry i x). }
  intros th' i Hp. destruct (N.eq_dec th' th) as [->|Hne].
  - rewrite <- !pend_at_same in *. destruct Fpend as [Fp|[Fp|(i0 & x & He & Hsp & Hx)]].
    + apply Hpre. rewrite <- pend_at_same. congruence.
    + congruence.
    + rewrite Hsp in Hp. cbn in Hp. injection Hp as <-. subst e.
      cbn in Hside. apply andb_true_iff in Hside. destruct Hside as [Hl Hown].
      apply Nat.eqb_eq in Hl. apply negb_true_iff in Hown.
      destruct (rc_inst _ _ _ (r_core _ _ _ HR) i0 x Hx) as (xo & Hxo & _ & _ & Hlau).
      rewrite (oi_get_some _ _ _ Hxo) in Hl. split.
      * destruct Fthinst as [->|(i1 & He & _)]; [|discriminate]. rewrite (rc_th _ _ _ (r_core _ _ _ HR)).
        intros Hc. rewrite Hc in Hown. cbn in Hown. now rewrite N.eqb_refl in Hown.
      * exists x. rewrite (ev_stoppending _ _ _ _ H). split; [exact Hx|]. split.
        -- (* the stop entered with cancel = true and has cancelled the run context *)
           destruct (ev_stoppending_ent _ _ _ _ H) as (c & Hsp0).
           pose proof (r_ent _ _ _ HR th) as He. unfold ent_ok in He. rewrite Hsp0 in He.
           destruct c; destruct He as (x2 & Hx2 & He); assert (x2 = x) by congruence; subst x2.
           ++ destruct He as [He|He]; [congruence|exact He].
           ++ exfalso. apply He. congruence.
        -- intros Hf'. destruct (Wc_step cs o th (EStopPending i0) Hf') as [_ Hex]. cbn in Hex.
           rewrite (oi_get_some _ _ _ Hxo) in Hex. split; [congruence|].
           destruct (cmt_pc (pc x)) eqn:Ec; [|reflexivity].
           rewrite (pi_commit _ _ _ (r_pi _ _ _ HR i0 x xo Hx Hxo) Ec) in Hex. discriminate.
  - apply Hpre. now rewrite <- (Fother th' Hne).
Qed.

Lemma core_sd_same : (forall order, e <> EShutdownOrder order) -> e <> EShutdownEnd -> sd_active s' = sd_active s.
Proof.
  intros H1 H2. destruct (step_core_frame _ _ _ _ H) as [_ _ [E|[(order & He & _)|(He & _)]] _ _]; [exact E| |]; congruence.
Qed.

Lemma core_sd : o_sd_cur o' = match sd_active s' with Some p => [p] | None => [] end.
Proof.
  unfold o'. rewrite obs_sd_cur. pose proof (r_sd _ _ _ HR) as Hsd.
  destruct e eqn:He; try (rewrite <- He in *; rewrite core_sd_same; [exact Hsd|subst e; discriminate|subst e; discriminate]).
  - destruct (ev_order _ _ _ _ H) as [-> Hd]. rewrite (no_sd_when_begun s th (r_lock _ _ _ HR) Hd) in Hsd. now rewrite Hsd.
  - destruct (ev_end _ _ _ H) as [-> Hd]. destruct (sd_active s) as [[th1 o1]|] eqn:E.
    + destruct (sd_holder s th th1 o1 (r_lock _ _ _ HR) E Hd) as [-> _]. rewrite Hsd. cbn. now rewrite N.eqb_refl.
    + now rewrite Hsd.
Qed.

Definition gwork_at (s1 : sys) (i : iid) : Prop :=
  exists sdth order x, sd_active s1 = Some (sdth, order) /\ get i (insts s1) = Some x /\
    forall j, In j order ->
      match get j (insts s1) with
      | Some y => memN (nm x) (map fst (deps (cf y))) = true -> l_done y = true
      | None => True
      end.

Lemma core_gwork_keep i : sd_active s' = sd_active s -> gwork_at s i -> gwork_at s' i.
Proof.
  intros Hsd (sdth & order & x & Hs & Hx & Hall).
  destruct (core_old i x Hx) as (_ & x' & _ & _ & Hx' & _ & (Hnm & _) & _).
  exists sdth, order, x'. split; [congruence|]. split; [exact Hx'|]. intros j Hj. specialize (Hall j Hj).
  destruct (get j (insts s')) as [y'|] eqn:Ey'; [|exact I].
  destruct (get j (insts s)) as [y|] eqn:Ey.
  - destruct (core_old j y Ey) as (_ & y2 & _ & _ & Ey2 & _ & (_ & Hcf & Hd & _) & _).
    assert (y2 = y') by congruence. subst. rewrite Hnm, Hcf. auto.
  - exfalso. exact (r_sdinst _ _ _ HR sdth order Hs j Hj Ey).
Qed.

Lemma core_run : RunOK s'.
Proof. exact (RunOK_core _ _ _ _ (r_run _ _ _ HR) H). Qed.

Lemma core_exists j : get j (insts s) <> None -> get j (insts s') <> None.
Proof.
  intros Hj. pose proof (step_ichange _ _ _ _ H j) as Hi. destruct (get j (insts s)); [|congruence].
  destruct Hi as (x' & -> & _). discriminate.
Qed.

Lemma core_sdinst : forall sdth order, sd_active s' = Some (sdth, order) -> forall j, In j order -> get j (insts s') <> None.
Proof.
  intros sdth order Hs' j Hj. apply core_exists.
  destruct (step_core_frame _ _ _ _ H) as [_ _ [E|[(o1 & He & Hs1 & _)|(He & Hs1 & _)]] _ _].
  - rewrite E in Hs'. exact (r_sdinst _ _ _ HR sdth order Hs' j Hj).
  - subst e. rewrite Hs1 in Hs'. injection Hs' as <- <-.
    pose proof (ev_order_members _ _ _ _ H) as Hm. pose proof (same_members_In _ _ Hm j Hj) as Hin.
    apply in_map_iff in Hin. destruct Hin as (p & <- & Hp). exact (r_run _ _ _ HR p Hp).
  - congruence.
Qed.

Lemma core_ghost :
  (sd_active s' = None -> g_step g (th, e) = []) /\
  (forall th' i, get th' (g_step g (th, e)) = Some i -> gwork_at s' i).
Proof.
  assert (Hgen : (forall order, e <> EShutdownOrder order) -> e <> EShutdownEnd -> (forall i, e <> EOrderedGo i) ->
     g_step g (th, e) = g ->
     (sd_active s' = None -> g_step g (th, e) = []) /\
     (forall th' i, get th' (g_step g (th, e)) = Some i -> gwork_at s' i)).
  { intros A B C ->. pose proof (core_sd_same A B) as Hsd. split.
    - rewrite Hsd. apply (r_gnone _ _ _ HR).
    - intros th' i Hg. apply core_gwork_keep; [exact Hsd|]. apply (r_gwork _ _ _ HR th' i Hg). }
  destruct e eqn:He; try (apply Hgen; [discriminate|discriminate|discriminate|reflexivity]).
  - (* EShutdownOrder *)
    destruct (ev_order _ _ _ _ H) as [Hs' Hd].
    pose proof (r_gnone _ _ _ HR (no_sd_when_begun s th (r_lock _ _ _ HR) Hd)) as ->. cbn. split; [reflexivity|discriminate].
  - (* EOrderedGo *)
    destruct (ev_go _ _ _ _ H) as (Hi & Hs' & sdth & order & Hs & Hdd). cbn. split.
    + rewrite Hs', Hs. discriminate.
    + intros th' i0. rewrite get_set. destruct (N.eqb_spec th th') as [<-|Hne].
      * intros E. injection E as <-. unfold dependents_done in Hdd.
        destruct (get i (insts s)) as [x|] eqn:Hx; [|discriminate].
        exists sdth, order, x. rewrite Hs', Hi. split; [exact Hs|]. split; [exact Hx|].
        intros j Hj. rewrite forallb_forall in Hdd. specialize (Hdd j Hj).
        destruct (get j (insts s)) as [y|]; [|exact I]. intros Hm. now rewrite Hm in Hdd.
      * intros Hg. destruct (r_gwork _ _ _ HR th' i0 Hg) as (a & b & c & A & B & C).
        exists a, b, c. rewrite Hs', Hi. auto.
  - (* EShutdownEnd *)
    cbn. split; [reflexivity|discriminate].
Qed.

End Core.
(* ---- the monitor's check at a worker's stop signal -------------------------------------------------- *)
Lemma mon_check s o g th i sig p : R s o g -> w_commit o = false -> is_worker g th i = true ->
  mon_C12 true cs o (th, ESignal i sig p) = true.
Proof.
  intros HR HF Hw. unfold is_worker in Hw. apply opt_eqb_N_eq in Hw.
  destruct (r_gwork _ _ _ HR th i Hw) as (sdth & order & x & Hs & Hx & Hall).
  unfold mon_C12. cbn [snd negb]. rewrite (r_sd _ _ _ HR), Hs. cbn [forallb snd].
  rewrite andb_true_r. destruct (memN i order); [|reflexivity].
  rewrite (Rc_name_of cs _ _ _ _ (r_core _ _ _ HR) Hx).
  apply forallb_forall. intros j Hj. specialize (Hall j Hj).
  destruct (get j (insts s)) as [y|] eqn:Ey.
  - destruct (rc_inst _ _ _ (r_core _ _ _ HR) j y Ey) as (yo & Hyo & Hnm & Hcf & _).
    rewrite (oi_get_some _ _ _ Hyo). unfold conf_of. rewrite Hnm, Hcf.
    destruct (memN (nm x) (map fst (deps (cf y)))) eqn:Em; [cbn|reflexivity].
    destruct (r_pi _ _ _ HR j y yo Ey Hyo) as [Pa _ Pd Pl]. rewrite Pa.
    destruct (alive y) eqn:Ea; [exfalso|reflexivity].
    destruct (r_ok _ _ _ HR j y Ey) as [Hpc _]. specialize (Hpc Ea).
    rewrite Hpc in *. destruct (Pd (Hall eq_refl)) as [Hend|[_ Hl]]; [discriminate|].
    apply (Pl eq_refl). now destruct (Hl HF).
  - rewrite (rc_noinst _ _ _ (r_core _ _ _ HR) j Ey) || (unfold oi_get; rewrite (rc_noinst _ _ _ (r_core _ _ _ HR) j Ey)).
    cbn. apply orb_true_r.
Qed.

(* ---- one accepted step ------------------------------------------------------------------------------ *)
Lemma R_step s o g th e s' : R s o g -> step s (th, e) = Some s' -> side_ok o g (th, e) = true ->
  R s' (obs_step cs o (th, e)) (g_step g (th, e)) /\ (mon_w true cs o g (th, e) = true \/ w_commit o = true).
Proof.
  intros HR H Hside. split.
  - pose proof (Rc_step cs _ _ _ _ _ (r_core _ _ _ HR) H) as HR'.
    unfold step in H. cbn [fst snd] in H. pose proof (R_flush _ _ _ th HR) as HR0.
    destruct (core_ghost _ _ _ _ _ _ HR0 H Hside HR') as [G1 G2].
    constructor.
    + exact HR'.
    + eapply LockInv_core; [apply (r_lock _ _ _ HR0)|apply flush_pend_none|exact H].
    + apply (core_ok _ _ _ _ _ _ HR0 H HR').
    + apply (core_pi _ _ _ _ _ _ HR0 H HR').
    + eapply core_pend; eauto using flush_pend_none.
    + eapply EntInv_core; [apply (r_ent _ _ _ HR0)|apply flush_pend_none|exact H].
    + apply (core_sd _ _ _ _ _ _ HR0 H Hside HR').
    + eapply core_run; eauto.
    + eapply core_sdinst; eauto.
    + exact G1.
    + exact G2.
  - destruct (w_commit o) eqn:HF; [now right|left]. unfold mon_w. cbn [fst snd].
    destruct e; try reflexivity. destruct (is_worker g th i) eqn:Hw; [|reflexivity].
    now apply (mon_check s o g).
Qed.

End SimC12.

(* ---- the theorems ------------------------------------------------------------------------------------ *)
Lemma F2_fold_mono cs evs : forall o, w_commit (fold_left (obs_step cs) evs o) = false -> w_commit o = false.
Proof.
  induction evs as [|[th e] evs IH]; intros o Hf; cbn in Hf; [exact Hf|].
  apply IH in Hf. now destruct (Wc_step cs o th e Hf).
Qed.

Lemma sim_w cs : forall evs s o g s', R cs s o g -> accept s evs = Some s' ->
  run3 side_ok cs o g evs = true -> w_commit (fold_left (obs_step cs) evs o) = false ->
  run3 (mon_w true cs) cs o g evs = true.
Proof.
  induction evs as [|[th e] evs IH]; intros s o g s' HR Hacc Hside HF; [reflexivity|].
  cbn in Hacc, Hside, HF |- *. destruct (step s (th, e)) as [s1|] eqn:Es; [|discriminate].
  apply andb_true_iff in Hside. destruct Hside as [Hs1 Hs2].
  destruct (R_step cs s o g th e s1 HR Es Hs1) as [HR1 Hm].
  pose proof (F2_fold_mono cs evs _ HF) as HF1. destruct (Wc_step cs o th e HF1) as [HF0 _].
  destruct Hm as [Hm|Hm]; [|congruence]. rewrite Hm. cbn. eapply IH; eauto.
Qed.

Lemma run_w_false cs : forall evs o g, run3 (mon_w false cs) cs o g evs = true.
Proof.
  induction evs as [|[th e] evs IH]; intros o g; [reflexivity|]. cbn. rewrite IH, andb_true_r.
  unfold mon_w. cbn. destruct e; try reflexivity. destruct (is_worker g th i); reflexivity.
Qed.

Theorem C12_workers_thm : forall cs ord evs s,
  accept (init cs ord) evs = Some s -> W_C12 (final_obs cs evs) = false -> c12_side cs evs = true ->
  holds_C12w ord cs evs = true.
Proof.
  intros cs ord evs s Hacc HW Hside. unfold holds_C12w. destruct ord; [|apply run_w_false].
  eapply sim_w; eauto. apply R_init.
Qed.

Lemma existsb_false_forallb {A} (f : A -> bool) (X : A -> bool) l :
  existsb f l = false -> forallb (fun a => if f a then X a else true) l = true.
Proof.
  induction l as [|a l IH]; cbn; [reflexivity|]. intros H. apply orb_false_iff in H. destruct H as [H1 H2].
  rewrite H1. cbn. auto.
Qed.

Lemma mon_split ord cs o g e : mon_w ord cs o g e = true -> foreign_ok o g e = true -> mon_C12 ord cs o e = true.
Proof.
  destruct e as [th e]. unfold mon_w, foreign_ok. cbn [fst snd]. destruct e; try reflexivity.
  destruct (is_worker g th i); [auto|]. cbn. intros _ Hf. apply negb_true_iff in Hf.
  unfold mon_C12. cbn [snd]. destruct (negb ord); [reflexivity|].
  now apply (existsb_false_forallb (fun snap => memN i (snd snap))).
Qed.

Lemma combine ord cs : forall evs o g k, run3 (mon_w ord cs) cs o g evs = true -> run3 foreign_ok cs o g evs = true ->
  mon_run cs (mon_C12 ord cs) o evs k = None.
Proof.
  induction evs as [|e evs IH]; intros o g k H1 H2; [reflexivity|]. cbn in *.
  apply andb_true_iff in H1. apply andb_true_iff in H2. destruct H1 as [A1 B1]. destruct H2 as [A2 B2].
  rewrite (mon_split ord cs o g e A1 A2). eapply IH; eauto.
Qed.

Theorem C12_main_partial_thm : forall cs ord evs s,
  accept (init cs ord) evs = Some s -> W_C12 (final_obs cs evs) = false ->
  c12_side cs evs = true -> c12_noforeign cs evs = true ->
  holds_C12 ord cs evs = true.
Proof.
  intros cs ord evs s Hacc HW Hside Hfor. unfold holds_C12, holds.
  rewrite (combine ord cs evs (obs0 cs) [] 0); [reflexivity| |exact Hfor].
  eapply C12_workers_thm; eauto.
Qed.

(* the liveness-free half: a worker passes ordered_go for i only when every dependent of i in the shutdown's
   snapshot has completed (l_done = waitForCompletion returns) *)
Lemma accept_app s l1 l2 : accept s (l1 ++ l2) = match accept s l1 with Some s1 => accept s1 l2 | None => None end.
Proof.
  revert s. induction l1 as [|e l1 IH]; intros s; cbn; [reflexivity|]. destruct (step s e); [apply IH|reflexivity].
Qed.

Theorem C12_worker_waits_thm : forall cs ord evs th i s2,
  accept (init cs ord) (evs ++ [(th, EOrderedGo i)]) = Some s2 ->
  exists sdth order x, sd_active s2 = Some (sdth, order) /\ In i order /\ get i (insts s2) = Some x /\
    forall j y, In j order -> get j (insts s2) = Some y -> In (nm x) (map fst (deps (cf y))) -> l_done y = true.
Proof.
  intros cs ord evs th i s2 H. rewrite accept_app in H. destruct (accept (init cs ord) evs) as [s1|]; [|discriminate].
  cbn [accept] in H. destruct (step s1 (th, EOrderedGo i)) as [s3|] eqn:Es; [|discriminate]. injection H as ->.
  unfold step in Es. cbn [fst snd] in Es. set (s0 := flush th s1) in *. cbn in Es. unfold step_ordered_go in Es.
  break_step Es. subst s2. split_andb. cbn [sd_active insts set_thread].
  unfold dependents_done in *. destruct (get i (insts s0)) as [x|] eqn:Hx; [|discriminate].
  exists t, l, x. split; [assumption|]. split; [now apply memN_In|]. split; [exact Hx|].
  intros j y Hj Hy Hin. change (get j (insts s0) = Some y) in Hy. match goal with Hd : forallb _ _ = true |- _ => rewrite forallb_forall in Hd; specialize (Hd j Hj) end.
  rewrite Hy in *. apply (proj2 (memN_In _ _)) in Hin. now rewrite Hin in *.
Qed.

(* position-quantified reading of a monitor that holds *)
Lemma mon_run_all cs (m : obs -> tid * event -> bool) : forall evs o k, mon_run cs m o evs k = None ->
  forall pre e post, evs = pre ++ e :: post -> m (fold_left (obs_step cs) pre o) e = true.
Proof.
  induction evs as [|a evs IH]; intros o k H pre e post Heq.
  - destruct pre; discriminate.
  - cbn in H. destruct (m o a) eqn:Em; [|discriminate]. destruct pre as [|b pre]; cbn in Heq.
    + injection Heq as -> _. exact Em.
    + injection Heq as -> Heq. cbn. eapply IH; eauto.
Qed.

Theorem C12_declarative_thm : forall cs evs, holds_C12 true cs evs = true ->
  forall pre th i sig ponly post, evs = pre ++ (th, ESignal i sig ponly) :: post ->
  let o := final_obs cs pre in
  forall sdth snap j, In (sdth, snap) (o_sd_cur o) -> In i snap -> In j snap ->
    In (o_nm (oi_get o i)) (map fst (deps (conf_of cs (o_nm (oi_get o j))))) ->
    o_alive (oi_get o j) = false.
Proof.
  intros cs evs Hh pre th i sig ponly post Heq o sdth snap j Hsnap Hi Hj Hdep.
  unfold holds_C12, holds in Hh. destruct (mon_run cs (mon_C12 true cs) (obs0 cs) evs 0) eqn:Hm; [discriminate|].
  pose proof (mon_run_all cs _ evs _ _ Hm pre _ post Heq) as Hc. fold (final_obs cs pre) in Hc. fold o in Hc.
  unfold mon_C12 in Hc. cbn [snd negb] in Hc. rewrite forallb_forall in Hc. specialize (Hc _ Hsnap). cbn [snd] in Hc.
  apply (proj2 (memN_In _ _)) in Hi. rewrite Hi in Hc. rewrite forallb_forall in Hc. specialize (Hc j Hj).
  apply (proj2 (memN_In _ _)) in Hdep. rewrite Hdep in Hc. cbn in Hc. now apply negb_true_iff in Hc.
Qed.

(* with ordered shutdown off the monitor does not constrain anything *)
Theorem C12_unordered_thm : forall cs evs, holds_C12 false cs evs = true.
Proof.
  intros cs evs. unfold holds_C12, holds.
  assert (Hall : forall l o k, mon_run cs (mon_C12 false cs) o l k = None).
  { induction l as [|e l IH]; intros o k; [reflexivity|]. cbn.
    assert (Hm : mon_C12 false cs o e = true) by (unfold mon_C12; destruct (snd e); reflexivity).
    rewrite Hm. apply IH. }
  now rewrite Hall.
Qed.
