(* Generic lemmas used by the C05 simulation (RelC05.v):
   - how one observer step changes the per-instance facts o_nm / o_depfail / o_gone   (observer only)
   - how one accepted model step changes the program counter of an instance ([pc_trans]) and the
     reported exit code of a name                                                        (model only)
   Nothing here mentions the C05 relation itself. *)
From Coq Require Import List ZArith NArith Bool Lia.
From RecordUpdate Require Import RecordSet.
From PC.Base Require Import Assoc.
From PC.Sup Require Import Model Monitors Tactics Sim ObsFacts Effects RelCore.
Import ListNotations RecordSetNotations.

(* ---- the window flags C05 needs ------------------------------------------------------------------- *)
Definition W_C05 (o : obs) : bool := w_dup o || w_zombie o.

Lemma W_C05_mono cs o e : W_C05 o = true -> W_C05 (obs_step cs o e) = true.
Proof.
  intros H. pose proof (obs_step_flags_mono cs o e) as F. unfold flag_le, windows_of in F.
  repeat match goal with F : Forall2 _ (_ :: _) (_ :: _) |- _ => inversion F; clear F; subst end.
  unfold W_C05 in *. apply orb_true_iff in H. apply orb_true_iff. destruct H; [left|right]; auto.
Qed.

(* ---- observer: per-instance facts ------------------------------------------------------------------ *)
Definition is_depfail (e : event) : bool := match e with EDepDone _ false => true | _ => false end.
Definition is_exit (e : event) : bool := match e with EInstExit => true | _ => false end.
Definition is_new (e : event) : bool := match e with ENewInst _ _ => true | _ => false end.

Definition oi_rel (Q : iid -> oinst -> oinst -> Prop) (o o' : obs) : Prop :=
  forall j, match get j (oi o) with
            | Some x => exists x', get j (oi o') = Some x' /\ Q j x x'
            | None => get j (oi o') = None
            end.

Definition keep5 (_ : iid) (x x' : oinst) : Prop :=
  o_nm x' = o_nm x /\ o_depfail x' = o_depfail x /\ o_gone x' = o_gone x.

Lemma oi_rel_refl o : oi_rel keep5 o o.
Proof. intros j. destruct (get j (oi o)) as [x|]; [exists x; repeat split|reflexivity]. Qed.

Lemma oi_rel_trans o1 o2 o3 : oi_rel keep5 o1 o2 -> oi_rel keep5 o2 o3 -> oi_rel keep5 o1 o3.
Proof.
  intros A B j. specialize (A j). specialize (B j). destruct (get j (oi o1)) as [x|].
  - destruct A as (x2 & E2 & ? & ? & ?). rewrite E2 in B. destruct B as (x3 & E3 & ? & ? & ?).
    exists x3. unfold keep5. repeat split; congruence.
  - now rewrite A in B.
Qed.

Lemma oi_rel_eq o o' : oi o' = oi o -> oi_rel keep5 o o'.
Proof. intros E j. rewrite E. destruct (get j (oi o)) as [x|]; [exists x; repeat split|reflexivity]. Qed.

Lemma oi_rel_oi_upd i f o :
  (forall x, o_nm (f x) = o_nm x /\ o_depfail (f x) = o_depfail x /\ o_gone (f x) = o_gone x) ->
  oi_rel keep5 o (oi_upd i f o).
Proof.
  intros Hf j. rewrite oi_upd_get. destruct (N.eqb i j); destruct (get j (oi o)) as [x|]; cbn; try reflexivity.
  - exists (f x). split; [reflexivity|apply Hf].
  - exists x. repeat split.
Qed.

Lemma oi_rel_on_upd n f o : oi_rel keep5 o (on_upd n f o).
Proof. apply oi_rel_eq, on_upd_oi. Qed.

Lemma oi_rel_fold_oi_upd (f : oinst -> oinst) l :
  (forall x, o_nm (f x) = o_nm x /\ o_depfail (f x) = o_depfail x /\ o_gone (f x) = o_gone x) ->
  forall o, oi_rel keep5 o (fold_left (fun o i => oi_upd i f o) l o).
Proof.
  intros Hf. induction l as [|a l IH]; intros o; cbn; [apply oi_rel_refl|].
  eapply oi_rel_trans; [apply (oi_rel_oi_upd a f o Hf)|apply IH].
Qed.

Lemma oi_rel_refresh o : oi_rel keep5 o (refresh_succ o).
Proof.
  intros j. rewrite refresh_get. destruct (get j (oi o)) as [x|]; cbn; [|reflexivity].
  eexists; split; [reflexivity|]. destruct (_ && _); repeat split.
Qed.

Ltac oi_rel_close :=
  repeat first
  [ apply oi_rel_refl
  | match goal with
    | |- oi_rel keep5 ?o (oi_upd ?i ?f ?X) =>
        apply (oi_rel_trans o X); [|apply oi_rel_oi_upd; intros; cbn; destruct_matches; repeat split; reflexivity]
    | |- oi_rel keep5 ?o (on_upd ?n ?f ?X) =>
        apply (oi_rel_trans o X); [|apply oi_rel_on_upd]
    | |- oi_rel keep5 ?o (fold_left (fun o i => oi_upd i ?f o) ?l ?X) =>
        apply (oi_rel_trans o X); [|apply oi_rel_fold_oi_upd; intros; cbn; repeat split; reflexivity]
    | |- oi_rel keep5 ?o (RecordSet.set _ _ ?X) =>
        apply (oi_rel_trans o X); [|apply oi_rel_eq; reflexivity]
    end ].

(* events after which o_nm / o_depfail / o_gone of every instance are what they were *)
Definition plain5 (e : event) : bool := negb (is_new e || is_depfail e || is_exit e).

Lemma obs_step_keep5 cs o th e : plain5 e = true -> oi_rel keep5 o (obs_step cs o (th, e)).
Proof.
  intros Hex. unfold obs_step. eapply oi_rel_trans; [|apply oi_rel_refresh].
  destruct e; try discriminate Hex; cbn [fst snd];
  try (destruct (ev_inst o th _) eqn:Ev);
  try match goal with |- context[match ?b with true => _ | false => _ end] => destruct b end;
  try discriminate Hex; unfold note_late_commit;
  repeat match goal with |- context[if ?b then _ else _] => destruct b end;
  try apply oi_rel_refl; oi_rel_close.
Qed.

(* the general form: what an observer step does to the three facts of instance j *)
Definition own_is (o : obs) (th : tid) (j : iid) : bool := opt_eqb N.eqb (get th (o_th o)) (Some j).

Definition step5 (o : obs) (th : tid) (e : event) (j : iid) (x x' : oinst) : Prop :=
  o_nm x' = o_nm x /\
  o_depfail x' = (o_depfail x || (is_depfail e && own_is o th j)) /\
  o_gone x' = (o_gone x || (is_exit e && own_is o th j)).

Lemma obs_step5 cs o th e : is_new e = false -> oi_rel (step5 o th e) o (obs_step cs o (th, e)).
Proof.
  intros Hn. destruct (plain5 e) eqn:Hp.
  - pose proof (obs_step_keep5 cs o th e Hp) as K. intros j. specialize (K j).
    destruct (get j (oi o)) as [x|]; [|exact K]. destruct K as (x' & E & A & B & C). exists x'. split; [exact E|].
    unfold plain5 in Hp. apply negb_true_iff in Hp. rewrite Hn in Hp. cbn in Hp. apply orb_false_iff in Hp. destruct Hp as [P1 P2].
    unfold step5. rewrite P1, P2. cbn. rewrite !orb_false_r. auto.
  - unfold plain5 in Hp. apply negb_false_iff in Hp. rewrite Hn in Hp. cbn in Hp.
    destruct e; try discriminate Hp; try discriminate Hn.
    + (* EDepDone k ok *)
      destruct ok; [discriminate Hp|]. intros j. unfold obs_step. cbn [fst snd ev_inst]. unfold step5, own_is. cbn [is_depfail is_exit].
      destruct (get th (o_th o)) as [i|] eqn:Et.
      * rewrite refresh_get, oi_upd_get. cbn [opt_eqb]. destruct (N.eqb i j); destruct (get j (oi o)) as [x|]; cbn; try reflexivity;
          (eexists; split; [reflexivity|]); destruct (_ && _); cbn; rewrite ?orb_false_r, ?orb_true_r; auto.
      * rewrite refresh_get. destruct (get j (oi o)) as [x|]; cbn; try reflexivity.
        eexists; split; [reflexivity|]. destruct (_ && _); cbn; rewrite ?orb_false_r; auto.
    + (* EInstExit *)
      intros j. unfold obs_step. cbn [fst snd ev_inst]. unfold step5, own_is. cbn [is_depfail is_exit].
      destruct (get th (o_th o)) as [i|] eqn:Et.
      * rewrite refresh_get, oi_upd_get. cbn [opt_eqb]. destruct (N.eqb i j); destruct (get j (oi o)) as [x|]; cbn; try reflexivity;
          (eexists; split; [reflexivity|]); destruct (_ && _); cbn; rewrite ?orb_false_r, ?orb_true_r; auto.
      * rewrite refresh_get. destruct (get j (oi o)) as [x|]; cbn; try reflexivity.
        eexists; split; [reflexivity|]. destruct (_ && _); cbn; rewrite ?orb_false_r; auto.
Qed.

Lemma existsb_false_all {A} (f : A -> bool) l : existsb f l = false -> forall y, In y l -> f y = false.
Proof.
  induction l as [|a l IH]; cbn; [tauto|]. intros H y [->|Hy]; apply orb_false_iff in H; destruct H; auto.
Qed.

(* a new instance: registered with all facts false; the others keep theirs; the two flags record whether
   an earlier instance of the name is still around *)
Lemma obs_step_new cs o th i n :
  let o' := obs_step cs o (th, ENewInst i n) in
  (exists x', get i (oi o') = Some x' /\ o_nm x' = n /\ o_depfail x' = false /\ o_gone x' = false) /\
  (forall j, j <> i -> match get j (oi o) with
                       | Some x => exists x', get j (oi o') = Some x' /\ keep5 j x x'
                       | None => get j (oi o') = None end) /\
  (W_C05 o' = false -> forall y, In y (vals (oi o)) -> o_nm y = n -> o_gone y = true).
Proof.
  cbv zeta. unfold obs_step. cbn [fst snd ev_inst]. repeat split.
  - rewrite refresh_get. cbn. rewrite get_set_same. cbn. eexists; split; [reflexivity|]. cbn. auto.
  - intros j Hj. rewrite refresh_get. cbn. rewrite get_set_other by congruence.
    destruct (get j (oi o)) as [x|]; cbn; [|reflexivity]. eexists; split; [reflexivity|]. destruct (_ && _); repeat split.
  - unfold W_C05. cbn. intros HW y Hy Hn.
    apply orb_false_iff in HW. destruct HW as [Hd Hz].
    apply orb_false_iff in Hd. destruct Hd as [_ Hd]. apply orb_false_iff in Hz. destruct Hz as [_ Hz].
    pose proof (existsb_false_all _ _ Hd y Hy) as D. pose proof (existsb_false_all _ _ Hz y Hy) as Z. cbn in D, Z.
    rewrite Hn, N.eqb_refl in D, Z. cbn in D, Z.
    destruct (o_gone y); [reflexivity|]. destruct (o_ended y); cbn in *; discriminate.
Qed.

(* ---- model: program counter transitions ------------------------------------------------------------ *)
(* an over-approximation of the changes of an instance's program counter, by event *)
Definition pc_trans (e : event) (p p' : ipc) : bool :=
  match e, p, p' with
  | EDepWait _ _, IDeps _, (IDeps _ | IBlocked _ _ _ _) => true
  | EDepDone _ true, IBlocked _ _ _ _, IDeps _ => true
  | EDepDone _ false, IBlocked _ _ _ _, ISkipDecided => true
  | ESkip, ISkipDecided, IEnding SSkipped c => Z.eqb c 1
  | ERunChecked _, IDeps _, (IRunRet _ | IEnding SError _ | IPreStart) => true
  | EStarted, IPreStart, IPreLaunch => true
  | ELaunch _, IStateSet, (IAlive | IEnding SError _) => true
  | EWaitReturn _, IAlive, IExited _ => true
  | EExitCode _, IExited _, ICodeWritten _ => true
  | ERestartDecision _, ICodeWritten _, (IWillRestart _ | IEnding SCompleted _) => true
  | EBackoffWait _, IRestarting _, IBackoff _ => true
  | EBackoffElapsed, IBackoff _, IPreLaunch => true
  | EBackoffCancelled, IBackoff _, IEnding SCompleted _ => true
  | ERunReturned _, IRunRet _, IDoneReg _ => true
  | EInstDone, IDoneReg _, IProjEnd _ false => true
  | EExitTrigger c0, IProjEnd c _, ITriggered c' => Z.eqb c0 c && Z.eqb c c'
  | EExitCodeSet _, ITriggered _, ILeaving => true
  | EInstExit, (IProjEnd _ _ | ILeaving), IWgDone => true
  | EInstGone, IWgDone, IGone => true
  | EState _ SRunning, IPreLaunch, IStateSet => true
  | EState _ SRestarting, IWillRestart _, IRestarting _ => true
  | EState _ s0, IInEnd s1 c false, IInEnd s2 c' true => status_eqb s0 s1 && status_eqb s1 s2 && Z.eqb c c'
  | EProcEnd _ _, IEnding s1 c, IInEnd s2 c' false => status_eqb s1 s2 && Z.eqb c c'
  | EProcEnded _ _, IInEnd SSkipped c true, IProjEnd c' true => Z.eqb c c'
  | EProcEnded _ _, IInEnd s1 _ true, IRunRet _ => negb (status_eqb s1 SSkipped)
  | _, _, _ => false
  end.

Definition inst_rel (Q : iid -> inst -> inst -> Prop) (s s' : sys) : Prop :=
  forall j, match get j (insts s) with
            | Some x => exists x', get j (insts s') = Some x' /\ Q j x x'
            | None => get j (insts s') = None
            end.

(* nothing happened to name and program counter *)
Definition keep_pc (_ : iid) (x x' : inst) : Prop := nm x' = nm x /\ pc x' = pc x.

Lemma inst_rel_refl s : inst_rel keep_pc s s.
Proof. intros j. destruct (get j (insts s)) as [x|]; [exists x; repeat split|reflexivity]. Qed.

Lemma inst_rel_trans s1 s2 s3 : inst_rel keep_pc s1 s2 -> inst_rel keep_pc s2 s3 -> inst_rel keep_pc s1 s3.
Proof.
  intros A B j. specialize (A j). specialize (B j). destruct (get j (insts s1)) as [x|].
  - destruct A as (x2 & E2 & ? & ?). rewrite E2 in B. destruct B as (x3 & E3 & ? & ?).
    exists x3. unfold keep_pc. repeat split; congruence.
  - now rewrite A in B.
Qed.

Lemma inst_rel_eq s s' : insts s' = insts s -> inst_rel keep_pc s s'.
Proof. intros E j. rewrite E. destruct (get j (insts s)) as [x|]; [exists x; repeat split|reflexivity]. Qed.

Lemma inst_rel_upd_inst i f s : (forall x, nm (f x) = nm x /\ pc (f x) = pc x) -> inst_rel keep_pc s (upd_inst i f s).
Proof.
  intros Hf j. rewrite insts_upd_inst. destruct (N.eqb i j); destruct (get j (insts s)) as [x|]; cbn; try reflexivity.
  - exists (f x). split; [reflexivity|apply Hf].
  - exists x. repeat split.
Qed.

Lemma inst_rel_upd_vis n f s : inst_rel keep_pc s (upd_vis n f s).
Proof. apply inst_rel_eq, upd_vis_insts. Qed.

Lemma inst_rel_fold_upd_inst (f : inst -> inst) l :
  (forall x, nm (f x) = nm x /\ pc (f x) = pc x) ->
  forall s, inst_rel keep_pc s (fold_left (fun s i => upd_inst i f s) l s).
Proof.
  intros Hf. induction l as [|a l IH]; intros s; cbn; [apply inst_rel_refl|].
  eapply inst_rel_trans; [apply (inst_rel_upd_inst a f s Hf)|apply IH].
Qed.

Ltac inst_rel_close :=
  unfold set_pc, end_release_early, end_finish, write_status;
  repeat first
  [ apply inst_rel_refl
  | match goal with
    | |- inst_rel keep_pc ?s (upd_inst ?i ?f ?X) =>
        apply (inst_rel_trans s X); [|apply inst_rel_upd_inst; intros; cbn; repeat split; try reflexivity; destruct_matches; reflexivity]
    | |- inst_rel keep_pc ?s (upd_vis ?n ?f ?X) =>
        apply (inst_rel_trans s X); [|apply inst_rel_upd_vis]
    | |- inst_rel keep_pc ?s (fold_left (fun s i => upd_inst i ?f s) ?l ?X) =>
        apply (inst_rel_trans s X); [|apply inst_rel_fold_upd_inst; intros; cbn; repeat split; reflexivity]
    | |- inst_rel keep_pc ?s (set_thread ?th ?t ?X) =>
        apply (inst_rel_trans s X); [|apply inst_rel_eq; reflexivity]
    | |- inst_rel keep_pc ?s (RecordSet.set _ _ ?X) =>
        apply (inst_rel_trans s X); [|apply inst_rel_eq; reflexivity]
    | |- inst_rel keep_pc ?s (if ?b then _ else _) => destruct b
    | |- inst_rel keep_pc ?s (match ?b with _ => _ end) => destruct b
    end ].

(* (RelCore.kind_cases is local to a section there) *)
Ltac kind_cases H :=
  unfold_steps H; unfold own_inst in H; cbn [fst snd] in H; break_step H;
  repeat match goal with E : (match _ with _ => _ end) = Some _ |- _ => break_step E end;
  repeat match goal with E : _ = ?s' |- _ => is_var s'; subst s' end.

Lemma step_reg_pc s th e s' : is_new e = false -> step_reg s th e = Some s' -> inst_rel keep_pc s s'.
Proof. intros Hex H. destruct e; try discriminate Hex; kind_cases H; inst_rel_close. Qed.
Lemma step_stop_pc s th e s' : step_stop s th e = Some s' -> inst_rel keep_pc s s'.
Proof. intros H. destruct e; kind_cases H; inst_rel_close. Qed.
Lemma step_shutdown_pc s th e s' : step_shutdown s th e = Some s' -> inst_rel keep_pc s s'.
Proof. intros H. destruct e; kind_cases H; inst_rel_close. Qed.
Lemma step_env_pc s th e s' : step_env s th e = Some s' -> inst_rel keep_pc s s'.
Proof. intros H. destruct e; kind_cases H; inst_rel_close. Qed.
Lemma step_api_pc s th e s' : step_api s th e = Some s' -> inst_rel keep_pc s s'.
Proof. intros H. destruct e; kind_cases H; inst_rel_close. Qed.
Lemma step_ordered_pc s th i s' : step_ordered_go s th i = Some s' -> inst_rel keep_pc s s'.
Proof. intros H. kind_cases H; inst_rel_close. Qed.

(* ---- the instance's own steps ----------------------------------------------------------------------- *)
Definition touches (e : event) : bool := is_depfail e || is_exit e.

(* what one step of thread th does to instance j: the name stays; the program counter stays or, if j is the
   instance of th, moves along [pc_trans]; the events the observer records per thread (failed dependency
   wait, inst_exit) always move the counter of the thread's instance *)
Definition pcQ (s : sys) (th : tid) (e : event) (j : iid) (x x' : inst) : Prop :=
  nm x' = nm x /\
  (pc x' = pc x \/ (get th (thinst s) = Some j /\ pc_trans e (pc x) (pc x') = true)) /\
  (touches e = true -> get th (thinst s) = Some j -> pc_trans e (pc x) (pc x') = true).

Lemma keep_pcQ s th e s1 s2 : touches e = false -> inst_rel keep_pc s1 s2 -> inst_rel (pcQ s th e) s1 s2.
Proof.
  intros Ht K j. specialize (K j). destruct (get j (insts s1)) as [x|]; [|exact K].
  destruct K as (x' & E & A & B). exists x'. split; [exact E|]. unfold pcQ. rewrite Ht. repeat split; auto. discriminate.
Qed.

Lemma inst_rel_own s th e i x f s' :
  get th (thinst s) = Some i -> get i (insts s) = Some x ->
  (forall j, get j (insts s') = get j (insts (upd_inst i f s))) ->
  nm (f x) = nm x -> pc_trans e (pc x) (pc (f x)) = true ->
  inst_rel (pcQ s th e) s s'.
Proof.
  intros Ht Hx Hs Hn Hp j. rewrite Hs, insts_upd_inst. destruct (N.eqb_spec i j) as [<-|Hne].
  - rewrite Hx. cbn. exists (f x). split; [reflexivity|]. unfold pcQ. auto.
  - destruct (get j (insts s)) as [y|]; [|reflexivity]. exists y. split; [reflexivity|]. unfold pcQ.
    repeat split; auto. intros _ Hj. congruence.
Qed.

Lemma insts_upd_inst2 i f g s j :
  get j (insts (upd_inst i f (upd_inst i g s))) = get j (insts (upd_inst i (fun x => f (g x)) s)).
Proof. rewrite !insts_upd_inst. destruct (N.eqb i j); [destruct (get j (insts s)); reflexivity|reflexivity]. Qed.

Ltac destruct_inner :=
  repeat match goal with
  | |- context[match ?x with _ => _ end] =>
      lazymatch x with context[match _ with _ => _ end] => fail | _ => destruct x; cbn end
  end.

Ltac own_close :=
  first
  [ eapply inst_rel_own;
    [ eassumption | eassumption
    | intros; unfold set_pc, end_finish, write_status; rewrite ?insts_upd_inst2; autorewrite with sup; reflexivity
    | cbn; destruct_matches; reflexivity
    | match goal with E : pc _ = _ |- _ => rewrite E end; cbn; destruct_inner; cbn; rewrite ?status_eqb_refl, ?Z.eqb_refl;
      try reflexivity; split_andb; subst; rewrite ?Z.eqb_refl; reflexivity ]
  | apply keep_pcQ; [reflexivity|inst_rel_close] ].

Lemma step_own_pc s th e s' : step_own s th e = Some s' -> inst_rel (pcQ s th e) s s'.
Proof.
  intros H. destruct e; kind_cases H; own_close.
Qed.

Lemma step_state_pc s th i s0 s' : step_state s th i s0 = Some s' -> inst_rel (pcQ s th (EState i s0)) s s'.
Proof.
  intros H. kind_cases H; split_andb;
    repeat match goal with E : status_eqb _ _ = true |- _ => apply status_eqb_eq in E; subst end;
    repeat match goal with E : opt_eqb N.eqb _ _ = true |- _ => apply opt_eqb_N_eq in E end;
    try (own_close; fail).
Qed.

Lemma step_procend_pc s th i s0 b s' : step_procend s th i s0 b = Some s' ->
  inst_rel (pcQ s th (if b then EProcEnd i s0 else EProcEnded i s0)) s s'.
Proof.
  intros H. destruct b; kind_cases H; split_andb;
    repeat match goal with E : status_eqb _ _ = true |- _ => apply status_eqb_eq in E; subst end;
    repeat match goal with E : opt_eqb N.eqb _ _ = true |- _ => apply opt_eqb_N_eq in E end;
    own_close.
Qed.

Lemma step_core_pc s th e s' : is_new e = false -> step_core s th e = Some s' -> inst_rel (pcQ s th e) s s'.
Proof.
  intros Hn H.
  destruct (step_core_kind _ _ _ _ H) as [? ?|i x ? ? ? ? ? ?|Hk|Hk|Hk|i s0 ? Hk|i s0 b ? Hk|Hk|i ? Hk|Hk|Hk]; subst.
  - apply keep_pcQ; [reflexivity|apply inst_rel_refl].
  - apply keep_pcQ; [reflexivity|apply inst_rel_eq; reflexivity].
  - apply keep_pcQ; [destruct e; try reflexivity; discriminate Hk|eapply step_reg_pc; eauto].
  - apply keep_pcQ; [destruct e; try reflexivity; discriminate Hk|eapply step_api_pc; eauto].
  - apply keep_pcQ; [destruct e; try reflexivity; discriminate Hk|eapply step_stop_pc; eauto].
  - now apply step_state_pc.
  - now apply step_procend_pc.
  - apply keep_pcQ; [destruct e; try reflexivity; discriminate Hk|eapply step_shutdown_pc; eauto].
  - apply keep_pcQ; [reflexivity|eapply step_ordered_pc; eauto].
  - apply keep_pcQ; [destruct e; try reflexivity; discriminate Hk|eapply step_env_pc; eauto].
  - now apply step_own_pc.
Qed.

(* ---- model: the reported exit code of a name -------------------------------------------------------- *)
Lemma sys_same_code s s' n : sys_same s s' -> code (vis_of s' n) = code (vis_of s n).
Proof.
  intros (_ & _ & _ & D). specialize (D n). unfold vis_of. destruct (get n (viss s)) as [v|].
  - destruct D as (v' & -> & ? & _). assumption.
  - now rewrite D.
Qed.

Lemma vis_of_write_status n s0 s m :
  code (vis_of (write_status n s0 s) m) = code (vis_of s m) \/ code (vis_of (write_status n s0 s) m) = 1%Z.
Proof.
  unfold write_status, vis_of. rewrite viss_upd_vis. destruct (N.eqb n m); [|now left].
  destruct (get m (viss s)) as [v|]; cbn; [|now left]. destruct s0; cbn; auto.
Qed.

Lemma step_core_code s th e s' : step_core s th e = Some s' -> forall n,
  code (vis_of s' n) = code (vis_of s n) \/ code (vis_of s' n) = 1%Z \/
  (exists i x c, e = EExitCode c /\ get th (thinst s) = Some i /\ get i (insts s) = Some x /\ nm x = n /\ pc x = IExited c).
Proof.
  intros H n. destruct (exceptional e) eqn:Hex.
  2:{ left. apply sys_same_code. eapply step_core_same; eauto. }
  destruct e; try discriminate Hex; cbn in H.
  - (* ENewInst *) left. unfold step_reg in H. break_step H. subst s'. reflexivity.
  - (* EBegin *) left. break_step H. subst s'. reflexivity.
  - (* EState *)
    unfold step_state in H. break_step H; subst s'; unfold set_pc, end_finish; autorewrite with sup;
      repeat match goal with |- context[vis_of (if ?b then _ else _) _] => destruct b end; autorewrite with sup;
      match goal with |- context[write_status ?a ?b ?c] =>
        destruct (vis_of_write_status a b c n) as [A|A]; [left|right; left]; exact A end.
  - (* ELaunch *)
    left. unfold step_own, own_inst in H. break_step H; subst s'; autorewrite with sup; reflexivity.
  - (* EExitCode *)
    unfold step_own, own_inst in H. break_step H; subst s'. unfold set_pc. autorewrite with sup.
    apply Z.eqb_eq in E2. subst c0.
    destruct (get th (thinst s)) as [i'|] eqn:Et; [|discriminate]. destruct (get i' (insts s)) as [x'|] eqn:Ex; [|discriminate].
    injection E as -> ->.
    unfold vis_of. rewrite viss_upd_vis. destruct (N.eqb_spec (nm i0) n) as [Hn|Hn]; [|now left].
    right; right. exists i, i0, c. repeat split; auto.
  - (* EBackoffWait *)
    left. unfold step_own, own_inst in H. break_step H; subst s'. unfold set_pc. autorewrite with sup.
    unfold vis_of. rewrite viss_upd_vis. destruct (N.eqb (nm i0) n); [|reflexivity].
    destruct (get n (viss s)); reflexivity.
Qed.

(* the status write Skipped is done by the instance's own thread and leaves exit code 1 *)
Lemma step_state_skipped s th i s' : step_core s th (EState i SSkipped) = Some s' ->
  exists x, get i (insts s) = Some x /\ get th (thinst s) = Some i /\
            (get (nm x) (viss s) <> None -> code (vis_of s' (nm x)) = 1%Z).
Proof.
  intros H. cbn in H. unfold step_state in H.
  destruct (get i (insts s)) as [x|] eqn:Ex; [|discriminate]. exists x. split; [reflexivity|].
  break_step H; split_andb; try discriminate;
    repeat match goal with E : opt_eqb N.eqb _ _ = true |- _ => apply opt_eqb_N_eq in E end;
    (split; [assumption|]); subst s'; intros Hv;
    unfold set_pc, end_finish; autorewrite with sup;
    match goal with E : status_eqb SSkipped ?s1 = true |- _ => apply status_eqb_eq in E; subst s1 end;
    unfold write_status, vis_of; rewrite viss_upd_vis, N.eqb_refl;
    (destruct (get (nm x) (viss s)); [reflexivity|congruence]).
Qed.

Lemma step_core_new s th i n s' : step_core s th (ENewInst i n) = Some s' ->
  get i (insts s) = None /\ exists c, get n (confs s) = Some c /\
  s' = set_stage th i 0 (s <| insts := set i (new_inst n c) (insts s) |>).
Proof.
  intros H. cbn in H. unfold step_reg in H. break_step H. subst s'.
  apply negb_true_iff in E0. unfold has in E0. destruct (get i (insts s)); [discriminate|]. eauto.
Qed.

(* flush moves latches only *)
Lemma flush_pc th s : inst_rel keep_pc s (flush th s).
Proof.
  intros j. pose proof (flush_insts th s j) as H. destruct (get j (insts s)) as [x|]; [|exact H].
  destruct H as (x' & E & L). exists x'. split; [exact E|]. unfold inst_latch_le in L. unfold keep_pc. intuition.
Qed.
Lemma flush_code th s n : code (vis_of (flush th s) n) = code (vis_of s n).
Proof. unfold vis_of. now rewrite flush_viss. Qed.

