(* Generic lemmas used by the C08 simulation proof (RelC08.v): association lists with unique keys,
   an observer-side frame relation for the fields C08 looks at, and the pure observer invariant
   "two instances of one name coexist only inside the dup / zombie windows". *)
From Coq Require Import List ZArith NArith Bool Lia.
From RecordUpdate Require Import RecordSet.
From PC.Base Require Import Assoc.
From PC.Sup Require Import Model Monitors Tactics Sim ObsFacts Effects RelCore.
Import ListNotations RecordSetNotations.

(* ---- association lists ------------------------------------------------------------------------------ *)
Section AssocMore.
Context {V : Type}.
Implicit Types (m : amap V) (k : N) (v : V).

Lemma get_none_notin k m : get k m = None -> ~ In k (keys m).
Proof.
  induction m as [|[k' v'] r IH]; cbn; [tauto|].
  destruct (N.eqb_spec k' k); [discriminate|]. intros H [E|HI]; [contradiction|]. now apply IH.
Qed.

Lemma keys_set_some k v m : get k m <> None -> keys (set k v m) = keys m.
Proof.
  induction m as [|[k' v'] r IH]; cbn; [congruence|].
  destruct (N.eqb_spec k' k); cbn; [now subst|]. intros H. f_equal. now apply IH.
Qed.

Lemma keys_set_none k v m : get k m = None -> keys (set k v m) = keys m ++ [k].
Proof.
  induction m as [|[k' v'] r IH]; cbn; [reflexivity|].
  destruct (N.eqb_spec k' k); cbn; [discriminate|]. intros H. f_equal. now apply IH.
Qed.

Lemma nodup_keys_set k v m : NoDup (keys m) -> NoDup (keys (set k v m)).
Proof.
  intros H. destruct (get k m) eqn:E.
  - rewrite keys_set_some by congruence. exact H.
  - rewrite keys_set_none by assumption. apply get_none_notin in E.
    clear - H E. induction (keys m) as [|a l IH]; cbn.
    + constructor; [tauto|constructor].
    + inversion H; subst. constructor.
      * rewrite in_app_iff. cbn. intros [HI|[->|[]]]; [contradiction|]. apply E. now left.
      * apply IH; [assumption|]. intros HI. apply E. now right.
Qed.

Lemma in_get_nodup k v m : NoDup (keys m) -> In (k, v) m -> get k m = Some v.
Proof.
  induction m as [|[k' v'] r IH]; cbn; [tauto|]. intros Hnd [E|HI].
  - inversion E; subst. now rewrite N.eqb_refl.
  - inversion Hnd; subst. destruct (N.eqb_spec k' k).
    + subst. exfalso. apply H1. change k with (fst (k, v)). now apply in_map.
    + now apply IH.
Qed.

Lemma get_in_vals k v m : get k m = Some v -> In v (vals m).
Proof. intros H. apply get_in in H. change v with (snd (k, v)). now apply in_map. Qed.

Lemma keys_map_snd (f : N * V -> V) m : keys (map (fun p => (fst p, f p)) m) = keys m.
Proof. unfold keys. rewrite map_map. now apply map_ext. Qed.
End AssocMore.

(* ---- the observer fields C08 looks at: o_nm, o_alive, o_ended, o_gone ------------------------------- *)
(* [frame8 b o o']: same instances, same names, o_ended/o_gone only grow; with b = true also
   o_alive and o_gone unchanged *)
Definition frame8 (b : bool) (o o' : obs) : Prop :=
  keys (oi o') = keys (oi o) /\
  forall j, match get j (oi o) with
            | Some y => exists y', get j (oi o') = Some y' /\ o_nm y' = o_nm y /\
                        (o_ended y = true -> o_ended y' = true) /\ (o_gone y = true -> o_gone y' = true) /\
                        (b = true -> o_alive y' = o_alive y /\ o_gone y' = o_gone y)
            | None => get j (oi o') = None
            end.

Lemma frame8_refl b o : frame8 b o o.
Proof. split; [reflexivity|]. intros j. destruct (get j (oi o)) as [y|]; eauto 8. Qed.

Lemma frame8_trans b o1 o2 o3 : frame8 b o1 o2 -> frame8 b o2 o3 -> frame8 b o1 o3.
Proof.
  intros [K1 A1] [K2 A2]. split; [congruence|]. intros j. specialize (A1 j). specialize (A2 j).
  destruct (get j (oi o1)) as [y|].
  - destruct A1 as (y2 & E2 & N2 & En2 & G2 & B2). rewrite E2 in A2. destruct A2 as (y3 & E3 & N3 & En3 & G3 & B3).
    exists y3. split; [exact E3|]. split; [congruence|]. split; [auto|]. split; [auto|].
    intros Hb. destruct (B2 Hb), (B3 Hb). split; congruence.
  - now rewrite A1 in A2.
Qed.

Lemma frame8_eq b o o' : oi o' = oi o -> frame8 b o o'.
Proof. intros E. unfold frame8. rewrite E. apply frame8_refl. Qed.

Lemma frame8_oi_upd b i f o :
  (forall y, o_nm (f y) = o_nm y /\ (o_ended y = true -> o_ended (f y) = true) /\ (o_gone y = true -> o_gone (f y) = true) /\
             (b = true -> o_alive (f y) = o_alive y /\ o_gone (f y) = o_gone y)) ->
  frame8 b o (oi_upd i f o).
Proof.
  intros Hf. split.
  - unfold oi_upd. destruct (get i (oi o)) eqn:E; [|reflexivity]. cbn. apply keys_set_some. congruence.
  - intros j. rewrite oi_upd_get. destruct (N.eqb i j); destruct (get j (oi o)) as [y|]; cbn; eauto 8.
    all: try (exists (f y); destruct (Hf y) as (? & ? & ? & ?); auto).
Qed.

Lemma frame8_on_upd b n f o : frame8 b o (on_upd n f o).
Proof. apply frame8_eq, on_upd_oi. Qed.

Lemma frame8_fold_oi_upd b (f : oinst -> oinst) l :
  (forall y, o_nm (f y) = o_nm y /\ (o_ended y = true -> o_ended (f y) = true) /\ (o_gone y = true -> o_gone (f y) = true) /\
             (b = true -> o_alive (f y) = o_alive y /\ o_gone (f y) = o_gone y)) ->
  forall o, frame8 b o (fold_left (fun o i => oi_upd i f o) l o).
Proof.
  intros Hf. induction l as [|a l IH]; intros o; cbn; [apply frame8_refl|].
  eapply frame8_trans; [apply (frame8_oi_upd b a f o Hf)|apply IH].
Qed.

Lemma frame8_refresh b o : frame8 b o (refresh_succ o).
Proof.
  split.
  - unfold refresh_succ. cbn. apply (keys_map_snd (fun p => if o_ended (snd p) && (r_code (on_get o (o_nm (snd p))) =? 0)%Z then snd p <| o_succ := true |> else snd p)).
  - intros j. rewrite refresh_get. destruct (get j (oi o)) as [y|]; cbn; [|reflexivity].
    eexists; split; [reflexivity|]. destruct (_ && _); cbn; auto.
Qed.

Ltac frame8_fcond :=
  intros; cbn; destruct_matches; cbn; repeat split; intros; auto; try discriminate.

Ltac frame8_close :=
  repeat first
  [ apply frame8_refl
  | match goal with
    | |- frame8 ?b ?o (oi_upd ?i ?f ?X) =>
        apply (frame8_trans b o X); [|apply frame8_oi_upd; frame8_fcond]
    | |- frame8 ?b ?o (on_upd ?n ?f ?X) =>
        apply (frame8_trans b o X); [|apply frame8_on_upd]
    | |- frame8 ?b ?o (fold_left (fun o i => oi_upd i ?f o) ?l ?X) =>
        apply (frame8_trans b o X); [|apply frame8_fold_oi_upd; frame8_fcond]
    | |- frame8 ?b ?o (RecordSet.set _ _ ?X) =>
        apply (frame8_trans b o X); [|apply frame8_eq; reflexivity]
    end ].

(* events at which the observer changes o_alive / o_gone of an existing instance *)
Definition special8 (e : event) : bool :=
  match e with ELaunch true | ECmdExit _ _ | EInstExit => true | _ => false end.
Definition is_new (e : event) : bool := match e with ENewInst _ _ => true | _ => false end.

Lemma obs_step_frame8 cs o th e : is_new e = false -> frame8 (negb (special8 e)) o (obs_step cs o (th, e)).
Proof.
  intros Hn. unfold obs_step. eapply frame8_trans; [|apply frame8_refresh].
  destruct e; try discriminate Hn; cbn [fst snd special8 negb];
  try (destruct (ev_inst o th _) eqn:Ev);
  try match goal with |- context[match ?b with true => _ | false => _ end] => destruct b end;
  cbn [special8 negb]; unfold note_late_commit;
  repeat match goal with |- context[if ?b then _ else _] => destruct b end;
  try apply frame8_refl; frame8_close.
Qed.

(* ---- keys of the instance table stay duplicate-free ------------------------------------------------- *)
Lemma obs_step_nodup cs o te : NoDup (keys (oi o)) -> NoDup (keys (oi (obs_step cs o te))).
Proof.
  intros H. destruct te as [th e]. destruct (is_new e) eqn:Hn.
  - destruct e; try discriminate Hn. unfold obs_step. cbn [fst snd].
    unfold refresh_succ. cbn [oi RecordSet.set]. cbn.
    rewrite (keys_map_snd (fun p => if o_ended (snd p) && _ then snd p <| o_succ := true |> else snd p)).
    now apply nodup_keys_set.
  - destruct (obs_step_frame8 cs o th e Hn) as [K _]. now rewrite K.
Qed.

(* ---- the pure observer invariant ------------------------------------------------------------------- *)
Definition done8 (y : oinst) : bool := o_ended y && o_gone y.

Definition Pair8 (o : obs) : Prop :=
  w_dup o = false -> w_zombie o = false ->
  forall i j yi yj, i <> j -> get i (oi o) = Some yi -> get j (oi o) = Some yj -> o_nm yi = o_nm yj ->
  done8 yi = true \/ done8 yj = true.

Lemma flag_le_dup_zombie o o' : flag_le o o' ->
  (w_dup o' = false -> w_dup o = false) /\ (w_zombie o' = false -> w_zombie o = false).
Proof.
  unfold flag_le, windows_of. intros H.
  inversion H as [|? ? ? ? Hz H1]; subst. inversion H1 as [|? ? ? ? _ H2]; subst.
  inversion H2 as [|? ? ? ? _ H3]; subst. inversion H3 as [|? ? ? ? _ H4]; subst.
  inversion H4 as [|? ? ? ? _ H5]; subst. inversion H5 as [|? ? ? ? Hd _]; subst.
  split; intros E.
  - destruct (w_dup o); [|reflexivity]. rewrite Hd in E by reflexivity. discriminate.
  - destruct (w_zombie o); [|reflexivity]. rewrite Hz in E by reflexivity. discriminate.
Qed.

Lemma Pair8_frame b o o' : frame8 b o o' -> flag_le o o' -> Pair8 o -> Pair8 o'.
Proof.
  intros [_ F] Hfl HP Hd Hz i j yi yj Hij Ei Ej Hn.
  destruct (flag_le_dup_zombie _ _ Hfl) as [Hd0 Hz0].
  pose proof (F i) as Fi. pose proof (F j) as Fj.
  destruct (get i (oi o)) as [xi|] eqn:Gi; [|congruence].
  destruct (get j (oi o)) as [xj|] eqn:Gj; [|congruence].
  destruct Fi as (yi' & Ei' & Ni & Eni & Gni & _). destruct Fj as (yj' & Ej' & Nj & Enj & Gnj & _).
  assert (yi' = yi) by congruence. assert (yj' = yj) by congruence. subst yi' yj'.
  destruct (HP (Hd0 Hd) (Hz0 Hz) i j xi xj Hij Gi Gj) as [D|D]; [congruence| |];
    unfold done8 in *; apply andb_true_iff in D; destruct D; [left|right]; apply andb_true_iff; auto.
Qed.

Lemma existsb_false_in {A} (f : A -> bool) l x : existsb f l = false -> In x l -> f x = false.
Proof.
  intros H HI. destruct (f x) eqn:E; [|reflexivity].
  assert (existsb f l = true) by (apply existsb_exists; eauto). congruence.
Qed.

Lemma Pair8_new cs o th i n : Pair8 o -> Pair8 (obs_step cs o (th, ENewInst i n)).
Proof.
  intros HP. unfold obs_step. cbn [fst snd].
  set (y0 := mkOI n (o_cnt o) 0 false None None false false false false false false false 0 false false _ false false false []).
  intros Hd Hz a b ya yb Hab Ea Eb Hn. cbn in Hd, Hz.
  apply orb_false_iff in Hd. destruct Hd as [Hd Hdup]. apply orb_false_iff in Hz. destruct Hz as [Hz Hzom].
  rewrite refresh_get in Ea, Eb. cbn [oi RecordSet.set] in Ea, Eb. cbn in Ea, Eb.
  rewrite get_set in Ea, Eb.
  (* facts about an old instance of name n *)
  assert (Hold : forall (k : N) (y : oinst), get k (oi o) = Some y -> o_nm y = n -> done8 y = true).
  { intros k y Hk Hy. apply get_in_vals in Hk.
    pose proof (existsb_false_in _ _ _ Hdup Hk) as D1. pose proof (existsb_false_in _ _ _ Hzom Hk) as D2.
    cbn in D1, D2. rewrite Hy, N.eqb_refl in D1, D2. cbn in D1, D2. unfold done8.
    destruct (o_ended y); cbn in *; [|discriminate]. destruct (o_gone y); cbn in *; [reflexivity|discriminate]. }
  assert (Hre : forall (y y' : oinst) (g : bool), Some (if g then y <| o_succ := true |> else y) = Some y' ->
                 o_nm y' = o_nm y /\ done8 y' = done8 y).
  { intros y y' g E. injection E as <-. destruct g; split; reflexivity. }
  destruct (N.eqb_spec i a); destruct (N.eqb_spec i b); try congruence.
  - subst a. cbn in Ea. injection Ea as <-. destruct (get b (oi o)) as [xb|] eqn:Gb; [|discriminate]. cbn in Eb.
    apply Hre in Eb. destruct Eb as [Nb Db]. right. rewrite Db. apply (Hold b xb Gb).
    rewrite <- Nb, <- Hn. reflexivity.
  - subst b. cbn in Eb. injection Eb as <-. destruct (get a (oi o)) as [xa|] eqn:Ga; [|discriminate]. cbn in Ea.
    apply Hre in Ea. destruct Ea as [Na Da]. left. rewrite Da. apply (Hold a xa Ga).
    rewrite <- Na, Hn. reflexivity.
  - destruct (get a (oi o)) as [xa|] eqn:Ga; [|discriminate]. destruct (get b (oi o)) as [xb|] eqn:Gb; [|discriminate].
    cbn in Ea, Eb. apply Hre in Ea, Eb. destruct Ea as [Na Da], Eb as [Nb Db]. rewrite Da, Db.
    apply (HP Hd Hz a b xa xb Hab Ga Gb). congruence.
Qed.

Lemma Pair8_step cs o te : Pair8 o -> Pair8 (obs_step cs o te).
Proof.
  intros HP. destruct te as [th e]. destruct (is_new e) eqn:Hn.
  - destruct e; try discriminate Hn. now apply Pair8_new.
  - eapply Pair8_frame; [apply (obs_step_frame8 cs o th e Hn)|apply obs_step_flags_mono|exact HP].
Qed.

Lemma Pair8_init cs : Pair8 (obs0 cs).
Proof. intros _ _ i j yi yj _ E. discriminate E. Qed.
