(* C04 effect lemmas: instances that do not exist stay absent (except ENewInst). *)
From Coq Require Import List ZArith NArith Bool Lia.
From RecordUpdate Require Import RecordSet.
From PC.Base Require Import Assoc.
From PC.Sup Require Import Model Monitors Tactics Sim ObsFacts Effects RelCore LemC04.
Import ListNotations RecordSetNotations.

Ltac none_tac :=
  intros jj Hjj Hnn;
  repeat (sup_goal; match goal with |- context[insts ?X] =>
    match X with
    | match ?b with _ => _ end => destruct b eqn:?
    | if ?b then _ else _ => destruct b eqn:?
    end end);
  sup_goal; cbn -[get Assoc.set N.eqb]; sup_goal; cbn -[get Assoc.set N.eqb];
  repeat match goal with
  | |- context[N.eqb ?a jj] => destruct (N.eqb_spec a jj); [subst|]
  end; try congruence; try (rewrite Hjj; reflexivity).

Lemma own_none s th e s' : step_own s th e = Some s' -> none_eff s th e s'.
Proof. intros H. unfold none_eff. destruct e; kind_cases H; none_tac. Qed.
Lemma reg_none s th e s' : step_reg s th e = Some s' -> none_eff s th e s'.
Proof. intros H. unfold none_eff. destruct e; kind_cases H; none_tac.
  rewrite get_set. destruct (N.eqb_spec i jj); [subst; exfalso; eapply Hnn; reflexivity|exact Hjj].
Qed.
Lemma api_none s th e s' : step_api s th e = Some s' -> none_eff s th e s'.
Proof. intros H. unfold none_eff. destruct e; kind_cases H; none_tac. Qed.
Lemma stop_none s th e s' : step_stop s th e = Some s' -> none_eff s th e s'.
Proof. intros H. unfold none_eff. destruct e; kind_cases H; none_tac. Qed.
Lemma state_none s th i s0 s' : step_state s th i s0 = Some s' -> none_eff s th (EState i s0) s'.
Proof. intros H. unfold none_eff. kind_cases H; none_tac. Qed.
Lemma procend_none s th i s0 b s' : step_procend s th i s0 b = Some s' -> none_eff s th (if b then EProcEnd i s0 else EProcEnded i s0) s'.
Proof. intros H. unfold none_eff. destruct b; kind_cases H; none_tac. Qed.
Lemma ordered_none s th i s' : step_ordered_go s th i = Some s' -> none_eff s th (EOrderedGo i) s'.
Proof. intros H. unfold none_eff. kind_cases H; none_tac. Qed.
Lemma env_none s th e s' : step_env s th e = Some s' -> none_eff s th e s'.
Proof. intros H. unfold none_eff. destruct e; kind_cases H; none_tac. Qed.
Lemma shutdown_none s th e s' : step_shutdown s th e = Some s' -> none_eff s th e s'.
Proof. intros H. unfold none_eff. destruct e; kind_cases H; try none_tac.
  now apply fold_upd_inst_none.
Qed.

Lemma core_none s th e s' : step_core s th e = Some s' -> none_eff s th e s'.
Proof.
  intros H. destruct (step_core_kind _ _ _ _ H) as [? ?|i x ? ? ? ? ? ?|Hk|Hk|Hk|i s0 ? Hk|i s0 b ? Hk|Hk|i ? Hk|Hk|Hk]; subst.
  - intros j Hj _. exact Hj.
  - intros j Hj _. exact Hj.
  - now apply reg_none.
  - now apply api_none.
  - now apply stop_none.
  - now apply state_none.
  - now apply procend_none.
  - now apply shutdown_none.
  - now apply ordered_none.
  - now apply env_none.
  - now apply own_none.
Qed.



