(* C12 proof (hardened model), model-only: run-context latch and launch counter only grow; a stop execution that
   has entered with cancel = true has cancelled (or is about to cancel) the run context, and an internal stop
   (cancel = false, fatal probe) is only ever about an instance that has been launched. *)
From Coq Require Import List ZArith NArith Bool Lia.
From RecordUpdate Require Import RecordSet.
From PC.Base Require Import Assoc.
From PC.Sup Require Import Model Monitors Tactics Sim ObsFacts Effects RelCore LemC12 LemC12Inst LemC12Frame.
Import ListNotations RecordSetNotations.

Definition imono (x x' : inst) : Prop :=
  (l_runctx x = true -> l_runctx x' = true) /\ (launches x <> 0 -> launches x' <> 0).

Lemma fold_fstopped_get2 l : forall s j,
  get j (insts (fold_left (fun s0 i => upd_inst i (fun x => x <| f_stopped := true |>) s0) l s)) =
  option_map (fun x => if memN j l then x <| f_stopped := true |> else x) (get j (insts s)).
Proof.
  induction l as [|a l IH]; intros s j; cbn [fold_left].
  - cbn. now destruct (get j (insts s)).
  - rewrite IH, insts_upd_inst. unfold memN. cbn [existsb]. rewrite (N.eqb_sym j a).
    destruct (N.eqb a j); destruct (get j (insts s)) as [x|]; cbn; try reflexivity.
    destruct (existsb (N.eqb j) l); reflexivity.
Qed.

Ltac imono_leaf s jj Hx :=
  split_state_match; unfold set_pc, end_finish, end_release_early, write_status; autorewrite with sup; cbn;
  rewrite ?get_set, ?fold_fstopped_get2;
  repeat match goal with |- context[N.eqb ?a jj] => destruct (N.eqb_spec a jj); [subst jj|] end;
  repeat match goal with H : get ?i (insts s) = Some _ |- context[get ?i (insts s)] => rewrite H end;
  rewrite ?Hx; cbn [option_map];
  try (eexists; split; [reflexivity|]; unfold imono; cbn;
       repeat match goal with |- context[if ?b then _ else _] => destruct b end; cbn;
       split; intros; try assumption; try reflexivity; try discriminate; try lia; try congruence).

Lemma step_imono s th e s' : step_core s th e = Some s' -> forall j x, get j (insts s) = Some x ->
  exists x', get j (insts s') = Some x' /\ imono x x'.
Proof.
  intros H. step_leaves H e; intros jj xx Hxx; try (imono_leaf s jj Hxx).
  all: exfalso; unfold has in E0; rewrite Hxx in E0; discriminate.
Qed.

Lemma flush_imono th s j x : get j (insts s) = Some x -> exists x', get j (insts (flush th s)) = Some x' /\ imono x x'.
Proof.
  intros Hx. pose proof (flush_insts th s j) as Hf. rewrite Hx in Hf. destruct Hf as (x' & E & L).
  exists x'. split; [exact E|]. unfold inst_latch_le in L. unfold imono.
  destruct L as (_ & _ & _ & Hl & _ & _ & _ & _ & _ & _ & _ & Hr & _). split; [exact Hr|]. now rewrite Hl.
Qed.

(* ---- stop executions that have entered ---------------------------------------------------------------- *)
Definition ent_ok (s : sys) (t : thread) : Prop :=
  match spc t with
  | SReady i false | SEntered i false => exists x, get i (insts s) = Some x /\ launches x <> 0
  | SEntered i true => exists x, get i (insts s) = Some x /\ (pend t = Some (RRunCtx i) \/ l_runctx x = true)
  | _ => True
  end.
Definition EntInv (s : sys) : Prop := forall th, ent_ok s (get_thread s th).

Definition insts_mono (s s' : sys) : Prop :=
  forall j x, get j (insts s) = Some x -> exists x', get j (insts s') = Some x' /\ imono x x'.

Ltac case_spc t := destruct (spc t) as [|? [|]|? [|]|? ?|?|?|?|?|?|?|?].

Lemma ent_ok_mono s s' t : insts_mono s s' -> ent_ok s t -> ent_ok s' t.
Proof.
  intros Hm. unfold ent_ok. case_spc t; auto.
  - intros (x & Hx & Hl). destruct (Hm _ x Hx) as (x' & Hx' & Hi). exists x'. split; [exact Hx'|]. now apply Hi.
  - intros (x & Hx & Hr). destruct (Hm _ x Hx) as (x' & Hx' & Hi). exists x'. split; [exact Hx'|].
    destruct Hr as [Hr|Hr]; [now left|right; now apply Hi].
  - intros (x & Hx & Hl). destruct (Hm _ x Hx) as (x' & Hx' & Hi). exists x'. split; [exact Hx'|]. now apply Hi.
Qed.

(* same stop pc, the old thread had nothing pending *)
Lemma ent_ok_same s s' t t' : insts_mono s s' -> spc t' = spc t -> pend t = None -> ent_ok s t -> ent_ok s' t'.
Proof.
  intros Hm Hs Hp H. apply (ent_ok_mono s s' t Hm) in H. unfold ent_ok in *. rewrite Hs.
  case_spc t; auto. destruct H as (x & Hx & [H|H]); [congruence|]. exists x. auto.
Qed.

Lemma EntInv_init cs ord : EntInv (init cs ord).
Proof. intros th. exact I. Qed.

Lemma EntInv_flush th s : EntInv s -> EntInv (flush th s).
Proof.
  intros HE th'. specialize (HE th').
  assert (Hm : insts_mono s (flush th s)) by (intros j x Hx; now apply flush_imono).
  unfold get_thread in *. pose proof (flush_threads th s th') as Hf.
  destruct (get th' (threads s)) as [t|] eqn:Et.
  2:{ rewrite Hf. exact I. }
  destruct Hf as (t' & -> & Hv & Hp). apply tview_eq in Hv. destruct Hv as (_ & Hs & _).
  unfold ent_ok in *. rewrite Hs.
  case_spc t; auto.
  - destruct HE as (x & Hx & Hl). destruct (Hm _ x Hx) as (x' & Hx' & Hi). exists x'. split; [exact Hx'|]. now apply Hi.
  - destruct HE as (x & Hx & Hr). destruct Hp as [[_ Hp]|[-> Hp]].
    + destruct (Hm _ x Hx) as (x' & Hx' & Hi). exists x'. split; [exact Hx'|]. rewrite Hp.
      destruct Hr as [Hr|Hr]; [now left|right; now apply Hi].
    + destruct Hr as [Hr|Hr].
      * (* the flush of th applies RRunCtx *)
        unfold flush. rewrite Et, Hr. unfold apply_release. autorewrite with sup. cbn.
        rewrite N.eqb_refl, Hx. cbn. eexists. split; [reflexivity|]. right. reflexivity.
      * destruct (Hm _ x Hx) as (x' & Hx' & Hi). exists x'. split; [exact Hx'|]. right. now apply Hi.
  - destruct HE as (x & Hx & Hl). destruct (Hm _ x Hx) as (x' & Hx' & Hi). exists x'. split; [exact Hx'|]. now apply Hi.
Qed.

Ltac ent_norm :=
  unfold get_thread, set_pc, end_finish, end_release_early, write_status; autorewrite with sup; cbn;
  rewrite ?fold_fstopped_threads, ?get_set, ?N.eqb_refl; cbn.

Ltac ent_leaf s th HE Hp Hm :=
  repeat match goal with
  | |- ent_ok (match ?x with _ => _ end) _ => destruct x eqn:?
  | |- ent_ok (if ?x then _ else _) _ => destruct x eqn:?
  | |- context[if ?x then _ else _] => is_var x; destruct x
  end;
  first [ solve [apply (ent_ok_same s _ (get_thread s th)); [exact Hm|ent_norm; reflexivity|exact Hp|exact (HE th)]]
        | solve [unfold ent_ok; ent_norm; exact I] ].

Lemma EntInv_core s th e s' : EntInv s -> pend (get_thread s th) = None -> step_core s th e = Some s' -> EntInv s'.
Proof.
  intros HE Hp H th'. pose proof (step_imono _ _ _ _ H) as Hm. fold (insts_mono s s') in Hm.
  destruct (N.eq_dec th' th) as [->|Hne].
  2:{ rewrite (sf_other _ _ _ _ (step_core_frame _ _ _ _ H) th' Hne). apply (ent_ok_mono s s' _ Hm), HE. }
  step_leaves H e; try (ent_leaf s th HE Hp Hm).
  - (* EStopEnter *)
    pose proof (HE th) as Hth. unfold ent_ok in Hth |- *. ent_norm. destruct cancel; cbn.
    + exists i0. auto.
    + destruct (spc (get_thread s th)) as [|i' c'|? ?|? ?|?|?|?|?|?|?|?]; try discriminate.
      * destruct (dpc (get_thread s th)) as [| | |? [|? ?]| |]; try discriminate. rewrite andb_false_r in E0. discriminate.
      * apply andb_true_iff in E0. destruct E0 as [Ei Ec]. apply N.eqb_eq in Ei. subst i'.
        destruct c'; [discriminate|]. exact Hth.
  - (* EProbe fatal *)
    unfold ent_ok. ent_norm. exists i0. split; [exact E|].
    match goal with Hl : (0 <? launches i0) = true |- _ => apply Nat.ltb_lt in Hl; lia end.
Qed.

Lemma EntInv_step s th e s' : EntInv s -> step s (th, e) = Some s' -> EntInv s'.
Proof.
  intros HE H. unfold step in H. cbn [fst snd] in H.
  eapply EntInv_core; [apply EntInv_flush; exact HE|apply flush_pend_none|exact H].
Qed.
