(* A declarative reading of the C08 monitor, independent of Model.step and of the 19-field observer:
   [lv_of pre] keeps, for a history prefix, only (a) which thread runs which instance (EBegin),
   (b) per instance its process name (ENewInst) and whether a command of it is alive
   (set by a successful launch of its thread, cleared by ECmdExit).
   [one_live evs]: at every successful launch, no OTHER instance of the same name has a command alive.
   [holds_C08_one_live]: the monitor implies this position-quantified statement. *)
From Coq Require Import List ZArith NArith Bool Lia.
From RecordUpdate Require Import RecordSet.
From PC.Base Require Import Assoc.
From PC.Sup Require Import Model Monitors Tactics Sim ObsFacts Effects RelCore LemC08.
Import ListNotations RecordSetNotations.

Record lv := mkLv { lv_th : amap iid; lv_inst : amap (name * bool) }.
Definition lv0 : lv := mkLv [] [].

Definition lv_set_alive (i : iid) (b : bool) (m : lv) : lv :=
  match get i (lv_inst m) with
  | Some (n, _) => mkLv (lv_th m) (set i (n, b) (lv_inst m))
  | None => m
  end.

Definition lv_step (m : lv) (te : tid * event) : lv :=
  match snd te with
  | EBegin i => mkLv (set (fst te) i (lv_th m)) (lv_inst m)
  | ENewInst i n => mkLv (lv_th m) (set i (n, false) (lv_inst m))
  | ELaunch true => match get (fst te) (lv_th m) with Some i => lv_set_alive i true m | None => m end
  | ECmdExit i _ => lv_set_alive i false m
  | _ => m
  end.

Definition lv_of (evs : list (tid * event)) : lv := fold_left lv_step evs lv0.

(* at every successful launch (by thread th, running instance i of process ni) no other instance j of
   process ni has a command alive *)
Definition one_live (evs : list (tid * event)) : Prop :=
  forall pre th post, evs = pre ++ (th, ELaunch true) :: post ->
  forall i ni a, get th (lv_th (lv_of pre)) = Some i -> get i (lv_inst (lv_of pre)) = Some (ni, a) ->
  forall j, j <> i -> get j (lv_inst (lv_of pre)) <> Some (ni, true).

(* ---- a monitor that never fails holds at every position ---------------------------------------------- *)
Lemma mon_run_split cs m : forall evs o k, mon_run cs m o evs k = None ->
  forall pre e post, evs = pre ++ e :: post -> m (fold_left (obs_step cs) pre o) e = true.
Proof.
  induction evs as [|a evs IH]; intros o k H pre e post E.
  - destruct pre; discriminate E.
  - cbn in H. destruct (m o a) eqn:Hm; [|discriminate]. destruct pre as [|b pre]; cbn in E.
    + injection E as -> _. exact Hm.
    + injection E as -> E. cbn. eapply IH; eauto.
Qed.

Lemma holds_split cs m evs : holds cs m evs = true ->
  forall pre e post, evs = pre ++ e :: post -> m cs (final_obs cs pre) e = true.
Proof.
  unfold holds, final_obs. intros H. destruct (mon_run cs (m cs) (obs0 cs) evs 0) eqn:E; [discriminate|].
  intros pre e post Hs. eapply mon_run_split; eauto.
Qed.

(* ---- the view of the observer that lv reproduces ----------------------------------------------------- *)
Definition View (o : obs) (m : lv) : Prop :=
  (forall th, get th (lv_th m) = get th (o_th o)) /\
  (forall j, get j (lv_inst m) = option_map (fun y => (o_nm y, o_alive y)) (get j (oi o))).

Lemma refresh_get_view o j :
  option_map (fun y => (o_nm y, o_alive y)) (get j (oi (refresh_succ o))) =
  option_map (fun y => (o_nm y, o_alive y)) (get j (oi o)).
Proof. rewrite refresh_get. destruct (get j (oi o)) as [y|]; cbn; [|reflexivity]. destruct (_ && _); reflexivity. Qed.

Lemma obs_step_o_th cs o th e :
  o_th (obs_step cs o (th, e)) = match e with EBegin i => set th i (o_th o) | _ => o_th o end.
Proof.
  destruct (exceptional e) eqn:Hex.
  - unfold obs_step. destruct e; try discriminate Hex; cbn [fst snd ev_inst];
      try (destruct (get th (o_th o)) eqn:Ev); try (destruct ok; try discriminate Hex);
      cbn; rewrite ?oi_upd_o_th, ?on_upd_o_th; try reflexivity.
    all: destruct (_ && _); cbn; reflexivity.
  - destruct (obs_step_same cs o th e Hex) as [A _]. rewrite A. destruct e; try reflexivity; discriminate Hex.
Qed.

Lemma View_set_alive o m i b f :
  View o m -> (forall y, o_nm (f y) = o_nm y /\ o_alive (f y) = b) ->
  View (refresh_succ (oi_upd i f o)) (lv_set_alive i b m).
Proof.
  intros [Vt Vi] Hf. split.
  - intros th. cbn. rewrite oi_upd_o_th. unfold lv_set_alive. destruct (get i (lv_inst m)) as [[n a]|]; apply Vt.
  - intros j. rewrite refresh_get_view, oi_upd_get. unfold lv_set_alive. pose proof (Vi i) as Hi.
    destruct (get i (lv_inst m)) as [[n a]|] eqn:Em.
    + cbn. rewrite get_set. destruct (N.eqb_spec i j).
      * subst j. destruct (get i (oi o)) as [y|]; cbn in Hi |- *.
        -- injection Hi as -> _. destruct (Hf y) as [H1 H2]. rewrite H1, H2. reflexivity.
        -- discriminate Hi.
      * apply Vi.
    + destruct (N.eqb_spec i j); [|apply Vi]. subst j. rewrite Em.
      destruct (get i (oi o)); [discriminate Hi|reflexivity].
Qed.

Lemma View_frame o m o' : View o m -> o_th o' = o_th o -> frame8 true o o' -> View o' m.
Proof.
  intros [Vt Vi] Ht [_ F]. split.
  - intros th. rewrite Ht. apply Vt.
  - intros j. rewrite Vi. specialize (F j). destruct (get j (oi o)) as [y|].
    + destruct F as (y' & -> & Hn & _ & _ & Hb). destruct (Hb eq_refl) as [Ha _]. cbn. now rewrite Hn, Ha.
    + now rewrite F.
Qed.

Lemma View_step cs o m te : View o m -> View (obs_step cs o te) (lv_step m te).
Proof.
  intros HV. destruct te as [th e]. pose proof HV as [Vt Vi].
  destruct (is_new e || special8 e) eqn:Hsp.
  2:{ apply orb_false_iff in Hsp. destruct Hsp as [Hn Hs].
      pose proof (obs_step_frame8 cs o th e Hn) as F. rewrite Hs in F. cbn [negb] in F.
      pose proof (obs_step_o_th cs o th e) as Ht.
      destruct e; try discriminate Hn; try discriminate Hs;
        try (unfold lv_step; cbn [fst snd]; eapply View_frame; eauto; fail).
      - (* EBegin *) unfold lv_step. cbn [fst snd]. split.
        + intros t. cbn [lv_th]. rewrite Ht, !get_set. destruct (N.eqb th t); [reflexivity|apply Vt].
        + cbn [lv_inst]. destruct F as [_ F]. intros j. rewrite Vi. specialize (F j). destruct (get j (oi o)) as [y|].
          * destruct F as (y' & -> & Hnm & _ & _ & Hb). destruct (Hb eq_refl) as [Ha _]. cbn. now rewrite Hnm, Ha.
          * now rewrite F.
      - (* ELaunch false *) destruct ok; [discriminate Hs|]. unfold lv_step; cbn [fst snd]; eapply View_frame; eauto. }
  destruct e; try discriminate Hsp.
  - (* ENewInst *)
    unfold lv_step, obs_step. cbn [fst snd]. split.
    + intros t. cbn. apply Vt.
    + intros j. rewrite refresh_get_view. cbn [oi RecordSet.set eta_obs lv_inst]. rewrite !get_set.
      destruct (N.eqb i j); [reflexivity|apply Vi].
  - (* ELaunch true *)
    destruct ok; [|discriminate Hsp]. unfold lv_step, obs_step. cbn [fst snd ev_inst]. rewrite Vt.
    destruct (get th (o_th o)) as [i|].
    + apply View_set_alive; [exact HV|]. intros y. cbn. auto.
    + split; [intros t; apply Vt|]. intros j. rewrite refresh_get_view. apply Vi.
  - (* EInstExit *)
    unfold lv_step, obs_step. cbn [fst snd ev_inst].
    destruct (get th (o_th o)) as [i|].
    + split; [intros t; cbn; rewrite oi_upd_o_th; apply Vt|].
      intros j. rewrite refresh_get_view, oi_upd_get, Vi. destruct (N.eqb i j); [|reflexivity].
      destruct (get j (oi o)); reflexivity.
    + split; [intros t; apply Vt|]. intros j. rewrite refresh_get_view. apply Vi.
  - (* ECmdExit *)
    unfold lv_step, obs_step. cbn [fst snd ev_inst].
    apply View_set_alive; [exact HV|]. intros y. cbn. auto.
Qed.

Lemma View_init cs : View (obs0 cs) lv0.
Proof. split; reflexivity. Qed.

Lemma View_final cs evs : View (final_obs cs evs) (lv_of evs).
Proof.
  unfold final_obs, lv_of. generalize (View_init cs). generalize (obs0 cs) lv0.
  induction evs as [|e evs IH]; intros o m HV; cbn; [exact HV|]. apply IH. now apply View_step.
Qed.

Theorem holds_C08_one_live cs evs : holds_C08 cs evs = true -> one_live evs.
Proof.
  intros H pre th post Hs i ni a Et Ei j Hji Ej.
  pose proof (holds_split cs mon_C08 evs H pre (th, ELaunch true) post Hs) as Hm.
  destruct (View_final cs pre) as [Vt Vi]. set (o := final_obs cs pre) in *.
  unfold mon_C08 in Hm. cbn [fst snd ev_inst] in Hm. rewrite <- Vt, Et in Hm.
  rewrite Vi in Ei, Ej.
  destruct (get i (oi o)) as [yi|] eqn:Eyi; [|discriminate]. destruct (get j (oi o)) as [yj|] eqn:Eyj; [|discriminate].
  cbn in Ei, Ej. injection Ei as Hni _. injection Ej as Hnj Haj.
  unfold oi_get in Hm. rewrite Eyi in Hm. rewrite forallb_forall in Hm.
  specialize (Hm (j, yj) (get_in _ _ _ Eyj)). cbn [fst snd] in Hm.
  rewrite Hnj, Hni, N.eqb_refl, Haj in Hm. cbn in Hm.
  apply N.eqb_eq in Hm. contradiction.
Qed.
