(* C04 effect lemmas for the enabledness theorems (EnC04.v): latches of instances only go up, l_done is set
   only by the two end_finish sites, IInEnd/SPendE are entered together with the pending REndEarly release. *)
From Coq Require Import List ZArith NArith Bool Lia.
From RecordUpdate Require Import RecordSet.
From PC.Base Require Import Assoc.
From PC.Sup Require Import Model Monitors Tactics Sim ObsFacts Effects RelCore LemC04 LemC04i.
Import ListNotations RecordSetNotations.

Definition released (x : inst) : Prop := l_ready x = true /\ l_runctx x = true /\ l_logready x <> None.
Definition inendf (p : ipc) : bool := match p with IInEnd _ _ false => true | _ => false end.

Definition latch_eff (s : sys) (th : tid) (e : event) (s' : sys) : Prop :=
  forall j x, get j (insts s) = Some x -> exists x', get j (insts s') = Some x' /\
    (l_ready x = true -> l_ready x' = true) /\ (l_runctx x = true -> l_runctx x' = true) /\
    (l_logready x <> None -> l_logready x' <> None) /\
    (l_done x' = true -> l_done x = true \/ spc (get_thread s th) = SPendE j \/
                         (get th (thinst s) = Some j /\ inendf (pc x) = true)) /\
    (inendf (pc x') = true -> inendf (pc x) = true \/
                              (get th (thinst s) = Some j /\ pend (get_thread s' th) = Some (REndEarly j))).

Ltac latch_leaf :=
  cbn; intros;
  repeat match goal with
  | |- context[match ?b with _ => _ end] => destruct b eqn:?
  end; auto; try congruence; try discriminate.

Ltac done_leaf :=
  cbn; repeat match goal with |- context[if ?b then _ else _] => destruct b eqn:? end; cbn; intros Hd; try (left; exact Hd);
  right; first [left; first [assumption|reflexivity]
               |right; split; [first [reflexivity|assumption]|];
                repeat match goal with E : pc _ = _ |- _ => rewrite E end; reflexivity].
Ltac inend_leaf :=
  rewrite ?N.eqb_refl; cbn;
  repeat match goal with
  | |- context[match ?b with _ => _ end] => destruct b eqn:?
  end;
  cbn; intros Hd;
  first [discriminate Hd | left; exact Hd
        | left; repeat match goal with E : pc _ = _ |- _ => rewrite E end; reflexivity
        | right; split; [first [reflexivity|assumption]|];
          unfold get_thread; sup_goal; cbn -[get Assoc.set N.eqb]; rewrite ?N.eqb_refl; reflexivity].

Ltac latch_tac :=
  intros jj xx Hjj;
  repeat (sup_goal; match goal with |- context[insts ?X] =>
    match X with
    | match ?b with _ => _ end => destruct b eqn:?
    | if ?b then _ else _ => destruct b eqn:?
    end end);
  sup_goal; cbn -[get Assoc.set N.eqb get_thread]; sup_goal; cbn -[get Assoc.set N.eqb get_thread];
  repeat match goal with
  | |- context[N.eqb ?a jj] => destruct (N.eqb_spec a jj); [subst|]
  end;
  repeat match goal with
  | H1 : get ?i ?m = Some ?a, H2 : get ?i ?m = Some ?b |- _ => assert (a = b) by congruence; subst; clear H2
  end;
  repeat match goal with H : get jj (insts _) = _ |- _ => rewrite H end; cbn [option_map];
  (eexists; split; [reflexivity|]);
  split_andb; subst;
  repeat match goal with H : opt_eqb N.eqb _ (Some _) = true |- _ => apply opt_eqb_N_eq in H end;
  (split; [latch_leaf|split; [latch_leaf|split; [latch_leaf|split; [try solve [done_leaf]|try solve [inend_leaf]]]]]).

Lemma own_latch s th e s' : step_own s th e = Some s' -> latch_eff s th e s'.
Proof. intros H. unfold latch_eff. destruct e; kind_cases H; latch_tac. Qed.
Lemma reg_latch s th e s' : step_reg s th e = Some s' -> (forall i n, e <> ENewInst i n) -> latch_eff s th e s'.
Proof. intros H Hn. unfold latch_eff. destruct e; try (exfalso; eapply Hn; reflexivity); kind_cases H; latch_tac. Qed.
Lemma api_latch s th e s' : step_api s th e = Some s' -> latch_eff s th e s'.
Proof. intros H. unfold latch_eff. destruct e; kind_cases H; latch_tac. Qed.
Lemma stop_latch s th e s' : step_stop s th e = Some s' -> latch_eff s th e s'.
Proof. intros H. unfold latch_eff. destruct e; kind_cases H; latch_tac. Qed.
Lemma ordered_latch s th i s' : step_ordered_go s th i = Some s' -> latch_eff s th (EOrderedGo i) s'.
Proof. intros H. unfold latch_eff. kind_cases H; latch_tac. Qed.
Lemma env_latch s th e s' : step_env s th e = Some s' -> latch_eff s th e s'.
Proof. intros H. unfold latch_eff. destruct e; kind_cases H; latch_tac. Qed.
Lemma procend_latch s th i s0 b s' : step_procend s th i s0 b = Some s' -> latch_eff s th (if b then EProcEnd i s0 else EProcEnded i s0) s'.
Proof. intros H. unfold latch_eff. destruct b; kind_cases H; latch_tac. Qed.
Lemma state_latch s th i s0 s' : step_state s th i s0 = Some s' -> latch_eff s th (EState i s0) s'.
Proof. intros H. unfold latch_eff. kind_cases H; latch_tac.
Qed.

Lemma fold_stopped_get l : forall s j x, get j (insts s) = Some x ->
  exists x', get j (insts (fold_left (fun s i => upd_inst i (fun x => x <| f_stopped := true |>) s) l s)) = Some x' /\
             (x' = x \/ x' = x <| f_stopped := true |>).
Proof.
  induction l as [|a l IH]; intros s j x Hj; cbn; [eauto|].
  assert (exists y, get j (insts (upd_inst a (fun x => x <| f_stopped := true |>) s)) = Some y /\ (y = x \/ y = x <| f_stopped := true |>)) as (y & Hy & Hd).
  { rewrite insts_upd_inst. destruct (N.eqb a j); rewrite Hj; cbn; eauto. }
  destruct (IH _ _ _ Hy) as (x' & Hx' & Hd'). exists x'. split; [exact Hx'|].
  destruct Hd as [->| ->]; destruct Hd' as [->| ->]; auto.
Qed.

Lemma shutdown_latch s th e s' : step_shutdown s th e = Some s' -> latch_eff s th e s'.
Proof.
  intros H. unfold latch_eff. destruct e; kind_cases H; try latch_tac.
  intros j x Hj. cbn -[get].
  destruct (fold_stopped_get order s j x Hj) as (x' & Hx' & Hd). exists x'. split; [exact Hx'|].
  destruct Hd as [->| ->]; cbn; repeat split; auto.
Qed.

Lemma newinst_latch s th i n s' : step_core s th (ENewInst i n) = Some s' -> latch_eff s th (ENewInst i n) s'.
Proof.
  intros H j x Hj. destruct (newinst_eff _ _ _ _ _ H) as (Hnone & c & Hget).
  exists x. rewrite Hget. destruct (N.eqb_spec i j); [subst; congruence|]. repeat split; auto.
Qed.

Lemma core_latch s th e s' : step_core s th e = Some s' -> latch_eff s th e s'.
Proof.
  intros H. destruct (step_core_kind _ _ _ _ H) as [? ?|i x ? ? ? ? ? ? ?|Hk|Hk|Hk|i s0 ? Hk|i s0 b ? Hk|Hk|i ? Hk|Hk|Hk]; subst.
  - intros j x Hj. exists x. repeat split; auto.
  - intros j y Hj. exists y. repeat split; auto.
  - destruct e; try (apply reg_latch; [exact Hk|intros; discriminate]). now apply newinst_latch.
  - now apply api_latch.
  - now apply stop_latch.
  - now apply state_latch.
  - now apply procend_latch.
  - now apply shutdown_latch.
  - now apply ordered_latch.
  - now apply env_latch.
  - now apply own_latch.
Qed.

(* the stop execution that ends a Pending instance: SPendE is entered only at EProcEnd, together with REndEarly *)
Definition spe_eff (s : sys) (th : tid) (e : event) (s' : sys) : Prop :=
  forall j, spc (get_thread s' th) = SPendE j ->
            spc (get_thread s th) = SPendE j \/
            (pend (get_thread s' th) = Some (REndEarly j) /\ exists s0, e = EProcEnd j s0).

Ltac spe_tac :=
  unfold spe_eff; intros jj; destr_state; sup_goal; unfold get_thread; sup_goal; cbn -[get Assoc.set N.eqb]; sup_goal; cbn -[get Assoc.set N.eqb];
  rewrite ?N.eqb_refl; cbn -[get Assoc.set N.eqb]; intros Hs; try discriminate Hs;
  first [left; exact Hs | left; unfold get_thread in *; congruence | right; split_andb; subst; try (injection Hs as <-); split; [reflexivity|eexists; reflexivity]].

Lemma own_spe s th e s' : step_own s th e = Some s' -> spe_eff s th e s'.
Proof. intros H. destruct e; kind_cases H; spe_tac.
Qed.
Lemma reg_spe s th e s' : step_reg s th e = Some s' -> spe_eff s th e s'.
Proof. intros H. destruct e; kind_cases H; spe_tac. Qed.
Lemma api_spe s th e s' : step_api s th e = Some s' -> spe_eff s th e s'.
Proof. intros H. destruct e; kind_cases H; spe_tac. Qed.
Lemma stop_spe s th e s' : step_stop s th e = Some s' -> spe_eff s th e s'.
Proof. intros H. destruct e; kind_cases H; spe_tac. Qed.
Lemma state_spe s th i s0 s' : step_state s th i s0 = Some s' -> spe_eff s th (EState i s0) s'.
Proof. intros H. kind_cases H; spe_tac. Qed.
Lemma procend_spe s th i s0 b s' : step_procend s th i s0 b = Some s' -> spe_eff s th (if b then EProcEnd i s0 else EProcEnded i s0) s'.
Proof. intros H. destruct b; kind_cases H; spe_tac. Qed.
Lemma ordered_spe s th i s' : step_ordered_go s th i = Some s' -> spe_eff s th (EOrderedGo i) s'.
Proof. intros H. kind_cases H; spe_tac. Qed.
Lemma env_spe s th e s' : step_env s th e = Some s' -> spe_eff s th e s'.
Proof. intros H. destruct e; kind_cases H; spe_tac. Qed.
Lemma shutdown_spe s th e s' : step_shutdown s th e = Some s' -> spe_eff s th e s'.
Proof. intros H. destruct e; kind_cases H; try spe_tac.
Qed.

Lemma core_spe s th e s' : step_core s th e = Some s' -> spe_eff s th e s'.
Proof.
  intros H. destruct (step_core_kind _ _ _ _ H) as [? ?|i x ? ? ? ? ? ? ?|Hk|Hk|Hk|i s0 ? Hk|i s0 b ? Hk|Hk|i ? Hk|Hk|Hk]; subst.
  - intros j Hj. now left.
  - intros j Hj. now left.
  - now apply reg_spe.
  - now apply api_spe.
  - now apply stop_spe.
  - now apply state_spe.
  - now apply procend_spe.
  - now apply shutdown_spe.
  - now apply ordered_spe.
  - now apply env_spe.
  - now apply own_spe.
Qed.

Ltac fl_same := split; [first [assumption|reflexivity]|split; [reflexivity|split; [reflexivity|split; [tauto|intros E; first [discriminate E|congruence]]]]].

Lemma flush_latch th s j x : get j (insts s) = Some x ->
  exists x', get j (insts (flush th s)) = Some x' /\ pc x' = pc x /\ l_done x' = l_done x /\
             (released x -> released x') /\ (pend (get_thread s th) = Some (REndEarly j) -> released x').
Proof.
  intros Hj. unfold flush, get_thread. destruct (get th (threads s)) as [t|] eqn:Et.
  2:{ exists x. cbn. fl_same. }
  destruct (pend t) as [r|] eqn:Ep.
  2:{ exists x. fl_same. }
  unfold released.
  destruct r as [i|i|i| | |c]; unfold apply_release, end_release_early; sup_simpl; cbn -[get N.eqb].
  - destruct (N.eqb_spec i j); rewrite Hj; cbn [option_map]; (eexists; split; [reflexivity|]); cbn;
      (split; [reflexivity|split; [reflexivity|split; [tauto|intros E; discriminate E]]]).
  - destruct (N.eqb_spec i j); rewrite Hj; cbn [option_map]; (eexists; split; [reflexivity|]); cbn;
      (split; [reflexivity|split; [reflexivity|split]]).
    + intros (A & B & C). repeat split; auto. destruct (l_logready x); congruence.
    + intros _. repeat split; auto. destruct (l_logready x); discriminate.
    + tauto.
    + intros E. injection E as E. contradiction.
  - destruct (N.eqb_spec i j); rewrite Hj; cbn [option_map]; (eexists; split; [reflexivity|]); cbn;
      (split; [reflexivity|split; [reflexivity|split; [tauto|intros E; discriminate E]]]).
  - exists x. fl_same.
  - exists x. fl_same.
  - destruct (code_set s); exists x; fl_same.
Qed.

