(* Generic lemmas used by the C02 simulation proof (RelC02b.v): lookups in the observer after the
   helper updates, folds over a shutdown order, the window flag W2 and its stickiness. *)
From Coq Require Import List ZArith NArith Bool Lia.
From RecordUpdate Require Import RecordSet.
From PC.Base Require Import Assoc.
From PC.Sup Require Import Model Monitors Tactics Sim ObsFacts Effects RelCore.
Import ListNotations RecordSetNotations.

(* ---- the windows that the C02 theorem needs ---------------------------------------------------------- *)
Definition W2 (o : obs) : bool := w_commit o || w_sdlag o.

Lemma W2_mono cs o e : W2 o = true -> W2 (obs_step cs o e) = true.
Proof.
  pose proof (obs_step_flags_mono cs o e) as H. unfold flag_le, windows_of in H.
  inversion H as [|? ? ? ? _ H1]; subst. inversion H1 as [|? ? ? ? Hsd H2]; subst.
  inversion H2 as [|? ? ? ? Hc _]; subst.
  unfold W2. intros E. apply orb_true_iff in E. apply orb_true_iff. destruct E; [left|right]; auto.
Qed.

Lemma W2_mono_false cs o e : W2 (obs_step cs o e) = false -> W2 o = false.
Proof. intros H. destruct (W2 o) eqn:E; [|reflexivity]. now rewrite (W2_mono cs o e E) in H. Qed.

Lemma W_oi_upd i f o : W2 (oi_upd i f o) = W2 o.
Proof. unfold oi_upd. destruct (get i (oi o)); reflexivity. Qed.
Lemma W_on_upd n f o : W2 (on_upd n f o) = W2 o.
Proof. unfold on_upd. destruct (get n (onm o)); reflexivity. Qed.
Lemma W_refresh o : W2 (refresh_succ o) = W2 o.
Proof. reflexivity. Qed.

(* ---- oi_get ------------------------------------------------------------------------------------------ *)
Lemma oi_get_some o i xo : get i (oi o) = Some xo -> oi_get o i = xo.
Proof. unfold oi_get. now intros ->. Qed.

Lemma on_get_some o n r : get n (onm o) = Some r -> on_get o n = r.
Proof. unfold on_get. now intros ->. Qed.

Lemma vis_of_some s n v : get n (viss s) = Some v -> vis_of s n = v.
Proof. unfold vis_of. now intros ->. Qed.

Lemma memN_cons j a l : memN j (a :: l) = N.eqb j a || memN j l.
Proof. reflexivity. Qed.

(* ---- folds over a shutdown order --------------------------------------------------------------------- *)
Lemma fold_oi_upd_get (f : oinst -> oinst) (Hf : forall x, f (f x) = f x) l : forall o j,
  get j (oi (fold_left (fun o i => oi_upd i f o) l o)) =
  if memN j l then option_map f (get j (oi o)) else get j (oi o).
Proof.
  induction l as [|a l IH]; intros o j; [reflexivity|]. cbn [fold_left].
  rewrite IH, oi_upd_get. rewrite memN_cons. rewrite (N.eqb_sym j a).
  destruct (N.eqb a j); cbn; destruct (memN j l); try reflexivity.
  destruct (get j (oi o)); cbn; [now rewrite Hf|reflexivity].
Qed.

Lemma fold_upd_inst_get (f : inst -> inst) (Hf : forall x, f (f x) = f x) l : forall s j,
  get j (insts (fold_left (fun s i => upd_inst i f s) l s)) =
  if memN j l then option_map f (get j (insts s)) else get j (insts s).
Proof.
  induction l as [|a l IH]; intros s j; [reflexivity|]. cbn [fold_left].
  rewrite IH, insts_upd_inst. rewrite memN_cons. rewrite (N.eqb_sym j a).
  destruct (N.eqb a j); cbn; destruct (memN j l); try reflexivity.
  destruct (get j (insts s)); cbn; [now rewrite Hf|reflexivity].
Qed.

Lemma fold_upd_inst_proj {A} (P : sys -> A) (f : inst -> inst) l :
  (forall i s, P (upd_inst i f s) = P s) -> forall s, P (fold_left (fun s i => upd_inst i f s) l s) = P s.
Proof. intros HP. induction l as [|a l IH]; intros s; cbn; [reflexivity|]. now rewrite IH, HP. Qed.

Lemma fold_oi_upd_W (f : oinst -> oinst) l o : W2 (fold_left (fun o i => oi_upd i f o) l o) = W2 o.
Proof. revert o. induction l as [|a l IH]; intros o; cbn; [reflexivity|]. now rewrite IH, W_oi_upd. Qed.

Lemma existsb_mem (f : N -> bool) l j : memN j l = true -> f j = true -> existsb f l = true.
Proof. intros H1 H2. apply existsb_exists. exists j. split; [now apply memN_In|exact H2]. Qed.

(* ---- program-counter classes ------------------------------------------------------------------------- *)
Definition commit_pc (p : ipc) : bool :=
  match p with IPreStart | IPreLaunch | IStateSet => true | _ => false end.
Definition relaunch_pc (p : ipc) : bool :=
  match p with IBackoff _ | IPreLaunch | IStateSet => true | _ => false end.
Definition inend_pc (p : ipc) : bool :=
  match p with IInEnd _ _ _ | IRunRet _ | IDoneReg _ | IProjEnd _ _ | ITriggered _ | ICodeSet | ILeaving | IWgDone | IGone => true
  | _ => false end.
Definition prestart_pc (p : ipc) : bool :=
  match p with IDeps _ | IBlocked _ _ _ _ | ISkipDecided | IPreStart => true | _ => false end.

(* ---- monotone facts of the observer ------------------------------------------------------------------ *)
Definition oinst_le (x x' : oinst) : Prop :=
  o_nm x' = o_nm x /\ (o_ended x = true -> o_ended x' = true) /\ (o_gone x = true -> o_gone x' = true) /\
  (o_stopreq x = true -> o_stopreq x' = true) /\ (o_endst x <> None -> o_endst x' <> None) /\
  o_launches x <= o_launches x'.
Definition obs_le (o o' : obs) : Prop :=
  forall j x, get j (oi o) = Some x -> exists x', get j (oi o') = Some x' /\ oinst_le x x'.

Lemma oinst_le_refl x : oinst_le x x.
Proof. unfold oinst_le; repeat split; auto. Qed.
Lemma oinst_le_trans x y z : oinst_le x y -> oinst_le y z -> oinst_le x z.
Proof. unfold oinst_le. intros (A1 & A2 & A3 & A4 & A5 & A6) (B1 & B2 & B3 & B4 & B5 & B6). repeat split; auto; try congruence; lia. Qed.
Lemma obs_le_refl o : obs_le o o.
Proof. intros j x H. exists x. split; [exact H|apply oinst_le_refl]. Qed.
Lemma obs_le_trans o1 o2 o3 : obs_le o1 o2 -> obs_le o2 o3 -> obs_le o1 o3.
Proof.
  intros H1 H2 j x Hx. destruct (H1 j x Hx) as (y & Hy & L1). destruct (H2 j y Hy) as (z & Hz & L2).
  exists z. split; [exact Hz|eapply oinst_le_trans; eauto].
Qed.
Lemma obs_le_eq o o' : oi o' = oi o -> obs_le o o'.
Proof. intros E j x H. exists x. rewrite E. split; [exact H|apply oinst_le_refl]. Qed.
Lemma obs_le_oi_upd i f o : (forall x, oinst_le x (f x)) -> obs_le o (oi_upd i f o).
Proof.
  intros Hf j x Hx. rewrite oi_upd_get, Hx. destruct (N.eqb i j); cbn; eexists; split; try reflexivity; auto using oinst_le_refl.
Qed.
Lemma obs_le_on_upd n f o : obs_le o (on_upd n f o).
Proof. apply obs_le_eq, on_upd_oi. Qed.
Lemma obs_le_fold_oi_upd (f : oinst -> oinst) l : (forall x, oinst_le x (f x)) ->
  forall o, obs_le o (fold_left (fun o i => oi_upd i f o) l o).
Proof.
  intros Hf. induction l as [|a l IH]; intros o; cbn; [apply obs_le_refl|].
  eapply obs_le_trans; [apply (obs_le_oi_upd a f o Hf)|apply IH].
Qed.
Lemma obs_le_refresh o : obs_le o (refresh_succ o).
Proof.
  intros j x Hx. rewrite refresh_get, Hx. cbn. eexists; split; [reflexivity|].
  destruct (_ && _); cbn; unfold oinst_le; cbn; repeat split; auto.
Qed.
Lemma obs_le_set_new i y o : get i (oi o) = None -> obs_le o (o <| oi := set i y (oi o) |>).
Proof.
  intros Hn j x Hx. cbn. rewrite get_set. destruct (N.eqb_spec i j); [subst; congruence|].
  exists x. split; [exact Hx|apply oinst_le_refl].
Qed.

Ltac oinst_le_tac :=
  intros; unfold oinst_le; cbn;
  repeat match goal with |- context[if ?b then _ else _] => destruct b; cbn end;
  repeat split; auto; try congruence; try discriminate;
  try (intros ->; reflexivity); try (intros; apply orb_true_r); try lia.

Ltac obs_le_close :=
  repeat first
  [ apply obs_le_refl
  | match goal with
    | |- obs_le ?o (oi_upd ?i ?f ?X) =>
        apply (obs_le_trans o X); [|apply obs_le_oi_upd; oinst_le_tac]
    | |- obs_le ?o (on_upd ?n ?f ?X) =>
        apply (obs_le_trans o X); [|apply obs_le_on_upd]
    | |- obs_le ?o (fold_left (fun o i => oi_upd i ?f o) ?l ?X) =>
        apply (obs_le_trans o X); [|apply obs_le_fold_oi_upd; oinst_le_tac]
    | |- obs_le ?o (RecordSet.set _ _ ?X) =>
        apply (obs_le_trans o X); [|apply obs_le_eq; reflexivity]
    end ].

Lemma obs_step_le cs o th e : (forall i n, e = ENewInst i n -> get i (oi o) = None) -> obs_le o (obs_step cs o (th, e)).
Proof.
  intros Hnew. unfold obs_step. eapply obs_le_trans; [|apply obs_le_refresh].
  destruct e; cbn [fst snd];
  try (destruct (ev_inst o th _) eqn:Ev);
  try match goal with |- context[match ?b with true => _ | false => _ end] => destruct b end;
  unfold note_late_commit;
  repeat match goal with |- context[if ?b then _ else _] => destruct b end;
  try apply obs_le_refl; try (obs_le_close; fail).
  all: intros j x Hx; cbn; rewrite get_set; destruct (N.eqb_spec i j);
    [subst; rewrite (Hnew _ _ eq_refl) in Hx; discriminate|exists x; split; [exact Hx|apply oinst_le_refl]].
Qed.

(* (RelCore defines this tactic inside a section, so it is repeated here) *)
Ltac kind_cases H :=
  unfold_steps H; unfold own_inst in H; cbn [fst snd] in H; break_step H;
  repeat match goal with E : (match _ with _ => _ end) = Some _ |- _ => break_step E end;
  repeat match goal with E : _ = ?s' |- _ => is_var s'; subst s' end.

Lemma get_thread_upd_inst i f s th : get_thread (upd_inst i f s) th = get_thread s th.
Proof. unfold get_thread. now rewrite upd_inst_threads. Qed.
Lemma get_thread_upd_vis n f s th : get_thread (upd_vis n f s) th = get_thread s th.
Proof. unfold get_thread. now rewrite upd_vis_threads. Qed.
Lemma get_thread_write_status n s0 s th : get_thread (write_status n s0 s) th = get_thread s th.
Proof. unfold get_thread. now rewrite write_status_threads. Qed.
Lemma get_thread_fold_upd_inst (f : inst -> inst) l s th :
  get_thread (fold_left (fun s i => upd_inst i f s) l s) th = get_thread s th.
Proof. apply (fold_upd_inst_proj (fun s => get_thread s th)). intros. apply get_thread_upd_inst. Qed.
Lemma vis_of_write_status_insts n s0 s : insts (write_status n s0 s) = insts s.
Proof. apply write_status_insts. Qed.
#[export] Hint Rewrite get_thread_upd_inst get_thread_upd_vis get_thread_write_status get_thread_fold_upd_inst : sup.

Lemma running_fold_upd_inst (f : inst -> inst) l s : running (fold_left (fun s i => upd_inst i f s) l s) = running s.
Proof. apply (fold_upd_inst_proj running). intros. apply upd_inst_running. Qed.
Lemma viss_fold_upd_inst (f : inst -> inst) l s : viss (fold_left (fun s i => upd_inst i f s) l s) = viss s.
Proof. apply (fold_upd_inst_proj viss). intros. apply upd_inst_viss. Qed.
Lemma thinst_fold_upd_inst (f : inst -> inst) l s : thinst (fold_left (fun s i => upd_inst i f s) l s) = thinst s.
Proof. apply (fold_upd_inst_proj thinst). intros. apply upd_inst_thinst. Qed.
Lemma threads_fold_upd_inst (f : inst -> inst) l s : threads (fold_left (fun s i => upd_inst i f s) l s) = threads s.
Proof. apply (fold_upd_inst_proj threads). intros. apply upd_inst_threads. Qed.
Lemma vis_of_fold_upd_inst (f : inst -> inst) l s n : vis_of (fold_left (fun s i => upd_inst i f s) l s) n = vis_of s n.
Proof. unfold vis_of. now rewrite viss_fold_upd_inst. Qed.
#[export] Hint Rewrite running_fold_upd_inst viss_fold_upd_inst thinst_fold_upd_inst threads_fold_upd_inst vis_of_fold_upd_inst : sup.

(* get_thread through plain field updates *)
Lemma get_thread_set_sd v s th : get_thread (s <| sd_active := v |>) th = get_thread s th. Proof. reflexivity. Qed.
Lemma get_thread_set_lock v s th : get_thread (s <| reg_lock := v |>) th = get_thread s th. Proof. reflexivity. Qed.
Lemma get_thread_set_wg v s th : get_thread (s <| wg := v |>) th = get_thread s th. Proof. reflexivity. Qed.
Lemma get_thread_set_runc v s th : get_thread (s <| run_called := v |>) th = get_thread s th. Proof. reflexivity. Qed.
Lemma get_thread_set_thinst v s th : get_thread (s <| thinst := v |>) th = get_thread s th. Proof. reflexivity. Qed.
Lemma get_thread_set_running v s th : get_thread (s <| running := v |>) th = get_thread s th. Proof. reflexivity. Qed.
Lemma get_thread_set_donereg v s th : get_thread (s <| donereg := v |>) th = get_thread s th. Proof. reflexivity. Qed.
Lemma get_thread_set_insts v s th : get_thread (s <| insts := v |>) th = get_thread s th. Proof. reflexivity. Qed.
Lemma get_thread_set_pcode v s th : get_thread (s <| proj_code := v |>) th = get_thread s th. Proof. reflexivity. Qed.
Lemma get_thread_set_cset v s th : get_thread (s <| code_set := v |>) th = get_thread s th. Proof. reflexivity. Qed.
#[export] Hint Rewrite get_thread_set_sd get_thread_set_lock get_thread_set_wg get_thread_set_runc get_thread_set_thinst
  get_thread_set_running get_thread_set_donereg get_thread_set_insts get_thread_set_pcode get_thread_set_cset : sup.

(* ---- the window set (commit, sdlag, dup) needed for the "no relaunch decision after a stop request" clause -------- *)
Definition W3 (o : obs) : bool := w_commit o || w_sdlag o || w_dup o.

Lemma W3_mono cs o e : W3 o = true -> W3 (obs_step cs o e) = true.
Proof.
  pose proof (obs_step_flags_mono cs o e) as H. unfold flag_le, windows_of in H.
  inversion H as [|? ? ? ? Hz H1]; subst. inversion H1 as [|? ? ? ? Hsd H2]; subst.
  inversion H2 as [|? ? ? ? Hc H3]; subst. inversion H3 as [|? ? ? ? _ H4]; subst.
  inversion H4 as [|? ? ? ? _ H5]; subst. inversion H5 as [|? ? ? ? Hd _]; subst.
  unfold W3. intros E. destruct (w_commit o); [rewrite Hc by reflexivity; reflexivity|].
  destruct (w_sdlag o); [rewrite Hsd by reflexivity; apply orb_true_iff; left; apply orb_true_r|].
  cbn in E. rewrite Hd by exact E. apply orb_true_r.
Qed.

(* hardened model: the creation stage is a plain field; everything else is read through it *)
Lemma get_thread_set_stage v s th : get_thread (s <| stage := v |>) th = get_thread s th. Proof. reflexivity. Qed.
Lemma vis_of_set_stage v s n : vis_of (s <| stage := v |>) n = vis_of s n. Proof. reflexivity. Qed.
Lemma insts_set_stage v s : insts (s <| stage := v |>) = insts s. Proof. reflexivity. Qed.
Lemma viss_set_stage v s : viss (s <| stage := v |>) = viss s. Proof. reflexivity. Qed.
Lemma running_set_stage v s : running (s <| stage := v |>) = running s. Proof. reflexivity. Qed.
Lemma sd_active_set_stage v s : sd_active (s <| stage := v |>) = sd_active s. Proof. reflexivity. Qed.
Lemma thinst_set_stage v s : thinst (s <| stage := v |>) = thinst s. Proof. reflexivity. Qed.
Lemma threads_set_stage v s : threads (s <| stage := v |>) = threads s. Proof. reflexivity. Qed.
#[export] Hint Rewrite get_thread_set_stage vis_of_set_stage insts_set_stage viss_set_stage running_set_stage
  sd_active_set_stage thinst_set_stage threads_set_stage : sup.
