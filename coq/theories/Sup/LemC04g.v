(* C04: guards implied by acceptance of an event, and what flush does. *)
From Coq Require Import List ZArith NArith Bool Lia.
From RecordUpdate Require Import RecordSet.
From PC.Base Require Import Assoc.
From PC.Sup Require Import Model Monitors Tactics Sim ObsFacts Effects RelCore LemC04.
Import ListNotations RecordSetNotations.

(* ---- guards implied by acceptance ---- *)
Ltac own_break H :=
  cbn in H; unfold step_own, own_inst in H; break_step H;
  repeat match goal with E : (match _ with _ => _ end) = Some _ |- _ => break_step E end;
  repeat match goal with E : (_, _) = (_, _) |- _ => injection E as ? ?; subst end.

Lemma core_pre s th e s' c : step_core s th e = Some s' -> cl_pre e = Some c ->
  exists i x, get th (thinst s) = Some i /\ get i (insts s) = Some x /\ cl (pc x) = c.
Proof.
  intros H Hc. destruct e; cbn in Hc; try discriminate Hc; injection Hc as <-; own_break H; subst;
  (do 2 eexists; split; [first [eassumption|reflexivity]|split; [eassumption|]]);
  match goal with E : pc _ = _ |- _ => rewrite E end; reflexivity.
Qed.

Lemma g_waitret s th c s' : step_core s th (EWaitReturn c) = Some s' ->
  exists i x, get th (thinst s) = Some i /\ get i (insts s) = Some x /\ exited x = Some c.
Proof.
  intros H. own_break H. subst.
  do 2 eexists; split; [first [eassumption|reflexivity]|split; [eassumption|]].
  destruct (exited _) as [c'|]; cbn in *; [|discriminate].
  match goal with E : Z.eqb _ _ = true |- _ => apply Z.eqb_eq in E; now subst end.
Qed.

Lemma g_cmdexit s th i c s' : step_core s th (ECmdExit i c) = Some s' ->
  exists x, get i (insts s) = Some x /\ alive x = true.
Proof. intros H. cbn in H. break_step H. eauto. Qed.

Lemma g_runret s th c s' : step_core s th (ERunReturn c) = Some s' -> wg s = 0 /\ c = proj_code s.
Proof.
  intros H. cbn in H. break_step H. split_andb. apply Nat.eqb_eq in H0. auto.
Qed.

Lemma g_sdcall s th s' : step_core s th EShutdownCall = Some s' ->
  apc (get_thread s th) = AShutdown \/
  exists i x c, get th (thinst s) = Some i /\ get i (insts s) = Some x /\ pc x = ITriggered c.
Proof.
  intros H. cbn in H. unfold own_inst in H. break_step H.
  destruct (apc (get_thread s th)); auto; right;
    destruct (get th (thinst s)) as [ii|] eqn:Eii; try discriminate;
    destruct (get ii (insts s)) as [xx|] eqn:Exx; try discriminate;
    destruct (pc xx) eqn:Ep; try discriminate; eauto 6.
Qed.

Lemma g_sdorder s th l s' : step_core s th (EShutdownOrder l) = Some s' -> dpc (get_thread s th) = DBegun.
Proof. intros H. unfold step_core, step_shutdown in H. break_step H.
reflexivity. Qed.

Lemma g_begin s th i s' : step_core s th (EBegin i) = Some s' ->
  exists x, get i (insts s) = Some x /\ get th (thinst s) = None /\ get th (threads s) = None /\
            (forall t j, get t (thinst s) = Some j -> j <> i).
Proof.
  intros H. unfold step_core in H. break_step H. split_andb. unfold has in *.
  destruct (get th (thinst s)) eqn:E3; [discriminate|]. destruct (get th (threads s)) eqn:E4; [discriminate|].
  eexists; repeat split; eauto using forallb_thinst_neq.
Qed.

(* ---- flush ---- *)
Lemma flush_spec th s :
  thinst (flush th s) = thinst s /\
  (forall j, match get j (insts s) with
             | Some x => exists x', get j (insts (flush th s)) = Some x' /\ pc x' = pc x /\ alive x' = alive x /\ exited x' = exited x
             | None => get j (insts (flush th s)) = None end) /\
  (forall th', get_thread (flush th s) th' = if N.eqb th th' then get_thread s th <| pend := None |> else get_thread s th') /\
  wg (flush th s) = (match pk (pend (get_thread s th)) with PW => pred (wg s) | _ => wg s end) /\
  code_set (flush th s) = (match pk (pend (get_thread s th)) with PC _ => true | _ => code_set s end) /\
  proj_code (flush th s) = (match pk (pend (get_thread s th)) with PC c => if code_set s then proj_code s else c | _ => proj_code s end).
Proof.
  split; [apply flush_thinst|]. split.
  { intros j. pose proof (flush_insts th s j) as H. destruct (get j (insts s)) as [x|]; [|exact H].
    destruct H as (x' & E & L). exists x'. unfold inst_latch_le in L. intuition congruence. }
  unfold flush, get_thread. destruct (get th (threads s)) as [t|] eqn:Et.
  2:{ cbn. repeat split. intros th'. destruct (N.eqb_spec th th'); [subst; now rewrite Et|reflexivity]. }
  destruct (pend t) as [r|] eqn:Ep.
  2:{ cbn. repeat split. intros th'. destruct (N.eqb_spec th th'); [subst; rewrite Et; destruct t; cbn in *; now subst|reflexivity]. }
  split.
  { intros th'. destruct r; unfold apply_release; try destruct (code_set _); sup_simpl; cbn -[get N.eqb];
      rewrite ?get_set; destruct (N.eqb th th'); reflexivity. }
  destruct r; unfold apply_release; sup_simpl; cbn; try (repeat split; reflexivity).
  destruct (code_set s) eqn:Ec; cbn; repeat split; auto.
Qed.

