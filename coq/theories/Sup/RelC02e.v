(* C02 simulation, part 5: the relation R2, its preservation by every accepted step, the monitor clauses,
   and the theorems.  Props/C02.v restates them. *)
From Coq Require Import List ZArith NArith Bool Lia.
From RecordUpdate Require Import RecordSet.
From PC.Base Require Import Assoc.
From PC.Sup Require Import Model Monitors Tactics Sim ObsFacts Effects RelCore LemC02 RelC02defs RelC02f.
Import ListNotations RecordSetNotations.

(* the window hypothesis of the full theorem: F20/F21 (commit), F37 (sdlag), F25 (dup) *)
Definition W_C02 (o : obs) : bool := W3 o.
(* ... and of the theorem about launches, back-off and giving up only: F20/F21, F37 *)
Definition W_C02_core (o : obs) : bool := W2 o.

(* the monitor without the clause "no relaunch decision after a stop request" *)
Definition mon_C02_core (cs : amap pconf) (o : obs) (te : tid * event) : bool :=
  match snd te with ERestartDecision _ => true | _ => mon_C02 cs o te end.

Section R2.
Context (cs : amap pconf).

Record R2 (s : sys) (o : obs) : Prop := mkR2 {
  r2_rc : Rc cs s o;
  r2_rt : Rt s o;
  r2_ro : Ro o;
  r2_rg : Rg s;
  r2_rz : Rz s o;
  r2_rs : Rs s o;
  r2_p2 : P2all s o
}.

Lemma R2_init ord : R2 (init cs ord) (obs0 cs).
Proof.
  constructor; [apply Rc_init|apply Rt_init|apply Ro_init|apply Rg_init|apply Rz_init|apply Rs_init|].
  intros j x xo H. cbn in H. discriminate.
Qed.

(* flush only releases latches: the run context of an instance whose stop was requested / that is ending *)
Lemma P2all_flush th s o : Rt s o -> P2all s o -> P2all (flush th s) o.
Proof.
  intros HRt HP j x' xo Hx' Hxo.
  pose proof (flush_insts th s j) as F. destruct (get j (insts s)) as [x|] eqn:Ex; [|congruence].
  destruct F as (x2 & E2 & L). assert (x2 = x') by congruence. subst x2.
  pose proof (HP _ _ _ Ex Hxo) as HPx.
  destruct L as (L1 & L2 & L3 & L4 & L5 & L6 & L7 & L8 & L9 & _ & _ & Lr & _).
  assert (Hrun : l_runctx x' = true -> o_stopreq xo = true \/ inend_pc (pc x') = true).
  { intros Hr. destruct (l_runctx x) eqn:Er; [rewrite L3; apply (p_runctx _ _ _ _ HPx Er)|].
    (* the latch was released by this flush *)
    unfold flush in E2. destruct (get th (threads s)) as [t|] eqn:Et; [|congruence].
    destruct (pend t) as [r|] eqn:Ep; [|congruence].
    assert (Hgt : get_thread s th = t) by (unfold get_thread; now rewrite Et).
    destruct r; unfold apply_release, end_release_early in E2; autorewrite with sup in E2; cbn in E2;
      try (destruct (code_set _); cbn in E2); try congruence.
    - (* RStarted *) destruct (N.eqb i j); rewrite Ex in E2; cbn in E2; injection E2 as <-; cbn in Hr; congruence.
    - (* REndEarly *) destruct (N.eqb_spec i j) as [->|]; rewrite Ex in E2; cbn in E2; injection E2 as <-; [|congruence].
      destruct (rt_pend _ _ HRt th j) as [_ B]. rewrite Hgt in B. destruct (B Ep) as [B1|B1].
      + left. unfold sreq in B1. now rewrite (oi_get_some _ _ _ Hxo) in B1.
      + rewrite (oi_get_some _ _ _ Hxo) in B1. cbn. apply (p_endst _ _ _ _ HPx B1).
    - (* RRunCtx *) destruct (N.eqb_spec i j) as [->|]; rewrite Ex in E2; cbn in E2; injection E2 as <-; [|congruence].
      destruct (rt_pend _ _ HRt th j) as [A _]. rewrite Hgt in A. specialize (A Ep).
      left. unfold sreq in A. now rewrite (oi_get_some _ _ _ Hxo) in A. }
  assert (Hv : forall n, vis_of (flush th s) n = vis_of s n) by (intros n; unfold vis_of; now rewrite flush_viss).
  destruct HPx. constructor; unfold Pok, GaveUp in *; rewrite ?L1, ?L2, ?L3, ?L4, ?L5, ?L6, ?L7, ?Hv; auto.
  rewrite <- L3. exact Hrun.
Qed.

Lemma conf_of_inst s o i x xo : Rc cs s o -> get i (insts s) = Some x -> get i (oi o) = Some xo ->
  conf_of cs (o_nm xo) = cf x /\ o_launches xo = launches x /\
  r_restarts (on_get o (o_nm xo)) = restarts (vis_of s (nm x)).
Proof.
  intros HRc Ex Exo. destruct (rc_inst _ _ _ HRc _ _ Ex) as (xo2 & Exo2 & Hn & Hcf & Hl).
  assert (xo2 = xo) by congruence. subst xo2. rewrite Hn. unfold conf_of. rewrite Hcf. repeat split; auto.
  destruct (rc_name _ _ _ HRc _ _ Hcf) as (v & r & Ev & Er & _ & _ & Hr).
  now rewrite (on_get_some _ _ _ Er), (vis_of_some _ _ _ Ev).
Qed.

(* the monitor's checks, in a state related to the observer *)
Lemma mon_ok s o th e s' : Rc cs s o -> P2all s o -> step_core s th e = Some s' ->
  mon_C02 cs o (th, e) = true \/ W3 o = true.
Proof.
  intros HRc HP H. destruct (W3 o) eqn:EW; [now right|left].
  pose proof (W3_W2 _ EW) as EW2.
  unfold mon_C02. cbn [fst snd].
  destruct e; try (cbn; repeat match goal with |- context[match ?x with _ => _ end] => destruct x end; reflexivity).
  - (* ELaunch *)
    destruct ok; [|cbn; destruct (get th (o_th o)); reflexivity].
    cbn in H. kind_cases H.
    match goal with E : get th (thinst s) = Some ?i, E0 : get ?i (insts s) = Some ?x |- _ =>
      destruct (own_th cs _ _ _ _ _ HRc E E0) as (Et & xo & Exo); cbn [ev_inst]; rewrite Et, (oi_get_some _ _ _ Exo);
      destruct (conf_of_inst _ _ _ _ _ HRc E0 Exo) as (Hcf & Hl & _); rewrite Hcf, Hl;
      pose proof (HP _ _ _ E0 Exo) as HPx end.
    destruct HPx as [Pcommit Pstop Pexited Palive Pcode Pdecided Prelaunch Pgaveup Prestarts Ppre Pfstopped Prunctx Pendst Pgone Pnostop Pstatus Ps1 Pendst2].
    match goal with E : pc _ = IStateSet |- _ => rewrite E in * end.
    destruct (Nat.eqb_spec (launches i2) 0) as [|Hl0]; [reflexivity|].
    destruct Prelaunch as (c & Hc & (Hpol & Hb) & Hel); [reflexivity|lia|].
    rewrite Hc, Hpol, Hel. destruct (o_stopreq xo) eqn:Es; [specialize (Pstop EW2 eq_refl); discriminate|].
    cbn. destruct Hb as [->|Hb]; [reflexivity|]. apply Nat.leb_le in Hb. rewrite Hb, orb_true_r. reflexivity.
  - (* ERestartDecision *)
    destruct b; [|cbn; destruct (get th (o_th o)); reflexivity].
    cbn in H. kind_cases H.
    match goal with E : get th (thinst s) = Some ?i, E0 : get ?i (insts s) = Some ?x |- _ =>
      destruct (own_th cs _ _ _ _ _ HRc E E0) as (Et & xo & Exo); cbn [ev_inst]; rewrite Et, (oi_get_some _ _ _ Exo);
      pose proof (HP _ _ _ E0 Exo) as HPx end.
    destruct (o_stopreq xo) eqn:Es; [|reflexivity]. exfalso.
    apply Bool.eqb_prop in E2. symmetry in E2. apply restart_ok_spec in E2. destruct E2 as (Ef & _).
    rewrite (p_nostop _ _ _ _ HPx EW Es) in Ef; [discriminate|]. rewrite E1. reflexivity.
  - (* EBackoffWait *)
    cbn in H. kind_cases H.
    match goal with E : get th (thinst s) = Some ?i, E0 : get ?i (insts s) = Some ?x |- _ =>
      destruct (own_th cs _ _ _ _ _ HRc E E0) as (Et & xo & Exo); cbn [ev_inst]; rewrite Et, (oi_get_some _ _ _ Exo);
      destruct (conf_of_inst _ _ _ _ _ HRc E0 Exo) as (Hcf & _); rewrite Hcf end.
    assumption.
  - (* EProcEnded *)
    cbn [ev_inst]. destruct s0; try reflexivity.
    cbn in H. unfold step_procend in H. destruct (get i (insts s)) as [x|] eqn:Ex; [|discriminate]. cbv zeta in H.
    assert (Hpc : exists c, pc x = IInEnd SCompleted c true).
    { break_step H; split_andb; try discriminate;
      repeat match goal with E : status_eqb SCompleted _ = true |- _ => apply status_eqb_eq in E; subst end; eauto. }
    destruct Hpc as (c & Hpc). clear H.
    destruct (rc_inst _ _ _ HRc _ _ Ex) as (xo & Exo & _). rewrite (oi_get_some _ _ _ Exo).
    destruct (conf_of_inst _ _ _ _ _ HRc Ex Exo) as (Hcf & _ & Hr). rewrite Hcf, Hr.
    destruct (p_gaveup _ _ _ _ (HP _ _ _ Ex Exo) c) as (Hc & Hg); [right; eauto|]. rewrite Hc.
    destruct Hg as [Hg|[Hg|[Hg1 Hg2]]].
    + rewrite Hg. cbn. rewrite andb_false_r. reflexivity.
    + rewrite Hg. reflexivity.
    + apply negb_true_iff. apply andb_false_iff. left. apply andb_false_iff. right.
      apply orb_false_iff. split; [now apply Nat.eqb_neq|apply Nat.ltb_ge; exact Hg2].
Qed.
(* the monitor's checks, in a state related to the observer *)
Lemma mon_ok_core s o th e s' : Rc cs s o -> P2all s o -> step_core s th e = Some s' ->
  mon_C02_core cs o (th, e) = true \/ W2 o = true.
Proof.
  intros HRc HP H. destruct (W2 o) eqn:EW2; [now right|left].
  unfold mon_C02_core, mon_C02. cbn [fst snd].
  destruct e; try (cbn; repeat match goal with |- context[match ?x with _ => _ end] => destruct x end; reflexivity).
  - (* ELaunch *)
    destruct ok; [|cbn; destruct (get th (o_th o)); reflexivity].
    cbn in H. kind_cases H.
    match goal with E : get th (thinst s) = Some ?i, E0 : get ?i (insts s) = Some ?x |- _ =>
      destruct (own_th cs _ _ _ _ _ HRc E E0) as (Et & xo & Exo); cbn [ev_inst]; rewrite Et, (oi_get_some _ _ _ Exo);
      destruct (conf_of_inst _ _ _ _ _ HRc E0 Exo) as (Hcf & Hl & _); rewrite Hcf, Hl;
      pose proof (HP _ _ _ E0 Exo) as HPx end.
    destruct HPx as [Pcommit Pstop Pexited Palive Pcode Pdecided Prelaunch Pgaveup Prestarts Ppre Pfstopped Prunctx Pendst Pgone Pnostop Pstatus Ps1 Pendst2].
    match goal with E : pc _ = IStateSet |- _ => rewrite E in * end.
    destruct (Nat.eqb_spec (launches i2) 0) as [|Hl0]; [reflexivity|].
    destruct Prelaunch as (c & Hc & (Hpol & Hb) & Hel); [reflexivity|lia|].
    rewrite Hc, Hpol, Hel. destruct (o_stopreq xo) eqn:Es; [specialize (Pstop EW2 eq_refl); discriminate|].
    cbn. destruct Hb as [->|Hb]; [reflexivity|]. apply Nat.leb_le in Hb. rewrite Hb, orb_true_r. reflexivity.
  - (* EBackoffWait *)
    cbn in H. kind_cases H.
    match goal with E : get th (thinst s) = Some ?i, E0 : get ?i (insts s) = Some ?x |- _ =>
      destruct (own_th cs _ _ _ _ _ HRc E E0) as (Et & xo & Exo); cbn [ev_inst]; rewrite Et, (oi_get_some _ _ _ Exo);
      destruct (conf_of_inst _ _ _ _ _ HRc E0 Exo) as (Hcf & _); rewrite Hcf end.
    assumption.
  - (* EProcEnded *)
    cbn [ev_inst]. destruct s0; try reflexivity.
    cbn in H. unfold step_procend in H. destruct (get i (insts s)) as [x|] eqn:Ex; [|discriminate]. cbv zeta in H.
    assert (Hpc : exists c, pc x = IInEnd SCompleted c true).
    { break_step H; split_andb; try discriminate;
      repeat match goal with E : status_eqb SCompleted _ = true |- _ => apply status_eqb_eq in E; subst end; eauto. }
    destruct Hpc as (c & Hpc). clear H.
    destruct (rc_inst _ _ _ HRc _ _ Ex) as (xo & Exo & _). rewrite (oi_get_some _ _ _ Exo).
    destruct (conf_of_inst _ _ _ _ _ HRc Ex Exo) as (Hcf & _ & Hr). rewrite Hcf, Hr.
    destruct (p_gaveup _ _ _ _ (HP _ _ _ Ex Exo) c) as (Hc & Hg); [right; eauto|]. rewrite Hc.
    destruct Hg as [Hg|[Hg|[Hg1 Hg2]]].
    + rewrite Hg. cbn. rewrite andb_false_r. reflexivity.
    + rewrite Hg. reflexivity.
    + apply negb_true_iff. apply andb_false_iff. left. apply andb_false_iff. right.
      apply orb_false_iff. split; [now apply Nat.eqb_neq|apply Nat.ltb_ge; exact Hg2].
Qed.

Lemma fresh_newinst s o th e s' : Rc cs s o -> step_core s th e = Some s' ->
  forall i n, e = ENewInst i n -> get i (oi o) = None.
Proof.
  intros HRc H i n ->. cbn in H. unfold step_reg in H. break_step H.
  apply negb_true_iff in E0. unfold has in E0. destruct (get i (insts s)) eqn:Ei; [discriminate|].
  eapply rc_noinst; eauto.
Qed.

Lemma R2_step s o te s' : R2 s o -> step s te = Some s' ->
  R2 s' (obs_step cs o te) /\ (mon_C02 cs o te = true \/ W_C02 o = true) /\ (mon_C02_core cs o te = true \/ W_C02_core o = true).
Proof.
  destruct te as [th e]. intros [HRc HRt HRo HRg HRz HRs HP] H.
  pose proof (Rc_step cs _ _ _ _ _ HRc H) as HRc'.
  unfold step in H. cbn [fst snd] in H.
  assert (HRc0 : Rc cs (flush th s) o) by (eapply Rc_sys_same; [exact HRc|apply sys_same_flush]).
  pose proof (Rt_flush th _ _ HRt) as HRt0. pose proof (P2all_flush th _ _ HRt HP) as HP0.
  pose proof (Rg_flush th _ HRg) as HRg0. pose proof (Rz_flush th _ _ HRz) as HRz0. pose proof (Rs_flush th _ _ HRs) as HRs0.
  split; [constructor|split].
  - exact HRc'.
  - eapply Rt_step_core; eauto.
  - apply Ro_step; [|exact HRo]. eapply fresh_newinst; eauto.
  - eapply Rg_step_core; eauto.
  - eapply Rz_step_core; eauto.
  - eapply Rs_step_core; eauto.
  - eapply P2all_step_core; eauto.
  - eapply mon_ok; eauto.
  - eapply mon_ok_core; eauto.
Qed.
End R2.

(* ---- the theorems ------------------------------------------------------------------------------------------ *)
Theorem C02_main : forall cs ord evs s,
  accept (init cs ord) evs = Some s -> W_C02 (final_obs cs evs) = false -> holds_C02 cs evs = true.
Proof.
  intros cs ord evs s Hacc HW. unfold holds_C02.
  eapply (sim_holds_partial cs ord (R2 cs) (mon_C02 cs) W_C02 (R2_init cs ord)); eauto.
  - intros s0 o e s1 HR Hs. destruct (R2_step cs _ _ _ _ HR Hs) as (A & B & _). auto.
  - intros o e. apply W3_mono.
Qed.

Theorem C02_core : forall cs ord evs s,
  accept (init cs ord) evs = Some s -> W_C02_core (final_obs cs evs) = false -> holds cs mon_C02_core evs = true.
Proof.
  intros cs ord evs s Hacc HW.
  eapply (sim_holds_partial cs ord (R2 cs) (mon_C02_core cs) W_C02_core (R2_init cs ord)); eauto.
  - intros s0 o e s1 HR Hs. destruct (R2_step cs _ _ _ _ HR Hs) as (A & _ & B). auto.
  - intros o e. apply W2_mono.
Qed.

(* ---- the window hypothesis is needed: a concrete accepted history on which the monitor fails ---------------- *)
Definition ex_cfg (p : policy) (m : nat) : amap pconf :=
  [(1%N, mkConf [] p m 0 false false false false false false false)].
Definition ex_prefix (c : Z) : list (tid * event) :=
  [(10, EApiBegin OpRun); (10, ENewInst 1 1); (10, EState 1 SPending); (10, ERegAdd 1 1); (10, ESpawn 1 1); (10, ERunSpawned);
   (20, EBegin 1); (20, ERunChecked false); (20, EStarted); (20, EState 1 SRunning); (20, ELaunch true);
   (0, ECmdExit 1 c); (20, EWaitReturn c); (20, EExitCode c); (20, ERestartDecision true); (20, EState 1 SRestarting);
   (20, EBackoffWait 1)]%N.
(* policy always; the command exits, the back-off begins, StopProcess sets isStopped (no_restart) but has not
   yet entered stopProcess when the back-off elapses: the command is launched again (finding F37, window sdlag) *)
Definition ex_bad : list (tid * event) :=
  (ex_prefix 0 ++ [(30, EApiBegin (OpStop 1)); (30, ERegGet 1 (Some 1)); (30, EStopChecked 1 (Some 1)); (30, ENoRestart 1);
                   (20, EBackoffElapsed); (20, EState 1 SRunning); (20, ELaunch true)])%N.
(* policy on_failure, max_restarts 1: exit 1 -> relaunch after the back-off -> exit 2 -> gives up *)
Definition ex_good : list (tid * event) :=
  (ex_prefix 1 ++ [(20, EBackoffElapsed); (20, EState 1 SRunning); (20, ELaunch true); (0, ECmdExit 1 2%Z); (20, EWaitReturn 2%Z);
                   (20, EExitCode 2%Z); (20, ERestartDecision false); (20, EProcEnd 1 SCompleted); (20, EState 1 SCompleted);
                   (20, EProcEnded 1 SCompleted); (20, ERunReturned 2%Z)])%N.

Lemma C02_refuted : exists cs ord evs s,
  accept (init cs ord) evs = Some s /\ holds_C02 cs evs = false /\ holds cs mon_C02_core evs = false.
Proof.
  exists (ex_cfg PAlways 0), false, ex_bad.
  destruct (accept (init (ex_cfg PAlways 0) false) ex_bad) as [s|] eqn:E; [|vm_compute in E; discriminate].
  exists s. repeat split; vm_compute; reflexivity.
Qed.

(* the dup window is needed too: StartProcess creates and launches instance 1 of a process with a readiness probe; Run()'s
   spawn loop then creates instance 2 of the same name (F25) and writes Pending; a fatal probe result makes the internal
   stop find "Pending" on the launched instance 1 and record a stop request without isStopped; the command exits and the
   restart decision is positive.  Only w_dup is raised (not commit, sdlag, zombie). *)
Definition ex_cfg_probe : amap pconf := [(1%N, mkConf [] PAlways 0 0 false false true false false false false)].
Definition ex_dup : list (tid * event) :=
  [(30, EApiBegin (OpStart 1)); (30, ERegGet 1 None); (30, EStartChecked 1 false); (30, ENewInst 1 1); (30, EState 1 SPending);
   (30, ERegAdd 1 1); (30, ESpawn 1 1); (30, EApiReturn true);
   (20, EBegin 1); (20, ERunChecked false); (20, EStarted); (20, EState 1 SRunning); (20, ELaunch true);
   (10, EApiBegin OpRun); (10, ENewInst 2 1); (10, EState 2 SPending);
   (40, EProbe 1 false true); (40, EStopEnter 1 false); (40, EStopPending 1);
   (0, ECmdExit 1 0%Z); (20, EWaitReturn 0%Z); (20, EExitCode 0%Z); (20, ERestartDecision true)]%N.

Lemma C02_dup_needed : exists cs ord evs s,
  accept (init cs ord) evs = Some s /\ holds_C02 cs evs = false /\
  w_commit (final_obs cs evs) = false /\ w_sdlag (final_obs cs evs) = false /\ w_zombie (final_obs cs evs) = false.
Proof.
  exists ex_cfg_probe, false, ex_dup.
  destruct (accept (init ex_cfg_probe false) ex_dup) as [s|] eqn:E; [|vm_compute in E; discriminate].
  exists s. repeat split; vm_compute; reflexivity.
Qed.

Lemma C02_nonvacuous :
  (exists s, accept (init (ex_cfg POnFailure 1) false) ex_good = Some s) /\
  W_C02 (final_obs (ex_cfg POnFailure 1) ex_good) = false /\ length ex_good = 28 /\
  holds_C02 (ex_cfg POnFailure 1) ex_good = true.
Proof.
  split; [|repeat split; vm_compute; reflexivity].
  destruct (accept (init (ex_cfg POnFailure 1) false) ex_good) as [s|] eqn:E; [eauto|vm_compute in E; discriminate].
Qed.

(* ---- declarative reading: the monitor holds at every position of the history -------------------------------- *)
Lemma mon_run_at cs m : forall evs o k, mon_run cs m o evs k = None ->
  forall pre e post, evs = pre ++ e :: post -> m (fold_left (obs_step cs) pre o) e = true.
Proof.
  induction evs as [|a evs IH]; intros o k H pre e post E.
  - destruct pre; discriminate.
  - cbn in H. destruct (m o a) eqn:Em; [|discriminate]. destruct pre as [|b pre]; cbn in E.
    + injection E as -> _. exact Em.
    + injection E as -> E. cbn. eapply IH; eauto.
Qed.

Lemma holds_at cs m evs : holds cs m evs = true ->
  forall pre e post, evs = pre ++ e :: post -> m cs (final_obs cs pre) e = true.
Proof.
  unfold holds, final_obs. intros H. destruct (mon_run cs (m cs) (obs0 cs) evs 0) eqn:E; [discriminate|].
  eapply mon_run_at; eauto.
Qed.

(* C02, position-quantified: in an accepted history that stayed out of the windows, at every position ... *)
Theorem C02_declarative : forall cs ord evs s,
  accept (init cs ord) evs = Some s -> W_C02 (final_obs cs evs) = false ->
  forall pre th e post, evs = pre ++ (th, e) :: post ->
  let o := final_obs cs pre in
  (* (1) a relaunch of instance i (its thread th logs launch, it was launched before) *)
  (forall i, e = ELaunch true -> get th (o_th o) = Some i -> o_launches (oi_get o i) <> 0 ->
     exists ec, o_code (oi_get o i) = Some ec /\
       policy_allows (pol (conf_of cs (o_nm (oi_get o i)))) ec = true /\
       (maxr (conf_of cs (o_nm (oi_get o i))) = 0 \/ o_launches (oi_get o i) <= maxr (conf_of cs (o_nm (oi_get o i)))) /\
       o_elapsed (oi_get o i) = true /\ o_stopreq (oi_get o i) = false) /\
  (* (2) the decision to relaunch is not taken after a stop request *)
  (forall i, e = ERestartDecision true -> get th (o_th o) = Some i -> o_stopreq (oi_get o i) = false) /\
  (* (3) the back-off is max(1, backoff_seconds) *)
  (forall i secs, e = EBackoffWait secs -> get th (o_th o) = Some i ->
     secs = N.max 1 (backoff (conf_of cs (o_nm (oi_get o i))))) /\
  (* (4) giving up (Completed) after an exit is justified: policy, bound or stop request *)
  (forall i ec, e = EProcEnded i SCompleted -> o_code (oi_get o i) = Some ec ->
     policy_allows (pol (conf_of cs (o_nm (oi_get o i)))) ec = false \/
     (maxr (conf_of cs (o_nm (oi_get o i))) <> 0 /\
      maxr (conf_of cs (o_nm (oi_get o i))) <= r_restarts (on_get o (o_nm (oi_get o i)))) \/
     o_stopreq (oi_get o i) = true).
Proof.
  intros cs ord evs s Hacc HW pre th e post E o.
  pose proof (holds_at cs mon_C02 evs (C02_main cs ord evs s Hacc HW) pre (th, e) post E) as Hm.
  fold o in Hm. unfold mon_C02 in Hm. cbn [fst snd] in Hm.
  repeat split.
  - intros i -> Et Hl. cbn [ev_inst] in Hm. rewrite Et in Hm.
    destruct (Nat.eqb_spec (o_launches (oi_get o i)) 0) as [|_]; [contradiction|].
    destruct (o_code (oi_get o i)) as [ec|]; [|discriminate]. exists ec.
    repeat (apply andb_true_iff in Hm; destruct Hm as [Hm ?]). repeat split; auto.
    + apply orb_true_iff in H1. destruct H1 as [H1|H1]; [left; now apply Nat.eqb_eq|right; now apply Nat.leb_le].
    + now apply negb_true_iff.
  - intros i -> Et. cbn [ev_inst] in Hm. rewrite Et in Hm. now apply negb_true_iff.
  - intros i secs -> Et. cbn [ev_inst] in Hm. rewrite Et in Hm. now apply N.eqb_eq.
  - intros i ec -> Hc. cbn [ev_inst] in Hm. rewrite Hc in Hm. apply negb_true_iff in Hm.
    apply andb_false_iff in Hm. destruct Hm as [Hm|Hm]; [|right; right; now apply negb_false_iff].
    apply andb_false_iff in Hm. destruct Hm as [Hm|Hm]; [now left|right; left].
    apply orb_false_iff in Hm. destruct Hm as [A B]. split; [now apply Nat.eqb_neq|now apply Nat.ltb_ge].
Qed.
