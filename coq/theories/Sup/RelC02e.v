(* C02 simulation, part 5: the relation R2, its preservation by every accepted step, the monitor clauses,
   and the theorems.  Props/C02.v restates them. *)
From Coq Require Import List ZArith NArith Bool Lia.
From RecordUpdate Require Import RecordSet.
From PC.Base Require Import Assoc.
From PC.Sup Require Import Model Monitors Check Tactics Sim ObsFacts Effects RelCore LemC02 RelC02t RelC02b RelC02c RelC02d RelC02f.
Import ListNotations RecordSetNotations.

(* the window hypothesis of the full theorem: F20/F21 (commit), F37 (sdlag), F25 (dup), F38 (zombie) *)
Definition W_C02 (o : obs) : bool := W4 o.
(* ... and of the theorem about launches, back-off and giving up only: F20/F21, F37 *)
Definition W_C02_core (o : obs) : bool := W2 o.

(* the monitor without the clause "no relaunch decision after a stop request" *)
Definition mon_C02_core (cs : amap pconf) (o : obs) (te : tid * event) : bool :=
  match snd te with ERestartDecision _ => true | _ => mon_C02 cs o te end.

Section R2.
Context (cs : amap pconf).

Record R2 (s : sys) (o : obs) : Prop := mkR2 {
  r2_rc : Rc cs s o;
  r2_rt : Rt s o;
  r2_rd : Rd o;
  r2_p2 : P2all s o
}.

Lemma R2_init ord : R2 (init cs ord) (obs0 cs).
Proof.
  constructor; [apply Rc_init|apply Rt_init|apply Rd_init|].
  intros j x xo H. cbn in H. discriminate.
Qed.

(* flush only releases latches: the run context of an instance whose stop was requested / that is ending *)
Lemma P2all_flush th s o : Rt s o -> P2all s o -> P2all (flush th s) o.
Proof.
  intros HRt HP j x' xo Hx' Hxo.
  pose proof (flush_insts th s j) as F. destruct (get j (insts s)) as [x|] eqn:Ex; [|congruence].
  destruct F as (x2 & E2 & L). assert (x2 = x') by congruence. subst x2.
  pose proof (HP _ _ _ Ex Hxo) as HPx.
  destruct L as (L1 & L2 & L3 & L4 & L5 & L6 & L7 & L8 & L9 & _ & _ & Lr & _).
  assert (Hrun : l_runctx x' = true -> o_stopreq xo = true \/ inend_pc (pc x') = true).
  { intros Hr. destruct (l_runctx x) eqn:Er; [rewrite L3; apply (p_runctx _ _ _ _ HPx Er)|].
    (* the latch was released by this flush *)
    unfold flush in E2. destruct (get th (threads s)) as [t|] eqn:Et; [|congruence].
    destruct (pend t) as [r|] eqn:Ep; [|congruence].
    assert (Hgt : get_thread s th = t) by (unfold get_thread; now rewrite Et).
    destruct r; unfold apply_release, end_release_early in E2; autorewrite with sup in E2; cbn in E2;
      try (destruct (code_set _); cbn in E2); try congruence.
    - (* RStarted *) destruct (N.eqb i j); rewrite Ex in E2; cbn in E2; injection E2 as <-; cbn in Hr; congruence.
    - (* REndEarly *) destruct (N.eqb_spec i j) as [->|]; rewrite Ex in E2; cbn in E2; injection E2 as <-; [|congruence].
      destruct (rt_pend _ _ HRt th j) as [_ B]. rewrite Hgt in B. destruct (B Ep) as [B1|B1].
      + left. unfold sreq in B1. now rewrite (oi_get_some _ _ _ Hxo) in B1.
      + rewrite (oi_get_some _ _ _ Hxo) in B1. cbn. apply (p_endst _ _ _ _ HPx B1).
    - (* RRunCtx *) destruct (N.eqb_spec i j) as [->|]; rewrite Ex in E2; cbn in E2; injection E2 as <-; [|congruence].
      destruct (rt_pend _ _ HRt th j) as [A _]. rewrite Hgt in A. specialize (A Ep).
      left. unfold sreq in A. now rewrite (oi_get_some _ _ _ Hxo) in A. }
  assert (Hv : forall n, vis_of (flush th s) n = vis_of s n) by (intros n; unfold vis_of; now rewrite flush_viss).
  destruct HPx. constructor; unfold Pok, GaveUp in *; rewrite ?L1, ?L2, ?L3, ?L4, ?L5, ?L6, ?L7, ?Hv; auto.
Qed.

Lemma conf_of_inst s o i x xo : Rc cs s o -> get i (insts s) = Some x -> get i (oi o) = Some xo ->
  conf_of cs (o_nm xo) = cf x /\ o_launches xo = launches x /\
  r_restarts (on_get o (o_nm xo)) = restarts (vis_of s (nm x)).
Proof.
  intros HRc Ex Exo. destruct (rc_inst _ _ _ HRc _ _ Ex) as (xo2 & Exo2 & Hn & Hcf & Hl).
  assert (xo2 = xo) by congruence. subst xo2. rewrite Hn. unfold conf_of. rewrite Hcf. repeat split; auto.
  destruct (rc_name _ _ _ HRc _ _ Hcf) as (v & r & Ev & Er & _ & _ & Hr).
  now rewrite (on_get_some _ _ _ Er), (vis_of_some _ _ _ Ev).
Qed.

(* the monitor's checks, in a state related to the observer *)
Lemma mon_ok s o th e s' : Rc cs s o -> P2all s o -> step_core s th e = Some s' ->
  mon_C02 cs o (th, e) = true \/ W4 o = true.
Proof.
  intros HRc HP H. destruct (W4 o) eqn:EW; [now right|left].
  pose proof (W4_W2 _ EW) as EW2.
  unfold mon_C02. cbn [fst snd].
  destruct e; try (cbn; repeat match goal with |- context[match ?x with _ => _ end] => destruct x end; reflexivity).
  - (* ELaunch *)
    destruct ok; [|cbn; destruct (get th (o_th o)); reflexivity].
    cbn in H. kind_cases H.
    match goal with E : get th (thinst s) = Some ?i, E0 : get ?i (insts s) = Some ?x |- _ =>
      destruct (own_th cs _ _ _ _ _ HRc E E0) as (Et & xo & Exo); cbn [ev_inst]; rewrite Et, (oi_get_some _ _ _ Exo);
      destruct (conf_of_inst _ _ _ _ _ HRc E0 Exo) as (Hcf & Hl & _); rewrite Hcf, Hl;
      pose proof (HP _ _ _ E0 Exo) as HPx end.
    destruct HPx as [Pcommit Pstop Pexited Palive Pcode Pdecided Prelaunch Pgaveup Prestarts Ppre Pfstopped Prunctx Pendst Pgone Pnostop Pstatus].
    match goal with E : pc _ = IStateSet |- _ => rewrite E in * end.
    destruct (Nat.eqb_spec (launches i2) 0) as [|Hl0]; [reflexivity|].
    destruct Prelaunch as (c & Hc & (Hpol & Hb) & Hel); [reflexivity|lia|].
    rewrite Hc, Hpol, Hel. destruct (o_stopreq xo) eqn:Es; [specialize (Pstop EW2 eq_refl); discriminate|].
    cbn. rewrite andb_true_r. destruct Hb as [->|Hb]; [reflexivity|]. apply Nat.leb_le in Hb. rewrite Hb. apply orb_true_r.
  - (* ERestartDecision *)
    destruct b; [|cbn; destruct (get th (o_th o)); reflexivity].
    cbn in H. kind_cases H.
    match goal with E : get th (thinst s) = Some ?i, E0 : get ?i (insts s) = Some ?x |- _ =>
      destruct (own_th cs _ _ _ _ _ HRc E E0) as (Et & xo & Exo); cbn [ev_inst]; rewrite Et, (oi_get_some _ _ _ Exo);
      pose proof (HP _ _ _ E0 Exo) as HPx end.
    destruct (o_stopreq xo) eqn:Es; [|reflexivity]. exfalso.
    match goal with E : pc _ = ICodeWritten _ |- _ => rewrite E in HPx end.
    match goal with E : Bool.eqb true (restart_ok _ _ _ _ _) = true |- _ => apply Bool.eqb_prop in E; symmetry in E; apply restart_ok_spec in E; destruct E as (Ef & _) end.
    rewrite (p_nostop _ _ _ _ HPx EW Es) in Ef by (rewrite ?E1; reflexivity). discriminate.
(*STOP*)
End R2.
