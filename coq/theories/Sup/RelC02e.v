(* C02 simulation, part 5: the relation R2, its preservation by every accepted step, the monitor clauses,
   and the theorems.  Props/C02.v restates them. *)
From Coq Require Import List ZArith NArith Bool Lia.
From RecordUpdate Require Import RecordSet.
From PC.Base Require Import Assoc.
From PC.Sup Require Import Model Monitors Check Tactics Sim ObsFacts Effects RelCore LemC02 RelC02t RelC02b RelC02c RelC02d.
Import ListNotations RecordSetNotations.

(* the window hypothesis of the full theorem: F20/F21 (commit), F37 (sdlag), F25 (dup), F38 (zombie) *)
Definition W_C02 (o : obs) : bool := W4 o.
(* ... and of the theorem about launches, back-off and giving up only: F20/F21, F37 *)
Definition W_C02_core (o : obs) : bool := W2 o.

(* the monitor without the clause "no relaunch decision after a stop request" *)
Definition mon_C02_core (cs : amap pconf) (o : obs) (te : tid * event) : bool :=
  match snd te with ERestartDecision _ => true | _ => mon_C02 cs o te end.

Section R2.
Context (cs : amap pconf).

Record R2 (s : sys) (o : obs) : Prop := mkR2 {
  r2_rc : Rc cs s o;
  r2_rt : Rt s o;
  r2_rd : Rd o;
  r2_p2 : P2all s o
}.

Lemma R2_init ord : R2 (init cs ord) (obs0 cs).
Proof.
  constructor; [apply Rc_init|apply Rt_init|apply Rd_init|].
  intros j x xo H. cbn in H. discriminate.
Qed.

(* flush only releases latches: the run context of an instance whose stop was requested / that is ending *)
Lemma P2all_flush th s o : Rt s o -> P2all s o -> P2all (flush th s) o.
Proof.
  intros HRt HP j x' xo Hx' Hxo.
  pose proof (flush_insts th s j) as F. destruct (get j (insts s)) as [x|] eqn:Ex; [|congruence].
  destruct F as (x2 & E2 & L). assert (x2 = x') by congruence. subst x2.
  pose proof (HP _ _ _ Ex Hxo) as HPx.
  destruct L as (L1 & L2 & L3 & L4 & L5 & L6 & L7 & L8 & L9 & _ & _ & Lr & _).
  assert (Hrun : l_runctx x' = true -> o_stopreq xo = true \/ inend_pc (pc x') = true).
  { intros Hr. destruct (l_runctx x) eqn:Er; [rewrite L3; apply (p_runctx _ _ _ _ HPx Er)|].
    (* the latch was released by this flush *)
    unfold flush in E2. destruct (get th (threads s)) as [t|] eqn:Et; [|congruence].
    destruct (pend t) as [r|] eqn:Ep; [|congruence].
    assert (Hgt : get_thread s th = t) by (unfold get_thread; now rewrite Et).
    destruct r; unfold apply_release, end_release_early in E2; autorewrite with sup in E2; cbn in E2;
      try (destruct (code_set _); cbn in E2); try congruence.
    - (* RStarted *) destruct (N.eqb i j); rewrite Ex in E2; cbn in E2; injection E2 as <-; cbn in Hr; congruence.
    - (* REndEarly *) destruct (N.eqb_spec i j) as [->|]; rewrite Ex in E2; cbn in E2; injection E2 as <-; [|congruence].
      destruct (rt_pend _ _ HRt th j) as [_ B]. rewrite Hgt in B. destruct (B Ep) as [B1|B1].
      + left. unfold sreq in B1. now rewrite (oi_get_some _ _ _ Hxo) in B1.
      + rewrite (oi_get_some _ _ _ Hxo) in B1. cbn. apply (p_endst _ _ _ _ HPx B1).
    - (* RRunCtx *) destruct (N.eqb_spec i j) as [->|]; rewrite Ex in E2; cbn in E2; injection E2 as <-; [|congruence].
      destruct (rt_pend _ _ HRt th j) as [A _]. rewrite Hgt in A. specialize (A Ep).
      left. unfold sreq in A. now rewrite (oi_get_some _ _ _ Hxo) in A. }
  destruct HPx. constructor; unfold Pok, GaveUp in *; rewrite ?L1, ?L2, ?L3, ?L4, ?L5, ?L6, ?L7, ?flush_viss_of; auto.
Qed.
(*STOP*)
End R2.
