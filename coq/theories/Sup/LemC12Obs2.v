(* C12 proof: more observer-only facts (shutdown snapshot bookkeeping, stop-pending, new instance). *)
From Coq Require Import List ZArith NArith Bool Lia.
From RecordUpdate Require Import RecordSet.
From PC.Base Require Import Assoc.
From PC.Sup Require Import Model Monitors Tactics Sim ObsFacts Effects RelCore LemC12Obs.
Import ListNotations RecordSetNotations.

Lemma obs_sd_cur cs o th e :
  o_sd_cur (obs_step cs o (th, e)) =
  match e with
  | EShutdownOrder order => set th order (o_sd_cur o)
  | EShutdownEnd => del th (o_sd_cur o)
  | _ => o_sd_cur o
  end.
Proof.
  unfold obs_step. cbn [fst snd].
  destruct e; cbn [ev_inst];
  try (destruct (get th (o_th o)) as [i0|] eqn:Eth);
  try match goal with |- context[match ?b with true => _ | false => _ end] => is_var b; destruct b end;
  cbn; unfold note_late_commit; autorewrite with obsn; cbn; try reflexivity;
  repeat match goal with |- context[if ?b then _ else _] => destruct b end; cbn; autorewrite with obsn; try reflexivity.
Qed.

Lemma obs_stoppending cs o th i xo : get i (oi o) = Some xo ->
  exists xo', get i (oi (obs_step cs o (th, EStopPending i))) = Some xo' /\ o_stopreq xo' = true.
Proof.
  intros Hxo. unfold obs_step. cbn [fst snd ev_inst]. autorewrite with obsn. cbn. rewrite N.eqb_refl, Hxo. cbn.
  eexists. split; [reflexivity|]. now autorewrite with obsn.
Qed.

Lemma obs_newinst cs o th j n xo' : get j (oi (obs_step cs o (th, ENewInst j n))) = Some xo' ->
  o_alive xo' = false /\ o_commit xo' = false /\ o_stopreq xo' = false.
Proof.
  unfold obs_step. cbn [fst snd ev_inst]. autorewrite with obsn. cbn. rewrite get_set_same. cbn.
  intros E. injection E as <-. now autorewrite with obsn.
Qed.

