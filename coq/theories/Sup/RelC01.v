(* Simulation relation and proof for C01 (dependency gating).  See Props/C01.v for the statements. *)
From Coq Require Import List ZArith NArith Bool Lia.
From RecordUpdate Require Import RecordSet.
From PC.Base Require Import Assoc.
From PC.Sup Require Import Model Monitors Tactics Sim ObsFacts Effects RelCore LemC01.
Import ListNotations RecordSetNotations.

(* ---- program-counter classes ------------------------------------------------------------------------------ *)
(* dependencies an instance has not yet resolved; None: the instance will never launch (again) *)
Definition remaining (p : ipc) : option (list name) :=
  match p with
  | IDeps todo => Some todo
  | IBlocked k _ _ todo => Some (k :: todo)
  | IPreStart | IPreLaunch | IStateSet | IAlive | IExited _ | ICodeWritten _ | IWillRestart _ | IRestarting _
  | IBackoff _ => Some []
  | _ => None
  end.
Definition late_pc (p : ipc) : bool :=
  match p with ITriggered _ | ICodeSet | ILeaving | IWgDone | IGone => true | _ => false end.
Definition plain_pc (p : ipc) : bool :=
  match p with IDeps _ | IBlocked _ _ _ _ => false | _ => true end.

Definition pc_ok (x x' : inst) : Prop :=
  pc x' = pc x \/
  (plain_pc (pc x') = true /\ (remaining (pc x') = Some [] -> remaining (pc x) = Some []) /\
   (late_pc (pc x') = true -> late_pc (pc x) = true \/ d_added x = true)).

Lemma plain_remaining p l : plain_pc p = true -> remaining p = Some l -> l = [].
Proof. destruct p; cbn; intros; try discriminate; congruence. Qed.

Definition lk_plain (l : lookup_st) : Prop := match l with LNone | LMid _ | LDone1 _ None => True | _ => False end.

(* ---- model frame for everything except latches: what Minv, Rg and Rk look at ------------------------------- *)
Record frM (s s' : sys) : Prop := mkFrM {
  fm_confs : confs s' = confs s;
  fm_thinst : thinst s' = thinst s;
  fm_running : running s' = running s;
  fm_donereg : donereg s' = donereg s;
  fm_insts : forall j, match get j (insts s) with
             | Some x => exists x', get j (insts s') = Some x' /\ nm x' = nm x /\ cf x' = cf x /\
                                    d_added x' = d_added x /\ pc_ok x x'
             | None => get j (insts s') = None end;
  fm_lk : forall th, lk (get_thread s' th) = lk (get_thread s th) \/ lk_plain (lk (get_thread s' th)) }.

Lemma pc_ok_refl x : pc_ok x x. Proof. now left. Qed.

Lemma pc_ok_trans x1 x2 x3 : d_added x2 = d_added x1 -> pc_ok x1 x2 -> pc_ok x2 x3 -> pc_ok x1 x3.
Proof.
  intros Hd [A|(A1 & A2 & A3)] [B|(B1 & B2 & B3)].
  - left; congruence.
  - right. rewrite <- A, <- Hd. auto.
  - right. rewrite B. auto.
  - right. repeat split; auto. intros H. destruct (B3 H) as [H1|H1]; [auto|right; congruence].
Qed.

Lemma frM_refl s : frM s s.
Proof.
  constructor; auto. intros j. destruct (get j (insts s)) as [x|]; eauto 8 using pc_ok_refl.
Qed.

Lemma frM_trans s1 s2 s3 : frM s1 s2 -> frM s2 s3 -> frM s1 s3.
Proof.
  intros [A1 A2 A3 A4 A5 A6] [B1 B2 B3 B4 B5 B6]. constructor; try congruence.
  - intros j. specialize (A5 j). specialize (B5 j). destruct (get j (insts s1)) as [x|].
    + destruct A5 as (x2 & E2 & ? & ? & ? & ?). rewrite E2 in B5. destruct B5 as (x3 & E3 & ? & ? & ? & ?).
      exists x3. repeat split; try congruence. eapply pc_ok_trans; eauto.
    + now rewrite A5 in B5.
  - intros th. destruct (B6 th) as [B|B]; [|now right]. rewrite B. apply A6.
Qed.

Lemma frM_eq s s' : confs s' = confs s -> thinst s' = thinst s -> running s' = running s -> donereg s' = donereg s ->
  insts s' = insts s -> threads s' = threads s -> frM s s'.
Proof.
  intros A B C D E F. constructor; auto.
  - intros j. rewrite E. destruct (get j (insts s)) as [x|]; eauto 8 using pc_ok_refl.
  - intros th. left. unfold get_thread. now rewrite F.
Qed.

Lemma frM_upd_inst i f s :
  (forall x, nm (f x) = nm x /\ cf (f x) = cf x /\ d_added (f x) = d_added x /\ pc (f x) = pc x) -> frM s (upd_inst i f s).
Proof.
  intros Hf. constructor; autorewrite with sup; auto.
  - intros j. rewrite insts_upd_inst. destruct (N.eqb i j); destruct (get j (insts s)) as [x|]; cbn; eauto 8 using pc_ok_refl.
    exists (f x). destruct (Hf x) as (? & ? & ? & ?). repeat split; auto. now left.
  - intros th. left. unfold get_thread. now rewrite upd_inst_threads.
Qed.

Lemma frM_upd_inst_at i f s y :
  get i (insts s) = Some y -> nm (f y) = nm y -> cf (f y) = cf y -> d_added (f y) = d_added y -> pc_ok y (f y) ->
  frM s (upd_inst i f s).
Proof.
  intros Hy A B C D. constructor; autorewrite with sup; auto.
  - intros j. rewrite insts_upd_inst. destruct (N.eqb_spec i j).
    + subst j. rewrite Hy. cbn. eauto 8.
    + destruct (get j (insts s)) as [x|]; eauto 8 using pc_ok_refl.
  - intros th. left. unfold get_thread. now rewrite upd_inst_threads.
Qed.

Lemma frM_upd_vis n f s : frM s (upd_vis n f s).
Proof.
  constructor; autorewrite with sup; auto.
  - intros j. destruct (get j (insts s)) as [x|]; eauto 8 using pc_ok_refl.
  - intros th. left. unfold get_thread. now rewrite upd_vis_threads.
Qed.

Lemma frM_set_thread th t s : lk t = lk (get_thread s th) \/ lk_plain (lk t) -> frM s (set_thread th t s).
Proof.
  intros Ht. constructor; auto.
  - intros j. cbn. destruct (get j (insts s)) as [x|]; eauto 8 using pc_ok_refl.
  - intros th'. rewrite get_thread_set_thread. destruct (N.eqb_spec th th'); [subst; exact Ht|now left].
Qed.

Lemma frM_set_thread_tr s X th t : frM s X -> lk t = lk (get_thread s th) \/ lk_plain (lk t) -> frM s (set_thread th t X).
Proof.
  intros [A1 A2 A3 A4 A5 A6] Ht. constructor; auto.
  intros th'. rewrite get_thread_set_thread. destruct (N.eqb_spec th th'); [subst; exact Ht|apply A6].
Qed.

Lemma frM_fold_upd_inst (f : inst -> inst) l :
  (forall x, nm (f x) = nm x /\ cf (f x) = cf x /\ d_added (f x) = d_added x /\ pc (f x) = pc x) ->
  forall s, frM s (fold_left (fun s i => upd_inst i f s) l s).
Proof.
  intros Hf. induction l as [|a l IH]; intros s; cbn; [apply frM_refl|].
  eapply frM_trans; [apply (frM_upd_inst a f s Hf)|apply IH].
Qed.

Ltac kind_cases H :=
  unfold_steps H; unfold own_inst in H; cbn [fst snd] in H; break_step H;
  repeat match goal with E : (match _ with _ => _ end) = Some _ |- _ => break_step E end;
  repeat match goal with E : _ = ?s' |- _ => is_var s'; subst s' end.

Ltac frM_close :=
  unfold set_pc, end_release_early, end_finish, write_status;
  repeat first
  [ apply frM_refl
  | match goal with
    | |- frM ?s (upd_inst ?i ?f ?X) =>
        apply (frM_trans s X); [|apply frM_upd_inst; intros; cbn; repeat split; try reflexivity; destruct_matches; reflexivity]
    | |- frM ?s (upd_vis ?n ?f ?X) =>
        apply (frM_trans s X); [|apply frM_upd_vis]
    | |- frM ?s (fold_left (fun s i => upd_inst i ?f s) ?l ?X) =>
        apply (frM_trans s X); [|apply frM_fold_upd_inst; intros; cbn; repeat split; reflexivity]
    | |- frM ?s (set_thread ?th ?t ?X) =>
        apply frM_set_thread_tr; [|cbn; auto]
    | |- frM ?s (RecordSet.set _ _ ?X) =>
        apply (frM_trans s X); [|apply frM_eq; reflexivity]
    | |- frM ?s (if ?b then _ else _) => destruct b
    | |- frM ?s (match ?b with _ => _ end) => destruct b
    end ].

Lemma step_api_frM s th e s' : step_api s th e = Some s' -> frM s s'.
Proof. intros H. destruct e; kind_cases H; frM_close. Qed.
Lemma step_stop_frM s th e s' : step_stop s th e = Some s' -> frM s s'.
Proof. intros H. destruct e; kind_cases H; frM_close. Qed.
Lemma step_shutdown_frM s th e s' : step_shutdown s th e = Some s' -> frM s s'.
Proof. intros H. destruct e; kind_cases H; frM_close. Qed.
Lemma step_env_frM s th e s' : step_env s th e = Some s' -> frM s s'.
Proof. intros H. destruct e; kind_cases H; frM_close. Qed.
Lemma step_ordered_frM s th i s' : step_ordered_go s th i = Some s' -> frM s s'.
Proof. intros H. kind_cases H; frM_close. Qed.

Lemma get_thread_upd_inst i f s th : get_thread (upd_inst i f s) th = get_thread s th.
Proof. unfold get_thread. now rewrite upd_inst_threads. Qed.
Lemma get_thread_upd_vis n f s th : get_thread (upd_vis n f s) th = get_thread s th.
Proof. unfold get_thread. now rewrite upd_vis_threads. Qed.
#[export] Hint Rewrite get_thread_upd_inst get_thread_upd_vis : sup.

(* ---- the instance goroutine's own events ------------------------------------------------------------------- *)
Definition own_trans (s : sys) (th : tid) (e : event) (x x' : inst) : Prop :=
  match e with
  | EDepWait k found => exists todo c, pc x = IDeps todo /\ dep_cond (cf x) k = Some c /\
        thread_lookup (get_thread s th) k = Some found /\
        pc x' = match found with None => IDeps (removeN k todo) | Some j => IBlocked k c j (removeN k todo) end
  | EDepDone k ok => exists c j todo y, pc x = IBlocked k c j todo /\ get j (insts s) = Some y /\ latch_released c y = true /\
        ok = wait_result s c y /\ pc x' = (if ok then IDeps todo else ISkipDecided)
  | _ => pc_ok x x' /\ (e = ELaunch true -> pc x = IStateSet)
  end.

Lemma opt_opt_eqb_eq (a b : option (option N)) : opt_eqb (opt_eqb N.eqb) a b = true -> a = b.
Proof.
  destruct a as [a|], b as [b|]; cbn; try discriminate; auto. intros H. apply opt_eqb_N_eq in H. now subst.
Qed.

Ltac pc_ok_tac :=
  first [ left; cbn; congruence
        | right; cbn;
          repeat match goal with H : pc _ = _ |- _ => rewrite H end; cbn;
          repeat split; intros; try discriminate; auto ].

Lemma step_own_eff s th e s' : step_own s th e = Some s' ->
  exists i x x', get th (thinst s) = Some i /\ get i (insts s) = Some x /\ get i (insts s') = Some x' /\
    nm x' = nm x /\ cf x' = cf x /\ d_added x' = d_added x /\ own_trans s th e x x' /\
    (forall j, j <> i -> get j (insts s') = get j (insts s)) /\
    confs s' = confs s /\ thinst s' = thinst s /\ running s' = running s /\ donereg s' = donereg s /\
    (forall th', lk (get_thread s' th') = lk (get_thread s th') \/ lk_plain (lk (get_thread s' th'))).
Proof.
  intros H. destruct e; kind_cases H; split_andb;
  repeat match goal with b : bool |- _ => destruct b end;
  match goal with
  | Ei : get th (thinst ?s) = Some ?i, Ex : get ?i (insts ?s) = Some ?x |- _ =>
      exists i, x; eexists; unfold set_pc; autorewrite with sup; rewrite ?N.eqb_refl, ?Ex; cbn [option_map];
      (split; [reflexivity|]); (split; [reflexivity|]); (split; [reflexivity|])
  end.
  all: cbn; repeat (split; [try reflexivity|]).
  all: try (intros jj Hjj; autorewrite with sup;
            match goal with |- context[N.eqb ?a jj] => destruct (N.eqb_spec a jj) end; [congruence|reflexivity]).
  all: try (intros th'; autorewrite with sup; try (destruct (N.eqb_spec th th'); [subst th'|]); cbn; now auto).
  all: try (intros Q; try discriminate Q; assumption).
  all: try (repeat match goal with |- context[if ?b then _ else _] => destruct b end; now pc_ok_tac).
  all: try (match goal with H : opt_eqb (opt_eqb N.eqb) _ _ = true |- _ => apply opt_opt_eqb_eq in H; symmetry in H end;
            do 2 eexists; repeat split; eauto).
  all: try (subst; do 4 eexists; repeat split; now eauto).
Qed.
