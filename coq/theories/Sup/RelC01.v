(* Simulation relation and proof for C01 (dependency gating).  See Props/C01.v for the statements. *)
From Coq Require Import List ZArith NArith Bool Lia.
From RecordUpdate Require Import RecordSet.
From PC.Base Require Import Assoc.
From PC.Sup Require Import Model Monitors Tactics Sim ObsFacts Effects RelCore LemC01 FrC01 FlC01.
Import ListNotations RecordSetNotations.

(* ---- latches of the model are backed by facts of the observer ------------------------------------------------ *)
Record Rl (s : sys) (o : obs) : Prop := mkRl {
  rl_inst : forall i x xo, get i (insts s) = Some x -> get i (oi o) = Some xo ->
      (l_done x = true -> o_ended xo = true) /\ (l_started x = true -> o_started xo = true) /\
      (l_runctx x = true -> o_stopreq xo = true \/ o_endst xo <> None) /\
      (l_logready x = Some true -> o_logok xo = true) /\
      (forall s1 c, pc x = IInEnd s1 c false -> o_endst xo <> None);
  rl_pend : forall th, pend_just o (pend (get_thread s th));
  rl_spend : forall th i, spc (get_thread s th) = SPendE i -> exists xo, get i (oi o) = Some xo /\ o_endst xo <> None;
  rl_ready : forall n v r, get n (viss s) = Some v -> get n (onm o) = Some r -> hl v = HReady -> r_ready r = true }.

Lemma endst_mono e j y y' : oinst_le e j y y' -> o_endst y <> None -> o_endst y' <> None.
Proof. intros (_ & _ & _ & _ & _ & _ & _ & [E|(s0 & _ & E)]) H; rewrite E; [exact H|discriminate]. Qed.

Lemma ole_inv e o o' j y' : ole e o o' -> get j (oi o') = Some y' -> exists y, get j (oi o) = Some y /\ oinst_le e j y y'.
Proof.
  intros OL H. destruct (get j (oi o)) as [y|] eqn:E.
  - destruct (ole_oi _ _ _ OL j y E) as (y2 & E2 & L). exists y. split; [reflexivity|congruence].
  - rewrite (ole_none _ _ _ OL j E) in H. discriminate.
Qed.

Lemma pend_just_mono e o o' p : ole e o o' -> pend_just o p -> pend_just o' p.
Proof.
  intros OL. destruct p as [[i|i|i| | |c]|]; cbn; auto; intros (xo & A & B);
  destruct (ole_oi _ _ _ OL i xo A) as (y' & E & L); exists y'; (split; [exact E|]).
  - destruct L as (_ & _ & _ & _ & _ & L & _). auto.
  - eapply endst_mono; eauto.
  - destruct L as (_ & _ & _ & _ & _ & _ & L & _). auto.
Qed.

Lemma Rl_frame e s s' o o' : Rl s o -> frL o' s s' -> ole e o o' -> Rl s' o'.
Proof.
  intros [L1 L2 L3 L4] F OL. constructor.
  - intros i x' xo' Hx' Hxo'.
    pose proof (fl_insts _ _ _ F i) as A. destruct (get i (insts s)) as [x|] eqn:Ex; [|congruence].
    destruct A as (x2 & E2 & _ & IL). assert (x2 = x') by congruence. subst x2.
    destruct (IL xo' Hxo') as (I1 & I2 & I3 & I4 & I5).
    destruct (ole_inv _ _ _ _ _ OL Hxo') as (xo & Exo & LE).
    destruct (L1 i x xo Ex Exo) as (K1 & K2 & K3 & K4 & K5).
    pose proof (endst_mono _ _ _ _ LE) as EM.
    destruct LE as (_ & _ & M1 & _ & M3 & M4 & M5 & M6).
    split; [|split; [|split; [|split]]].
    + intros Q. destruct (I1 Q); auto.
    + intros Q. destruct (I2 Q); auto.
    + intros Q. destruct (I3 Q) as [Q1|Q1]; [|exact Q1]. destruct (K3 Q1) as [|Q2]; [left; auto|right; auto].
    + intros Q. destruct (I4 Q); auto.
    + intros s1 c Q. destruct (I5 s1 c Q) as [(s2 & c2 & Q1)|Q1]; [|exact Q1]. apply EM. eapply K5; eauto.
  - intros th. destruct (fl_pend _ _ _ F th) as [E|E]; [rewrite E; eapply pend_just_mono; eauto|exact E].
  - intros th i Q. destruct (fl_spc _ _ _ F th i Q) as [E|E]; [|exact E].
    destruct (L3 th i E) as (xo & A & B). destruct (ole_oi _ _ _ OL i xo A) as (y' & E' & L).
    exists y'. split; [exact E'|eapply endst_mono; eauto].
  - intros n v' r' Hv' Hr' Hh. pose proof (fl_viss _ _ _ F n) as A. destruct (get n (viss s)) as [v|] eqn:Ev; [|congruence].
    destruct A as (v2 & E2 & HL). assert (v2 = v') by congruence. subst v2.
    destruct (HL Hh) as [Q|Q]; [|now apply Q].
    destruct (get n (onm o)) as [r|] eqn:Er.
    + destruct (ole_on _ _ _ OL n r Er) as (r2 & E3 & LR). assert (r2 = r') by congruence. subst r2.
      apply LR. eapply L4; eauto.
    + rewrite (ole_on_none _ _ _ OL n Er) in Hr'. discriminate.
Qed.

Lemma pend_just_set o o1 i y0 p : get i (oi o) = None -> oi o1 = set i y0 (oi o) -> pend_just o p -> pend_just o1 p.
Proof.
  intros Hn E1. destruct p as [[j|j|j| | |c]|]; cbn; auto; intros (xo & A & B); exists xo; rewrite E1, get_set;
  (destruct (N.eqb_spec i j); [congruence|auto]).
Qed.

Lemma Rl_new s o o1 i n c y0 : Rl s o -> get i (oi o) = None -> oi o1 = set i y0 (oi o) -> onm o1 = onm o ->
  Rl (s <| insts := set i (new_inst n c) (insts s) |>) o1.
Proof.
  intros [L1 L2 L3 L4] Hn E1 E2. constructor; cbn.
  - intros j x xo. rewrite E1, !get_set. destruct (N.eqb i j).
    + intros Q _. injection Q as <-. cbn. repeat split; intros; discriminate.
    + apply L1.
  - intros th. eapply pend_just_set; [exact Hn|exact E1|apply L2].
  - intros th j Q. destruct (L3 th j Q) as (xo & A & B). exists xo. rewrite E1, get_set.
    destruct (N.eqb_spec i j); [congruence|auto].
  - rewrite E2. apply L4.
Qed.

(* ---- the gate -------------------------------------------------------------------------------------------------- *)
Definition Gate (o : obs) (ix : nat) (k : name) (c : cond) : Prop :=
  (forall j yo, get j (oi o) = Some yo -> o_nm yo = k -> ~ o_idx yo < ix) \/
  (exists j yo, get j (oi o) = Some yo /\ o_nm yo = k /\ o_idx yo < ix /\ met o c yo = true).

Lemma on_get_ready_mono e o o' n : ole e o o' -> r_ready (on_get o n) = true -> r_ready (on_get o' n) = true.
Proof.
  intros OL. unfold on_get. destruct (get n (onm o)) as [r|] eqn:E; [|cbn; discriminate].
  destruct (ole_on _ _ _ OL n r E) as (r' & E' & L). rewrite E'. exact L.
Qed.

Lemma met_mono e o o' j c y y' : ole e o o' -> oinst_le e j y y' -> met o c y = true -> met o' c y' = true.
Proof.
  intros OL LE. pose proof (endst_mono _ _ _ _ LE) as EM.
  destruct LE as (Hn & _ & M1 & M2 & M3 & M4 & M5 & M6). destruct c; cbn; auto.
  - rewrite Hn. eapply on_get_ready_mono; eauto.
  - intros H. apply orb_true_iff in H. destruct H as [H|H]; [apply orb_true_iff in H; destruct H as [H|H]|].
    + rewrite (M4 H). reflexivity.
    + rewrite (M5 H). now rewrite orb_true_r.
    + destruct (o_endst y) eqn:E; [|discriminate]. destruct (o_endst y') eqn:E'; [now rewrite orb_true_r|].
      exfalso. apply EM; [discriminate|reflexivity].
Qed.

Lemma Gate_mono e o o' ix k c : ole e o o' -> Gate o ix k c -> Gate o' ix k c.
Proof.
  intros OL [G|(j & yo & A & B & C & D)].
  - left. intros j yo' H Hn. destruct (ole_inv _ _ _ _ _ OL H) as (yo & E & (L1 & L2 & _)).
    rewrite L2. eapply G; eauto. congruence.
  - right. destruct (ole_oi _ _ _ OL j yo A) as (yo' & E & L). exists j, yo'.
    pose proof L as (L1 & L2 & _). repeat split; try congruence. eapply met_mono; eauto.
Qed.

Lemma met_same o o1 c y : onm o1 = onm o -> met o1 c y = met o c y.
Proof. intros E. destruct c; cbn; auto. unfold on_get. now rewrite E. Qed.

Lemma Gate_set o o1 i y0 ix k c : get i (oi o) = None -> oi o1 = set i y0 (oi o) -> onm o1 = onm o ->
  ix <= o_idx y0 -> Gate o ix k c -> Gate o1 ix k c.
Proof.
  intros Hn E1 E2 Hix [G|(j & yo & A & B & C & D)].
  - left. intros j yo. rewrite E1, get_set. destruct (N.eqb i j); [intros Q; injection Q as <-; lia|apply G].
  - right. exists j, yo. rewrite E1, get_set. destruct (N.eqb_spec i j); [congruence|].
    repeat split; auto. now rewrite (met_same _ _ _ _ E2).
Qed.

Record Rg (s : sys) (o : obs) : Prop := mkRg {
  rg_gate : forall i x xo l, get i (insts s) = Some x -> get i (oi o) = Some xo -> remaining (pc x) = Some l ->
            forall k c, In (k, c) (deps (cf x)) -> ~ In k l -> Gate o (o_idx xo) k c;
  rg_blocked : forall i x xo k c j todo, get i (insts s) = Some x -> get i (oi o) = Some xo -> pc x = IBlocked k c j todo ->
            (exists yo, get j (oi o) = Some yo /\ o_nm yo = k /\ o_idx yo < o_idx xo) \/
            (forall j' yo, get j' (oi o) = Some yo -> o_nm yo = k -> ~ o_idx yo < o_idx xo) }.

(* transport of the two clauses of one instance along the observer *)
Lemma blocked_mono e o o' j k ix :
  ole e o o' ->
  (exists yo, get j (oi o) = Some yo /\ o_nm yo = k /\ o_idx yo < ix) \/
  (forall j' yo, get j' (oi o) = Some yo -> o_nm yo = k -> ~ o_idx yo < ix) ->
  (exists yo, get j (oi o') = Some yo /\ o_nm yo = k /\ o_idx yo < ix) \/
  (forall j' yo, get j' (oi o') = Some yo -> o_nm yo = k -> ~ o_idx yo < ix).
Proof.
  intros OL [(yo & A & B & C)|G].
  - left. destruct (ole_oi _ _ _ OL j yo A) as (yo' & E & (L1 & L2 & _)). exists yo'. repeat split; congruence.
  - right. intros j' yo' H Hn. destruct (ole_inv _ _ _ _ _ OL H) as (yo & E & (L1 & L2 & _)).
    rewrite L2. eapply G; eauto. congruence.
Qed.

(* generic update of Rg: all instances except i keep their program counter class *)
Lemma Rg_upd e s s' o o' i : Rg s o -> ole e o o' ->
  (forall j, j <> i -> match get j (insts s) with
                        | Some x => exists x', get j (insts s') = Some x' /\ cf x' = cf x /\ pc_ok x x'
                        | None => get j (insts s') = None end) ->
  (forall x' xo' l, get i (insts s') = Some x' -> get i (oi o') = Some xo' -> remaining (pc x') = Some l ->
      forall k c, In (k, c) (deps (cf x')) -> ~ In k l -> Gate o' (o_idx xo') k c) ->
  (forall x' xo' k c j todo, get i (insts s') = Some x' -> get i (oi o') = Some xo' -> pc x' = IBlocked k c j todo ->
      (exists yo, get j (oi o') = Some yo /\ o_nm yo = k /\ o_idx yo < o_idx xo') \/
      (forall j' yo, get j' (oi o') = Some yo -> o_nm yo = k -> ~ o_idx yo < o_idx xo')) ->
  Rg s' o'.
Proof.
  intros [G1 G2] OL Ho H1 H2. constructor.
  - intros j x' xo' l Hx' Hxo' Hr k c Hin Hnl. destruct (N.eqb_spec j i); [subst; eapply H1; eauto|].
    specialize (Ho j n). destruct (get j (insts s)) as [x|] eqn:Ex; [|congruence].
    destruct Ho as (x2 & E2 & Hc & Hp). assert (x2 = x') by congruence. subst x2.
    destruct (ole_inv _ _ _ _ _ OL Hxo') as (xo & Exo & LE). pose proof LE as (_ & Li & _). rewrite Li.
    eapply Gate_mono; [exact OL|]. rewrite Hc in Hin. destruct Hp as [Hp|(P1 & P2 & _)].
    + rewrite Hp in Hr. eapply G1; eauto.
    + assert (l = []) by (eapply plain_remaining; eauto). subst l. eapply (G1 j x xo []); eauto.
  - intros j x' xo' k c j0 todo Hx' Hxo' Hp. destruct (N.eqb_spec j i); [subst; eapply H2; eauto|].
    specialize (Ho j n). destruct (get j (insts s)) as [x|] eqn:Ex; [|congruence].
    destruct Ho as (x2 & E2 & Hc & Hq). assert (x2 = x') by congruence. subst x2.
    destruct (ole_inv _ _ _ _ _ OL Hxo') as (xo & Exo & LE). pose proof LE as (_ & Li & _). rewrite Li.
    destruct Hq as [Hq|(P1 & _)]; [|rewrite Hp in P1; discriminate].
    rewrite Hq in Hp. eapply blocked_mono; [exact OL|]. eapply G2; eauto.
Qed.

Lemma Rg_frame e s s' o o' : Rg s o -> frM s s' -> ole e o o' -> Rg s' o'.
Proof.
  intros G F OL. pose proof G as [G1 G2].
  assert (Ho : forall j, match get j (insts s) with
                        | Some x => exists x', get j (insts s') = Some x' /\ cf x' = cf x /\ pc_ok x x'
                        | None => get j (insts s') = None end).
  { intros j. pose proof (fm_insts _ _ F j) as A. destruct (get j (insts s)) as [x|]; [|exact A].
    destruct A as (x' & ? & ? & ? & ? & ?). eauto. }
  constructor.
  - intros j x' xo' l Hx' Hxo' Hr k c Hin Hnl.
    specialize (Ho j). destruct (get j (insts s)) as [x|] eqn:Ex; [|congruence].
    destruct Ho as (x2 & E2 & Hc & Hp). assert (x2 = x') by congruence. subst x2.
    destruct (ole_inv _ _ _ _ _ OL Hxo') as (xo & Exo & LE). pose proof LE as (_ & Li & _). rewrite Li.
    eapply Gate_mono; [exact OL|]. rewrite Hc in Hin. destruct Hp as [Hp|(P1 & P2 & _)].
    + rewrite Hp in Hr. eapply G1; eauto.
    + assert (l = []) by (eapply plain_remaining; eauto). subst l. eapply (G1 j x xo []); eauto.
  - intros j x' xo' k c j0 todo Hx' Hxo' Hp.
    specialize (Ho j). destruct (get j (insts s)) as [x|] eqn:Ex; [|congruence].
    destruct Ho as (x2 & E2 & Hc & Hq). assert (x2 = x') by congruence. subst x2.
    destruct (ole_inv _ _ _ _ _ OL Hxo') as (xo & Exo & LE). pose proof LE as (_ & Li & _). rewrite Li.
    destruct Hq as [Hq|(P1 & _)]; [|rewrite Hp in P1; discriminate].
    rewrite Hq in Hp. eapply blocked_mono; [exact OL|]. eapply G2; eauto.
Qed.

Lemma Rg_new s o o1 i n c y0 : Rg s o -> Oinv o -> get i (oi o) = None -> oi o1 = set i y0 (oi o) -> onm o1 = onm o ->
  o_idx y0 = o_cnt o ->
  Rg (s <| insts := set i (new_inst n c) (insts s) |>) o1.
Proof.
  intros [G1 G2] [_ OI] Hn E1 E2 Hy. constructor; cbn.
  - intros j x xo l. rewrite E1, !get_set. destruct (N.eqb i j).
    + intros Q _. injection Q as <-. cbn. intros Q. injection Q as <-. intros k c0 Hin Hnl. exfalso. apply Hnl.
      change k with (fst (k, c0)). now apply in_map.
    + intros Hx Hxo Hr k c0 Hin Hnl. eapply Gate_set; eauto. specialize (OI j xo Hxo). lia.
  - intros j x xo k c0 j0 todo. rewrite E1, !get_set. destruct (N.eqb i j).
    + intros Q _. injection Q as <-. cbn. discriminate.
    + intros Hx Hxo Hp. specialize (OI j xo Hxo). destruct (G2 _ _ _ _ _ _ _ Hx Hxo Hp) as [(yo & A & B & C)|G].
      * left. exists yo. destruct (N.eqb_spec i j0); [congruence|auto].
      * right. intros j' yo. rewrite get_set. destruct (N.eqb i j'); [intros Q; injection Q as <-; lia|apply G].
Qed.
