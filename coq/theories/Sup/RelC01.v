(* Simulation relation and proof for C01 (dependency gating).  See Props/C01.v for the statements. *)
From Coq Require Import List ZArith NArith Bool Lia.
From RecordUpdate Require Import RecordSet.
From PC.Base Require Import Assoc.
From PC.Sup Require Import Model Monitors Tactics Sim ObsFacts Effects RelCore LemC01 FrC01 FlC01.
Import ListNotations RecordSetNotations.

(* ---- latches of the model are backed by facts of the observer ------------------------------------------------ *)
Record Rl (s : sys) (o : obs) : Prop := mkRl {
  rl_inst : forall i x xo, get i (insts s) = Some x -> get i (oi o) = Some xo ->
      (l_done x = true -> o_ended xo = true) /\ (l_started x = true -> o_started xo = true) /\
      (l_runctx x = true -> o_stopreq xo = true \/ o_endst xo <> None) /\
      (l_logready x = Some true -> o_logok xo = true) /\
      (forall s1 c, pc x = IInEnd s1 c false -> o_endst xo <> None);
  rl_pend : forall th, pend_just o (pend (get_thread s th));
  rl_spend : forall th i, spc (get_thread s th) = SPendE i -> exists xo, get i (oi o) = Some xo /\ o_endst xo <> None;
  rl_ready : forall n v r, get n (viss s) = Some v -> get n (onm o) = Some r -> hl v = HReady -> r_ready r = true }.

Lemma endst_mono e c j y y' : oinst_le e c j y y' -> o_endst y <> None -> o_endst y' <> None.
Proof. intros (_ & _ & _ & _ & _ & _ & _ & _ & _ & [E|(s0 & _ & E)] & _) H; rewrite E; [exact H|discriminate]. Qed.

Lemma pend_just_mono e c0 o o' p : ole e c0 o o' -> pend_just o p -> pend_just o' p.
Proof.
  intros OL. destruct p as [[i|i|i| | |c]|]; cbn; auto; intros (xo & A & B);
  destruct (ole_oi _ _ _ _ OL i xo A) as (y' & E & L); exists y'; (split; [exact E|]).
  - destruct L as (_ & _ & _ & _ & _ & _ & _ & L & _). auto.
  - eapply endst_mono; eauto.
  - destruct L as (_ & _ & _ & _ & _ & _ & _ & _ & L & _). auto.
Qed.

Lemma Rl_frame e c0 s s' o o' : Rl s o -> frL o' s s' -> ole e c0 o o' -> Rl s' o'.
Proof.
  intros [L1 L2 L3 L4] F OL. constructor.
  - intros i x' xo' Hx' Hxo'.
    pose proof (fl_insts _ _ _ F i) as A. destruct (get i (insts s)) as [x|] eqn:Ex; [|congruence].
    destruct A as (x2 & E2 & _ & IL). assert (x2 = x') by congruence. subst x2.
    destruct (IL xo' Hxo') as (I1 & I2 & I3 & I4 & I5).
    destruct (ole_inv _ _ _ _ _ _ OL Hxo') as (xo & Exo & LE).
    destruct (L1 i x xo Ex Exo) as (K1 & K2 & K3 & K4 & K5).
    pose proof (endst_mono _ _ _ _ _ LE) as EM.
    destruct LE as (_ & _ & _ & _ & M1 & _ & M3 & M4 & M5 & M6 & _).
    split; [|split; [|split; [|split]]].
    + intros Q. destruct (I1 Q); auto.
    + intros Q. destruct (I2 Q); auto.
    + intros Q. destruct (I3 Q) as [Q1|Q1]; [|exact Q1]. destruct (K3 Q1) as [|Q2]; [left; auto|right; auto].
    + intros Q. destruct (I4 Q); auto.
    + intros s1 c Q. destruct (I5 s1 c Q) as [(s2 & c2 & Q1)|Q1]; [|exact Q1]. apply EM. eapply K5; eauto.
  - intros th. destruct (fl_pend _ _ _ F th) as [E|E]; [rewrite E; eapply pend_just_mono; eauto|exact E].
  - intros th i Q. destruct (fl_spc _ _ _ F th i Q) as [E|E]; [|exact E].
    destruct (L3 th i E) as (xo & A & B). destruct (ole_oi _ _ _ _ OL i xo A) as (y' & E' & L).
    exists y'. split; [exact E'|eapply endst_mono; eauto].
  - intros n v' r' Hv' Hr' Hh. pose proof (fl_viss _ _ _ F n) as A. destruct (get n (viss s)) as [v|] eqn:Ev; [|congruence].
    destruct A as (v2 & E2 & HL). assert (v2 = v') by congruence. subst v2.
    destruct (HL Hh) as [Q|Q]; [|now apply Q].
    destruct (get n (onm o)) as [r|] eqn:Er.
    + destruct (ole_on _ _ _ _ OL n r Er) as (r2 & E3 & LR). assert (r2 = r') by congruence. subst r2.
      apply LR. eapply L4; eauto.
    + rewrite (ole_on_none _ _ _ _ OL n Er) in Hr'. discriminate.
Qed.

Lemma pend_just_set o o1 i y0 p : get i (oi o) = None -> oi o1 = set i y0 (oi o) -> pend_just o p -> pend_just o1 p.
Proof.
  intros Hn E1. destruct p as [[j|j|j| | |c]|]; cbn; auto; intros (xo & A & B); exists xo; rewrite E1, get_set;
  (destruct (N.eqb_spec i j); [congruence|auto]).
Qed.

Lemma Rl_new s o o1 i n c y0 : Rl s o -> get i (oi o) = None -> oi o1 = set i y0 (oi o) -> onm o1 = onm o ->
  Rl (s <| insts := set i (new_inst n c) (insts s) |>) o1.
Proof.
  intros [L1 L2 L3 L4] Hn E1 E2. constructor; cbn.
  - intros j x xo. rewrite E1, !get_set. destruct (N.eqb i j).
    + intros Q _. injection Q as <-. cbn. repeat split; intros; discriminate.
    + apply L1.
  - intros th. eapply pend_just_set; [exact Hn|exact E1|apply L2].
  - intros th j Q. destruct (L3 th j Q) as (xo & A & B). exists xo. rewrite E1, get_set.
    destruct (N.eqb_spec i j); [congruence|auto].
  - rewrite E2. apply L4.
Qed.

(* ---- the gate -------------------------------------------------------------------------------------------------- *)
(* a registered instance of k whose registration index is below b *)
Definition olderR (o : obs) (k : name) (b : nat) : Prop :=
  exists j yo, get j (oi o) = Some yo /\ o_reg yo = true /\ o_nm yo = k /\ o_idx yo < b.

Definition GateN (o : obs) (k : name) (c : cond) (b : nat) : Prop :=
  ~ olderR o k b \/
  exists j yo, get j (oi o) = Some yo /\ o_reg yo = true /\ o_nm yo = k /\ o_idx yo < b /\ met o c yo = true.

Definition GateW (o : obs) (k : name) (c : cond) (w : name * option iid * nat) : Prop :=
  match w with
  | (_, Some j, _) => exists yo, get j (oi o) = Some yo /\ o_nm yo = k /\ met o c yo = true
  | (_, None, b) => GateN o k c b
  end.

(* what mon_C01 checks for dependency (k, c) of the instance with observer record xo *)
Definition Gate (o : obs) (xo : oinst) (k : name) (c : cond) : Prop :=
  exists w, wait_of xo k = Some w /\ GateW o k c w.

Lemma on_get_ready_mono e c o o' n : ole e c o o' -> r_ready (on_get o n) = true -> r_ready (on_get o' n) = true.
Proof.
  intros OL. unfold on_get. destruct (get n (onm o)) as [r|] eqn:E; [|cbn; discriminate].
  destruct (ole_on _ _ _ _ OL n r E) as (r' & E' & L). rewrite E'. exact L.
Qed.

Lemma met_mono e c0 o o' j c y y' : ole e c0 o o' -> oinst_le e c0 j y y' -> met o c y = true -> met o' c y' = true.
Proof.
  intros OL LE. pose proof (endst_mono _ _ _ _ _ LE) as EM.
  destruct LE as (Hn & _ & _ & _ & M1 & M2 & M3 & M4 & M5 & M6 & _). destruct c; cbn; auto.
  - rewrite Hn. eapply on_get_ready_mono; eauto.
  - intros H. apply orb_true_iff in H. destruct H as [H|H]; [apply orb_true_iff in H; destruct H as [H|H]|].
    + rewrite (M4 H). reflexivity.
    + rewrite (M5 H). now rewrite orb_true_r.
    + destruct (o_endst y) eqn:E; [|discriminate]. destruct (o_endst y') eqn:E'; [now rewrite orb_true_r|].
      exfalso. apply EM; [discriminate|reflexivity].
Qed.

Lemma olderR_inv e o o' k b : ole e (o_cnt o) o o' -> b <= o_cnt o -> olderR o' k b -> olderR o k b.
Proof.
  intros OL Hb (j & yo' & A & B & C & D). destruct (ole_inv _ _ _ _ _ _ OL A) as (yo & E & L).
  destruct L as (L1 & L2 & L3 & _). destruct (L3 B) as [Q|[Q _]]; [|lia].
  destruct (L2 Q) as [_ Li]. exists j, yo. repeat split; auto; congruence.
Qed.

Lemma GateN_mono e o o' k c b : ole e (o_cnt o) o o' -> b <= o_cnt o -> GateN o k c b -> GateN o' k c b.
Proof.
  intros OL Hb [G|(j & yo & A & B & C & D & E)].
  - left. intros Q. apply G. eapply olderR_inv; eauto.
  - right. destruct (ole_oi _ _ _ _ OL j yo A) as (yo' & E' & L). exists j, yo'.
    pose proof L as (L1 & L2 & _). destruct (L2 B) as [Q1 Q2]. repeat split; try congruence. eapply met_mono; eauto.
Qed.

Lemma wait_of_app xo l k w : wait_of xo k = Some w -> find (fun w => N.eqb (fst (fst w)) k) (o_waits xo ++ l) = Some w.
Proof.
  unfold wait_of. generalize (o_waits xo). intros l0. induction l0 as [|a r IH]; cbn; [discriminate|].
  destruct (_ =? _)%N; [auto|exact IH].
Qed.

Lemma wait_of_app_none xo l k : wait_of xo k = None ->
  find (fun w => N.eqb (fst (fst w)) k) (o_waits xo ++ l) = find (fun w => N.eqb (fst (fst w)) k) l.
Proof.
  unfold wait_of. generalize (o_waits xo). intros l0. induction l0 as [|a r IH]; cbn; [reflexivity|].
  destruct (_ =? _)%N; [discriminate|exact IH].
Qed.

Lemma wait_of_in xo k w : wait_of xo k = Some w -> In w (o_waits xo).
Proof. unfold wait_of. intros H. apply find_some in H. apply H. Qed.

Lemma Gate_mono e o o' xo xo' j k c : Oinv o -> ole e (o_cnt o) o o' -> get j (oi o) = Some xo ->
  oinst_le e (o_cnt o) j xo xo' -> Gate o xo k c -> Gate o' xo' k c.
Proof.
  intros HO OL Hxo LE (w & Hw & G). exists w. split.
  - destruct LE as (_ & _ & _ & _ & _ & _ & _ & _ & _ & _ & (l & El & _)). unfold wait_of. rewrite El. now apply wait_of_app.
  - destruct w as [[k0 [j0|]] b]; cbn in *.
    + destruct G as (yo & A & B & C). destruct (ole_oi _ _ _ _ OL j0 yo A) as (yo' & E' & L).
      exists yo'. pose proof L as (L1 & _). repeat split; try congruence. eapply met_mono; eauto.
    + eapply GateN_mono; eauto. apply (oi_wb _ HO j xo _ Hxo (wait_of_in _ _ _ Hw)).
Qed.

Lemma met_same o o1 c y : onm o1 = onm o -> met o1 c y = met o c y.
Proof. intros E. destruct c; cbn; auto. unfold on_get. now rewrite E. Qed.

(* adding a fresh, unregistered instance *)
Lemma olderR_set o o1 i y0 k b : oi o1 = set i y0 (oi o) -> o_reg y0 = false -> olderR o1 k b -> olderR o k b.
Proof.
  intros E1 Hr (j & yo & A & B & C & D). rewrite E1, get_set in A. destruct (N.eqb i j); [injection A as <-; congruence|].
  exists j, yo. auto.
Qed.

Lemma Gate_set o o1 i y0 xo k c : get i (oi o) = None -> oi o1 = set i y0 (oi o) -> onm o1 = onm o -> o_reg y0 = false ->
  Gate o xo k c -> Gate o1 xo k c.
Proof.
  intros Hn E1 E2 Hr (w & Hw & G). exists w. split; [exact Hw|]. destruct w as [[k0 [j0|]] b]; cbn in *.
  - destruct G as (yo & A & B & C). exists yo. rewrite E1, get_set. destruct (N.eqb_spec i j0); [congruence|].
    repeat split; auto. now rewrite (met_same _ _ _ _ E2).
  - destruct G as [G|(j & yo & A & B & C & D & E)].
    + left. intros Q. apply G. eapply olderR_set; eauto.
    + right. exists j, yo. rewrite E1, get_set. destruct (N.eqb_spec i j); [congruence|].
      repeat split; auto. now rewrite (met_same _ _ _ _ E2).
Qed.

Record Rg (s : sys) (o : obs) : Prop := mkRg {
  (* every dependency that is no longer in the todo list satisfies the monitor's check *)
  rg_gate : forall i x xo l, get i (insts s) = Some x -> get i (oi o) = Some xo -> remaining (pc x) = Some l ->
            forall k c, In (k, c) (deps (cf x)) -> ~ In k l -> Gate o xo k c;
  (* the observer has no record yet for the names still to be looked up ... *)
  rg_todo : forall i x xo todo, get i (insts s) = Some x -> get i (oi o) = Some xo ->
            (pc x = IDeps todo \/ exists k c j, pc x = IBlocked k c j todo) ->
            forall k, In k todo -> wait_of xo k = None;
  (* ... and records the instance a blocked goroutine waits on *)
  rg_blocked : forall i x xo k c j todo, get i (insts s) = Some x -> get i (oi o) = Some xo -> pc x = IBlocked k c j todo ->
            exists k0 b, wait_of xo k = Some (k0, Some j, b) }.

(* generic update of Rg: the observer's wait records of all instances except i are untouched, and all instances
   except i keep their program counter class *)
Lemma Rg_upd e s s' o o' i : Rg s o -> Oinv o -> ole e (o_cnt o) o o' ->
  (forall j, j <> i -> match get j (insts s) with
                        | Some x => exists x', get j (insts s') = Some x' /\ cf x' = cf x /\ pc_ok x x'
                        | None => get j (insts s') = None end) ->
  (forall j y y', j <> i -> get j (oi o) = Some y -> get j (oi o') = Some y' -> o_waits y' = o_waits y) ->
  (forall x' xo' l, get i (insts s') = Some x' -> get i (oi o') = Some xo' -> remaining (pc x') = Some l ->
      forall k c, In (k, c) (deps (cf x')) -> ~ In k l -> Gate o' xo' k c) ->
  (forall x' xo' todo, get i (insts s') = Some x' -> get i (oi o') = Some xo' ->
      (pc x' = IDeps todo \/ exists k c j, pc x' = IBlocked k c j todo) -> forall k, In k todo -> wait_of xo' k = None) ->
  (forall x' xo' k c j todo, get i (insts s') = Some x' -> get i (oi o') = Some xo' -> pc x' = IBlocked k c j todo ->
      exists k0 b, wait_of xo' k = Some (k0, Some j, b)) ->
  Rg s' o'.
Proof.
  intros [G1 G2 G3] HO OL Ho Hw H1 H2 H3.
  assert (Hj : forall j x' xo', j <> i -> get j (insts s') = Some x' -> get j (oi o') = Some xo' ->
            exists x xo, get j (insts s) = Some x /\ get j (oi o) = Some xo /\ cf x' = cf x /\ pc_ok x x' /\
                         oinst_le e (o_cnt o) j xo xo' /\ o_waits xo' = o_waits xo).
  { intros j x' xo' n Hx' Hxo'. specialize (Ho j n). destruct (get j (insts s)) as [x|] eqn:Ex; [|congruence].
    destruct Ho as (x2 & E2 & Hc & Hp). assert (x2 = x') by congruence. subst x2.
    destruct (ole_inv _ _ _ _ _ _ OL Hxo') as (xo & Exo & LE). exists x, xo.
    split; [reflexivity|]. split; [exact Exo|]. split; [exact Hc|]. split; [exact Hp|]. split; [exact LE|]. eapply Hw; eauto. }
  constructor.
  - intros j x' xo' l Hx' Hxo' Hr k c Hin Hnl. destruct (N.eqb_spec j i); [subst; eapply H1; eauto|].
    destruct (Hj j x' xo' n Hx' Hxo') as (x & xo & Ex & Exo & Hc & Hp & LE & _).
    eapply Gate_mono; eauto. rewrite Hc in Hin. destruct Hp as [Hp|(P1 & P2 & _)].
    + rewrite Hp in Hr. eapply G1; eauto.
    + assert (l = []) by (eapply plain_remaining; eauto). subst l. eapply (G1 j x xo []); eauto.
  - intros j x' xo' todo Hx' Hxo' Hp k Hk. destruct (N.eqb_spec j i); [subst; eapply H2; eauto|].
    destruct (Hj j x' xo' n Hx' Hxo') as (x & xo & Ex & Exo & Hc & Hq & LE & Hwq).
    unfold wait_of. rewrite Hwq. destruct Hq as [Hq|(P1 & _)].
    + rewrite Hq in Hp. eapply G2; eauto.
    + exfalso. destruct Hp as [Hp|(k1 & c1 & j1 & Hp)]; rewrite Hp in P1; discriminate.
  - intros j x' xo' k c j0 todo Hx' Hxo' Hp. destruct (N.eqb_spec j i); [subst; eapply H3; eauto|].
    destruct (Hj j x' xo' n Hx' Hxo') as (x & xo & Ex & Exo & Hc & Hq & LE & Hwq).
    unfold wait_of. rewrite Hwq. destruct Hq as [Hq|(P1 & _)]; [|rewrite Hp in P1; discriminate].
    rewrite Hq in Hp. eapply G3; eauto.
Qed.

(* steps that are not a dep_wait: no wait record changes *)
Lemma waits_same e c o o' j y y' : ole e c o o' -> (forall k f, e <> EDepWait k f) ->
  get j (oi o) = Some y -> get j (oi o') = Some y' -> o_waits y' = o_waits y.
Proof.
  intros OL Hne Hy Hy'. destruct (ole_oi _ _ _ _ OL j y Hy) as (y2 & E & L). assert (y2 = y') by congruence. subst.
  destruct L as (_ & _ & _ & _ & _ & _ & _ & _ & _ & _ & (l & El & [->|(k & f & Q)])); [|exfalso; eapply Hne; eauto].
  now rewrite app_nil_r in El.
Qed.

Lemma Rg_insts e s s' o o' : Rg s o -> Oinv o -> ole e (o_cnt o) o o' -> (forall k f, e <> EDepWait k f) ->
  (forall j, match get j (insts s) with
             | Some x => exists x', get j (insts s') = Some x' /\ cf x' = cf x /\ pc_ok x x'
             | None => get j (insts s') = None end) -> Rg s' o'.
Proof.
  intros G HO OL Hne Ho. pose proof G as [G1 G2 G3].
  assert (Hj : forall j x' xo', get j (insts s') = Some x' -> get j (oi o') = Some xo' ->
            exists x xo, get j (insts s) = Some x /\ get j (oi o) = Some xo /\ cf x' = cf x /\ pc_ok x x' /\
                         oinst_le e (o_cnt o) j xo xo' /\ o_waits xo' = o_waits xo).
  { intros j x' xo' Hx' Hxo'. specialize (Ho j). destruct (get j (insts s)) as [x|] eqn:Ex; [|congruence].
    destruct Ho as (x2 & E2 & Hc & Hp). assert (x2 = x') by congruence. subst x2.
    destruct (ole_inv _ _ _ _ _ _ OL Hxo') as (xo & Exo & LE). exists x, xo.
    split; [reflexivity|]. split; [exact Exo|]. split; [exact Hc|]. split; [exact Hp|]. split; [exact LE|].
    eapply waits_same; eauto. }
  constructor.
  - intros j x' xo' l Hx' Hxo' Hr k c Hin Hnl.
    destruct (Hj j x' xo' Hx' Hxo') as (x & xo & Ex & Exo & Hc & Hp & LE & _).
    eapply Gate_mono; eauto. rewrite Hc in Hin. destruct Hp as [Hp|(P1 & P2 & _)].
    + rewrite Hp in Hr. eapply G1; eauto.
    + assert (l = []) by (eapply plain_remaining; eauto). subst l. eapply (G1 j x xo []); eauto.
  - intros j x' xo' todo Hx' Hxo' Hp k Hk.
    destruct (Hj j x' xo' Hx' Hxo') as (x & xo & Ex & Exo & Hc & Hq & LE & Hwq).
    unfold wait_of. rewrite Hwq. destruct Hq as [Hq|(P1 & _)].
    + rewrite Hq in Hp. eapply G2; eauto.
    + exfalso. destruct Hp as [Hp|(k1 & c1 & j1 & Hp)]; rewrite Hp in P1; discriminate.
  - intros j x' xo' k c j0 todo Hx' Hxo' Hp.
    destruct (Hj j x' xo' Hx' Hxo') as (x & xo & Ex & Exo & Hc & Hq & LE & Hwq).
    unfold wait_of. rewrite Hwq. destruct Hq as [Hq|(P1 & _)]; [|rewrite Hp in P1; discriminate].
    rewrite Hq in Hp. eapply G3; eauto.
Qed.

Lemma Rg_frame e s s' o o' : Rg s o -> Oinv o -> frM s s' -> ole e (o_cnt o) o o' -> (forall k f, e <> EDepWait k f) -> Rg s' o'.
Proof.
  intros G HO F OL Hne. eapply Rg_insts; eauto.
  intros j. pose proof (fm_insts _ _ F j) as A. destruct (get j (insts s)) as [x|]; [|exact A].
  destruct A as (x' & ? & ? & ? & ? & ?). eauto.
Qed.

Lemma Rg_new s o o1 i n c y0 : Rg s o -> get i (oi o) = None -> oi o1 = set i y0 (oi o) -> onm o1 = onm o ->
  o_reg y0 = false -> o_waits y0 = [] ->
  Rg (s <| insts := set i (new_inst n c) (insts s) |>) o1.
Proof.
  intros [G1 G2 G3] Hn E1 E2 Hr Hw. constructor; cbn.
  - intros j x xo l. rewrite E1, !get_set. destruct (N.eqb i j).
    + intros Q _. injection Q as <-. cbn. intros Q. injection Q as <-. intros k c0 Hin Hnl. exfalso. apply Hnl.
      change k with (fst (k, c0)). now apply in_map.
    + intros Hx Hxo Hq k c0 Hin Hnl. eapply Gate_set; eauto.
  - intros j x xo todo. rewrite E1, !get_set. destruct (N.eqb i j).
    + intros _ Q _ k _. injection Q as <-. unfold wait_of. now rewrite Hw.
    + apply G2.
  - intros j x xo k c0 j0 todo. rewrite E1, !get_set. destruct (N.eqb i j).
    + intros Q _. injection Q as <-. cbn. discriminate.
    + apply G3.
Qed.

(* ---- the registries and the lookup state machine ---------------------------------------------------------------- *)
Definition registered (s : sys) (k : name) : Prop := get k (running s) <> None \/ get k (donereg s) <> None.

(* what a thread knows from its lookups, in terms of the registration counter the observer recorded at its
   getRunningProcess miss *)
Definition lkf (s : sys) (o : obs) (th : tid) (l : lookup_st) : Prop :=
  match l with
  | LReg k None => exists b, get th (o_lk o) = Some (k, b) /\ (olderR o k b -> get k (donereg s) <> None)
  | LDone2 k None => exists b, get th (o_lk o) = Some (k, b) /\ ~ olderR o k b
  | _ => True
  end.

Record Rk (s : sys) (o : obs) : Prop := mkRk {
  (* every registered instance: its name is in the running registry or in the done registry *)
  rk_reg : forall j yo, get j (oi o) = Some yo -> o_reg yo = true -> registered s (o_nm yo);
  rk_lk : forall th, lkf s o th (lk (get_thread s th)) }.

Lemma lk_plain_fact s o th l : lk_plain l -> lkf s o th l.
Proof. destruct l as [|k [j|]|k|k [j|]|k [j|]]; cbn; tauto. Qed.

Lemma lkf_mono e s s' o o' th l : Oinv o -> ole e (o_cnt o) o o' ->
  get th (o_lk o') = get th (o_lk o) ->
  (forall k, get k (donereg s) <> None -> get k (donereg s') <> None) ->
  lkf s o th l -> lkf s' o' th l.
Proof.
  intros HO OL El Hd. destruct l as [|k [j|]|k|k [j|]|k [j|]]; cbn; auto; intros (b & A & B); exists b; rewrite El;
  (split; [exact A|]); pose proof (oi_lk _ HO th k b A) as Hb.
  - intros Q. apply Hd, B. eapply olderR_inv; eauto.
  - intros Q. apply B. eapply olderR_inv; eauto.
Qed.

Lemma Rk_gen e s s' o o' : Rk s o -> Oinv o -> ole e (o_cnt o) o o' ->
  (forall j yo', get j (oi o') = Some yo' -> o_reg yo' = true ->
      (exists yo, get j (oi o) = Some yo /\ o_reg yo = true) \/ registered s' (o_nm yo')) ->
  (forall k, registered s k -> registered s' k) ->
  (forall k, get k (donereg s) <> None -> get k (donereg s') <> None) ->
  (forall th, (lk (get_thread s' th) = lk (get_thread s th) /\ get th (o_lk o') = get th (o_lk o)) \/
              lkf s' o' th (lk (get_thread s' th))) ->
  Rk s' o'.
Proof.
  intros [K1 K2] HO OL Hnew Hr Hd Ht. constructor.
  - intros j yo' H Hreg. destruct (Hnew j yo' H Hreg) as [(yo & E & Q)|Q]; [|exact Q].
    destruct (ole_oi _ _ _ _ OL j yo E) as (y2 & E2 & (L1 & _)). assert (y2 = yo') by congruence. subst y2.
    rewrite L1. apply Hr. eapply K1; eauto.
  - intros th. destruct (Ht th) as [[Q1 Q2]|Q]; [|exact Q]. rewrite Q1. eapply lkf_mono; eauto.
Qed.

(* a step that is neither a registration nor a running-registry miss *)
Lemma reg_old e c o o' j yo' : ole e c o o' -> (forall i n, e <> ERegAdd i n) ->
  get j (oi o') = Some yo' -> o_reg yo' = true -> exists yo, get j (oi o) = Some yo /\ o_reg yo = true.
Proof.
  intros OL Hne H Hr. destruct (ole_inv _ _ _ _ _ _ OL H) as (yo & E & (_ & _ & L3 & _)).
  destruct (L3 Hr) as [Q|(_ & n & Q)]; [eauto|exfalso; eapply Hne; eauto].
Qed.

Lemma Rk_frame e s s' o o' : Rk s o -> Oinv o -> frM2 s s' -> ole e (o_cnt o) o o' ->
  (forall i n, e <> ERegAdd i n) -> (forall n, e <> ERegGet n None) -> Rk s' o'.
Proof.
  intros K HO F OL N1 N2. eapply Rk_gen; eauto.
  - intros j yo' H Hr. left. eapply reg_old; eauto.
  - intros k. unfold registered. now rewrite (f2_running _ _ F), (f2_donereg _ _ F).
  - intros k. now rewrite (f2_donereg _ _ F).
  - intros th. destruct (f2_lk _ _ F th) as [E|E]; [left; split; [exact E|]|right; now apply lk_plain_fact].
    now rewrite (ole_lk _ _ _ _ OL N2).
Qed.

Lemma Rk_new s o o1 i n c y0 : Rk s o -> oi o1 = set i y0 (oi o) -> o_reg y0 = false -> o_lk o1 = o_lk o ->
  Rk (s <| insts := set i (new_inst n c) (insts s) |>) o1.
Proof.
  intros [K1 K2] E1 Hr El. constructor; cbn.
  - intros j yo. rewrite E1, get_set. destruct (N.eqb i j); [intros Q; injection Q as <-; congruence|apply K1].
  - intros th. change (get_thread (s <| insts := set i (new_inst n c) (insts s) |>) th) with (get_thread s th).
    specialize (K2 th). destruct (lk (get_thread s th)) as [|k [j'|]|k|k [j'|]|k [j'|]]; cbn in *; auto;
    destruct K2 as (b & A & B); exists b; rewrite El; (split; [exact A|]).
    + intros Q. apply B. eapply olderR_set; eauto.
    + intros Q. apply B. eapply olderR_set; eauto.
Qed.

(* ---- well-formed configurations: dependency names are unique per process ---------------------------------------- *)
Fixpoint nodupN (l : list N) : bool :=
  match l with [] => true | a :: r => negb (memN a r) && nodupN r end.
Definition wf_confs (cs : amap pconf) : bool := forallb (fun p => nodupN (map fst (deps (snd p)))) cs.

Lemma dep_cond_unique ds k c c' :
  nodupN (map fst ds) = true -> In (k, c) ds ->
  match find (fun p : name * cond => N.eqb (fst p) k) ds with Some p => Some (snd p) | None => None end = Some c' -> c = c'.
Proof.
  induction ds as [|[k0 c0] r IH]; cbn; [intros _ []|].
  intros H Hin. apply andb_true_iff in H. destruct H as [H1 H2]. apply negb_true_iff in H1.
  destruct (N.eqb_spec k0 k).
  - subst k0. cbn. intros Q. injection Q as <-. destruct Hin as [Q|Q]; [congruence|].
    exfalso. assert (memN k (map fst r) = true) by (apply memN_In; change k with (fst (k, c)); now apply in_map). congruence.
  - destruct Hin as [Q|Q]; [congruence|]. now apply IH.
Qed.


(* the creation stages (Model.stage) are invisible to the three relations *)
Lemma Rl_stage s o f : Rl s o -> Rl (s <| stage := f |>) o.
Proof. intros [L1 L2 L3 L4]. constructor; auto. Qed.
Lemma Rg_stage s o f : Rg s o -> Rg (s <| stage := f |>) o.
Proof. intros [G1 G2 G3]. constructor; auto. Qed.
Lemma Rk_stage s o f : Rk s o -> Rk (s <| stage := f |>) o.
Proof. intros [K1 K2]. constructor; auto. Qed.

(* events after which the observer's registration data and wait records are as before *)
Definition plain_ev (e : event) : bool :=
  match e with ENewInst _ _ | ERegAdd _ _ | ERegGet _ None | EDepWait _ _ => false | _ => true end.
Definition NP (e : event) : Prop :=
  (forall i n, e <> ERegAdd i n) /\ (forall n, e <> ERegGet n None) /\ (forall k f, e <> EDepWait k f).

Section Main.
Context (cs : amap pconf).

Definition Rest (s : sys) (o : obs) (g : gst) : Prop := Rl s o /\ Rg s o /\ Rk s o.

Lemma rest_frame e s s' o o' g g' : Rest s o g -> Oinv o -> frL o' s s' -> frM s s' -> ole e (o_cnt o) o o' ->
  NP e -> Rest s' o' g'.
Proof.
  intros (L & G & K) HO FL FM OL (N1 & N2 & N3). split; [|split]; [eapply Rl_frame|eapply Rg_frame|eapply Rk_frame]; eauto using frM_frM2.
Qed.

Lemma rc_oi s o i x : Rc cs s o -> get i (insts s) = Some x ->
  exists xo, get i (oi o) = Some xo /\ o_nm xo = nm x /\ get (nm x) cs = Some (cf x).
Proof. intros HR Hx. destruct (rc_inst _ _ _ HR i x Hx) as (xo & A & B & C & _). eauto. Qed.

Lemma rc_on s o n c : Rc cs s o -> get n cs = Some c -> exists r, get n (onm o) = Some r.
Proof. intros HR Hn. destruct (rc_name _ _ _ HR n c Hn) as (v & r & _ & A & _). eauto. Qed.

(* ---- helper facts -------------------------------------------------------------------------------------------- *)
Lemma met_of_latch s o j y yo c : Rc cs s o -> Refreshed o -> Rl s o ->
  get j (insts s) = Some y -> get j (oi o) = Some yo ->
  latch_released c y = true -> wait_result s c y = true -> met o c yo = true.
Proof.
  intros HR HF L Hy Hyo Hl Hw. destruct (rl_inst _ _ L j y yo Hy Hyo) as (K1 & K2 & K3 & K4 & K5).
  destruct (rc_oi _ _ _ _ HR Hy) as (xo & A & B & C). assert (xo = yo) by congruence. subst xo.
  destruct (rc_name _ _ _ HR _ _ C) as (v & r & Ev & Er & Hc & _ & _).
  assert (Hv : vis_of s (nm y) = v) by (unfold vis_of; now rewrite Ev).
  assert (Hr : on_get o (o_nm yo) = r) by (unfold on_get; now rewrite B, Er).
  destruct c; cbn in *.
  - auto.
  - apply (HF j yo Hyo (K1 Hl)). rewrite Hr, Hc, <- Hv. exact Hw.
  - rewrite Hr. eapply (rl_ready _ _ L); eauto. rewrite Hv in Hw. now apply health_eqb_eq.
  - apply K4. destruct (l_logready y) as [[|]|]; try discriminate; reflexivity.
  - apply orb_true_iff in Hl. destruct Hl as [Q|Q].
    + rewrite (K2 Q). reflexivity.
    + destruct (K3 Q) as [Q1|Q1]; [rewrite Q1; now rewrite orb_true_r|].
      destruct (o_endst yo); [now rewrite orb_true_r|congruence].
Qed.

Lemma ended_after_state o th i s0 xo :
  get i (oi o) = Some xo -> o_endst xo <> None ->
  match o_endst xo with Some s1 => negb (status_eqb s1 s0) && negb (o_ended xo) | None => false end = false ->
  forall xo', get i (oi (obs_step cs o (th, EState i s0))) = Some xo' -> o_ended xo' = true.
Proof.
  intros Hxo Hne Hf xo' Hxo'. destruct (o_endst xo) as [s1|] eqn:E; [|congruence].
  apply andb_false_iff in Hf. destruct Hf as [Hf|Hf]; apply negb_false_iff in Hf.
  - apply status_eqb_eq in Hf. subst s1. destruct (gain_state cs o th i s0 xo Hxo E) as (y' & A & B). congruence.
  - assert (OL : ole (EState i s0) (o_cnt o) o (obs_step cs o (th, EState i s0))) by (apply obs_step_ole; intros; discriminate).
    destruct (ole_oi _ _ _ _ OL i xo Hxo) as (y' & A & (_ & _ & _ & _ & M1 & _)). assert (y' = xo') by congruence. subst. auto.
Qed.


Lemma in_reg_before o k b y : In y (reg_before o k b) <-> In y (vals (oi o)) /\ o_reg y = true /\ o_nm y = k /\ o_idx y < b.
Proof.
  unfold reg_before. rewrite filter_In, !andb_true_iff, N.eqb_eq, Nat.ltb_lt. tauto.
Qed.

Lemma some_met_of_GateN o k c b : Oinv o -> GateN o k c b -> some_met o c (reg_before o k b) = true.
Proof.
  intros HO [G|(j & yo & A & B & C & D & E)]; unfold some_met.
  - destruct (reg_before o k b) as [|y l] eqn:F; [reflexivity|]. exfalso. apply G.
    assert (Hy : In y (reg_before o k b)) by (rewrite F; now left). apply in_reg_before in Hy.
    destruct Hy as (Hy1 & Hy2 & Hy3 & Hy4). destruct (in_vals_get _ _ (oi_nodup _ HO) Hy1) as (j & Hj). exists j, y. auto.
  - assert (Hy : In yo (reg_before o k b)) by (apply in_reg_before; repeat split; auto; eapply get_in_vals; eauto).
    destruct (reg_before o k b) as [|y l] eqn:F; [reflexivity|]. apply existsb_exists. exists yo. split; [exact Hy|exact E].
Qed.

Lemma mon_C01_of_gate o th i xo : Oinv o -> get th (o_th o) = Some i -> get i (oi o) = Some xo ->
  (forall k c, In (k, c) (deps (conf_of cs (o_nm xo))) -> Gate o xo k c) ->
  mon_C01 cs o (th, ELaunch true) = true.
Proof.
  intros HO Ht Hx Hg. unfold mon_C01. cbn [fst snd ev_inst]. rewrite Ht.
  assert (Eg : oi_get o i = xo) by (unfold oi_get; now rewrite Hx). rewrite Eg.
  apply forallb_forall. intros [k c] Hin. cbn [fst snd].
  destruct (Hg k c Hin) as (w & Hw & G). rewrite Hw. destruct w as [[k0 [j|]] b]; cbn in G.
  - destruct G as (yo & A & B & C). unfold oi_get. rewrite A. apply andb_true_iff. split; [now apply N.eqb_eq|exact C].
  - now apply some_met_of_GateN.
Qed.

Lemma reg_insts_same s th e s' : step_reg s th e = Some s' -> (forall i n, e <> ENewInst i n) ->
  forall j, match get j (insts s) with
            | Some x => exists x', get j (insts s') = Some x' /\ cf x' = cf x /\ pc_ok x x'
            | None => get j (insts s') = None end.
Proof.
  intros H Hn. destruct e; try (exfalso; eapply Hn; reflexivity);
  try (kind_cases H; intros j; cbn; destruct (get j (insts s)); now eauto using pc_ok_refl).
  destruct (reg_doneadd _ _ _ _ H) as (x & Hx & ->). intros j. rewrite insts_upd_inst.
  change (insts (s <| donereg := set (nm x) i (donereg s) |>)) with (insts s).
  destruct (N.eqb_spec i j).
  - subst j. rewrite Hx. cbn. eexists; repeat split. now left.
  - destruct (get j (insts s)); eauto using pc_ok_refl.
Qed.


Lemma not_reg_ole o th e : plain_ev e = true -> ole e (o_cnt o) o (obs_step cs o (th, e)) /\ NP e.
Proof.
  intros H. split; [apply obs_step_ole; intros i n ->; discriminate H|].
  repeat split; intros; intros ->; discriminate H.
Qed.

Lemma api_not_reg s th e s' : step_api s th e = Some s' -> plain_ev e = true.
Proof. intros H. destruct e; try reflexivity; kind_cases H. Qed.
Lemma stop_not_reg s th e s' : step_stop s th e = Some s' -> plain_ev e = true.
Proof. intros H. destruct e; try reflexivity; kind_cases H. Qed.
Lemma shutdown_not_reg s th e s' : step_shutdown s th e = Some s' -> plain_ev e = true.
Proof. intros H. destruct e; try reflexivity; kind_cases H. Qed.
Lemma env_not_reg s th e s' : step_env s th e = Some s' -> plain_ev e = true.
Proof. intros H. destruct e; try reflexivity; kind_cases H. Qed.

(* the non-own kinds *)
Lemma core_step_other s o g th e s' :
  Rc cs s o -> Oinv o -> Minv s -> Rest s o g ->
  step_core s th e = Some s' -> gbad (g_step cs o g (th, e)) = false ->
  (step_own s th e = Some s' -> Rest s' (obs_step cs o (th, e)) (g_step cs o g (th, e))) ->
  Rest s' (obs_step cs o (th, e)) (g_step cs o g (th, e)).
Proof.
  intros HR HO M HRest H Hg Hnown. pose proof HRest as (L & G & K).
  destruct (step_core_kind _ _ _ _ H) as [? ?|i x ? Hx Hth Hthr Hfresh ? ?|Hk|Hk|Hk|i s0 ? Hk|i s0 b ? Hk|Hk|i ? Hk|Hk|Hk].
  - (* resume *) subst. destruct (not_reg_ole o th EResume eq_refl) as [OL Hp].
    eapply rest_frame; eauto using frL_refl, frM_refl.
  - (* begin *) subst. destruct (not_reg_ole o th (EBegin i) eq_refl) as [OL (N1 & N2 & N3)].
    split; [|split].
    + apply Rl_stage. eapply Rl_frame; [exact L|apply frL_eq; reflexivity|exact OL].
    + apply Rg_stage. eapply Rg_insts; [exact G|exact HO|exact OL|exact N3|]. intros j. cbn. destruct (get j (insts s)); eauto using pc_ok_refl.
    + apply Rk_stage. eapply Rk_gen; [exact K|exact HO|exact OL| | | |].
      * intros j yo' Hj Hr. left. eapply reg_old; eauto.
      * auto.
      * auto.
      * intros t. left. split; [reflexivity|]. now rewrite (ole_lk _ _ _ _ OL N2).
  - (* registry *)
    destruct e; try (cbn in Hk; discriminate Hk).
    + (* ENewInst *)
      destruct (reg_newinst _ _ _ _ _ Hk) as (c & Hc & Hi & ->).
      pose proof (rc_noinst _ _ _ HR i Hi) as Hoi.
      destruct (obs_step_new cs o th i n) as (o1 & OL1 & B1 & B2 & B3 & B4).
      assert (R1 : Rest (s <| insts := set i (new_inst n c) (insts s) |>) o1 g).
      { split; [|split].
        - eapply Rl_new; eauto.
        - eapply Rg_new; eauto.
        - eapply Rk_new; eauto. }
      assert (HO1 : Oinv o1).
      { destruct HO as [O1 O2 O3 O4]. constructor.
        - rewrite B1. now apply NoDup_keys_set.
        - intros j y. rewrite B1, B3, get_set. destruct (N.eqb i j); [intros Q; injection Q as <-; cbn; lia|].
          intros Q. specialize (O2 j y Q). lia.
        - intros j y w. rewrite B1, B3, get_set. destruct (N.eqb i j); [intros Q; injection Q as <-; intros []|].
          intros Q Hw. specialize (O3 j y w Q Hw). lia.
        - intros t k b. rewrite B4, B3. intros Q. specialize (O4 t k b Q). lia. }
      pose proof (OL1 (o_cnt o1)) as OL1'.
      destruct R1 as (L1 & G1 & K1). unfold set_stage. split; [|split].
      * apply Rl_stage. eapply Rl_frame; [exact L1|apply frL_refl|exact OL1'].
      * apply Rg_stage. eapply Rg_frame; [exact G1|exact HO1|apply frM_refl|exact OL1'|intros; discriminate].
      * apply Rk_stage. eapply Rk_frame; [exact K1|exact HO1|apply frM_frM2, frM_refl|exact OL1'|intros; discriminate|intros; discriminate].
    + (* ERegAdd *)
      assert (OL : ole (ERegAdd i n) (o_cnt o) o (obs_step cs o (th, ERegAdd i n))) by (apply obs_step_ole; intros; discriminate).
      split; [|split].
      * eapply Rl_frame; [exact L|eapply step_reg_frL; [exact Hk|intros; discriminate]|exact OL].
      * eapply Rg_insts; [exact G|exact HO|exact OL|intros; discriminate|eapply reg_insts_same; [exact Hk|intros; discriminate]].
      * destruct (reg_regadd _ _ _ _ _ Hk) as (x & Hx & Hn & ->). unfold set_stage. apply Rk_stage.
        eapply Rk_gen; [exact K|exact HO|exact OL| | | |].
        -- intros j yo' Hj Hr. destruct (ole_inv _ _ _ _ _ _ OL Hj) as (yo & E & (L1 & _ & L3 & _)).
           destruct (L3 Hr) as [Q|(_ & n0 & Q)]; [eauto|]. injection Q as <- <-. right. left. cbn.
           destruct (rc_oi _ _ _ _ HR Hx) as (xo & A & B & _). assert (xo = yo) by congruence. subst xo.
           rewrite L1, B, Hn, get_set_same. discriminate.
        -- intros k [Q|Q]; [left|right; exact Q]. cbn. rewrite get_set. destruct (N.eqb n k); [discriminate|exact Q].
        -- auto.
        -- intros t. left. split; [reflexivity|]. try (f_equal; apply (ole_lk _ _ _ _ OL); intros; discriminate).
    + (* ERegDel *)
      assert (OL : ole (ERegDel i) (o_cnt o) o (obs_step cs o (th, ERegDel i))) by (apply obs_step_ole; intros; discriminate).
      split; [|split].
      * eapply Rl_frame; [exact L|eapply step_reg_frL; [exact Hk|intros; discriminate]|exact OL].
      * eapply Rg_insts; [exact G|exact HO|exact OL|intros; discriminate|eapply reg_insts_same; [exact Hk|intros; discriminate]].
      * destruct (reg_regdel _ _ _ _ Hk) as (x & Hx & Hp & ->).
        eapply Rk_gen; [exact K|exact HO|exact OL| | | |].
        -- intros j yo' Hj Hr. left. eapply reg_old; eauto. intros; discriminate.
        -- intros k [Q|Q]; [|right; exact Q]. destruct (N.eqb_spec (nm x) k).
           ++ subst k. right. cbn. eapply (mi_added _ M); eauto. eapply (mi_late _ M); eauto. now rewrite Hp.
           ++ left. cbn. now rewrite get_del_other.
        -- auto.
        -- intros t. left. split; [reflexivity|]. try (f_equal; apply (ole_lk _ _ _ _ OL); intros; discriminate).
    + (* ERegGet *)
      assert (OL : ole (ERegGet n found) (o_cnt o) o (obs_step cs o (th, ERegGet n found))) by (apply obs_step_ole; intros; discriminate).
      split; [|split].
      * eapply Rl_frame; [exact L|eapply step_reg_frL; [exact Hk|intros; discriminate]|exact OL].
      * eapply Rg_insts; [exact G|exact HO|exact OL|intros; discriminate|eapply reg_insts_same; [exact Hk|intros; discriminate]].
      * destruct (reg_regget _ _ _ _ _ Hk) as (Hf & t' & -> & Hl).
        eapply Rk_gen; [exact K|exact HO|exact OL| | | |].
        -- intros j yo' Hj Hr. left. eapply reg_old; eauto. intros; discriminate.
        -- auto.
        -- auto.
        -- intros t. rewrite get_thread_set_thread. destruct (N.eqb_spec th t).
           ++ subst t. right. destruct Hl as [[Hold Hnew]|Hnew]; rewrite Hnew; cbn [lkf]; [|exact I].
              destruct found as [j0|]; [exact I|]. exists (o_cnt o). rewrite lk_regget, get_set_same. split; [reflexivity|].
              intros Q. apply (olderR_inv _ _ _ _ _ OL (le_n _)) in Q. destruct Q as (j & yo & A & B & C & D).
              destruct (rk_reg _ _ K j yo A B) as [Q|Q]; rewrite C in Q; [congruence|exact Q].
           ++ left. split; [reflexivity|]. destruct found as [j0|].
              ** rewrite (ole_lk _ _ _ _ OL); [reflexivity|intros; discriminate].
              ** rewrite lk_regget, get_set. destruct (N.eqb_spec th t); [contradiction|reflexivity].
    + (* EDoneAdd *)
      assert (OL : ole (EDoneAdd i) (o_cnt o) o (obs_step cs o (th, EDoneAdd i))) by (apply obs_step_ole; intros; discriminate).
      split; [|split].
      * eapply Rl_frame; [exact L|eapply step_reg_frL; [exact Hk|intros; discriminate]|exact OL].
      * eapply Rg_insts; [exact G|exact HO|exact OL|intros; discriminate|eapply reg_insts_same; [exact Hk|intros; discriminate]].
      * destruct (reg_doneadd _ _ _ _ Hk) as (x & Hx & ->).
        eapply Rk_gen; [exact K|exact HO|exact OL| | | |].
        -- intros j yo' Hj Hr. left. eapply reg_old; eauto. intros; discriminate.
        -- intros k [Q|Q]; [left|right]; rewrite ?upd_inst_running, ?upd_inst_donereg; cbn; [exact Q|].
           rewrite get_set. destruct (N.eqb (nm x) k); [discriminate|exact Q].
        -- intros k Q. rewrite upd_inst_donereg. cbn. rewrite get_set. destruct (N.eqb (nm x) k); [discriminate|exact Q].
        -- intros t. left. rewrite get_thread_upd_inst. split; [reflexivity|]. try (f_equal; apply (ole_lk _ _ _ _ OL); intros; discriminate).
    + (* EDoneGet *)
      assert (OL : ole (EDoneGet n found) (o_cnt o) o (obs_step cs o (th, EDoneGet n found))) by (apply obs_step_ole; intros; discriminate).
      assert (Elk : o_lk (obs_step cs o (th, EDoneGet n found)) = o_lk o) by (apply (ole_lk _ _ _ _ OL); intros; discriminate).
      split; [|split].
      * eapply Rl_frame; [exact L|eapply step_reg_frL; [exact Hk|intros; discriminate]|exact OL].
      * eapply Rg_insts; [exact G|exact HO|exact OL|intros; discriminate|eapply reg_insts_same; [exact Hk|intros; discriminate]].
      * destruct (reg_doneget _ _ _ _ _ Hk) as (Hf & t' & -> & Hl).
        eapply Rk_gen; [exact K|exact HO|exact OL| | | |].
        -- intros j yo' Hj Hr. left. eapply reg_old; eauto. intros; discriminate.
        -- auto.
        -- auto.
        -- intros t. rewrite get_thread_set_thread. destruct (N.eqb_spec th t); [subst t; right|left; split; [reflexivity|now rewrite Elk]].
           destruct Hl as [[Hold Hnew]|Hnew]; rewrite Hnew; cbn [lkf]; [|exact I].
           destruct found as [j0|]; [exact I|].
           pose proof (rk_lk _ _ K th) as Q. rewrite Hold in Q. cbn in Q. destruct Q as (b & A & B).
           exists b. rewrite Elk. split; [exact A|]. intros Q. apply (olderR_inv _ _ _ _ _ OL (oi_lk _ HO _ _ _ A)) in Q.
           apply B in Q. congruence.
  - (* api *) destruct (not_reg_ole o th e (api_not_reg _ _ _ _ Hk)) as [OL Hp].
    eapply rest_frame; eauto using step_api_frL, step_api_frM.
  - (* stop *) destruct (not_reg_ole o th e (stop_not_reg _ _ _ _ Hk)) as [OL Hp].
    eapply rest_frame; eauto using step_stop_frM.
    eapply step_stop_frL; [exact Hk|]. intros i ->.
    assert (exists x, get i (insts s) = Some x) as (x & Hx)
      by (unfold step_stop in Hk; destruct (get i (insts s)); [eauto|discriminate]).
    destruct (rc_oi _ _ _ _ HR Hx) as (xo & Exo & _). apply (gain_stopenter cs o th i xo Exo).
  - (* state *) subst e. destruct (not_reg_ole o th (EState i s0) eq_refl) as [OL Hp].
    assert (exists x, get i (insts s) = Some x) as (x & Hx)
      by (unfold step_state in Hk; destruct (get i (insts s)); [eauto|discriminate]).
    destruct (rc_oi _ _ _ _ HR Hx) as (xo & Exo & _).
    assert (Hf : match o_endst xo with Some s1 => negb (status_eqb s1 s0) && negb (o_ended xo) | None => false end = false).
    { pose proof Hg as Q. unfold gbad in Q. cbn in Q. unfold oi_get in Q. rewrite Exo in Q.
      apply orb_false_iff in Q. apply Q. }
    eapply rest_frame; eauto using step_state_frM.
    eapply step_state_frL; [exact Hk| |].
    + intros Hs _. destruct (rl_spend _ _ L th i Hs) as (xo2 & A & B). assert (xo2 = xo) by congruence. subst.
      eapply ended_after_state; eauto.
    + intros x2 c Hx2 Hp2. assert (x2 = x) by congruence. subst.
      destruct (rl_inst _ _ L i x xo Hx Exo) as (_ & _ & _ & _ & K5). eapply ended_after_state; eauto.
  - (* procend *)
    assert (Hre : plain_ev e = true) by (destruct b; subst; reflexivity).
    destruct (not_reg_ole o th e Hre) as [OL Hp].
    assert (exists x, get i (insts s) = Some x) as (x & Hx)
      by (unfold step_procend in Hk; destruct (get i (insts s)); [eauto|discriminate]).
    destruct (rc_oi _ _ _ _ HR Hx) as (xo & Exo & _).
    eapply rest_frame; eauto using step_procend_frM.
    eapply step_procend_frL; [exact Hk|]. intros ->. subst e.
    destruct (gain_procend cs o th i s0 xo Exo) as (y' & A & B). exists y'. split; [exact A|congruence].
  - (* shutdown *) destruct (not_reg_ole o th e (shutdown_not_reg _ _ _ _ Hk)) as [OL Hp].
    eapply rest_frame; eauto using step_shutdown_frL, step_shutdown_frM.
  - (* ordered *) subst. destruct (not_reg_ole o th (EOrderedGo i) eq_refl) as [OL Hp].
    eapply rest_frame; eauto using step_ordered_frL, step_ordered_frM.
  - (* env *) destruct (not_reg_ole o th e (env_not_reg _ _ _ _ Hk)) as [OL Hp].
    eapply rest_frame; eauto using step_env_frM.
    eapply step_env_frL; [exact Hk| | |].
    + intros i xo' -> Hxo'.
      assert (exists x, get i (insts s) = Some x) as (x & Hx)
        by (unfold step_env in Hk; destruct (get i (insts s)); [eauto|discriminate]).
      destruct (rc_oi _ _ _ _ HR Hx) as (xo & Exo & B & C). destruct (rc_on _ _ _ _ HR C) as (r & Er).
      rewrite <- B in Er. destruct (gain_logready cs o th i xo r Exo Er) as [(y' & A1 & A2) _]. congruence.
    + intros i x r' -> Hx Hr'.
      destruct (rc_oi _ _ _ _ HR Hx) as (xo & Exo & B & C). destruct (rc_on _ _ _ _ HR C) as (r & Er).
      rewrite <- B in Er. destruct (gain_logready cs o th i xo r Exo Er) as [_ (r2 & A1 & A2)]. rewrite B in A1. congruence.
    + intros i x r' -> Hx Hr'.
      destruct (rc_oi _ _ _ _ HR Hx) as (xo & Exo & B & C). destruct (rc_on _ _ _ _ HR C) as (r & Er).
      rewrite <- B in Er. destruct (gain_probe cs o th i xo r Exo Er) as (r2 & A1 & A2). rewrite B in A1. congruence.
  - apply Hnown. exact Hk.
Qed.

Lemma in_removeN a k l : In a l -> a <> k -> In a (removeN k l).
Proof. intros H Hne. unfold removeN. apply filter_In. split; [exact H|]. apply negb_true_iff. now apply N.eqb_neq. Qed.

Lemma in_removeN_inv a k l : In a (removeN k l) -> In a l /\ a <> k.
Proof. unfold removeN. rewrite filter_In. intros [A B]. split; [exact A|]. apply negb_true_iff in B. now apply N.eqb_neq. Qed.

Lemma thread_lookup_none t k : thread_lookup t k = Some None -> lk t = LDone2 k None.
Proof.
  unfold thread_lookup. destruct (lk t) as [|k1 [j|]|k1|k1 [j|]|k1 [j|]]; try discriminate;
  destruct (N.eqb_spec k1 k); try discriminate; intros; subst; reflexivity.
Qed.

Lemma wf_nodup n c : wf_confs cs = true -> get n cs = Some c -> nodupN (map fst (deps c)) = true.
Proof.
  intros Hwf Hn. unfold wf_confs in Hwf. rewrite forallb_forall in Hwf. apply get_in in Hn. exact (Hwf _ Hn).
Qed.

Lemma own_np s th e s' : step_own s th e = Some s' -> (forall i n, e <> ERegAdd i n) /\ (forall n, e <> ERegGet n None).
Proof. intros H. split; intros; intros ->; kind_cases H. Qed.

Lemma wait_of_last xo k w : wait_of xo k = None -> fst (fst w) = k ->
  find (fun w0 => N.eqb (fst (fst w0)) k) (o_waits xo ++ [w]) = Some w.
Proof. intros H E. subst k. rewrite (wait_of_app_none _ _ _ H). cbn [find]. now rewrite N.eqb_refl. Qed.

Lemma wait_of_other xo k' w : fst (fst w) <> k' ->
  find (fun w0 => N.eqb (fst (fst w0)) k') (o_waits xo ++ [w]) = wait_of xo k'.
Proof.
  intros Hne. unfold wait_of. induction (o_waits xo) as [|a r IH]; cbn.
  - destruct (N.eqb_spec (fst (fst w)) k'); [contradiction|reflexivity].
  - destruct (_ =? _)%N; [reflexivity|exact IH].
Qed.

Lemma core_step_own s o g th e s' :
  wf_confs cs = true -> Rc cs s o -> Oinv o -> Refreshed o -> Minv s -> Rest s o g ->
  step_own s th e = Some s' -> gbad (g_step cs o g (th, e)) = false ->
  Rest s' (obs_step cs o (th, e)) (g_step cs o g (th, e)).
Proof.
  intros Hwf HR HO HF M (L & G & K) H Hg.
  destruct (own_np _ _ _ _ H) as [N1 N2].
  assert (OL : ole e (o_cnt o) o (obs_step cs o (th, e))).
  { apply obs_step_ole. intros i n ->. kind_cases H. }
  destruct (step_own_eff _ _ _ _ H) as (i & x & x' & Ht & Hx & Hx' & Hn & Hc & Hd & Tr & Ho & _).
  destruct (rc_oi _ _ _ _ HR Hx) as (xo & Exo & Bn & Cc).
  assert (Hoth : get th (o_th o) = Some i) by (rewrite <- (rc_th _ _ _ HR); exact Ht).
  split; [|split].
  - eapply Rl_frame; [exact L| |exact OL]. eapply step_own_frL; [exact H|]. intros i0 -> Hti.
    assert (i0 = i) by congruence. subst i0. apply (gain_started cs o th i xo Hoth Exo).
  - assert (Ho' : forall j, j <> i -> match get j (insts s) with
                        | Some x => exists x', get j (insts s') = Some x' /\ cf x' = cf x /\ pc_ok x x'
                        | None => get j (insts s') = None end).
    { intros j Hj. rewrite (Ho j Hj). destruct (get j (insts s)); eauto using pc_ok_refl. }
    assert (Hnd : nodupN (map fst (deps (cf x))) = true) by (eapply wf_nodup; eauto).
    destruct e; try (eapply Rg_frame; [exact G|exact HO|eapply own_other_frM; [exact H|intros; discriminate|intros; discriminate]|exact OL|intros; discriminate]).
    + (* EDepWait *)
      destruct Tr as (todo & c & P1 & P0 & P2 & P3 & P4). apply memN_In in P0.
      assert (Hrem : remaining (pc x) = Some todo) by now rewrite P1.
      assert (Hnone : forall k', In k' todo -> wait_of xo k' = None).
      { intros k' Hk'. eapply (rg_todo _ _ G i x xo todo); eauto. }
      set (w := (k, found, miss_bound o th k)).
      assert (Hws : forall xo', get i (oi (obs_step cs o (th, EDepWait k found))) = Some xo' -> o_waits xo' = o_waits xo ++ [w]).
      { intros xo' Hxo'. destruct (depwait_spec _ _ _ _ _ _ _ Hxo') as (y & Ey & [Q|[_ Q]]).
        - exfalso. revert Hxo'. unfold obs_step. cbn [fst snd ev_inst]. rewrite Hoth, refresh_get, oi_upd_get, N.eqb_refl, Exo. cbn.
          intros Q2. assert (y = xo) by congruence. subst y. injection Q2 as <-. revert Q.
          destruct (_ && _); cbn; intros Q; apply (f_equal (@length _)) in Q; rewrite app_length in Q; cbn in Q; lia.
        - assert (y = xo) by congruence. subst y. exact Q. }
      eapply (Rg_upd _ s s' o _ i G HO OL Ho').
      * intros j y y' Hj Hy Hy'. destruct (depwait_spec _ _ _ _ _ _ _ Hy') as (y2 & Ey & [Q|[Q _]]); [congruence|congruence].
      * intros x2 xo' l Hx2 Hxo' Hr k0 c0 Hin Hnl. assert (x2 = x') by congruence. subst x2.
        destruct (ole_inv _ _ _ _ _ _ OL Hxo') as (xo2 & E2 & LE). assert (xo2 = xo) by congruence. subst xo2.
        rewrite Hc in Hin. rewrite P4 in Hr. specialize (Hws xo' Hxo').
        destruct (N.eqb_spec k0 k).
        -- subst k0. destruct found as [j|]; cbn in Hr; injection Hr as <-; [exfalso; apply Hnl; now left|].
           exists w. split; [unfold wait_of; rewrite Hws; apply wait_of_last; [now apply Hnone|reflexivity]|].
           unfold w. cbn [GateW]. left. intros Q.
           pose proof (rk_lk _ _ K th) as Q0. rewrite (thread_lookup_none _ _ P3) in Q0. cbn in Q0.
           destruct Q0 as (b & A & B). unfold miss_bound in Q. rewrite A, N.eqb_refl in Q.
           apply B. eapply olderR_inv; [exact OL|exact (oi_lk _ HO _ _ _ A)|exact Q].
        -- eapply Gate_mono; [exact HO|exact OL|exact Exo|exact LE|]. eapply (rg_gate _ _ G i x xo todo); eauto.
           intros Hin2. apply Hnl. destruct found as [j|]; cbn in Hr; injection Hr as <-; [right|]; now apply in_removeN.
      * intros x2 xo' todo1 Hx2 Hxo' Hpc k1 Hk1. assert (x2 = x') by congruence. subst x2.
        specialize (Hws xo' Hxo'). rewrite P4 in Hpc.
        assert (Et : todo1 = removeN k todo).
        { destruct found as [j|]; destruct Hpc as [Q|(k2 & c2 & j2 & Q)]; try discriminate Q; injection Q; auto. }
        subst todo1. apply in_removeN_inv in Hk1. destruct Hk1 as [Hk1 Hne].
        unfold wait_of. rewrite Hws, wait_of_other; [now apply Hnone|cbn; congruence].
      * intros x2 xo' k1 c1 j1 todo1 Hx2 Hxo' Hpc. assert (x2 = x') by congruence. subst x2.
        specialize (Hws xo' Hxo'). rewrite P4 in Hpc.
        destruct found as [j|]; [|discriminate Hpc]. injection Hpc as <- <- <- <-.
        exists k, (miss_bound o th k). unfold wait_of. rewrite Hws. apply wait_of_last; [now apply Hnone|reflexivity].
    + (* EDepDone *)
      destruct Tr as (c & j & todo & y & P1 & P2 & P3 & P4 & P5).
      assert (Hrem : remaining (pc x) = Some (k :: todo)) by now rewrite P1.
      destruct (mi_blocked _ M i x k c j todo Hx P1) as [(y2 & Hy2 & Hny) Hdc]. assert (y2 = y) by congruence. subst y2.
      assert (Hsame : forall j0 y0 y0', get j0 (oi o) = Some y0 -> get j0 (oi (obs_step cs o (th, EDepDone k ok))) = Some y0' -> o_waits y0' = o_waits y0).
      { intros j0 y0 y0'. eapply waits_same; [exact OL|intros; discriminate]. }
      eapply (Rg_upd _ s s' o _ i G HO OL Ho').
      * intros j0 y0 y0' _. apply Hsame.
      * intros x2 xo' l Hx2 Hxo' Hr k0 c0 Hin Hnl. assert (x2 = x') by congruence. subst x2.
        destruct (ole_inv _ _ _ _ _ _ OL Hxo') as (xo2 & E2 & LE). assert (xo2 = xo) by congruence. subst xo2.
        rewrite Hc in Hin. rewrite P5 in Hr.
        destruct ok; [|discriminate Hr]. cbn in Hr. injection Hr as <-.
        eapply Gate_mono; [exact HO|exact OL|exact Exo|exact LE|].
        destruct (N.eqb_spec k0 k).
        -- subst k0. assert (c0 = c) by (unfold dep_cond in Hdc; eapply dep_cond_unique; eauto). subst c0.
           destruct (rg_blocked _ _ G i x xo k c j todo Hx Exo P1) as (k1 & b & Hw).
           exists (k1, Some j, b). split; [exact Hw|]. cbn [GateW].
           destruct (rc_oi _ _ _ _ HR P2) as (yo & Eyo & Byn & _). exists yo. repeat split; [exact Eyo|congruence|].
           eapply met_of_latch; eauto.
        -- eapply (rg_gate _ _ G i x xo (k :: todo)); eauto. intros [Q|Q]; [congruence|contradiction].
      * intros x2 xo' todo1 Hx2 Hxo' Hpc k1 Hk1. assert (x2 = x') by congruence. subst x2.
        destruct (ole_inv _ _ _ _ _ _ OL Hxo') as (xo2 & E2 & LE). assert (xo2 = xo) by congruence. subst xo2.
        unfold wait_of. rewrite (Hsame i xo xo' Exo Hxo'). rewrite P5 in Hpc.
        destruct ok; destruct Hpc as [Q|(k2 & c2 & j2 & Q)]; try discriminate Q. injection Q as <-.
        eapply (rg_todo _ _ G i x xo todo); eauto.
      * intros x2 xo' k1 c1 j1 todo1 Hx2 Hxo' Hpc. assert (x2 = x') by congruence. subst x2.
        rewrite P5 in Hpc. destruct ok; discriminate Hpc.
  - assert (D : (forall k f, e <> EDepWait k f) \/ exists k f, e = EDepWait k f).
    { destruct e; try (left; intros; discriminate). right; eauto. }
    eapply Rk_frame; [exact K|exact HO|eapply step_own_frM2; eauto|exact OL|exact N1|exact N2].
Qed.

(* ---- the simulation relation ------------------------------------------------------------------------------------ *)
Record R (s : sys) (o : obs) (g : gst) : Prop := mkR {
  r_core : Rc cs s o; r_oinv : Oinv o; r_refr : Refreshed o; r_minv : Minv s;
  r_rest : gbad g = false -> Rest s o g }.

Lemma R_init ord : R (init cs ord) (obs0 cs) g0.
Proof.
  constructor.
  - apply Rc_init.
  - apply Oinv_obs0.
  - intros j y. cbn. discriminate.
  - apply Minv_init.
  - intros _. split; [|split]; constructor; cbn; try discriminate.
    + intros th. exact I.
    + intros n v r Hv _ Hh. rewrite (get_map_fst init_vis cs n) in Hv. destruct (get n cs) as [c|]; [|discriminate].
      cbn in Hv. injection Hv as <-. cbn in Hh. discriminate.
    + intros th. exact I.
Qed.

Lemma R_step s o g th e s' : wf_confs cs = true -> R s o g -> step s (th, e) = Some s' ->
  R s' (obs_step cs o (th, e)) (g_step cs o g (th, e)) /\ (mon_C01 cs o (th, e) = true \/ gbad g = true).
Proof.
  intros Hwf [HR HO HF M HRest] H.
  assert (Flush : gbad g = false ->
            Rc cs (flush th s) o /\ Minv (flush th s) /\ Rest (flush th s) o g).
  { intros Hg0. destruct (HRest Hg0) as (L & G & K). split; [|split; [|split; [|split]]].
    - eapply Rc_sys_same; eauto using sys_same_flush.
    - eapply Minv_frame; [exact M|apply frM_frM2, flush_frM].
    - eapply (Rl_frame EResume (o_cnt o)); [exact L|apply flush_frL; apply (rl_pend _ _ L)|apply ole_refl].
    - eapply (Rg_frame EResume); [exact G|exact HO|apply flush_frM|apply ole_refl|intros; discriminate].
    - eapply (Rk_frame EResume); [exact K|exact HO|apply frM_frM2, flush_frM|apply ole_refl|intros; discriminate|intros; discriminate]. }
  split.
  - constructor.
    + eapply Rc_step; eauto.
    + apply Oinv_step; auto.
    + apply refreshed_step.
    + eapply Minv_step; eauto.
    + intros Hg.
      assert (Hg0 : gbad g = false).
      { destruct (gbad g) eqn:E; [|reflexivity]. rewrite (gbad_mono cs o g (th, e) E) in Hg. discriminate. }
      destruct (Flush Hg0) as (HR0 & M0 & Rest0). unfold step in H. cbn [fst snd] in H.
      eapply core_step_other; eauto. intros Hown. eapply core_step_own; eauto.
  - destruct (gbad g) eqn:Hg0; [now right|left].
    destruct e; try reflexivity. destruct ok; [|reflexivity].
    destruct (Flush eq_refl) as (HR0 & M0 & (L0 & G0 & K0)). unfold step in H. cbn [fst snd] in H.
    change (step_core (flush th s) th (ELaunch true)) with (step_own (flush th s) th (ELaunch true)) in H.
    destruct (step_own_eff _ _ _ _ H) as (i & x & x' & Ht & Hx & _ & _ & _ & _ & Tr & _).
    cbn in Tr. destruct Tr as [_ Hpc]. specialize (Hpc eq_refl).
    destruct (rc_oi _ _ _ _ HR0 Hx) as (xo & Exo & Bn & Cc).
    eapply mon_C01_of_gate; eauto.
    + rewrite <- (rc_th _ _ _ HR0). exact Ht.
    + intros k c Hin. unfold conf_of in Hin. rewrite Bn, Cc in Hin.
      eapply (rg_gate _ _ G0 i x xo []); eauto. now rewrite Hpc.
Qed.

Lemma gbad_fold evs : forall o g, gbad g = true -> gbad (snd (fold_left (og_step cs) evs (o, g))) = true.
Proof.
  induction evs as [|a r IH]; intros o g H; cbn; [exact H|]. apply IH. now apply gbad_mono.
Qed.

Lemma sim_run_og : forall evs s o g k s', wf_confs cs = true -> R s o g -> accept s evs = Some s' ->
  gbad (snd (fold_left (og_step cs) evs (o, g))) = false -> mon_run cs (mon_C01 cs) o evs k = None.
Proof.
  induction evs as [|[th e] evs IH]; intros s o g k s' Hwf HRel Hacc Hg; [reflexivity|].
  cbn in Hacc. destruct (step s (th, e)) as [s1|] eqn:Es; [|discriminate].
  destruct (R_step _ _ _ _ _ _ Hwf HRel Es) as [HR1 Hm]. cbn [mon_run fold_left] in *.
  destruct Hm as [Hm|Hm].
  - rewrite Hm. eapply IH; eauto.
  - unfold og_step in Hg at 2. cbn [fst snd] in Hg. rewrite gbad_fold in Hg; [discriminate|]. now apply gbad_mono.
Qed.
End Main.

Theorem C01_main_partial_lemma : forall cs ord evs s,
  wf_confs cs = true -> accept (init cs ord) evs = Some s -> sched_ok_C01 cs evs = true -> holds_C01 cs evs = true.
Proof.
  intros cs ord evs s Hwf Hacc Hs. unfold holds_C01, holds.
  rewrite (sim_run_og cs evs (init cs ord) (obs0 cs) g0 0 s Hwf (R_init cs ord) Hacc); [reflexivity|].
  unfold sched_ok_C01, og_final in Hs. now apply negb_true_iff in Hs.
Qed.

(* ---- declarative reading of the monitor ---------------------------------------------------------------------------- *)
Lemma mon_run_none_forall cs m : forall evs o k, mon_run cs m o evs k = None ->
  forall pre e post, evs = pre ++ e :: post -> m (fold_left (obs_step cs) pre o) e = true.
Proof.
  induction evs as [|a r IH]; intros o k H pre e post E.
  - destruct pre; discriminate.
  - cbn in H. destruct (m o a) eqn:Em; [|discriminate]. destruct pre as [|b pre]; cbn in E.
    + injection E as -> ->. exact Em.
    + injection E as -> ->. cbn. eapply IH; eauto.
Qed.

(* what the monitor demands for one dependency (k, c) of the launching instance x *)
Definition dep_ok (o : obs) (x : oinst) (k : name) (c : cond) : Prop :=
  match wait_of x k with
  | Some (_, Some j, _) => o_nm (oi_get o j) = k /\ met o c (oi_get o j) = true
  | Some (_, None, b) => reg_before o k b = [] \/ exists y, In y (reg_before o k b) /\ met o c y = true
  | None => reg_before o k (o_cnt o) = [] \/ exists y, In y (reg_before o k (o_cnt o)) /\ met o c y = true
  end.

Lemma some_met_prop o c J : some_met o c J = true -> J = [] \/ exists y, In y J /\ met o c y = true.
Proof. unfold some_met. destruct J as [|y l]; [now left|right]. now apply existsb_exists. Qed.

Lemma C01_declarative_lemma : forall cs ord evs s,
  wf_confs cs = true -> accept (init cs ord) evs = Some s -> sched_ok_C01 cs evs = true ->
  forall pre th post, evs = pre ++ (th, ELaunch true) :: post ->
  let o := fold_left (obs_step cs) pre (obs0 cs) in
  forall i, get th (o_th o) = Some i ->
  let x := oi_get o i in
  forall k c, In (k, c) (deps (conf_of cs (o_nm x))) -> dep_ok o x k c.
Proof.
  intros cs ord evs s Hwf Hacc Hs pre th post E o i Hi x k c Hin.
  pose proof (C01_main_partial_lemma cs ord evs s Hwf Hacc Hs) as H. unfold holds_C01, holds in H.
  destruct (mon_run cs (mon_C01 cs) (obs0 cs) evs 0) eqn:Em; [discriminate|].
  pose proof (mon_run_none_forall cs (mon_C01 cs) evs (obs0 cs) 0 Em pre (th, ELaunch true) post E) as Q.
  fold o in Q. unfold mon_C01 in Q. cbn [fst snd ev_inst] in Q. rewrite Hi in Q. fold x in Q.
  rewrite forallb_forall in Q. specialize (Q (k, c) Hin). cbn [fst snd] in Q. unfold dep_ok.
  destruct (wait_of x k) as [[[k0 [j|]] b]|].
  - apply andb_true_iff in Q. destruct Q as [Q1 Q2]. apply N.eqb_eq in Q1. auto.
  - now apply some_met_prop.
  - now apply some_met_prop.
Qed.
