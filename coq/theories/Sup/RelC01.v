(* Simulation relation and proof for C01 (dependency gating).  See Props/C01.v for the statements. *)
From Coq Require Import List ZArith NArith Bool Lia.
From RecordUpdate Require Import RecordSet.
From PC.Base Require Import Assoc.
From PC.Sup Require Import Model Monitors Tactics Sim ObsFacts Effects RelCore LemC01 FrC01 FlC01.
Import ListNotations RecordSetNotations.

(* ---- latches of the model are backed by facts of the observer ------------------------------------------------ *)
Record Rl (s : sys) (o : obs) : Prop := mkRl {
  rl_inst : forall i x xo, get i (insts s) = Some x -> get i (oi o) = Some xo ->
      (l_done x = true -> o_ended xo = true) /\ (l_started x = true -> o_started xo = true) /\
      (l_runctx x = true -> o_stopreq xo = true \/ o_endst xo <> None) /\
      (l_logready x = Some true -> o_logok xo = true) /\
      (forall s1 c, pc x = IInEnd s1 c false -> o_endst xo <> None);
  rl_pend : forall th, pend_just o (pend (get_thread s th));
  rl_spend : forall th i, spc (get_thread s th) = SPendE i -> exists xo, get i (oi o) = Some xo /\ o_endst xo <> None;
  rl_ready : forall n v r, get n (viss s) = Some v -> get n (onm o) = Some r -> hl v = HReady -> r_ready r = true }.

Lemma endst_mono e j y y' : oinst_le e j y y' -> o_endst y <> None -> o_endst y' <> None.
Proof. intros (_ & _ & _ & _ & _ & _ & _ & [E|(s0 & _ & E)]) H; rewrite E; [exact H|discriminate]. Qed.

Lemma ole_inv e o o' j y' : ole e o o' -> get j (oi o') = Some y' -> exists y, get j (oi o) = Some y /\ oinst_le e j y y'.
Proof.
  intros OL H. destruct (get j (oi o)) as [y|] eqn:E.
  - destruct (ole_oi _ _ _ OL j y E) as (y2 & E2 & L). exists y. split; [reflexivity|congruence].
  - rewrite (ole_none _ _ _ OL j E) in H. discriminate.
Qed.

Lemma pend_just_mono e o o' p : ole e o o' -> pend_just o p -> pend_just o' p.
Proof.
  intros OL. destruct p as [[i|i|i| | |c]|]; cbn; auto; intros (xo & A & B);
  destruct (ole_oi _ _ _ OL i xo A) as (y' & E & L); exists y'; (split; [exact E|]).
  - destruct L as (_ & _ & _ & _ & _ & L & _). auto.
  - eapply endst_mono; eauto.
  - destruct L as (_ & _ & _ & _ & _ & _ & L & _). auto.
Qed.

Lemma Rl_frame e s s' o o' : Rl s o -> frL o' s s' -> ole e o o' -> Rl s' o'.
Proof.
  intros [L1 L2 L3 L4] F OL. constructor.
  - intros i x' xo' Hx' Hxo'.
    pose proof (fl_insts _ _ _ F i) as A. destruct (get i (insts s)) as [x|] eqn:Ex; [|congruence].
    destruct A as (x2 & E2 & _ & IL). assert (x2 = x') by congruence. subst x2.
    destruct (IL xo' Hxo') as (I1 & I2 & I3 & I4 & I5).
    destruct (ole_inv _ _ _ _ _ OL Hxo') as (xo & Exo & LE).
    destruct (L1 i x xo Ex Exo) as (K1 & K2 & K3 & K4 & K5).
    pose proof (endst_mono _ _ _ _ LE) as EM.
    destruct LE as (_ & _ & M1 & _ & M3 & M4 & M5 & M6).
    split; [|split; [|split; [|split]]].
    + intros Q. destruct (I1 Q); auto.
    + intros Q. destruct (I2 Q); auto.
    + intros Q. destruct (I3 Q) as [Q1|Q1]; [|exact Q1]. destruct (K3 Q1) as [|Q2]; [left; auto|right; auto].
    + intros Q. destruct (I4 Q); auto.
    + intros s1 c Q. destruct (I5 s1 c Q) as [(s2 & c2 & Q1)|Q1]; [|exact Q1]. apply EM. eapply K5; eauto.
  - intros th. destruct (fl_pend _ _ _ F th) as [E|E]; [rewrite E; eapply pend_just_mono; eauto|exact E].
  - intros th i Q. destruct (fl_spc _ _ _ F th i Q) as [E|E]; [|exact E].
    destruct (L3 th i E) as (xo & A & B). destruct (ole_oi _ _ _ OL i xo A) as (y' & E' & L).
    exists y'. split; [exact E'|eapply endst_mono; eauto].
  - intros n v' r' Hv' Hr' Hh. pose proof (fl_viss _ _ _ F n) as A. destruct (get n (viss s)) as [v|] eqn:Ev; [|congruence].
    destruct A as (v2 & E2 & HL). assert (v2 = v') by congruence. subst v2.
    destruct (HL Hh) as [Q|Q]; [|now apply Q].
    destruct (get n (onm o)) as [r|] eqn:Er.
    + destruct (ole_on _ _ _ OL n r Er) as (r2 & E3 & LR). assert (r2 = r') by congruence. subst r2.
      apply LR. eapply L4; eauto.
    + rewrite (ole_on_none _ _ _ OL n Er) in Hr'. discriminate.
Qed.

Lemma pend_just_set o o1 i y0 p : get i (oi o) = None -> oi o1 = set i y0 (oi o) -> pend_just o p -> pend_just o1 p.
Proof.
  intros Hn E1. destruct p as [[j|j|j| | |c]|]; cbn; auto; intros (xo & A & B); exists xo; rewrite E1, get_set;
  (destruct (N.eqb_spec i j); [congruence|auto]).
Qed.

Lemma Rl_new s o o1 i n c y0 : Rl s o -> get i (oi o) = None -> oi o1 = set i y0 (oi o) -> onm o1 = onm o ->
  Rl (s <| insts := set i (new_inst n c) (insts s) |>) o1.
Proof.
  intros [L1 L2 L3 L4] Hn E1 E2. constructor; cbn.
  - intros j x xo. rewrite E1, !get_set. destruct (N.eqb i j).
    + intros Q _. injection Q as <-. cbn. repeat split; intros; discriminate.
    + apply L1.
  - intros th. eapply pend_just_set; [exact Hn|exact E1|apply L2].
  - intros th j Q. destruct (L3 th j Q) as (xo & A & B). exists xo. rewrite E1, get_set.
    destruct (N.eqb_spec i j); [congruence|auto].
  - rewrite E2. apply L4.
Qed.

(* ---- the gate -------------------------------------------------------------------------------------------------- *)
Definition Gate (o : obs) (ix : nat) (k : name) (c : cond) : Prop :=
  (forall j yo, get j (oi o) = Some yo -> o_nm yo = k -> ~ o_idx yo < ix) \/
  (exists j yo, get j (oi o) = Some yo /\ o_nm yo = k /\ o_idx yo < ix /\ met o c yo = true).

Lemma on_get_ready_mono e o o' n : ole e o o' -> r_ready (on_get o n) = true -> r_ready (on_get o' n) = true.
Proof.
  intros OL. unfold on_get. destruct (get n (onm o)) as [r|] eqn:E; [|cbn; discriminate].
  destruct (ole_on _ _ _ OL n r E) as (r' & E' & L). rewrite E'. exact L.
Qed.

Lemma met_mono e o o' j c y y' : ole e o o' -> oinst_le e j y y' -> met o c y = true -> met o' c y' = true.
Proof.
  intros OL LE. pose proof (endst_mono _ _ _ _ LE) as EM.
  destruct LE as (Hn & _ & M1 & M2 & M3 & M4 & M5 & M6). destruct c; cbn; auto.
  - rewrite Hn. eapply on_get_ready_mono; eauto.
  - intros H. apply orb_true_iff in H. destruct H as [H|H]; [apply orb_true_iff in H; destruct H as [H|H]|].
    + rewrite (M4 H). reflexivity.
    + rewrite (M5 H). now rewrite orb_true_r.
    + destruct (o_endst y) eqn:E; [|discriminate]. destruct (o_endst y') eqn:E'; [now rewrite orb_true_r|].
      exfalso. apply EM; [discriminate|reflexivity].
Qed.

Lemma Gate_mono e o o' ix k c : ole e o o' -> Gate o ix k c -> Gate o' ix k c.
Proof.
  intros OL [G|(j & yo & A & B & C & D)].
  - left. intros j yo' H Hn. destruct (ole_inv _ _ _ _ _ OL H) as (yo & E & (L1 & L2 & _)).
    rewrite L2. eapply G; eauto. congruence.
  - right. destruct (ole_oi _ _ _ OL j yo A) as (yo' & E & L). exists j, yo'.
    pose proof L as (L1 & L2 & _). repeat split; try congruence. eapply met_mono; eauto.
Qed.

Lemma met_same o o1 c y : onm o1 = onm o -> met o1 c y = met o c y.
Proof. intros E. destruct c; cbn; auto. unfold on_get. now rewrite E. Qed.

Lemma Gate_set o o1 i y0 ix k c : get i (oi o) = None -> oi o1 = set i y0 (oi o) -> onm o1 = onm o ->
  ix <= o_idx y0 -> Gate o ix k c -> Gate o1 ix k c.
Proof.
  intros Hn E1 E2 Hix [G|(j & yo & A & B & C & D)].
  - left. intros j yo. rewrite E1, get_set. destruct (N.eqb i j); [intros Q; injection Q as <-; lia|apply G].
  - right. exists j, yo. rewrite E1, get_set. destruct (N.eqb_spec i j); [congruence|].
    repeat split; auto. now rewrite (met_same _ _ _ _ E2).
Qed.

Record Rg (s : sys) (o : obs) : Prop := mkRg {
  rg_gate : forall i x xo l, get i (insts s) = Some x -> get i (oi o) = Some xo -> remaining (pc x) = Some l ->
            forall k c, In (k, c) (deps (cf x)) -> ~ In k l -> Gate o (o_idx xo) k c;
  rg_blocked : forall i x xo k c j todo, get i (insts s) = Some x -> get i (oi o) = Some xo -> pc x = IBlocked k c j todo ->
            (exists yo, get j (oi o) = Some yo /\ o_nm yo = k /\ o_idx yo < o_idx xo) \/
            (forall j' yo, get j' (oi o) = Some yo -> o_nm yo = k -> ~ o_idx yo < o_idx xo) }.

(* transport of the two clauses of one instance along the observer *)
Lemma blocked_mono e o o' j k ix :
  ole e o o' ->
  (exists yo, get j (oi o) = Some yo /\ o_nm yo = k /\ o_idx yo < ix) \/
  (forall j' yo, get j' (oi o) = Some yo -> o_nm yo = k -> ~ o_idx yo < ix) ->
  (exists yo, get j (oi o') = Some yo /\ o_nm yo = k /\ o_idx yo < ix) \/
  (forall j' yo, get j' (oi o') = Some yo -> o_nm yo = k -> ~ o_idx yo < ix).
Proof.
  intros OL [(yo & A & B & C)|G].
  - left. destruct (ole_oi _ _ _ OL j yo A) as (yo' & E & (L1 & L2 & _)). exists yo'. repeat split; congruence.
  - right. intros j' yo' H Hn. destruct (ole_inv _ _ _ _ _ OL H) as (yo & E & (L1 & L2 & _)).
    rewrite L2. eapply G; eauto. congruence.
Qed.

(* generic update of Rg: all instances except i keep their program counter class *)
Lemma Rg_upd e s s' o o' i : Rg s o -> ole e o o' ->
  (forall j, j <> i -> match get j (insts s) with
                        | Some x => exists x', get j (insts s') = Some x' /\ cf x' = cf x /\ pc_ok x x'
                        | None => get j (insts s') = None end) ->
  (forall x' xo' l, get i (insts s') = Some x' -> get i (oi o') = Some xo' -> remaining (pc x') = Some l ->
      forall k c, In (k, c) (deps (cf x')) -> ~ In k l -> Gate o' (o_idx xo') k c) ->
  (forall x' xo' k c j todo, get i (insts s') = Some x' -> get i (oi o') = Some xo' -> pc x' = IBlocked k c j todo ->
      (exists yo, get j (oi o') = Some yo /\ o_nm yo = k /\ o_idx yo < o_idx xo') \/
      (forall j' yo, get j' (oi o') = Some yo -> o_nm yo = k -> ~ o_idx yo < o_idx xo')) ->
  Rg s' o'.
Proof.
  intros [G1 G2] OL Ho H1 H2. constructor.
  - intros j x' xo' l Hx' Hxo' Hr k c Hin Hnl. destruct (N.eqb_spec j i); [subst; eapply H1; eauto|].
    specialize (Ho j n). destruct (get j (insts s)) as [x|] eqn:Ex; [|congruence].
    destruct Ho as (x2 & E2 & Hc & Hp). assert (x2 = x') by congruence. subst x2.
    destruct (ole_inv _ _ _ _ _ OL Hxo') as (xo & Exo & LE). pose proof LE as (_ & Li & _). rewrite Li.
    eapply Gate_mono; [exact OL|]. rewrite Hc in Hin. destruct Hp as [Hp|(P1 & P2 & _)].
    + rewrite Hp in Hr. eapply G1; eauto.
    + assert (l = []) by (eapply plain_remaining; eauto). subst l. eapply (G1 j x xo []); eauto.
  - intros j x' xo' k c j0 todo Hx' Hxo' Hp. destruct (N.eqb_spec j i); [subst; eapply H2; eauto|].
    specialize (Ho j n). destruct (get j (insts s)) as [x|] eqn:Ex; [|congruence].
    destruct Ho as (x2 & E2 & Hc & Hq). assert (x2 = x') by congruence. subst x2.
    destruct (ole_inv _ _ _ _ _ OL Hxo') as (xo & Exo & LE). pose proof LE as (_ & Li & _). rewrite Li.
    destruct Hq as [Hq|(P1 & _)]; [|rewrite Hp in P1; discriminate].
    rewrite Hq in Hp. eapply blocked_mono; [exact OL|]. eapply G2; eauto.
Qed.

Lemma Rg_insts e s s' o o' : Rg s o -> ole e o o' ->
  (forall j, match get j (insts s) with
             | Some x => exists x', get j (insts s') = Some x' /\ cf x' = cf x /\ pc_ok x x'
             | None => get j (insts s') = None end) -> Rg s' o'.
Proof.
  intros G OL Ho. pose proof G as [G1 G2].
  constructor.
  - intros j x' xo' l Hx' Hxo' Hr k c Hin Hnl.
    specialize (Ho j). destruct (get j (insts s)) as [x|] eqn:Ex; [|congruence].
    destruct Ho as (x2 & E2 & Hc & Hp). assert (x2 = x') by congruence. subst x2.
    destruct (ole_inv _ _ _ _ _ OL Hxo') as (xo & Exo & LE). pose proof LE as (_ & Li & _). rewrite Li.
    eapply Gate_mono; [exact OL|]. rewrite Hc in Hin. destruct Hp as [Hp|(P1 & P2 & _)].
    + rewrite Hp in Hr. eapply G1; eauto.
    + assert (l = []) by (eapply plain_remaining; eauto). subst l. eapply (G1 j x xo []); eauto.
  - intros j x' xo' k c j0 todo Hx' Hxo' Hp.
    specialize (Ho j). destruct (get j (insts s)) as [x|] eqn:Ex; [|congruence].
    destruct Ho as (x2 & E2 & Hc & Hq). assert (x2 = x') by congruence. subst x2.
    destruct (ole_inv _ _ _ _ _ OL Hxo') as (xo & Exo & LE). pose proof LE as (_ & Li & _). rewrite Li.
    destruct Hq as [Hq|(P1 & _)]; [|rewrite Hp in P1; discriminate].
    rewrite Hq in Hp. eapply blocked_mono; [exact OL|]. eapply G2; eauto.
Qed.

Lemma Rg_frame e s s' o o' : Rg s o -> frM s s' -> ole e o o' -> Rg s' o'.
Proof.
  intros G F OL. eapply Rg_insts; eauto.
  intros j. pose proof (fm_insts _ _ F j) as A. destruct (get j (insts s)) as [x|]; [|exact A].
  destruct A as (x' & ? & ? & ? & ? & ?). eauto.
Qed.


Lemma Rg_new s o o1 i n c y0 : Rg s o -> Oinv o -> get i (oi o) = None -> oi o1 = set i y0 (oi o) -> onm o1 = onm o ->
  o_idx y0 = o_cnt o ->
  Rg (s <| insts := set i (new_inst n c) (insts s) |>) o1.
Proof.
  intros [G1 G2] [_ OI] Hn E1 E2 Hy. constructor; cbn.
  - intros j x xo l. rewrite E1, !get_set. destruct (N.eqb i j).
    + intros Q _. injection Q as <-. cbn. intros Q. injection Q as <-. intros k c0 Hin Hnl. exfalso. apply Hnl.
      change k with (fst (k, c0)). now apply in_map.
    + intros Hx Hxo Hr k c0 Hin Hnl. eapply Gate_set; eauto. specialize (OI j xo Hxo). lia.
  - intros j x xo k c0 j0 todo. rewrite E1, !get_set. destruct (N.eqb i j).
    + intros Q _. injection Q as <-. cbn. discriminate.
    + intros Hx Hxo Hp. specialize (OI j xo Hxo). destruct (G2 _ _ _ _ _ _ _ Hx Hxo Hp) as [(yo & A & B & C)|G].
      * left. exists yo. destruct (N.eqb_spec i j0); [congruence|auto].
      * right. intros j' yo. rewrite get_set. destruct (N.eqb i j'); [intros Q; injection Q as <-; lia|apply G].
Qed.

(* ---- the registries and the lookup state machine ---------------------------------------------------------------- *)
Definition registered (s : sys) (k : name) : Prop := get k (running s) <> None \/ get k (donereg s) <> None.
Definition older (o : obs) (k : name) (ix : nat) : Prop :=
  exists j yo, get j (oi o) = Some yo /\ o_nm yo = k /\ o_idx yo < ix.
(* what a goroutine with dependency names D and creation index ix knows from its lookups *)
Definition lk_fact (s : sys) (o : obs) (D : list name) (ix : nat) (l : lookup_st) : Prop :=
  match l with
  | LReg k None => In k D -> older o k ix -> get k (donereg s) <> None
  | LDone2 k None => In k D -> ~ older o k ix
  | _ => True
  end.
Definition dnames (x : inst) : list name := map fst (deps (cf x)).

Record Rk (s : sys) (o : obs) (g : gst) : Prop := mkRk {
  (* every created instance is still unregistered, or its name is in one of the two registries *)
  rk_reg : forall j yo, get j (oi o) = Some yo -> In j (g_unregd g) \/ registered s (o_nm yo);
  (* the instances of its dependencies that were created before an instance were registered by then *)
  rk_dep : forall i x xo, get i (insts s) = Some x -> get i (oi o) = Some xo ->
           forall k, In k (dnames x) -> older o k (o_idx xo) -> registered s k;
  rk_th : forall th i, get th (thinst s) = Some i -> get i (oi o) <> None;
  rk_lk : forall th i x xo, get th (thinst s) = Some i -> get i (insts s) = Some x -> get i (oi o) = Some xo ->
          lk_fact s o (dnames x) (o_idx xo) (lk (get_thread s th)) }.

Lemma older_inv e o o' k ix : ole e o o' -> older o' k ix -> older o k ix.
Proof.
  intros OL (j & yo' & A & B & C). destruct (ole_inv _ _ _ _ _ OL A) as (yo & E & (L1 & L2 & _)).
  exists j, yo. repeat split; congruence.
Qed.

Lemma lk_plain_fact s o D ix l : lk_plain l -> lk_fact s o D ix l.
Proof. destruct l as [|k [j|]|k|k [j|]|k [j|]]; cbn; tauto. Qed.

Lemma lk_fact_mono e s s' o o' D ix l : ole e o o' ->
  (forall k, get k (donereg s) <> None -> get k (donereg s') <> None) ->
  lk_fact s o D ix l -> lk_fact s' o' D ix l.
Proof.
  intros OL Hd. destruct l as [|k [j|]|k|k [j|]|k [j|]]; cbn; auto.
  - intros H Hin Q. apply Hd, H; [exact Hin|]. eapply older_inv; eauto.
  - intros H Hin Q. apply H; [exact Hin|]. eapply older_inv; eauto.
Qed.

Lemma Rk_gen e s s' o o' g g' : Rk s o g -> ole e o o' ->
  (forall i x', get i (insts s') = Some x' -> exists x, get i (insts s) = Some x /\ cf x' = cf x) ->
  (forall j yo, In j (g_unregd g) -> get j (oi o) = Some yo -> In j (g_unregd g') \/ registered s' (o_nm yo)) ->
  (forall k, registered s k -> registered s' k) ->
  (forall k, get k (donereg s) <> None -> get k (donereg s') <> None) ->
  (forall th i, get th (thinst s') = Some i ->
      (get th (thinst s) = Some i /\ lk (get_thread s' th) = lk (get_thread s th)) \/
      (get i (oi o') <> None /\ forall x' xo', get i (insts s') = Some x' -> get i (oi o') = Some xo' ->
                                 lk_fact s' o' (dnames x') (o_idx xo') (lk (get_thread s' th)))) ->
  Rk s' o' g'.
Proof.
  intros [K1 K2 K3 K4] OL Hcf HU Hr Hd Ht. constructor.
  - intros j yo' H. destruct (ole_inv _ _ _ _ _ OL H) as (yo & E & (L1 & _)). rewrite L1.
    destruct (K1 j yo E) as [Q|Q]; [eapply HU; eauto|right; auto].
  - intros i x' xo' Hx' Hxo' k Hk Ho. destruct (Hcf i x' Hx') as (x & Hx & Hc).
    destruct (ole_inv _ _ _ _ _ OL Hxo') as (xo & E & (_ & L2 & _)). rewrite L2 in Ho.
    apply Hr. eapply (K2 i x xo); eauto; [unfold dnames in *; congruence|eapply older_inv; eauto].
  - intros th i Q. destruct (Ht th i Q) as [[Q1 _]|[Q1 _]]; [|exact Q1].
    specialize (K3 th i Q1). destruct (get i (oi o)) as [xo|] eqn:E; [|congruence].
    destruct (ole_oi _ _ _ OL i xo E) as (y' & E' & _). congruence.
  - intros th i x' xo' Q Hx' Hxo'. destruct (Ht th i Q) as [[Q1 Q2]|[_ Q1]]; [|now apply Q1].
    destruct (Hcf i x' Hx') as (x & Hx & Hc).
    destruct (ole_inv _ _ _ _ _ OL Hxo') as (xo & E & (_ & L2 & _)). rewrite Q2, L2.
    unfold dnames. rewrite Hc. eapply lk_fact_mono; eauto.
Qed.

Lemma Rk_new cs s o o1 g i n c y0 th : Rk s o g -> Oinv o -> get i (oi o) = None -> get i (insts s) = None ->
  oi o1 = set i y0 (oi o) -> o_idx y0 = o_cnt o -> o_cnt o1 = S (o_cnt o) ->
  conf_of cs n = c -> dep_unregistered cs o g n = false ->
  Rk (s <| insts := set i (new_inst n c) (insts s) |>) o1 (g_step cs o g (th, ENewInst i n)).
Proof.
  intros [K1 K2 K3 K4] [_ OI] Hn Hni E1 Hy Hc Hcf Hfl.
  assert (Ho : forall k ix, ix <= o_cnt o -> older o1 k ix -> older o k ix).
  { intros k ix Hix (j' & yo & A & B & C). rewrite E1, get_set in A. destruct (N.eqb i j'); [injection A as <-; lia|].
    exists j', yo. auto. }
  constructor; cbn.
  - intros j yo. rewrite E1, get_set. destruct (N.eqb_spec i j); [subst; auto|].
    intros H. destruct (K1 j yo H) as [Q|Q]; [left; now right|right; exact Q].
  - intros j x xo. rewrite E1, !get_set. destruct (N.eqb_spec i j).
    + subst j. intros Q1 Q2. injection Q1 as <-. injection Q2 as <-. unfold dnames. cbn [cf new_inst].
      intros k Hk Hol. rewrite Hy in Hol. apply (Ho k _ (le_n _)) in Hol. destruct Hol as (j & yo & A & B & C).
      destruct (K1 j yo A) as [Q|Q]; [exfalso|now rewrite B in Q].
      unfold dep_unregistered in Hfl. rewrite Hcf in Hfl.
      assert (existsb (fun j0 => memN (o_nm (oi_get o j0)) (map fst (deps c))) (g_unregd g) = true); [|congruence].
      apply existsb_exists. exists j. split; [exact Q|]. unfold oi_get. rewrite A, B. now apply memN_In.
    + intros Hx Hxo k Hk Hol. eapply K2; eauto. apply Ho; [|exact Hol]. specialize (OI j xo Hxo). lia.
  - intros t j Q. rewrite E1, get_set. destruct (N.eqb i j); [discriminate|eapply K3; eauto].
  - intros t j x xo Q. rewrite E1, !get_set. destruct (N.eqb_spec i j).
    + subst j. exfalso. eapply K3; eauto.
    + intros Hx Hxo. specialize (K4 t j x xo Q Hx Hxo). specialize (OI j xo Hxo).
      change (get_thread (s <| insts := set i (new_inst n c) (insts s) |>) t) with (get_thread s t).
      destruct (lk (get_thread s t)) as [|k [j'|]|k|k [j'|]|k [j'|]]; cbn in *; auto.
      * intros Hin Hol. apply K4; [exact Hin|]. apply Ho; [lia|exact Hol].
      * intros Hin Hol. apply K4; [exact Hin|]. apply Ho; [lia|exact Hol].
Qed.

(* ---- well-formed configurations: dependency names are unique per process ---------------------------------------- *)
Fixpoint nodupN (l : list N) : bool :=
  match l with [] => true | a :: r => negb (memN a r) && nodupN r end.
Definition wf_confs (cs : amap pconf) : bool := forallb (fun p => nodupN (map fst (deps (snd p)))) cs.

Lemma dep_cond_unique ds k c c' :
  nodupN (map fst ds) = true -> In (k, c) ds ->
  match find (fun p : name * cond => N.eqb (fst p) k) ds with Some p => Some (snd p) | None => None end = Some c' -> c = c'.
Proof.
  induction ds as [|[k0 c0] r IH]; cbn; [intros _ []|].
  intros H Hin. apply andb_true_iff in H. destruct H as [H1 H2]. apply negb_true_iff in H1.
  destruct (N.eqb_spec k0 k).
  - subst k0. cbn. intros Q. injection Q as <-. destruct Hin as [Q|Q]; [congruence|].
    exfalso. assert (memN k (map fst r) = true) by (apply memN_In; change k with (fst (k, c)); now apply in_map). congruence.
  - destruct Hin as [Q|Q]; [congruence|]. now apply IH.
Qed.

Lemma g_unregd_same cs o g th e : (forall i n, e <> ENewInst i n) -> (forall i n, e <> ERegAdd i n) ->
  g_unregd (g_step cs o g (th, e)) = g_unregd g.
Proof.
  intros N1 N2. unfold g_step. destruct e; cbn; try reflexivity;
  try (exfalso; eapply N1; reflexivity); try (exfalso; eapply N2; reflexivity).
  destruct found; [|reflexivity]. destruct (get th (o_th o)); reflexivity.
Qed.

(* frames give the three relations *)
Lemma Rk_frame e s s' o o' g g' : Rk s o g -> frM2 s s' -> ole e o o' -> g_unregd g' = g_unregd g -> Rk s' o' g'.
Proof.
  intros K F OL Hp. pose proof K as [K1 K2 K3 K4].
  eapply Rk_gen; eauto.
  - intros i x' Hx'. destruct (f2_inv _ _ _ _ F Hx') as (x & Hx & _ & Hc & _). eauto.
  - intros j yo Q _. left. now rewrite Hp.
  - intros k. unfold registered. now rewrite (f2_running _ _ F), (f2_donereg _ _ F).
  - intros k. now rewrite (f2_donereg _ _ F).
  - intros th i. rewrite (f2_thinst _ _ F). intros Q. destruct (f2_lk _ _ F th) as [E|E]; [left; auto|right].
    specialize (K3 th i Q). destruct (get i (oi o)) as [xo|] eqn:Exo; [|congruence].
    destruct (ole_oi _ _ _ OL i xo Exo) as (y' & E' & _). split; [congruence|].
    intros x' xo' _ _. now apply lk_plain_fact.
Qed.

(* the creation stages (Model.stage) are invisible to the three relations *)
Lemma Rl_stage s o f : Rl s o -> Rl (s <| stage := f |>) o.
Proof. intros [L1 L2 L3 L4]. constructor; auto. Qed.
Lemma Rg_stage s o f : Rg s o -> Rg (s <| stage := f |>) o.
Proof. intros [G1 G2]. constructor; auto. Qed.
Lemma Rk_stage s o g f : Rk s o g -> Rk (s <| stage := f |>) o g.
Proof. intros [K1 K2 K3 K4]. constructor; auto. Qed.

Section Main.
Context (cs : amap pconf).

Definition Rest (s : sys) (o : obs) (g : gst) : Prop := Rl s o /\ Rg s o /\ Rk s o g.

Lemma rest_frame e s s' o o' g g' : Rest s o g -> frL o' s s' -> frM s s' -> ole e o o' ->
  g_unregd g' = g_unregd g -> Rest s' o' g'.
Proof.
  intros (L & G & K) FL FM OL Hp. split; [|split]; [eapply Rl_frame|eapply Rg_frame|eapply Rk_frame]; eauto using frM_frM2.
Qed.

Lemma rc_oi s o i x : Rc cs s o -> get i (insts s) = Some x ->
  exists xo, get i (oi o) = Some xo /\ o_nm xo = nm x /\ get (nm x) cs = Some (cf x).
Proof. intros HR Hx. destruct (rc_inst _ _ _ HR i x Hx) as (xo & A & B & C & _). eauto. Qed.

Lemma rc_on s o n c : Rc cs s o -> get n cs = Some c -> exists r, get n (onm o) = Some r.
Proof. intros HR Hn. destruct (rc_name _ _ _ HR n c Hn) as (v & r & _ & A & _). eauto. Qed.

(* ---- registry events and Rk ---------------------------------------------------------------------------------- *)
Lemma in_removeN_iff a k l : In a (removeN k l) <-> In a l /\ a <> k.
Proof.
  unfold removeN. rewrite filter_In. split; intros [A B]; (split; [exact A|]).
  - apply negb_true_iff in B. now apply N.eqb_neq.
  - apply negb_true_iff. now apply N.eqb_neq.
Qed.

Lemma Rk_regadd e th s o o' g i n x : Rk s o g -> Rc cs s o -> get i (insts s) = Some x -> nm x = n -> ole e o o' ->
  Rk (s <| running := set n i (running s) |>) o' (g_step cs o g (th, ERegAdd i n)).
Proof.
  intros K HR Hx Hn OL. eapply (Rk_gen e s _ o o' g _ K OL); cbn.
  - intros j x' Hx'. eauto.
  - intros j yo Q Hy. destruct (N.eqb_spec j i); [|left; apply in_removeN_iff; auto]. subst j. right. left. cbn.
    destruct (rc_oi _ _ _ _ HR Hx) as (xo & A & B & _). assert (xo = yo) by congruence. subst xo.
    rewrite B, Hn, get_set_same. discriminate.
  - intros k [Q|Q]; [left|right; exact Q]. cbn. rewrite get_set. destruct (N.eqb n k); [discriminate|exact Q].
  - auto.
  - intros t j Q. left. split; [exact Q|reflexivity].
Qed.

Lemma Rk_regdel e th s o o' g i x : Rk s o g -> Minv s -> get i (insts s) = Some x -> pc x = IWgDone -> ole e o o' ->
  Rk (s <| running := del (nm x) (running s) |>) o' (g_step cs o g (th, ERegDel i)).
Proof.
  intros K M Hx Hp OL. eapply (Rk_gen e s _ o o' g _ K OL); cbn.
  - intros j x' Hx'. eauto.
  - intros j yo Q _. now left.
  - intros k [Q|Q]; [|right; exact Q]. destruct (N.eqb_spec (nm x) k).
    + subst k. right. cbn. eapply (mi_added _ M); eauto. eapply (mi_late _ M); eauto. now rewrite Hp.
    + left. cbn. now rewrite get_del_other.
  - auto.
  - intros t j Q. left. split; [exact Q|reflexivity].
Qed.

Lemma Rk_doneadd e th s o o' g i x : Rk s o g -> get i (insts s) = Some x -> ole e o o' ->
  Rk (upd_inst i (fun x => x <| d_added := true |>) (s <| donereg := set (nm x) i (donereg s) |>)) o' (g_step cs o g (th, EDoneAdd i)).
Proof.
  intros K Hx OL. eapply (Rk_gen e s _ o o' g _ K OL); cbn.
  - intros j x'. rewrite insts_upd_inst. change (insts (s <| donereg := set (nm x) i (donereg s) |>)) with (insts s).
    destruct (N.eqb i j); [|eauto]. destruct (get j (insts s)) as [y|]; cbn; [|discriminate].
    intros Q. injection Q as <-. eauto.
  - intros j yo Q _. now left.
  - intros k [Q|Q]; [left|right]; rewrite ?upd_inst_running, ?upd_inst_donereg; cbn; [exact Q|].
    rewrite get_set. destruct (N.eqb (nm x) k); [discriminate|exact Q].
  - intros k Q. rewrite upd_inst_donereg. cbn. rewrite get_set. destruct (N.eqb (nm x) k); [discriminate|exact Q].
  - intros t j. rewrite upd_inst_thinst, get_thread_upd_inst. cbn. intros Q. left. split; [exact Q|reflexivity].
Qed.

Lemma Rk_set_thread e th0 ev s o o' g t' th : Rk s o g -> ole e o o' ->
  g_unregd (g_step cs o g (th0, ev)) = g_unregd g ->
  (forall i x xo, get th (thinst s) = Some i -> get i (insts s) = Some x -> get i (oi o) = Some xo ->
                  lk_fact s o (dnames x) (o_idx xo) (lk t')) ->
  Rk (set_thread th t' s) o' (g_step cs o g (th0, ev)).
Proof.
  intros K OL Hp Hl. pose proof K as [K1 K2 K3 K4]. eapply (Rk_gen e s _ o o' g _ K OL).
  - intros j x' Hx'. eauto.
  - intros j yo Q _. left. now rewrite Hp.
  - auto.
  - auto.
  - intros t j. change (thinst (set_thread th t' s)) with (thinst s).
    rewrite get_thread_set_thread. intros Q. destruct (N.eqb_spec th t); [subst t; right|left; auto].
    specialize (K3 th j Q). destruct (get j (oi o)) as [xo|] eqn:Exo; [|congruence].
    destruct (ole_oi _ _ _ OL j xo Exo) as (y' & E' & (_ & L2 & _)). split; [congruence|].
    intros x' xo' Hx' Hxo'. assert (y' = xo') by congruence. subst y'. rewrite L2.
    eapply (lk_fact_mono e s (set_thread th t' s)); eauto.
Qed.

Lemma Rk_begin e th0 ev s o o' g th i : Rk s o g -> ole e o o' -> get th (threads s) = None -> get i (oi o) <> None ->
  g_unregd (g_step cs o g (th0, ev)) = g_unregd g ->
  Rk (s <| thinst := set th i (thinst s) |>) o' (g_step cs o g (th0, ev)).
Proof.
  intros K OL Ht Hi Hp. eapply (Rk_gen e s _ o o' g _ K OL).
  - intros j x' Hx'. eauto.
  - intros j yo Q _. left. now rewrite Hp.
  - auto.
  - auto.
  - intros t j. cbn. rewrite get_set. destruct (N.eqb_spec th t).
    + subst t. intros Q. injection Q as <-. right.
      destruct (get i (oi o)) as [xo|] eqn:Exo; [|congruence].
      destruct (ole_oi _ _ _ OL i xo Exo) as (y' & E' & _). split; [congruence|].
      intros x' xo' _ _. unfold get_thread. cbn. rewrite Ht. exact I.
    + intros Q. left. split; [exact Q|reflexivity].
Qed.

(* ---- helper facts -------------------------------------------------------------------------------------------- *)
Lemma met_of_latch s o j y yo c : Rc cs s o -> Refreshed o -> Rl s o ->
  get j (insts s) = Some y -> get j (oi o) = Some yo ->
  latch_released c y = true -> wait_result s c y = true -> met o c yo = true.
Proof.
  intros HR HF L Hy Hyo Hl Hw. destruct (rl_inst _ _ L j y yo Hy Hyo) as (K1 & K2 & K3 & K4 & K5).
  destruct (rc_oi _ _ _ _ HR Hy) as (xo & A & B & C). assert (xo = yo) by congruence. subst xo.
  destruct (rc_name _ _ _ HR _ _ C) as (v & r & Ev & Er & Hc & _ & _).
  assert (Hv : vis_of s (nm y) = v) by (unfold vis_of; now rewrite Ev).
  assert (Hr : on_get o (o_nm yo) = r) by (unfold on_get; now rewrite B, Er).
  destruct c; cbn in *.
  - auto.
  - apply (HF j yo Hyo (K1 Hl)). rewrite Hr, Hc, <- Hv. exact Hw.
  - rewrite Hr. eapply (rl_ready _ _ L); eauto. rewrite Hv in Hw. now apply health_eqb_eq.
  - apply K4. destruct (l_logready y) as [[|]|]; try discriminate; reflexivity.
  - apply orb_true_iff in Hl. destruct Hl as [Q|Q].
    + rewrite (K2 Q). reflexivity.
    + destruct (K3 Q) as [Q1|Q1]; [rewrite Q1; now rewrite orb_true_r|].
      destruct (o_endst yo); [now rewrite orb_true_r|congruence].
Qed.

Lemma ended_after_state o th i s0 xo :
  get i (oi o) = Some xo -> o_endst xo <> None ->
  match o_endst xo with Some s1 => negb (status_eqb s1 s0) && negb (o_ended xo) | None => false end = false ->
  forall xo', get i (oi (obs_step cs o (th, EState i s0))) = Some xo' -> o_ended xo' = true.
Proof.
  intros Hxo Hne Hf xo' Hxo'. destruct (o_endst xo) as [s1|] eqn:E; [|congruence].
  apply andb_false_iff in Hf. destruct Hf as [Hf|Hf]; apply negb_false_iff in Hf.
  - apply status_eqb_eq in Hf. subst s1. destruct (gain_state cs o th i s0 xo Hxo E) as (y' & A & B). congruence.
  - assert (OL : ole (EState i s0) o (obs_step cs o (th, EState i s0))) by (apply obs_step_ole; intros; discriminate).
    destruct (ole_oi _ _ _ OL i xo Hxo) as (y' & A & (_ & _ & M1 & _)). assert (y' = xo') by congruence. subst. auto.
Qed.

Lemma mon_C01_of_gate o th i xo : Oinv o -> get th (o_th o) = Some i -> get i (oi o) = Some xo ->
  (forall k c, In (k, c) (deps (conf_of cs (o_nm xo))) -> Gate o (o_idx xo) k c) ->
  mon_C01 cs o (th, ELaunch true) = true.
Proof.
  intros [Hnd _] Ht Hx Hg. unfold mon_C01. cbn [fst snd ev_inst]. rewrite Ht. unfold oi_get. rewrite Hx.
  apply forallb_forall. intros [k c] Hin. cbn [fst snd].
  destruct (Hg k c Hin) as [G|(j & yo & A & B & C & D)].
  - destruct (filter _ _) as [|y l] eqn:F; [reflexivity|]. exfalso.
    assert (Hy : In y (y :: l)) by now left. rewrite <- F in Hy. apply filter_In in Hy. destruct Hy as [Hy1 Hy2].
    apply andb_true_iff in Hy2. destruct Hy2 as [Q1 Q2]. apply N.eqb_eq in Q1. apply Nat.ltb_lt in Q2.
    destruct (in_vals_get _ _ Hnd Hy1) as (j & Hj). eapply G; eauto.
  - assert (Hy : In yo (filter (fun y => N.eqb (o_nm y) k && Nat.ltb (o_idx y) (o_idx xo)) (vals (oi o)))).
    { apply filter_In. split; [eapply get_in_vals; eauto|]. apply andb_true_iff. split; [now apply N.eqb_eq|now apply Nat.ltb_lt]. }
    destruct (filter _ _) as [|y l] eqn:F; [reflexivity|]. apply existsb_exists. exists yo. split; [exact Hy|exact D].
Qed.

Lemma reg_insts_same s th e s' : step_reg s th e = Some s' -> (forall i n, e <> ENewInst i n) ->
  forall j, match get j (insts s) with
            | Some x => exists x', get j (insts s') = Some x' /\ cf x' = cf x /\ pc_ok x x'
            | None => get j (insts s') = None end.
Proof.
  intros H Hn. destruct e; try (exfalso; eapply Hn; reflexivity);
  try (kind_cases H; intros j; cbn; destruct (get j (insts s)); now eauto using pc_ok_refl).
  destruct (reg_doneadd _ _ _ _ H) as (x & Hx & ->). intros j. rewrite insts_upd_inst.
  change (insts (s <| donereg := set (nm x) i (donereg s) |>)) with (insts s).
  destruct (N.eqb_spec i j).
  - subst j. rewrite Hx. cbn. eexists; repeat split. now left.
  - destruct (get j (insts s)); eauto using pc_ok_refl.
Qed.

Definition reg_ev (e : event) : bool := match e with ENewInst _ _ | ERegAdd _ _ => true | _ => false end.

Lemma not_reg_ole o th e g : reg_ev e = false ->
  ole e o (obs_step cs o (th, e)) /\ g_unregd (g_step cs o g (th, e)) = g_unregd g.
Proof.
  intros H. split; [apply obs_step_ole|apply g_unregd_same]; intros i n ->; discriminate H.
Qed.

Lemma api_not_reg s th e s' : step_api s th e = Some s' -> reg_ev e = false.
Proof. intros H. destruct e; try reflexivity; kind_cases H. Qed.
Lemma stop_not_reg s th e s' : step_stop s th e = Some s' -> reg_ev e = false.
Proof. intros H. destruct e; try reflexivity; kind_cases H. Qed.
Lemma shutdown_not_reg s th e s' : step_shutdown s th e = Some s' -> reg_ev e = false.
Proof. intros H. destruct e; try reflexivity; kind_cases H. Qed.
Lemma env_not_reg s th e s' : step_env s th e = Some s' -> reg_ev e = false.
Proof. intros H. destruct e; try reflexivity; kind_cases H. Qed.
Lemma own_not_reg s th e s' : step_own s th e = Some s' -> reg_ev e = false.
Proof. intros H. destruct e; try reflexivity; kind_cases H. Qed.

Lemma gbad_parts g : gbad g = false -> g_unreg g = false /\ g_newer g = false /\ g_endov g = false.
Proof. unfold gbad. destruct (g_unreg g), (g_newer g), (g_endov g); cbn; intros; try discriminate; auto. Qed.

(* the non-own kinds *)
Lemma core_step_other s o g th e s' :
  Rc cs s o -> Oinv o -> Minv s -> Rest s o g ->
  step_core s th e = Some s' -> gbad (g_step cs o g (th, e)) = false ->
  (step_own s th e = Some s' -> Rest s' (obs_step cs o (th, e)) (g_step cs o g (th, e))) ->
  Rest s' (obs_step cs o (th, e)) (g_step cs o g (th, e)).
Proof.
  intros HR HO M HRest H Hg Hnown. pose proof HRest as (L & G & K).
  destruct (step_core_kind _ _ _ _ H) as [? ?|i x ? Hx Hth Hthr Hfresh ?|Hk|Hk|Hk|i s0 ? Hk|i s0 b ? Hk|Hk|i ? Hk|Hk|Hk].
  - (* resume *) subst. destruct (not_reg_ole o th EResume g eq_refl) as [OL Hp].
    eapply rest_frame; eauto using frL_refl, frM_refl.
  - (* begin *) subst. destruct (not_reg_ole o th (EBegin i) g eq_refl) as [OL Hp].
    destruct (rc_oi _ _ _ _ HR Hx) as (xo & Exo & _).
    split; [|split].
    + eapply Rl_frame; [exact L|apply frL_eq; reflexivity|exact OL].
    + eapply Rg_insts; [exact G|exact OL|]. intros j. cbn. destruct (get j (insts s)); eauto using pc_ok_refl.
    + apply Rk_stage. eapply Rk_begin; eauto. congruence.
  - (* registry *)
    destruct e; try (cbn in Hk; discriminate Hk).
    + (* ENewInst *)
      destruct (reg_newinst _ _ _ _ _ Hk) as (c & Hc & Hi & ->).
      pose proof (rc_noinst _ _ _ HR i Hi) as Hoi.
      destruct (obs_step_new cs o th i n) as (o1 & OL1 & B1 & B2 & B3).
      assert (Hfl : dep_unregistered cs o g n = false).
      { destruct (gbad_parts _ Hg) as (Q & _ & _). cbn in Q. apply orb_false_iff in Q. apply Q. }
      assert (Hcf : conf_of cs n = c) by (unfold conf_of; rewrite <- (rc_confs _ _ _ HR), Hc; reflexivity).
      assert (R1 : Rest (s <| insts := set i (new_inst n c) (insts s) |>) o1 (g_step cs o g (th, ENewInst i n))).
      { split; [|split].
        - eapply Rl_new; eauto.
        - eapply Rg_new; eauto.
        - eapply Rk_new; eauto. }
      destruct R1 as (L1 & G1 & K1). unfold set_stage. split; [|split].
      * apply Rl_stage. eapply Rl_frame; [exact L1|apply frL_refl|exact OL1].
      * apply Rg_stage. eapply Rg_frame; [exact G1|apply frM_refl|exact OL1].
      * apply Rk_stage. eapply Rk_frame; [exact K1|apply frM_frM2, frM_refl|exact OL1|reflexivity].
    + (* ERegAdd *)
      assert (OL : ole (ERegAdd i n) o (obs_step cs o (th, ERegAdd i n))) by (apply obs_step_ole; intros; discriminate).
      split; [|split].
      * eapply Rl_frame; [exact L|eapply step_reg_frL; [exact Hk|intros; discriminate]|exact OL].
      * eapply Rg_insts; [exact G|exact OL|eapply reg_insts_same; [exact Hk|intros; discriminate]].
      * destruct (reg_regadd _ _ _ _ _ Hk) as (x & Hx & Hn & ->). unfold set_stage. apply Rk_stage. eapply Rk_regadd; eauto.
    + (* ERegDel *)
      assert (OL : ole (ERegDel i) o (obs_step cs o (th, ERegDel i))) by (apply obs_step_ole; intros; discriminate).
      split; [|split].
      * eapply Rl_frame; [exact L|eapply step_reg_frL; [exact Hk|intros; discriminate]|exact OL].
      * eapply Rg_insts; [exact G|exact OL|eapply reg_insts_same; [exact Hk|intros; discriminate]].
      * destruct (reg_regdel _ _ _ _ Hk) as (x & Hx & Hp & ->). eapply Rk_regdel; eauto.
    + (* ERegGet *)
      assert (OL : ole (ERegGet n found) o (obs_step cs o (th, ERegGet n found))) by (apply obs_step_ole; intros; discriminate).
      split; [|split].
      * eapply Rl_frame; [exact L|eapply step_reg_frL; [exact Hk|intros; discriminate]|exact OL].
      * eapply Rg_insts; [exact G|exact OL|eapply reg_insts_same; [exact Hk|intros; discriminate]].
      * destruct (reg_regget _ _ _ _ _ Hk) as (Hf & t' & -> & Hl). eapply Rk_set_thread; eauto.
        intros i x xo Hti Hx Hxo. destruct Hl as [[Hold Hnew]|Hnew]; rewrite Hnew; cbn; [|exact I].
        destruct found; [exact I|]. intros Hin Hol.
        destruct (rk_dep _ _ _ K i x xo Hx Hxo n Hin Hol) as [Q|Q]; [congruence|exact Q].
    + (* EDoneAdd *)
      assert (OL : ole (EDoneAdd i) o (obs_step cs o (th, EDoneAdd i))) by (apply obs_step_ole; intros; discriminate).
      split; [|split].
      * eapply Rl_frame; [exact L|eapply step_reg_frL; [exact Hk|intros; discriminate]|exact OL].
      * eapply Rg_insts; [exact G|exact OL|eapply reg_insts_same; [exact Hk|intros; discriminate]].
      * destruct (reg_doneadd _ _ _ _ Hk) as (x & Hx & ->). eapply Rk_doneadd; eauto.
    + (* EDoneGet *)
      assert (OL : ole (EDoneGet n found) o (obs_step cs o (th, EDoneGet n found))) by (apply obs_step_ole; intros; discriminate).
      split; [|split].
      * eapply Rl_frame; [exact L|eapply step_reg_frL; [exact Hk|intros; discriminate]|exact OL].
      * eapply Rg_insts; [exact G|exact OL|eapply reg_insts_same; [exact Hk|intros; discriminate]].
      * destruct (reg_doneget _ _ _ _ _ Hk) as (Hf & t' & -> & Hl). eapply Rk_set_thread; eauto.
        intros i x xo Hti Hx Hxo. destruct Hl as [[Hold Hnew]|Hnew]; rewrite Hnew; cbn; [|exact I].
        destruct found; [exact I|]. intros Hin Hol.
        pose proof (rk_lk _ _ _ K th i x xo Hti Hx Hxo) as Q. rewrite Hold in Q. cbn in Q. specialize (Q Hin Hol). congruence.
  - (* api *) destruct (not_reg_ole o th e g (api_not_reg _ _ _ _ Hk)) as [OL Hp].
    eapply rest_frame; eauto using step_api_frL, step_api_frM.
  - (* stop *) destruct (not_reg_ole o th e g (stop_not_reg _ _ _ _ Hk)) as [OL Hp].
    eapply rest_frame; eauto using step_stop_frM.
    eapply step_stop_frL; [exact Hk|]. intros i ->.
    assert (exists x, get i (insts s) = Some x) as (x & Hx)
      by (unfold step_stop in Hk; destruct (get i (insts s)); [eauto|discriminate]).
    destruct (rc_oi _ _ _ _ HR Hx) as (xo & Exo & _). apply (gain_stopenter cs o th i xo Exo).
  - (* state *) subst e. destruct (not_reg_ole o th (EState i s0) g eq_refl) as [OL Hp].
    assert (exists x, get i (insts s) = Some x) as (x & Hx)
      by (unfold step_state in Hk; destruct (get i (insts s)); [eauto|discriminate]).
    destruct (rc_oi _ _ _ _ HR Hx) as (xo & Exo & _).
    assert (Hf : match o_endst xo with Some s1 => negb (status_eqb s1 s0) && negb (o_ended xo) | None => false end = false).
    { destruct (gbad_parts _ Hg) as (_ & _ & Q). cbn in Q. unfold oi_get in Q. rewrite Exo in Q.
      apply orb_false_iff in Q. apply Q. }
    eapply rest_frame; eauto using step_state_frM.
    eapply step_state_frL; [exact Hk| |].
    + intros Hs _. destruct (rl_spend _ _ L th i Hs) as (xo2 & A & B). assert (xo2 = xo) by congruence. subst.
      eapply ended_after_state; eauto.
    + intros x2 c Hx2 Hp2. assert (x2 = x) by congruence. subst.
      destruct (rl_inst _ _ L i x xo Hx Exo) as (_ & _ & _ & _ & K5). eapply ended_after_state; eauto.
  - (* procend *)
    assert (Hre : reg_ev e = false) by (destruct b; subst; reflexivity).
    destruct (not_reg_ole o th e g Hre) as [OL Hp].
    assert (exists x, get i (insts s) = Some x) as (x & Hx)
      by (unfold step_procend in Hk; destruct (get i (insts s)); [eauto|discriminate]).
    destruct (rc_oi _ _ _ _ HR Hx) as (xo & Exo & _).
    eapply rest_frame; eauto using step_procend_frM.
    eapply step_procend_frL; [exact Hk|]. intros ->. subst e.
    destruct (gain_procend cs o th i s0 xo Exo) as (y' & A & B). exists y'. split; [exact A|congruence].
  - (* shutdown *) destruct (not_reg_ole o th e g (shutdown_not_reg _ _ _ _ Hk)) as [OL Hp].
    eapply rest_frame; eauto using step_shutdown_frL, step_shutdown_frM.
  - (* ordered *) subst. destruct (not_reg_ole o th (EOrderedGo i) g eq_refl) as [OL Hp].
    eapply rest_frame; eauto using step_ordered_frL, step_ordered_frM.
  - (* env *) destruct (not_reg_ole o th e g (env_not_reg _ _ _ _ Hk)) as [OL Hp].
    eapply rest_frame; eauto using step_env_frM.
    eapply step_env_frL; [exact Hk| | |].
    + intros i xo' -> Hxo'.
      assert (exists x, get i (insts s) = Some x) as (x & Hx)
        by (unfold step_env in Hk; destruct (get i (insts s)); [eauto|discriminate]).
      destruct (rc_oi _ _ _ _ HR Hx) as (xo & Exo & B & C). destruct (rc_on _ _ _ _ HR C) as (r & Er).
      rewrite <- B in Er. destruct (gain_logready cs o th i xo r Exo Er) as [(y' & A1 & A2) _]. congruence.
    + intros i x r' -> Hx Hr'.
      destruct (rc_oi _ _ _ _ HR Hx) as (xo & Exo & B & C). destruct (rc_on _ _ _ _ HR C) as (r & Er).
      rewrite <- B in Er. destruct (gain_logready cs o th i xo r Exo Er) as [_ (r2 & A1 & A2)]. rewrite B in A1. congruence.
    + intros i x r' -> Hx Hr'.
      destruct (rc_oi _ _ _ _ HR Hx) as (xo & Exo & B & C). destruct (rc_on _ _ _ _ HR C) as (r & Er).
      rewrite <- B in Er. destruct (gain_probe cs o th i xo r Exo Er) as (r2 & A1 & A2). rewrite B in A1. congruence.
  - apply Hnown. exact Hk.
Qed.

Lemma in_removeN a k l : In a l -> a <> k -> In a (removeN k l).
Proof. intros H Hne. unfold removeN. apply filter_In. split; [exact H|]. apply negb_true_iff. now apply N.eqb_neq. Qed.

Lemma thread_lookup_none t k : thread_lookup t k = Some None -> lk t = LDone2 k None.
Proof.
  unfold thread_lookup. destruct (lk t) as [|k1 [j|]|k1|k1 [j|]|k1 [j|]]; try discriminate;
  destruct (N.eqb_spec k1 k); try discriminate; intros; subst; reflexivity.
Qed.

Lemma dep_cond_in c k cc : dep_cond c k = Some cc -> In k (map fst (deps c)).
Proof.
  unfold dep_cond. destruct (find _ _) as [p|] eqn:F; [|discriminate]. intros _.
  apply find_some in F. destruct F as [F1 F2]. apply N.eqb_eq in F2. subst k. now apply in_map.
Qed.

Lemma wf_nodup n c : wf_confs cs = true -> get n cs = Some c -> nodupN (map fst (deps c)) = true.
Proof.
  intros Hwf Hn. unfold wf_confs in Hwf. rewrite forallb_forall in Hwf. apply get_in in Hn. exact (Hwf _ Hn).
Qed.

Lemma core_step_own s o g th e s' :
  wf_confs cs = true -> Rc cs s o -> Oinv o -> Refreshed o -> Minv s -> Rest s o g ->
  step_own s th e = Some s' -> gbad (g_step cs o g (th, e)) = false ->
  Rest s' (obs_step cs o (th, e)) (g_step cs o g (th, e)).
Proof.
  intros Hwf HR HO HF M (L & G & K) H Hg.
  destruct (not_reg_ole o th e g (own_not_reg _ _ _ _ H)) as [OL Hp].
  destruct (step_own_eff _ _ _ _ H) as (i & x & x' & Ht & Hx & Hx' & Hn & Hc & Hd & Tr & Ho & _).
  destruct (rc_oi _ _ _ _ HR Hx) as (xo & Exo & Bn & Cc).
  assert (Hoth : get th (o_th o) = Some i) by (rewrite <- (rc_th _ _ _ HR); exact Ht).
  split; [|split].
  - eapply Rl_frame; [exact L| |exact OL]. eapply step_own_frL; [exact H|]. intros i0 -> Hti.
    assert (i0 = i) by congruence. subst i0. apply (gain_started cs o th i xo Hoth Exo).
  - assert (Ho' : forall j, j <> i -> match get j (insts s) with
                        | Some x => exists x', get j (insts s') = Some x' /\ cf x' = cf x /\ pc_ok x x'
                        | None => get j (insts s') = None end).
    { intros j Hj. rewrite (Ho j Hj). destruct (get j (insts s)); eauto using pc_ok_refl. }
    assert (Hnd : nodupN (map fst (deps (cf x))) = true) by (eapply wf_nodup; eauto).
    destruct e; try (eapply Rg_frame; [exact G|eapply own_other_frM; [exact H|intros; discriminate|intros; discriminate]|exact OL]).
    + (* EDepWait *)
      destruct Tr as (todo & c & P1 & P2 & P3 & P4).
      assert (Hrem : remaining (pc x) = Some todo) by now rewrite P1.
      eapply (Rg_upd _ s s' o _ i G OL Ho').
      * intros x2 xo' l Hx2 Hxo' Hr k0 c0 Hin Hnl. assert (x2 = x') by congruence. subst x2.
        destruct (ole_inv _ _ _ _ _ OL Hxo') as (xo2 & E2 & LE). assert (xo2 = xo) by congruence. subst xo2.
        pose proof LE as (_ & Li & _). rewrite Li. rewrite Hc in Hin. rewrite P4 in Hr.
        destruct (N.eqb_spec k0 k).
        -- subst k0. destruct found as [j|]; cbn in Hr; injection Hr as <-; [exfalso; apply Hnl; now left|].
           left. intros j yo' Hj Hnm Hlt.
           pose proof (rk_lk _ _ _ K th i x xo Ht Hx Exo) as Q. rewrite (thread_lookup_none _ _ P3) in Q. cbn in Q.
           apply Q; [eapply dep_cond_in; eauto|]. eapply older_inv; [exact OL|]. exists j, yo'. auto.
        -- eapply Gate_mono; [exact OL|]. eapply (rg_gate _ _ G i x xo todo); eauto.
           intros Hin2. apply Hnl. destruct found as [j|]; cbn in Hr; injection Hr as <-; [right|]; now apply in_removeN.
      * intros x2 xo' k1 c1 j1 todo1 Hx2 Hxo' Hpc. assert (x2 = x') by congruence. subst x2.
        destruct (ole_inv _ _ _ _ _ OL Hxo') as (xo2 & E2 & LE). assert (xo2 = xo) by congruence. subst xo2.
        pose proof LE as (_ & Li & _). rewrite Li. rewrite P4 in Hpc.
        destruct found as [j|]; [|discriminate Hpc]. injection Hpc as <- <- <- <-.
        eapply blocked_mono; [exact OL|].
        destruct (thread_lookup_ok _ _ _ _ (mi_lk _ M th) P3) as (y & Hy & Hyn).
        destruct (rc_oi _ _ _ _ HR Hy) as (yo & Eyo & Byn & _).
        destruct (gbad_parts _ Hg) as (_ & Q & _). cbn in Q. rewrite Hoth in Q. cbn in Q.
        unfold oi_get in Q. rewrite Exo, Eyo in Q. apply orb_false_iff in Q. destruct Q as [_ Q].
        apply andb_false_iff in Q. destruct Q as [Q|Q].
        -- left. apply negb_false_iff, Nat.ltb_lt in Q. exists yo. repeat split; auto. congruence.
        -- right. intros j' yo2 Hj' Hnm Hlt. unfold has_older in Q.
           assert (existsb (fun y0 => N.eqb (o_nm y0) k && Nat.ltb (o_idx y0) (o_idx xo)) (vals (oi o)) = true); [|congruence].
           apply existsb_exists. exists yo2. split; [eapply get_in_vals; eauto|].
           apply andb_true_iff. split; [now apply N.eqb_eq|now apply Nat.ltb_lt].
    + (* EDepDone *)
      destruct Tr as (c & j & todo & y & P1 & P2 & P3 & P4 & P5).
      assert (Hrem : remaining (pc x) = Some (k :: todo)) by now rewrite P1.
      destruct (mi_blocked _ M i x k c j todo Hx P1) as [_ Hdc].
      eapply (Rg_upd _ s s' o _ i G OL Ho').
      * intros x2 xo' l Hx2 Hxo' Hr k0 c0 Hin Hnl. assert (x2 = x') by congruence. subst x2.
        destruct (ole_inv _ _ _ _ _ OL Hxo') as (xo2 & E2 & LE). assert (xo2 = xo) by congruence. subst xo2.
        pose proof LE as (_ & Li & _). rewrite Li. rewrite Hc in Hin. rewrite P5 in Hr.
        destruct ok; [|discriminate Hr]. cbn in Hr. injection Hr as <-.
        eapply Gate_mono; [exact OL|].
        destruct (N.eqb_spec k0 k).
        -- subst k0. assert (c0 = c) by (unfold dep_cond in Hdc; eapply dep_cond_unique; eauto). subst c0.
           destruct (rg_blocked _ _ G i x xo k c j todo Hx Exo P1) as [(yo & A & B & C)|Q].
           ++ right. exists j, yo. repeat split; auto. eapply met_of_latch; eauto.
           ++ left. exact Q.
        -- eapply (rg_gate _ _ G i x xo (k :: todo)); eauto. intros [Q|Q]; [congruence|contradiction].
      * intros x2 xo' k1 c1 j1 todo1 Hx2 Hxo' Hpc. assert (x2 = x') by congruence. subst x2.
        rewrite P5 in Hpc. destruct ok; discriminate Hpc.
  - eapply Rk_frame; [exact K|eapply step_own_frM2; eauto|exact OL|exact Hp].
Qed.

(* ---- the simulation relation ------------------------------------------------------------------------------------ *)
Record R (s : sys) (o : obs) (g : gst) : Prop := mkR {
  r_core : Rc cs s o; r_oinv : Oinv o; r_refr : Refreshed o; r_minv : Minv s;
  r_rest : gbad g = false -> Rest s o g }.

Lemma R_init ord : R (init cs ord) (obs0 cs) g0.
Proof.
  constructor.
  - apply Rc_init.
  - apply Oinv_obs0.
  - intros j y. cbn. discriminate.
  - apply Minv_init.
  - intros _. split; [|split]; constructor; cbn; try discriminate.
    + intros th. exact I.
    + intros n v r Hv _ Hh. rewrite (get_map_fst init_vis cs n) in Hv. destruct (get n cs) as [c|]; [|discriminate].
      cbn in Hv. injection Hv as <-. cbn in Hh. discriminate.
Qed.

Lemma R_step s o g th e s' : wf_confs cs = true -> R s o g -> step s (th, e) = Some s' ->
  R s' (obs_step cs o (th, e)) (g_step cs o g (th, e)) /\ (mon_C01 cs o (th, e) = true \/ gbad g = true).
Proof.
  intros Hwf [HR HO HF M HRest] H.
  assert (Flush : gbad g = false ->
            Rc cs (flush th s) o /\ Minv (flush th s) /\ Rest (flush th s) o g).
  { intros Hg0. destruct (HRest Hg0) as (L & G & K). split; [|split; [|split; [|split]]].
    - eapply Rc_sys_same; eauto using sys_same_flush.
    - eapply Minv_frame; [exact M|apply frM_frM2, flush_frM].
    - eapply (Rl_frame EResume); [exact L|apply flush_frL; apply (rl_pend _ _ L)|apply ole_refl].
    - eapply (Rg_frame EResume); [exact G|apply flush_frM|apply ole_refl].
    - eapply (Rk_frame EResume); [exact K|apply frM_frM2, flush_frM|apply ole_refl|reflexivity]. }
  split.
  - constructor.
    + eapply Rc_step; eauto.
    + apply Oinv_step; auto.
    + apply refreshed_step.
    + eapply Minv_step; eauto.
    + intros Hg.
      assert (Hg0 : gbad g = false).
      { destruct (gbad g) eqn:E; [|reflexivity]. rewrite (gbad_mono cs o g (th, e) E) in Hg. discriminate. }
      destruct (Flush Hg0) as (HR0 & M0 & Rest0). unfold step in H. cbn [fst snd] in H.
      eapply core_step_other; eauto. intros Hown. eapply core_step_own; eauto.
  - destruct (gbad g) eqn:Hg0; [now right|left].
    destruct e; try reflexivity. destruct ok; [|reflexivity].
    destruct (Flush eq_refl) as (HR0 & M0 & (L0 & G0 & K0)). unfold step in H. cbn [fst snd] in H.
    change (step_core (flush th s) th (ELaunch true)) with (step_own (flush th s) th (ELaunch true)) in H.
    destruct (step_own_eff _ _ _ _ H) as (i & x & x' & Ht & Hx & _ & _ & _ & _ & Tr & _).
    cbn in Tr. destruct Tr as [_ Hpc]. specialize (Hpc eq_refl).
    destruct (rc_oi _ _ _ _ HR0 Hx) as (xo & Exo & Bn & Cc).
    eapply mon_C01_of_gate; eauto.
    + rewrite <- (rc_th _ _ _ HR0). exact Ht.
    + intros k c Hin. unfold conf_of in Hin. rewrite Bn, Cc in Hin.
      eapply (rg_gate _ _ G0 i x xo []); eauto. now rewrite Hpc.
Qed.

Lemma gbad_fold evs : forall o g, gbad g = true -> gbad (snd (fold_left (og_step cs) evs (o, g))) = true.
Proof.
  induction evs as [|a r IH]; intros o g H; cbn; [exact H|]. apply IH. now apply gbad_mono.
Qed.

Lemma sim_run_og : forall evs s o g k s', wf_confs cs = true -> R s o g -> accept s evs = Some s' ->
  gbad (snd (fold_left (og_step cs) evs (o, g))) = false -> mon_run cs (mon_C01 cs) o evs k = None.
Proof.
  induction evs as [|[th e] evs IH]; intros s o g k s' Hwf HRel Hacc Hg; [reflexivity|].
  cbn in Hacc. destruct (step s (th, e)) as [s1|] eqn:Es; [|discriminate].
  destruct (R_step _ _ _ _ _ _ Hwf HRel Es) as [HR1 Hm]. cbn [mon_run fold_left] in *.
  destruct Hm as [Hm|Hm].
  - rewrite Hm. eapply IH; eauto.
  - unfold og_step in Hg at 2. cbn [fst snd] in Hg. rewrite gbad_fold in Hg; [discriminate|]. now apply gbad_mono.
Qed.
End Main.

Theorem C01_main_partial_lemma : forall cs ord evs s,
  wf_confs cs = true -> accept (init cs ord) evs = Some s -> sched_ok_C01 cs evs = true -> holds_C01 cs evs = true.
Proof.
  intros cs ord evs s Hwf Hacc Hs. unfold holds_C01, holds.
  rewrite (sim_run_og cs evs (init cs ord) (obs0 cs) g0 0 s Hwf (R_init cs ord) Hacc); [reflexivity|].
  unfold sched_ok_C01, og_final in Hs. now apply negb_true_iff in Hs.
Qed.

(* ---- declarative reading of the monitor ---------------------------------------------------------------------------- *)
Lemma mon_run_none_forall cs m : forall evs o k, mon_run cs m o evs k = None ->
  forall pre e post, evs = pre ++ e :: post -> m (fold_left (obs_step cs) pre o) e = true.
Proof.
  induction evs as [|a r IH]; intros o k H pre e post E.
  - destruct pre; discriminate.
  - cbn in H. destruct (m o a) eqn:Em; [|discriminate]. destruct pre as [|b pre]; cbn in E.
    + injection E as -> ->. exact Em.
    + injection E as -> ->. cbn. eapply IH; eauto.
Qed.

(* instances of name k that were created before the instance with creation index ix *)
Definition older_insts (o : obs) (k : name) (ix : nat) : list oinst :=
  filter (fun y => N.eqb (o_nm y) k && Nat.ltb (o_idx y) ix) (vals (oi o)).

Lemma C01_declarative_lemma : forall cs ord evs s,
  wf_confs cs = true -> accept (init cs ord) evs = Some s -> sched_ok_C01 cs evs = true ->
  forall pre th post, evs = pre ++ (th, ELaunch true) :: post ->
  let o := fold_left (obs_step cs) pre (obs0 cs) in
  forall i, get th (o_th o) = Some i ->
  let x := oi_get o i in
  forall k c, In (k, c) (deps (conf_of cs (o_nm x))) ->
  older_insts o k (o_idx x) = [] \/ exists y, In y (older_insts o k (o_idx x)) /\ met o c y = true.
Proof.
  intros cs ord evs s Hwf Hacc Hs pre th post E o i Hi x k c Hin.
  pose proof (C01_main_partial_lemma cs ord evs s Hwf Hacc Hs) as H. unfold holds_C01, holds in H.
  destruct (mon_run cs (mon_C01 cs) (obs0 cs) evs 0) eqn:Em; [discriminate|].
  pose proof (mon_run_none_forall cs (mon_C01 cs) evs (obs0 cs) 0 Em pre (th, ELaunch true) post E) as Q.
  fold o in Q. unfold mon_C01 in Q. cbn [fst snd ev_inst] in Q. rewrite Hi in Q. fold x in Q.
  rewrite forallb_forall in Q. specialize (Q (k, c) Hin). cbn [fst snd] in Q. fold (older_insts o k (o_idx x)) in Q.
  destruct (older_insts o k (o_idx x)) as [|y l]; [now left|right]. apply existsb_exists in Q. exact Q.
Qed.
