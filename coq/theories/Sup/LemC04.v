(* Generic lemmas used by the C04 simulation proof (RelC04.v):
   - a multiset-as-list removal [rem1];
   - a forward-simulation theorem with a ghost (history) component next to the observer;
   - effect lemmas: how one accepted [step_core] / [flush] changes the few parts of the model state the
     C04 relation talks about (program-counter class, alive, exited, wait group, exit code, pending
     release, shutdown pc of the thread);
   - effect lemmas for the observer [obs_step] on the fields the C04 monitor reads. *)
From Coq Require Import List ZArith NArith Bool Lia.
From RecordUpdate Require Import RecordSet.
From PC.Base Require Import Assoc.
From PC.Sup Require Import Model Monitors Tactics Sim ObsFacts Effects RelCore.
Import ListNotations RecordSetNotations.

(* ---- lists ------------------------------------------------------------------------------------------ *)
Fixpoint rem1 (k : N) (l : list N) : list N :=
  match l with
  | [] => []
  | a :: r => if N.eqb a k then r else a :: rem1 k r
  end.

Lemma rem1_length k l : In k l -> S (length (rem1 k l)) = length l.
Proof.
  induction l as [|a r IH]; cbn; [tauto|]. destruct (N.eqb_spec a k); [reflexivity|].
  intros [H|H]; [contradiction|]. cbn. now rewrite IH.
Qed.
Lemma rem1_other k j l : j <> k -> In j l -> In j (rem1 k l).
Proof.
  intros Hne. induction l as [|a r IH]; cbn; [tauto|]. destruct (N.eqb_spec a k).
  - intros [H|H]; [congruence|exact H].
  - intros [H|H]; [now left|right; auto].
Qed.
Lemma rem1_incl k j l : In j (rem1 k l) -> In j l.
Proof.
  induction l as [|a r IH]; cbn; [tauto|]. destruct (N.eqb_spec a k); [auto|].
  intros [H|H]; auto.
Qed.

Lemma memN_removeN_same k l : memN k (removeN k l) = false.
Proof.
  destruct (memN k (removeN k l)) eqn:E; [|reflexivity]. apply memN_In in E. unfold removeN in E.
  apply filter_In in E. destruct E as [_ E]. now rewrite N.eqb_refl in E.
Qed.
Lemma memN_removeN_other k j l : j <> k -> memN j (removeN k l) = memN j l.
Proof.
  intros Hne. destruct (memN j l) eqn:E.
  - apply memN_In. apply memN_In in E. unfold removeN. apply filter_In. split; [exact E|].
    apply negb_true_iff. now apply N.eqb_neq.
  - destruct (memN j (removeN k l)) eqn:E2; [|reflexivity]. apply memN_In in E2. unfold removeN in E2.
    apply filter_In in E2. destruct E2 as [E2 _]. apply memN_In in E2. congruence.
Qed.
Lemma memN_cons k a l : memN k (a :: l) = N.eqb k a || memN k l.
Proof. reflexivity. Qed.

(* ---- forward simulation with a ghost component ------------------------------------------------------ *)
Section GSim.
Context (cs : amap pconf) (ord : bool) (G : Type) (g0 : G).
Context (gstep : obs -> G -> tid * event -> G) (bad : G -> bool).
Context (R : sys -> obs -> G -> Prop) (m : obs -> tid * event -> bool).
Context (R0 : R (init cs ord) (obs0 cs) g0).
Context (Rstep : forall s o g e s', R s o g -> step s e = Some s' -> bad (gstep o g e) = false ->
                 R s' (obs_step cs o e) (gstep o g e) /\ m o e = true).
Context (bad_mono : forall o g e, bad g = true -> bad (gstep o g e) = true).

Fixpoint grun (o : obs) (g : G) (evs : list (tid * event)) : G :=
  match evs with
  | [] => g
  | e :: r => grun (obs_step cs o e) (gstep o g e) r
  end.

Lemma grun_bad : forall evs o g, bad g = true -> bad (grun o g evs) = true.
Proof. induction evs as [|e r IH]; intros o g H; cbn; [exact H|]. apply IH. now apply bad_mono. Qed.

Lemma gsim_run : forall evs s o g k s', R s o g -> accept s evs = Some s' ->
  bad (grun o g evs) = false -> mon_run cs m o evs k = None.
Proof.
  induction evs as [|e evs IH]; intros s o g k s' HR Hacc Hb; [reflexivity|].
  cbn in Hacc. destruct (step s e) as [s1|] eqn:Es; [|discriminate].
  cbn [grun] in Hb.
  assert (Hb1 : bad (gstep o g e) = false).
  { destruct (bad (gstep o g e)) eqn:E; [|reflexivity]. rewrite (grun_bad evs _ _ E) in Hb. discriminate. }
  destruct (Rstep s o g e s1 HR Es Hb1) as [HR1 Hm].
  cbn [mon_run]. rewrite Hm. eapply IH; eauto.
Qed.

Theorem gsim_holds : forall evs s,
  accept (init cs ord) evs = Some s -> bad (grun (obs0 cs) g0 evs) = false ->
  holds cs (fun _ => m) evs = true.
Proof. intros evs s Hacc Hb. unfold holds. now rewrite (gsim_run evs _ _ _ 0 s R0 Hacc Hb). Qed.
End GSim.

(* ---- the parts of the model state C04 looks at ------------------------------------------------------- *)
Inductive pclass := CPre | CAlive | CTrig | CRel | COther.

Definition cl (p : ipc) : pclass :=
  match p with
  | IDeps _ | IBlocked _ _ _ _ | ISkipDecided => CPre
  | IAlive => CAlive
  | ITriggered _ => CTrig
  | IWgDone | IGone => CRel
  | _ => COther
  end.

(* class of the own instance after an event of its thread *)
Definition cl_next (e : event) (c : pclass) : pclass :=
  match e with
  | ESkip | ERunChecked _ => COther
  | ELaunch true => CAlive
  | EWaitReturn _ => COther
  | EExitTrigger _ => CTrig
  | EExitCodeSet _ => COther
  | EInstExit => CRel
  | _ => c
  end.
(* class the own instance must be in for the event to be accepted *)
Definition cl_pre (e : event) : option pclass :=
  match e with
  | ESkip | ERunChecked _ => Some CPre
  | ELaunch _ => Some COther
  | EWaitReturn _ => Some CAlive
  | EExitTrigger _ => Some COther
  | EExitCodeSet _ => Some CTrig
  | EInstExit => Some COther
  | _ => None
  end.

Definition own (m : amap iid) (th : tid) (j : iid) : bool := opt_eqb N.eqb (get th m) (Some j).

Definition alive_next (ow : bool) (e : event) (j : iid) (a : bool) : bool :=
  match e with
  | ELaunch true => if ow then true else a
  | ECmdExit i _ => if N.eqb i j then false else a
  | _ => a
  end.
Definition exited_next (ow : bool) (e : event) (j : iid) (x : option Z) : option Z :=
  match e with
  | ECmdExit i c => if N.eqb i j then Some c else x
  | EWaitReturn _ => if ow then None else x
  | _ => x
  end.

Inductive pkind := PW | PC (c : Z) | PO.
Definition pk (r : option release) : pkind :=
  match r with Some RWgDone => PW | Some (RCodeOnce c) => PC c | _ => PO end.
Definition pk_next (e : event) : pkind :=
  match e with EInstExit => PW | EExitTrigger c => PC c | _ => PO end.

Lemma own_true m th j : own m th j = true <-> get th m = Some j.
Proof.
  unfold own. destruct (get th m) as [i|]; cbn; [|split; discriminate].
  rewrite N.eqb_eq. split; congruence.
Qed.

(* ---- model side: effect of one accepted step_core on the instances --------------------------------- *)
Ltac kind_cases H :=
  unfold_steps H; unfold own_inst in H; cbn [fst snd] in H; break_step H;
  repeat match goal with E : (match _ with _ => _ end) = Some _ |- _ => break_step E end;
  repeat match goal with E : _ = ?s' |- _ => is_var s'; subst s' end.

Definition inst_eff (s : sys) (th : tid) (e : event) (s' : sys) : Prop :=
  forall j x, get j (insts s) = Some x -> exists x', get j (insts s') = Some x' /\
    cl (pc x') = (if own (thinst s) th j then cl_next e (cl (pc x)) else cl (pc x)) /\
    alive x' = alive_next (own (thinst s) th j) e j (alive x) /\
    exited x' = exited_next (own (thinst s) th j) e j (exited x).

Ltac inst_eff_tac :=
  intros jj xx Hjj;
  repeat (sup_simpl; match goal with |- context[insts ?X] =>
    match X with
    | match ?b with _ => _ end => destruct b eqn:?
    | if ?b then _ else _ => destruct b eqn:?
    end end);
  sup_simpl; cbn -[get Assoc.set N.eqb]; sup_simpl; cbn -[get Assoc.set N.eqb];
  repeat match goal with
  | |- context[N.eqb ?a jj] => destruct (N.eqb_spec a jj); [subst|]
  end;
  repeat match goal with
  | H1 : get ?i ?m = Some ?a, H2 : get ?i ?m = Some ?b |- _ => assert (a = b) by congruence; subst; clear H2
  end;
  repeat match goal with H : get jj (insts _) = _ |- _ => rewrite H end; cbn [option_map];
  (eexists; split; [reflexivity|]); unfold own;
  repeat match goal with E : get _ (thinst _) = _ |- _ => rewrite E end; cbn [opt_eqb];
  repeat match goal with
  | |- context[N.eqb ?a ?a] => rewrite N.eqb_refl
  | H : ?a <> ?b |- context[N.eqb ?a ?b] => rewrite (proj2 (N.eqb_neq a b) H)
  end; cbn;
  repeat match goal with E : pc _ = _ |- _ => rewrite E end;
  repeat match goal with
  | |- context[if ?b then _ else _] => destruct b
  | |- context[match ?b with _ => _ end] => destruct b
  end; cbn; repeat split; reflexivity.

Lemma own_eff s th e s' : step_own s th e = Some s' -> inst_eff s th e s'.
Proof. intros H. unfold inst_eff. destruct e; kind_cases H; inst_eff_tac. Qed.
Lemma reg_eff s th e s' : step_reg s th e = Some s' -> (forall i n, e <> ENewInst i n) -> inst_eff s th e s'.
Proof. intros H Hn. unfold inst_eff. destruct e; try (exfalso; eapply Hn; reflexivity); kind_cases H; inst_eff_tac. Qed.
Lemma api_eff s th e s' : step_api s th e = Some s' -> inst_eff s th e s'.
Proof. intros H. unfold inst_eff. destruct e; kind_cases H; inst_eff_tac. Qed.
Lemma stop_eff s th e s' : step_stop s th e = Some s' -> inst_eff s th e s'.
Proof. intros H. unfold inst_eff. destruct e; kind_cases H; inst_eff_tac. Qed.
Lemma state_eff s th i s0 s' : step_state s th i s0 = Some s' -> inst_eff s th (EState i s0) s'.
Proof. intros H. unfold inst_eff. kind_cases H; inst_eff_tac. Qed.
Lemma procend_eff s th i s0 b s' : step_procend s th i s0 b = Some s' -> inst_eff s th (if b then EProcEnd i s0 else EProcEnded i s0) s'.
Proof. intros H. unfold inst_eff. destruct b; kind_cases H; inst_eff_tac. Qed.
Lemma ordered_eff s th i s' : step_ordered_go s th i = Some s' -> inst_eff s th (EOrderedGo i) s'.
Proof. intros H. unfold inst_eff. kind_cases H; inst_eff_tac. Qed.
Lemma env_eff s th e s' : step_env s th e = Some s' -> inst_eff s th e s'.
Proof. intros H. unfold inst_eff. destruct e; kind_cases H; inst_eff_tac. Qed.

Lemma fold_upd_inst_proj {A} (P : sys -> A) (f : inst -> inst) l :
  (forall i s, P (upd_inst i f s) = P s) -> forall s, P (fold_left (fun s i => upd_inst i f s) l s) = P s.
Proof. intros HP. induction l as [|a l IH]; intros s; cbn; [reflexivity|]. now rewrite IH, HP. Qed.

Lemma fold_upd_inst_get (f : inst -> inst) l :
  (forall x, pc (f x) = pc x /\ alive (f x) = alive x /\ exited (f x) = exited x) ->
  forall s j x, get j (insts s) = Some x ->
  exists x', get j (insts (fold_left (fun s i => upd_inst i f s) l s)) = Some x' /\
             pc x' = pc x /\ alive x' = alive x /\ exited x' = exited x.
Proof.
  intros Hf. induction l as [|a l IH]; intros s j x Hj; cbn; [eauto|].
  assert (exists y, get j (insts (upd_inst a f s)) = Some y /\ pc y = pc x /\ alive y = alive x /\ exited y = exited x) as (y & Hy & ? & ? & ?).
  { rewrite insts_upd_inst. destruct (N.eqb a j); rewrite Hj; cbn; [exists (f x); destruct (Hf x) as (? & ? & ?); auto|eauto]. }
  destruct (IH _ _ _ Hy) as (x' & ? & ? & ? & ?). exists x'. repeat split; congruence.
Qed.

Lemma shutdown_eff s th e s' : step_shutdown s th e = Some s' -> inst_eff s th e s'.
Proof.
  intros H. unfold inst_eff. destruct e; kind_cases H; try inst_eff_tac.
  intros j x Hj. cbn -[get].
  destruct (fold_upd_inst_get (fun x0 : inst => x0 <| f_stopped := true |>) order (fun y => ltac:(cbn; auto)) s j x Hj)
    as (x' & Hx' & Hp & Ha & He).
  exists x'. split; [exact Hx'|]. rewrite Hp, Ha, He. destruct (own _ _ _); cbn; auto.
Qed.

Lemma core_inst_eff s th e s' : step_core s th e = Some s' -> (forall i n, e <> ENewInst i n) -> inst_eff s th e s'.
Proof.
  intros H Hn. destruct (step_core_kind _ _ _ _ H) as [? ?|i x ? ? ? ? ? ?|Hk|Hk|Hk|i s0 ? Hk|i s0 b ? Hk|Hk|i ? Hk|Hk|Hk]; subst.
  - intros j x Hj. exists x. split; [exact Hj|]. destruct (own _ _ _); cbn; auto.
  - intros j y Hj. exists y. split; [exact Hj|]. destruct (own _ _ _); cbn; auto.
  - now apply reg_eff.
  - now apply api_eff.
  - now apply stop_eff.
  - now apply state_eff.
  - now apply procend_eff.
  - now apply shutdown_eff.
  - now apply ordered_eff.
  - now apply env_eff.
  - now apply own_eff.
Qed.

Lemma newinst_eff s th i n s' : step_core s th (ENewInst i n) = Some s' ->
  get i (insts s) = None /\ exists c, forall j, get j (insts s') = if N.eqb i j then Some (new_inst n c) else get j (insts s).
Proof.
  intros H. cbn in H. unfold step_reg in H. break_step H. subst s'. apply negb_true_iff in E0. unfold has in E0.
  destruct (get i (insts s)) eqn:Ei; [discriminate|]. split; [reflexivity|]. exists p. intros j. cbn. apply get_set.
Qed.

(* scalar parts and the other threads *)
Definition scal_eff (s : sys) (th : tid) (e : event) (s' : sys) : Prop :=
  wg s' = (match e with ESpawn _ _ => S (wg s) | _ => wg s end) /\
  code_set s' = code_set s /\ proj_code s' = proj_code s /\
  thinst s' = (match e with EBegin i => set th i (thinst s) | _ => thinst s end) /\
  (forall th', th' <> th -> get_thread s' th' = get_thread s th').

Ltac destr_state :=
  repeat (sup_simpl; match goal with
    | |- context[?f ?X] =>
      match type of X with sys =>
        match X with
        | match ?b with _ => _ end => destruct b eqn:?
        | if ?b then _ else _ => destruct b eqn:?
        end end end).

Ltac scal_tac :=
  unfold scal_eff; destr_state; sup_simpl; cbn -[get Assoc.set N.eqb get_thread]; sup_simpl; cbn -[get Assoc.set N.eqb get_thread];
  repeat split; try reflexivity;
  try (intros th' Hth'; unfold get_thread; sup_simpl; cbn -[get Assoc.set N.eqb]; sup_simpl; cbn -[get Assoc.set N.eqb]; rewrite ?(proj2 (N.eqb_neq _ _) (not_eq_sym Hth')); reflexivity).

Lemma own_scal s th e s' : step_own s th e = Some s' -> scal_eff s th e s'.
Proof. intros H. destruct e; kind_cases H; scal_tac. 
Qed.
Lemma reg_scal s th e s' : step_reg s th e = Some s' -> scal_eff s th e s'.
Proof. intros H. destruct e; kind_cases H; scal_tac. Qed.
Lemma api_scal s th e s' : step_api s th e = Some s' -> scal_eff s th e s'.
Proof. intros H. destruct e; kind_cases H; scal_tac. Qed.
Lemma stop_scal s th e s' : step_stop s th e = Some s' -> scal_eff s th e s'.
Proof. intros H. destruct e; kind_cases H; scal_tac. Qed.
Lemma state_scal s th i s0 s' : step_state s th i s0 = Some s' -> scal_eff s th (EState i s0) s'.
Proof. intros H. kind_cases H; scal_tac. Qed.
Lemma procend_scal s th i s0 b s' : step_procend s th i s0 b = Some s' -> scal_eff s th (if b then EProcEnd i s0 else EProcEnded i s0) s'.
Proof. intros H. destruct b; kind_cases H; scal_tac. Qed.
Lemma ordered_scal s th i s' : step_ordered_go s th i = Some s' -> scal_eff s th (EOrderedGo i) s'.
Proof. intros H. kind_cases H; scal_tac. Qed.
Lemma env_scal s th e s' : step_env s th e = Some s' -> scal_eff s th e s'.
Proof. intros H. destruct e; kind_cases H; scal_tac. Qed.
Lemma shutdown_scal s th e s' : step_shutdown s th e = Some s' -> scal_eff s th e s'.
Proof. intros H. destruct e; kind_cases H; try scal_tac.
  - apply (fold_upd_inst_proj wg). intros. apply upd_inst_wg.
  - apply (fold_upd_inst_proj code_set). intros. apply upd_inst_code_set.
  - apply (fold_upd_inst_proj proj_code). intros. apply upd_inst_proj_code.
  - apply (fold_upd_inst_proj thinst). intros. apply upd_inst_thinst.
  - intros th' Hth'. unfold get_thread. cbn -[get Assoc.set N.eqb]. rewrite get_set_other by congruence.
    rewrite (fold_upd_inst_proj threads); [reflexivity|]. intros. apply upd_inst_threads.
Qed.

Lemma core_scal s th e s' : step_core s th e = Some s' -> scal_eff s th e s'.
Proof.
  intros H. destruct (step_core_kind _ _ _ _ H) as [? ?|i x ? ? ? ? ? ?|Hk|Hk|Hk|i s0 ? Hk|i s0 b ? Hk|Hk|i ? Hk|Hk|Hk]; subst.
  - repeat split; reflexivity.
  - repeat split; reflexivity.
  - now apply reg_scal.
  - now apply api_scal.
  - now apply stop_scal.
  - now apply state_scal.
  - now apply procend_scal.
  - now apply shutdown_scal.
  - now apply ordered_scal.
  - now apply env_scal.
  - now apply own_scal.
Qed.
