(* Generic lemmas and definitions used by the C04 simulation proof (RelC04.v); the brute-force effect
   lemmas live in LemC04i/s/t/n/g/o/c.v, which import only this file, so that they compile side by side:
   - a multiset-as-list removal [rem1];
   - a forward-simulation theorem with a ghost (history) component next to the observer;
   - effect lemmas: how one accepted [step_core] / [flush] changes the few parts of the model state the
     C04 relation talks about (program-counter class, alive, exited, wait group, exit code, pending
     release, shutdown pc of the thread);
   - effect lemmas for the observer [obs_step] on the fields the C04 monitor reads. *)
From Coq Require Import List ZArith NArith Bool Lia.
From RecordUpdate Require Import RecordSet.
From PC.Base Require Import Assoc.
From PC.Sup Require Import Model Monitors Tactics Sim ObsFacts Effects RelCore.
Import ListNotations RecordSetNotations.

(* ---- lists ------------------------------------------------------------------------------------------ *)
Fixpoint rem1 (k : N) (l : list N) : list N :=
  match l with
  | [] => []
  | a :: r => if N.eqb a k then r else a :: rem1 k r
  end.

Lemma rem1_length k l : In k l -> S (length (rem1 k l)) = length l.
Proof.
  induction l as [|a r IH]; cbn; [tauto|]. destruct (N.eqb_spec a k); [reflexivity|].
  intros [H|H]; [contradiction|]. cbn. now rewrite IH.
Qed.
Lemma rem1_other k j l : j <> k -> In j l -> In j (rem1 k l).
Proof.
  intros Hne. induction l as [|a r IH]; cbn; [tauto|]. destruct (N.eqb_spec a k).
  - intros [H|H]; [congruence|exact H].
  - intros [H|H]; [now left|right; auto].
Qed.
Lemma rem1_incl k j l : In j (rem1 k l) -> In j l.
Proof.
  induction l as [|a r IH]; cbn; [tauto|]. destruct (N.eqb_spec a k); [auto|].
  intros [H|H]; auto.
Qed.

Lemma memN_removeN_same k l : memN k (removeN k l) = false.
Proof.
  destruct (memN k (removeN k l)) eqn:E; [|reflexivity]. apply memN_In in E. unfold removeN in E.
  apply filter_In in E. destruct E as [_ E]. now rewrite N.eqb_refl in E.
Qed.
Lemma memN_removeN_other k j l : j <> k -> memN j (removeN k l) = memN j l.
Proof.
  intros Hne. destruct (memN j l) eqn:E.
  - apply memN_In. apply memN_In in E. unfold removeN. apply filter_In. split; [exact E|].
    apply negb_true_iff. now apply N.eqb_neq.
  - destruct (memN j (removeN k l)) eqn:E2; [|reflexivity]. apply memN_In in E2. unfold removeN in E2.
    apply filter_In in E2. destruct E2 as [E2 _]. apply memN_In in E2. congruence.
Qed.
Lemma memN_cons k a l : memN k (a :: l) = N.eqb k a || memN k l.
Proof. reflexivity. Qed.

(* ---- forward simulation with a ghost component ------------------------------------------------------ *)
Section GSim.
Context (cs : amap pconf) (ord : bool) (G : Type) (g0 : G).
Context (gstep : obs -> G -> tid * event -> G) (bad : G -> bool).
Context (R : sys -> obs -> G -> Prop) (m : obs -> tid * event -> bool).
Context (R0 : R (init cs ord) (obs0 cs) g0).
Context (Rstep : forall s o g e s', R s o g -> step s e = Some s' -> bad (gstep o g e) = false ->
                 R s' (obs_step cs o e) (gstep o g e) /\ m o e = true).
Context (bad_mono : forall o g e, bad g = true -> bad (gstep o g e) = true).

Fixpoint grun (o : obs) (g : G) (evs : list (tid * event)) : G :=
  match evs with
  | [] => g
  | e :: r => grun (obs_step cs o e) (gstep o g e) r
  end.

Lemma grun_bad : forall evs o g, bad g = true -> bad (grun o g evs) = true.
Proof. induction evs as [|e r IH]; intros o g H; cbn; [exact H|]. apply IH. now apply bad_mono. Qed.

Lemma gsim_run : forall evs s o g k s', R s o g -> accept s evs = Some s' ->
  bad (grun o g evs) = false -> mon_run cs m o evs k = None.
Proof.
  induction evs as [|e evs IH]; intros s o g k s' HR Hacc Hb; [reflexivity|].
  cbn in Hacc. destruct (step s e) as [s1|] eqn:Es; [|discriminate].
  cbn [grun] in Hb.
  assert (Hb1 : bad (gstep o g e) = false).
  { destruct (bad (gstep o g e)) eqn:E; [|reflexivity]. rewrite (grun_bad evs _ _ E) in Hb. discriminate. }
  destruct (Rstep s o g e s1 HR Es Hb1) as [HR1 Hm].
  cbn [mon_run]. rewrite Hm. eapply IH; eauto.
Qed.

Theorem gsim_holds : forall evs s,
  accept (init cs ord) evs = Some s -> bad (grun (obs0 cs) g0 evs) = false ->
  holds cs (fun _ => m) evs = true.
Proof. intros evs s Hacc Hb. unfold holds. now rewrite (gsim_run evs _ _ _ 0 s R0 Hacc Hb). Qed.
End GSim.

(* ---- the parts of the model state C04 looks at ------------------------------------------------------- *)
Inductive pclass := CPre | CAlive | CTrig | CRel | COther.

Definition cl (p : ipc) : pclass :=
  match p with
  | IDeps _ | IBlocked _ _ _ _ | ISkipDecided => CPre
  | IAlive => CAlive
  | ITriggered _ => CTrig
  | IWgDone | IGone => CRel
  | _ => COther
  end.

(* class of the own instance after an event of its thread *)
Definition cl_next (e : event) (c : pclass) : pclass :=
  match e with
  | ESkip | ERunChecked _ => COther
  | ELaunch true => CAlive
  | EWaitReturn _ => COther
  | EExitTrigger _ => CTrig
  | EExitCodeSet _ => COther
  | EInstExit => CRel
  | _ => c
  end.
(* class the own instance must be in for the event to be accepted *)
Definition cl_pre (e : event) : option pclass :=
  match e with
  | ESkip | ERunChecked _ => Some CPre
  | ELaunch _ => Some COther
  | EWaitReturn _ => Some CAlive
  | EExitTrigger _ => Some COther
  | EExitCodeSet _ => Some CTrig
  | EInstExit => Some COther
  | _ => None
  end.

Definition own (m : amap iid) (th : tid) (j : iid) : bool := opt_eqb N.eqb (get th m) (Some j).

Definition alive_next (ow : bool) (e : event) (j : iid) (a : bool) : bool :=
  match e with
  | ELaunch true => if ow then true else a
  | ECmdExit i _ => if N.eqb i j then false else a
  | _ => a
  end.
Definition exited_next (ow : bool) (e : event) (j : iid) (x : option Z) : option Z :=
  match e with
  | ECmdExit i c => if N.eqb i j then Some c else x
  | EWaitReturn _ => if ow then None else x
  | _ => x
  end.

Inductive pkind := PW | PC (c : Z) | PO.
Definition pk (r : option release) : pkind :=
  match r with Some RWgDone => PW | Some (RCodeOnce c) => PC c | _ => PO end.
Definition pk_next (e : event) : pkind :=
  match e with EInstExit => PW | EExitTrigger c => PC c | _ => PO end.

Lemma own_true m th j : own m th j = true <-> get th m = Some j.
Proof.
  unfold own. destruct (get th m) as [i|]; cbn; [|split; discriminate].
  rewrite N.eqb_eq. split; congruence.
Qed.

(* ---- shared by the effect-lemma files ----------------------------------------------------------------- *)
Ltac kind_cases H :=
  unfold_steps H; unfold own_inst in H; cbn [fst snd] in H; break_step H;
  repeat match goal with E : (match _ with _ => _ end) = Some _ |- _ => break_step E end;
  repeat match goal with E : _ = ?s' |- _ => is_var s'; subst s' end.


(* [sup_simpl] on the goal only: the hypotheses produced by [kind_cases] talk about the pre-state, which
   contains no update to rewrite *)
Ltac sup_goal :=
  unfold set_pc, end_finish, end_release_early;
  autorewrite with sup; cbn [fst snd option_map].

Ltac destr_state :=
  repeat (sup_goal; match goal with
    | |- context[?f ?X] =>
      match type of X with sys =>
        match X with
        | match ?b with _ => _ end => destruct b eqn:?
        | if ?b then _ else _ => destruct b eqn:?
        end end end).


Lemma fold_upd_inst_proj {A} (P : sys -> A) (f : inst -> inst) l :
  (forall i s, P (upd_inst i f s) = P s) -> forall s, P (fold_left (fun s i => upd_inst i f s) l s) = P s.
Proof. intros HP. induction l as [|a l IH]; intros s; cbn; [reflexivity|]. now rewrite IH, HP. Qed.

Lemma fold_upd_inst_get (f : inst -> inst) l :
  (forall x, pc (f x) = pc x /\ alive (f x) = alive x /\ exited (f x) = exited x) ->
  forall s j x, get j (insts s) = Some x ->
  exists x', get j (insts (fold_left (fun s i => upd_inst i f s) l s)) = Some x' /\
             pc x' = pc x /\ alive x' = alive x /\ exited x' = exited x.
Proof.
  intros Hf. induction l as [|a l IH]; intros s j x Hj; cbn; [eauto|].
  assert (exists y, get j (insts (upd_inst a f s)) = Some y /\ pc y = pc x /\ alive y = alive x /\ exited y = exited x) as (y & Hy & ? & ? & ?).
  { rewrite insts_upd_inst. destruct (N.eqb a j); rewrite Hj; cbn; [exists (f x); destruct (Hf x) as (? & ? & ?); auto|eauto]. }
  destruct (IH _ _ _ Hy) as (x' & ? & ? & ? & ?). exists x'. repeat split; congruence.
Qed.


Lemma fold_upd_inst_none (f : inst -> inst) l : forall s j, get j (insts s) = None ->
  get j (insts (fold_left (fun s i => upd_inst i f s) l s)) = None.
Proof.
  induction l as [|a l IH]; intros s j Hj; cbn; [exact Hj|]. apply IH. rewrite insts_upd_inst, Hj. now destruct (N.eqb a j).
Qed.


(* the effect summaries *)
Definition inst_eff (s : sys) (th : tid) (e : event) (s' : sys) : Prop :=
  forall j x, get j (insts s) = Some x -> exists x', get j (insts s') = Some x' /\
    cl (pc x') = (if own (thinst s) th j then cl_next e (cl (pc x)) else cl (pc x)) /\
    alive x' = alive_next (own (thinst s) th j) e j (alive x) /\
    exited x' = exited_next (own (thinst s) th j) e j (exited x).


(* scalar parts and the other threads *)
Definition scal_eff (s : sys) (th : tid) (e : event) (s' : sys) : Prop :=
  wg s' = (match e with ESpawn _ _ => S (wg s) | _ => wg s end) /\
  code_set s' = code_set s /\ proj_code s' = proj_code s /\
  thinst s' = (match e with EBegin i => set th i (thinst s) | _ => thinst s end) /\
  (forall th', th' <> th -> get_thread s' th' = get_thread s th').


(* the thread of the event *)
Definition thr_eff (s : sys) (th : tid) (e : event) (s' : sys) : Prop :=
  (pend (get_thread s th) = None -> pk (pend (get_thread s' th)) = pk_next e) /\
  (dpc (get_thread s th) = DNone -> e <> EShutdownCall -> dpc (get_thread s' th) = DNone) /\
  (has th (thinst s) = true -> apc (get_thread s th) = ANone -> apc (get_thread s' th) = ANone).


Definition none_eff (s : sys) (th : tid) (e : event) (s' : sys) : Prop :=
  forall j, get j (insts s) = None -> (forall n, e <> ENewInst j n) -> get j (insts s') = None.


(* hardened model: the creation stage of instances *)
Lemma upd_inst_stage i f s : stage (upd_inst i f s) = stage s. Proof. frame_tac. Qed.
Lemma upd_vis_stage n f s : stage (upd_vis n f s) = stage s. Proof. frame_tac. Qed.
Lemma set_thread_stage th t s : stage (set_thread th t s) = stage s. Proof. reflexivity. Qed.
Lemma write_status_stage n s0 s : stage (write_status n s0 s) = stage s.
Proof. unfold write_status. now rewrite upd_vis_stage. Qed.
#[export] Hint Rewrite upd_inst_stage upd_vis_stage set_thread_stage write_status_stage : sup.

Lemma at_stage_get s th i k : at_stage s th i k = true -> get i (stage s) = Some (th, k).
Proof.
  unfold at_stage. destruct (get i (stage s)) as [[t k']|]; [|discriminate]. intros H.
  apply andb_true_iff in H. destruct H as [H1 H2]. apply N.eqb_eq in H1. apply Nat.eqb_eq in H2. now subst.
Qed.


Definition stage_eff (s : sys) (th : tid) (e : event) (s' : sys) : Prop :=
  match e with
  | ENewInst i _ => stage s' = set i (th, 0) (stage s)
  | EState i _ => stage s' = stage s \/ (stage s' = set i (th, 1) (stage s) /\ get i (stage s) = Some (th, 0))
  | ERegAdd i _ => stage s' = set i (th, 2) (stage s) /\ get i (stage s) = Some (th, 1)
  | ESpawn i _ => stage s' = set i (th, 3) (stage s) /\ get i (stage s) = Some (th, 2)
  | EBegin i => stage s' = del i (stage s) /\ exists c, get i (stage s) = Some (c, 3)
  | _ => stage s' = stage s
  end.

