(* C12 proof: the per-instance relation PI is preserved by the steps of one sub-step function (see RelC12.v). *)
From Coq Require Import List ZArith NArith Bool Lia.
From RecordUpdate Require Import RecordSet.
From PC.Base Require Import Assoc.
From PC.Sup Require Import Model Monitors Tactics Sim ObsFacts Effects RelCore LemC12 LemC12Inst LemC12Obs RelC12.
Import ListNotations RecordSetNotations.
Section PIstep.
Context (cs : amap pconf).
Lemma PI_ordered s o th i s' : step_ordered_go s th i = Some s' -> PI_goal cs s o th (EOrderedGo i) s'.
Proof.
  intros H f f' HR Hf HO HT j x xo x' xo' Hx Hxo [Pa Pc Pd Pl] Hx' Hxo'.
  pose proof (rc_th _ _ _ HR) as Hrth.
  kind_cases H; pi_leaf j s x.
Qed.

Lemma PI_env s o th e s' : step_env s th e = Some s' -> PI_goal cs s o th e s'.
Proof.
  intros H f f' HR Hf HO HT j x xo x' xo' Hx Hxo [Pa Pc Pd Pl] Hx' Hxo'.
  pose proof (rc_th _ _ _ HR) as Hrth.
  destruct e; kind_cases H; pi_leaf j s x.
Qed.

End PIstep.
