(* C12 proof (hardened model): the only window the proof needs is commit (F20/F21). *)
From Coq Require Import List ZArith NArith Bool Lia.
From RecordUpdate Require Import RecordSet.
From PC.Base Require Import Assoc.
From PC.Sup Require Import Model Monitors Tactics Sim ObsFacts Effects RelCore LemC12Obs.
Import ListNotations RecordSetNotations.

(* what the observer adds to w_commit at a stop that finds the instance Pending *)
Definition extra1 (o : obs) (e : event) : bool :=
  match e with EStopPending i => o_commit (oi_get o i) | _ => false end.

Lemma w_commit_mono cs o te : w_commit (obs_step cs o te) = false -> w_commit o = false.
Proof.
  intros H. pose proof (obs_step_flags_mono cs o te) as Hm. unfold flag_le, windows_of in Hm.
  inversion Hm as [|? ? ? ? _ Hm1]; subst. inversion Hm1 as [|? ? ? ? _ Hm2]; subst.
  inversion Hm2 as [|? ? ? ? Hc _]; subst. destruct (w_commit o); [|reflexivity]. rewrite Hc in H; [discriminate|reflexivity].
Qed.

Lemma Wc_step cs o th e : w_commit (obs_step cs o (th, e)) = false -> w_commit o = false /\ extra1 o e = false.
Proof.
  intros H. split; [eapply w_commit_mono; eauto|].
  destruct e; try reflexivity. cbn [extra1]. unfold obs_step in H. cbn [fst snd ev_inst] in H.
  cbn in H. rewrite oi_upd_w_commit in H. cbn in H. apply orb_false_iff in H. tauto.
Qed.
