(* Effect of one accepted step on the creation stage of instances (hardened model), for RelC04. *)
From Coq Require Import List ZArith NArith Bool Lia.
From RecordUpdate Require Import RecordSet.
From PC.Base Require Import Assoc.
From PC.Sup Require Import Model Monitors Tactics Sim ObsFacts Effects RelCore LemC04.
Import ListNotations RecordSetNotations.

Ltac stage_tac :=
  unfold stage_eff; destr_state; sup_goal; cbn -[get Assoc.set N.eqb get_thread]; sup_goal; cbn -[get Assoc.set N.eqb get_thread];
  repeat match goal with H : at_stage _ _ _ _ = true |- _ => apply at_stage_get in H end;
  try reflexivity; auto.

Lemma own_stage s th e s' : step_own s th e = Some s' -> stage_eff s th e s'.
Proof. intros H. destruct e; kind_cases H; stage_tac. Qed.
Lemma reg_stage s th e s' : step_reg s th e = Some s' -> stage_eff s th e s'.
Proof. intros H. destruct e; kind_cases H; stage_tac. Qed.
Lemma api_stage s th e s' : step_api s th e = Some s' -> stage_eff s th e s'.
Proof. intros H. destruct e; kind_cases H; stage_tac. Qed.
Lemma stop_stage s th e s' : step_stop s th e = Some s' -> stage_eff s th e s'.
Proof. intros H. destruct e; kind_cases H; stage_tac. Qed.
Lemma state_stage s th i s0 s' : step_state s th i s0 = Some s' -> stage_eff s th (EState i s0) s'.
Proof. intros H. kind_cases H; stage_tac. Qed.
Lemma procend_stage s th i s0 b s' : step_procend s th i s0 b = Some s' -> stage_eff s th (if b then EProcEnd i s0 else EProcEnded i s0) s'.
Proof. intros H. destruct b; kind_cases H; stage_tac. Qed.
Lemma ordered_stage s th i s' : step_ordered_go s th i = Some s' -> stage_eff s th (EOrderedGo i) s'.
Proof. intros H. kind_cases H; stage_tac. Qed.
Lemma env_stage s th e s' : step_env s th e = Some s' -> stage_eff s th e s'.
Proof. intros H. destruct e; kind_cases H; stage_tac. Qed.
Lemma shutdown_stage s th e s' : step_shutdown s th e = Some s' -> stage_eff s th e s'.
Proof. intros H. destruct e; kind_cases H; try stage_tac.
  apply (fold_upd_inst_proj stage). intros. apply upd_inst_stage.
Qed.

Lemma core_stage s th e s' : step_core s th e = Some s' -> stage_eff s th e s'.
Proof.
  intros H. destruct (step_core_kind _ _ _ _ H) as [? ?|i x ? ? ? ? ? Hst ?|Hk|Hk|Hk|i s0 ? Hk|i s0 b ? Hk|Hk|i ? Hk|Hk|Hk]; subst.
  - reflexivity.
  - cbn. split; [reflexivity|exact Hst].
  - now apply reg_stage.
  - now apply api_stage.
  - now apply stop_stage.
  - now apply state_stage.
  - now apply procend_stage.
  - now apply shutdown_stage.
  - now apply ordered_stage.
  - now apply env_stage.
  - now apply own_stage.
Qed.

Lemma flush_stage th s : stage (flush th s) = stage s.
Proof.
  unfold flush. destruct (get th (threads s)) as [t|]; [|reflexivity]. destruct (pend t) as [r|]; [|reflexivity].
  destruct r; unfold apply_release; sup_simpl; try reflexivity. destruct (code_set _); reflexivity.
Qed.
