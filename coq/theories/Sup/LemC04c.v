(* Effect of one accepted step on the creation stage of instances (hardened model), for RelC04. *)
From Coq Require Import List ZArith NArith Bool Lia.
From RecordUpdate Require Import RecordSet.
From PC.Base Require Import Assoc.
From PC.Sup Require Import Model Monitors Tactics Sim ObsFacts Effects RelCore LemC04.
Import ListNotations RecordSetNotations.

Lemma upd_inst_stage i f s : stage (upd_inst i f s) = stage s. Proof. frame_tac. Qed.
Lemma upd_vis_stage n f s : stage (upd_vis n f s) = stage s. Proof. frame_tac. Qed.
Lemma set_thread_stage th t s : stage (set_thread th t s) = stage s. Proof. reflexivity. Qed.
Lemma write_status_stage n s0 s : stage (write_status n s0 s) = stage s.
Proof. unfold write_status. now rewrite upd_vis_stage. Qed.
#[export] Hint Rewrite upd_inst_stage upd_vis_stage set_thread_stage write_status_stage : sup.

Lemma at_stage_get s th i k : at_stage s th i k = true -> get i (stage s) = Some (th, k).
Proof.
  unfold at_stage. destruct (get i (stage s)) as [[t k']|]; [|discriminate]. intros H.
  apply andb_true_iff in H. destruct H as [H1 H2]. apply N.eqb_eq in H1. apply Nat.eqb_eq in H2. now subst.
Qed.

Definition stage_eff (s : sys) (th : tid) (e : event) (s' : sys) : Prop :=
  match e with
  | ENewInst i _ => stage s' = set i (th, 0) (stage s)
  | EState i _ => stage s' = stage s \/ (stage s' = set i (th, 1) (stage s) /\ get i (stage s) = Some (th, 0))
  | ERegAdd i _ => stage s' = set i (th, 2) (stage s) /\ get i (stage s) = Some (th, 1)
  | ESpawn i _ => stage s' = set i (th, 3) (stage s) /\ get i (stage s) = Some (th, 2)
  | EBegin i => stage s' = del i (stage s) /\ exists c, get i (stage s) = Some (c, 3)
  | _ => stage s' = stage s
  end.

Ltac stage_tac :=
  unfold stage_eff; destr_state; sup_simpl; cbn -[get Assoc.set N.eqb get_thread]; sup_simpl; cbn -[get Assoc.set N.eqb get_thread];
  repeat match goal with H : at_stage _ _ _ _ = true |- _ => apply at_stage_get in H end;
  try reflexivity; auto.

Lemma own_stage s th e s' : step_own s th e = Some s' -> stage_eff s th e s'.
Proof. intros H. destruct e; kind_cases H; stage_tac. Qed.
Lemma reg_stage s th e s' : step_reg s th e = Some s' -> stage_eff s th e s'.
Proof. intros H. destruct e; kind_cases H; stage_tac. Qed.
Lemma api_stage s th e s' : step_api s th e = Some s' -> stage_eff s th e s'.
Proof. intros H. destruct e; kind_cases H; stage_tac. Qed.
Lemma stop_stage s th e s' : step_stop s th e = Some s' -> stage_eff s th e s'.
Proof. intros H. destruct e; kind_cases H; stage_tac. Qed.
Lemma state_stage s th i s0 s' : step_state s th i s0 = Some s' -> stage_eff s th (EState i s0) s'.
Proof. intros H. kind_cases H; stage_tac. Qed.
Lemma procend_stage s th i s0 b s' : step_procend s th i s0 b = Some s' -> stage_eff s th (if b then EProcEnd i s0 else EProcEnded i s0) s'.
Proof. intros H. destruct b; kind_cases H; stage_tac. Qed.
Lemma ordered_stage s th i s' : step_ordered_go s th i = Some s' -> stage_eff s th (EOrderedGo i) s'.
Proof. intros H. kind_cases H; stage_tac. Qed.
Lemma env_stage s th e s' : step_env s th e = Some s' -> stage_eff s th e s'.
Proof. intros H. destruct e; kind_cases H; stage_tac. Qed.
Lemma shutdown_stage s th e s' : step_shutdown s th e = Some s' -> stage_eff s th e s'.
Proof. intros H. destruct e; kind_cases H; try stage_tac.
  apply (fold_upd_inst_proj stage). intros. apply upd_inst_stage.
Qed.

Lemma core_stage s th e s' : step_core s th e = Some s' -> stage_eff s th e s'.
Proof.
  intros H. destruct (step_core_kind _ _ _ _ H) as [? ?|i x ? ? ? ? ? Hst ?|Hk|Hk|Hk|i s0 ? Hk|i s0 b ? Hk|Hk|i ? Hk|Hk|Hk]; subst.
  - reflexivity.
  - cbn. split; [reflexivity|exact Hst].
  - now apply reg_stage.
  - now apply api_stage.
  - now apply stop_stage.
  - now apply state_stage.
  - now apply procend_stage.
  - now apply shutdown_stage.
  - now apply ordered_stage.
  - now apply env_stage.
  - now apply own_stage.
Qed.

Lemma flush_stage th s : stage (flush th s) = stage s.
Proof.
  unfold flush. destruct (get th (threads s)) as [t|]; [|reflexivity]. destruct (pend t) as [r|]; [|reflexivity].
  destruct r; unfold apply_release; sup_simpl; try reflexivity. destruct (code_set _); reflexivity.
Qed.
