(* Facts about the observer (Monitors.obs_step) that do not depend on the model. *)
From Coq Require Import List ZArith NArith Bool Lia.
From RecordUpdate Require Import RecordSet.
From PC.Base Require Import Assoc.
From PC.Sup Require Import Model Monitors Sim.
Import ListNotations RecordSetNotations.

(* helpers never touch the window flags *)
Lemma oi_upd_flags i f o :
  windows_of (oi_upd i f o) = windows_of o.
Proof. unfold oi_upd. destruct (get i (oi o)); reflexivity. Qed.
Lemma on_upd_flags n f o :
  windows_of (on_upd n f o) = windows_of o.
Proof. unfold on_upd. destruct (get n (onm o)); reflexivity. Qed.
Lemma refresh_flags o : windows_of (refresh_succ o) = windows_of o.
Proof. reflexivity. Qed.

Ltac flag_tac :=
  repeat match goal with
  | |- context[oi_upd ?i ?f ?o] => rewrite (oi_upd_flags i f o)
  | |- context[on_upd ?n ?f ?o] => rewrite (on_upd_flags n f o)
  end.

(* each flag is sticky *)
Definition flag_le (o o' : obs) : Prop :=
  Forall2 (fun a b : bool => a = true -> b = true) (windows_of o) (windows_of o').

Lemma flag_le_refl o : flag_le o o.
Proof. unfold flag_le. induction (windows_of o); constructor; auto. Qed.

Lemma flag_le_eq o o' : windows_of o' = windows_of o -> flag_le o o'.
Proof. intros H. unfold flag_le. rewrite H. apply flag_le_refl. Qed.

Lemma any_window_le o o' : flag_le o o' -> any_window o = true -> any_window o' = true.
Proof.
  unfold flag_le, any_window. intros H. induction H as [|a b l l' Hab H IH]; cbn; [auto|].
  intros E. apply orb_true_iff in E. apply orb_true_iff. destruct E as [E|E]; [left; subst; now apply Hab|right; auto].
Qed.

Ltac destruct_matches :=
  repeat match goal with
  | |- context[match ?x with _ => _ end] => destruct x
  | |- context[if ?x then _ else _] => destruct x
  end.

Lemma fold_oi_upd_flags (f : oinst -> oinst) l o :
  windows_of (fold_left (fun o i => oi_upd i f o) l o) = windows_of o.
Proof. revert o. induction l as [|a l IH]; intros o; cbn; [reflexivity|]. now rewrite IH, oi_upd_flags. Qed.

Lemma fold_oi_upd_proj {A} (P : obs -> A) (f : oinst -> oinst) l :
  (forall i o, P (oi_upd i f o) = P o) -> forall o, P (fold_left (fun o i => oi_upd i f o) l o) = P o.
Proof. intros HP. induction l as [|a l IH]; intros o; cbn; [reflexivity|]. now rewrite IH, HP. Qed.

Ltac fold_proj P :=
  rewrite (fold_oi_upd_proj P) by (intros; unfold oi_upd; match goal with |- context[get ?i ?m] => destruct (get i m) end; reflexivity).

Lemma obs_step_flags_mono cs o te : flag_le o (obs_step cs o te).
Proof.
  destruct te as [th e]. unfold obs_step, flag_le. rewrite refresh_flags.
  destruct e; cbn [fst snd];
  try (destruct (ev_inst o th _) eqn:Ev);
  try match goal with |- context[match ?b with true => _ | false => _ end] => destruct b end;
  unfold note_late_commit; cbn;
  repeat match goal with
  | |- context[oi_upd ?i ?f ?o] => rewrite (oi_upd_flags i f o)
  | |- context[on_upd ?n ?f ?o] => rewrite (on_upd_flags n f o)
  | |- context[fold_left (fun o i => oi_upd i ?f o) ?l ?o] => rewrite (fold_oi_upd_flags f l o)
  end; cbn;
  try (apply flag_le_refl);
  unfold windows_of; cbn;
  repeat match goal with
  | |- context[oi_upd ?i ?f ?o] => rewrite (oi_upd_flags i f o)
  | |- context[on_upd ?n ?f ?o] => rewrite (on_upd_flags n f o)
  end;
  repeat (apply Forall2_cons || apply Forall2_nil);
  try (intro Hf; try fold_proj w_zombie; try fold_proj w_sdlag; try fold_proj w_commit; try fold_proj w_late;
       try fold_proj w_sdspawn; try fold_proj w_dup; try fold_proj w_stale;
       unfold on_upd, oi_upd; destruct_matches; cbn; rewrite ?Hf, ?orb_true_l, ?orb_true_r; try reflexivity; try assumption).
Qed.

Lemma any_window_mono cs o e : any_window o = true -> any_window (obs_step cs o e) = true.
Proof. apply any_window_le, obs_step_flags_mono. Qed.
