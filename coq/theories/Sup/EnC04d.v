(* C04 enabledness, part 7: progress of the quiet supervisor (deadlock-freedom along the dependency order). *)
From Coq Require Import List ZArith NArith Bool Lia.
From RecordUpdate Require Import RecordSet.
From PC.Base Require Import Assoc.
From PC.Sup Require Import Model Monitors Tactics Sim ObsFacts Effects RelCore
  LemC04 LemC04i LemC04g LemC04l RelC04 EnC04 EnC04p EnC04b EnC04q EnC04c.
Import ListNotations RecordSetNotations.

(* the dependency graph of the configuration is acyclic: it has a rank function (same definition as Sup/EnC12.v) *)
Definition ranked (cs : amap pconf) (rank : name -> nat) : Prop :=
  forall n c d, get n cs = Some c -> In d (map fst (deps c)) -> rank d < rank n.

(* the own events, including the first registry read of a dependency lookup (always possible) *)
Definition own_event2 (p : ipc) (e : event) : bool :=
  own_event p e || match p, e with IDeps (_ :: _), EDoneGet _ _ => true | _, _ => false end.

Definition inst_side (s : sys) (th : tid) (e : event) : Prop :=
  (exists i, e = EBegin i /\ get th (thinst s) = None) \/
  (exists i x, get th (thinst s) = Some i /\ get i (insts s) = Some x /\ own_event2 (pc x) e = true).
Definition Enabled (s : sys) : Prop := exists th e s', step s (th, e) = Some s' /\ inst_side s th e.

(* the quiet supervisor: nothing outside the instance goroutines is going on *)
Record quiet (s : sys) : Prop := mkQuiet {
  q_cmd : forall i x, get i (insts s) = Some x -> alive x = false /\ exited x = None;   (* no command alive, no exit undelivered *)
  q_lock : lock_free s = true;                                                          (* registry lock free *)
  q_stage : forall i c k, get i (stage s) = Some (c, k) -> k = 3;                       (* no instance half-created *)
  q_idle : forall t i, get t (thinst s) = Some i ->                                     (* no goroutine inside a stop / ShutDownProject *)
           spc (get_thread s t) = SIdle /\ dpc (get_thread s t) = DNone;
  q_gone : forall i x, get i (insts s) = Some x -> pc x = IGone -> l_done x = true      (* a goroutine that is gone has ended its process *)
}.

Lemma opt_eqb_N_refl a : opt_eqb N.eqb a a = true.
Proof. destruct a; cbn; [apply N.eqb_refl|reflexivity]. Qed.

Lemma lookup_enabled s t i x k todo : get t (thinst s) = Some i -> get i (insts s) = Some x -> pc x = IDeps (k :: todo) ->
  exists s', step s (t, EDoneGet k (get k (donereg s))) = Some s'.
Proof.
  intros _ _ _. unfold step. cbn [fst snd step_core]. unfold step_reg. rewrite flush_donereg, opt_eqb_N_refl. eauto.
Qed.

Lemma dep_cond_in c k cd : dep_cond c k = Some cd -> In k (map fst (deps c)).
Proof.
  unfold dep_cond. intros Hs. match type of Hs with match ?f with _ => _ end = _ => destruct f as [p|] eqn:E end; [|discriminate Hs].
  apply find_some in E.
  destruct E as [Hin He]. apply N.eqb_eq in He. subst k. now apply in_map.
Qed.

Section Progress.
Context (cs : amap pconf) (ord : bool) (rank : name -> nat) (Hrank : ranked cs rank).
Context (evs : list (tid * event)) (s : sys) (Hacc : accept (init cs ord) evs = Some s) (Hq : quiet s).

Lemma begun_cases t i x : get t (thinst s) = Some i -> get i (insts s) = Some x ->
  Enabled s \/ pc x = IGone \/
  (exists k c j todo y, pc x = IBlocked k c j todo /\ get j (insts s) = Some y /\ nm y = k /\
                        latch_released c y = false /\ rank k < rank (nm x)).
Proof.
  intros Ht Hx. pose proof (K_reach cs ord evs s Hacc) as HK. destruct (reach cs ord evs s Hacc) as (o & g & HR & _ & _).
  destruct (busy s t i x) eqn:Hb.
  2:{ left. destruct (own_step_enabled _ _ _ _ _ _ _ Hacc Ht Hx Hb) as (e & s' & He & Hs'). exists t, e, s'. split; [exact Hs'|].
      right. exists i, x. unfold own_event2. rewrite He. auto. }
  unfold busy in Hb. apply orb_true_iff in Hb. destruct Hb as [Hb|Hb].
  2:{ destruct (q_idle _ Hq t i Ht) as (Hs & Hd). rewrite Hs, Hd in Hb. discriminate. }
  destruct (pc x) eqn:Hp; try discriminate Hb.
  - (* IDeps (k :: _) *) destruct todo as [|k todo]; [discriminate|]. left.
    destruct (lookup_enabled s t i x k todo Ht Hx Hp) as (s' & Hs'). exists t, (EDoneGet k (get k (donereg s))), s'. split; [exact Hs'|].
    right. exists i, x. rewrite Hp. auto.
  - (* IBlocked *) right. right. destruct (k_blk _ HK i x k c j todo Hx Hp) as ((y & Hy & Hn) & Hd).
    rewrite Hy in Hb. apply negb_true_iff in Hb. exists k, c, j, todo, y. repeat split; auto.
    destruct (rc_inst _ _ _ (r_core _ _ _ _ HR) i x Hx) as (xo & _ & _ & Hcf & _).
    eapply Hrank; [exact Hcf|]. eapply dep_cond_in; eauto.
  - (* IAlive *) exfalso. destruct (q_cmd _ Hq i x Hx) as (Ha & He). destruct (k_alive _ HK i x Hx Hp) as [A|E]; congruence.
  - (* IWgDone *) exfalso. apply andb_true_iff in Hb. destruct Hb as [_ Hb]. rewrite (q_lock _ Hq) in Hb. discriminate.
  - auto.
Qed.

Lemma dep_progress : forall n j y, get j (insts s) = Some y -> rank (nm y) < n -> l_done y = true \/ Enabled s.
Proof.
  pose proof (K_reach cs ord evs s Hacc) as HK. destruct (reach cs ord evs s Hacc) as (o & g & HR & _ & H6).
  induction n as [|n IH]; intros j y Hy Hr; [lia|].
  destruct (k_ex _ HK j y Hy) as [(t & Ht)|([c k] & Hv)].
  2:{ right. pose proof (q_stage _ Hq j c k Hv) as ->. destruct (spawned_can_begin _ _ _ _ _ _ Hacc Hv) as (th & s' & Hn & Hs').
      exists th, (EBegin j), s'. split; [exact Hs'|]. left. eauto. }
  destruct (begun_cases t j y Ht Hy) as [He|[Hg|(k & c & j' & todo & y' & Hp & Hy' & Hn & Hl & Hrk)]]; [now right|left; now apply (q_gone _ Hq j y)|].
  destruct (IH j' y' Hy') as [Hd|He]; [subst k; lia| |now right].
  exfalso. rewrite (released_latch c y' Hd (r6_done _ H6 j' y' Hy' Hd)) in Hl. discriminate.
Qed.

Theorem quiet_progress : wg_quiet_b s = false -> Enabled s.
Proof.
  intros Eq. pose proof (K_reach cs ord evs s Hacc) as HK.
  pose proof (R8_reach _ _ _ _ Hacc) as H8. pose proof (R9_reach _ _ _ _ Hacc) as H9.
  destruct (reach cs ord evs s Hacc) as (o & g & HR & _ & H6).
  unfold wg_quiet_b in Eq. apply andb_false_iff in Eq. destruct Eq as [Eq|Eq].
  - assert (Hex : exists p, In p (stage s) /\ Nat.eqb (snd (snd p)) 3 = true).
    { clear - Eq. induction (stage s) as [|a r IH]; [discriminate|]. cbn in Eq. apply andb_false_iff in Eq.
      destruct Eq as [Eq|Eq]; [exists a; split; [now left|now apply negb_false_iff in Eq]|].
      destruct (IH Eq) as (p & Hin & Hp). exists p. split; [now right|exact Hp]. }
    destruct Hex as ([i [c k]] & Hin & Hk). cbn in Hk. apply Nat.eqb_eq in Hk. subst k.
    pose proof (in_get_nodup _ _ _ H9 Hin) as Hg.
    destruct (spawned_can_begin _ _ _ _ _ _ Hacc Hg) as (th & s' & Hn & Hs'). exists th, (EBegin i), s'. split; [exact Hs'|]. left. eauto.
  - assert (Hex : exists p, In p (thinst s) /\
              match get (snd p) (insts s) with
              | Some x => (match pc x with IWgDone | IGone => true | _ => false end) &&
                          (match pend (get_thread s (fst p)) with Some RWgDone => false | _ => true end)
              | None => true end = false).
    { clear - Eq. induction (thinst s) as [|a r IH]; [discriminate|]. cbn in Eq. apply andb_false_iff in Eq.
      destruct Eq as [Eq|Eq]; [exists a; split; [now left|exact Eq]|].
      destruct (IH Eq) as (p & Hin & Hp). exists p. split; [now right|exact Hp]. }
    destruct Hex as ([t i] & Hin & Hp). cbn [fst snd] in Hp. pose proof (in_get_nodup _ _ _ H8 Hin) as Ht.
    destruct (get i (insts s)) as [x|] eqn:Hx; [|discriminate].
    destruct (begun_cases t i x Ht Hx) as [He|[Hg|(k & c & j' & todo & y' & Hpc & Hy' & Hn & Hl & Hrk)]]; [exact He| |].
    + exfalso. rewrite Hg in Hp. cbn in Hp. destruct (pend (get_thread s t)) as [r|] eqn:Hpe; [|discriminate].
      destruct r; try discriminate. pose proof (k_wd _ HK t i x Ht Hx Hpe). congruence.
    + destruct (dep_progress (S (rank (nm y'))) j' y' Hy' (Nat.lt_succ_diag_r _)) as [Hd|He]; [|exact He].
      exfalso. rewrite (released_latch c y' Hd (r6_done _ H6 j' y' Hy' Hd)) in Hl. discriminate.
Qed.
End Progress.

Theorem progress_partial : forall cs ord rank evs s,
  ranked cs rank -> accept (init cs ord) evs = Some s -> quiet s -> ~ wg_quiet s -> Enabled s.
Proof.
  intros cs ord rank evs s Hr Hacc Hq Hn. apply (quiet_progress cs ord rank Hr evs s Hacc Hq).
  destruct (wg_quiet_b s) eqn:E; [|reflexivity]. exfalso. apply Hn. now apply wg_quiet_b_spec.
Qed.
