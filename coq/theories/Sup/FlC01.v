(* Latch frame for the C01 simulation proof: how a step may change the latches, pending releases and
   health of the model, where every NEW latch must be justified by a fact of the observer state o'. *)
From Coq Require Import List ZArith NArith Bool Lia.
From RecordUpdate Require Import RecordSet.
From PC.Base Require Import Assoc.
From PC.Sup Require Import Model Monitors Tactics Sim ObsFacts Effects RelCore LemC01 FrC01.
Import ListNotations RecordSetNotations.

Definition pend_just (o : obs) (p : option release) : Prop :=
  match p with
  | Some (RStarted i) => exists xo, get i (oi o) = Some xo /\ o_started xo = true
  | Some (RRunCtx i) => exists xo, get i (oi o) = Some xo /\ o_stopreq xo = true
  | Some (REndEarly i) => exists xo, get i (oi o) = Some xo /\ o_endst xo <> None
  | _ => True
  end.

Definition inst_le (o' : obs) (j : iid) (x x' : inst) : Prop :=
  forall xo', get j (oi o') = Some xo' ->
    (l_done x' = true -> l_done x = true \/ o_ended xo' = true) /\
    (l_started x' = true -> l_started x = true \/ o_started xo' = true) /\
    (l_runctx x' = true -> l_runctx x = true \/ o_stopreq xo' = true \/ o_endst xo' <> None) /\
    (l_logready x' = Some true -> l_logready x = Some true \/ o_logok xo' = true) /\
    (forall s1 c, pc x' = IInEnd s1 c false -> (exists s2 c2, pc x = IInEnd s2 c2 false) \/ o_endst xo' <> None).

Record frL (o' : obs) (s s' : sys) : Prop := mkFrL {
  fl_insts : forall j, match get j (insts s) with
             | Some x => exists x', get j (insts s') = Some x' /\ nm x' = nm x /\ inst_le o' j x x'
             | None => get j (insts s') = None end;
  fl_viss : forall n, match get n (viss s) with
            | Some v => exists v', get n (viss s') = Some v' /\
                        (hl v' = HReady -> hl v = HReady \/ forall r', get n (onm o') = Some r' -> r_ready r' = true)
            | None => get n (viss s') = None end;
  fl_pend : forall th, pend (get_thread s' th) = pend (get_thread s th) \/ pend_just o' (pend (get_thread s' th));
  fl_spc : forall th i, spc (get_thread s' th) = SPendE i ->
           spc (get_thread s th) = SPendE i \/ exists xo', get i (oi o') = Some xo' /\ o_endst xo' <> None }.

Lemma inst_le_refl o' j x : inst_le o' j x x.
Proof. intros xo' _. split; [|split; [|split; [|split]]]; eauto. Qed.

Lemma inst_le_trans o' j x1 x2 x3 : inst_le o' j x1 x2 -> inst_le o' j x2 x3 -> inst_le o' j x1 x3.
Proof.
  intros A B xo' H. destruct (A xo' H) as (A1 & A2 & A3 & A4 & A5). destruct (B xo' H) as (B1 & B2 & B3 & B4 & B5).
  split; [|split; [|split; [|split]]].
  - intros Q. destruct (B1 Q); auto.
  - intros Q. destruct (B2 Q); auto.
  - intros Q. destruct (B3 Q) as [|[|]]; auto.
  - intros Q. destruct (B4 Q); auto.
  - intros s1 c Q. destruct (B5 s1 c Q) as [(s2 & c2 & Q2)|]; eauto.
Qed.

Lemma frL_refl o' s : frL o' s s.
Proof.
  constructor; auto.
  - intros j. destruct (get j (insts s)) as [x|]; eauto using inst_le_refl.
  - intros n. destruct (get n (viss s)) as [v|]; eauto.
Qed.

Lemma frL_trans o' s1 s2 s3 : frL o' s1 s2 -> frL o' s2 s3 -> frL o' s1 s3.
Proof.
  intros [A1 A2 A3 A4] [B1 B2 B3 B4]. constructor.
  - intros j. specialize (A1 j). specialize (B1 j). destruct (get j (insts s1)) as [x|].
    + destruct A1 as (x2 & E2 & ? & ?). rewrite E2 in B1. destruct B1 as (x3 & E3 & ? & ?).
      exists x3. split; [exact E3|split; [congruence|eapply inst_le_trans; eauto]].
    + now rewrite A1 in B1.
  - intros n. specialize (A2 n). specialize (B2 n). destruct (get n (viss s1)) as [v|].
    + destruct A2 as (v2 & E2 & L2). rewrite E2 in B2. destruct B2 as (v3 & E3 & L3).
      exists v3. split; [exact E3|]. intros Q. destruct (L3 Q); auto.
    + now rewrite A2 in B2.
  - intros th. destruct (B3 th) as [B|B]; [rewrite B; apply A3|now right].
  - intros th i Q. destruct (B4 th i Q) as [B|B]; [apply A4; exact B|now right].
Qed.

Lemma frL_eq o' s s' : insts s' = insts s -> viss s' = viss s -> threads s' = threads s -> frL o' s s'.
Proof.
  intros A B C. constructor.
  - intros j. rewrite A. destruct (get j (insts s)) as [x|]; eauto using inst_le_refl.
  - intros n. rewrite B. destruct (get n (viss s)) as [v|]; eauto.
  - intros th. left. unfold get_thread. now rewrite C.
  - intros th i. unfold get_thread. rewrite C. auto.
Qed.

Lemma frL_upd_inst o' i f s : (forall x, nm (f x) = nm x /\ inst_le o' i x (f x)) -> frL o' s (upd_inst i f s).
Proof.
  intros Hf. constructor.
  - intros j. rewrite insts_upd_inst. destruct (N.eqb_spec i j); destruct (get j (insts s)) as [x|]; cbn; eauto using inst_le_refl.
    subst j. exists (f x). destruct (Hf x). auto.
  - intros n. rewrite upd_inst_viss. destruct (get n (viss s)) as [v|]; eauto.
  - intros th. left. now rewrite get_thread_upd_inst.
  - intros th j. rewrite get_thread_upd_inst. auto.
Qed.

Lemma frL_upd_inst_at o' i f s y : get i (insts s) = Some y -> nm (f y) = nm y -> inst_le o' i y (f y) -> frL o' s (upd_inst i f s).
Proof.
  intros Hy A B. constructor.
  - intros j. rewrite insts_upd_inst. destruct (N.eqb_spec i j).
    + subst j. rewrite Hy. cbn. eauto.
    + destruct (get j (insts s)) as [x|]; eauto using inst_le_refl.
  - intros n. rewrite upd_inst_viss. destruct (get n (viss s)) as [v|]; eauto.
  - intros th. left. now rewrite get_thread_upd_inst.
  - intros th j. rewrite get_thread_upd_inst. auto.
Qed.

Lemma frL_upd_vis o' n f s :
  (forall v, hl (f v) = HReady -> hl v = HReady \/ forall r', get n (onm o') = Some r' -> r_ready r' = true) ->
  frL o' s (upd_vis n f s).
Proof.
  intros Hf. constructor.
  - intros j. rewrite upd_vis_insts. destruct (get j (insts s)) as [x|]; eauto using inst_le_refl.
  - intros m. rewrite viss_upd_vis. destruct (N.eqb_spec n m); destruct (get m (viss s)) as [v|]; cbn; eauto.
    subst m. exists (f v). split; [reflexivity|apply Hf].
  - intros th. left. now rewrite get_thread_upd_vis.
  - intros th j. rewrite get_thread_upd_vis. auto.
Qed.

Lemma frL_set_thread_tr o' s X th t : frL o' s X ->
  (pend t = pend (get_thread s th) \/ pend_just o' (pend t)) ->
  (forall i, spc t = SPendE i -> spc (get_thread s th) = SPendE i \/ exists xo', get i (oi o') = Some xo' /\ o_endst xo' <> None) ->
  frL o' s (set_thread th t X).
Proof.
  intros [A1 A2 A3 A4] P Q. constructor; auto.
  - intros th'. rewrite get_thread_set_thread. destruct (N.eqb_spec th th'); [subst; exact P|apply A3].
  - intros th' i. rewrite get_thread_set_thread. destruct (N.eqb_spec th th'); [subst; apply Q|apply A4].
Qed.

Lemma frL_fold_upd_inst o' (f : inst -> inst) l :
  (forall i x, nm (f x) = nm x /\ inst_le o' i x (f x)) ->
  forall s, frL o' s (fold_left (fun s i => upd_inst i f s) l s).
Proof.
  intros Hf. induction l as [|a l IH]; intros s; cbn; [apply frL_refl|].
  eapply frL_trans; [apply (frL_upd_inst o' a f s (Hf a))|apply IH].
Qed.

(* side conditions *)
Ltac inst_le_tac :=
  let xo := fresh "xo" in let Hxo := fresh "Hxo" in let Q := fresh "Q" in
  intros xo Hxo; cbn;
  repeat match goal with H : pc _ = _ |- _ => rewrite H end;
  (split; [|split; [|split; [|split]]]);
  [ intros Q | intros Q | intros Q | intros Q | intros ? ? Q ];
  cbn in Q;
  repeat match type of Q with context[match ?x with _ => _ end] => destruct x; cbn in Q end;
  try discriminate Q; try (left; congruence); eauto.

Ltac vis_tac :=
  let Q := fresh "Q" in
  intros ? Q; cbn in Q;
  repeat match type of Q with context[match ?x with _ => _ end] => destruct x; cbn in Q end;
  try discriminate Q; try (left; congruence); eauto 6.

Ltac frL_close :=
  unfold set_pc, end_release_early, end_finish, write_status;
  repeat first
  [ apply frL_refl
  | match goal with
    | |- frL ?o ?s (upd_inst ?i ?f ?X) =>
        apply (frL_trans o s X);
        [|first [ apply frL_upd_inst; intros; split; [reflexivity|]; solve [inst_le_tac]
                | eapply frL_upd_inst_at;
                  [ autorewrite with sup; rewrite ?N.eqb_refl;
                    first [eassumption | match goal with E : get _ (insts _) = Some _ |- _ => rewrite E end; cbn; reflexivity]
                  | reflexivity | solve [inst_le_tac] ] ] ]
    | |- frL ?o ?s (upd_vis ?n ?f ?X) =>
        apply (frL_trans o s X); [|apply frL_upd_vis; solve [vis_tac]]
    | |- frL ?o ?s (fold_left (fun s i => upd_inst i ?f s) ?l ?X) =>
        apply (frL_trans o s X); [|apply frL_fold_upd_inst; intros; split; [reflexivity|]; solve [inst_le_tac]]
    | |- frL ?o ?s (set_thread ?th ?t ?X) =>
        apply frL_set_thread_tr;
        [| unfold get_thread; cbn; first [left; reflexivity | right; cbn; now eauto]
         | unfold get_thread; cbn; let Hq := fresh "Hq" in intros ? Hq;
           first [left; congruence | discriminate | inversion Hq; subst; right; now eauto] ]
    | |- frL ?o ?s (RecordSet.set _ _ ?X) =>
        apply (frL_trans o s X); [|apply frL_eq; reflexivity]
    | |- frL ?o ?s (if ?b then _ else _) => destruct b
    | |- frL ?o ?s (match ?b with _ => _ end) => destruct b
    end ].

Lemma step_api_frL o' s th e s' : step_api s th e = Some s' -> frL o' s s'.
Proof. intros H. destruct e; kind_cases H; frL_close. Qed.
Lemma step_shutdown_frL o' s th e s' : step_shutdown s th e = Some s' -> frL o' s s'.
Proof. intros H. destruct e; kind_cases H; frL_close. Qed.
Lemma step_ordered_frL o' s th i s' : step_ordered_go s th i = Some s' -> frL o' s s'.
Proof. intros H. kind_cases H; frL_close. Qed.

Ltac prep H :=
  kind_cases H; split_andb;
  repeat match goal with E : status_eqb _ _ = true |- _ => apply status_eqb_eq in E end;
  subst; repeat match goal with b : bool |- _ => destruct b end.

Lemma ex_all {A} (m : amap A) i (P : A -> Prop) : (exists x, get i m = Some x /\ P x) -> forall x, get i m = Some x -> P x.
Proof. intros (x & E & H) y Hy. congruence. Qed.

Lemma step_stop_frL o' s th e s' : step_stop s th e = Some s' ->
  (forall i, e = EStopEnter i true -> exists xo', get i (oi o') = Some xo' /\ o_stopreq xo' = true) -> frL o' s s'.
Proof. intros H Hg. destruct e; prep H; frL_close. Qed.

Lemma step_env_frL o' s th e s' : step_env s th e = Some s' ->
  (forall i xo', e = ELogReady i -> get i (oi o') = Some xo' -> o_logok xo' = true) ->
  (forall i x r', e = ELogReady i -> get i (insts s) = Some x -> get (nm x) (onm o') = Some r' -> r_ready r' = true) ->
  (forall i x r', e = EProbe i true false -> get i (insts s) = Some x -> get (nm x) (onm o') = Some r' -> r_ready r' = true) ->
  frL o' s s'.
Proof. intros H Hg1 Hg2 Hg3. destruct e; prep H; frL_close. Qed.

Lemma step_state_frL o' s th i s0 s' : step_state s th i s0 = Some s' ->
  (spc (get_thread s th) = SPendE i -> s0 = STerminating -> forall xo', get i (oi o') = Some xo' -> o_ended xo' = true) ->
  (forall x c, get i (insts s) = Some x -> pc x = IInEnd s0 c false -> forall xo', get i (oi o') = Some xo' -> o_ended xo' = true) ->
  frL o' s s'.
Proof. intros H Hg1 Hg2. prep H; frL_close. Qed.

Lemma step_procend_frL o' s th i s0 b s' : step_procend s th i s0 b = Some s' ->
  (b = true -> exists xo', get i (oi o') = Some xo' /\ o_endst xo' <> None) -> frL o' s s'.
Proof.
  intros H Hg. assert (Hg' : b = true -> forall xo', get i (oi o') = Some xo' -> o_endst xo' <> None).
  { intros Hb. apply (ex_all _ _ (fun x => o_endst x <> None)). auto. }
  prep H; frL_close.
Qed.

Lemma step_own_frL o' s th e s' : step_own s th e = Some s' ->
  (forall i, e = EStarted -> get th (thinst s) = Some i -> exists xo', get i (oi o') = Some xo' /\ o_started xo' = true) -> frL o' s s'.
Proof. intros H Hg. destruct e; prep H; try (destruct (start_fail _); cbn [negb]); frL_close. Qed.

Lemma step_reg_frL o' s th e s' : step_reg s th e = Some s' -> (forall i n, e <> ENewInst i n) -> frL o' s s'.
Proof. intros H Hn. destruct e; try (exfalso; eapply Hn; reflexivity); prep H; frL_close. Qed.

Lemma flush_frL o th s : pend_just o (pend (get_thread s th)) -> frL o s (flush th s).
Proof.
  intros P. constructor.
  - intros j. pose proof (flush_inst_spec th s j) as A. destruct (get j (insts s)) as [x|]; [|exact A].
    destruct A as (x' & E & Hn & _ & Hp & _ & Hd & Hs & Hr & Hl). exists x'. split; [exact E|split; [exact Hn|]].
    intros xo' Hxo. split; [|split; [|split; [|split]]].
    + rewrite Hd. auto.
    + intros Q. destruct (Hs Q) as [|Q2]; [auto|]. rewrite Q2 in P. right. destruct P as (xo & A & B). congruence.
    + intros Q. destruct (Hr Q) as [|[Q2|Q2]]; [auto| |]; rewrite Q2 in P; right; destruct P as (xo & A & B);
        assert (xo = xo') by congruence; subst; auto.
    + auto.
    + intros s1 c Q. left. rewrite Hp in Q. eauto.
  - intros n. rewrite flush_viss. destruct (get n (viss s)) as [v|]; eauto.
  - intros th'. destruct (flush_thread th s th') as (_ & _ & [Q|Q]); [now left|right; now rewrite Q].
  - intros th' i Q. destruct (flush_thread th s th') as (_ & Q2 & _). left. congruence.
Qed.
