(* Concrete histories for C08: a sequential start / stop / restart history that stays outside every
   window (non-vacuity of C08_main), and three accepted histories on which the monitor fails
   (they show that neither window flag of W_C08 can be dropped).  Everything here is by vm_compute. *)
From Coq Require Import List ZArith NArith Bool.
From PC.Base Require Import Assoc.
From PC.Sup Require Import Model Monitors Sim RelC08 RelC08b SpecC08 CallC08 RegC08.
Import ListNotations.
Open Scope N_scope.

Definition c_plain : pconf := mkConf [] PNo 0 0 false false false false false false false.
(* the same, but disabled: Run() does not start it, only StartProcess does *)
Definition c_disabled : pconf := mkConf [] PNo 0 0 false false false false false false true.
Definition cs_plain : amap pconf := [(1, c_plain)].
Definition cs_disabled : amap pconf := [(1, c_disabled)].

(* building blocks: runProcess, the first launch, a stop of a running / of a pending instance, and the
   end of an instance's goroutine after its command exited with code c *)
Definition mk (th : tid) (i : iid) (n : name) : list (tid * event) :=
  [(th, ENewInst i n); (th, EState i SPending); (th, ERegAdd i n); (th, ESpawn i n)].
Definition boot (th : tid) (i : iid) : list (tid * event) :=
  [(th, EBegin i); (th, ERunChecked false); (th, EStarted); (th, EState i SRunning); (th, ELaunch true)].
Definition stop_run (th : tid) (i : iid) (c : Z) : list (tid * event) :=
  [(th, ENoRestart i); (th, EStopEnter i true); (th, EStopRunning i); (th, EState i STerminating);
   (th, ESignal i 15 false); (0, ECmdExit i c); (th, EStopReturn i)].
Definition stop_pend (th : tid) (i : iid) : list (tid * event) :=
  [(th, ENoRestart i); (th, EStopEnter i true); (th, EStopPending i); (th, EProcEnd i STerminating);
   (th, EState i STerminating); (th, EProcEnded i STerminating); (th, EStopReturn i)].
Definition life (th : tid) (i : iid) (c : Z) : list (tid * event) :=
  [(th, EWaitReturn c); (th, EExitCode c); (th, ERestartDecision false); (th, EProcEnd i SCompleted);
   (th, EState i SCompleted); (th, EProcEnded i SCompleted); (th, ERunReturned c); (th, EDoneAdd i);
   (th, EInstDone); (th, EInstExit); (th, EWgDone); (th, ERegDel i); (th, EInstGone)].

(* Run starts process 1; StartProcess(1) fails (already running); StopProcess(1); the instance ends and
   its goroutine leaves; Run returns; StartProcess(1) succeeds and launches instance 101;
   RestartProcess(1) stops 101, waits for it, launches 102; StopProcess(9) of an unknown name fails. *)
Definition ex_seq : list (tid * event) :=
  [(1, EApiBegin OpRun)] ++ mk 1 100 1 ++ [(1, ERunSpawned)] ++ boot 20 100 ++
  [(11, EApiBegin (OpStart 1)); (11, ERegGet 1 (Some 100)); (11, EStartChecked 1 true); (11, EApiReturn false)] ++
  [(12, EApiBegin (OpStop 1)); (12, ERegGet 1 (Some 100)); (12, EStopChecked 1 (Some 100))] ++ stop_run 12 100 (-1) ++
  [(12, EApiReturn true)] ++
  life 20 100 (-1) ++ [(1, ERunReturn 0); (1, EApiReturn true)] ++
  [(13, EApiBegin (OpStart 1)); (13, ERegGet 1 None); (13, EStartChecked 1 false)] ++ mk 13 101 1 ++ [(13, EApiReturn true)] ++
  boot 21 101 ++
  [(14, EApiBegin (OpRestart 1)); (14, ERegGet 1 (Some 101)); (14, ERestartChecked 1 (Some 101))] ++ stop_run 14 101 0 ++
  life 21 101 0 ++
  [(14, ERestartStopped 1)] ++ mk 14 102 1 ++ [(14, EApiReturn true)] ++ boot 22 102 ++
  [(15, EApiBegin (OpStop 9)); (15, ERegGet 9 None); (15, EStopChecked 9 None); (15, EApiReturn false)].

Lemma ex_seq_ok :
  length ex_seq = 92%nat /\
  (exists s, accept (init cs_plain false) ex_seq = Some s) /\
  W_C08 (final_obs cs_plain ex_seq) = false /\
  any_window (final_obs cs_plain ex_seq) = false /\
  holds_C08 cs_plain ex_seq = true.
Proof.
  split; [reflexivity|]. split.
  - destruct (accept (init cs_plain false) ex_seq) as [s|] eqn:E; [now exists s|]. vm_compute in E. discriminate E.
  - repeat split; vm_compute; reflexivity.
Qed.

(* F25: two concurrent StartProcess(1) calls both find the registry empty; both instances are launched *)
Definition ex_dup : list (tid * event) :=
  [(1, EApiBegin OpRun); (1, ERunSpawned);
   (10, EApiBegin (OpStart 1)); (10, ERegGet 1 None); (10, EStartChecked 1 false);
   (11, EApiBegin (OpStart 1)); (11, ERegGet 1 None); (11, EStartChecked 1 false)] ++
  mk 10 100 1 ++ [(10, EApiReturn true)] ++ mk 11 101 1 ++ [(11, EApiReturn true)] ++
  boot 20 100 ++ boot 21 101.

(* RestartProcess(1) on an instance that has passed its "am I being terminated" check but has not yet
   written Running: the stop finds it Pending, marks it ended; the restart registers a successor; the old
   instance launches all the same, then the successor launches (windows: zombie and commit, not dup) *)
Definition ex_zombie : list (tid * event) :=
  [(1, EApiBegin OpRun); (1, ERunSpawned);
   (10, EApiBegin (OpStart 1)); (10, ERegGet 1 None); (10, EStartChecked 1 false)] ++ mk 10 100 1 ++ [(10, EApiReturn true)] ++
  [(20, EBegin 100); (20, ERunChecked false); (20, EStarted)] ++
  [(11, EApiBegin (OpRestart 1)); (11, ERegGet 1 (Some 100)); (11, ERestartChecked 1 (Some 100))] ++ stop_pend 11 100 ++
  [(11, ERestartStopped 1)] ++ mk 11 101 1 ++ [(11, EApiReturn true)] ++
  [(20, EState 100 SRunning); (20, ELaunch true)] ++ boot 21 101.

(* NO LONGER A RUN OF THE MODEL (hardened model: the creation write "Pending" belongs to runProcess, on the
   creating thread, before the registration).  In the first version of the model this history was accepted
   and showed a C08 violation with w_zombie as the only flag:
   instance 100 is stopped while Pending before its goroutine was begun;
   its successor 101 is launched; a late "Pending" write for 100 (the model does not tie that write to
   runProcess) makes a stop of 101 take the Pending branch although 101's command is alive;
   a restart then launches 102 next to it *)
Definition ex_zombie_only : list (tid * event) :=
  [(1, EApiBegin OpRun); (1, ERunSpawned);
   (10, EApiBegin (OpStart 1)); (10, ERegGet 1 None); (10, EStartChecked 1 false)] ++ mk 10 100 1 ++ [(10, EApiReturn true)] ++
  [(11, EApiBegin (OpRestart 1)); (11, ERegGet 1 (Some 100)); (11, ERestartChecked 1 (Some 100))] ++ stop_pend 11 100 ++
  [(11, ERestartStopped 1)] ++ mk 11 101 1 ++ [(11, EApiReturn true)] ++ boot 21 101 ++
  [(99, EState 100 SPending)] ++
  [(12, EApiBegin (OpStop 1)); (12, ERegGet 1 (Some 101)); (12, EStopChecked 1 (Some 101))] ++ stop_pend 12 101 ++ [(12, EApiReturn true)] ++
  [(13, EApiBegin (OpRestart 1)); (13, ERegGet 1 (Some 101)); (13, ERestartChecked 1 (Some 101));
   (13, ENoRestart 101); (13, EStopEnter 101 true); (13, EStopReturn 101); (13, ERestartStopped 1)] ++ mk 13 102 1 ++ [(13, EApiReturn true)] ++
  boot 22 102.

Ltac accepted :=
  match goal with |- exists s, ?a = Some s =>
    let E := fresh in destruct a as [s|] eqn:E; [now exists s|vm_compute in E; discriminate E] end.

(* windows_of = [zombie; sdlag; commit; late; sdspawn; dup; stale] *)
Lemma ex_dup_bad :
  (exists s, accept (init cs_disabled false) ex_dup = Some s) /\
  holds_C08 cs_disabled ex_dup = false /\
  windows_of (final_obs cs_disabled ex_dup) = [false; false; false; false; false; true; false].
Proof. split; [accepted|]. split; vm_compute; reflexivity. Qed.

Lemma ex_zombie_bad :
  (exists s, accept (init cs_disabled false) ex_zombie = Some s) /\
  holds_C08 cs_disabled ex_zombie = false /\
  windows_of (final_obs cs_disabled ex_zombie) = [true; false; true; false; false; false; false].
Proof. split; [accepted|]. split; vm_compute; reflexivity. Qed.

(* the hardened model rejects it at event 31, the late (99, EState 100 SPending) *)
Lemma ex_zombie_only_rejected :
  accept (init cs_disabled false) ex_zombie_only = None /\
  fst (accept_prefix (init cs_disabled false) ex_zombie_only 0) = 31%nat /\
  nth 31 ex_zombie_only (0, EResume) = (99, EState 100 SPending).
Proof. repeat split; vm_compute; reflexivity. Qed.

Lemma C08_refuted_lemma : exists cs ord evs s, accept (init cs ord) evs = Some s /\ holds_C08 cs evs = false.
Proof.
  destruct ex_dup_bad as [[s Hs] [Hh _]]. exists cs_disabled, false, ex_dup, s. auto.
Qed.

(* neither flag of W_C08 can be dropped: a failing accepted history with w_zombie = false (only dup),
   and one with w_dup = false (only zombie) *)
Lemma C08_dup_needed_lemma : exists cs ord evs s, accept (init cs ord) evs = Some s /\
  w_zombie (final_obs cs evs) = false /\ holds_C08 cs evs = false.
Proof.
  destruct ex_dup_bad as [[s Hs] [Hh Hw]]. exists cs_disabled, false, ex_dup, s.
  repeat split; auto; vm_compute; reflexivity.
Qed.

Lemma C08_zombie_needed_lemma : exists cs ord evs s, accept (init cs ord) evs = Some s /\
  w_dup (final_obs cs evs) = false /\ holds_C08 cs evs = false.
Proof.
  destruct ex_zombie_bad as [[s Hs] [Hh Hw]]. exists cs_disabled, false, ex_zombie, s.
  repeat split; auto; vm_compute; reflexivity.
Qed.

(* the declarative form of the main theorem *)
Lemma C08_one_live_lemma : forall cs ord evs s,
  accept (init cs ord) evs = Some s ->
  w_dup (final_obs cs evs) = false -> w_zombie (final_obs cs evs) = false -> one_live evs.
Proof. intros cs ord evs s Hacc Hd Hz. eapply holds_C08_one_live, C08_main_flags_lemma; eauto. Qed.

(* ---- the second theorem (no stop of a Pending process instead of the zombie window) ------------------ *)
(* RestartProcess(1) on a running instance: the successor 101 is created as soon as the old instance has
   written Completed, while the old goroutine is still on its way to inst_exit (zombie window), and the
   old goroutine finishes after the successor was launched *)
Definition life_a (th : tid) (i : iid) (c : Z) : list (tid * event) :=
  [(th, EWaitReturn c); (th, EExitCode c); (th, ERestartDecision false); (th, EProcEnd i SCompleted);
   (th, EState i SCompleted); (th, EProcEnded i SCompleted)].
Definition life_b (th : tid) (i : iid) (c : Z) : list (tid * event) :=
  [(th, ERunReturned c); (th, EDoneAdd i); (th, EInstDone); (th, EInstExit); (th, EWgDone); (th, EInstGone)].
Definition ex_restart : list (tid * event) :=
  [(1, EApiBegin OpRun)] ++ mk 1 100 1 ++ [(1, ERunSpawned)] ++ boot 20 100 ++
  [(14, EApiBegin (OpRestart 1)); (14, ERegGet 1 (Some 100)); (14, ERestartChecked 1 (Some 100))] ++ stop_run 14 100 0 ++
  life_a 20 100 0 ++
  [(14, ERestartStopped 1)] ++ mk 14 101 1 ++ [(14, EApiReturn true)] ++ boot 21 101 ++ life_b 20 100 0.

Lemma ex_restart_ok :
  length ex_restart = 44%nat /\
  (exists s, accept (init cs_plain false) ex_restart = Some s) /\
  w_dup (final_obs cs_plain ex_restart) = false /\ w_zombie (final_obs cs_plain ex_restart) = true /\
  no_stop_pending ex_restart = true /\ holds_C08 cs_plain ex_restart = true.
Proof. split; [reflexivity|]. split; [accepted|]. repeat split; vm_compute; reflexivity. Qed.

(* the disjunction "outside the zombie window, or no stop of a Pending process" cannot be dropped *)
Lemma C08_combined_tight_lemma : exists cs ord evs s, accept (init cs ord) evs = Some s /\
  w_dup (final_obs cs evs) = false /\ holds_C08 cs evs = false.
Proof. exact C08_zombie_needed_lemma. Qed.

Lemma C08_one_live_combined_lemma : forall cs ord evs s,
  accept (init cs ord) evs = Some s -> w_dup (final_obs cs evs) = false ->
  w_zombie (final_obs cs evs) = false \/ no_stop_pending evs = true -> one_live evs.
Proof. intros cs ord evs s Hacc Hd Hor. eapply holds_C08_one_live, C08_combined_lemma; eauto. Qed.

(* ---- the call view of ex_seq: what each API call of the sequential history had done when it returned -- *)
Fixpoint ret_views (m : amap call) (evs : list (tid * event)) : list (tid * option call * bool) :=
  match evs with
  | [] => []
  | (th, e) :: r => match e with EApiReturn ok => [(th, get th m, ok)] | _ => [] end ++ ret_views (cv_step m (th, e)) r
  end.

Lemma ex_seq_calls : ret_views [] ex_seq =
  [(11, Some (mkCall (OpStart 1) (Some true) 0 0 0), false);    (* start of a running process: fails, nothing created *)
   (12, Some (mkCall (OpStop 1) (Some true) 0 0 1), true);      (* stop: one stop request *)
   (1,  Some (mkCall OpRun None 1 1 0), true);
   (13, Some (mkCall (OpStart 1) (Some false) 1 1 0), true);    (* start, none running: exactly one instance *)
   (14, Some (mkCall (OpRestart 1) (Some true) 1 1 1), true);   (* restart: one stop request, exactly one new instance *)
   (15, Some (mkCall (OpStop 9) (Some false) 0 0 0), false)].   (* unknown name: fails, nothing done *)
Proof. vm_compute. reflexivity. Qed.

(* ---- the registry view of ex_seq: for each returning call, its call record (operation, the lookup its
   check was decided on, stops requested), its result, and the registry at the return ------------------- *)
Fixpoint ret_lookups (v : rv) (evs : list (tid * event)) : list (tid * option kcall * bool * amap iid) :=
  match evs with
  | [] => []
  | (th, e) :: r => match e with EApiReturn ok => [(th, get th (rv_call v), ok, rv_reg v)] | _ => [] end
                    ++ ret_lookups (rv_step v (th, e)) r
  end.

Lemma ex_seq_lookups : ret_lookups rv0 ex_seq =
  [(11, Some (mkK (OpStart 1) (Some (1, Some 100)) 0), false, [(1, 100)]);   (* 100 registered: start fails *)
   (12, Some (mkK (OpStop 1) (Some (1, Some 100)) 1), true, [(1, 100)]);     (* stop of the registered 100 *)
   (1,  Some (mkK OpRun None 0), true, []);
   (13, Some (mkK (OpStart 1) (Some (1, None)) 0), true, [(1, 101)]);        (* nothing registered: start creates 101 *)
   (14, Some (mkK (OpRestart 1) (Some (1, Some 101)) 1), true, [(1, 102)]);  (* restart stops 101, registers 102 *)
   (15, Some (mkK (OpStop 9) (Some (9, None)) 0), false, [(1, 102)])].       (* unknown name: nothing found, fails *)
Proof. vm_compute. reflexivity. Qed.
