(* C04 effect lemmas: the thread of the event (pending release, shutdown pc, api pc). *)
From Coq Require Import List ZArith NArith Bool Lia.
From RecordUpdate Require Import RecordSet.
From PC.Base Require Import Assoc.
From PC.Sup Require Import Model Monitors Tactics Sim ObsFacts Effects RelCore LemC04.
Import ListNotations RecordSetNotations.

Ltac thr_tac :=
  unfold thr_eff; destr_state; sup_goal;
  (split; [intros ?Hp|split; [intros ?Hd ?Hne|intros ?Hh ?Ha]]);
  try (exfalso; match goal with H : _ <> EShutdownCall |- _ => apply H; reflexivity end);
  try congruence;
  unfold get_thread in *; sup_goal; cbn -[get Assoc.set N.eqb]; sup_goal; cbn -[get Assoc.set N.eqb]; rewrite ?N.eqb_refl; cbn -[get Assoc.set N.eqb];
  try reflexivity; try congruence;
  try (match goal with H : pend _ = None |- _ => rewrite H end; reflexivity);
  try (repeat match goal with |- context[if ?b then _ else _] => destruct b end; reflexivity).

Lemma own_thr s th e s' : step_own s th e = Some s' -> thr_eff s th e s'.
Proof. intros H. destruct e; kind_cases H; thr_tac.
Qed.
Lemma reg_thr s th e s' : step_reg s th e = Some s' -> thr_eff s th e s'.
Proof. intros H. destruct e; kind_cases H; thr_tac. Qed.
Lemma stop_thr s th e s' : step_stop s th e = Some s' -> thr_eff s th e s'.
Proof. intros H. destruct e; kind_cases H; thr_tac.

Qed.
Lemma state_thr s th i s0 s' : step_state s th i s0 = Some s' -> thr_eff s th (EState i s0) s'.
Proof. intros H. kind_cases H; thr_tac. Qed.
Lemma procend_thr s th i s0 b s' : step_procend s th i s0 b = Some s' -> thr_eff s th (if b then EProcEnd i s0 else EProcEnded i s0) s'.
Proof. intros H. destruct b; kind_cases H; thr_tac. Qed.
Lemma ordered_thr s th i s' : step_ordered_go s th i = Some s' -> thr_eff s th (EOrderedGo i) s'.
Proof. intros H. kind_cases H; thr_tac. Qed.
Lemma env_thr s th e s' : step_env s th e = Some s' -> thr_eff s th e s'.
Proof. intros H. destruct e; kind_cases H; thr_tac. Qed.
Lemma shutdown_thr s th e s' : step_shutdown s th e = Some s' -> thr_eff s th e s'.
Proof. intros H. destruct e; kind_cases H; try thr_tac.
  now rewrite Ha.
Qed.
Lemma api_thr s th e s' : step_api s th e = Some s' -> thr_eff s th e s'.
Proof. intros H. destruct e; kind_cases H; thr_tac.
  all: match goal with H1 : has _ _ = true, H2 : negb (has _ _) = true |- _ => rewrite H1 in H2; discriminate H2 end.
Qed.

Lemma core_thr s th e s' : step_core s th e = Some s' -> thr_eff s th e s'.
Proof.
  intros H. destruct (step_core_kind _ _ _ _ H) as [? ?|i x ? ? ? ? ? ?|Hk|Hk|Hk|i s0 ? Hk|i s0 b ? Hk|Hk|i ? Hk|Hk|Hk]; subst.
  - repeat split; auto. intros Hp. now rewrite Hp.
  - repeat split; auto. intros Hp. unfold get_thread in *. cbn. now rewrite Hp.
  - now apply reg_thr.
  - now apply api_thr.
  - now apply stop_thr.
  - now apply state_thr.
  - now apply procend_thr.
  - now apply shutdown_thr.
  - now apply ordered_thr.
  - now apply env_thr.
  - now apply own_thr.
Qed.



