(* C04 effect lemmas: one accepted step_core on the instance map (program-counter class, alive, exited). *)
From Coq Require Import List ZArith NArith Bool Lia.
From RecordUpdate Require Import RecordSet.
From PC.Base Require Import Assoc.
From PC.Sup Require Import Model Monitors Tactics Sim ObsFacts Effects RelCore LemC04.
Import ListNotations RecordSetNotations.

Ltac inst_eff_tac :=
  intros jj xx Hjj;
  repeat (sup_goal; match goal with |- context[insts ?X] =>
    match X with
    | match ?b with _ => _ end => destruct b eqn:?
    | if ?b then _ else _ => destruct b eqn:?
    end end);
  sup_goal; cbn -[get Assoc.set N.eqb]; sup_goal; cbn -[get Assoc.set N.eqb];
  repeat match goal with
  | |- context[N.eqb ?a jj] => destruct (N.eqb_spec a jj); [subst|]
  end;
  repeat match goal with
  | H1 : get ?i ?m = Some ?a, H2 : get ?i ?m = Some ?b |- _ => assert (a = b) by congruence; subst; clear H2
  end;
  repeat match goal with H : get jj (insts _) = _ |- _ => rewrite H end; cbn [option_map];
  (eexists; split; [reflexivity|]); unfold own;
  repeat match goal with E : get _ (thinst _) = _ |- _ => rewrite E end; cbn [opt_eqb];
  repeat match goal with
  | |- context[N.eqb ?a ?a] => rewrite N.eqb_refl
  | H : ?a <> ?b |- context[N.eqb ?a ?b] => rewrite (proj2 (N.eqb_neq a b) H)
  end; cbn;
  repeat match goal with E : pc _ = _ |- _ => rewrite E end;
  repeat match goal with
  | |- context[if ?b then _ else _] => destruct b
  | |- context[match ?b with _ => _ end] => destruct b
  end; cbn; repeat split; reflexivity.

Lemma own_eff s th e s' : step_own s th e = Some s' -> inst_eff s th e s'.
Proof. intros H. unfold inst_eff. destruct e; kind_cases H; inst_eff_tac. Qed.
Lemma reg_eff s th e s' : step_reg s th e = Some s' -> (forall i n, e <> ENewInst i n) -> inst_eff s th e s'.
Proof. intros H Hn. unfold inst_eff. destruct e; try (exfalso; eapply Hn; reflexivity); kind_cases H; inst_eff_tac. Qed.
Lemma api_eff s th e s' : step_api s th e = Some s' -> inst_eff s th e s'.
Proof. intros H. unfold inst_eff. destruct e; kind_cases H; inst_eff_tac. Qed.
Lemma stop_eff s th e s' : step_stop s th e = Some s' -> inst_eff s th e s'.
Proof. intros H. unfold inst_eff. destruct e; kind_cases H; inst_eff_tac. Qed.
Lemma state_eff s th i s0 s' : step_state s th i s0 = Some s' -> inst_eff s th (EState i s0) s'.
Proof. intros H. unfold inst_eff. kind_cases H; inst_eff_tac. Qed.
Lemma procend_eff s th i s0 b s' : step_procend s th i s0 b = Some s' -> inst_eff s th (if b then EProcEnd i s0 else EProcEnded i s0) s'.
Proof. intros H. unfold inst_eff. destruct b; kind_cases H; inst_eff_tac. Qed.
Lemma ordered_eff s th i s' : step_ordered_go s th i = Some s' -> inst_eff s th (EOrderedGo i) s'.
Proof. intros H. unfold inst_eff. kind_cases H; inst_eff_tac. Qed.
Lemma env_eff s th e s' : step_env s th e = Some s' -> inst_eff s th e s'.
Proof. intros H. unfold inst_eff. destruct e; kind_cases H; inst_eff_tac. Qed.

Lemma shutdown_eff s th e s' : step_shutdown s th e = Some s' -> inst_eff s th e s'.
Proof.
  intros H. unfold inst_eff. destruct e; kind_cases H; try inst_eff_tac.
  intros j x Hj. cbn -[get].
  destruct (fold_upd_inst_get (fun x0 : inst => x0 <| f_stopped := true |>) order (fun y => ltac:(cbn; auto)) s j x Hj)
    as (x' & Hx' & Hp & Ha & He).
  exists x'. split; [exact Hx'|]. rewrite Hp, Ha, He. destruct (own _ _ _); cbn; auto.
Qed.

Lemma core_inst_eff s th e s' : step_core s th e = Some s' -> (forall i n, e <> ENewInst i n) -> inst_eff s th e s'.
Proof.
  intros H Hn. destruct (step_core_kind _ _ _ _ H) as [? ?|i x ? ? ? ? ? ?|Hk|Hk|Hk|i s0 ? Hk|i s0 b ? Hk|Hk|i ? Hk|Hk|Hk]; subst.
  - intros j x Hj. exists x. split; [exact Hj|]. destruct (own _ _ _); cbn; auto.
  - intros j y Hj. exists y. split; [exact Hj|]. destruct (own _ _ _); cbn; auto.
  - now apply reg_eff.
  - now apply api_eff.
  - now apply stop_eff.
  - now apply state_eff.
  - now apply procend_eff.
  - now apply shutdown_eff.
  - now apply ordered_eff.
  - now apply env_eff.
  - now apply own_eff.
Qed.

Lemma newinst_eff s th i n s' : step_core s th (ENewInst i n) = Some s' ->
  get i (insts s) = None /\ exists c, forall j, get j (insts s') = if N.eqb i j then Some (new_inst n c) else get j (insts s).
Proof.
  intros H. cbn in H. unfold step_reg in H. break_step H. subst s'. apply negb_true_iff in E0. unfold has in E0.
  destruct (get i (insts s)) eqn:Ei; [discriminate|]. split; [reflexivity|]. exists p. intros j. cbn. apply get_set.
Qed.

