(* C02 simulation, part 2: the per-instance relation P2, the observer-only invariant Rd (one live
   instance per name outside the dup/zombie windows), frame lemmas.  See Props/C02.v for the statements. *)
From Coq Require Import List ZArith NArith Bool Lia.
From RecordUpdate Require Import RecordSet.
From PC.Base Require Import Assoc.
From PC.Sup Require Import Model Monitors Tactics Sim ObsFacts Effects RelCore LemC02 RelC02t.
Import ListNotations RecordSetNotations.

Definition predec_pc (p : ipc) : bool :=
  match p with IPreStart | IPreLaunch | IStateSet | IAlive | IExited _ | ICodeWritten _ => true | _ => false end.
Definition launched_pc (p : ipc) : bool :=
  match p with IStateSet | IAlive | IExited _ | ICodeWritten _ => true | _ => false end.
Definition gone_pc (p : ipc) : bool := match p with IWgDone | IGone => true | _ => false end.
Definition launch_pc (p : ipc) : bool := match p with IPreLaunch | IStateSet => true | _ => false end.

Definition Pok (x : inst) (c : Z) : Prop :=
  policy_allows (pol (cf x)) c = true /\ (maxr (cf x) = 0 \/ launches x <= maxr (cf x)).

(* why an instance gave up instead of relaunching *)
Definition GaveUp (s : sys) (x : inst) (xo : oinst) (c : Z) : Prop :=
  o_stopreq xo = true \/ policy_allows (pol (cf x)) c = false \/
  (maxr (cf x) <> 0 /\ maxr (cf x) <= restarts (vis_of s (nm x))).

Record P2 (s : sys) (o : obs) (x : inst) (xo : oinst) : Prop := mkP2 {
  p_commit : W2 o = false -> commit_pc (pc x) = true -> o_commit xo = true;
  p_stop : W2 o = false -> o_stopreq xo = true -> commit_pc (pc x) = false;
  p_exited : forall c, exited x = Some c -> o_code xo = Some c /\ pc x = IAlive /\ alive x = false;
  p_alive : alive x = true -> pc x = IAlive;
  p_code : forall c, pc x = IExited c \/ pc x = ICodeWritten c -> o_code xo = Some c;
  p_decided : forall c, pc x = IWillRestart c \/ pc x = IRestarting c \/ pc x = IBackoff c ->
              o_code xo = Some c /\ Pok x c;
  p_relaunch : launch_pc (pc x) = true -> 1 <= launches x ->
               exists c, o_code xo = Some c /\ Pok x c /\ o_elapsed xo = true;
  p_gaveup : forall c, (pc x = IEnding SCompleted c \/ exists b, pc x = IInEnd SCompleted c b) ->
             o_code xo = Some c /\ GaveUp s x xo c;
  p_restarts : launches x <= restarts (vis_of s (nm x)) + 1 /\
               (relaunch_pc (pc x) = true -> launches x <= restarts (vis_of s (nm x)));
  p_pre : prestart_pc (pc x) = true -> launches x = 0;
  p_fstopped : f_stopped x = true -> o_stopreq xo = true;
  p_runctx : l_runctx x = true -> o_stopreq xo = true \/ inend_pc (pc x) = true;
  p_endst : o_endst xo <> None -> o_stopreq xo = true \/ inend_pc (pc x) = true;
  p_gone : o_gone xo = true -> gone_pc (pc x) = true;
  p_nostop : W4 o = false -> o_stopreq xo = true -> predec_pc (pc x) = true -> f_stopped x = true;
  p_status : W4 o = false -> launched_pc (pc x) = true -> st (vis_of s (nm x)) <> SPending
}.

Definition P2all (s : sys) (o : obs) : Prop :=
  forall j x xo, get j (insts s) = Some x -> get j (oi o) = Some xo -> P2 s o x xo.

(* ---- frame: what P2 reads ------------------------------------------------------------------------------ *)
Definition ikeep (x x' : inst) : Prop :=
  nm x' = nm x /\ cf x' = cf x /\ pc x' = pc x /\ launches x' = launches x /\ alive x' = alive x /\
  exited x' = exited x /\ f_stopped x' = f_stopped x /\ l_runctx x' = l_runctx x.
Definition okeep (xo xo' : oinst) : Prop :=
  o_commit xo' = o_commit xo /\ o_stopreq xo' = o_stopreq xo /\ o_code xo' = o_code xo /\
  o_elapsed xo' = o_elapsed xo /\ o_endst xo' = o_endst xo /\ o_gone xo' = o_gone xo.
Definition vkeep (s s' : sys) (x : inst) : Prop :=
  restarts (vis_of s (nm x)) <= restarts (vis_of s' (nm x)) /\
  (st (vis_of s' (nm x)) = SPending -> st (vis_of s (nm x)) = SPending \/ launched_pc (pc x) = false).
Definition wkeep (o o' : obs) : Prop := (W2 o' = false -> W2 o = false) /\ (W4 o' = false -> W4 o = false).

Lemma ikeep_refl x : ikeep x x. Proof. unfold ikeep; repeat split. Qed.
Lemma okeep_refl x : okeep x x. Proof. unfold okeep; repeat split. Qed.
Lemma vkeep_refl s x : vkeep s s x. Proof. unfold vkeep; split; auto. Qed.
Lemma wkeep_refl o : wkeep o o. Proof. unfold wkeep; split; auto. Qed.
Lemma wkeep_step cs o e : wkeep o (obs_step cs o e).
Proof.
  split; intros H.
  - destruct (W2 o) eqn:E; [|reflexivity]. now rewrite (W2_mono cs o e E) in H.
  - destruct (W4 o) eqn:E; [|reflexivity]. now rewrite (W4_mono cs o e E) in H.
Qed.

Lemma P2_frame s o x xo s' o' x' xo' :
  P2 s o x xo -> ikeep x x' -> okeep xo xo' -> vkeep s s' x -> wkeep o o' -> P2 s' o' x' xo'.
Proof.
  intros [] (I1 & I2 & I3 & I4 & I5 & I6 & I7 & I8) (O1 & O2 & O3 & O4 & O5 & O6) (V1 & V2) (Wa & Wb).
  constructor; unfold Pok, GaveUp in *; rewrite ?I1, ?I2, ?I3, ?I4, ?I5, ?I6, ?I7, ?I8, ?O1, ?O2, ?O3, ?O4, ?O5, ?O6; auto.
  - intros c Hc. destruct (p_gaveup0 c Hc) as (A & B). split; [exact A|].
    destruct B as [B|[B|[B1 B2]]]; auto. right; right. split; [exact B1|lia].
  - destruct p_restarts0 as [A B]. split; [lia|]. intros Hr. specialize (B Hr). lia.
  - intros Hw Hl Hs. destruct (V2 Hs) as [Hs'|Hs']; [|congruence]. revert Hs'. apply p_status0; auto.
Qed.

(* ---- backward frames of the observer: every instance of o' comes from one of o ----------------------- *)
Section Back.
Context (Rel : oinst -> oinst -> Prop).
Context (Rrefl : forall x, Rel x x) (Rtrans : forall x y z, Rel x y -> Rel y z -> Rel x z).
Context (Rsucc : forall x, Rel x (x <| o_succ := true |>)).

Definition oback (o o' : obs) : Prop :=
  forall j x', get j (oi o') = Some x' -> exists x, get j (oi o) = Some x /\ Rel x x'.

Lemma oback_refl o : oback o o.
Proof. intros j x H. eauto. Qed.
Lemma oback_trans o1 o2 o3 : oback o1 o2 -> oback o2 o3 -> oback o1 o3.
Proof.
  intros H1 H2 j z Hz. destruct (H2 j z Hz) as (y & Hy & L2). destruct (H1 j y Hy) as (x & Hx & L1). eauto.
Qed.
Lemma oback_eq o o' : oi o' = oi o -> oback o o'.
Proof. intros E j x H. rewrite E in H. eauto. Qed.
Lemma oback_oi_upd i f o : (forall x, Rel x (f x)) -> oback o (oi_upd i f o).
Proof.
  intros Hf j x'. rewrite oi_upd_get. destruct (N.eqb i j); [|eauto].
  destruct (get j (oi o)) as [x|]; cbn; [|discriminate]. intros [= <-]. eauto.
Qed.
Lemma oback_on_upd n f o : oback o (on_upd n f o).
Proof. apply oback_eq, on_upd_oi. Qed.
Lemma oback_fold_oi_upd (f : oinst -> oinst) l : (forall x, Rel x (f x)) ->
  forall o, oback o (fold_left (fun o i => oi_upd i f o) l o).
Proof.
  intros Hf. induction l as [|a l IH]; intros o; cbn; [apply oback_refl|].
  eapply oback_trans; [apply (oback_oi_upd a f o Hf)|apply IH].
Qed.
Lemma oback_refresh o : oback o (refresh_succ o).
Proof.
  intros j x'. rewrite refresh_get. destruct (get j (oi o)) as [x|]; cbn; [|discriminate].
  intros [= <-]. exists x. split; [reflexivity|]. destruct (_ && _); auto.
Qed.
End Back.

Lemma okeep_trans x y z : okeep x y -> okeep y z -> okeep x z.
Proof. unfold okeep. intros (A1 & A2 & A3 & A4 & A5 & A6) (B1 & B2 & B3 & B4 & B5 & B6). repeat split; congruence. Qed.
#[export] Hint Resolve okeep_refl okeep_trans oinst_le_refl oinst_le_trans : core.

Lemma oinst_le_succ x : oinst_le x (x <| o_succ := true |>).
Proof. unfold oinst_le; cbn; repeat split; auto. Qed.

Ltac rel_side := first [exact okeep_trans | exact oinst_le_trans | exact okeep_refl | exact oinst_le_refl | exact oinst_le_succ | solve [auto]].
Ltac oback_close side :=
  repeat first
  [ apply oback_refl; rel_side
  | match goal with
    | |- oback ?R ?o (oi_upd ?i ?f ?X) =>
        apply (oback_trans R ltac:(rel_side) o X); [|apply oback_oi_upd; side]
    | |- oback ?R ?o (on_upd ?n ?f ?X) =>
        apply (oback_trans R ltac:(rel_side) o X); [|apply oback_on_upd; rel_side]
    | |- oback ?R ?o (fold_left (fun o i => oi_upd i ?f o) ?l ?X) =>
        apply (oback_trans R ltac:(rel_side) o X); [|apply oback_fold_oi_upd; [rel_side|rel_side|side]]
    | |- oback ?R ?o (RecordSet.set _ _ ?X) =>
        apply (oback_trans R ltac:(rel_side) o X); [|apply oback_eq; [rel_side|reflexivity]]
    end ].

(* events that leave everything P2 reads in the observer's instance records untouched *)
Definition oirr (e : event) : bool :=
  match e with
  | ENewInst _ _ | ERunChecked false | EInstExit | ELaunch _ | ECmdExit _ _ | EBackoffElapsed | EProcEnd _ _
  | ENoRestart _ | EStopEnter _ _ | EStopPending _ | EShutdownOrder _ => false
  | _ => true
  end.

Ltac okeep_side := intros; unfold okeep; cbn; repeat match goal with |- context[if ?b then _ else _] => destruct b; cbn end; repeat split; reflexivity.

Lemma obs_step_keep cs o th e : oirr e = true -> oback okeep o (obs_step cs o (th, e)).
Proof.
  intros Hirr. unfold obs_step. eapply oback_trans; [rel_side| |apply oback_refresh; [rel_side|okeep_side]].
  destruct e; try discriminate Hirr; cbn [fst snd];
  try (destruct (ev_inst o th _) eqn:Ev);
  try match goal with |- context[match ?b with true => _ | false => _ end] => destruct b end;
  try discriminate Hirr; unfold note_late_commit;
  repeat match goal with |- context[if ?b then _ else _] => destruct b end;
  try (apply oback_refl; rel_side); oback_close okeep_side.
Qed.

Ltac ole_side := oinst_le_tac.

Lemma obs_step_back cs o th e : (forall i n, e <> ENewInst i n) -> oback oinst_le o (obs_step cs o (th, e)).
Proof.
  intros Hnew. unfold obs_step. eapply oback_trans; [rel_side| |apply oback_refresh; rel_side].
  destruct e; try (exfalso; eapply Hnew; reflexivity); cbn [fst snd];
  try (destruct (ev_inst o th _) eqn:Ev);
  try match goal with |- context[match ?b with true => _ | false => _ end] => destruct b end;
  unfold note_late_commit;
  repeat match goal with |- context[if ?b then _ else _] => destruct b end;
  try (apply oback_refl; rel_side); oback_close ole_side.
Qed.

(* ---- Rd: outside the dup/zombie windows, of two instances of a name one has ended and left ------------ *)
Definition Rd (o : obs) : Prop :=
  w_dup o = false -> w_zombie o = false ->
  forall i j xi xj, i <> j -> get i (oi o) = Some xi -> get j (oi o) = Some xj -> o_nm xi = o_nm xj ->
  (o_ended xi = true /\ o_gone xi = true) \/ (o_ended xj = true /\ o_gone xj = true).

Lemma Rd_init cs : Rd (obs0 cs).
Proof. intros _ _ i j xi xj _ H. discriminate H. Qed.

Lemma dupz_mono cs o e : w_dup (obs_step cs o e) = false -> w_zombie (obs_step cs o e) = false ->
  w_dup o = false /\ w_zombie o = false.
Proof.
  pose proof (obs_step_flags_mono cs o e) as H. unfold flag_le, windows_of in H.
  inversion H as [|? ? ? ? Hz H1]; subst. inversion H1 as [|? ? ? ? _ H2]; subst.
  inversion H2 as [|? ? ? ? _ H3]; subst. inversion H3 as [|? ? ? ? _ H4]; subst.
  inversion H4 as [|? ? ? ? _ H5]; subst. inversion H5 as [|? ? ? ? Hd _]; subst.
  intros A B. split.
  - destruct (w_dup o); [rewrite Hd in A by reflexivity; discriminate|reflexivity].
  - destruct (w_zombie o); [rewrite Hz in B by reflexivity; discriminate|reflexivity].
Qed.

Lemma get_in_vals {A} k (v : A) m : get k m = Some v -> In v (vals m).
Proof. intros H. apply get_in in H. unfold vals. apply in_map_iff. exists (k, v). auto. Qed.

Lemma Rd_step cs o th e : (forall i n, e = ENewInst i n -> get i (oi o) = None) -> Rd o -> Rd (obs_step cs o (th, e)).
Proof.
  intros Hnew HR Hd Hz. destruct (dupz_mono _ _ _ Hd Hz) as [Hd0 Hz0]. specialize (HR Hd0 Hz0).
  assert (Hne : (forall i n, e <> ENewInst i n) \/ exists i n, e = ENewInst i n).
  { destruct e; try (left; intros; discriminate). right; eauto. }
  destruct Hne as [Hne|(i0 & n0 & ->)].
  - pose proof (obs_step_back cs o th e Hne) as Hb.
    intros i j xi' xj' Hij Hi Hj Hn.
    destruct (Hb i xi' Hi) as (xi & Ei & Li). destruct (Hb j xj' Hj) as (xj & Ej & Lj).
    destruct Li as (Li1 & Li2 & Li3 & _). destruct Lj as (Lj1 & Lj2 & Lj3 & _).
    destruct (HR i j xi xj Hij Ei Ej) as [[A B]|[A B]]; [congruence|left|right]; auto.
  - specialize (Hnew _ _ eq_refl).
    assert (Hex : forall (f : oinst -> bool) l x, existsb f l = false -> In x l -> f x = false).
    { intros f l x Hf Hin. destruct (f x) eqn:E; [|reflexivity]. rewrite <- Hf. symmetry. apply existsb_exists. eauto. }
    assert (Hold : forall j xj, get j (oi o) = Some xj -> o_nm xj = n0 -> o_ended xj = true /\ o_gone xj = true).
    { intros j xj Ej En. unfold obs_step in Hd, Hz. cbn in Hd, Hz.
      apply orb_false_iff in Hd. destruct Hd as [_ Hd]. apply orb_false_iff in Hz. destruct Hz as [_ Hz].
      pose proof (get_in_vals _ _ _ Ej) as Hin.
      pose proof (Hex _ _ _ Hd Hin) as A. pose proof (Hex _ _ _ Hz Hin) as B. cbn in A, B.
      rewrite En, N.eqb_refl in A, B. cbn in A, B. apply negb_false_iff in A. rewrite A in B. cbn in B.
      apply negb_false_iff in B. auto. }
    assert (HRf : forall (c : bool) (x : oinst),
                  o_nm (if c then x <| o_succ := true |> else x) = o_nm x /\
                  o_ended (if c then x <| o_succ := true |> else x) = o_ended x /\
                  o_gone (if c then x <| o_succ := true |> else x) = o_gone x).
    { intros [] x; cbn; auto. }
    intros i j xi' xj' Hij Hi Hj Hn. unfold obs_step in Hi, Hj. cbn [fst snd ev_inst] in Hi, Hj.
    rewrite refresh_get in Hi, Hj. cbn [oi] in Hi, Hj. cbn in Hi, Hj. rewrite get_set in Hi, Hj.
    destruct (N.eqb_spec i0 i) as [<-|Hi0]; destruct (N.eqb_spec i0 j) as [<-|Hj0]; try congruence.
    + destruct (get j (oi o)) as [xj|] eqn:Ej; [|discriminate]. cbn in Hi, Hj. injection Hi as <-. injection Hj as <-.
      right. match goal with |- context[if ?c then xj <| o_succ := true |> else xj] => destruct (HRf c xj) as (A & B & C) end.
      rewrite B, C. apply (Hold j xj Ej). rewrite <- A, <- Hn. reflexivity.
    + destruct (get i (oi o)) as [xi|] eqn:Ei; [|discriminate]. cbn in Hi, Hj. injection Hi as <-. injection Hj as <-.
      left. match goal with |- context[if ?c then xi <| o_succ := true |> else xi] => destruct (HRf c xi) as (A & B & C) end.
      rewrite B, C. apply (Hold i xi Ei). rewrite <- A, Hn. reflexivity.
    + destruct (get i (oi o)) as [xi|] eqn:Ei; [|discriminate]. destruct (get j (oi o)) as [xj|] eqn:Ej; [|discriminate].
      cbn in Hi, Hj. injection Hi as <-. injection Hj as <-.
      match goal with |- context[if ?c then xi <| o_succ := true |> else xi] => destruct (HRf c xi) as (A1 & B1 & C1) end.
      match goal with |- context[if ?c then xj <| o_succ := true |> else xj] => destruct (HRf c xj) as (A2 & B2 & C2) end.
      rewrite B1, C1, B2, C2. apply (HR i j xi xj Hij Ei Ej). congruence.
Qed.

(* ---- backward frames of the model ---------------------------------------------------------------------- *)
Definition vrel (s s' : sys) : Prop :=
  forall n, restarts (vis_of s n) <= restarts (vis_of s' n) /\ (st (vis_of s' n) = SPending -> st (vis_of s n) = SPending).
Definition sback (s s' : sys) : Prop :=
  (forall j x', get j (insts s') = Some x' -> exists x, get j (insts s) = Some x /\ ikeep x x') /\ vrel s s'.

Lemma ikeep_trans x y z : ikeep x y -> ikeep y z -> ikeep x z.
Proof. unfold ikeep. intuition congruence. Qed.
Lemma vrel_refl s : vrel s s. Proof. intros n; split; auto. Qed.
Lemma vrel_trans s1 s2 s3 : vrel s1 s2 -> vrel s2 s3 -> vrel s1 s3.
Proof. intros A B n. destruct (A n), (B n). split; [lia|auto]. Qed.
Lemma sback_refl s : sback s s.
Proof. split; [intros j x H; eauto using ikeep_refl|apply vrel_refl]. Qed.
Lemma sback_trans s1 s2 s3 : sback s1 s2 -> sback s2 s3 -> sback s1 s3.
Proof.
  intros [A1 V1] [A2 V2]. split; [|eapply vrel_trans; eauto].
  intros j z Hz. destruct (A2 j z Hz) as (y & Hy & L2). destruct (A1 j y Hy) as (x & Hx & L1). eauto using ikeep_trans.
Qed.
Lemma sback_eq s s' : insts s' = insts s -> viss s' = viss s -> sback s s'.
Proof.
  intros A B. split.
  - intros j x H. rewrite A in H. eauto using ikeep_refl.
  - intros n. unfold vis_of. rewrite B. split; auto.
Qed.
Lemma sback_upd_inst i f s : (forall x, ikeep x (f x)) -> sback s (upd_inst i f s).
Proof.
  intros Hf. split.
  - intros j x'. rewrite insts_upd_inst. destruct (N.eqb i j); [|eauto using ikeep_refl].
    destruct (get j (insts s)) as [x|]; cbn; [|discriminate]. intros [= <-]. eauto.
  - intros n. rewrite vis_of_upd_inst. split; auto.
Qed.
Lemma sback_fold_upd_inst (f : inst -> inst) l : (forall x, ikeep x (f x)) ->
  forall s, sback s (fold_left (fun s i => upd_inst i f s) l s).
Proof.
  intros Hf. induction l as [|a l IH]; intros s; cbn; [apply sback_refl|].
  eapply sback_trans; [apply (sback_upd_inst a f s Hf)|apply IH].
Qed.
Lemma vis_of_upd_vis n f s m :
  vis_of (upd_vis n f s) m = if N.eqb n m then match get m (viss s) with Some v => f v | None => vis_of s m end else vis_of s m.
Proof.
  unfold vis_of. rewrite viss_upd_vis. destruct (N.eqb n m); [|reflexivity]. destruct (get m (viss s)); reflexivity.
Qed.
Lemma sback_upd_vis n f s :
  (forall v, restarts v <= restarts (f v) /\ (st (f v) = SPending -> st v = SPending)) -> sback s (upd_vis n f s).
Proof.
  intros Hf. split.
  - intros j x H. rewrite upd_vis_insts in H. eauto using ikeep_refl.
  - intros m. rewrite vis_of_upd_vis. destruct (N.eqb n m); [|split; auto].
    unfold vis_of. destruct (get m (viss s)) as [v|]; [apply Hf|split; auto].
Qed.

Ltac ikeep_side := intros; unfold ikeep; cbn; repeat split; reflexivity.
Ltac vkeep_side := intros; cbn; repeat match goal with |- context[match ?b with _ => _ end] => destruct b; cbn end;
                   split; [lia|try discriminate; auto].
Ltac sback_close :=
  unfold set_pc, end_release_early, end_finish, write_status;
  repeat first
  [ apply sback_refl
  | match goal with
    | |- sback ?s (upd_inst ?i ?f ?X) =>
        apply (sback_trans s X); [|apply sback_upd_inst; ikeep_side]
    | |- sback ?s (upd_vis ?n ?f ?X) =>
        apply (sback_trans s X); [|apply sback_upd_vis; vkeep_side]
    | |- sback ?s (fold_left (fun s i => upd_inst i ?f s) ?l ?X) =>
        apply (sback_trans s X); [|apply sback_fold_upd_inst; ikeep_side]
    | |- sback ?s (set_thread ?th ?t ?X) =>
        apply (sback_trans s X); [|apply sback_eq; reflexivity]
    | |- sback ?s (RecordSet.set _ _ ?X) =>
        apply (sback_trans s X); [|apply sback_eq; reflexivity]
    | |- sback ?s (if ?b then _ else _) => destruct b
    | |- sback ?s (match ?b with _ => _ end) => destruct b
    end ].

Lemma sback_reg s th e s' : (forall i n, e <> ENewInst i n) -> step_reg s th e = Some s' -> sback s s'.
Proof. intros Hne H. destruct e; try (exfalso; eapply Hne; reflexivity); kind_cases H; sback_close. Qed.
Lemma sback_stop s th e s' : step_stop s th e = Some s' -> sback s s'.
Proof. intros H. destruct e; kind_cases H; sback_close. Qed.
Lemma sback_api s th e s' : (forall i, e <> ENoRestart i) -> step_api s th e = Some s' -> sback s s'.
Proof. intros Hne H. destruct e; try (exfalso; eapply Hne; reflexivity); kind_cases H; sback_close. Qed.
Lemma sback_shutdown s th e s' : (forall l, e <> EShutdownOrder l) -> step_shutdown s th e = Some s' -> sback s s'.
Proof. intros Hne H. destruct e; try (exfalso; eapply Hne; reflexivity); kind_cases H; sback_close. Qed.
Lemma sback_ordered s th i s' : step_ordered_go s th i = Some s' -> sback s s'.
Proof. intros H. kind_cases H; sback_close. Qed.
Lemma sback_env s th e s' : (forall i c, e <> ECmdExit i c) -> step_env s th e = Some s' -> sback s s'.
Proof. intros Hne H. destruct e; try (exfalso; eapply Hne; reflexivity); kind_cases H; sback_close. Qed.

Lemma P2all_frame s o s' o' : P2all s o -> sback s s' -> oback okeep o o' -> wkeep o o' -> P2all s' o'.
Proof.
  intros HP [A V] B Wk j x' xo' Hx' Hxo'.
  destruct (A j x' Hx') as (x & Ex & Ik). destruct (B j xo' Hxo') as (xo & Exo & Ok).
  eapply P2_frame; [apply (HP j x xo Ex Exo)|exact Ik|exact Ok| |exact Wk].
  destruct (V (nm x)) as [V1 V2]. split; auto.
Qed.

Lemma vrel_vkeep s s' x : vrel s s' -> vkeep s s' x.
Proof. intros V. destruct (V (nm x)) as [V1 V2]. split; auto. Qed.

Ltac vrel_tac :=
  unfold set_pc, end_release_early, end_finish, write_status; intros n9; autorewrite with sup; rewrite ?vis_of_upd_vis;
  unfold vis_of;
  repeat match goal with |- context[N.eqb ?a n9] => destruct (N.eqb a n9) end;
  repeat match goal with |- context[match get n9 ?m with _ => _ end] => destruct (get n9 m) end;
  cbn; split; auto; try lia; try discriminate.

Lemma st_upd_vis n f s m : (forall v, st (f v) = st v) -> st (vis_of (upd_vis n f s) m) = st (vis_of s m).
Proof.
  intros Hf. rewrite vis_of_upd_vis. destruct (N.eqb n m); [|reflexivity]. unfold vis_of.
  destruct (get m (viss s)); [apply Hf|reflexivity].
Qed.
Lemma restarts_upd_vis n f s m : (forall v, restarts (f v) = restarts v) -> restarts (vis_of (upd_vis n f s) m) = restarts (vis_of s m).
Proof.
  intros Hf. rewrite vis_of_upd_vis. destruct (N.eqb n m); [|reflexivity]. unfold vis_of.
  destruct (get m (viss s)); [apply Hf|reflexivity].
Qed.

Ltac p2_pre :=
  repeat match goal with |- P2 _ _ ?X _ =>
    match X with
    | context[match ?v with _ => _ end] => destruct v eqn:?
    | context[if ?v then _ else _] => destruct v eqn:?
    end end.
(* solve one clause of P2 for the acting instance after its record has been destructed *)
Ltac p2_clause :=
  unfold set_pc in *; autorewrite with sup in *;
  rewrite ?st_upd_vis, ?restarts_upd_vis in * by reflexivity;
  cbn in *; intros;
  repeat match goal with
  | H : _ \/ _ |- _ => destruct H
  | H : exists _, _ |- _ => destruct H
  | H : _ /\ _ |- _ => destruct H
  | H : forall c, exited ?x = Some c -> _, H' : exited ?x = Some ?c0 |- _ => specialize (H _ H')
  | H : ?A -> _, H' : ?A |- _ => specialize (H H')
  | H : true = true -> _ |- _ => specialize (H eq_refl)
  end;
  try discriminate; try congruence; auto;
  try (split; auto; try lia; try discriminate; fail);
  try (intuition (try discriminate; try congruence; try lia; eauto); fail).

Section Own.
Context (cs : amap pconf).

Ltac own_tac HP H :=
  kind_cases H; split_andb; subst;
  match goal with E : get ?th (thinst ?s) = Some ?i, E0 : get ?i (insts ?s) = Some ?x |- _ =>
    intros j9 x9 xo9 Hx9 Hxo9; unfold set_pc in Hx9; autorewrite with sup in Hx9; cbn [fst snd] in Hx9;
    destruct (N.eqb_spec i j9) as [<-|Hne];
    [ rewrite E0 in Hx9; cbn in Hx9; injection Hx9 as <-; pose proof (HP _ _ _ E0 Hxo9) as HPx; p2_pre; destruct HPx; constructor
    | eapply P2_frame; [apply (HP j9 x9 xo9 Hx9 Hxo9)|apply ikeep_refl|apply okeep_refl|apply vrel_vkeep; vrel_tac|apply wkeep_refl] ]
  end;
  try match goal with E : pc _ = _ |- _ => rewrite E in * end;
  try (p2_clause; fail).

Definition own_special (e : event) : bool :=
  match e with EWaitReturn _ | EExitCode _ | ERestartDecision _ | EBackoffWait _ | EBackoffCancelled => true | _ => false end.

Lemma P2all_own_gen s o th e s' : P2all s o -> oirr e = true -> own_special e = false -> step_own s th e = Some s' -> P2all s' o.
Proof.
  intros HP Hirr Hsp H.
  destruct e; try discriminate Hirr; try discriminate Hsp; own_tac HP H; try discriminate Hirr.
Qed.

End Own.
