(* C02 simulation: P2all is preserved by the own-thread events that need no argument (heavy, brute force). *)
From Coq Require Import List ZArith NArith Bool Lia.
From RecordUpdate Require Import RecordSet.
From PC.Base Require Import Assoc.
From PC.Sup Require Import Model Monitors Tactics Sim ObsFacts Effects RelCore LemC02 RelC02defs.
Import ListNotations RecordSetNotations.

Section Own.
Context (cs : amap pconf).

Ltac own_tac HP H :=
  kind_cases H; split_andb; subst;
  match goal with E : get ?th (thinst ?s) = Some ?i, E0 : get ?i (insts ?s) = Some ?x |- _ =>
    intros j9 x9 xo9 Hx9 Hxo9; unfold set_pc in Hx9; autorewrite with sup in Hx9; cbn [fst snd] in Hx9;
    destruct (N.eqb_spec i j9) as [<-|Hne];
    [ rewrite E0 in Hx9; cbn in Hx9; injection Hx9 as <-; pose proof (HP _ _ _ E0 Hxo9) as HPx; p2_pre; destruct HPx;
      try match goal with E : pc _ = _ |- _ => rewrite E in * end; cbn in *; constructor
    | eapply P2_frame; [apply (HP j9 x9 xo9 Hx9 Hxo9)|apply ikeep_refl|apply okeep_refl|apply vrel_vkeep; vrel_tac|apply wkeep_refl] ]
  end;
  try match goal with E : pc _ = _ |- _ => rewrite E end;
  try (p2_goal; fail).

Lemma P2all_own_gen s o th e s' : P2all s o -> oirr e = true -> own_special e = false -> step_own s th e = Some s' -> P2all s' o.
Proof.
  intros HP Hirr Hsp H.
  destruct e; try discriminate Hirr; try discriminate Hsp; own_tac HP H; try discriminate Hirr.
Qed.

End Own.
