(* C12 proof, model-only part 2: what one accepted step does to each instance. *)
From Coq Require Import List ZArith NArith Bool Lia.
From RecordUpdate Require Import RecordSet.
From PC.Base Require Import Assoc.
From PC.Sup Require Import Model Monitors Tactics Sim ObsFacts Effects RelCore LemC12.
Import ListNotations RecordSetNotations.

(* a live command means the instance goroutine sits in Wait(); an uncollected exit code means the command is dead *)
Definition AliveOK (x : inst) : Prop :=
  (alive x = true -> pc x = IAlive) /\ (exited x <> None -> alive x = false /\ pc x = IAlive).

Definition ichange (x x' : inst) : Prop :=
  nm x' = nm x /\ cf x' = cf x /\ (l_done x = true -> l_done x' = true) /\ (AliveOK x -> AliveOK x').

Lemma ichange_of_view x x' : iview x' = iview x -> ichange x x'.
Proof.
  destruct x, x'. unfold iview, ichange, AliveOK. cbn. intros H. inversion H. subst. tauto.
Qed.

Lemma fold_fstopped_get l : forall s j,
  match get j (insts s) with
  | Some x => exists x', get j (insts (fold_left (fun s0 i => upd_inst i (fun x => x <| f_stopped := true |>) s0) l s)) = Some x' /\
                         iview x' = iview x
  | None => get j (insts (fold_left (fun s0 i => upd_inst i (fun x => x <| f_stopped := true |>) s0) l s)) = None
  end.
Proof.
  induction l as [|a l IH]; intros s j; cbn.
  - destruct (get j (insts s)); eauto.
  - specialize (IH (upd_inst a (fun x => x <| f_stopped := true |>) s) j). rewrite insts_upd_inst in IH.
    destruct (N.eqb a j); destruct (get j (insts s)) as [x|]; cbn in IH; auto.
Qed.

Lemma opt_eqb_Z_some a c : opt_eqb Z.eqb a (Some c) = true -> a = Some c.
Proof. destruct a; cbn; [|discriminate]. intros H. apply Z.eqb_eq in H. now subst. Qed.

Ltac split_state_match :=
  repeat match goal with
  | |- context[insts (match ?x with _ => _ end)] => destruct x eqn:?
  | |- context[insts (if ?x then _ else _)] => destruct x eqn:?
  | |- context[if ?x then _ else _] => is_var x; destruct x
  end.

Ltac use_exited :=
  repeat match goal with
  | H : opt_eqb Z.eqb (exited _) (Some _) = true |- _ => apply opt_eqb_Z_some in H
  end.

Ltac ichange_fin :=
  cbn; unfold ichange, AliveOK; cbn; use_exited; split_andb;
  repeat split; intros; cbn in *; intuition (try congruence).

Ltac ichange_leaf s jj :=
  split_state_match; unfold set_pc, end_finish, end_release_early, write_status; autorewrite with sup; cbn;
  rewrite ?get_set;
  repeat match goal with |- context[N.eqb ?a jj] => destruct (N.eqb_spec a jj); [subst jj|] end;
  repeat match goal with H : get ?i (insts s) = Some _ |- context[get ?i (insts s)] => rewrite H end;
  try match goal with |- context[get ?k (insts s)] => destruct (get k (insts s)) eqn:? end;
  cbn [option_map];
  try (left; reflexivity);
  try (eexists; split; [reflexivity|]; ichange_fin).

Lemma step_ichange s th e s' : step_core s th e = Some s' -> forall j,
  match get j (insts s) with
  | Some x => exists x', get j (insts s') = Some x' /\ ichange x x'
  | None => get j (insts s') = None \/ exists n c, get j (insts s') = Some (new_inst n c)
  end.
Proof.
  intros H. step_leaves H e; intros jj; try (ichange_leaf s jj).
  - exfalso. unfold has in E0. rewrite Heqo in E0. discriminate.
  - exfalso. unfold has in E0. rewrite Heqo in E0. discriminate.
  - exfalso. unfold has in E0. rewrite Heqo in E0. discriminate.
  - right. eauto.
  - pose proof (fold_fstopped_get order s jj) as Hf. rewrite Heqo in Hf. destruct Hf as (x' & Ex' & Hv).
    exists x'. split; [exact Ex'|]. now apply ichange_of_view.
  - pose proof (fold_fstopped_get order s jj) as Hf. rewrite Heqo in Hf. now left.
Qed.
