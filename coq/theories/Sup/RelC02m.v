(* C02 simulation: model-only facts about single steps (creation stage, thread->instance map, launch counter,
   pending-stop threads, entering a launched pc).  Heavy (brute force over the step function); used by RelC02f only. *)
From Coq Require Import List ZArith NArith Bool Lia.
From RecordUpdate Require Import RecordSet.
From PC.Base Require Import Assoc.
From PC.Sup Require Import Model Monitors Tactics Sim ObsFacts Effects RelCore LemC02 RelC02defs.
Import ListNotations RecordSetNotations.

Definition stage_ev (e : event) : bool :=
  match e with ENewInst _ _ | EState _ SPending | ERegAdd _ _ | ESpawn _ _ | EBegin _ => true | _ => false end.

Ltac stage_same_tac :=
  unfold set_pc, end_finish, end_release_early;
  repeat match goal with |- context[if ?b then _ else _] => destruct b end;
  repeat match goal with |- context[match ?b with _ => _ end] => destruct b end;
  autorewrite with sup; cbn; autorewrite with sup; try reflexivity.

Lemma stage_same s th e s' : stage_ev e = false -> step_core s th e = Some s' -> stage s' = stage s.
Proof.
  intros Hev H.
  destruct (step_core_kind _ _ _ _ H) as [? ?|i x ? ? ? ? ? ?|H0|H0|H0|i s0 ? H0|i s0 b ? H0|H0|i ? H0|H0|H0]; subst;
    try discriminate Hev; try reflexivity.
  - destruct e; try discriminate Hev; kind_cases H0; stage_same_tac.
  - destruct e; try discriminate Hev; kind_cases H0; stage_same_tac.
  - destruct e; try discriminate Hev; kind_cases H0; stage_same_tac.
  - destruct s0; try discriminate Hev; kind_cases H0; try discriminate; stage_same_tac.
  - kind_cases H0; stage_same_tac.
  - destruct e; try discriminate Hev; kind_cases H0; stage_same_tac.
  - kind_cases H0; stage_same_tac.
  - destruct e; try discriminate Hev; kind_cases H0; stage_same_tac.
  - destruct e; try discriminate Hev; kind_cases H0; stage_same_tac.
Qed.

Lemma at_stage_some s th i k : at_stage s th i k = true -> get i (stage s) = Some (th, k).
Proof.
  unfold at_stage. destruct (get i (stage s)) as [[t k']|]; [|discriminate]. intros H. apply andb_true_iff in H.
  destruct H as [A B]. apply N.eqb_eq in A. apply Nat.eqb_eq in B. now subst.
Qed.

Lemma stage_step s th e s' j v : step_core s th e = Some s' -> get j (stage s') = Some v ->
  get j (stage s) = Some v \/ (get j (stage s) <> None /\ exists k, v = (th, S k)) \/
  (exists n, e = ENewInst j n /\ get j (insts s) = None /\ v = (th, 0)).
Proof.
  intros H Hv. destruct (stage_ev e) eqn:Hev; [|left; now rewrite <- (stage_same _ _ _ _ Hev H)].
  destruct e; try discriminate Hev; cbn in H.
  - (* ENewInst *) unfold step_reg in H. break_step H. subst s'. unfold set_stage in Hv. cbn in Hv. rewrite get_set in Hv.
    destruct (N.eqb_spec i j) as [<-|]; [|now left]. right; right. exists n. injection Hv as <-. repeat split.
    apply negb_true_iff in E0. unfold has in E0. destruct (get i (insts s)); [discriminate|reflexivity].
  - (* ERegAdd *) unfold step_reg in H. break_step H. subst s'. unfold set_stage in Hv. cbn in Hv. rewrite get_set in Hv.
    destruct (N.eqb_spec i j) as [<-|]; [|now left]. right; left. injection Hv as <-. apply at_stage_some in E1. split; [congruence|eauto].
  - (* ESpawn *) kind_cases H; cbn in Hv; autorewrite with sup in Hv; cbn in Hv;
      rewrite get_set in Hv; (destruct (N.eqb_spec i j) as [<-|]; [|now left]); right; left; injection Hv as <-;
      match goal with Ea : at_stage _ _ _ _ = true |- _ => apply at_stage_some in Ea; split; [congruence|eauto] end.
  - (* EBegin *) break_step H. subst s'. cbn in Hv. rewrite get_del in Hv. destruct (N.eqb i j); [discriminate|now left].
  - (* EState Pending *) destruct s0; try discriminate Hev. unfold step_state in H. break_step H; subst s'; try discriminate;
      try (match goal with E : _ && status_eqb SPending _ = true |- _ => cbn in E; rewrite andb_false_r in E; discriminate E end);
      unfold set_stage, set_pc, end_finish, end_release_early in Hv; autorewrite with sup in Hv; cbn in Hv; autorewrite with sup in Hv; try (now left).
    all: rewrite get_set in Hv; (destruct (N.eqb_spec i j) as [<-|]; [|now left]); right; left; injection Hv as <-;
      match goal with Ea : at_stage _ _ _ _ = true |- _ => apply at_stage_some in Ea; split; [congruence|eauto] end.
Qed.

(* ---- thread -> instance map and launch counter ---------------------------------------------------------------- *)
Ltac exc_norm Hv :=
  unfold set_stage, set_pc, end_finish, end_release_early in Hv; autorewrite with sup in Hv; cbn in Hv; autorewrite with sup in Hv.

Lemma thinst_step s th e s' t i : step_core s th e = Some s' -> get t (thinst s') = Some i ->
  get t (thinst s) = Some i \/ (e = EBegin i /\ t = th /\ get i (insts s) <> None).
Proof.
  intros H Hv. destruct (exceptional e) eqn:Hex.
  2:{ destruct (step_core_same _ _ _ _ Hex H) as (_ & E & _). rewrite E in Hv. now left. }
  destruct e; try discriminate Hex; cbn in H.
  - kind_cases H. exc_norm Hv. now left.
  - break_step H. subst s'. cbn in Hv. rewrite get_set in Hv. destruct (N.eqb_spec th t) as [<-|]; [|now left].
    injection Hv as <-. right. repeat split; congruence.
  - kind_cases H; exc_norm Hv; try (now left);
      repeat match type of Hv with context[if ?b then _ else _] => destruct b; exc_norm Hv end; now left.
  - destruct ok; [|discriminate Hex]. kind_cases H; exc_norm Hv; now left.
  - kind_cases H; exc_norm Hv; now left.
  - kind_cases H; exc_norm Hv; now left.
Qed.

Ltac la_tac Hx Hl :=
  exc_norm Hx;
  repeat match type of Hx with context[if ?b then _ else _] => destruct b eqn:?; exc_norm Hx end;
  try (left; eexists; split; [exact Hx|exact Hl]);
  try match type of Hx with context[get ?j (insts ?S)] =>
    let y := fresh "y" in destruct (get j (insts S)) as [y|] eqn:?; cbn in Hx;
    [injection Hx as <-; cbn in Hl; left; eexists; split; [reflexivity|exact Hl]|discriminate Hx]
  end.

Lemma launches_step s th e s' i x' : step_core s th e = Some s' -> get i (insts s') = Some x' -> 0 < launches x' ->
  (exists x, get i (insts s) = Some x /\ 0 < launches x) \/ get th (thinst s) = Some i.
Proof.
  intros H Hx Hl. destruct (exceptional e) eqn:Hex.
  2:{ destruct (step_core_same _ _ _ _ Hex H) as (_ & _ & E & _). specialize (E i).
      destruct (get i (insts s)) as [x|]; [|congruence]. destruct E as (x2 & E2 & _ & _ & El).
      left. exists x. split; [reflexivity|]. assert (x2 = x') by congruence. subst. lia. }
  destruct e; try discriminate Hex; cbn in H.
  - kind_cases H. exc_norm Hx. rewrite get_set in Hx. destruct (N.eqb i0 i); [injection Hx as <-; cbn in Hl; lia|].
    left. eauto.
  - break_step H. subst s'. cbn in Hx. left. eauto.
  - kind_cases H; la_tac Hx Hl.
  - destruct ok; [|discriminate Hex]. kind_cases H. exc_norm Hx.
    match goal with E : get th (thinst s) = Some ?i0 |- _ => destruct (N.eqb_spec i0 i) as [<-|]; [now right|left; eauto] end.
  - kind_cases H; la_tac Hx Hl.
  - kind_cases H; la_tac Hx Hl.
Qed.

(* ---- who is about to end a pending instance ------------------------------------------------------------------ *)
Ltac sp_tac t0 Hs :=
  revert Hs; rt_norm;
  repeat match goal with |- context[if ?b then _ else _] => destruct b eqn:? end;
  repeat match goal with |- context[match dpc ?t with _ => _ end] => destruct (dpc t) eqn:? end;
  repeat match goal with |- context[match ?l with [] => _ | _ :: _ => _ end] => destruct l end;
  repeat match goal with |- context[if ?b then _ else _] => destruct b eqn:? end;
  rt_thread t0; try (intros Hs; left; exact Hs); try discriminate.

Lemma spend_step s th e s' t i : step_core s th e = Some s' -> spc (get_thread s' t) = SPend i ->
  spc (get_thread s t) = SPend i \/
  (e = EStopPending i /\ t = th /\ exists x, get i (insts s) = Some x /\ st (vis_of s (nm x)) = SPending).
Proof.
  intros H Hs.
  destruct (step_core_kind _ _ _ _ H) as [? ?|i0 x ? ? ? ? ? ?|H0|H0|H0|i0 s0 ? H0|i0 s0 b ? H0|H0|i0 ? H0|H0|H0]; subst.
  - now left.
  - left. exact Hs.
  - destruct e; kind_cases H0; sp_tac t Hs.
  - destruct e; kind_cases H0; sp_tac t Hs.
  - destruct e; kind_cases H0; sp_tac t Hs.
    intros [= <-]. right. repeat split; auto. eexists. split; [eassumption|].
    match goal with E : status_eqb _ SPending = true |- _ => now apply status_eqb_eq in E end.
  - kind_cases H0; sp_tac t Hs.
  - kind_cases H0; sp_tac t Hs.
  - destruct e; kind_cases H0; sp_tac t Hs.
  - kind_cases H0; sp_tac t Hs.
  - destruct e; kind_cases H0; sp_tac t Hs.
  - destruct e; kind_cases H0; sp_tac t Hs.
Qed.

(* ---- a launched pc is entered only from PreLaunch ---------------------------------------------------------------- *)
Definition LE (s : sys) (j : iid) : Prop :=
  exists x, get j (insts s) = Some x /\ (launched_pc (pc x) = true \/ pc x = IPreLaunch).

Lemma LE_sback s s' j x' : sback s s' -> get j (insts s') = Some x' -> launched_pc (pc x') = true -> LE s j.
Proof.
  intros [A _] Hx Hl. destruct (A j x' Hx) as (x & Ex & Ik). destruct Ik as (_ & _ & Ipc & _).
  exists x. split; [exact Ex|left; congruence].
Qed.

Ltac le_tac Hx Hl :=
  exc_norm Hx;
  repeat match type of Hx with context[if ?b then _ else _] => destruct b eqn:?; exc_norm Hx end;
  repeat match goal with Hb : N.eqb _ _ = true |- _ => apply N.eqb_eq in Hb; subst end;
  try (eexists; split; [exact Hx|left; exact Hl]);
  repeat match goal with E0 : get ?j (insts ?S) = Some _ |- _ => rewrite E0 in Hx end;
  try match type of Hx with context[get ?j (insts ?S)] => destruct (get j (insts S)) eqn:?; [|discriminate Hx] end;
  unfold LE;
  cbn in Hx; try (injection Hx as <-; cbn in Hl; first [discriminate Hl |
    (eexists; split; [first [eassumption|reflexivity]|];
     first [ left; exact Hl
           | match goal with E : pc _ = _ |- _ => rewrite E; cbn; first [left; reflexivity|right; reflexivity] end ])]).

Lemma launched_enter s th e s' j x' : step_core s th e = Some s' -> get j (insts s') = Some x' ->
  launched_pc (pc x') = true -> LE s j.
Proof.
  intros H Hx Hl.
  destruct (step_core_kind _ _ _ _ H) as [? ?|i0 x ? ? ? ? ? ?|H0|H0|H0|i0 s0 ? H0|i0 s0 b ? H0|H0|i0 ? H0|H0|H0]; subst.
  - eexists; split; [exact Hx|now left].
  - cbn in Hx. eexists; split; [exact Hx|now left].
  - destruct e; try (eapply LE_sback; [eapply sback_reg with (2 := H0); intros ? ? Hq; discriminate Hq|eauto|eauto]); try (cbn in H0; discriminate H0).
    kind_cases H0. exc_norm Hx. rewrite get_set in Hx. destruct (N.eqb i j); [injection Hx as <-; discriminate Hl|].
    eexists; split; [exact Hx|now left].
  - destruct e; try (eapply LE_sback; [eapply sback_api with (2 := H0); intros ? Hq; discriminate Hq|eauto|eauto]); try (cbn in H0; discriminate H0).
    kind_cases H0; le_tac Hx Hl.
  - eapply LE_sback; [eapply sback_stop; eauto|eauto|eauto].
  - kind_cases H0; le_tac Hx Hl.
  - kind_cases H0; le_tac Hx Hl; injection Hx as <-; cbn in Hl; destruct s1; discriminate Hl.
  - destruct e; try (eapply LE_sback; [eapply sback_shutdown with (2 := H0); intros ? Hq; discriminate Hq|eauto|eauto]); try (cbn in H0; discriminate H0).
    kind_cases H0; exc_norm Hx; rewrite fold_upd_inst_get in Hx by reflexivity; le_tac Hx Hl.
  - eapply LE_sback; [eapply sback_ordered; eauto|eauto|eauto].
  - destruct e; try (eapply LE_sback; [eapply sback_env with (2 := H0); intros ? ? Hq; discriminate Hq|eauto|eauto]); try (cbn in H0; discriminate H0).
    kind_cases H0; le_tac Hx Hl.
  - destruct e; kind_cases H0; le_tac Hx Hl. injection Hx as <-. cbn in Hl. destruct found; discriminate Hl.
Qed.
