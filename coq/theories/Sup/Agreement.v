(* Every accepted history keeps the observer's picture in agreement with the model state (names,
   launch counts, reported status / exit code / restart counter, thread binding). *)
From Coq Require Import List ZArith NArith Bool Lia.
From PC.Base Require Import Assoc.
From PC.Sup Require Import Model Monitors Tactics Sim ObsFacts Effects RelCore.
Import ListNotations.

Lemma accept_Rc cs : forall evs s o s', Rc cs s o -> accept s evs = Some s' ->
  Rc cs s' (fold_left (obs_step cs) evs o).
Proof.
  induction evs as [|[th e] evs IH]; intros s o s' HR Hacc; cbn in *.
  - now injection Hacc as <-.
  - destruct (step s (th, e)) as [s1|] eqn:Es; [|discriminate].
    eapply IH; [|exact Hacc]. eapply Rc_step; eauto.
Qed.

Theorem sup_agreement cs ord evs s : accept (init cs ord) evs = Some s -> Rc cs s (final_obs cs evs).
Proof. intros H. unfold final_obs. eapply accept_Rc; [apply Rc_init|exact H]. Qed.
