(* Simulation relation and proof for C03 (shutdown completeness).  See Props/C03.v for the statements. *)
From Coq Require Import List ZArith NArith Bool Lia.
From RecordUpdate Require Import RecordSet.
From PC.Base Require Import Assoc.
From PC.Sup Require Import Model Monitors Tactics Sim ObsFacts Effects RelCore LemC03.
Import ListNotations RecordSetNotations.

(* ---- hypotheses of the theorem ------------------------------------------------------------------------ *)
(* the windows (known findings) the proof needs: F20/F21 commit, F37 sdlag, F25 dup, F38 zombie *)
Definition W_C03 (o : obs) : bool := w_commit o || w_sdlag o || w_dup o || w_zombie o.

(* ---- program counter classes -------------------------------------------------------------------------- *)
Definition gonepc (p : ipc) : bool := match p with IWgDone | IGone => true | _ => false end.
Definition cpc (p : ipc) : bool := match p with IPreStart | IPreLaunch | IStateSet => true | _ => false end.
Definition lcpc (p : ipc) : bool :=
  match p with IStateSet | IAlive | IExited _ | ICodeWritten _ | IWillRestart _ | IRestarting _ | IBackoff _ => true | _ => false end.
Definition badpc (p : ipc) : bool := cpc p || lcpc p.
Definition runpc (p : ipc) : bool :=
  match p with IStateSet | IAlive | IExited _ | ICodeWritten _ | IWillRestart _ | IEnding _ _ | IInEnd _ _ false => true | _ => false end.
Definition endst_ok (p : ipc) : bool := match p with IEnding s _ | IInEnd s _ _ => terminal s | _ => true end.
Definition alivepc (p : ipc) : bool := match p with IAlive => true | _ => false end.
(* the instance will never (again) start a command *)
Definition nl (x : inst) : bool :=
  match pc x with IDeps _ | IBlocked _ _ _ _ => l_runctx x | p => negb (badpc p) end.
Definition is_some {A} (a : option A) : bool := match a with Some _ => true | None => false end.

Section RelC03.
Context (cs : amap pconf).

Record PI (s : sys) (x : inst) (xo : oinst) : Prop := mkPI {
  pi_alive : o_alive xo = alive x;
  pi_pc : alive x || is_some (exited x) = true -> alivepc (pc x) = true;
  pi_ex : is_some (exited x) = true -> alive x = false;
  pi_commit : cpc (pc x) = true -> o_commit xo = true;
  pi_gone : o_gone xo = true -> gonepc (pc x) = true;
  pi_end : endst_ok (pc x) = true;
  pi_done : l_done x = true -> nl x = true;
  pi_lc : lcpc (pc x) = true -> forall v, get (nm x) (viss s) = Some v -> status_eqb (st v) SPending = false
}.

Definition c_inst (s : sys) (o : obs) : Prop :=
  forall i x xo, get i (insts s) = Some x -> get i (oi o) = Some xo -> PI s x xo.
Definition c_name (s : sys) : Prop :=
  forall i j x y, get i (insts s) = Some x -> get j (insts s) = Some y -> i <> j -> nm x = nm y ->
  gonepc (pc x) = true \/ gonepc (pc y) = true.
Definition c_run (s : sys) : Prop :=
  forall n v, get n (viss s) = Some v -> is_running_status (st v) = true ->
  exists j y, get j (insts s) = Some y /\ nm y = n /\ l_done y = false /\ runpc (pc y) = true.
Definition c_sd (s : sys) (o : obs) : Prop :=
  forall th order, (exists r, dpc (get_thread s th) = DLoop order r) \/ dpc (get_thread s th) = DWaitAll order ->
  get th (o_sd_cur o) = Some order.
Definition c_pend (s : sys) (o : obs) : Prop :=
  forall th i, spc (get_thread s th) = SPend i \/ spc (get_thread s th) = SPendE i ->
  exists x, get i (insts s) = Some x /\ o_stopreq (oi_get o i) = true /\ badpc (pc x) = false /\
            (spc (get_thread s th) = SPendE i -> pend (get_thread s th) = Some (REndEarly i) \/ l_runctx x = true).
Record Inv (s : sys) (o : obs) : Prop := mkInv {
  iv_inst : c_inst s o; iv_name : c_name s; iv_run : c_run s; iv_sd : c_sd s o; iv_pend : c_pend s o }.

Definition R3 (s : sys) (o : obs) : Prop := Rc cs s o /\ Inv s o.

Lemma Inv_init ord : Inv (init cs ord) (obs0 cs).
Proof.
  constructor; unfold c_inst, c_name, c_run, c_sd, c_pend; cbn; try discriminate.
  - intros n v Hv Hr. exfalso. rewrite (get_map_fst init_vis cs n) in Hv. destruct (get n cs) as [c|]; [|discriminate].
    cbn in Hv. injection Hv as <-. unfold init_vis in Hr. cbn in Hr. destruct (deferred c); discriminate.
  - intros th order [[r H]|H]; discriminate.
  - intros th i [H|H]; discriminate.
Qed.

Lemma R3_init ord : R3 (init cs ord) (obs0 cs).
Proof. split; [apply Rc_init|apply Inv_init]. Qed.

(* ---- W_C03 is sticky ---------------------------------------------------------------------------------- *)
Lemma W_C03_mono o e : W_C03 o = true -> W_C03 (obs_step cs o e) = true.
Proof.
  pose proof (obs_step_flags_mono cs o e) as H. unfold flag_le, windows_of in H.
  inversion H as [|? ? ? ? Hz H1]; subst. inversion H1 as [|? ? ? ? Hl H2]; subst. inversion H2 as [|? ? ? ? Hc H3]; subst.
  inversion H3 as [|? ? ? ? _ H4]; subst. inversion H4 as [|? ? ? ? _ H5]; subst. inversion H5 as [|? ? ? ? Hd _]; subst.
  unfold W_C03. intros HW. repeat (apply orb_true_iff in HW; destruct HW as [HW|HW]);
  [rewrite (Hc HW)|rewrite (Hl HW)|rewrite (Hd HW)|rewrite (Hz HW)]; rewrite ?orb_true_r; reflexivity.
Qed.

(* ---- the o_succ refresh does not matter ---------------------------------------------------------------- *)
Lemma refresh_get_inv o j xo' : get j (oi (refresh_succ o)) = Some xo' ->
  exists xo, get j (oi o) = Some xo /\ o_alive xo' = o_alive xo /\ o_commit xo' = o_commit xo /\ o_gone xo' = o_gone xo /\
             o_stopreq xo' = o_stopreq xo.
Proof.
  rewrite refresh_get. destruct (get j (oi o)) as [xo|]; cbn; [|discriminate]. intros H. injection H as <-.
  exists xo. split; [reflexivity|]. destruct (_ && _); cbn; auto.
Qed.

Lemma refresh_oi_get_stopreq o i : o_stopreq (oi_get (refresh_succ o) i) = o_stopreq (oi_get o i).
Proof.
  unfold oi_get. rewrite refresh_get. destruct (get i (oi o)) as [xo|]; cbn; [|reflexivity]. destruct (_ && _); reflexivity.
Qed.

Lemma Inv_refresh s o : Inv s o -> Inv s (refresh_succ o).
Proof.
  intros [H1 H2 H3 H4 H5]. constructor; auto.
  - intros i x xo' Hx Hxo'. destruct (refresh_get_inv _ _ _ Hxo') as (xo & Hxo & Ea & Ec & Eg & Es).
    destruct (H1 i x xo Hx Hxo) as [A B C D E F G I]. constructor; auto; [now rewrite Ea|intros Hc; rewrite Ec; auto|intros Hg; rewrite Eg in Hg; auto].
  - intros th i Hs. destruct (H5 th i Hs) as (x & Hx & Hst & Hb & Hp). exists x. rewrite refresh_oi_get_stopreq. auto.
Qed.

(* ---- flush ---------------------------------------------------------------------------------------------- *)
Definition ilink (th : tid) (s : sys) (j : iid) (x x' : inst) : Prop :=
  nm x' = nm x /\ pc x' = pc x /\ alive x' = alive x /\ exited x' = exited x /\ l_done x' = l_done x /\
  (l_runctx x = true -> l_runctx x' = true) /\ (pend (get_thread s th) = Some (REndEarly j) -> l_runctx x' = true).

Lemma flush_fwd th s j x : get j (insts s) = Some x -> exists x', get j (insts (flush th s)) = Some x' /\ ilink th s j x x'.
Proof. intros H. pose proof (flush_inst3 th s j) as F. rewrite H in F. exact F. Qed.
Lemma flush_bwd th s j x' : get j (insts (flush th s)) = Some x' -> exists x, get j (insts s) = Some x /\ ilink th s j x x'.
Proof.
  intros H. pose proof (flush_inst3 th s j) as F. destruct (get j (insts s)) as [x|]; [|congruence].
  destruct F as (x2 & E & L). exists x. split; [reflexivity|]. assert (x2 = x') by congruence. subst x2. exact L.
Qed.

Lemma nl_mono x x' : pc x' = pc x -> (l_runctx x = true -> l_runctx x' = true) -> nl x = true -> nl x' = true.
Proof. unfold nl. intros -> H. destruct (pc x); auto. Qed.

Lemma PI_flush th s j x x' xo : ilink th s j x x' -> PI s x xo -> PI (flush th s) x' xo.
Proof.
  intros (En & Ep & Ea & Ee & Ed & Hr & _) [A B C D E F G I]. constructor; rewrite ?Ep, ?Ea, ?Ee, ?Ed, ?En; auto.
  - intros Hd. eapply nl_mono; eauto.
  - rewrite flush_viss. exact I.
Qed.

Lemma Inv_flush th s o : Inv s o -> Inv (flush th s) o.
Proof.
  intros [H1 H2 H3 H4 H5]. constructor.
  - intros i x' xo Hx' Hxo. destruct (flush_bwd _ _ _ _ Hx') as (x & Hx & L). eapply PI_flush; eauto.
  - intros i j x' y' Hx' Hy' Hij Hn.
    destruct (flush_bwd _ _ _ _ Hx') as (x & Hx & (En & Ep & _)). destruct (flush_bwd _ _ _ _ Hy') as (y & Hy & (En2 & Ep2 & _)).
    rewrite Ep, Ep2. apply (H2 i j x y); congruence.
  - intros n v Hv Hr. rewrite flush_viss in Hv. destruct (H3 n v Hv Hr) as (j & y & Hy & Hn & Hd & Hp).
    destruct (flush_fwd th _ _ _ Hy) as (y' & Hy' & (En & Ep & _ & _ & Ed & _)). exists j, y'. repeat split; congruence.
  - intros th' order. destruct (flush_thread th s th') as (_ & _ & Ed & _). rewrite Ed. apply H4.
  - intros th' i. destruct (flush_thread th s th') as (_ & Es & _ & Ep). rewrite Es. intros Hs.
    destruct (H5 th' i Hs) as (x & Hx & Hst & Hb & Hp).
    destruct (flush_fwd th _ _ _ Hx) as (x' & Hx' & (En & Epc & _ & _ & _ & Hr & Hfl)). exists x'.
    split; [exact Hx'|]. split; [exact Hst|]. split; [now rewrite Epc|]. intros HE. specialize (Hp HE).
    rewrite Ep. destruct (N.eqb_spec th th').
    + subst th'. right. destruct Hp as [Hp|Hp]; auto.
    + destruct Hp as [Hp|Hp]; auto.
Qed.


(* ---- frame transfer ----------------------------------------------------------------------------------------- *)
Lemma csame_bwd s s' j x' : sys_csame s s' -> get j (insts s') = Some x' -> exists x, get j (insts s) = Some x /\ icore_eq x x'.
Proof.
  intros [C _] H. specialize (C j). destruct (get j (insts s)) as [x|]; [|congruence].
  destruct C as (x2 & E & L). exists x. split; [reflexivity|]. assert (x2 = x') by congruence. now subst.
Qed.
Lemma csame_fwd s s' j x : sys_csame s s' -> get j (insts s) = Some x -> exists x', get j (insts s') = Some x' /\ icore_eq x x'.
Proof. intros [C _] H. specialize (C j). now rewrite H in C. Qed.
Lemma csame_vis_bwd s s' n v' : sys_csame s s' -> get n (viss s') = Some v' -> exists v, get n (viss s) = Some v /\ st v' = st v.
Proof.
  intros [_ D] H. specialize (D n). destruct (get n (viss s)) as [v|]; [|congruence].
  destruct D as (v2 & E & L). exists v. split; [reflexivity|]. congruence.
Qed.
Lemma ocsame_bwd o o' j x' : obs_csame o o' -> get j (oi o') = Some x' -> exists x, get j (oi o) = Some x /\ ocore_eq x x'.
Proof.
  intros C H. specialize (C j). destruct (get j (oi o)) as [x|]; [|congruence].
  destruct C as (x2 & E & L). exists x. split; [reflexivity|]. assert (x2 = x') by congruence. now subst.
Qed.
Lemma ocsame_oi_get o o' i : obs_csame o o' -> o_stopreq (oi_get o i) = true -> o_stopreq (oi_get o' i) = true.
Proof.
  intros C. unfold oi_get. specialize (C i). destruct (get i (oi o)) as [x|]; [|cbn; discriminate].
  destruct C as (x' & -> & (_ & _ & _ & H)). exact H.
Qed.

Lemma nl_core x x' : icore_eq x x' -> nl x' = nl x.
Proof. intros (_ & Ep & _ & _ & _ & Er). unfold nl. now rewrite Ep, Er. Qed.

Lemma PI_frame s s' x x' xo xo' : sys_csame s s' -> icore_eq x x' -> ocore_eq xo xo' -> PI s x xo -> PI s' x' xo'.
Proof.
  intros HS L (Oa & Oc & Og & _) [A B C D E F G I]. pose proof (nl_core _ _ L) as Hnl.
  destruct L as (En & Ep & Ea & Ee & Ed & Er).
  constructor; rewrite ?Ep, ?Ea, ?Ee, ?Ed, ?En, ?Oa, ?Oc, ?Og, ?Hnl; auto.
  intros Hl v' Hv'. destruct (csame_vis_bwd _ _ _ _ HS Hv') as (v & Hv & ->). eauto.
Qed.

Lemma c_inst_frame s s' o o' : sys_csame s s' -> obs_csame o o' -> c_inst s o -> c_inst s' o'.
Proof.
  intros HS HO H i x' xo' Hx' Hxo'. destruct (csame_bwd _ _ _ _ HS Hx') as (x & Hx & L).
  destruct (ocsame_bwd _ _ _ _ HO Hxo') as (xo & Hxo & LO). eapply PI_frame; eauto.
Qed.
Lemma c_name_frame s s' : sys_csame s s' -> c_name s -> c_name s'.
Proof.
  intros HS H i j x' y' Hx' Hy' Hij Hn. destruct (csame_bwd _ _ _ _ HS Hx') as (x & Hx & (En & Ep & _)).
  destruct (csame_bwd _ _ _ _ HS Hy') as (y & Hy & (En2 & Ep2 & _)). rewrite Ep, Ep2. apply (H i j x y); congruence.
Qed.
Lemma c_run_frame s s' : sys_csame s s' -> c_run s -> c_run s'.
Proof.
  intros HS H n v' Hv' Hr. destruct (csame_vis_bwd _ _ _ _ HS Hv') as (v & Hv & Est). rewrite Est in Hr.
  destruct (H n v Hv Hr) as (j & y & Hy & Hn & Hd & Hp). destruct (csame_fwd _ _ _ _ HS Hy) as (y' & Hy' & (En & Ep & _ & _ & Ed & _)).
  exists j, y'. repeat split; congruence.
Qed.

(* ---- the instance's own events ---------------------------------------------------------------------------- *)
Definition vst_bwd (s s' : sys) : Prop :=
  forall n v', get n (viss s') = Some v' -> exists v, get n (viss s) = Some v /\ st v' = st v.
Lemma vst_bwd_refl s : vst_bwd s s. Proof. intros n v H. eauto. Qed.
Lemma vst_bwd_upd_vis n f s : (forall v, st (f v) = st v) -> vst_bwd s (upd_vis n f s).
Proof.
  intros Hf m v' H. rewrite viss_upd_vis in H. destruct (N.eqb n m); [|eauto].
  destruct (get m (viss s)) as [v|]; cbn in H; [|discriminate]. injection H as <-. eauto.
Qed.

Lemma step_own_vst s th e s' : step_own s th e = Some s' -> vst_bwd s s'.
Proof.
  intros H. destruct e; try (unfold step_own in H; destruct (own_inst s th) as [[? ?]|]; [destruct (pc _)|]; discriminate H).
  all: kind_cases H; unfold set_pc; intros n v' Hv'; autorewrite with sup in Hv'; eauto.
  all: destruct (N.eqb _ n); eauto; destruct (get n (viss s)) as [v|]; cbn in Hv'; [|discriminate]; injection Hv' as <-; eauto.
Qed.

Lemma PI_vst s s' x xo : vst_bwd s s' -> PI s x xo -> PI s' x xo.
Proof.
  intros HV [A B C D E F G I]. constructor; auto.
  intros Hl v' Hv'. destruct (HV _ _ Hv') as (v & Hv & ->). eauto.
Qed.

Lemma c_inst_own s o th e s' : Rc cs s o -> Inv s o -> step_own s th e = Some s' ->
  W_C03 (obs_pre cs o (th, e)) = false -> c_inst s' (obs_pre cs o (th, e)).
Proof.
  intros HRc HI H HW j x' xo' Hx' Hxo'. pose proof (step_own_vst _ _ _ _ H) as HV.
  destruct e; try (unfold step_own in H; destruct (own_inst s th) as [[? ?]|]; [destruct (pc _)|]; discriminate H).
  all: cbn [obs_pre ev_inst fst snd] in *; rewrite <- ?(rc_th _ _ _ HRc th) in *.
  all: kind_cases H.
  all: repeat match type of Hxo' with context[match ?b with true => _ | false => _ end] => is_var b; destruct b end.
  all: match goal with E : get _ (thinst _) = Some ?i, E' : get ?i (insts _) = Some ?x |- _ =>
         unfold set_pc in Hx'; autorewrite with sup in Hx'; autorewrite with obsf in Hxo'; cbn in Hxo';
         destruct (N.eqb_spec i j);
         [ subst j; rewrite E' in Hx'; cbn in Hx'; injection Hx' as <-;
           rewrite ?N.eqb_refl in Hxo';
           destruct (get i (oi o)) as [xo|] eqn:Exo; cbn in Hxo'; [injection Hxo' as <-|discriminate Hxo'];
           apply (PI_vst s _ _ _ HV);
           destruct (iv_inst _ _ HI _ _ _ E' Exo) as [A B C D E_ F G I]
         | rewrite ?(proj2 (N.eqb_neq i j)) in Hxo' by assumption;
           apply (PI_vst s _ _ _ HV), (iv_inst _ _ HI _ _ _ Hx' Hxo') ]
       end.
  all: repeat match goal with |- context[if ?b then _ else _] => destruct b end.
  all: constructor; unfold nl in *; cbn; rewrite ?E1 in *; cbn in *; auto; try discriminate; try (intros; discriminate).
  all: try (destruct found; cbn in *; auto; intros; discriminate).
  - intros Hd. rewrite (G Hd) in E3. discriminate.
  - intros He. rewrite He, orb_true_r in B. specialize (B eq_refl). discriminate.
  - match goal with E : opt_eqb Z.eqb (exited i2) _ = true |- _ => destruct (exited i2); [|discriminate E] end.
    rewrite (C eq_refl). cbn. auto.
Qed.

Lemma step_own_mono s th e s' : step_own s th e = Some s' ->
  exists i x x', get th (thinst s) = Some i /\ get i (insts s) = Some x /\ get i (insts s') = Some x' /\
    (forall j, j <> i -> get j (insts s') = get j (insts s)) /\
    nm x' = nm x /\ l_done x' = l_done x /\ l_runctx x' = l_runctx x /\
    (gonepc (pc x) = true -> gonepc (pc x') = true) /\ (nl x = true -> nl x' = true) /\
    (runpc (pc x) = true -> runpc (pc x') = true) /\
    (badpc (pc x') = true -> badpc (pc x) = true \/ e = ERunChecked false) /\
    (forall th', spc (get_thread s' th') = spc (get_thread s th') /\ dpc (get_thread s' th') = dpc (get_thread s th') /\
                 (th' <> th -> pend (get_thread s' th') = pend (get_thread s th'))).
Proof.
  intros H. destruct e; try (unfold step_own in H; destruct (own_inst s th) as [[? ?]|]; [destruct (pc _)|]; discriminate H).
  all: kind_cases H.
  all: match goal with E : get _ (thinst _) = Some ?i, E' : get ?i (insts _) = Some ?x |- _ =>
         exists i, x; eexists; split; [reflexivity|]; split; [exact E'|]; split;
         [unfold set_pc; autorewrite with sup; rewrite ?N.eqb_refl, ?E'; cbn; reflexivity|]; split;
         [intros ? ?; unfold set_pc; autorewrite with sup;
          try match goal with |- context[N.eqb ?a ?b] => destruct (N.eqb_spec a b); [congruence|] end; reflexivity|]
       end.
  all: repeat match goal with |- context[if ?b then _ else _] => is_var b; destruct b end.
  all: try match goal with |- context[match ?b with Some _ => _ | None => _ end] => is_var b; destruct b end.
  all: unfold nl; cbn; rewrite ?E1; cbn.
  all: repeat (split; [solve [auto | intros; discriminate | intros; left; reflexivity | intros; right; reflexivity]|]).
  all: try (intros th'; unfold set_pc; autorewrite with sup;
            try match goal with |- context[N.eqb ?a ?b] => destruct (N.eqb_spec a b); [subst|] end; cbn; repeat split; congruence).
  - split; [intros Hr; rewrite Hr in E3; discriminate|]. destruct (bad_dir (cf i2)); cbn; repeat (split; auto); try discriminate.
    all: try intros _; unfold set_pc; autorewrite with sup; reflexivity.
  - intros _; reflexivity.
Qed.


Definition own_ev (e : event) : bool :=
  match e with
  | EDepWait _ _ | EDepDone _ _ | ESkip | ERunChecked _ | EStarted | ELaunch _ | EWaitReturn _ | EExitCode _ | ELookupMid _
  | ERestartDecision _ | EBackoffWait _ | EBackoffElapsed | EBackoffCancelled | ERunReturned _ | EInstDone | EExitTrigger _
  | EExitCodeSet _ | EInstExit | EWgDone | EInstGone => true
  | _ => false
  end.
Lemma step_own_ev s th e s' : step_own s th e = Some s' -> own_ev e = true.
Proof.
  intros H. destruct e; try reflexivity; unfold step_own in H; destruct (own_inst s th) as [[? ?]|]; try discriminate H;
  try (destruct (pc _); discriminate H).
Qed.

Lemma late_commit_W o i f : o_stopreq (oi_get o i) = true -> W_C03 (oi_upd i f (note_late_commit o i)) = true.
Proof.
  intros H. unfold W_C03. autorewrite with obsf. unfold note_late_commit. rewrite H.
  destruct (stopping o i); cbn; rewrite ?orb_true_r; reflexivity.
Qed.

Lemma Inv_own s o th e s' : Rc cs s o -> Inv s o -> pend (get_thread s th) = None -> step_own s th e = Some s' ->
  W_C03 (obs_pre cs o (th, e)) = false -> Inv s' (obs_pre cs o (th, e)).
Proof.
  intros HRc HI Hpn H HW. pose proof (step_own_ev _ _ _ _ H) as Hev.
  destruct (step_own_mono _ _ _ _ H) as (i & x & x' & Hth & Hx & Hx' & Hoth & En & Ed & Er & Hg & Hnl & Hrp & Hbad & Hthr).
  assert (Hbwd : forall j y', get j (insts s') = Some y' -> exists y, get j (insts s) = Some y /\ nm y' = nm y /\
            l_done y' = l_done y /\ l_runctx y' = l_runctx y /\ (gonepc (pc y) = true -> gonepc (pc y') = true) /\
            (nl y = true -> nl y' = true) /\ (j <> i -> y' = y)).
  { intros j y' Hy'. destruct (N.eq_dec j i) as [->|Hne].
    - assert (y' = x') by congruence. subst y'. exists x. repeat split; auto. congruence.
    - rewrite (Hoth j Hne) in Hy'. exists y'. repeat split; auto. }
  constructor.
  - eapply c_inst_own; eauto.
  - intros a b xa xb Ha Hb Hab Hn. destruct (Hbwd _ _ Ha) as (ya & Hya & Ena & _ & _ & Hga & _).
    destruct (Hbwd _ _ Hb) as (yb & Hyb & Enb & _ & _ & Hgb & _).
    destruct (iv_name _ _ HI a b ya yb Hya Hyb Hab) as [G|G]; [congruence|left; auto|right; auto].
  - intros n v' Hv' Hr. destruct (step_own_vst _ _ _ _ H n v' Hv') as (v & Hv & Est). rewrite Est in Hr.
    destruct (iv_run _ _ HI n v Hv Hr) as (j & y & Hy & Hn & Hd & Hp).
    destruct (N.eq_dec j i) as [->|Hne].
    + assert (y = x) by congruence. subst y. exists i, x'. repeat split; auto; congruence.
    + exists j, y. rewrite (Hoth j Hne). auto.
  - intros th' order Hd. destruct (Hthr th') as (_ & Edp & _). rewrite Edp in Hd.
    rewrite obs_pre_sd_cur by (destruct e; try discriminate Hev; exact I). now apply (iv_sd _ _ HI).
  - intros th' k Hs. destruct (Hthr th') as (Esp & _ & Epd). rewrite Esp in Hs |- *.
    destruct (iv_pend _ _ HI th' k Hs) as (y & Hy & Hst & Hb & Hp).
    assert (Hst' : o_stopreq (oi_get (obs_pre cs o (th, e)) k) = true)
      by (apply obs_pre_stopreq_get; [destruct e; try discriminate Hev; exact I|exact Hst]).
    destruct (N.eq_dec k i) as [->|Hne].
    + assert (y = x) by congruence. subst y. exists x'. split; [exact Hx'|]. split; [exact Hst'|]. split.
      * destruct (badpc (pc x')) eqn:Eb; [|reflexivity]. destruct (Hbad eq_refl) as [Hc|Hc]; [congruence|]. subst e.
        exfalso. cbn [obs_pre ev_inst fst snd] in HW. rewrite <- (rc_th _ _ _ HRc th), Hth in HW.
        rewrite late_commit_W in HW by exact Hst. discriminate.
      * intros HE. destruct (N.eq_dec th' th) as [->|Hne']; [|rewrite (Epd Hne'), Er; auto].
        destruct (Hp HE) as [Hp'|Hp']; [congruence|right; congruence].
    + exists y. rewrite (Hoth k Hne). split; [exact Hy|]. split; [exact Hst'|]. split; [exact Hb|].
      intros HE. destruct (N.eq_dec th' th) as [->|Hne']; [|rewrite (Epd Hne'); auto].
      destruct (Hp HE) as [Hp'|Hp']; [congruence|right; congruence].
Qed.

(* ---- threads: the shutdown program counter ----------------------------------------------------------------- *)
Lemma step_core_dpc s th e s' : step_core s th e = Some s' -> own_ev e = false ->
  (forall th', th' <> th -> dpc (get_thread s' th') = dpc (get_thread s th')) /\
  match e with
  | EShutdownOrder order => dpc (get_thread s' th) = DLoop order order \/ dpc (get_thread s' th) = DWaitAll order
  | EShutdownEnd => dpc (get_thread s' th) = DEnded
  | EShutdownCall => dpc (get_thread s' th) = DCalled
  | EShutdownBegin => dpc (get_thread s' th) = DBegun
  | EShutdownUnlocked => dpc (get_thread s' th) = DNone
  | EStopReturn i => dpc (get_thread s' th) = dpc (get_thread s th) \/
                     exists order rest, dpc (get_thread s th) = DLoop order (i :: rest) /\ dpc (get_thread s' th) = DLoop order rest
  | _ => dpc (get_thread s' th) = dpc (get_thread s th)
  end.
Proof.
  intros H Hev. unfold step_core in H. destruct e; try discriminate Hev; kind_cases H.
  all: try match goal with |- context[match dpc ?t with _ => _ end] => destruct (dpc t) as [| | |? [|? ?]| |] eqn:Ed end.
  all: split; [intros th' Hne; unfold set_pc, end_finish; autorewrite with sup;
               try rewrite (proj2 (N.eqb_neq th th')) by congruence;
               repeat match goal with |- context[if ?b then _ else _] => destruct b end; autorewrite with sup;
               try rewrite (proj2 (N.eqb_neq th th')) by congruence; reflexivity|].
  all: unfold set_pc, end_finish; autorewrite with sup; rewrite ?N.eqb_refl; cbn; try reflexivity.
  all: try (left; assumption).
  all: try (destruct (N.eqb_spec i i2); [subst i2|]; autorewrite with sup; rewrite N.eqb_refl; cbn; [right; eauto|left; assumption]).
  - destruct (ordered s); auto.
  - destruct ready; autorewrite with sup; reflexivity.
Qed.

Lemma obs_sd_cur_order o th order : o_sd_cur (obs_pre cs o (th, EShutdownOrder order)) = set th order (o_sd_cur o).
Proof. cbn. f_equal. fold_proj o_sd_cur. reflexivity. Qed.
Lemma obs_sd_cur_end o th : o_sd_cur (obs_pre cs o (th, EShutdownEnd)) = del th (o_sd_cur o).
Proof. reflexivity. Qed.

Lemma c_sd_step s o th e s' : Inv s o -> step_core s th e = Some s' -> own_ev e = false -> c_sd s' (obs_pre cs o (th, e)).
Proof.
  intros HI H Hev. destruct (step_core_dpc _ _ _ _ H Hev) as [Hoth Hth].
  intros th' order Hd. destruct (N.eq_dec th' th) as [->|Hne].
  - destruct e; try discriminate Hev;
    try (rewrite obs_pre_sd_cur by exact I; rewrite Hth in Hd; now apply (iv_sd _ _ HI)).
    + (* EStopReturn *) rewrite obs_pre_sd_cur by exact I. destruct Hth as [Hth|(ord0 & rest & E1 & E2)].
      * rewrite Hth in Hd. now apply (iv_sd _ _ HI).
      * rewrite E2 in Hd. apply (iv_sd _ _ HI). destruct Hd as [[r Hd]|Hd]; [|discriminate]. injection Hd as <- <-. left. eauto.
    + rewrite Hth in Hd. destruct Hd as [[r Hd]|Hd]; discriminate.
    + rewrite Hth in Hd. destruct Hd as [[r Hd]|Hd]; discriminate.
    + rewrite obs_sd_cur_order, get_set_same. destruct Hth as [Hth|Hth]; rewrite Hth in Hd; destruct Hd as [[r Hd]|Hd]; congruence.
    + rewrite Hth in Hd. destruct Hd as [[r Hd]|Hd]; discriminate.
    + rewrite Hth in Hd. destruct Hd as [[r Hd]|Hd]; discriminate.
  - rewrite (Hoth th' Hne) in Hd. pose proof (iv_sd _ _ HI th' order Hd) as Hg.
    destruct e; try discriminate Hev; try (rewrite obs_pre_sd_cur by exact I; exact Hg).
    + rewrite obs_sd_cur_order, get_set_other by congruence. exact Hg.
    + rewrite obs_sd_cur_end, get_del_other by congruence. exact Hg.
Qed.

(* ---- threads: stop executions that found the instance Pending ------------------------------------------------ *)
Definition pendst (p : stoppc) (k : iid) : Prop := p = SPend k \/ p = SPendE k.

Lemma step_core_thr s th e s' : step_core s th e = Some s' -> own_ev e = false ->
  (forall th', th' <> th -> spc (get_thread s' th') = spc (get_thread s th') /\ pend (get_thread s' th') = pend (get_thread s th')) /\
  (forall k, pendst (spc (get_thread s' th)) k ->
     spc (get_thread s' th) = spc (get_thread s th) \/
     (e = EStopPending k /\ spc (get_thread s' th) = SPend k /\
      exists x, get k (insts s) = Some x /\ status_eqb (st (vis_of s (nm x))) SPending = true) \/
     (exists s0, e = EProcEnd k s0 /\ spc (get_thread s th) = SPend k /\ spc (get_thread s' th) = SPendE k /\
                 pend (get_thread s' th) = Some (REndEarly k))).
Proof.
  intros H Hev. unfold step_core in H. destruct e; try discriminate Hev; kind_cases H.
  all: try match goal with |- context[match dpc ?t with _ => _ end] => destruct (dpc t) as [| | |? [|? ?]| |] eqn:Ed end.
  all: split; [intros th' Hne; unfold set_pc, end_finish; autorewrite with sup;
               try rewrite (proj2 (N.eqb_neq th th')) by congruence;
               repeat match goal with |- context[if ?b then _ else _] => destruct b end; autorewrite with sup;
               try rewrite (proj2 (N.eqb_neq th th')) by congruence; split; reflexivity|].
  all: intros k0; unfold set_pc, end_finish; autorewrite with sup; rewrite ?N.eqb_refl; cbn; try (intros _; left; reflexivity).
  all: try (intros _; left; assumption).
  all: try (intros [Hp|Hp]; discriminate Hp).
  - intros [Hp|Hp]; [discriminate Hp|]. injection Hp as <-. split_andb. subst i1. right. right. exists s0. auto.
  - intros [Hp|Hp]; [|discriminate Hp]. injection Hp as <-. right. left. split; [reflexivity|]. split; [reflexivity|]. eauto.
  - destruct (i =? i2)%N; autorewrite with sup; rewrite N.eqb_refl; cbn; intros [Hp|Hp]; discriminate Hp.
  - destruct (i =? i2)%N; autorewrite with sup; rewrite N.eqb_refl; cbn; intros [Hp|Hp]; discriminate Hp.
  - destruct (i =? i2)%N; autorewrite with sup; rewrite N.eqb_refl; cbn; intros [Hp|Hp]; discriminate Hp.
  - destruct ready; autorewrite with sup; intros _; left; reflexivity.
Qed.

(* ---- instances under the events of other threads -------------------------------------------------------------- *)
Definition imono (x x' : inst) : Prop :=
  nm x' = nm x /\ l_runctx x' = l_runctx x /\ (l_done x = true -> l_done x' = true) /\
  (badpc (pc x') = true -> badpc (pc x) = true) /\ (gonepc (pc x) = true -> gonepc (pc x') = true) /\
  (nl x = true -> nl x' = true).

Lemma imono_core x x' : icore_eq x x' -> imono x x'.
Proof.
  intros L. pose proof (nl_core _ _ L) as Hn. destruct L as (En & Ep & Ea & Ee & Ed & Er).
  unfold imono. rewrite Ep, Hn, Ed. repeat split; auto.
Qed.

Lemma step_core_inst s th e s' : step_core s th e = Some s' -> own_ev e = false ->
  forall j x, get j (insts s) = Some x -> exists x', get j (insts s') = Some x' /\ imono x x'.
Proof.
  intros H Hev j x Hx. destruct (frame_ev e) eqn:Hf.
  { destruct (csame_fwd _ _ _ _ (step_core_csame _ _ _ _ Hf H) Hx) as (x' & Hx' & L). eauto using imono_core. }
  unfold step_core in H. destruct e; try discriminate Hev; try discriminate Hf; kind_cases H.
  all: unfold set_pc, end_finish; cbn; autorewrite with sup.
  all: repeat match goal with |- context[if ?b then _ else _] => is_var b; destruct b end; autorewrite with sup.
  all: try rewrite get_set.
  all: try match goal with |- context[N.eqb ?a ?b] => destruct (N.eqb_spec a b); [subst b|] end.
  all: try (exists x; split; [assumption|apply imono_core, icore_eq_refl]).
  all: try match goal with E : get ?i (insts _) = Some ?y, Hx : get ?i (insts _) = Some ?x |- _ => rewrite E in Hx; injection Hx as <- end.
  all: try match goal with E : get ?i (insts _) = Some ?y |- _ => rewrite ?E end; cbn.
  all: try (eexists; split; [reflexivity|]).
  all: try (unfold imono, nl; cbn;
            repeat match goal with E : pc _ = _ |- _ => rewrite E; clear E end; cbn; repeat split; auto; discriminate).
  1:{ exfalso. unfold has in E0. rewrite Hx in E0. discriminate. }
  all: destruct s1; unfold imono, nl; cbn;
       repeat match goal with E : pc _ = _ |- _ => rewrite E; clear E end; cbn; repeat split; auto; try discriminate.
Qed.

Lemma oi_get_newinst o th i n k : k <> i -> oi_get (obs_pre cs o (th, ENewInst i n)) k = oi_get o k.
Proof. intros Hne. unfold oi_get. cbn. rewrite get_set_other by congruence. reflexivity. Qed.

Lemma vis_of_present s o x i : Rc cs s o -> get i (insts s) = Some x -> exists v, get (nm x) (viss s) = Some v /\ vis_of s (nm x) = v.
Proof.
  intros HRc Hx. destruct (rc_inst _ _ _ HRc i x Hx) as (xo & _ & _ & Hc & _).
  destruct (rc_name _ _ _ HRc _ _ Hc) as (v & r & Hv & _). exists v. split; [exact Hv|]. unfold vis_of. now rewrite Hv.
Qed.

Lemma c_pend_step s o th e s' : Rc cs s o -> Inv s o -> pend (get_thread s th) = None -> step_core s th e = Some s' ->
  own_ev e = false -> W_C03 (obs_pre cs o (th, e)) = false -> c_pend s' (obs_pre cs o (th, e)).
Proof.
  intros HRc HI Hpn H Hev HW th' k Hs.
  destruct (step_core_thr _ _ _ _ H Hev) as [Hoth Hth].
  assert (Hkeep : forall y, get k (insts s) = Some y -> o_stopreq (oi_get o k) = true -> badpc (pc y) = false ->
            exists y', get k (insts s') = Some y' /\ o_stopreq (oi_get (obs_pre cs o (th, e)) k) = true /\ badpc (pc y') = false /\
                       l_runctx y' = l_runctx y).
  { intros y Hy Hst Hb. destruct (step_core_inst _ _ _ _ H Hev k y Hy) as (y' & Hy' & (_ & Er & _ & Hbad & _)).
    exists y'. split; [exact Hy'|]. split.
    - destruct e; try (apply obs_pre_stopreq_get; [exact I|exact Hst]).
      rewrite oi_get_newinst; [exact Hst|]. intros ->. unfold step_core, step_reg in H. break_step H. unfold has in *. rewrite Hy in *. discriminate.
    - split; [|exact Er]. destruct (badpc (pc y')); [rewrite Hbad in Hb by reflexivity; discriminate|reflexivity]. }
  destruct (N.eq_dec th' th) as [->|Hne].
  - destruct (Hth k Hs) as [Hsame|[(-> & Hsp & x & Hx & Hgu)|(s0 & -> & Hsp0 & Hsp & Hpd)]].
    + rewrite Hsame in Hs |- *. destruct (iv_pend _ _ HI th k Hs) as (y & Hy & Hst & Hb & Hp).
      destruct (Hkeep y Hy Hst Hb) as (y' & Hy' & Hst' & Hb' & Er). exists y'. repeat split; auto.
      intros HE. right. rewrite Er. destruct (Hp HE) as [Hp'|Hp']; [congruence|exact Hp'].
    + (* EStopPending *)
      destruct (rc_inst _ _ _ HRc k x Hx) as (xo & Hxo & _).
      assert (Hb : badpc (pc x) = false).
      { destruct (iv_inst _ _ HI k x xo Hx Hxo) as [_ _ _ D _ _ _ I0]. unfold badpc. apply orb_false_iff. split.
        - destruct (cpc (pc x)); [|reflexivity]. exfalso. specialize (D eq_refl).
          unfold W_C03 in HW. cbn [obs_pre ev_inst fst snd] in HW. autorewrite with obsf in HW. cbn in HW.
          unfold oi_get in HW. rewrite Hxo, D in HW. rewrite !orb_true_r in HW. discriminate.
        - destruct (lcpc (pc x)); [|reflexivity]. exfalso.
          destruct (vis_of_present _ _ _ _ HRc Hx) as (v & Hv & Ev). rewrite Ev in Hgu. rewrite (I0 eq_refl v Hv) in Hgu. discriminate. }
      destruct (step_core_inst _ _ _ _ H Hev k x Hx) as (x' & Hx' & (_ & Er & _ & Hbad & _)).
      exists x'. split; [exact Hx'|]. split.
      * cbn [obs_pre ev_inst fst snd]. rewrite oi_get_upd, N.eqb_refl. cbn. rewrite Hxo. reflexivity.
      * split; [destruct (badpc (pc x')); [rewrite Hbad in Hb by reflexivity; discriminate|reflexivity]|].
        rewrite Hsp. discriminate.
    + (* EProcEnd, stop branch *)
      destruct (iv_pend _ _ HI th k (or_introl Hsp0)) as (y & Hy & Hst & Hb & Hp).
      destruct (Hkeep y Hy Hst Hb) as (y' & Hy' & Hst' & Hb' & Er). exists y'. repeat split; auto.
  - destruct (Hoth th' Hne) as [Es Ep]. rewrite Es in Hs |- *. rewrite Ep.
    destruct (iv_pend _ _ HI th' k Hs) as (y & Hy & Hst & Hb & Hp).
    destruct (Hkeep y Hy Hst Hb) as (y' & Hy' & Hst' & Hb' & Er). exists y'. repeat split; auto. rewrite Er. exact Hp.
Qed.

Lemma step_core_inst_bwd s th e s' : step_core s th e = Some s' -> own_ev e = false ->
  forall j x', get j (insts s') = Some x' ->
  (exists x, get j (insts s) = Some x /\ imono x x') \/
  (get j (insts s) = None /\ exists n c, e = ENewInst j n /\ get n (confs s) = Some c /\ x' = new_inst n c).
Proof.
  intros H Hev j x' Hx'. destruct (get j (insts s)) as [x|] eqn:Hx.
  - left. destruct (step_core_inst _ _ _ _ H Hev j x Hx) as (x2 & Hx2 & L). exists x. split; [reflexivity|]. congruence.
  - right. split; [reflexivity|]. destruct (frame_ev e) eqn:Hf.
    { destruct (csame_bwd _ _ _ _ (step_core_csame _ _ _ _ Hf H) Hx') as (x & Hx0 & _). congruence. }
    unfold step_core in H. destruct e; try discriminate Hev; try discriminate Hf; kind_cases H.
    all: unfold set_pc, end_finish in Hx'; cbn in Hx'; autorewrite with sup in Hx'.
    all: repeat match type of Hx' with context[if ?b then _ else _] => is_var b; destruct b end; autorewrite with sup in Hx'.
    all: try rewrite get_set in Hx'.
    all: repeat match type of Hx' with context[N.eqb ?a ?b] => destruct (N.eqb_spec a b); [subst b|] end.
    all: rewrite ?Hx in Hx'; try discriminate Hx'.
    all: try match goal with E : get ?i (insts _) = Some ?y |- _ => rewrite E in Hx; discriminate Hx end.
    injection Hx' as <-. eauto.
Qed.

Lemma existsb_false_in {A} (f : A -> bool) l : existsb f l = false -> forall a, In a l -> f a = false.
Proof.
  intros H a Ha. destruct (f a) eqn:E; [|reflexivity]. rewrite <- H. symmetry. apply existsb_exists. eauto.
Qed.

Lemma W_newinst o th i n : W_C03 (obs_pre cs o (th, ENewInst i n)) = false ->
  forall j y, get j (oi o) = Some y -> o_nm y = n -> o_ended y = true /\ o_gone y = true.
Proof.
  unfold W_C03. cbn. intros HW j y Hy Hn.
  repeat (apply orb_false_iff in HW; destruct HW as [HW ?]).
  apply get_in_vals in Hy.
  match goal with H : w_dup o || _ = false |- _ => apply orb_false_iff in H; destruct H as [_ Hd] end.
  match goal with H : w_zombie o || _ = false |- _ => apply orb_false_iff in H; destruct H as [_ Hz] end.
  pose proof (existsb_false_in _ _ Hd y Hy) as G1. pose proof (existsb_false_in _ _ Hz y Hy) as G2.
  cbn in G1, G2. rewrite Hn, N.eqb_refl in G1, G2. cbn in G1, G2.
  destruct (o_ended y); cbn in *; [|discriminate]. destruct (o_gone y); cbn in *; [auto|discriminate].
Qed.

Lemma c_name_step s o th e s' : Rc cs s o -> Inv s o -> step_core s th e = Some s' -> own_ev e = false ->
  W_C03 (obs_pre cs o (th, e)) = false -> c_name s'.
Proof.
  intros HRc HI H Hev HW a b xa xb Ha Hb Hab Hn.
  assert (Hnew : forall j y' n c k z z', e = ENewInst j n -> y' = new_inst n c -> get k (insts s) = Some z -> imono z z' ->
                  nm y' = nm z' -> gonepc (pc z') = true).
  { intros j y' n c k z z' -> -> Hz (En & _ & _ & _ & Hg & _) Hnn. apply Hg. cbn in Hnn.
    destruct (rc_inst _ _ _ HRc k z Hz) as (zo & Hzo & Hnm & _).
    destruct (W_newinst _ _ _ _ HW k zo Hzo) as [_ Hgo]; [congruence|].
    exact (pi_gone _ _ _ (iv_inst _ _ HI k z zo Hz Hzo) Hgo). }
  destruct (step_core_inst_bwd _ _ _ _ H Hev a xa Ha) as [(ya & Hya & La)|(Hna & n & c & -> & Hc & ->)];
  destruct (step_core_inst_bwd _ _ _ _ H Hev b xb Hb) as [(yb & Hyb & Lb)|(Hnb & n2 & c2 & E2 & Hc2 & Exb)].
  - destruct La as (Ena & _ & _ & _ & Hga & _). destruct Lb as (Enb & _ & _ & _ & Hgb & _).
    destruct (iv_name _ _ HI a b ya yb Hya Hyb Hab) as [G|G]; [congruence|left; auto|right; auto].
  - left. eapply (Hnew b xb n2 c2 a ya xa); eauto.
  - right. eapply (Hnew a _ n c b yb xb); eauto.
  - congruence.
Qed.

Lemma gonepc_nl x : gonepc (pc x) = true -> nl x = true.
Proof. unfold nl. destruct (pc x); cbn; auto; discriminate. Qed.

Lemma sdend_guard s th s' : step_core s th EShutdownEnd = Some s' ->
  exists order, ((exists r, dpc (get_thread s th) = DLoop order r) \/ dpc (get_thread s th) = DWaitAll order) /\ all_done s order = true.
Proof. intros H. unfold step_core in H. kind_cases H; eexists; split; eauto. Qed.

Lemma all_done_in s order i : all_done s order = true -> memN i order = true ->
  exists x, get i (insts s) = Some x /\ l_done x = true.
Proof.
  unfold all_done. rewrite forallb_forall. intros H Hm. apply memN_In in Hm. specialize (H i Hm).
  destruct (get i (insts s)) as [x|]; [eauto|discriminate].
Qed.


(* ---- status writes -------------------------------------------------------------------------------------------- *)
Lemma state_effect s th i s0 s' : step_state s th i s0 = Some s' ->
  exists x, get i (insts s) = Some x /\
    (forall j, j <> i -> get j (insts s') = get j (insts s)) /\
    (forall n, n <> nm x -> get n (viss s') = get n (viss s)) /\
    (forall v', get (nm x) (viss s') = Some v' -> st v' = s0) /\
    (is_running_status s0 = true ->
       (exists c, pc x = IInEnd s0 c false) \/
       (s0 = SRunning /\ pc x = IPreLaunch /\ get th (thinst s) = Some i /\
        exists x', get i (insts s') = Some x' /\ pc x' = IStateSet /\ l_done x' = l_done x /\ nm x' = nm x)).
Proof.
  intros H. unfold step_state in H. destruct (get i (insts s)) as [x|] eqn:Hx; [|discriminate]. exists x. split; [reflexivity|].
  break_step H; subst s'; split_andb;
  repeat match goal with E : status_eqb _ _ = true |- _ => apply status_eqb_eq in E; subst end.
  all: unfold set_pc, end_finish, write_status; split;
       [intros j Hj; autorewrite with sup; repeat match goal with |- context[if ?b then _ else _] => is_var b; destruct b end;
        autorewrite with sup; try match goal with |- context[N.eqb ?a ?b] => rewrite (proj2 (N.eqb_neq a b)) by congruence end; reflexivity|].
  all: split; [intros n Hn; autorewrite with sup; repeat match goal with |- context[if ?b then _ else _] => is_var b; destruct b end;
               autorewrite with sup; rewrite (proj2 (N.eqb_neq (nm x) n)) by congruence; reflexivity|].
  all: split; [intros v' Hv'; repeat match type of Hv' with context[if ?b then _ else _] => is_var b; destruct b end;
               autorewrite with sup in Hv'; rewrite N.eqb_refl in Hv'; destruct (get (nm x) (viss s)); cbn in Hv';
               try discriminate Hv'; injection Hv' as <-; try reflexivity|].
  all: try (destruct s1; reflexivity).
  all: cbn [is_running_status]; try (intros; discriminate).
  all: try (intros _; left; eauto; fail).
  all: intros _; right; repeat split; try reflexivity; try (now apply opt_eqb_N_eq).
  all: eexists; autorewrite with sup; rewrite N.eqb_refl, Hx; cbn; split; [reflexivity|]; cbn; auto.
Qed.

Definition nf_ev (e : event) : bool :=
  match e with ENewInst _ _ | EProcEnd _ _ | EProcEnded _ _ | ECmdExit _ _ => true | _ => false end.

Lemma nf_run s th e s' : step_core s th e = Some s' -> nf_ev e = true ->
  viss s' = viss s /\
  forall j y, get j (insts s) = Some y -> exists y', get j (insts s') = Some y' /\ nm y' = nm y /\ l_done y' = l_done y /\
                                              (runpc (pc y) = true -> runpc (pc y') = true).
Proof.
  intros H Hnf. unfold step_core in H. destruct e; try discriminate Hnf; kind_cases H.
  all: unfold set_pc; cbn; autorewrite with sup; split; [reflexivity|]; intros j y Hy; autorewrite with sup.
  all: try rewrite get_set.
  all: try match goal with |- context[N.eqb ?a ?b] => destruct (N.eqb_spec a b); [subst b|] end.
  all: try (exists y; split; [assumption|]; repeat split; auto; fail).
  all: try match goal with E : get ?i (insts _) = Some ?y, Hx : get ?i (insts _) = Some ?x |- _ => rewrite E in Hx; injection Hx as <- end.
  all: try match goal with E : get ?i (insts _) = Some ?y |- _ => rewrite ?E end; cbn.
  all: try (eexists; split; [reflexivity|]; cbn;
            repeat match goal with E : pc _ = _ |- _ => rewrite E; clear E end; cbn; repeat split; auto; fail).
  1:{ exfalso. unfold has in E0. rewrite Hy in E0. discriminate. }
  all: eexists; split; [reflexivity|]; cbn;
       repeat match goal with E : pc _ = _ |- _ => rewrite E; clear E end; cbn; repeat split; auto; discriminate.
Qed.

Lemma ev_class e : own_ev e = false -> frame_ev e = true \/ nf_ev e = true \/ exists i s0, e = EState i s0.
Proof. destruct e; cbn; intros H; try discriminate H; eauto. Qed.

Lemma c_run_step s o th e s' : Rc cs s o -> Inv s o -> step_core s th e = Some s' -> own_ev e = false -> c_run s'.
Proof.
  intros HRc HI H Hev. destruct (ev_class e Hev) as [Hf|[Hnf|(i & s0 & ->)]].
  - eapply c_run_frame; [eapply step_core_csame; eauto|apply (iv_run _ _ HI)].
  - destruct (nf_run _ _ _ _ H Hnf) as [Ev Hi]. intros n v Hv Hr. rewrite Ev in Hv.
    destruct (iv_run _ _ HI n v Hv Hr) as (j & y & Hy & Hn & Hd & Hp).
    destruct (Hi j y Hy) as (y' & Hy' & En & Ed & Hrp). exists j, y'. repeat split; auto; congruence.
  - cbn in H. destruct (state_effect _ _ _ _ _ H) as (x & Hx & Hoth & Hvoth & Hvn & Hrun).
    intros n v' Hv' Hr. destruct (N.eq_dec n (nm x)) as [->|Hne].
    + rewrite (Hvn v' Hv') in Hr. destruct (Hrun Hr) as [(c & Hpc)|(-> & Hpc & Hth & x' & Hx' & Hpc' & Ed & En)].
      * exfalso. destruct (rc_inst _ _ _ HRc i x Hx) as (xo & Hxo & _).
        pose proof (pi_end _ _ _ (iv_inst _ _ HI i x xo Hx Hxo)) as He. rewrite Hpc in He. cbn in He.
        destruct s0; discriminate.
      * exists i, x'. repeat split; auto; [|now rewrite Hpc'].
        rewrite Ed. destruct (l_done x) eqn:Hd; [|reflexivity]. exfalso.
        destruct (rc_inst _ _ _ HRc i x Hx) as (xo & Hxo & _).
        pose proof (pi_done _ _ _ (iv_inst _ _ HI i x xo Hx Hxo) Hd) as Hn. unfold nl in Hn. rewrite Hpc in Hn. discriminate.
    + rewrite (Hvoth n Hne) in Hv'. destruct (iv_run _ _ HI n v' Hv' Hr) as (j & y & Hy & Hn & Hd & Hp).
      exists j, y. rewrite Hoth; [auto|]. intros ->. congruence.
Qed.

Lemma nf_vst s th e s' : step_core s th e = Some s' -> nf_ev e = true -> vst_bwd s s'.
Proof. intros H Hnf. destruct (nf_run _ _ _ _ H Hnf) as [Ev _]. intros n v Hv. rewrite Ev in Hv. eauto. Qed.

Lemma c_inst_nf s o th e s' : Rc cs s o -> Inv s o -> step_core s th e = Some s' -> nf_ev e = true ->
  c_inst s' (obs_pre cs o (th, e)).
Proof.
  intros HRc HI H Hnf j x' xo' Hx' Hxo'. pose proof (nf_vst _ _ _ _ H Hnf) as HV.
  unfold step_core in H. destruct e; try discriminate Hnf.
  all: cbn [obs_pre ev_inst fst snd] in *; rewrite <- ?(rc_th _ _ _ HRc th) in *.
  all: kind_cases H.
  all: unfold set_pc in Hx'; cbn in Hx'; autorewrite with sup in Hx'; autorewrite with obsf in Hxo'; cbn in Hxo'.
  1:{ rewrite get_set in Hx'. rewrite (get_set j i) in Hxo'. destruct (N.eqb_spec i j).
      - injection Hx' as <-. injection Hxo' as <-. constructor; cbn; auto; discriminate.
      - apply (PI_vst s _ _ _ HV), (iv_inst _ _ HI _ _ _ Hx' Hxo'). }
  all: match goal with E' : get ?i (insts _) = Some ?x |- _ =>
         destruct (N.eqb_spec i j);
         [ subst j; rewrite ?E' in Hx'; cbn in Hx'; try (injection Hx' as <-);
           rewrite ?N.eqb_refl in Hxo';
           destruct (get i (oi o)) as [xo|] eqn:Exo; cbn in Hxo'; [injection Hxo' as <-|discriminate Hxo'];
           apply (PI_vst s _ _ _ HV);
           destruct (iv_inst _ _ HI _ _ _ E' Exo) as [A B C D E_ F G I]
         | rewrite ?(proj2 (N.eqb_neq i j)) in Hxo' by assumption;
           apply (PI_vst s _ _ _ HV), (iv_inst _ _ HI _ _ _ Hx' Hxo') ]
       end.
  all: try (destruct s1).
  all: try (constructor; unfold nl in *; cbn; rewrite ?E2 in *; cbn in *; auto; try discriminate; try (intros; discriminate); fail).
  - split_andb. subst i1. destruct (iv_pend _ _ HI th i (or_introl E0)) as (y & Hy & _ & Hb & _).
    assert (y = i0) by congruence. subst y. unfold badpc in Hb. apply orb_false_iff in Hb. destruct Hb as [Hb _].
    constructor; cbn; auto. rewrite Hb. discriminate.
  - constructor; cbn; auto.
    + intros _. apply B. match goal with E : alive i0 = true |- _ => rewrite E end. reflexivity.
Qed.

Lemma state_inst s th i s0 s' x : step_state s th i s0 = Some s' -> get i (insts s) = Some x ->
  exists x', get i (insts s') = Some x' /\ nm x' = nm x /\ alive x' = alive x /\ exited x' = exited x /\ l_runctx x' = l_runctx x /\
    ((pc x' = pc x /\ l_done x' = l_done x /\ (s0 = SPending -> exists t, pc x = IDeps t) /\
      (s0 = SPending \/ s0 = STerminating)) \/
     (pc x' = pc x /\ l_done x' = true /\ spc (get_thread s th) = SPendE i /\ s0 = STerminating) \/
     (pc x = IPreLaunch /\ pc x' = IStateSet /\ l_done x' = l_done x /\ s0 = SRunning) \/
     (exists c, pc x = IWillRestart c /\ pc x' = IRestarting c /\ l_done x' = l_done x /\ s0 = SRestarting) \/
     (exists c, pc x = IInEnd s0 c false /\ pc x' = IInEnd s0 c true /\ l_done x' = true)).
Proof.
  intros H Hx. unfold step_state in H. rewrite Hx in H.
  break_step H; subst s'; split_andb;
  repeat match goal with E : status_eqb _ _ = true |- _ => apply status_eqb_eq in E; subst end.
  all: unfold set_pc, end_finish, write_status; autorewrite with sup;
       repeat match goal with |- context[if ?b then _ else _] => is_var b; destruct b end; autorewrite with sup;
       rewrite ?N.eqb_refl, ?Hx; cbn; eexists; (split; [reflexivity|]); cbn; repeat (split; [reflexivity|]).
  all: try (left; repeat split; auto; try discriminate; try (intros _; destruct (pc x); try discriminate; eauto); fail).
  all: try (right; left; repeat split; auto; fail).
  all: try (right; right; left; repeat split; auto; fail).
  all: try (right; right; right; left; eexists; repeat split; auto; fail).
  all: try (right; right; right; right; eexists; repeat split; auto; fail).
Qed.

Lemma obs_csame_state o th i s0 : obs_csame o (obs_pre cs o (th, EState i s0)).
Proof.
  cbn [obs_pre fst snd]. cbv zeta.
  eapply obs_csame_trans; [|apply obs_csame_oi_upd; intros x; destruct (opt_eqb _ _ _); repeat split; auto].
  eapply obs_csame_trans; [|apply obs_csame_on_upd].
  destruct (_ && _); [apply obs_csame_eq; reflexivity|apply obs_csame_refl].
Qed.

Lemma nl_of x : badpc (pc x) = false -> l_runctx x = true -> nl x = true.
Proof. unfold nl, badpc. intros Hb Hr. destruct (pc x); cbn in *; auto; discriminate. Qed.

Lemma lc_not_gone p : lcpc p = true -> gonepc p = false.
Proof. destruct p; cbn; auto; discriminate. Qed.

Lemma c_inst_state s o th i s0 s' : Rc cs s o -> Inv s o -> pend (get_thread s th) = None ->
  step_state s th i s0 = Some s' -> c_inst s' (obs_pre cs o (th, EState i s0)).
Proof.
  intros HRc HI Hpn H j x' xo' Hx' Hxo'.
  destruct (ocsame_bwd _ _ _ _ (obs_csame_state o th i s0) Hxo') as (xo & Hxo & (Oa & Oc & Og & _)).
  destruct (state_effect _ _ _ _ _ H) as (x & Hx & Hoth & Hvoth & Hvn & _).
  destruct (N.eq_dec j i) as [->|Hne].
  - destruct (state_inst _ _ _ _ _ _ H Hx) as (x2 & Hx2 & En & Ea & Ee & Er & Hcase).
    assert (x2 = x') by congruence. subst x2.
    destruct (iv_inst _ _ HI i x xo Hx Hxo) as [A B C D E_ F G I0].
    assert (Hlc : lcpc (pc x') = true -> status_eqb s0 SPending = false ->
                  forall v, get (nm x') (viss s') = Some v -> status_eqb (st v) SPending = false).
    { intros _ Hs v Hv. rewrite En in Hv. now rewrite (Hvn v Hv). }
    destruct Hcase as [(Ep & Ed & Hpe & Hs0)|[(Ep & Ed & Hsp & ->)|[(Ep & Ep' & Ed & ->)|[(c & Ep & Ep' & Ed & ->)|(c & Ep & Ep' & Ed)]]]].
    + constructor; rewrite ?Ep, ?Ea, ?Ee, ?Ed, ?Oa, ?Oc, ?Og; auto.
      * intros Hd. rewrite <- (G Hd). unfold nl. now rewrite Ep, Er.
      * intros Hl. destruct Hs0 as [->| ->]; [|apply Hlc; [now rewrite Ep|reflexivity]].
        destruct (Hpe eq_refl) as (t & Hpt). rewrite Hpt in Hl. discriminate.
    + constructor; rewrite ?Ep, ?Ea, ?Ee, ?Oa, ?Oc, ?Og; auto.
      * intros _. destruct (iv_pend _ _ HI th i (or_intror Hsp)) as (y & Hy & _ & Hb & Hp).
        assert (y = x) by congruence. subst y. apply nl_of; [now rewrite Ep|]. rewrite Er.
        destruct (Hp Hsp) as [Hp'|Hp']; [congruence|exact Hp'].
      * intros Hl. apply Hlc; [now rewrite Ep|reflexivity].
    + unfold nl in G. rewrite Ep in *. cbn in *. constructor; rewrite ?Ep', ?Ea, ?Ee, ?Ed, ?Oa, ?Oc, ?Og; cbn; auto.
      * intros Hd. specialize (G Hd). discriminate.
      * intros Hl. apply Hlc; [now rewrite Ep'|reflexivity].
    + unfold nl in G. rewrite Ep in *. cbn in *. constructor; rewrite ?Ep', ?Ea, ?Ee, ?Ed, ?Oa, ?Oc, ?Og; cbn; auto.
      * intros Hd. specialize (G Hd). discriminate.
      * intros Hl. apply Hlc; [now rewrite Ep'|reflexivity].
    + unfold nl in G. rewrite Ep in *. cbn in *. constructor; rewrite ?Ep', ?Ea, ?Ee, ?Oa, ?Oc, ?Og; cbn; auto.
      * unfold nl. rewrite Ep'. reflexivity.
      * discriminate.
  - rewrite (Hoth j Hne) in Hx'. destruct (iv_inst _ _ HI j x' xo Hx' Hxo) as [A B C D E_ F G I0].
    constructor; rewrite ?Oa, ?Oc, ?Og; auto.
    intros Hl v Hv. destruct (N.eq_dec (nm x') (nm x)) as [En|Hnn].
    + rewrite En in Hv. rewrite (Hvn v Hv). destruct (status_eqb s0 SPending) eqn:Hs; [|reflexivity]. exfalso.
      apply status_eqb_eq in Hs. subst s0.
      destruct (state_inst _ _ _ _ _ _ H Hx) as (x2 & _ & _ & _ & _ & _ & Hcase).
      assert (Hdeps : exists t, pc x = IDeps t).
      { destruct Hcase as [(_ & _ & Hpe & _)|[(_ & _ & _ & Hc)|[(_ & _ & _ & Hc)|[(c & _ & _ & _ & Hc)|(c & Ep & _)]]]]; try discriminate Hc; auto.
        exfalso. destruct (rc_inst _ _ _ HRc i x Hx) as (xo2 & Hxo2 & _).
        pose proof (pi_end _ _ _ (iv_inst _ _ HI i x xo2 Hx Hxo2)) as Fe. rewrite Ep in Fe. discriminate. }
      destruct Hdeps as (t & Hpt).
      destruct (iv_name _ _ HI j i x' x Hx' Hx Hne En) as [Gg|Gg].
      * rewrite (lc_not_gone _ Hl) in Gg. discriminate.
      * rewrite Hpt in Gg. discriminate.
    + rewrite (Hvoth _ Hnn) in Hv. eauto.
Qed.

(* ---- one step of the core: the five clauses of Inv -------------------------------------------------------------- *)
Lemma step_core_own s th e : own_ev e = true -> step_core s th e = step_own s th e.
Proof. destruct e; intros H; try discriminate H; reflexivity. Qed.

Lemma Inv_core s o th e s' : Rc cs s o -> Inv s o -> pend (get_thread s th) = None -> step_core s th e = Some s' ->
  W_C03 (obs_pre cs o (th, e)) = false -> Inv s' (obs_pre cs o (th, e)).
Proof.
  intros HRc HI Hpn H HW. destruct (own_ev e) eqn:Hev.
  { rewrite step_core_own in H by exact Hev. eapply Inv_own; eauto. }
  constructor.
  - destruct (ev_class e Hev) as [Hf|[Hnf|(i & s0 & ->)]].
    + eapply c_inst_frame; [eapply step_core_csame; eauto|apply obs_pre_csame; exact Hf|apply (iv_inst _ _ HI)].
    + eapply c_inst_nf; eauto.
    + eapply c_inst_state; eauto.
  - eapply c_name_step; eauto.
  - eapply c_run_step; eauto.
  - eapply c_sd_step; eauto.
  - eapply c_pend_step; eauto.
Qed.

Lemma nl_not_alive x : nl x = true -> alivepc (pc x) = false.
Proof. unfold nl. destruct (pc x); cbn; auto; discriminate. Qed.
Lemma run_not_gone p : runpc p = true -> gonepc p = false.
Proof. destruct p; cbn; auto; discriminate. Qed.
End RelC03.
