(* Simulation relation and proof for C03 (shutdown completeness).  See Props/C03.v for the statements. *)
From Coq Require Import List ZArith NArith Bool Lia.
From RecordUpdate Require Import RecordSet.
From PC.Base Require Import Assoc.
From PC.Sup Require Import Model Monitors Tactics Sim ObsFacts Effects RelCore LemC03.
Import ListNotations RecordSetNotations.

(* ---- hypotheses of the theorem ------------------------------------------------------------------------ *)
(* the windows (known findings) the proof needs: F20/F21 commit, F37 sdlag, F25 dup, F38 zombie *)
Definition W_C03 (o : obs) : bool := w_commit o || w_sdlag o || w_dup o || w_zombie o.

(* "the shutdown's snapshot missed nobody": evaluated on the observer state BEFORE the event.
   (1) an instance is created after a completed shutdown by Run()'s spawn loop or outside any API call;
   (2) when a shutdown returns, an instance that is not in its snapshot has a goroutine that has not
       reached inst_exit (it was created by a start / restart / Run() that overlaps the shutdown: the
       snapshot is taken from the registry, the newcomer registers when the shutdown has released it). *)
Definition byapi_of (o : obs) (th : tid) : bool :=
  match get th (o_api o) with Some OpRun | None => false | Some _ => true end.
Definition snap_of (o : obs) (th : tid) : list iid := match get th (o_sd_cur o) with Some l => l | None => [] end.
Definition escape_C03 (o : obs) (te : tid * event) : bool :=
  match snd te with
  | ENewInst i n => Nat.ltb 0 (o_sd_done o) && negb (byapi_of o (fst te))
  | EShutdownEnd => existsb (fun p => negb (memN (fst p) (snap_of o (fst te))) && negb (o_gone (snd p))) (oi o)
  | _ => false
  end.
Definition escapes_C03 (cs : amap pconf) (evs : list (tid * event)) : bool := bad_run cs escape_C03 (obs0 cs) evs.

(* ---- program counter classes -------------------------------------------------------------------------- *)
Definition gonepc (p : ipc) : bool := match p with IWgDone | IGone => true | _ => false end.
Definition cpc (p : ipc) : bool := match p with IPreStart | IPreLaunch | IStateSet => true | _ => false end.
Definition lcpc (p : ipc) : bool :=
  match p with IStateSet | IAlive | IExited _ | ICodeWritten _ | IWillRestart _ | IRestarting _ | IBackoff _ => true | _ => false end.
Definition badpc (p : ipc) : bool := cpc p || lcpc p.
Definition runpc (p : ipc) : bool :=
  match p with IStateSet | IAlive | IExited _ | ICodeWritten _ | IWillRestart _ | IEnding _ _ | IInEnd _ _ false => true | _ => false end.
Definition endst_ok (p : ipc) : bool := match p with IEnding s _ | IInEnd s _ _ => terminal s | _ => true end.
Definition alivepc (p : ipc) : bool := match p with IAlive => true | _ => false end.
(* the instance will never (again) start a command *)
Definition nl (x : inst) : bool :=
  match pc x with IDeps _ | IBlocked _ _ _ _ => l_runctx x | p => negb (badpc p) end.
Definition is_some {A} (a : option A) : bool := match a with Some _ => true | None => false end.

Section RelC03.
Context (cs : amap pconf).

Record PI (s : sys) (x : inst) (xo : oinst) : Prop := mkPI {
  pi_alive : o_alive xo = alive x;
  pi_pc : alive x || is_some (exited x) = true -> alivepc (pc x) = true;
  pi_ex : is_some (exited x) = true -> alive x = false;
  pi_commit : cpc (pc x) = true -> o_commit xo = true;
  pi_gone : o_gone xo = true -> gonepc (pc x) = true;
  pi_end : endst_ok (pc x) = true;
  pi_done : l_done x = true -> nl x = true;
  pi_lc : lcpc (pc x) = true -> forall v, get (nm x) (viss s) = Some v -> status_eqb (st v) SPending = false
}.

Record Inv (s : sys) (o : obs) : Prop := mkInv {
  iv_inst : forall i x xo, get i (insts s) = Some x -> get i (oi o) = Some xo -> PI s x xo;
  iv_name : forall i j x y, get i (insts s) = Some x -> get j (insts s) = Some y -> i <> j -> nm x = nm y ->
            gonepc (pc x) = true \/ gonepc (pc y) = true;
  iv_run : forall n v, get n (viss s) = Some v -> is_running_status (st v) = true ->
           exists j y, get j (insts s) = Some y /\ nm y = n /\ l_done y = false /\ runpc (pc y) = true;
  iv_sd : forall th order, (exists r, dpc (get_thread s th) = DLoop order r) \/ dpc (get_thread s th) = DWaitAll order ->
          get th (o_sd_cur o) = Some order;
  iv_pend : forall th i, spc (get_thread s th) = SPend i \/ spc (get_thread s th) = SPendE i ->
            exists x, get i (insts s) = Some x /\ o_stopreq (oi_get o i) = true /\ badpc (pc x) = false /\
                      (spc (get_thread s th) = SPendE i -> pend (get_thread s th) = Some (REndEarly i) \/ l_runctx x = true);
  iv_after : 0 < o_sd_done o -> forall i x, get i (insts s) = Some x -> memN i (o_after_sd_spawn o) = true \/ nl x = true
}.

Definition R3 (s : sys) (o : obs) : Prop := Rc cs s o /\ Inv s o.

Lemma Inv_init ord : Inv (init cs ord) (obs0 cs).
Proof.
  constructor; cbn; try discriminate.
  - intros n v Hv Hr. exfalso. rewrite (get_map_fst init_vis cs n) in Hv. destruct (get n cs) as [c|]; [|discriminate].
    cbn in Hv. injection Hv as <-. unfold init_vis in Hr. cbn in Hr. destruct (deferred c); discriminate.
  - intros th order [[r H]|H]; discriminate.
  - intros th i [H|H]; discriminate.
Qed.

Lemma R3_init ord : R3 (init cs ord) (obs0 cs).
Proof. split; [apply Rc_init|apply Inv_init]. Qed.

(* ---- W_C03 is sticky ---------------------------------------------------------------------------------- *)
Lemma W_C03_mono o e : W_C03 o = true -> W_C03 (obs_step cs o e) = true.
Proof.
  pose proof (obs_step_flags_mono cs o e) as H. unfold flag_le, windows_of in H.
  inversion H as [|? ? ? ? Hz H1]; subst. inversion H1 as [|? ? ? ? Hl H2]; subst. inversion H2 as [|? ? ? ? Hc H3]; subst.
  inversion H3 as [|? ? ? ? _ H4]; subst. inversion H4 as [|? ? ? ? _ H5]; subst. inversion H5 as [|? ? ? ? Hd _]; subst.
  unfold W_C03. intros HW. repeat (apply orb_true_iff in HW; destruct HW as [HW|HW]);
  [rewrite (Hc HW)|rewrite (Hl HW)|rewrite (Hd HW)|rewrite (Hz HW)]; rewrite ?orb_true_r; reflexivity.
Qed.

(* ---- the o_succ refresh does not matter ---------------------------------------------------------------- *)
Lemma refresh_get_inv o j xo' : get j (oi (refresh_succ o)) = Some xo' ->
  exists xo, get j (oi o) = Some xo /\ o_alive xo' = o_alive xo /\ o_commit xo' = o_commit xo /\ o_gone xo' = o_gone xo /\
             o_stopreq xo' = o_stopreq xo.
Proof.
  rewrite refresh_get. destruct (get j (oi o)) as [xo|]; cbn; [|discriminate]. intros H. injection H as <-.
  exists xo. split; [reflexivity|]. destruct (_ && _); cbn; auto.
Qed.

Lemma refresh_oi_get_stopreq o i : o_stopreq (oi_get (refresh_succ o) i) = o_stopreq (oi_get o i).
Proof.
  unfold oi_get. rewrite refresh_get. destruct (get i (oi o)) as [xo|]; cbn; [|reflexivity]. destruct (_ && _); reflexivity.
Qed.

Lemma Inv_refresh s o : Inv s o -> Inv s (refresh_succ o).
Proof.
  intros [H1 H2 H3 H4 H5 H6]. constructor; auto.
  - intros i x xo' Hx Hxo'. destruct (refresh_get_inv _ _ _ Hxo') as (xo & Hxo & Ea & Ec & Eg & Es).
    destruct (H1 i x xo Hx Hxo) as [A B C D E F G I]. constructor; auto; [now rewrite Ea|intros Hc; rewrite Ec; auto|intros Hg; rewrite Eg in Hg; auto].
  - intros th i Hs. destruct (H5 th i Hs) as (x & Hx & Hst & Hb & Hp). exists x. rewrite refresh_oi_get_stopreq. auto.
Qed.

(* ---- flush ---------------------------------------------------------------------------------------------- *)
Definition ilink (th : tid) (s : sys) (j : iid) (x x' : inst) : Prop :=
  nm x' = nm x /\ pc x' = pc x /\ alive x' = alive x /\ exited x' = exited x /\ l_done x' = l_done x /\
  (l_runctx x = true -> l_runctx x' = true) /\ (pend (get_thread s th) = Some (REndEarly j) -> l_runctx x' = true).

Lemma flush_fwd th s j x : get j (insts s) = Some x -> exists x', get j (insts (flush th s)) = Some x' /\ ilink th s j x x'.
Proof. intros H. pose proof (flush_inst3 th s j) as F. rewrite H in F. exact F. Qed.
Lemma flush_bwd th s j x' : get j (insts (flush th s)) = Some x' -> exists x, get j (insts s) = Some x /\ ilink th s j x x'.
Proof.
  intros H. pose proof (flush_inst3 th s j) as F. destruct (get j (insts s)) as [x|]; [|congruence].
  destruct F as (x2 & E & L). exists x. split; [reflexivity|]. assert (x2 = x') by congruence. subst x2. exact L.
Qed.

Lemma nl_mono x x' : pc x' = pc x -> (l_runctx x = true -> l_runctx x' = true) -> nl x = true -> nl x' = true.
Proof. unfold nl. intros -> H. destruct (pc x); auto. Qed.

Lemma PI_flush th s j x x' xo : ilink th s j x x' -> PI s x xo -> PI (flush th s) x' xo.
Proof.
  intros (En & Ep & Ea & Ee & Ed & Hr & _) [A B C D E F G I]. constructor; rewrite ?Ep, ?Ea, ?Ee, ?Ed, ?En; auto.
  - intros Hd. eapply nl_mono; eauto.
  - rewrite flush_viss. exact I.
Qed.

Lemma Inv_flush th s o : Inv s o -> Inv (flush th s) o.
Proof.
  intros [H1 H2 H3 H4 H5 H6]. constructor.
  - intros i x' xo Hx' Hxo. destruct (flush_bwd _ _ _ _ Hx') as (x & Hx & L). eapply PI_flush; eauto.
  - intros i j x' y' Hx' Hy' Hij Hn.
    destruct (flush_bwd _ _ _ _ Hx') as (x & Hx & (En & Ep & _)). destruct (flush_bwd _ _ _ _ Hy') as (y & Hy & (En2 & Ep2 & _)).
    rewrite Ep, Ep2. apply (H2 i j x y); congruence.
  - intros n v Hv Hr. rewrite flush_viss in Hv. destruct (H3 n v Hv Hr) as (j & y & Hy & Hn & Hd & Hp).
    destruct (flush_fwd th _ _ _ Hy) as (y' & Hy' & (En & Ep & _ & _ & Ed & _)). exists j, y'. repeat split; congruence.
  - intros th' order. destruct (flush_thread th s th') as (_ & _ & Ed & _). rewrite Ed. apply H4.
  - intros th' i. destruct (flush_thread th s th') as (_ & Es & _ & Ep). rewrite Es. intros Hs.
    destruct (H5 th' i Hs) as (x & Hx & Hst & Hb & Hp).
    destruct (flush_fwd th _ _ _ Hx) as (x' & Hx' & (En & Epc & _ & _ & _ & Hr & Hfl)). exists x'.
    split; [exact Hx'|]. split; [exact Hst|]. split; [now rewrite Epc|]. intros HE. specialize (Hp HE).
    rewrite Ep. destruct (N.eqb_spec th th').
    + subst th'. right. destruct Hp as [Hp|Hp]; auto.
    + destruct Hp as [Hp|Hp]; auto.
  - intros Hsd i x' Hx'. destruct (flush_bwd _ _ _ _ Hx') as (x & Hx & (En & Ep & _ & _ & _ & Hr & _)).
    destruct (H6 Hsd i x Hx) as [Hm|Hn]; [now left|right; eapply nl_mono; eauto].
Qed.

End RelC03.
