(* C12 proof, model-only part 3: what one accepted step leaves unchanged (threads of other threads, the
   shutdown bookkeeping, thread-to-instance map). *)
From Coq Require Import List ZArith NArith Bool Lia.
From RecordUpdate Require Import RecordSet.
From PC.Base Require Import Assoc.
From PC.Sup Require Import Model Monitors Tactics Sim ObsFacts Effects RelCore LemC12 LemC12Inst.
Import ListNotations RecordSetNotations.

Definition pend_at (sp : stoppc) : option iid := match sp with SPend i | SPendE i => Some i | _ => None end.

Record step_frame (s : sys) (th : tid) (e : event) (s' : sys) : Prop := mkSF {
  sf_ord : ordered s' = ordered s;
  sf_other : forall th', th' <> th -> get_thread s' th' = get_thread s th';
  sf_sd : sd_active s' = sd_active s \/
          (exists order, e = EShutdownOrder order /\ sd_active s' = Some (th, order) /\ dpc (get_thread s th) = DBegun) \/
          (e = EShutdownEnd /\ sd_active s' = None /\ lock_pc (dpc (get_thread s th)) = true);
  sf_thinst : thinst s' = thinst s \/
              (exists i, e = EBegin i /\ get th (threads s) = None /\ thinst s' = set th i (thinst s));
  sf_pend : pend_at (spc (get_thread s' th)) = pend_at (spc (get_thread s th)) \/
            pend_at (spc (get_thread s' th)) = None \/
            (exists i x, e = EStopPending i /\ spc (get_thread s' th) = SPend i /\ get i (insts s) = Some x)
}.

Lemma get_thread_ext s s' th : threads s' = threads s -> get_thread s' th = get_thread s th.
Proof. unfold get_thread. now intros ->. Qed.

Lemma fold_fstopped_threads l s :
  threads (fold_left (fun s0 i => upd_inst i (fun x => x <| f_stopped := true |>) s0) l s) = threads s.
Proof. apply (fold_upd_inst_proj threads). intros. apply upd_inst_threads. Qed.
Lemma fold_fstopped_ordered l s :
  ordered (fold_left (fun s0 i => upd_inst i (fun x => x <| f_stopped := true |>) s0) l s) = ordered s.
Proof. apply (fold_upd_inst_proj ordered). intros. apply upd_inst_ordered. Qed.
Lemma fold_fstopped_thinst l s :
  thinst (fold_left (fun s0 i => upd_inst i (fun x => x <| f_stopped := true |>) s0) l s) = thinst s.
Proof. apply (fold_upd_inst_proj thinst). intros. apply upd_inst_thinst. Qed.
Lemma fold_fstopped_sd_active l s :
  sd_active (fold_left (fun s0 i => upd_inst i (fun x => x <| f_stopped := true |>) s0) l s) = sd_active s.
Proof. apply (fold_upd_inst_proj sd_active). intros. apply upd_inst_sd_active. Qed.

Ltac sf_norm :=
  unfold set_pc, end_finish, end_release_early, write_status;
  autorewrite with sup; cbn;
  rewrite ?fold_fstopped_ordered, ?fold_fstopped_thinst, ?fold_fstopped_sd_active, ?fold_fstopped_threads.

Ltac sf_split :=
  repeat match goal with
  | |- step_frame _ _ _ (match ?x with _ => _ end) => destruct x eqn:?
  | |- step_frame _ _ _ (if ?x then _ else _) => destruct x eqn:?
  | |- context[if ?x then _ else _] => is_var x; destruct x
  end.

Ltac sf_leaf s th :=
  sf_split;
  (constructor;
  [ sf_norm; reflexivity
  | let th' := fresh "th'" in let Hne := fresh "Hne" in intros th' Hne; unfold get_thread; sf_norm;
    rewrite ?get_set;
    try (destruct (N.eqb_spec th th'); [congruence|]); reflexivity
  | sf_norm;
    first [ left; reflexivity | solve [right; left; eexists; repeat split; eauto]
          | solve [right; right; repeat split; auto; rew_thread_eqs; reflexivity] ]
  | sf_norm;
    first [ left; reflexivity | solve [right; eexists; repeat split; eauto] ]
  | unfold get_thread in *; sf_norm; rewrite ?get_set, ?N.eqb_refl; cbn;
    repeat match goal with H : spc _ = _ |- _ => rewrite H end; cbn;
    first [ left; reflexivity | right; left; reflexivity | solve [right; right; eexists; eexists; repeat split; eauto] ] ]).

Lemma step_core_frame s th e s' : step_core s th e = Some s' -> step_frame s th e s'.
Proof.
  intros H. step_leaves H e; try (sf_leaf s th).
  split_andb. subst. sf_leaf s th.
Qed.
