(* C02 simulation: exit of onProcessEnd (heavy). *)
From Coq Require Import List ZArith NArith Bool Lia.
From RecordUpdate Require Import RecordSet.
From PC.Base Require Import Assoc.
From PC.Sup Require Import Model Monitors Tactics Sim ObsFacts Effects RelCore LemC02 RelC02defs.
Import ListNotations RecordSetNotations.

Section D2.
Context (cs : amap pconf).

Lemma P2all_procend_exit s o th i s0 s' : Rc cs s o -> P2all s o -> step_procend s th i s0 false = Some s' ->
  P2all s' (obs_step cs o (th, EProcEnded i s0)).
Proof.
  intros HRc HP H. pose proof (wkeep_step cs o (th, EProcEnded i s0)) as Hwk.
  pose proof (obs_step_keep cs o th (EProcEnded i s0) eq_refl) as Hk.
  pose proof (keep_shape _ _ i Hk) as Hshape.
  set (o' := obs_step cs o (th, EProcEnded i s0)) in *. clearbody o'.
  unfold step_procend in H. destruct (get i (insts s)) as [x|] eqn:Ex; [|discriminate]. cbv zeta in H.
  assert (Hgen : (check opt_eqb N.eqb (get th (thinst s)) (Some i);
                  match pc x with
                  | IInEnd s1 c true =>
                      check status_eqb s0 s1;
                      Some (set_pc i (match s1 with
                                      | SSkipped => IProjEnd c true
                                      | SError => IRunRet (Some 1%Z)
                                      | _ => IRunRet None
                                      end) s)
                  | _ => None
                  end) = Some s' -> P2all s' o').
  { clear H. intros H. break_step H; subst s'.
    all: comb_tac2 HP i Ex Hshape Hwk; comb_fin Hwk; try (gaveup_tac; fail). }
  destruct (spc (get_thread s th)) eqn:Es; try (apply Hgen; exact H).
  break_step H. subst s'. eapply P2all_frame; [exact HP| |exact Hk|exact Hwk]. sback_close.
Qed.

End D2.
