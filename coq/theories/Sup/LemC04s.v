(* C04 effect lemmas: wait group, exit code, thinst, the other threads. *)
From Coq Require Import List ZArith NArith Bool Lia.
From RecordUpdate Require Import RecordSet.
From PC.Base Require Import Assoc.
From PC.Sup Require Import Model Monitors Tactics Sim ObsFacts Effects RelCore LemC04.
Import ListNotations RecordSetNotations.

Ltac scal_tac :=
  unfold scal_eff; destr_state; sup_goal; cbn -[get Assoc.set N.eqb get_thread]; sup_goal; cbn -[get Assoc.set N.eqb get_thread];
  repeat split; try reflexivity;
  try (intros th' Hth'; unfold get_thread; sup_goal; cbn -[get Assoc.set N.eqb]; sup_goal; cbn -[get Assoc.set N.eqb]; rewrite ?(proj2 (N.eqb_neq _ _) (not_eq_sym Hth')); reflexivity).

Lemma own_scal s th e s' : step_own s th e = Some s' -> scal_eff s th e s'.
Proof. intros H. destruct e; kind_cases H; scal_tac. 
Qed.
Lemma reg_scal s th e s' : step_reg s th e = Some s' -> scal_eff s th e s'.
Proof. intros H. destruct e; kind_cases H; scal_tac. Qed.
Lemma api_scal s th e s' : step_api s th e = Some s' -> scal_eff s th e s'.
Proof. intros H. destruct e; kind_cases H; scal_tac. Qed.
Lemma stop_scal s th e s' : step_stop s th e = Some s' -> scal_eff s th e s'.
Proof. intros H. destruct e; kind_cases H; scal_tac. Qed.
Lemma state_scal s th i s0 s' : step_state s th i s0 = Some s' -> scal_eff s th (EState i s0) s'.
Proof. intros H. kind_cases H; scal_tac. Qed.
Lemma procend_scal s th i s0 b s' : step_procend s th i s0 b = Some s' -> scal_eff s th (if b then EProcEnd i s0 else EProcEnded i s0) s'.
Proof. intros H. destruct b; kind_cases H; scal_tac. Qed.
Lemma ordered_scal s th i s' : step_ordered_go s th i = Some s' -> scal_eff s th (EOrderedGo i) s'.
Proof. intros H. kind_cases H; scal_tac. Qed.
Lemma env_scal s th e s' : step_env s th e = Some s' -> scal_eff s th e s'.
Proof. intros H. destruct e; kind_cases H; scal_tac. Qed.
Lemma shutdown_scal s th e s' : step_shutdown s th e = Some s' -> scal_eff s th e s'.
Proof. intros H. destruct e; kind_cases H; try scal_tac.
  - apply (fold_upd_inst_proj wg). intros. apply upd_inst_wg.
  - apply (fold_upd_inst_proj code_set). intros. apply upd_inst_code_set.
  - apply (fold_upd_inst_proj proj_code). intros. apply upd_inst_proj_code.
  - apply (fold_upd_inst_proj thinst). intros. apply upd_inst_thinst.
  - intros th' Hth'. unfold get_thread. cbn -[get Assoc.set N.eqb]. rewrite get_set_other by congruence.
    rewrite (fold_upd_inst_proj threads); [reflexivity|]. intros. apply upd_inst_threads.
Qed.

Lemma core_scal s th e s' : step_core s th e = Some s' -> scal_eff s th e s'.
Proof.
  intros H. destruct (step_core_kind _ _ _ _ H) as [? ?|i x ? ? ? ? ? ?|Hk|Hk|Hk|i s0 ? Hk|i s0 b ? Hk|Hk|i ? Hk|Hk|Hk]; subst.
  - repeat split; reflexivity.
  - repeat split; reflexivity.
  - now apply reg_scal.
  - now apply api_scal.
  - now apply stop_scal.
  - now apply state_scal.
  - now apply procend_scal.
  - now apply shutdown_scal.
  - now apply ordered_scal.
  - now apply env_scal.
  - now apply own_scal.
Qed.
