(* C02 simulation, part 3: the events that move what P2 reads, one lemma per event. *)
From Coq Require Import List ZArith NArith Bool Lia.
From RecordUpdate Require Import RecordSet.
From PC.Base Require Import Assoc.
From PC.Sup Require Import Model Monitors Tactics Sim ObsFacts Effects RelCore LemC02 RelC02t RelC02b.
Import ListNotations RecordSetNotations.

Lemma opt_eqb_Z_eq a b : opt_eqb Z.eqb a b = true -> a = b.
Proof. destruct a, b; cbn; try discriminate; auto. intros H. apply Z.eqb_eq in H. now subst. Qed.

Ltac own_tac HP H :=
  kind_cases H; split_andb; subst;
  match goal with E : get ?th (thinst ?s) = Some ?i, E0 : get ?i (insts ?s) = Some ?x |- _ =>
    intros j9 x9 xo9 Hx9 Hxo9; unfold set_pc in Hx9; autorewrite with sup in Hx9; cbn [fst snd] in Hx9;
    destruct (N.eqb_spec i j9) as [<-|Hne];
    [ rewrite E0 in Hx9; cbn in Hx9; injection Hx9 as <-; pose proof (HP _ _ _ E0 Hxo9) as HPx; p2_pre; destruct HPx as [Pcommit Pstop Pexited Palive Pcode Pdecided Prelaunch Pgaveup Prestarts Ppre Pfstopped Prunctx Pendst Pgone Pnostop Pstatus]; constructor
    | eapply P2_frame; [apply (HP j9 x9 xo9 Hx9 Hxo9)|apply ikeep_refl|apply okeep_refl|apply vrel_vkeep; vrel_tac|apply wkeep_refl] ]
  end;
  try match goal with E : pc _ = _ |- _ => rewrite E in * end;
  try (p2_clause; fail).


Section Own2.
Context (cs : amap pconf).

Lemma P2all_own_wait s o th c s' : P2all s o -> step_own s th (EWaitReturn c) = Some s' -> P2all s' o.
Proof.
  intros HP H. own_tac HP H.
  all: apply opt_eqb_Z_eq in E2; destruct (Pexited _ E2) as (A & _ & B); cbn.
  - congruence.
  - intros c0 [[= <-]|[=]]. exact A.
Qed.

Lemma P2all_own_code s o th c s' : P2all s o -> step_own s th (EExitCode c) = Some s' -> P2all s' o.
Proof.
  intros HP H. own_tac HP H.
  cbn. intros c0 [[=]|[= <-]]. apply Pcode. now left.
Qed.

Lemma P2all_own_decision s o th b s' : Rc cs s o -> P2all s o -> step_own s th (ERestartDecision b) = Some s' -> P2all s' o.
Proof.
  intros HRc HP H. own_tac HP H.
  - cbn. intros c0 [[= <-]|[[=]|[=]]]. split; [apply Pcode; now right|].
    apply restart_ok_spec in Heqb. destruct Heqb as (_ & Hpol & Hb). unfold Pok. cbn. split; [exact Hpol|].
    destruct Hb as [Hb|Hb]; [now left|right]. destruct Prestarts as [Pr _]. lia.
  - cbn. intros c0 [[= <-]|[b0 [=]]]. split; [apply Pcode; now right|].
    unfold GaveUp. cbn. autorewrite with sup.
    destruct (f_stopped i2) eqn:Ef; [left; now apply Pfstopped|].
    destruct (policy_allows (pol (cf i2)) c) eqn:Epol; [|right; now left].
    right; right. destruct (Nat.eq_dec (maxr (cf i2)) 0) as [Hm|Hm].
    + exfalso. assert (Hr : restart_ok false (pol (cf i2)) c (maxr (cf i2)) (restarts (vis_of s (nm i2))) = true)
        by (apply restart_ok_spec; auto). congruence.
    + split; [exact Hm|]. destruct (le_lt_dec (maxr (cf i2)) (restarts (vis_of s (nm i2)))) as [Hl|Hl]; [exact Hl|].
      exfalso. assert (Hr : restart_ok false (pol (cf i2)) c (maxr (cf i2)) (restarts (vis_of s (nm i2))) = true)
        by (apply restart_ok_spec; auto). congruence.
Qed.

Lemma P2all_own_backoff s o th secs s' : Rc cs s o -> P2all s o -> step_own s th (EBackoffWait secs) = Some s' -> P2all s' o.
Proof.
  intros HRc HP H. own_tac HP H.
  - cbn. intros c0 [[=]|[[=]|[= <-]]]. apply (Pdecided c). right; now left.
  - destruct (rc_inst _ _ _ HRc _ _ E4) as (xo & _ & _ & Hcf & _).
    destruct (rc_name _ _ _ HRc _ _ Hcf) as (v & r & Ev & _).
    unfold set_pc. autorewrite with sup. rewrite vis_of_upd_vis. cbn. rewrite N.eqb_refl, Ev. cbn.
    rewrite (vis_of_some _ _ _ Ev) in Prestarts. destruct Prestarts as [Pr _]. split; [lia|intros _; lia].
Qed.

Lemma P2all_own_cancel s o th s' : P2all s o -> step_own s th EBackoffCancelled = Some s' -> P2all s' o.
Proof.
  intros HP H. own_tac HP H.
  cbn. intros c0 [[= <-]|[b0 [=]]]. split; [apply (Pdecided c); right; now right|].
  left. match goal with Hr : l_runctx _ = true |- _ => destruct (Prunctx Hr) as [A|A]; [exact A|discriminate A] end.
Qed.

(* all own events that the observer's instance records do not react to *)
Lemma P2all_own s o th e s' : Rc cs s o -> P2all s o -> oirr e = true -> step_own s th e = Some s' -> P2all s' o.
Proof.
  intros HRc HP Hirr H. destruct (own_special e) eqn:Hsp; [|eapply P2all_own_gen; eauto].
  destruct e; try discriminate Hsp;
    eauto using P2all_own_wait, P2all_own_code, P2all_own_decision, P2all_own_backoff, P2all_own_cancel.
Qed.
(*STOP*)
End Own2.
