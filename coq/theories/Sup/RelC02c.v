(* C02 simulation: own-thread events that need an argument, and those the observer reacts to (heavy). *)
From Coq Require Import List ZArith NArith Bool Lia.
From RecordUpdate Require Import RecordSet.
From PC.Base Require Import Assoc.
From PC.Sup Require Import Model Monitors Tactics Sim ObsFacts Effects RelCore LemC02 RelC02defs.
Import ListNotations RecordSetNotations.

Section Own2.
Context (cs : amap pconf).

Lemma P2all_own_wait s o th c s' : P2all s o -> step_own s th (EWaitReturn c) = Some s' -> P2all s' o.
Proof.
  intros HP H. own_tac HP H.
  all: apply opt_eqb_Z_eq in E2; destruct (Pexited _ E2) as (A & _ & B); cbn.
  - congruence.
  - intros c0 [[= <-]|[=]]. exact A.
Qed.

Lemma P2all_own_code s o th c s' : P2all s o -> step_own s th (EExitCode c) = Some s' -> P2all s' o.
Proof.
  intros HP H. own_tac HP H.
  cbn. intros c0 [[=]|[= <-]]. apply Pcode. now left.
Qed.

Lemma P2all_own_decision s o th b s' : Rc cs s o -> P2all s o -> step_own s th (ERestartDecision b) = Some s' -> P2all s' o.
Proof.
  intros HRc HP H. own_tac HP H.
  - cbn. intros c0 [[= <-]|[[=]|[=]]]. split; [apply Pcode; now right|].
    apply restart_ok_spec in Heqb. destruct Heqb as (_ & Hpol & Hb). unfold Pok. cbn. split; [exact Hpol|].
    destruct Hb as [Hb|Hb]; [now left|right]. destruct Prestarts as [Pr _]. lia.
  - cbn. intros c0 [[= <-]|[b0 [=]]]. split; [apply Pcode; now right|].
    unfold GaveUp. cbn. autorewrite with sup.
    destruct (f_stopped i2) eqn:Ef; [left; now apply Pfstopped|].
    destruct (policy_allows (pol (cf i2)) c) eqn:Epol; [|right; now left].
    right; right. destruct (Nat.eq_dec (maxr (cf i2)) 0) as [Hm|Hm].
    + exfalso. assert (Hr : restart_ok false (pol (cf i2)) c (maxr (cf i2)) (restarts (vis_of s (nm i2))) = true)
        by (apply restart_ok_spec; auto). congruence.
    + split; [exact Hm|]. destruct (le_lt_dec (maxr (cf i2)) (restarts (vis_of s (nm i2)))) as [Hl|Hl]; [exact Hl|].
      exfalso. assert (Hr : restart_ok false (pol (cf i2)) c (maxr (cf i2)) (restarts (vis_of s (nm i2))) = true)
        by (apply restart_ok_spec; auto). congruence.
Qed.

Lemma P2all_own_backoff s o th secs s' : Rc cs s o -> P2all s o -> step_own s th (EBackoffWait secs) = Some s' -> P2all s' o.
Proof.
  intros HRc HP H. own_tac HP H.
  - cbn. intros c0 [[=]|[[=]|[= <-]]]. apply (Pdecided c). right; now left.
  - destruct (rc_inst _ _ _ HRc _ _ E4) as (xo & _ & _ & Hcf & _).
    destruct (rc_name _ _ _ HRc _ _ Hcf) as (v & r & Ev & _).
    unfold set_pc. autorewrite with sup. rewrite vis_of_upd_vis. cbn. rewrite N.eqb_refl, Ev. cbn.
    rewrite (vis_of_some _ _ _ Ev) in Prestarts. destruct Prestarts as [Pr _]. split; [lia|intros _; lia].
Qed.

Lemma P2all_own_cancel s o th s' : P2all s o -> step_own s th EBackoffCancelled = Some s' -> P2all s' o.
Proof.
  intros HP H. own_tac HP H.
  cbn. intros c0 [[= <-]|[b0 [=]]]. split; [apply (Pdecided c); right; now right|].
  left. match goal with Hr : l_runctx _ = true |- _ => destruct (Prunctx Hr) as [A|A]; [exact A|discriminate A] end.
Qed.

Lemma P2all_own_obs s o th e s' : Rc cs s o -> P2all s o -> oirr e = false -> step_own s th e = Some s' ->
  P2all s' (obs_step cs o (th, e)).
Proof.
  intros HRc HP Hirr H. pose proof (wkeep_step cs o (th, e)) as Hwk.
  destruct e; try discriminate Hirr; try destruct term; try destruct ok; try discriminate Hirr;
  kind_cases H; split_andb; subst;
  match goal with E : get ?th (thinst ?s) = Some ?i, E0 : get ?i (insts ?s) = Some ?x |- _ =>
    destruct (own_th cs _ _ _ _ _ HRc E E0) as (Et & xo0 & Exo0);
    match goal with |- P2all _ (obs_step _ _ (_, ?ev)) => pose proof (own_obs_shape cs o th ev i Et) as Hshape; cbn beta iota in Hshape end;
    comb_tac HP i E0 Hshape Hwk
  end.
  all: try match goal with E : pc _ = _ |- _ => rewrite E end.
  all: try (p2_goal; fail).
  all: try (w_contra (W_RunChecked cs) Et; fail).
  all: try (w_contra (W_BackoffElapsed cs) Et; fail).
  all: try (let Hw := fresh in intros Hw; pose proof (proj2 Hwk Hw); p2_clause; fail).
  all: try (intros _ _; match goal with Pd : forall c0, IBackoff ?c = IWillRestart c0 \/ _ -> _ |- _ =>
              destruct (Pd c) as (A & B); [right; right; reflexivity|]; exists c; cbn in *; repeat split; try congruence; apply B end; fail).
Qed.
End Own2.
