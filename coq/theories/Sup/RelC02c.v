(* C02 simulation, part 3: the events that move what P2 reads, one lemma per event. *)
From Coq Require Import List ZArith NArith Bool Lia.
From RecordUpdate Require Import RecordSet.
From PC.Base Require Import Assoc.
From PC.Sup Require Import Model Monitors Tactics Sim ObsFacts Effects RelCore LemC02 RelC02t RelC02b.
Import ListNotations RecordSetNotations.

Lemma opt_eqb_Z_eq a b : opt_eqb Z.eqb a b = true -> a = b.
Proof. destruct a, b; cbn; try discriminate; auto. intros H. apply Z.eqb_eq in H. now subst. Qed.

Lemma W4_W2 o : W4 o = false -> W2 o = false.
Proof. unfold W4, W2. destruct (w_commit o), (w_sdlag o); cbn; auto. Qed.

Ltac own_tac HP H :=
  kind_cases H; split_andb; subst;
  match goal with E : get ?th (thinst ?s) = Some ?i, E0 : get ?i (insts ?s) = Some ?x |- _ =>
    intros j9 x9 xo9 Hx9 Hxo9; unfold set_pc in Hx9; autorewrite with sup in Hx9; cbn [fst snd] in Hx9;
    destruct (N.eqb_spec i j9) as [<-|Hne];
    [ rewrite E0 in Hx9; cbn in Hx9; injection Hx9 as <-; pose proof (HP _ _ _ E0 Hxo9) as HPx; p2_pre; destruct HPx as [Pcommit Pstop Pexited Palive Pcode Pdecided Prelaunch Pgaveup Prestarts Ppre Pfstopped Prunctx Pendst Pgone Pnostop Pstatus]; constructor
    | eapply P2_frame; [apply (HP j9 x9 xo9 Hx9 Hxo9)|apply ikeep_refl|apply okeep_refl|apply vrel_vkeep; vrel_tac|apply wkeep_refl] ]
  end;
  try match goal with E : pc _ = _ |- _ => rewrite E in * end;
  try (p2_clause; fail).


Ltac okeep_use Ok :=
  let O1 := fresh "O" in let O2 := fresh "O" in let O3 := fresh "O" in let O4 := fresh "O" in let O5 := fresh "O" in let O6 := fresh "O" in
  destruct Ok as (O1 & O2 & O3 & O4 & O5 & O6); cbn in O1, O2, O3, O4, O5, O6.

Ltac w_contra Wlem Et :=
  let Hw := fresh in let Hs := fresh in intros Hw Hs; try apply W4_W2 in Hw; apply (Wlem _ _ _ Et) in Hw;
  match goal with Exo : get ?i (oi ?o) = Some ?x |- _ => rewrite (oi_get_some _ _ _ Exo) in Hw end; cbn in *; congruence.

(* combined step of model and observer for an event about instance i whose observer reaction has the common shape *)
Ltac comb_tac HP i E0 Hshape Hwk :=
  let j9 := fresh "j" in let x9 := fresh "x" in let xo9 := fresh "xo" in let Hx9 := fresh "Hx" in let Hxo9 := fresh "Hxo" in
  let xo := fresh "xo" in let Exo := fresh "Exo" in let Ok := fresh "Ok" in let Hne := fresh "Hne" in let HPx := fresh "HPx" in
  intros j9 x9 xo9 Hx9 Hxo9; unfold set_pc in Hx9; autorewrite with sup in Hx9; cbn [fst snd] in Hx9;
  destruct (Hshape j9 xo9 Hxo9) as (xo & Exo & Ok);
  destruct (N.eqb_spec i j9) as [<-|Hne];
  [ rewrite ?E0 in Hx9; cbn in Hx9; injection Hx9 as <-; pose proof (HP _ _ _ E0 Exo) as HPx; p2_pre;
    destruct HPx as [Pcommit Pstop Pexited Palive Pcode Pdecided Prelaunch Pgaveup Prestarts Ppre Pfstopped Prunctx Pendst Pgone Pnostop Pstatus];
    okeep_use Ok; constructor
  | eapply P2_frame; [apply (HP j9 x9 xo Hx9 Exo)|apply ikeep_refl|exact Ok|apply vrel_vkeep; vrel_tac|exact Hwk] ].

Section Own2.
Context (cs : amap pconf).

Lemma P2all_own_wait s o th c s' : P2all s o -> step_own s th (EWaitReturn c) = Some s' -> P2all s' o.
Proof.
  intros HP H. own_tac HP H.
  all: apply opt_eqb_Z_eq in E2; destruct (Pexited _ E2) as (A & _ & B); cbn.
  - congruence.
  - intros c0 [[= <-]|[=]]. exact A.
Qed.

Lemma P2all_own_code s o th c s' : P2all s o -> step_own s th (EExitCode c) = Some s' -> P2all s' o.
Proof.
  intros HP H. own_tac HP H.
  cbn. intros c0 [[=]|[= <-]]. apply Pcode. now left.
Qed.

Lemma P2all_own_decision s o th b s' : Rc cs s o -> P2all s o -> step_own s th (ERestartDecision b) = Some s' -> P2all s' o.
Proof.
  intros HRc HP H. own_tac HP H.
  - cbn. intros c0 [[= <-]|[[=]|[=]]]. split; [apply Pcode; now right|].
    apply restart_ok_spec in Heqb. destruct Heqb as (_ & Hpol & Hb). unfold Pok. cbn. split; [exact Hpol|].
    destruct Hb as [Hb|Hb]; [now left|right]. destruct Prestarts as [Pr _]. lia.
  - cbn. intros c0 [[= <-]|[b0 [=]]]. split; [apply Pcode; now right|].
    unfold GaveUp. cbn. autorewrite with sup.
    destruct (f_stopped i2) eqn:Ef; [left; now apply Pfstopped|].
    destruct (policy_allows (pol (cf i2)) c) eqn:Epol; [|right; now left].
    right; right. destruct (Nat.eq_dec (maxr (cf i2)) 0) as [Hm|Hm].
    + exfalso. assert (Hr : restart_ok false (pol (cf i2)) c (maxr (cf i2)) (restarts (vis_of s (nm i2))) = true)
        by (apply restart_ok_spec; auto). congruence.
    + split; [exact Hm|]. destruct (le_lt_dec (maxr (cf i2)) (restarts (vis_of s (nm i2)))) as [Hl|Hl]; [exact Hl|].
      exfalso. assert (Hr : restart_ok false (pol (cf i2)) c (maxr (cf i2)) (restarts (vis_of s (nm i2))) = true)
        by (apply restart_ok_spec; auto). congruence.
Qed.

Lemma P2all_own_backoff s o th secs s' : Rc cs s o -> P2all s o -> step_own s th (EBackoffWait secs) = Some s' -> P2all s' o.
Proof.
  intros HRc HP H. own_tac HP H.
  - cbn. intros c0 [[=]|[[=]|[= <-]]]. apply (Pdecided c). right; now left.
  - destruct (rc_inst _ _ _ HRc _ _ E4) as (xo & _ & _ & Hcf & _).
    destruct (rc_name _ _ _ HRc _ _ Hcf) as (v & r & Ev & _).
    unfold set_pc. autorewrite with sup. rewrite vis_of_upd_vis. cbn. rewrite N.eqb_refl, Ev. cbn.
    rewrite (vis_of_some _ _ _ Ev) in Prestarts. destruct Prestarts as [Pr _]. split; [lia|intros _; lia].
Qed.

Lemma P2all_own_cancel s o th s' : P2all s o -> step_own s th EBackoffCancelled = Some s' -> P2all s' o.
Proof.
  intros HP H. own_tac HP H.
  cbn. intros c0 [[= <-]|[b0 [=]]]. split; [apply (Pdecided c); right; now right|].
  left. match goal with Hr : l_runctx _ = true |- _ => destruct (Prunctx Hr) as [A|A]; [exact A|discriminate A] end.
Qed.

(* all own events that the observer's instance records do not react to *)
Lemma P2all_own s o th e s' : Rc cs s o -> P2all s o -> oirr e = true -> step_own s th e = Some s' -> P2all s' o.
Proof.
  intros HRc HP Hirr H. destruct (own_special e) eqn:Hsp; [|eapply P2all_own_gen; eauto].
  destruct e; try discriminate Hsp;
    eauto using P2all_own_wait, P2all_own_code, P2all_own_decision, P2all_own_backoff, P2all_own_cancel.
Qed.

(* ---- what the window flags say after the events that can raise them ---------------------------------- *)

Lemma note_late_W o i : W2 (note_late_commit o i) = false -> o_stopreq (oi_get o i) = false /\ W2 o = false.
Proof.
  unfold note_late_commit. destruct (o_stopreq (oi_get o i)); [|auto].
  destruct (stopping o i); unfold W2; cbn; rewrite ?orb_true_r; discriminate.
Qed.

Lemma W_RunChecked o th i : get th (o_th o) = Some i ->
  W2 (obs_step cs o (th, ERunChecked false)) = false -> o_stopreq (oi_get o i) = false.
Proof.
  intros Et. unfold obs_step. cbn [ev_inst fst snd]. rewrite Et. rewrite W_refresh, W_oi_upd. intros H. now apply note_late_W in H.
Qed.
Lemma W_BackoffElapsed o th i : get th (o_th o) = Some i ->
  W2 (obs_step cs o (th, EBackoffElapsed)) = false -> o_stopreq (oi_get o i) = false.
Proof.
  intros Et. unfold obs_step. cbn [ev_inst fst snd]. rewrite Et. rewrite W_refresh, W_oi_upd. intros H. now apply note_late_W in H.
Qed.
Lemma W_NoRestart o th i : W2 (obs_step cs o (th, ENoRestart i)) = false -> o_commit (oi_get o i) = false.
Proof.
  unfold obs_step. cbn [ev_inst fst snd]. rewrite W_refresh, W_oi_upd. unfold W2. cbn.
  destruct (o_commit (oi_get o i)); [rewrite orb_true_r; discriminate|auto].
Qed.
Lemma W_StopPending o th i : W2 (obs_step cs o (th, EStopPending i)) = false -> o_commit (oi_get o i) = false.
Proof.
  unfold obs_step. cbn [ev_inst fst snd]. rewrite W_refresh, W_oi_upd. unfold W2. cbn.
  destruct (o_commit (oi_get o i)); [rewrite orb_true_r; discriminate|auto].
Qed.
Lemma W_StopEnter o th i cancel : W2 (obs_step cs o (th, EStopEnter i cancel)) = false -> cancel && o_commit (oi_get o i) = false.
Proof.
  unfold obs_step. cbn [ev_inst fst snd]. rewrite W_refresh, W_oi_upd. unfold W2. cbn.
  destruct (cancel && o_commit (oi_get o i)); [rewrite orb_true_r; discriminate|auto].
Qed.
Lemma W_ShutdownOrder o th order i : W2 (obs_step cs o (th, EShutdownOrder order)) = false -> memN i order = true ->
  o_commit (oi_get o i) = false.
Proof.
  unfold obs_step. cbn [ev_inst fst snd]. rewrite W_refresh. unfold W2. cbn.
  rewrite (fold_oi_upd_proj w_commit), (fold_oi_upd_proj w_sdlag); try (intros; unfold oi_upd; destruct (get _ _); reflexivity).
  cbn. intros H Hm. destruct (o_commit (oi_get o i)) eqn:E; [|reflexivity].
  pose proof (existsb_mem (fun i : iid => o_commit (oi_get o i)) order i Hm E) as Hx. cbn beta in Hx.
  apply orb_false_iff in H. destruct H as [H _]. apply orb_false_iff in H. destruct H as [_ H].
  exact (eq_trans (eq_sym Hx) H).
Qed.

(* the common shape of the observer's reaction: one instance record is updated, then refresh_succ *)
Lemma obs_upd_shape o o0 i f j xo' : oi o0 = oi o -> get j (oi (refresh_succ (oi_upd i f o0))) = Some xo' ->
  exists xo, get j (oi o) = Some xo /\ okeep (if N.eqb i j then f xo else xo) xo'.
Proof.
  intros E. rewrite refresh_get, oi_upd_get, E. destruct (get j (oi o)) as [xo|]; [|destruct (N.eqb i j); discriminate].
  exists xo. split; [reflexivity|]. destruct (N.eqb i j); cbn in H; injection H as <-;
    match goal with |- context[if ?c then _ else _] => destruct c end; unfold okeep; cbn; repeat split; reflexivity.
Qed.

Lemma own_obs_shape o th e i : get th (o_th o) = Some i ->
  match e with
  | ERunChecked false => forall j xo', get j (oi (obs_step cs o (th, e))) = Some xo' ->
      exists xo, get j (oi o) = Some xo /\ okeep (if N.eqb i j then xo <| o_commit := true |> else xo) xo'
  | EBackoffElapsed => forall j xo', get j (oi (obs_step cs o (th, e))) = Some xo' ->
      exists xo, get j (oi o) = Some xo /\ okeep (if N.eqb i j then xo <| o_elapsed := true |> <| o_commit := true |> else xo) xo'
  | EInstExit => forall j xo', get j (oi (obs_step cs o (th, e))) = Some xo' ->
      exists xo, get j (oi o) = Some xo /\ okeep (if N.eqb i j then xo <| o_gone := true |> else xo) xo'
  | ELaunch true => forall j xo', get j (oi (obs_step cs o (th, e))) = Some xo' ->
      exists xo, get j (oi o) = Some xo /\
        okeep (if N.eqb i j then xo <| o_launches := S (o_launches xo) |> <| o_alive := true |> <| o_elapsed := false |> <| o_commit := false |> else xo) xo'
  | ELaunch false => forall j xo', get j (oi (obs_step cs o (th, e))) = Some xo' ->
      exists xo, get j (oi o) = Some xo /\ okeep (if N.eqb i j then xo <| o_commit := false |> else xo) xo'
  | _ => True
  end.
Proof.
  intros Et. destruct e; auto; try (destruct term); try (destruct ok); auto;
  intros j xo'; unfold obs_step; cbn [ev_inst fst snd]; rewrite Et; intros H; eapply obs_upd_shape in H; eauto.
  all: unfold note_late_commit; repeat match goal with |- context[if ?b then _ else _] => destruct b end; reflexivity.
Qed.

Lemma own_th s o th i x : Rc cs s o -> get th (thinst s) = Some i -> get i (insts s) = Some x ->
  get th (o_th o) = Some i /\ exists xo, get i (oi o) = Some xo.
Proof.
  intros HRc Et Ex. split; [now rewrite <- (rc_th _ _ _ HRc)|].
  destruct (rc_inst _ _ _ HRc _ _ Ex) as (xo & Exo & _). eauto.
Qed.

Lemma P2all_own_obs s o th e s' : Rc cs s o -> P2all s o -> oirr e = false -> step_own s th e = Some s' ->
  P2all s' (obs_step cs o (th, e)).
Proof.
  intros HRc HP Hirr H. pose proof (wkeep_step cs o (th, e)) as Hwk.
  destruct e; try discriminate Hirr; try destruct term; try destruct ok; try discriminate Hirr;
  kind_cases H; split_andb; subst;
  match goal with E : get ?th (thinst ?s) = Some ?i, E0 : get ?i (insts ?s) = Some ?x |- _ =>
    destruct (own_th _ _ _ _ _ HRc E E0) as (Et & xo0 & Exo0);
    match goal with |- P2all _ (obs_step _ _ (_, ?ev)) => pose proof (own_obs_shape o th ev i Et) as Hshape; cbn beta iota in Hshape end;
    comb_tac HP i E0 Hshape Hwk
  end.
  all: try match goal with E : pc _ = _ |- _ => rewrite E in * end.
  all: rewrite ?N.eqb_refl in *.
  all: try (p2_clause; fail).
  all: try (w_contra (W_RunChecked) Et; fail).
  all: try (w_contra (W_BackoffElapsed) Et; fail).
  all: try (let Hw := fresh in intros Hw; pose proof (proj2 Hwk Hw); p2_clause; fail).
  all: try (intros _ _; match goal with Pd : forall c0, IBackoff ?c = IWillRestart c0 \/ _ -> _ |- _ =>
              destruct (Pd c) as (A & B); [right; right; reflexivity|]; exists c; cbn in *; repeat split; try congruence; apply B end; fail).
Qed.
End Own2.
