(* C02 simulation, part 3: the events that move what P2 reads, one lemma per event. *)
From Coq Require Import List ZArith NArith Bool Lia.
From RecordUpdate Require Import RecordSet.
From PC.Base Require Import Assoc.
From PC.Sup Require Import Model Monitors Tactics Sim ObsFacts Effects RelCore LemC02 RelC02t RelC02b.
Import ListNotations RecordSetNotations.

Lemma opt_eqb_Z_eq a b : opt_eqb Z.eqb a b = true -> a = b.
Proof. destruct a, b; cbn; try discriminate; auto. intros H. apply Z.eqb_eq in H. now subst. Qed.

Section Own2.
Context (cs : amap pconf).

Lemma P2all_own_wait s o th c s' : P2all s o -> step_own s th (EWaitReturn c) = Some s' -> P2all s' o.
Proof.
  intros HP H. own_tac HP H.
(*STOP*)
End Own2.
