(* C04 effect lemmas for the observer obs_step on the fields the C04 monitor reads. *)
From Coq Require Import List ZArith NArith Bool Lia.
From RecordUpdate Require Import RecordSet.
From PC.Base Require Import Assoc.
From PC.Sup Require Import Model Monitors Tactics Sim ObsFacts Effects RelCore LemC04.
Import ListNotations RecordSetNotations.

(* ---- observer side ---- *)
Lemma oi_upd_triggers i f o : o_triggers (oi_upd i f o) = o_triggers o.
Proof. unfold oi_upd. destruct (get i (oi o)); reflexivity. Qed.
Lemma on_upd_triggers n f o : o_triggers (on_upd n f o) = o_triggers o.
Proof. unfold on_upd. destruct (get n (onm o)); reflexivity. Qed.
Lemma oi_upd_api i f o : o_api_sd_first (oi_upd i f o) = o_api_sd_first o.
Proof. unfold oi_upd. destruct (get i (oi o)); reflexivity. Qed.
Lemma on_upd_api n f o : o_api_sd_first (on_upd n f o) = o_api_sd_first o.
Proof. unfold on_upd. destruct (get n (onm o)); reflexivity. Qed.

Ltac obs_field_tac P :=
  unfold obs_step; cbn [refresh_succ];
  cbn [fst snd];
  try (destruct (ev_inst _ _ _) eqn:Ev);
  try match goal with |- context[match ?b with true => _ | false => _ end] => destruct b end;
  unfold note_late_commit;
  repeat match goal with |- context[if ?b then _ else _] => destruct b end;
  cbn;
  repeat first [rewrite oi_upd_triggers | rewrite on_upd_triggers | rewrite oi_upd_api | rewrite on_upd_api
               | rewrite oi_upd_o_th | rewrite on_upd_o_th | rewrite (fold_oi_upd_proj P) ];
  cbn; try reflexivity;
  try (intros; first [apply oi_upd_o_th | apply oi_upd_triggers | apply oi_upd_api]);
  try (match goal with Ev : ev_inst _ _ _ = _ |- _ => cbn in Ev; rewrite Ev; reflexivity end).

Lemma obs_oth cs o th e :
  o_th (obs_step cs o (th, e)) = match e with EBegin i => set th i (o_th o) | _ => o_th o end.
Proof.
  destruct e; obs_field_tac o_th.
Qed.
Lemma obs_trig cs o th e :
  o_triggers (obs_step cs o (th, e)) =
  match e with
  | EExitTrigger c => match get th (o_th o) with
                      | Some i => o_triggers o ++ [(i, c, o_sd_victim (oi_get o i))]
                      | None => o_triggers o end
  | _ => o_triggers o end.
Proof.
  destruct e; obs_field_tac o_triggers.
Qed.
Lemma oi_upd_fixed i f o : o_code_fixed (oi_upd i f o) = o_code_fixed o.
Proof. unfold oi_upd. destruct (get i (oi o)); reflexivity. Qed.
Lemma on_upd_fixed n f o : o_code_fixed (on_upd n f o) = o_code_fixed o.
Proof. unfold on_upd. destruct (get n (onm o)); reflexivity. Qed.
Lemma oi_upd_trigth i f o : o_trig_th (oi_upd i f o) = o_trig_th o.
Proof. unfold oi_upd. destruct (get i (oi o)); reflexivity. Qed.
Lemma on_upd_trigth n f o : o_trig_th (on_upd n f o) = o_trig_th o.
Proof. unfold on_upd. destruct (get n (onm o)); reflexivity. Qed.

Ltac obs_field_tac2 P :=
  unfold obs_step; cbn [refresh_succ];
  cbn [fst snd];
  try (destruct (ev_inst _ _ _) eqn:Ev);
  try match goal with |- context[match ?b with true => _ | false => _ end] => is_var b; destruct b end;
  unfold note_late_commit;
  repeat match goal with |- context[if ?b then _ else _] => destruct b end;
  cbn -[memN];
  repeat first [rewrite oi_upd_fixed | rewrite on_upd_fixed | rewrite oi_upd_trigth | rewrite on_upd_trigth
               | rewrite oi_upd_api | rewrite on_upd_api | rewrite oi_upd_o_th | rewrite on_upd_o_th | rewrite (fold_oi_upd_proj P) ];
  cbn -[memN]; try reflexivity;
  try (intros; first [apply oi_upd_o_th | apply oi_upd_fixed | apply oi_upd_trigth | apply oi_upd_api]);
  try (match goal with Ev : ev_inst _ _ _ = _ |- _ => cbn in Ev; rewrite Ev; reflexivity end).

Lemma obs_api cs o th e :
  o_api_sd_first (obs_step cs o (th, e)) =
  match e with
  | EShutdownOrder _ => o_api_sd_first o || ((match get th (o_th o) with None => true | Some _ => false end) &&
                                             negb (o_code_fixed o))
  | _ => o_api_sd_first o end.
Proof.
  destruct e; try (obs_field_tac2 o_api_sd_first; fail).
  unfold obs_step; cbn [refresh_succ]. cbn.
  rewrite (fold_oi_upd_proj o_th), (fold_oi_upd_proj o_code_fixed), (fold_oi_upd_proj o_api_sd_first);
    try (intros; first [apply oi_upd_o_th | apply oi_upd_fixed | apply oi_upd_api]).
  reflexivity.
Qed.

Lemma fold_oi_upd_get (f : oinst -> oinst) l : (forall x, f (f x) = f x) ->
  forall o j, get j (oi (fold_left (fun o i => oi_upd i f o) l o)) =
              if memN j l then option_map f (get j (oi o)) else get j (oi o).
Proof.
  intros Hf. induction l as [|a l IH]; intros o j; cbn [fold_left]; [reflexivity|].
  rewrite IH, oi_upd_get, memN_cons. rewrite (N.eqb_sym j a).
  destruct (N.eqb a j); cbn; destruct (memN j l); try reflexivity.
  destruct (get j (oi o)); cbn; [now rewrite Hf|reflexivity].
Qed.

Definition oi_eff (cs : amap pconf) (o : obs) (th : tid) (e : event) : Prop :=
  forall j xo, get j (oi o) = Some xo -> (forall n, e <> ENewInst j n) ->
  exists xo', get j (oi (obs_step cs o (th, e))) = Some xo' /\
    o_alive xo' = alive_next (own (o_th o) th j) e j (o_alive xo) /\
    o_insnap xo' = (o_insnap xo || match e with EShutdownOrder l => memN j l | _ => false end) /\
    o_sd_victim xo' = match e with ECmdExit i _ => if N.eqb i j then o_insnap xo else o_sd_victim xo | _ => o_sd_victim xo end.

Lemma note_oi o i : oi (note_late_commit o i) = oi o.
Proof. unfold note_late_commit. destruct (o_stopreq _); [destruct (stopping _ _)|]; reflexivity. Qed.

Ltac oi_fin :=
  cbn -[get Assoc.set N.eqb];
  repeat match goal with
  | |- context[N.eqb ?a ?jj] => is_var jj; destruct (N.eqb_spec a jj); [subst|]
  end;
  repeat match goal with H : get _ (oi _) = Some _ |- _ => rewrite H end; cbn [option_map];
  (eexists; split; [reflexivity|]);
  unfold own; repeat match goal with H : get _ (o_th _) = _ |- _ => rewrite H end; cbn [opt_eqb];
  repeat match goal with
  | |- context[N.eqb ?a ?a] => rewrite N.eqb_refl
  | H : ?a <> ?b |- context[N.eqb ?a ?b] => rewrite (proj2 (N.eqb_neq a b) H)
  end;
  cbn;
  repeat match goal with |- context[if ?b then _ else _] => lazymatch b with true => fail | false => fail | _ => destruct b end end; cbn;
  rewrite ?orb_false_r; repeat split; reflexivity.

Ltac oi_tac :=
  intros jj xo Hjj Hnn; unfold obs_step; rewrite refresh_get; cbn [fst snd];
  try (destruct (ev_inst _ _ _) eqn:?Ev; match goal with H : ev_inst _ _ _ = _ |- _ => cbn in H end);
  try match goal with |- context[match ?b with true => _ | false => _ end] => is_var b; destruct b end;
  cbv zeta;
  repeat first [rewrite oi_upd_get | rewrite on_upd_oi | rewrite note_oi];
  repeat match goal with |- context[oi (if ?b then _ else _)] => destruct b end;
  oi_fin.

Lemma obs_oi cs o th e : oi_eff cs o th e.
Proof.
  unfold oi_eff. destruct e; try oi_tac.
  - (* ENewInst *)
    intros jj xo Hjj Hnn. unfold obs_step. rewrite refresh_get. cbn -[get Assoc.set N.eqb existsb].
    rewrite get_set. destruct (N.eqb_spec i jj); [subst; exfalso; eapply Hnn; reflexivity|].
    rewrite Hjj. cbn [option_map]. eexists; split; [reflexivity|].
    destruct (_ && _); cbn; rewrite ?orb_false_r; repeat split; reflexivity.
  - (* EShutdownOrder *)
    intros jj xo Hjj Hnn. unfold obs_step. rewrite refresh_get. cbn -[get Assoc.set N.eqb existsb memN].
    rewrite fold_oi_upd_get by reflexivity. cbn -[get Assoc.set N.eqb existsb memN]. rewrite Hjj.
    destruct (memN jj order); cbn [option_map]; (eexists; split; [reflexivity|]);
      destruct (_ && _); cbn; rewrite ?orb_false_r, ?orb_true_r; repeat split; reflexivity.
  - destruct ok, fatal; oi_tac.
Qed.

Lemma obs_new cs o th i n : exists xo', get i (oi (obs_step cs o (th, ENewInst i n))) = Some xo' /\
  o_alive xo' = false /\ o_insnap xo' = false /\ o_sd_victim xo' = false.
Proof.
  unfold obs_step. rewrite refresh_get. cbn -[get Assoc.set N.eqb existsb]. rewrite get_set_same. cbn [option_map].
  eexists; split; [reflexivity|]. destruct (_ && _); cbn; auto.
Qed.

(* keys of the instance table stay duplicate-free *)
Lemma keys_set {V} k (v : V) m j : In j (map fst (set k v m)) -> j = k \/ In j (map fst m).
Proof.
  induction m as [|[k' v'] r IH]; cbn; [intros [H|[]]; left; congruence|]. destruct (N.eqb_spec k' k); cbn.
  - subst. tauto.
  - intros [H|H]; [tauto|]. destruct (IH H); tauto.
Qed.
Lemma nodup_set {V} k (v : V) m : NoDup (map fst m) -> NoDup (map fst (set k v m)).
Proof.
  induction m as [|[k' v'] r IH]; cbn; intros H.
  - constructor; [tauto|constructor].
  - inversion H as [|? ? Hn Hr]; subst. destruct (N.eqb_spec k' k); cbn.
    + subst. constructor; assumption.
    + constructor; [|auto]. intros Hin. destruct (keys_set _ _ _ _ Hin); [congruence|contradiction].
Qed.
Lemma in_vals_get {V} (m : amap V) x : NoDup (map fst m) -> In x (vals m) -> exists k, get k m = Some x.
Proof.
  induction m as [|[k v] r IH]; cbn; [tauto|]. intros H Hin. inversion H as [|? ? Hn Hr]; subst.
  destruct Hin as [->|Hin].
  - exists k. now rewrite N.eqb_refl.
  - destruct (IH Hr Hin) as (k' & Hk'). exists k'. destruct (N.eqb_spec k k'); [|exact Hk'].
    subst. exfalso. apply Hn. apply get_in in Hk'. change k' with (fst (k', x)). now apply in_map.
Qed.

Lemma nodup_oi_upd i f o : NoDup (map fst (oi o)) -> NoDup (map fst (oi (oi_upd i f o))).
Proof. unfold oi_upd. destruct (get i (oi o)); cbn; [apply nodup_set|auto]. Qed.
Lemma nodup_fold_oi_upd f l : forall o, NoDup (map fst (oi o)) -> NoDup (map fst (oi (fold_left (fun o i => oi_upd i f o) l o))).
Proof. induction l as [|a l IH]; intros o H; cbn; [exact H|]. apply IH. now apply nodup_oi_upd. Qed.
Lemma keys_refresh o : map fst (oi (refresh_succ o)) = map fst (oi o).
Proof. unfold refresh_succ. cbn. rewrite map_map. cbn. reflexivity. Qed.

Lemma obs_nodup cs o th e : NoDup (map fst (oi o)) -> NoDup (map fst (oi (obs_step cs o (th, e)))).
Proof.
  intros H. unfold obs_step. rewrite keys_refresh. destruct e; cbn [fst snd];
  try (destruct (ev_inst _ _ _));
  try match goal with |- context[match ?b with true => _ | false => _ end] => is_var b; destruct b end;
  cbv zeta;
  repeat first [apply nodup_oi_upd | rewrite on_upd_oi | rewrite note_oi | apply nodup_fold_oi_upd];
  repeat match goal with |- context[oi (if ?b then _ else _)] => destruct b end;
  cbn -[get Assoc.set N.eqb existsb]; try assumption.
  - now apply nodup_set.
  - now rewrite on_upd_oi.
Qed.
(* the two fields that make "the project exit code is fixed" observable *)
Lemma obs_trigth cs o th e :
  o_trig_th (obs_step cs o (th, e)) =
  match e with
  | EExitTrigger _ => match get th (o_th o) with Some _ => th :: o_trig_th o | None => o_trig_th o end
  | _ => o_trig_th o end.
Proof.
  destruct e; try (obs_field_tac2 o_trig_th; fail).
  unfold obs_step; cbn [refresh_succ fst snd ev_inst]. destruct (get th (o_th o)); reflexivity.
Qed.
Lemma obs_fixed cs o th e :
  o_code_fixed (obs_step cs o (th, e)) =
  match e with
  | EResume | EShutdownCall | EExitCodeSet _ => o_code_fixed o || memN th (o_trig_th o)
  | _ => o_code_fixed o end.
Proof. destruct e; obs_field_tac2 o_code_fixed. Qed.

