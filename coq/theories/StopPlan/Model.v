(* StopPlan: the OS-level stop procedure of one process instance (property C06).

   Modelled code (process-compose, /repo/src):
     app/process.go:395-424   stopProcess        (the part after the "is it running" test)
     app/process.go:426-444   forceKillOnTimeout
     app/process.go:446-468   doConfiguredStop
     command/stopper_unix.go  CmdWrapper.Stop    (signal validation, group vs parent-only kill)

   The procedure is a function from the shutdown parameters and the answers of the environment
   (when does the process end, what does the shutdown command do) to a timed list of actions.
   Times are milliseconds after the stop request.  No proofs in this file. *)
From Coq Require Import List ZArith Bool.
Import ListNotations.
Open Scope Z_scope.

Definition SIGKILL : Z := 9.
Definition SIGTERM : Z := 15.
Definition min_sig : Z := 1.    (* stopper_unix.go:10 *)
Definition max_sig : Z := 31.   (* stopper_unix.go:11 *)

(* stopper_unix.go:18-20   if sig < min_sig || sig > max_sig { sig = SIGTERM } *)
Definition eff_signal (s : Z) : Z := if (s <? min_sig) || (max_sig <? s) then SIGTERM else s.

(* stopper_unix.go:29-37: parentOnly -> cmd.Process.Signal (the launched pid only);
   otherwise kill(-getpgid(pid), sig): every member of the process group *)
Inductive target := TGroup | TParent.
Definition target_of (parent_only : bool) : target := if parent_only then TParent else TGroup.
Definition target_eqb (a b : target) : bool :=
  match a, b with TGroup, TGroup | TParent, TParent => true | _, _ => false end.

(* types/process.go:306-311 ShutDownParams *)
Record params := mkParams {
  p_signal      : Z;     (* shutdown.signal, 0 when absent *)
  p_timeout     : Z;     (* shutdown.timeout_seconds, 0 when absent (= UndefinedShutdownTimeoutSec) *)
  p_has_cmd     : bool;  (* shutdown.command is a non-blank string *)
  p_parent_only : bool
}.

Definition DefaultShutdownTimeoutSec : Z := 10.   (* process.go:32 *)

(* a context.WithTimeout of d seconds: expires max(0,d)*1000 ms after its creation *)
Definition deadline_ms (seconds : Z) : Z := Z.max 0 (seconds * 1000).

(* what the environment answers *)
Inductive proc_answer :=
| EndsAfter (ms : Z)    (* the supervisor sees the instance end (onProcessEnd) ms after the stop request *)
| NeverEnds.            (* it does not end on its own *)
Inductive cmd_answer :=
| CmdOk (ms : Z)        (* the shutdown command exits 0 after ms *)
| CmdFail (ms : Z)      (* exits non-zero / cannot be started, after ms *)
| CmdHang.              (* still running when its deadline passes *)
Record answers := mkAns { a_proc : proc_answer; a_cmd : cmd_answer }.

Definition ended_before (a : proc_answer) (t : Z) : bool :=
  match a with EndsAfter ms => ms <? t | NeverEnds => false end.

(* outcome of cmd.Run() under a deadline T: Some t = returned an error at time t, None = nil *)
Definition cmd_error_at (a : cmd_answer) (T : Z) : option Z :=
  match a with
  | CmdOk ms => if ms <? T then None else Some T        (* killed by the context at T *)
  | CmdFail ms => Some (Z.min (Z.max 0 ms) T)
  | CmdHang => Some T
  end.

Section Plan.
Context {E D : Type}.     (* environment and working directory of the process: opaque data *)

Record procinfo := mkInfo { pi_env : E; pi_dir : D }.

Inductive action :=
| AStop (t : target) (sig : Z)             (* process.go:415  command.Stop(params.Signal, params.ParentOnly) *)
| ARun (env : E) (dir : D) (timeout_s : Z) (* process.go:455-459 shutdown command, env/dir set, Run() *)
| AEsc (t : target).                       (* process.go:436 / 464  command.Stop(SIGKILL, ...) *)

(* process.go:415-421 + forceKillOnTimeout *)
Definition plan_signal (p : params) (ans : answers) : list (Z * action) :=
  let tgt := target_of (p_parent_only p) in
  (0, AStop tgt (p_signal p)) ::
  (if p_timeout p =? 0 then []
   else let T := deadline_ms (p_timeout p) in
        if ended_before (a_proc ans) T then [] else [(T, AEsc tgt)]).

(* doConfiguredStop: a deadline that has already passed makes exec refuse to start the command *)
Definition cmd_timeout (p : params) : Z :=
  if p_timeout p =? 0 then DefaultShutdownTimeoutSec else p_timeout p.

Definition plan_cmd (p : params) (info : procinfo) (ans : answers) : list (Z * action) :=
  let T := deadline_ms (cmd_timeout p) in
  if T =? 0 then [(0, AEsc TGroup)]
  else (0, ARun (pi_env info) (pi_dir info) (cmd_timeout p)) ::
       match cmd_error_at (a_cmd ans) T with
       | None => []
       | Some t => [(t, AEsc TGroup)]
       end.

(* stopProcess for an instance that is running (process.go:412-421) *)
Definition plan (p : params) (info : procinfo) (ans : answers) : list (Z * action) :=
  if p_has_cmd p then plan_cmd p info ans else plan_signal p ans.

(* what reaches Commander.Stop(sig, parentOnly) *)
Definition wire (a : action) : option (target * Z) :=
  match a with
  | AStop t s => Some (t, s)
  | AEsc t => Some (t, SIGKILL)
  | ARun _ _ _ => None
  end.

(* what reaches the kernel (CmdWrapper.Stop) *)
Definition os_wire (a : action) : option (target * Z) :=
  match wire a with Some (t, s) => Some (t, eff_signal s) | None => None end.

Definition is_esc (a : action) : bool := match a with AEsc _ => true | _ => false end.
Definition is_run (a : action) : bool := match a with ARun _ _ _ => true | _ => false end.
Definition is_stop (a : action) : bool := match a with AStop _ _ => true | _ => false end.

End Plan.

Arguments action : clear implicits.
Arguments procinfo : clear implicits.
