(* Proofs about the stop plan (all parameters, all answers of the environment). *)
From Coq Require Import List ZArith Bool Lia.
From PC.StopPlan Require Import Model.
Import ListNotations.
Open Scope Z_scope.

(* ---------------------------------------------------------------- effective signal *)
Lemma eff_signal_spec : forall s,
  eff_signal s = if (1 <=? s) && (s <=? 31) then s else 15.
Proof.
  intro s. unfold eff_signal, min_sig, max_sig, SIGTERM.
  destruct (s <? 1) eqn:A; destruct (31 <? s) eqn:B; destruct (1 <=? s) eqn:C; destruct (s <=? 31) eqn:F;
    cbn; try reflexivity; lia.
Qed.

Lemma eff_signal_valid : forall s, 1 <= s <= 31 -> eff_signal s = s.
Proof.
  intros s H. rewrite eff_signal_spec.
  destruct (1 <=? s) eqn:C; destruct (s <=? 31) eqn:F; cbn; try reflexivity; lia.
Qed.

Lemma eff_signal_default : forall s, s < 1 \/ 31 < s -> eff_signal s = 15.
Proof.
  intros s H. rewrite eff_signal_spec.
  destruct (1 <=? s) eqn:C; destruct (s <=? 31) eqn:F; cbn; try reflexivity; lia.
Qed.

Lemma eff_signal_range : forall s, 1 <= eff_signal s <= 31.
Proof.
  intro s. rewrite eff_signal_spec.
  destruct (1 <=? s) eqn:C; destruct (s <=? 31) eqn:F; cbn; lia.
Qed.

Lemma eff_signal_idem : forall s, eff_signal (eff_signal s) = eff_signal s.
Proof. intro s. apply eff_signal_valid, eff_signal_range. Qed.

Lemma deadline_nonneg : forall s, 0 <= deadline_ms s.
Proof. intro s. unfold deadline_ms. lia. Qed.

Lemma deadline_ge : forall s, s * 1000 <= deadline_ms s.
Proof. intro s. unfold deadline_ms. lia. Qed.

Lemma cmd_error_at_bounds : forall a T t, 0 <= T -> cmd_error_at a T = Some t -> 0 <= t <= T.
Proof.
  intros a T t HT H. destruct a as [ms|ms|]; cbn in H.
  - destruct (ms <? T); inversion H; lia.
  - inversion H. lia.
  - inversion H. lia.
Qed.

Section Plan.
Context {E D : Type}.
Notation action := (action E D).
Notation procinfo := (procinfo E D).
Implicit Types (p : params) (info : procinfo) (ans : answers).

(* when is the SIGKILL escalation justified, according to the property text *)
Definition kill_justified p ans (t : Z) (tgt : target) : Prop :=
  (p_has_cmd p = false /\ p_timeout p <> 0 /\ t = deadline_ms (p_timeout p) /\
   ended_before (a_proc ans) t = false /\ tgt = target_of (p_parent_only p))
  \/
  (p_has_cmd p = true /\ tgt = TGroup /\
   cmd_error_at (a_cmd ans) (deadline_ms (cmd_timeout p)) = Some t).

Ltac plan_cases p ans :=
  unfold plan, plan_cmd, plan_signal;
  destruct (p_has_cmd p) eqn:Hcmd;
  [ destruct (deadline_ms (cmd_timeout p) =? 0) eqn:HT0;
    [| destruct (cmd_error_at (a_cmd ans) (deadline_ms (cmd_timeout p))) eqn:Herr ]
  | destruct (p_timeout p =? 0) eqn:Hto;
    [| destruct (ended_before (a_proc ans) (deadline_ms (p_timeout p))) eqn:Hend ] ];
  cbn [In map snd filter is_esc is_run is_stop length app].


(* SIGKILL is emitted only when justified *)
Lemma esc_only_when_justified : forall p info ans t tgt,
  In (t, AEsc tgt) (plan p info ans) ->
  (match a_cmd ans with CmdOk ms | CmdFail ms => 0 <= ms | CmdHang => True end) ->
  kill_justified p ans t tgt.
Proof.
  intros p info ans t tgt H Hms. revert H. plan_cases p ans; intro H.
  - destruct H as [H|[]]. inversion H; subst. right. repeat split; auto.
    apply Z.eqb_eq in HT0. rewrite HT0.
    destruct (a_cmd ans) as [ms|ms|]; cbn; try reflexivity.
    + destruct (ms <? 0) eqn:X; [lia|reflexivity].
    + f_equal. lia.
  - destruct H as [H|[H|[]]]; inversion H; subst. right. auto.
  - destruct H as [H|[]]; inversion H.
  - destruct H as [H|[]]; inversion H.
  - destruct H as [H|[]]; inversion H.
  - destruct H as [H|[H|[]]]; inversion H; subst. left. repeat split; auto.
    apply Z.eqb_neq in Hto. exact Hto.
Qed.

(* ... and it IS emitted whenever it is due *)
Lemma esc_when_timeout_passed : forall p info ans,
  p_has_cmd p = false -> p_timeout p <> 0 ->
  ended_before (a_proc ans) (deadline_ms (p_timeout p)) = false ->
  In (deadline_ms (p_timeout p), AEsc (target_of (p_parent_only p))) (plan p info ans).
Proof.
  intros p info ans Hc Ht He. unfold plan, plan_signal. rewrite Hc.
  apply Z.eqb_neq in Ht. rewrite Ht, He. right. left. reflexivity.
Qed.

Lemma esc_when_cmd_fails : forall p info ans t,
  p_has_cmd p = true ->
  cmd_error_at (a_cmd ans) (deadline_ms (cmd_timeout p)) = Some t ->
  In (t, AEsc TGroup) (plan p info ans).
Proof.
  intros p info ans t Hc He. unfold plan, plan_cmd. rewrite Hc.
  destruct (deadline_ms (cmd_timeout p) =? 0) eqn:HT0.
  - apply Z.eqb_eq in HT0. rewrite HT0 in He.
    assert (t = 0) by (apply cmd_error_at_bounds in He; lia). subst. left. reflexivity.
  - rewrite He. right. left. reflexivity.
Qed.

(* never earlier than the configured timeout *)
Lemma esc_not_before_timeout : forall p info ans t tgt,
  p_has_cmd p = false ->
  In (t, AEsc tgt) (plan p info ans) ->
  p_timeout p * 1000 <= t /\ 0 <= t /\ ended_before (a_proc ans) t = false.
Proof.
  intros p info ans t tgt Hc. unfold plan, plan_signal. rewrite Hc.
  destruct (p_timeout p =? 0) eqn:Hto; cbn [In].
  - intros [H|[]]. inversion H.
  - destruct (ended_before (a_proc ans) (deadline_ms (p_timeout p))) eqn:He; cbn [In].
    + intros [H|[]]. inversion H.
    + intros [H|[H|[]]]; inversion H; subst.
      split; [apply deadline_ge|]. split; [apply deadline_nonneg|exact He].
Qed.

(* no SIGKILL at all without a timeout (and without a command) *)
Lemma no_esc_without_timeout : forall p info ans t tgt,
  p_has_cmd p = false -> p_timeout p = 0 -> ~ In (t, AEsc tgt) (plan p info ans).
Proof.
  intros p info ans t tgt Hc Ht. unfold plan, plan_signal. rewrite Hc, Ht. cbn.
  intros [H|[]]. inversion H.
Qed.

(* no SIGKILL when the process ended in time *)
Lemma no_esc_when_ended : forall p info ans t tgt,
  p_has_cmd p = false ->
  ended_before (a_proc ans) (deadline_ms (p_timeout p)) = true -> ~ In (t, AEsc tgt) (plan p info ans).
Proof.
  intros p info ans t tgt Hc He. unfold plan, plan_signal. rewrite Hc, He.
  destruct (p_timeout p =? 0); cbn; intros [H|[]]; inversion H.
Qed.

(* no SIGKILL when the shutdown command succeeded in time *)
Lemma no_esc_when_cmd_ok : forall p info ans t tgt,
  p_has_cmd p = true -> 0 < deadline_ms (cmd_timeout p) ->
  cmd_error_at (a_cmd ans) (deadline_ms (cmd_timeout p)) = None -> ~ In (t, AEsc tgt) (plan p info ans).
Proof.
  intros p info ans t tgt Hc Hpos He. unfold plan, plan_cmd. rewrite Hc, He.
  destruct (deadline_ms (cmd_timeout p) =? 0) eqn:HT0.
  - apply Z.eqb_eq in HT0. lia.
  - cbn. intros [H|[]]. inversion H.
Qed.

(* at most one escalation, and nothing follows it *)
Lemma esc_at_most_once : forall p info ans,
  (length (filter is_esc (map snd (plan p info ans))) <= 1)%nat.
Proof. intros p info ans. plan_cases p ans; lia. Qed.

Lemma esc_is_last : forall p info ans t tgt,
  In (t, AEsc tgt) (plan p info ans) -> exists pre, plan p info ans = pre ++ [(t, AEsc tgt)].
Proof.
  intros p info ans t tgt. plan_cases p ans; intro H.
  - destruct H as [H|[]]. exists []. rewrite <- H. reflexivity.
  - destruct H as [H|[H|[]]]; inversion H; subst. eexists [_]. reflexivity.
  - destruct H as [H|[]]; inversion H.
  - destruct H as [H|[]]; inversion H.
  - destruct H as [H|[]]; inversion H.
  - destruct H as [H|[H|[]]]; inversion H; subst. eexists [_]. reflexivity.
Qed.

(* the configured signal goes out first, at the stop request, to the configured target *)
Lemma stop_is_first : forall p info ans,
  p_has_cmd p = false ->
  exists rest, plan p info ans = (0, AStop (target_of (p_parent_only p)) (p_signal p)) :: rest /\
               forallb (fun x => negb (is_stop (snd x))) rest = true.
Proof.
  intros p info ans Hc. unfold plan, plan_signal. rewrite Hc.
  destruct (p_timeout p =? 0); [eexists; split; reflexivity|].
  destruct (ended_before _ _); eexists; split; reflexivity.
Qed.

(* a shutdown command replaces the signal; it is run once, at the stop request, with the
   environment and the working directory of the process *)
Lemma cmd_replaces_signal : forall p info ans t tgt s,
  p_has_cmd p = true -> ~ In (t, AStop tgt s) (plan p info ans).
Proof.
  intros p info ans t tgt s Hc. unfold plan, plan_cmd. rewrite Hc.
  destruct (_ =? 0); cbn.
  - intros [H|[]]; inversion H.
  - destruct (cmd_error_at _ _); cbn; intros H; repeat (destruct H as [H|H]; try inversion H).
Qed.

Lemma run_env_dir : forall p info ans t e d to,
  In (t, ARun e d to) (plan p info ans) ->
  p_has_cmd p = true /\ t = 0 /\ e = pi_env info /\ d = pi_dir info /\ to = cmd_timeout p /\ 0 < to.
Proof.
  intros p info ans t e d to. plan_cases p ans; intro H;
    repeat (destruct H as [H|H]; try (inversion H; fail)); try contradiction.
  - inversion H; subst. repeat split; auto. apply Z.eqb_neq in HT0. unfold deadline_ms in HT0. lia.
  - inversion H; subst. repeat split; auto. apply Z.eqb_neq in HT0. unfold deadline_ms in HT0. lia.
Qed.

Lemma run_when_cmd : forall p info ans,
  p_has_cmd p = true -> 0 < cmd_timeout p ->
  exists rest, plan p info ans = (0, ARun (pi_env info) (pi_dir info) (cmd_timeout p)) :: rest /\
               forallb (fun x => negb (is_run (snd x))) rest = true.
Proof.
  intros p info ans Hc Hpos. unfold plan, plan_cmd. rewrite Hc.
  destruct (deadline_ms (cmd_timeout p) =? 0) eqn:HT0.
  - apply Z.eqb_eq in HT0. unfold deadline_ms in HT0. lia.
  - destruct (cmd_error_at _ _); eexists; split; reflexivity.
Qed.

(* the target *)
Lemma targets : forall p info ans t a tgt s,
  In (t, a) (plan p info ans) -> wire a = Some (tgt, s) ->
  tgt = (if p_has_cmd p then TGroup else target_of (p_parent_only p)).
Proof.
  intros p info ans t a tgt s. plan_cases p ans; intros H W;
    repeat (destruct H as [H|H]; try contradiction);
    inversion H; subst; cbn in W; inversion W; reflexivity.
Qed.

(* whatever is configured, only signals 1..31 reach the kernel *)
Lemma os_signal_in_range : forall (a : action) tgt s, os_wire a = Some (tgt, s) -> 1 <= s <= 31.
Proof.
  intros a tgt s. unfold os_wire. destruct (wire a) as [[t' s']|]; intro H; inversion H; subst.
  apply eff_signal_range.
Qed.

Lemma os_first_signal : forall p info ans,
  p_has_cmd p = false ->
  option_map os_wire (option_map snd (hd_error (plan p info ans))) =
  Some (Some (target_of (p_parent_only p), eff_signal (p_signal p))).
Proof.
  intros p info ans Hc. destruct (stop_is_first p info ans Hc) as [rest [-> _]]. reflexivity.
Qed.

(* times never decrease along the plan, and start at the request *)
Lemma plan_times_sorted : forall p info ans,
  (match a_cmd ans with CmdOk ms | CmdFail ms => 0 <= ms | CmdHang => True end) ->
  forall pre t1 a1 t2 a2 post, plan p info ans = pre ++ (t1, a1) :: (t2, a2) :: post -> 0 <= t1 <= t2.
Proof.
  intros p info ans Hms pre t1 a1 t2 a2 post. plan_cases p ans; intro H;
    destruct pre as [|x1 [|x2 [|x3 pre]]]; cbn in H; inversion H; subst; clear H.
  - pose proof (cmd_error_at_bounds _ _ _ (deadline_nonneg _) Herr). lia.
  - pose proof (deadline_nonneg (p_timeout p)). lia.
Qed.

End Plan.
