(* The monitor accepts what the model would produce: for every parameter combination and every answer
   of the environment, the fake-commander observation computed from the plan satisfies holds_C06_f.
   (Side condition: a shutdown command that succeeds does not finish within the tolerance before its
   deadline - there the monitor cannot know which side of the deadline the run fell on.) *)
From Coq Require Import List ZArith NArith Bool Lia.
From PC.StopPlan Require Import Model Proofs Check.
Import ListNotations.
Open Scope Z_scope.

Definition esc_time_of (pl : list (Z * act)) : option Z :=
  match filter (fun x => is_esc (snd x)) pl with (t, _) :: _ => Some t | [] => None end.

Definition obs_of_model (p : params) (i : info) (ans : answers) (slack : Z) : fcase :=
  let pl := plan p i ans in
  mkF p ans i
      (map (fun x => (snd (snd x), target_eqb (fst (snd x)) TParent, fst x)) (wires pl))
      (map (fun x => (fst (snd x), snd (snd x), fst x)) (runs pl))
      (match esc_time_of pl with
       | Some t => Some t
       | None => match a_proc ans with EndsAfter ms => Some ms | NeverEnds => None end
       end)
      0 slack.

Definition answers_wf (ans : answers) : Prop :=
  (match a_proc ans with EndsAfter ms => 0 <= ms | NeverEnds => True end) /\
  (match a_cmd ans with CmdOk ms | CmdFail ms => 0 <= ms | CmdHang => True end).

Definition cmd_clear (p : params) (ans : answers) (slack : Z) : Prop :=
  match a_cmd ans with
  | CmdOk ms => ms + slack < deadline_ms (cmd_timeout p) \/ deadline_ms (cmd_timeout p) <= ms
  | _ => True
  end.

Lemma target_eqb_parent : forall b, target_eqb (target_of b) TParent = b.
Proof. intros []; reflexivity. Qed.

Ltac bool_to_prop :=
  repeat match goal with
  | H : (_ <? _) = true |- _ => apply Z.ltb_lt in H
  | H : (_ <? _) = false |- _ => apply Z.ltb_ge in H
  | H : (_ <=? _) = true |- _ => apply Z.leb_le in H
  | H : (_ <=? _) = false |- _ => apply Z.leb_gt in H
  | H : (_ =? _) = true |- _ => apply Z.eqb_eq in H
  | H : (_ =? _) = false |- _ => apply Z.eqb_neq in H
  end.

Ltac split_bools :=
  repeat (rewrite andb_true_iff); repeat split;
  try (apply Z.leb_le); try (apply Z.eqb_eq); try (apply N.eqb_eq); try reflexivity.

Lemma model_satisfies_monitor : forall p i ans slack,
  0 <= slack -> answers_wf ans -> cmd_clear p ans slack ->
  holds_C06_f (obs_of_model p i ans slack) = true.
Proof.
  intros [sg tmo hc po] [e d] [pa ca] slack Hs [Hp Hc] Hclear.
  unfold holds_C06_f, obs_of_model, plan. cbn [f_params f_ans f_info f_stops f_runs f_end f_slack
    p_has_cmd p_timeout p_signal p_parent_only a_proc a_cmd pi_env pi_dir].
  cbn in Hp, Hc. unfold cmd_clear in Hclear. cbn [a_cmd] in Hclear.
  destruct hc.
  - (* shutdown command *)
    unfold plan_cmd, cmd_timeout, deadline_ms, DefaultShutdownTimeoutSec in *.
    cbn [p_timeout pi_env pi_dir a_cmd] in *.
    set (to := if tmo =? 0 then 10 else tmo) in *.
    replace (Z.max 0 (to * 1000) =? 0) with (negb (0 <? Z.max 0 (to * 1000)))
      by (destruct (0 <? Z.max 0 (to * 1000)) eqn:A; destruct (Z.max 0 (to * 1000) =? 0) eqn:B;
          bool_to_prop; cbn; try reflexivity; lia).
    destruct (0 <? Z.max 0 (to * 1000)) eqn:HT; cbn [negb].
    + destruct ca as [ms|ms|]; cbn [cmd_error_at].
      * destruct (ms <? Z.max 0 (to * 1000)) eqn:A; cbn [wires runs wire map fst snd];
          rewrite !N.eqb_refl; cbn [andb].
        -- destruct (ms + slack <? Z.max 0 (to * 1000)) eqn:B; [reflexivity|]. bool_to_prop. lia.
        -- destruct (ms + slack <? Z.max 0 (to * 1000)) eqn:B; [bool_to_prop; lia|].
           cbn. rewrite Z.leb_refl. cbn. apply Z.leb_le. lia.
      * cbn [wires runs wire map fst snd]. rewrite !N.eqb_refl. cbn. rewrite Z.leb_refl. cbn. apply Z.leb_le. lia.
      * cbn [wires runs wire map fst snd]. rewrite !N.eqb_refl. cbn. rewrite Z.leb_refl. cbn. apply Z.leb_le. lia.
    + bool_to_prop. assert (HT0 : Z.max 0 (to * 1000) = 0) by lia. rewrite HT0.
      cbn [wires runs wire map fst snd].
      destruct ca as [ms|ms|]; cbn.
      * destruct (ms + slack <? 0) eqn:B; [bool_to_prop; lia|]. cbn. apply Z.leb_le. lia.
      * replace (Z.min (Z.max 0 ms) 0) with 0 by lia. cbn. apply Z.leb_le. lia.
      * apply Z.leb_le. lia.
  - (* signal path *)
    unfold plan_signal. cbn [p_timeout p_signal p_parent_only a_proc].
    destruct (tmo =? 0) eqn:Hto; cbn [wires runs wire map fst snd negb andb].
    + rewrite Z.eqb_refl, target_eqb_parent, eqb_reflx. cbn. rewrite ?andb_true_r. apply Z.leb_le. exact Hs.
    + unfold deadline_ms.
      destruct (ended_before pa (Z.max 0 (tmo * 1000))) eqn:He;
        cbn [wires runs wire map fst snd esc_time_of filter is_esc].
      * rewrite Z.eqb_refl, target_eqb_parent, eqb_reflx. cbn [andb].
        replace (0 <=? slack) with true by (symmetry; apply Z.leb_le; exact Hs). cbn [andb].
        destruct pa as [ms|]; cbn in He; [|discriminate]. bool_to_prop.
        destruct (Z.max 0 (tmo * 1000) + slack / 2 <? ms) eqn:A; [|reflexivity].
        bool_to_prop. assert (0 <= slack / 2) by (apply Z.div_pos; lia). lia.
      * rewrite Z.eqb_refl, !target_eqb_parent, !eqb_reflx. cbn [andb].
        replace (0 <=? slack) with true by (symmetry; apply Z.leb_le; exact Hs). cbn [andb SIGKILL].
        assert (Hm : 0 <= slack / 2) by (apply Z.div_pos; lia).
        assert (Hse : (match pa with EndsAfter ms => ms + slack / 2 <? Z.max 0 (tmo * 1000) | NeverEnds => false end) = false).
        { destruct pa as [ms|]; [|reflexivity]. cbn in He. bool_to_prop. apply Z.ltb_ge. lia. }
        rewrite Hse. cbn [negb andb]. rewrite Z.eqb_refl. cbn [andb].
        repeat (rewrite andb_true_iff). repeat split; apply Z.leb_le; lia.
Qed.
