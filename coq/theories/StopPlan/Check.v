(* Correspondence checkers and property monitors for C06, evaluated by vm_compute on what the Go
   harness (harness/cmd/c06) observed.

   Two kinds of observation:
   - fcase: the instance is a scripted fake command (harness/fakecmd); every Commander.Stop(sig,
     parentOnly) call is recorded with its time; the shutdown command is a real shell command.
   - rcase: real `sh` process trees (no fake commander); survivors by /proc scan, signals recorded by
     traps, death times by polling. *)
From Coq Require Import List ZArith NArith Bool.
From PC.Base Require Import Util.
From PC.StopPlan Require Import Model.
From PC.OsTree Require Import Model.
Import ListNotations.
Open Scope Z_scope.

Definition info := procinfo N N.
Definition act := action N N.

Record fcase := mkF {
  f_params : params;
  f_ans    : answers;                 (* scripted reaction of the fake command / of the shutdown command *)
  f_info   : info;                    (* hash of the environment / directory the instance was launched with *)
  f_stops  : list (Z * bool * Z);     (* observed Stop calls: (sig, parentOnly, ms after the request) *)
  f_runs   : list (N * N * Z);        (* observed shutdown-command runs: (env hash, dir hash, ms) *)
  f_end    : option Z;                (* when the fake command ended (ms); None: only at clean-up *)
  f_return : Z;                       (* when StopProcess / ShutDownProject returned (ms) *)
  f_slack  : Z                        (* scheduling tolerance (ms) granted by the harness *)
}.

Definition within (lo x slack : Z) : bool := (lo <=? x) && (x <=? lo + slack).

(* --- agreement with the model ------------------------------------------------------------------ *)
Definition wire_eqb (w : target * Z) (o : Z * bool * Z) : bool :=
  let '(s, po, _) := o in target_eqb (fst w) (target_of po) && (snd w =? s).

Fixpoint wires (pl : list (Z * act)) : list (Z * (target * Z)) :=
  match pl with
  | [] => []
  | (t, a) :: r => match wire a with Some w => (t, w) :: wires r | None => wires r end
  end.

Fixpoint runs (pl : list (Z * act)) : list (Z * (N * N)) :=
  match pl with
  | [] => []
  | (t, ARun e d _) :: r => (t, (e, d)) :: runs r
  | _ :: r => runs r
  end.

Fixpoint all2 {A B} (f : A -> B -> bool) (l1 : list A) (l2 : list B) : bool :=
  match l1, l2 with
  | [], [] => true
  | x :: r1, y :: r2 => f x y && all2 f r1 r2
  | _, _ => false
  end.

Definition model_ok_f (c : fcase) : bool :=
  let pl := plan (f_params c) (f_info c) (f_ans c) in
  all2 (fun m o => wire_eqb (snd m) o && within (fst m) (snd o) (f_slack c)) (wires pl) (f_stops c) &&
  all2 (fun m o => let '(e, d, t) := o in N.eqb (fst (snd m)) e && N.eqb (snd (snd m)) d &&
                                         within (fst m) t (f_slack c)) (runs pl) (f_runs c).

(* --- property monitor (written from the property text, not from the plan) ---------------------- *)
Definition spec_signal (s : Z) : Z := if (1 <=? s) && (s <=? 31) then s else 15.

Definition kills_of (stops : list (Z * bool * Z)) : list (Z * bool * Z) :=
  match stops with [] => [] | _ :: r => r end.

Definition holds_C06_f (c : fcase) : bool :=
  let p := f_params c in
  let to_ms := p_timeout p * 1000 in
  if p_has_cmd p then
    (* the command runs once with the environment and directory of the process (if its deadline lies
       in the future at all), the configured signal is not sent, SIGKILL (to the group) follows iff
       the command failed or overran its deadline - and not before that *)
    let T := Z.max 0 ((if p_timeout p =? 0 then 10 else p_timeout p) * 1000) in
    let bad_at := match a_cmd (f_ans c) with
                  | CmdOk ms => if ms + f_slack c <? T then None else Some T
                  | CmdFail ms => Some (Z.min (Z.max 0 ms) T)
                  | CmdHang => Some T end in
    (if 0 <? T
     then match f_runs c with
          | [(e, d, _)] => N.eqb e (pi_env (f_info c)) && N.eqb d (pi_dir (f_info c))
          | _ => false end
     else match f_runs c with [] => true | _ => false end) &&
    match bad_at, f_stops c with
    | None, [] => true
    | Some t, [(s, po, tk)] => (s =? 9) && negb po && (t <=? tk) && (tk <=? t + f_slack c)
    | _, _ => false
    end
  else
    match f_runs c with [] => true | _ => false end &&
    match f_stops c with
    | [] => false
    | (s, po, t0) :: ks =>
        (spec_signal s =? spec_signal (p_signal p)) && Bool.eqb po (p_parent_only p) &&
        (t0 <=? f_slack c) &&
        (* scripted reactions within half the tolerance of the deadline are left undecided *)
        let T := Z.max 0 to_ms in
        let margin := f_slack c / 2 in
        let surely_ended := match a_proc (f_ans c) with
                            | EndsAfter ms => ms + margin <? T | NeverEnds => false end in
        let surely_alive := match a_proc (f_ans c) with
                            | EndsAfter ms => T + margin <? ms | NeverEnds => true end in
        let must_kill := negb (p_timeout p =? 0) && surely_alive in
        let may_kill := negb (p_timeout p =? 0) && negb surely_ended in
        match ks with
        | [] => negb must_kill
        | [(s9, po9, tk)] =>
            may_kill && (s9 =? 9) && Bool.eqb po9 (p_parent_only p) &&
            (to_ms <=? tk) && (tk <=? Z.max 0 to_ms + f_slack c) &&
            (* the instance had not ended (long) before the SIGKILL *)
            match f_end c with Some te => tk <=? te + f_slack c | None => true end
        | _ => false
        end
    end.

(* ================================================================================ real trees *)
Record rcase := mkR {
  r_params    : params;
  r_cb        : cmd_behaviour;
  r_info      : info;                  (* environment / directory hash written by the launched pid itself *)
  r_tree      : tree;
  r_recorders : list N;                (* members that write the signal they catch to a file and exit *)
  r_survivors : list N;                (* sorted member ids found alive by the /proc scan afterwards *)
  r_sigs      : list (N * list Z);     (* per recorder: what it wrote *)
  r_deaths    : list (N * Z);          (* member id, ms after the request at which it was seen dead *)
  r_runs      : list (N * N * Z);
  r_return    : Z;
  r_slack     : Z
}.

Definition lookupN {A} (k : N) (l : list (N * A)) : option A :=
  match find (fun x => N.eqb (fst x) k) l with Some x => Some (snd x) | None => None end.

Definition alive_in (tr : tree) (id : N) : bool :=
  existsb (fun m => N.eqb (m_id m) id && m_alive m) tr.

(* model: when does member id die (None = survives) *)
Definition first_tree (c : rcase) : tree :=
  let p := r_params c in
  if p_has_cmd p
  then match cb_effect (r_cb c) with Some (t, s) => kill t (eff_signal s) (r_tree c) | None => r_tree c end
  else kill (target_of (p_parent_only p)) (eff_signal (p_signal p)) (r_tree c).

Definition esc_time (c : rcase) : option Z :=
  match filter (fun x => is_esc (snd x)) (plan (r_params c) (r_info c) (answers_of (r_params c) (r_cb c) (r_tree c))) with
  | (t, _) :: _ => Some t
  | [] => None
  end.

Definition model_death (c : rcase) (id : N) : option Z :=
  let final := run_stop (r_params c) (r_info c) (r_cb c) (r_tree c) in
  if alive_in final id then None
  else if alive_in (first_tree c) id then esc_time c else Some 0.

Definition death_ok (c : rcase) (m : member) : bool :=
  match model_death c (m_id m), lookupN (m_id m) (r_deaths c) with
  | None, None => true
  | Some t, Some o => within t o (r_slack c)
  | _, _ => false
  end.

(* a recorder that dies of the first signal wrote exactly that signal (SIGKILL cannot be caught) *)
Definition first_signal (c : rcase) : option (target * Z) :=
  let p := r_params c in
  if p_has_cmd p
  then match cb_effect (r_cb c) with Some (t, s) => Some (t, eff_signal s) | None => None end
  else Some (target_of (p_parent_only p), eff_signal (p_signal p)).

Definition sig_ok (c : rcase) (m : member) : bool :=
  if existsb (N.eqb (m_id m)) (r_recorders c) then
    let expected := match first_signal c with
                    | Some (t, s) => if addressed t m && dies_on s m && negb (s =? 9) then [s] else []
                    | None => [] end in
    match lookupN (m_id m) (r_sigs c) with
    | Some l => list_eqb Z.eqb l expected
    | None => match expected with [] => true | _ => false end
    end
  else true.

Definition model_ok_r (c : rcase) : bool :=
  let final := run_stop (r_params c) (r_info c) (r_cb c) (r_tree c) in
  list_eqb N.eqb (survivors final) (r_survivors c) &&
  forallb (death_ok c) (r_tree c) &&
  forallb (sig_ok c) (r_tree c) &&
  all2 (fun m o => let '(e, d, t) := o in N.eqb (fst (snd m)) e && N.eqb (snd (snd m)) d &&
                                         within (fst m) t (r_slack c))
       (runs (plan (r_params c) (r_info c) (answers_of (r_params c) (r_cb c) (r_tree c)))) (r_runs c).

(* monitor: nothing is left alive; the launched pid got the configured (defaulted) signal; a member
   that cannot die of that signal is not dead before the timeout; the command saw env and dir *)
Definition holds_C06_r (c : rcase) : bool :=
  let p := r_params c in
  let s := spec_signal (p_signal p) in
  match r_survivors c with [] => true | _ => false end &&
  (if p_has_cmd p then
     match r_runs c with
     | [(e, d, _)] => N.eqb e (pi_env (r_info c)) && N.eqb d (pi_dir (r_info c))
     | _ => false end
   else
     match r_runs c with [] => true | _ => false end &&
     forallb (fun m =>
       (* recorded signal of the launched pid *)
       (if m_leader m && existsb (N.eqb (m_id m)) (r_recorders c) && dies_on s m && negb (s =? 9)
        then match lookupN (m_id m) (r_sigs c) with Some [x] => x =? s | _ => false end else true) &&
       (* never SIGKILL before the timeout: a member immune to s is alive until then *)
       (if negb (dies_on s m)
        then match lookupN (m_id m) (r_deaths c) with
             | Some t => negb (p_timeout p =? 0) && (p_timeout p * 1000 <=? t)
             | None => true end
        else true)) (r_tree c)).

Inductive ocase := OF (c : fcase) | OR (c : rcase).
Definition model_ok (c : ocase) : bool := match c with OF c => model_ok_f c | OR c => model_ok_r c end.
Definition holds_C06 (c : ocase) : bool := match c with OF c => holds_C06_f c | OR c => holds_C06_r c end.
Definition bad_model (cs : list ocase) : list nat := failing model_ok cs.
Definition bad_monitor (cs : list ocase) : list nat := failing holds_C06 cs.
