(* The vocabulary of the C16 MONITOR (Load/Check.v: the standard library's decimal printer, its own
   variable precedence, its own replica-name formula, its own substitution) coincides with the
   vocabulary of the MODEL (Load/Model.v: hand-rolled %d, CalculateReplicaName, env, render) on ALL
   inputs.  The two were written independently so that the correspondence run can play one against
   the other; these lemmas show that they cannot disagree with each other, i.e. a case flagged by the
   monitor on a templated field is a case on which the implementation left the model. *)
From Coq Require Import List ZArith Bool NArith Lia Arith Decimal.
From PC.Base Require Import Util.
From PC.Load Require Import Model Proofs Check.
Import ListNotations.

(* little-endian digit list of a Decimal.uint read from its head *)
Fixpoint ul (u : Decimal.uint) : list N :=
  match u with
  | Nil => []
  | D0 r => 0%N :: ul r | D1 r => 1%N :: ul r | D2 r => 2%N :: ul r | D3 r => 3%N :: ul r
  | D4 r => 4%N :: ul r | D5 r => 5%N :: ul r | D6 r => 6%N :: ul r | D7 r => 7%N :: ul r
  | D8 r => 8%N :: ul r | D9 r => 9%N :: ul r
  end.

Lemma ul_succ u : ul (Decimal.Little.succ u) = dsucc (ul u).
Proof. induction u as [|r IH|r IH|r IH|r IH|r IH|r IH|r IH|r IH|r IH|r IH]; cbn; try reflexivity. now rewrite IH. Qed.

Lemma iter_comm {X} (f : X -> X) n x : Nat.iter n f (f x) = f (Nat.iter n f x).
Proof.
  induction n as [|n IH]; [reflexivity|].
  change (f (Nat.iter n f (f x)) = f (f (Nat.iter n f x))). now rewrite IH.
Qed.

Lemma ul_to_little n : forall acc, ul (Nat.to_little_uint n acc) = Nat.iter n dsucc (ul acc).
Proof.
  induction n as [|n IH]; intros acc; cbn [Nat.to_little_uint]; [reflexivity|].
  rewrite IH, ul_succ, iter_comm. reflexivity.
Qed.

Lemma uint_str_revapp u : forall v,
  uint_str (Decimal.revapp u v) = map (fun d => (48 + d)%N) (List.rev (ul u)) ++ uint_str v.
Proof.
  induction u as [|r IH|r IH|r IH|r IH|r IH|r IH|r IH|r IH|r IH|r IH]; intros v;
    cbn [Decimal.revapp ul List.rev]; [reflexivity|..];
    rewrite IH, map_app, <- app_assoc; reflexivity.
Qed.

(* the model's %d is the standard library's decimal printer, for every natural number *)
Theorem sdec_dec n : sdec n = dec n.
Proof.
  unfold sdec, Nat.to_uint, Decimal.rev. rewrite uint_str_revapp, ul_to_little.
  cbn. rewrite app_nil_r. reflexivity.
Qed.

Lemma length_dec n : length (dec n) = width n.
Proof. unfold dec, ascii_digits, width. now rewrite map_length, rev_length. Qed.

Lemma repeat_snoc {X} (x : X) k : repeat x k ++ [x] = x :: repeat x k.
Proof. induction k as [|k IH]; cbn; [reflexivity|now rewrite IH]. Qed.
Lemma rev_repeat' {X} (x : X) k : List.rev (repeat x k) = repeat x k.
Proof. induction k as [|k IH]; cbn; [reflexivity|now rewrite IH, repeat_snoc]. Qed.
Lemma map_repeat' {X Y} (f : X -> Y) x k : map f (repeat x k) = repeat (f x) k.
Proof. induction k as [|k IH]; cbn; [reflexivity|now rewrite IH]. Qed.

(* the monitor's replica name is CalculateReplicaName of the model, for all names and numbers *)
Theorem spec_name_rname nm reps i : spec_name nm reps i = rname nm reps i.
Proof.
  unfold spec_name, rname. destruct (Nat.leb reps 1); [reflexivity|].
  f_equal. f_equal. unfold padded, ascii_digits.
  rewrite rev_app_distr, map_app, !sdec_dec, !length_dec. unfold width at 2.
  f_equal. rewrite rev_repeat', map_repeat'. reflexivity.
Qed.

(* the monitor's precedence (replica number, then process vars, then project vars) is a lookup in the
   model's environment *)
Theorem spec_var_env G P i n : spec_var G P i n = subst (env G P i) (SVar n).
Proof.
  unfold spec_var. cbn [subst]. rewrite env_lookup, str_eqb_sym, sdec_dec.
  destruct (str_eqb pc_replica_num n); [reflexivity|].
  destruct (lookup n P); [reflexivity|]. destruct (lookup n G); reflexivity.
Qed.

Theorem spec_render_env G P i t : spec_render G P i t = render_segs (env G P i) t.
Proof.
  unfold spec_render, render_segs. f_equal. apply map_ext. intros [l|n]; [reflexivity|apply spec_var_env].
Qed.

(* hence: on a template text of the modelled subset the monitor demands exactly what the model
   computes *)
Theorem spec_render_is_model_render G P i t s :
  s <> [] -> parse s = Some t -> spec_render G P i t = render (env G P i) s.
Proof. intros Hs Hp. rewrite spec_render_env. symmetry. now apply render_subst. Qed.
