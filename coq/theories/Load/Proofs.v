(* Proofs about the loader model (property C16).  Everything is by induction over the lists that
   represent maps / iteration orders / replica numbers; no bound on any size. *)
From Coq Require Import List ZArith Bool NArith Lia Arith Permutation.
From PC.Base Require Import Util.
From PC.Load Require Import Model.
Import ListNotations.

(* ---------- strings ---------------------------------------------------------------------------- *)
Lemma str_eqb_eq a c : str_eqb a c = true <-> a = c.
Proof. apply list_eqb_eq. intros x y. apply N.eqb_eq. Qed.

Lemma str_eqb_refl a : str_eqb a a = true.
Proof. now apply str_eqb_eq. Qed.

Lemma str_eqb_neq a c : str_eqb a c = false <-> a <> c.
Proof.
  split.
  - intros H E. apply str_eqb_eq in E. congruence.
  - intros H. destruct (str_eqb a c) eqn:E; [apply str_eqb_eq in E; contradiction|reflexivity].
Qed.

Lemma str_eqb_sym a c : str_eqb a c = str_eqb c a.
Proof.
  destruct (str_eqb a c) eqn:E1, (str_eqb c a) eqn:E2; try reflexivity.
  - apply str_eqb_eq in E1. subst. now rewrite str_eqb_refl in E2.
  - apply str_eqb_eq in E2. subst. now rewrite str_eqb_refl in E1.
Qed.

Ltac seq_case a c := let E := fresh "E" in
  destruct (str_eqb a c) eqn:E; [apply str_eqb_eq in E|apply str_eqb_neq in E].

(* ---------- association lists ------------------------------------------------------------------ *)
Section AssocFacts.
Context {V : Type}.
Implicit Types (m : list (str * V)) (k : str) (v : V).

Definition keys m : list str := map fst m.
Definition wf m : Prop := NoDup (keys m).

Lemma lookup_upsert k k' v m :
  lookup k (upsert k' v m) = if str_eqb k' k then Some v else lookup k m.
Proof.
  induction m as [|[k0 v0] r IH]; cbn.
  - seq_case k' k; reflexivity.
  - seq_case k0 k'; cbn.
    + subst k0. seq_case k' k; reflexivity.
    + seq_case k0 k.
      * subst k0. seq_case k' k; [congruence|reflexivity].
      * exact IH.
Qed.

Lemma lookup_remove k k' m :
  lookup k (remove k' m) = if str_eqb k' k then None else lookup k m.
Proof.
  induction m as [|[k0 v0] r IH]; cbn.
  - now destruct (str_eqb k' k).
  - seq_case k0 k'.
    + subst k0. rewrite IH. seq_case k' k; reflexivity.
    + cbn. seq_case k0 k.
      * subst k0. seq_case k' k; [congruence|reflexivity].
      * exact IH.
Qed.

Lemma lookup_none k m : lookup k m = None <-> ~ In k (keys m).
Proof.
  induction m as [|[k0 v0] r IH]; cbn.
  - tauto.
  - seq_case k0 k.
    + subst. split; [discriminate|tauto].
    + rewrite IH. split; [intros H [H1|H1]; tauto|tauto].
Qed.

Lemma lookup_some_in k v m : lookup k m = Some v -> In (k, v) m.
Proof.
  induction m as [|[k0 v0] r IH]; cbn; [discriminate|].
  seq_case k0 k.
  - intros H. inversion H. subst. now left.
  - intros H. right. now apply IH.
Qed.

Lemma in_lookup k v m : wf m -> In (k, v) m -> lookup k m = Some v.
Proof.
  unfold wf, keys. induction m as [|[k0 v0] r IH]; cbn; [intros _ []|].
  intros Hnd [H|H].
  - inversion H. subst. now rewrite str_eqb_refl.
  - inversion Hnd as [|? ? Hni Hnd']. subst. seq_case k0 k.
    + subst. exfalso. apply Hni. change k with (fst (k, v)). now apply in_map.
    + now apply IH.
Qed.

Lemma keys_upsert k k' v m : In k (keys (upsert k' v m)) <-> k = k' \/ In k (keys m).
Proof.
  induction m as [|[k0 v0] r IH]; cbn.
  - intuition congruence.
  - seq_case k0 k'; cbn.
    + subst. intuition congruence.
    + rewrite IH. intuition congruence.
Qed.

Lemma wf_upsert k v m : wf m -> wf (upsert k v m).
Proof.
  unfold wf. induction m as [|[k0 v0] r IH]; cbn; intros H.
  - constructor; [tauto|constructor].
  - inversion H as [|? ? Hni Hnd]. subst. seq_case k0 k; cbn.
    + now constructor.
    + constructor; [|now apply IH].
      intros Hin. apply (keys_upsert k0 k v r) in Hin. destruct Hin; [congruence|contradiction].
Qed.

Lemma keys_remove k k' m : In k (keys (remove k' m)) -> In k (keys m).
Proof.
  induction m as [|[k0 v0] r IH]; cbn; [tauto|].
  destruct (str_eqb k0 k'); cbn; tauto.
Qed.

Lemma wf_remove k m : wf m -> wf (remove k m).
Proof.
  unfold wf. induction m as [|[k0 v0] r IH]; cbn; intros H; [constructor|].
  inversion H as [|? ? Hni Hnd]. subst. destruct (str_eqb k0 k); cbn; [now apply IH|].
  constructor; [|now apply IH]. intros Hin. apply Hni. eapply keys_remove, Hin.
Qed.

Lemma lookup_perm k m m' : wf m -> Permutation m' m -> lookup k m' = lookup k m.
Proof.
  intros Hwf Hp.
  assert (Hwf' : wf m').
  { unfold wf, keys in *. eapply Permutation_NoDup; [|exact Hwf]. apply Permutation_map, Permutation_sym, Hp. }
  destruct (lookup k m) as [v|] eqn:E.
  - apply in_lookup; [exact Hwf'|]. eapply Permutation_in; [apply Permutation_sym, Hp|]. now apply lookup_some_in.
  - apply lookup_none. apply lookup_none in E. intros Hin. apply E.
    unfold keys in *. eapply Permutation_in; [apply Permutation_map, Hp|exact Hin].
Qed.

Lemma wf_perm m m' : wf m -> Permutation m' m -> wf m'.
Proof.
  intros Hwf Hp. unfold wf, keys in *. eapply Permutation_NoDup; [|exact Hwf].
  apply Permutation_map, Permutation_sym, Hp.
Qed.

(* a loop that writes some entries: for kv in l { if !skip kv { acc[k] = h k v } } *)
Lemma fold_cond_lookup (skip : str * V -> bool) (h : str -> V -> V) (l : list (str * V)) :
  forall acc k, wf l ->
  lookup k (fold_left (fun acc kv => if skip kv then acc else upsert (fst kv) (h (fst kv) (snd kv)) acc) l acc) =
  match lookup k l with
  | Some v => if skip (k, v) then lookup k acc else Some (h k v)
  | None => lookup k acc
  end.
Proof.
  unfold wf, keys. induction l as [|[k0 v0] r IH]; intros acc k Hnd; cbn; [reflexivity|].
  inversion Hnd as [|? ? Hni Hnd']. subst. rewrite IH by exact Hnd'. seq_case k0 k.
  - subst k0. assert (Hn : lookup k r = None) by now apply lookup_none.
    rewrite Hn. destruct (skip (k, v0)); [reflexivity|]. cbn. now rewrite lookup_upsert, str_eqb_refl.
  - destruct (lookup k r) as [v|]; [destruct (skip (k, v))|]; try reflexivity;
      (destruct (skip (k0, v0)); [reflexivity|]; cbn; rewrite lookup_upsert;
       destruct (str_eqb k0 k) eqn:E2; [apply str_eqb_eq in E2; congruence|reflexivity]).
Qed.

Lemma fold_cond_wf (skip : str * V -> bool) (g : str * V -> str) (h : str * V -> V) (l : list (str * V)) :
  forall acc, wf acc ->
  wf (fold_left (fun acc kv => if skip kv then acc else upsert (g kv) (h kv) acc) l acc).
Proof.
  induction l as [|kv r IH]; intros acc H; cbn; [exact H|].
  apply IH. destruct (skip kv); [exact H|now apply wf_upsert].
Qed.

Lemma fold_remove_lookup (ks : list str) : forall (acc : list (str * V)) k,
  lookup k (fold_left (fun acc k' => remove k' acc) ks acc) =
  if existsb (fun k' => str_eqb k' k) ks then None else lookup k acc.
Proof.
  induction ks as [|k0 r IH]; intros acc k; cbn; [reflexivity|].
  rewrite IH, lookup_remove. destruct (str_eqb k0 k); cbn; [now destruct (existsb _ r)|reflexivity].
Qed.

Lemma fold_remove_wf (ks : list str) : forall (acc : list (str * V)), wf acc -> wf (fold_left (fun acc k' => remove k' acc) ks acc).
Proof.
  induction ks as [|k0 r IH]; intros acc H; cbn; [exact H|]. apply IH. now apply wf_remove.
Qed.

End AssocFacts.

Lemma opt_ext {A} (x y : option A) : (forall r, x = Some r <-> y = Some r) -> x = y.
Proof.
  intros H. destruct x as [a|], y as [c|]; try reflexivity.
  - destruct (H a) as [H1 _]. now rewrite H1.
  - destruct (H a) as [H1 _]. now specialize (H1 eq_refl).
  - destruct (H c) as [_ H1]. now specialize (H1 eq_refl).
Qed.

(* ---------- decimal digits and replica names ------------------------------------------------- *)
Fixpoint dval (l : list N) : N :=
  match l with [] => 0%N | d :: r => (d + 10 * dval r)%N end.

Lemma dval_dsucc l : dval (dsucc l) = (dval l + 1)%N.
Proof.
  induction l as [|d r IH]; cbn [dsucc dval]; [reflexivity|].
  destruct (N.eqb_spec d 9); cbn [dval]; [rewrite IH|]; lia.
Qed.

Lemma dval_ddigits n : dval (ddigits n) = N.of_nat n.
Proof.
  unfold ddigits. induction n as [|n IH]; [reflexivity|].
  cbn [Nat.iter nat_rect]. change (nat_rect _ _ _ n) with (Nat.iter n dsucc [0%N]).
  rewrite dval_dsucc, IH. lia.
Qed.

Lemma dval_app_zeros l k : dval (l ++ repeat 0%N k) = dval l.
Proof.
  induction l as [|d r IH]; cbn [app dval].
  - induction k as [|k IHk]; cbn [repeat dval]; [reflexivity|]. rewrite IHk. reflexivity.
  - now rewrite IH.
Qed.

Definition digit_le9 (l : list N) : Prop := Forall (fun d => (d <= 9)%N) l.

Lemma dsucc_le9 l : digit_le9 l -> digit_le9 (dsucc l).
Proof.
  unfold digit_le9. induction l as [|d r IH]; intros H; cbn [dsucc].
  - constructor; [lia|constructor].
  - inversion H as [|? ? Hd Hr]. subst. destruct (N.eqb_spec d 9).
    + constructor; [lia|now apply IH].
    + constructor; [lia|exact Hr].
Qed.

Lemma ddigits_le9 n : digit_le9 (ddigits n).
Proof.
  unfold ddigits. induction n as [|n IH]; cbn [Nat.iter nat_rect].
  - constructor; [lia|constructor].
  - apply dsucc_le9. exact IH.
Qed.

Lemma map_inj {A B} (f : A -> B) : (forall x y, f x = f y -> x = y) ->
  forall a c : list A, map f a = map f c -> a = c.
Proof.
  intros Hf. induction a as [|x a IH]; intros [|y c] E; cbn [map] in E; try discriminate; [reflexivity|].
  assert (E1 : f x = f y) by congruence. assert (E2 : map f a = map f c) by congruence.
  f_equal; [now apply Hf|now apply IH].
Qed.

Lemma ascii_digits_inj l1 l2 : ascii_digits l1 = ascii_digits l2 -> l1 = l2.
Proof.
  unfold ascii_digits. intros H. apply map_inj in H; [|intros x y E; lia].
  rewrite <- (rev_involutive l1), <- (rev_involutive l2). now f_equal.
Qed.

Lemma padded_inj w w' i j : padded w i = padded w' j -> i = j.
Proof.
  unfold padded. intros H. apply ascii_digits_inj in H.
  apply (f_equal dval) in H. rewrite !dval_app_zeros, !dval_ddigits in H. lia.
Qed.

Lemma padded_no_hyphen w i : ~ In hyphen (padded w i).
Proof.
  unfold padded, ascii_digits. intros H. apply in_map_iff in H. destruct H as [d [Hd Hin]].
  apply in_rev in Hin. apply in_app_or in Hin. unfold hyphen in Hd.
  destruct Hin as [Hin|Hin].
  - pose proof (ddigits_le9 i) as Hle. unfold digit_le9 in Hle. rewrite Forall_forall in Hle.
    specialize (Hle d Hin). lia.
  - apply repeat_spec in Hin. lia.
Qed.

Lemma split_last (h : N) : forall a a' d d' : str,
  ~ In h d -> ~ In h d' -> a ++ h :: d = a' ++ h :: d' -> a = a' /\ d = d'.
Proof.
  induction a as [|x a IH]; intros [|y a'] d d' Hd Hd' E; cbn in E.
  - inversion E. auto.
  - inversion E. subst. exfalso. apply Hd. apply in_or_app. right. now left.
  - inversion E. subst. exfalso. apply Hd'. apply in_or_app. right. now left.
  - inversion E. subst. destruct (IH a' d d' Hd Hd' H1) as [-> ->]. auto.
Qed.

(* replica names of processes with several replicas determine the process name and the number *)
Lemma rname_inj nm nm' reps reps' i j :
  2 <= reps -> 2 <= reps' -> rname nm reps i = rname nm' reps' j -> nm = nm' /\ i = j.
Proof.
  unfold rname. intros H1 H2.
  destruct (Nat.leb_spec reps 1); [lia|]. destruct (Nat.leb_spec reps' 1); [lia|].
  intros E. apply split_last in E; try apply padded_no_hyphen.
  destruct E as [-> E]. split; [reflexivity|]. eapply padded_inj, E.
Qed.

Lemma rname_single nm i : rname nm 1 i = nm.
Proof. reflexivity. Qed.

(* ---------- iteration orders ------------------------------------------------------------------- *)
Definition good_order (o : order) : Prop := forall m, Permutation (o m) m.
Definition good_orders (os : orders) : Prop :=
  good_order (o_dflt os) /\ good_order (o_clone os) /\ good_order (o_wd os) /\
  good_order (o_render os) /\ good_order (o_exec os).

Lemma good_id : good_orders id_orders.
Proof. repeat split; intros m; cbn; apply Permutation_refl. Qed.
Lemma good_rev : good_orders rev_orders.
Proof. repeat split; intros m; cbn; apply Permutation_sym, Permutation_rev. Qed.

Definition map_equiv (m m' : pmap) : Prop := forall k, lookup k m = lookup k m'.

(* for k, v := range m { m[k] = f k v }  is a pointwise update, whatever the order *)
Lemma range_update_lookup o f m k :
  good_order o -> wf m -> lookup k (range_update o f m) = option_map (f k) (lookup k m).
Proof.
  intros Ho Hwf. unfold range_update.
  rewrite (fold_cond_lookup (fun _ => false) f (o m) m k) by (eapply wf_perm; [exact Hwf|apply Ho]).
  rewrite (lookup_perm k m (o m) Hwf (Ho m)). now destruct (lookup k m).
Qed.

Lemma range_update_wf o f m : wf m -> wf (range_update o f m).
Proof.
  intros H. unfold range_update.
  exact (fold_cond_wf (fun _ => false) fst (fun kv => f (fst kv) (snd kv)) (o m) m H).
Qed.

(* ---------- cloneReplicas ---------------------------------------------------------------------- *)
(* what holds of the map after assignDefaultProcessValues *)
Definition normal (m : pmap) : Prop :=
  forall k p, lookup k m = Some p -> name p = k /\ (1 <= replicas p)%Z.

Definition clone_rel (m : pmap) (k : str) (r : proc) : Prop :=
  (exists p i, lookup (name p) m = Some p /\ multi p = true /\ i < nreps p /\
               k = rname (name p) (nreps p) i /\ r = mkrep p i)
  \/ ((forall p i, lookup (name p) m = Some p -> multi p = true -> i < nreps p -> k <> rname (name p) (nreps p) i)
      /\ exists p, lookup k m = Some p /\ multi p = false /\ r = mkrep p 0).

Lemma multi_nreps p : multi p = true -> 2 <= nreps p.
Proof. unfold multi, nreps. intros H. apply Z.ltb_lt in H. lia. Qed.

Lemma single_nreps p : multi p = false -> (1 <= replicas p)%Z -> nreps p = 1.
Proof. unfold multi, nreps. intros H. apply Z.ltb_ge in H. lia. Qed.

Definition adds (l : pmap) : list (str * proc) :=
  flat_map (fun kv => map (fun i => (rname (name (snd kv)) (nreps (snd kv)) i, mkrep (snd kv) i))
                          (seq 0 (nreps (snd kv)))) l.

Lemma adds_in l k r :
  In (k, r) (adds l) <-> exists n p i, In (n, p) l /\ i < nreps p /\ k = rname (name p) (nreps p) i /\ r = mkrep p i.
Proof.
  unfold adds. rewrite in_flat_map. split.
  - intros [[n p] [Hin H]]. cbn in H. apply in_map_iff in H. destruct H as [i [E Hi]].
    apply in_seq in Hi. inversion E. exists n, p, i. repeat split; auto; lia.
  - intros [n [p [i [Hin [Hi [-> ->]]]]]]. exists (n, p). split; [exact Hin|]. cbn.
    apply in_map_iff. exists i. split; [reflexivity|]. apply in_seq. lia.
Qed.

Lemma adds_keys_in l k :
  In k (keys (adds l)) <-> exists n p i, In (n, p) l /\ i < nreps p /\ k = rname (name p) (nreps p) i.
Proof.
  unfold keys. rewrite in_map_iff. split.
  - intros [[k' r] [E Hin]]. cbn in E. subst k'. apply adds_in in Hin.
    destruct Hin as [n [p [i [H1 [H2 [H3 _]]]]]]. eauto 6.
  - intros [n [p [i [H1 [H2 H3]]]]]. exists (k, mkrep p i). split; [reflexivity|].
    apply adds_in. eauto 8.
Qed.

Lemma seq_names_nodup nm reps : forall len start, 2 <= reps ->
  NoDup (map (fun i => rname nm reps i) (seq start len)).
Proof.
  induction len as [|len IH]; intros start H; cbn; [constructor|].
  constructor; [|now apply IH].
  intros Hin. apply in_map_iff in Hin. destruct Hin as [j [E Hj]]. apply in_seq in Hj.
  apply rname_inj in E; lia.
Qed.

Lemma nodup_app {A} (l1 l2 : list A) :
  NoDup l1 -> NoDup l2 -> (forall x, In x l1 -> ~ In x l2) -> NoDup (l1 ++ l2).
Proof.
  induction l1 as [|a l1 IH]; intros H1 H2 Hd; cbn; [exact H2|].
  inversion H1 as [|? ? Hni Hnd]. subst. constructor.
  - intros Hin. apply in_app_or in Hin. destruct Hin as [Hin|Hin]; [contradiction|].
    apply (Hd a); [now left|exact Hin].
  - apply IH; auto. intros x Hx. apply Hd. now right.
Qed.

Lemma adds_wf l :
  (forall n p, In (n, p) l -> name p = n /\ multi p = true) -> NoDup (map fst l) -> wf (adds l).
Proof.
  unfold wf. induction l as [|[n p] r IH]; intros Hl Hnd; cbn; [constructor|].
  inversion Hnd as [|? ? Hni Hnd']. subst.
  destruct (Hl n p (or_introl eq_refl)) as [Hn Hm].
  unfold keys. rewrite map_app, map_map. cbn [fst].
  apply nodup_app.
  - apply seq_names_nodup. now apply multi_nreps.
  - apply IH; [|exact Hnd']. intros n' p' Hin. apply Hl. now right.
  - intros x Hx Hx'. apply in_map_iff in Hx. destruct Hx as [i [Ex Hi]].
    apply (adds_keys_in r x) in Hx'. destruct Hx' as [n' [p' [j [Hin [Hj Ex']]]]].
    destruct (Hl n' p' (or_intror Hin)) as [Hn' Hm'].
    rewrite <- Ex in Ex'. apply rname_inj in Ex'; try now apply multi_nreps.
    destruct Ex' as [En _]. apply Hni. rewrite <- Hn, En, Hn'.
    change n' with (fst (n', p')). now apply in_map.
Qed.

Lemma fold_left_ext_in {A B} (f g : A -> B -> A) (l : list B) :
  forall a, (forall a x, In x l -> f a x = g a x) -> fold_left f l a = fold_left g l a.
Proof.
  induction l as [|x r IH]; intros a H; cbn; [reflexivity|].
  rewrite H by now left. apply IH. intros a' x' Hin. apply H. now right.
Qed.

Lemma fold_left_map {A B C} (f : A -> C -> A) (g : B -> C) (l : list B) :
  forall a, fold_left f (map g l) a = fold_left (fun a x => f a (g x)) l a.
Proof. induction l as [|x r IH]; intros a; cbn; [reflexivity|apply IH]. Qed.

Lemma to_add_adds (l : pmap) :
  map (fun p => (replica_name p, p)) (flat_map (fun kv => map (mkrep (snd kv)) (seq 0 (nreps (snd kv)))) l) = adds l.
Proof.
  unfold adds. induction l as [|kv r IH]; cbn [flat_map]; [reflexivity|].
  rewrite map_app, map_map, IH. reflexivity.
Qed.

Lemma existsb_keys_false (k : str) (l : pmap) :
  existsb (fun k' => str_eqb k' k) (map fst l) = false <-> ~ In k (map fst l).
Proof.
  split.
  - intros H Hin. assert (existsb (fun k' => str_eqb k' k) (map fst l) = true); [|congruence].
    apply existsb_exists. exists k. split; [exact Hin|apply str_eqb_refl].
  - intros H. destruct (existsb _ _) eqn:E; [|reflexivity]. exfalso. apply H.
    apply existsb_exists in E. destruct E as [k' [Hin E]]. apply str_eqb_eq in E. now subst.
Qed.

Lemma normal_in (m it : pmap) n p :
  wf m -> normal m -> Permutation it m -> In (n, p) it -> lookup n m = Some p /\ name p = n /\ (1 <= replicas p)%Z.
Proof.
  intros Hwf Hn Hp Hin. assert (H : lookup n m = Some p).
  { apply in_lookup; [exact Hwf|]. eapply Permutation_in; [exact Hp|exact Hin]. }
  split; [exact H|]. now apply Hn.
Qed.

Theorem clone_lookup o m k r :
  good_order o -> wf m -> normal m -> (lookup k (clone o m) = Some r <-> clone_rel m k r).
Proof.
  intros Ho Hwf Hn. unfold clone.
  set (it := o m). assert (Hp : Permutation it m) by apply Ho.
  assert (Hwfit : wf it) by (eapply wf_perm; eauto).
  assert (Hlk : forall x, lookup x it = lookup x m) by (intros x; now apply lookup_perm).
  set (mult := filter (fun kv => multi (snd kv)) it).
  assert (Hmult : forall n p, In (n, p) mult <-> lookup n m = Some p /\ multi p = true).
  { intros n p. unfold mult. rewrite filter_In. cbn [snd]. split.
    - intros [Hin Hm]. split; [|exact Hm]. eapply normal_in; eauto.
    - intros [Hl Hm]. split; [|exact Hm]. apply lookup_some_in. now rewrite Hlk. }
  assert (Hwfadds : wf (adds mult)).
  { apply adds_wf.
    - intros n p Hin. apply Hmult in Hin. destruct Hin as [Hl Hm]. split; [now apply Hn|exact Hm].
    - unfold mult. clear - Hwfit. unfold wf, keys in Hwfit. induction it as [|kv it' IH]; cbn; [constructor|].
      inversion Hwfit as [|? ? Hni Hnd]. subst. destruct (multi (snd kv)); cbn; [|now apply IH].
      constructor; [|now apply IH]. intros Hin. apply Hni. apply in_map_iff in Hin.
      destruct Hin as [x [Ex Hx]]. apply filter_In in Hx. rewrite <- Ex. apply in_map. tauto. }
  (* the last loop *)
  rewrite <- (fold_left_map (fun acc kv => upsert (fst kv) (snd kv) acc) (fun p => (replica_name p, p))).
  rewrite to_add_adds. fold mult.
  rewrite (fold_cond_lookup (fun _ => false) (fun _ v => v) (adds mult)) by exact Hwfadds.
  (* the deletions *)
  rewrite fold_remove_lookup.
  (* the first loop *)
  rewrite (fold_left_ext_in _
             (fun acc kv => if multi (snd kv) || (replicas (snd kv) <? 1)%Z then acc
                            else upsert (fst kv) ((fun _ v => mkrep v 0) (fst kv) (snd kv)) acc)).
  2:{ intros a [n p] Hin. cbn [fst snd]. destruct (multi p) eqn:Em; cbn [orb]; [reflexivity|].
      destruct (normal_in m it n p Hwf Hn Hp Hin) as [_ [Hnm Hpos]].
      destruct (Z.ltb_spec (replicas p) 1); [lia|].
      cbn [replica_name mkrep]. rewrite (single_nreps p Em Hpos), rname_single, Hnm. reflexivity. }
  rewrite (fold_cond_lookup (fun kv => multi (snd kv) || (replicas (snd kv) <? 1)%Z) (fun _ v => mkrep v 0) it m k Hwfit).
  rewrite Hlk. cbn [snd].
  assert (Hnone : lookup k (adds mult) = None <->
                  forall p i, lookup (name p) m = Some p -> multi p = true -> i < nreps p -> k <> rname (name p) (nreps p) i).
  { rewrite lookup_none, adds_keys_in. split.
    - intros H p i Hl Hm Hi E. apply H. exists (name p), p, i. repeat split; auto. apply Hmult. auto.
    - intros H [n [p [i [Hin [Hi E]]]]]. apply Hmult in Hin. destruct Hin as [Hl Hm].
      destruct (Hn n p Hl) as [Hnm _]. subst n. exact (H p i Hl Hm Hi E). }
  split.
  - (* -> *)
    destruct (lookup k (adds mult)) as [v|] eqn:Eadd.
    + intros E. inversion E. subst v. left. apply lookup_some_in, adds_in in Eadd.
      destruct Eadd as [n [p [i [Hin [Hi [Ek Er]]]]]]. apply Hmult in Hin. destruct Hin as [Hl Hm].
      destruct (Hn n p Hl) as [Hnm _]. subst n. exists p, i. auto.
    + destruct (existsb (fun k' => str_eqb k' k) (map fst mult)) eqn:Eex; [discriminate|].
      apply existsb_keys_false in Eex.
      destruct (lookup k m) as [v|] eqn:Elk; [|discriminate].
      destruct (Hn k v Elk) as [Hnm Hpos].
      destruct (multi v) eqn:Em; cbn [orb].
      * intros _. exfalso. apply Eex. change k with (fst (k, v)). apply in_map. apply Hmult. auto.
      * destruct (Z.ltb_spec (replicas v) 1); [lia|]. intros E. inversion E. subst r.
        right. split; [now apply Hnone|]. exists v. auto.
  - (* <- *)
    intros [[p [i [Hl [Hm [Hi [Ek Er]]]]]]|[Hno [p [Hl [Hm Er]]]]].
    + assert (Hin : In (k, r) (adds mult)).
      { apply adds_in. exists (name p), p, i. repeat split; auto. apply Hmult. auto. }
      now rewrite (in_lookup k r (adds mult) Hwfadds Hin).
    + apply Hnone in Hno. rewrite Hno.
      assert (Eex : existsb (fun k' => str_eqb k' k) (map fst mult) = false).
      { apply existsb_keys_false. intros Hin. apply in_map_iff in Hin. destruct Hin as [[n q] [En Hq]].
        cbn in En. subst n. apply Hmult in Hq. destruct Hq as [Hq Hmq]. congruence. }
      rewrite Eex, Hl, Hm. cbn [orb]. destruct (Hn k p Hl) as [_ Hpos].
      destruct (Z.ltb_spec (replicas p) 1); [lia|]. now subst r.
Qed.

Lemma clone_wf o m : wf m -> wf (clone o m).
Proof.
  intros H. unfold clone.
  rewrite <- (fold_left_map (fun acc kv => upsert (fst kv) (snd kv) acc) (fun p => (replica_name p, p))).
  apply (fold_cond_wf (fun _ => false) fst snd). apply fold_remove_wf.
  apply (fold_cond_wf (fun kv => multi (snd kv) || (replicas (snd kv) <? 1)%Z)
                      (fun kv => replica_name (mkrep (snd kv) 0)) (fun kv => mkrep (snd kv) 0)).
  exact H.
Qed.

Lemma clone_rel_equiv m m' k r : map_equiv m m' -> clone_rel m k r -> clone_rel m' k r.
Proof.
  intros He [[p [i [Hl H]]]|[Hno [p [Hl H]]]].
  - left. exists p, i. rewrite <- He. auto.
  - right. split.
    + intros q i Hq. apply Hno. now rewrite He.
    + exists p. rewrite <- He. auto.
Qed.

(* ---------- the passes after cloneReplicas are pointwise ----------------------------------------- *)
Definition finish (G : vars) (sh : shellcfg) (earg : str) (p : proc) : proc :=
  assign_exec sh earg (render_proc G (copy_wd p)).

Lemma post_clone_lookup os G sh earg m k :
  good_orders os -> wf m ->
  lookup k (post_clone os G sh earg m) = option_map (finish G sh earg) (lookup k m).
Proof.
  intros (_ & _ & H3 & H4 & H5) Hwf. unfold post_clone, finish.
  rewrite range_update_lookup; [|exact H5|now apply range_update_wf, range_update_wf].
  rewrite range_update_lookup; [|exact H4|now apply range_update_wf].
  rewrite range_update_lookup; [|exact H3|exact Hwf].
  now destruct (lookup k m).
Qed.

Lemma post_clone_wf os G sh earg m : wf m -> wf (post_clone os G sh earg m).
Proof. intros H. unfold post_clone. now apply range_update_wf, range_update_wf, range_update_wf. Qed.

(* non-interference: the record of key k after the passes depends on the record of key k before
   them only - whatever else is in the map, whatever the iteration orders *)
Theorem post_clone_noninterference os os' G sh earg m m' k :
  good_orders os -> good_orders os' -> wf m -> wf m' ->
  lookup k m = lookup k m' ->
  lookup k (post_clone os G sh earg m) = lookup k (post_clone os' G sh earg m').
Proof. intros H1 H2 W1 W2 E. rewrite !post_clone_lookup by assumption. now rewrite E. Qed.

(* ---------- the whole load ----------------------------------------------------------------------- *)
Definition load_rel (c : config) (k : str) (r : proc) : Prop :=
  (exists n p i, lookup n (procs c) = Some p /\ multi (dflt n p) = true /\ i < nreps (dflt n p) /\
                 k = rname n (nreps (dflt n p)) i /\ r = final c n p i)
  \/ ((forall n p i, lookup n (procs c) = Some p -> multi (dflt n p) = true -> i < nreps (dflt n p) ->
                     k <> rname n (nreps (dflt n p)) i)
      /\ exists p, lookup k (procs c) = Some p /\ multi (dflt k p) = false /\ r = final c k p 0).

Lemma dflt_normal o m : good_order o -> wf m -> normal (range_update o dflt m).
Proof.
  intros Ho Hwf k p H. rewrite range_update_lookup in H by assumption.
  destruct (lookup k m) as [p0|]; [|discriminate]. cbn in H. inversion H. subst p. cbn [name replicas dflt].
  split; [reflexivity|]. destruct (Z.ltb_spec (replicas p0) 1); lia.
Qed.

Lemma dflt_name k p : name (dflt k p) = k.
Proof. reflexivity. Qed.

Theorem load_lookup os c k r :
  good_orders os -> wf (procs c) ->
  (lookup k (o_procs (load os c)) = Some r <-> load_rel c k r).
Proof.
  intros Hos Hwf. pose proof Hos as (H1 & H2 & _).
  unfold load. cbn [o_procs].
  set (m1 := range_update (o_dflt os) dflt (procs c)).
  assert (Hwf1 : wf m1) by now apply range_update_wf.
  assert (Hn1 : normal m1) by now apply dflt_normal.
  assert (Hl1 : forall x, lookup x m1 = option_map (dflt x) (lookup x (procs c))).
  { intros x. now apply range_update_lookup. }
  rewrite post_clone_lookup; [|exact Hos|now apply clone_wf].
  set (sh := set_default_shell c).
  split.
  - destruct (lookup k (clone (o_clone os) m1)) as [q|] eqn:Ec; [|discriminate].
    cbn [option_map]. intros E. inversion E. subst r. clear E.
    apply clone_lookup in Ec; try assumption.
    destruct Ec as [[p [i [Hl [Hm [Hi [Ek Er]]]]]]|[Hno [p [Hl [Hm Er]]]]].
    + left. rewrite Hl1 in Hl. destruct (lookup (name p) (procs c)) as [p0|] eqn:E0; [|discriminate].
      cbn in Hl. inversion Hl as [Hp]. exists (name p), p0, i. rewrite Hp. repeat split; auto.
      subst q. unfold final, finish. fold sh. now rewrite Hp.
    + right. split.
      * intros n p0 i Hl0 Hm0 Hi0 E. apply (Hno (dflt n p0) i); rewrite ?dflt_name; auto.
        rewrite Hl1, Hl0. reflexivity.
      * rewrite Hl1 in Hl. destruct (lookup k (procs c)) as [p0|] eqn:E0; [|discriminate].
        cbn in Hl. inversion Hl as [Hp]. exists p0. rewrite Hp. repeat split; auto.
        subst q. unfold final, finish. fold sh. now rewrite Hp.
  - intros [[n [p [i [Hl [Hm [Hi [Ek Er]]]]]]]|[Hno [p [Hl [Hm Er]]]]].
    + assert (Hc : lookup k (clone (o_clone os) m1) = Some (mkrep (dflt n p) i)).
      { apply clone_lookup; try assumption. left. exists (dflt n p), i. rewrite dflt_name.
        repeat split; auto. rewrite Hl1, Hl. reflexivity. }
      rewrite Hc. cbn [option_map]. subst r. reflexivity.
    + assert (Hc : lookup k (clone (o_clone os) m1) = Some (mkrep (dflt k p) 0)).
      { apply clone_lookup; try assumption. right. split.
        - intros q i Hq Hmq Hi E. rewrite Hl1 in Hq.
          destruct (lookup (name q) (procs c)) as [q0|] eqn:E0; [|discriminate].
          cbn in Hq. inversion Hq as [Hq']. apply (Hno (name q) q0 i); rewrite ?Hq'; auto.
        - exists (dflt k p). repeat split; auto. rewrite Hl1, Hl. reflexivity. }
      rewrite Hc. cbn [option_map]. subst r. reflexivity.
Qed.

Lemma load_wf os c : wf (procs c) -> wf (o_procs (load os c)).
Proof. intros H. unfold load. cbn [o_procs]. now apply post_clone_wf, clone_wf, range_update_wf. Qed.

(* ---------- what [final] is, field by field ------------------------------------------------------- *)
Lemma assign_exec_fields sh e p :
  let q := assign_exec sh e p in
  name q = name p /\ namespace q = namespace p /\ replicas q = replicas p /\
  launch_timeout q = launch_timeout p /\ command q = command p /\ working_dir q = working_dir p /\
  log_location q = log_location p /\ description q = description p /\ pvars q = pvars p /\
  readiness q = readiness p /\ liveness q = liveness p /\ replica_num q = replica_num p /\
  replica_name q = replica_name p /\ is_elevated q = is_elevated p.
Proof.
  unfold assign_exec. destruct (command p) eqn:Ec, (entrypoint p) eqn:Ee; cbn; rewrite ?Ec; repeat split; reflexivity.
Qed.

Definition wd_probe (e : vars) (wd : str) (pr : probe) : probe := render_probe e (probe_wd wd pr).

Lemma option_map_map {A B C} (f : B -> C) (g : A -> B) (x : option A) :
  option_map f (option_map g x) = option_map (fun a => f (g a)) x.
Proof. now destruct x. Qed.

Theorem final_fields c k p i :
  let r := final c k p i in
  let e := env (g_vars c) (pvars p) i in
  let n := if (replicas p <? 1)%Z then 1%Z else replicas p in
  name r = k /\
  namespace r = match namespace p with [] => s_default | _ => namespace p end /\
  replicas r = n /\ (1 <= replicas r)%Z /\
  launch_timeout r = (if (launch_timeout p <? 1)%Z then default_launch_timeout else launch_timeout p) /\
  (1 <= launch_timeout r)%Z /\
  replica_num r = i /\
  replica_name r = rname k (Z.to_nat n) i /\
  command r = render e (command p) /\
  working_dir r = render e (working_dir p) /\
  log_location r = render e (log_location p) /\
  description r = render e (description p) /\
  readiness r = option_map (wd_probe e (working_dir p)) (readiness p) /\
  liveness r = option_map (wd_probe e (working_dir p)) (liveness p) /\
  pvars r = upsert pc_replica_num (dec i) (pvars p).
Proof.
  cbn zeta. unfold final.
  set (q := render_proc (g_vars c) (copy_wd (mkrep (dflt k p) i))).
  destruct (assign_exec_fields (set_default_shell c) (elevated_arg c (set_default_shell c)) q)
    as (E1 & E2 & E3 & E4 & E5 & E6 & E7 & E8 & E9 & E10 & E11 & E12 & E13 & _).
  rewrite E1, E2, E3, E4, E5, E6, E7, E8, E9, E10, E11, E12, E13.
  unfold q. cbn [render_proc copy_wd mkrep dflt name namespace replicas launch_timeout command working_dir
                 log_location description pvars readiness liveness replica_num replica_name nreps].
  rewrite !option_map_map. unfold default_launch_timeout.
  repeat split; try reflexivity.
  - destruct (Z.ltb_spec (replicas p) 1); lia.
  - destruct (Z.ltb_spec (launch_timeout p) 1); lia.
Qed.

(* the variables a replica is rendered with: its number, then the process's vars, then the project's *)
Lemma lookup_app {V} (k : str) (a c : list (str * V)) :
  lookup k (a ++ c) = match lookup k a with Some v => Some v | None => lookup k c end.
Proof.
  induction a as [|[k0 v0] r IH]; cbn; [reflexivity|]. destruct (str_eqb k0 k); [reflexivity|exact IH].
Qed.

Theorem env_lookup G P i x :
  lookup x (env G P i) =
  if str_eqb pc_replica_num x then Some (dec i)
  else match lookup x P with Some v => Some v | None => lookup x G end.
Proof. unfold env. cbn [lookup]. destruct (str_eqb pc_replica_num x); [reflexivity|apply lookup_app]. Qed.

(* rendering a string of the template subset = substituting the variables into its segments *)
Theorem render_subst e s segs :
  s <> [] -> parse s = Some segs -> render e s = concat (map (subst e) segs).
Proof. intros Hs Hp. unfold render. destruct s; [contradiction|]. now rewrite Hp. Qed.

Lemma render_empty e : render e [] = [].
Proof. reflexivity. Qed.

(* a replica's environment mentions no other replica: it is a function of (G, P, i) only, and
   differs between replicas exactly in PC_REPLICA_NUM *)
Lemma dec_inj i j : dec i = dec j -> i = j.
Proof.
  unfold dec. intros H. apply ascii_digits_inj in H. apply (f_equal dval) in H.
  rewrite !dval_ddigits in H. lia.
Qed.

(* ---------- consequences used by Props/C16.v ------------------------------------------------------ *)
Definition same_globals (c c' : config) : Prop :=
  g_vars c = g_vars c' /\ shell_in c = shell_in c' /\ shell_dflt c = shell_dflt c' /\
  tui_disabled c = tui_disabled c'.
(* the same file contents: the process map may be listed in any order *)
Definition same_file (c c' : config) : Prop := same_globals c c' /\ map_equiv (procs c) (procs c').

Lemma final_same c c' k p i : same_globals c c' -> final c k p i = final c' k p i.
Proof.
  intros (E1 & E2 & E3 & E4). unfold final, set_default_shell, elevated_arg. now rewrite E1, E2, E3, E4.
Qed.

Lemma load_rel_same c c' k r : same_file c c' -> load_rel c k r -> load_rel c' k r.
Proof.
  intros [Hg He] [[n [p [i [Hl H]]]]|[Hno [p [Hl H]]]].
  - left. exists n, p, i. rewrite <- He, <- (final_same c c') by exact Hg. auto.
  - right. split.
    + intros n q i Hq. apply Hno. now rewrite He.
    + exists p. rewrite <- He, <- (final_same c c') by exact Hg. auto.
Qed.

Lemma same_file_sym c c' : same_file c c' -> same_file c' c.
Proof. intros [(E1 & E2 & E3 & E4) He]. repeat split; auto. intros k. now rewrite He. Qed.

Theorem load_deterministic os os' c c' :
  good_orders os -> good_orders os' -> wf (procs c) -> wf (procs c') -> same_file c c' ->
  o_shell (load os c) = o_shell (load os' c') /\
  (forall k, lookup k (o_procs (load os c)) = lookup k (o_procs (load os' c'))) /\
  wf (o_procs (load os c)) /\ wf (o_procs (load os' c')).
Proof.
  intros H1 H2 W1 W2 Hs. split; [|split; [|split; now apply load_wf]].
  - destruct Hs as [(E1 & E2 & E3 & E4) _]. unfold load, set_default_shell. cbn [o_shell]. now rewrite E2, E3.
  - intros k. apply opt_ext. intros r. rewrite !load_lookup by assumption.
    split; apply load_rel_same; [exact Hs|now apply same_file_sym].
Qed.

Lemma same_file_refl c : same_file c c.
Proof. repeat split; auto. Qed.

(* every loaded entry is replica i of a process of the file, and is [final] of that source entry *)
Theorem load_sound os c k r :
  good_orders os -> wf (procs c) -> lookup k (o_procs (load os c)) = Some r ->
  exists n p i, lookup n (procs c) = Some p /\ i < nreps (dflt n p) /\
                k = rname n (nreps (dflt n p)) i /\ r = final c n p i.
Proof.
  intros Ho Hwf H. apply load_lookup in H; try assumption.
  destruct H as [[n [p [i [Hl [Hm [Hi [Ek Er]]]]]]]|[_ [p [Hl [Hm Er]]]]].
  - exists n, p, i. auto.
  - exists k, p, 0. assert (Hn : nreps (dflt k p) = 1).
    { apply single_nreps; [exact Hm|]. cbn. destruct (Z.ltb_spec (replicas p) 1); lia. }
    rewrite Hn. repeat split; auto.
Qed.

Theorem load_complete_multi os c n p i :
  good_orders os -> wf (procs c) -> lookup n (procs c) = Some p ->
  multi (dflt n p) = true -> i < nreps (dflt n p) ->
  lookup (rname n (nreps (dflt n p)) i) (o_procs (load os c)) = Some (final c n p i).
Proof. intros Ho Hwf Hl Hm Hi. apply load_lookup; try assumption. left. exists n, p, i. auto. Qed.

(* a process with one replica keeps its key, unless a process with several replicas produces it *)
Definition no_clash (c : config) (k : str) : Prop :=
  forall n p i, lookup n (procs c) = Some p -> multi (dflt n p) = true -> i < nreps (dflt n p) ->
                k <> rname n (nreps (dflt n p)) i.

Theorem load_complete_single os c k p :
  good_orders os -> wf (procs c) -> lookup k (procs c) = Some p ->
  multi (dflt k p) = false -> no_clash c k ->
  lookup k (o_procs (load os c)) = Some (final c k p 0).
Proof. intros Ho Hwf Hl Hm Hno. apply load_lookup; try assumption. right. split; [exact Hno|]. exists p. auto. Qed.

Lemma nreps_dflt n p : nreps (dflt n p) = Z.to_nat (if (replicas p <? 1)%Z then 1%Z else replicas p).
Proof. reflexivity. Qed.

Theorem load_defaults os c k r :
  good_orders os -> wf (procs c) -> lookup k (o_procs (load os c)) = Some r ->
  exists p, lookup (name r) (procs c) = Some p /\
    namespace r = match namespace p with [] => s_default | _ => namespace p end /\
    (1 <= replicas r)%Z /\ replicas r = (if (replicas p <? 1)%Z then 1%Z else replicas p) /\
    (1 <= launch_timeout r)%Z /\
    launch_timeout r = (if (launch_timeout p <? 1)%Z then default_launch_timeout else launch_timeout p).
Proof.
  intros Ho Hwf H. destruct (load_sound os c k r Ho Hwf H) as [n [p [i [Hl [Hi [Ek Er]]]]]].
  pose proof (final_fields c n p i) as F. cbn zeta in F. rewrite <- Er in F.
  destruct F as (F1 & F2 & F3 & F4 & F5 & F6 & _). exists p. rewrite F1. repeat split; auto.
Qed.

Theorem load_replica_names os c k r :
  good_orders os -> wf (procs c) -> lookup k (o_procs (load os c)) = Some r ->
  replica_num r < Z.to_nat (replicas r) /\
  replica_name r = k /\
  k = rname (name r) (Z.to_nat (replicas r)) (replica_num r).
Proof.
  intros Ho Hwf H. destruct (load_sound os c k r Ho Hwf H) as [n [p [i [Hl [Hi [Ek Er]]]]]].
  pose proof (final_fields c n p i) as F. cbn zeta in F. rewrite <- Er in F.
  destruct F as (F1 & _ & F3 & _ & _ & _ & F7 & F8 & _).
  rewrite nreps_dflt in Hi, Ek. rewrite F1, F3, F7, F8. auto.
Qed.

Theorem names_distinct nm reps i j :
  i < reps -> j < reps -> rname nm reps i = rname nm reps j -> i = j.
Proof.
  intros Hi Hj E. destruct (Nat.le_gt_cases reps 1) as [H|H]; [lia|].
  apply rname_inj in E; [tauto|lia|lia].
Qed.

Theorem load_rendered os c k r :
  good_orders os -> wf (procs c) -> lookup k (o_procs (load os c)) = Some r ->
  exists p, lookup (name r) (procs c) = Some p /\
    let e := env (g_vars c) (pvars p) (replica_num r) in
    command r = render e (command p) /\
    working_dir r = render e (working_dir p) /\
    log_location r = render e (log_location p) /\
    description r = render e (description p) /\
    readiness r = option_map (wd_probe e (working_dir p)) (readiness p) /\
    liveness r = option_map (wd_probe e (working_dir p)) (liveness p) /\
    pvars r = upsert pc_replica_num (dec (replica_num r)) (pvars p).
Proof.
  intros Ho Hwf H. destruct (load_sound os c k r Ho Hwf H) as [n [p [i [Hl [Hi [Ek Er]]]]]].
  pose proof (final_fields c n p i) as F. cbn zeta in F. rewrite <- Er in F.
  destruct F as (F1 & _ & _ & _ & _ & _ & F7 & _ & F9 & F10 & F11 & F12 & F13 & F14 & F15).
  exists p. rewrite F1, F7. cbn zeta. repeat split; auto.
Qed.

(* the probe fields that are templates, spelled out *)
Theorem wd_probe_exec e wd pr x :
  p_exec pr = Some x ->
  p_exec (wd_probe e wd pr) = Some (mkE (render e (e_cmd x)) (match e_wd x with [] => wd | _ => e_wd x end)).
Proof.
  intros Hx. unfold wd_probe, probe_wd. rewrite Hx.
  destruct (e_wd x) eqn:Ew; unfold render_probe, probe_defaults; cbn; rewrite ?Hx; cbn; rewrite ?Ew; reflexivity.
Qed.

Theorem wd_probe_http e wd pr h :
  p_exec pr = None -> p_http pr = Some h ->
  p_http (wd_probe e wd pr) =
    Some (http_defaults (mkH (render e (h_host h)) (render e (h_path h)) (render e (h_scheme h))
                             (render e (h_port h)) (h_num h))).
Proof.
  intros Hx Hh. unfold wd_probe, probe_wd. rewrite Hx. unfold render_probe, probe_defaults. rewrite Hx, Hh.
  reflexivity.
Qed.

(* replicas of one process: independent of every other process of the file and of the orders *)
Theorem load_replica_independent os os' c c' n p i :
  good_orders os -> good_orders os' -> wf (procs c) -> wf (procs c') -> same_globals c c' ->
  lookup n (procs c) = Some p -> lookup n (procs c') = Some p ->
  multi (dflt n p) = true -> i < nreps (dflt n p) ->
  lookup (rname n (nreps (dflt n p)) i) (o_procs (load os c)) =
  lookup (rname n (nreps (dflt n p)) i) (o_procs (load os' c')).
Proof.
  intros H1 H2 W1 W2 Hg L1 L2 Hm Hi.
  rewrite (load_complete_multi os c n p i), (load_complete_multi os' c' n p i) by assumption.
  now rewrite (final_same c c').
Qed.

(* "changing replica j's number or vars leaves replica i's record unchanged": overwrite the entry of
   any other key j by an arbitrary record before the passes run *)
Theorem replica_change_invisible os os' G sh earg m j q k :
  good_orders os -> good_orders os' -> wf m -> k <> j ->
  lookup k (post_clone os G sh earg (upsert j q m)) = lookup k (post_clone os' G sh earg m).
Proof.
  intros H1 H2 Hwf Hne. apply post_clone_noninterference; try assumption.
  - now apply wf_upsert.
  - rewrite lookup_upsert. destruct (str_eqb j k) eqn:E; [apply str_eqb_eq in E; congruence|reflexivity].
Qed.
