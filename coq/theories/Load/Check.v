(* Correspondence checker and property monitor for C16, evaluated by vm_compute on what the Go
   harness observed from loader.Load.

   The harness describes every generated file STRUCTURALLY (templates as segment lists); the text
   that is written into the YAML file is [unparse] of the segments.  [model_ok] runs the model on
   the printed text (through [parse]); the monitor [holds_C16] never calls the pipeline of the
   model: it states, field by field, what the property text demands of the observed project, with
   its own substitution on the segments, its own variable precedence and the standard library's
   decimal printer. *)
From Coq Require Import List ZArith Bool NArith Decimal.
From Coq Require String Ascii.
From PC.Base Require Import Util.
From PC.Load Require Import Model.
Import ListNotations.

Definition b (s : String.string) : str := map Ascii.N_of_ascii (String.list_ascii_of_string s).

Definition tpl := list seg.
Definition unparse (t : tpl) : str :=
  concat (map (fun s => match s with
                        | SLit l => l
                        | SVar n => lbrace :: lbrace :: dot :: n ++ [rbrace; rbrace]
                        end) t).

Record sprobe := mkSP {
  sp_exec : option (tpl * str);                 (* command, working_dir *)
  sp_http : option (tpl * tpl * tpl * tpl);     (* host, path, scheme, port *)
  sp_delay : Z; sp_period : Z; sp_timeout : Z; sp_succ : Z; sp_fail : Z }.

Record sproc := mkSProc {
  s_namespace : str; s_replicas : Z; s_lt : Z;
  s_command : tpl; s_entry : list str; s_wd : tpl; s_log : tpl; s_desc : tpl;
  s_vars : vars; s_elev : bool; s_ready : option sprobe; s_live : option sprobe }.

Record ocase := mkCase {
  c_gvars : vars;
  c_shell_in : option shellcfg;
  c_shell_dflt : shellcfg;
  c_tui : bool;
  c_procs : list (str * sproc);
  c_nloads : nat;                               (* how often the file was loaded *)
  c_obs : list (shellcfg * pmap)                (* the DISTINCT projects observed, each sorted by key *)
}.

(* ---------- the file contents as the model's input ------------------------------------------- *)
Definition probe_of (p : sprobe) : probe :=
  mkP (option_map (fun x => mkE (unparse (fst x)) (snd x)) (sp_exec p))
      (option_map (fun x => let '(h, pa, sc, po) := x in mkH (unparse h) (unparse pa) (unparse sc) (unparse po) 0%Z)
                  (sp_http p))
      (sp_delay p) (sp_period p) (sp_timeout p) (sp_succ p) (sp_fail p).

Definition proc_of (p : sproc) : proc :=
  mkProc [] (s_namespace p) (s_replicas p) (s_lt p) (unparse (s_command p)) (s_entry p)
         (unparse (s_wd p)) (unparse (s_log p)) (unparse (s_desc p)) (s_vars p) (s_elev p)
         (option_map probe_of (s_ready p)) (option_map probe_of (s_live p)) 0 [] [] [].

Definition config_of (c : ocase) : config :=
  mkCfg (c_gvars c) (c_shell_in c) (c_shell_dflt c) (c_tui c)
        (map (fun kv => (fst kv, proc_of (snd kv))) (c_procs c)).

(* ---------- equality of observables ------------------------------------------------------------ *)
Definition lstr_eqb := list_eqb str_eqb.
Definition vars_eqb (a c : vars) : bool :=
  Nat.eqb (length a) (length c) &&
  forallb (fun kv => option_eqb str_eqb (lookup (fst kv) c) (Some (snd kv))) a.
Definition eprobe_eqb (x y : eprobe) := str_eqb (e_cmd x) (e_cmd y) && str_eqb (e_wd x) (e_wd y).
Definition hprobe_eqb (x y : hprobe) :=
  str_eqb (h_host x) (h_host y) && str_eqb (h_path x) (h_path y) && str_eqb (h_scheme x) (h_scheme y) &&
  str_eqb (h_port x) (h_port y) && Z.eqb (h_num x) (h_num y).
Definition probe_eqb (x y : probe) :=
  option_eqb eprobe_eqb (p_exec x) (p_exec y) && option_eqb hprobe_eqb (p_http x) (p_http y) &&
  Z.eqb (p_delay x) (p_delay y) && Z.eqb (p_period x) (p_period y) && Z.eqb (p_timeout x) (p_timeout y) &&
  Z.eqb (p_succ x) (p_succ y) && Z.eqb (p_fail x) (p_fail y).
Definition proc_eqb (x y : proc) :=
  str_eqb (name x) (name y) && str_eqb (namespace x) (namespace y) && Z.eqb (replicas x) (replicas y) &&
  Z.eqb (launch_timeout x) (launch_timeout y) && str_eqb (command x) (command y) &&
  lstr_eqb (entrypoint x) (entrypoint y) && str_eqb (working_dir x) (working_dir y) &&
  str_eqb (log_location x) (log_location y) && str_eqb (description x) (description y) &&
  vars_eqb (pvars x) (pvars y) && Bool.eqb (is_elevated x) (is_elevated y) &&
  option_eqb probe_eqb (readiness x) (readiness y) && option_eqb probe_eqb (liveness x) (liveness y) &&
  Nat.eqb (replica_num x) (replica_num y) && str_eqb (replica_name x) (replica_name y) &&
  str_eqb (executable x) (executable y) && lstr_eqb (args x) (args y).
Definition shell_eqb (x y : shellcfg) :=
  str_eqb (sh_cmd x) (sh_cmd y) && str_eqb (sh_arg x) (sh_arg y) &&
  str_eqb (sh_ecmd x) (sh_ecmd y) && str_eqb (sh_earg x) (sh_earg y).

Fixpoint distinct (l : list str) : bool :=
  match l with
  | [] => true
  | x :: r => negb (existsb (str_eqb x) r) && distinct r
  end.

(* ---------- model agreement -------------------------------------------------------------------- *)
Definition obs_matches (m : project) (o : shellcfg * pmap) : bool :=
  shell_eqb (o_shell m) (fst o) &&
  Nat.eqb (length (o_procs m)) (length (snd o)) &&
  distinct (map fst (snd o)) &&
  forallb (fun kv => match lookup (fst kv) (o_procs m) with
                     | Some r => proc_eqb (snd kv) r
                     | None => false
                     end) (snd o).

Definition model_ok (c : ocase) : bool :=
  let cfg := config_of c in
  in_subset cfg && distinct (map fst (procs cfg)) &&
  match c_obs c with [] => false | _ => true end &&
  forallb (obs_matches (load id_orders cfg)) (c_obs c).

(* ---------- the property monitor --------------------------------------------------------------- *)
(* decimal printing by the standard library (independent of Model.dec) *)
Fixpoint uint_str (u : Decimal.uint) : str :=
  match u with
  | Nil => []
  | D0 r => 48%N :: uint_str r | D1 r => 49%N :: uint_str r | D2 r => 50%N :: uint_str r
  | D3 r => 51%N :: uint_str r | D4 r => 52%N :: uint_str r | D5 r => 53%N :: uint_str r
  | D6 r => 54%N :: uint_str r | D7 r => 55%N :: uint_str r | D8 r => 56%N :: uint_str r
  | D9 r => 57%N :: uint_str r
  end.
Definition sdec (n : nat) : str := uint_str (Nat.to_uint n).
Definition spec_name (nm : str) (reps i : nat) : str :=
  if Nat.leb reps 1 then nm
  else let d := sdec i in nm ++ hyphen :: repeat 48%N (length (sdec reps) - length d) ++ d.

(* "rendered with that replica's own variables and replica number": replica number first, then the
   process's vars, then the project's *)
Definition spec_var (G P : vars) (i : nat) (n : str) : str :=
  if str_eqb n pc_replica_num then sdec i else
  match lookup n P with
  | Some v => v
  | None => match lookup n G with Some v => v | None => no_value end
  end.
Definition spec_render (G P : vars) (i : nat) (t : tpl) : str :=
  concat (map (fun s => match s with SLit l => l | SVar n => spec_var G P i n end) t).

Definition spec_probe (G P : vars) (i : nat) (wd : str) (s : sprobe) : probe :=
  let R := spec_render G P i in
  probe_defaults
    (mkP (option_map (fun x => mkE (R (fst x)) (match snd x with [] => wd | w => w end)) (sp_exec s))
         (option_map (fun x => let '(h, pa, sc, po) := x in
                               match sp_exec s with
                               | Some _ => mkH (unparse h) (unparse pa) (unparse sc) (unparse po) 0%Z
                               | None => mkH (R h) (R pa) (R sc) (R po) 0%Z
                               end) (sp_http s))
         (sp_delay s) (sp_period s) (sp_timeout s) (sp_succ s) (sp_fail s)).

(* the templated fields of a probe only (property text: probe command / host / path / port) *)
Definition probe_tpl_eqb (x y : probe) : bool :=
  option_eqb (fun a c => str_eqb (e_cmd a) (e_cmd c)) (p_exec x) (p_exec y) &&
  option_eqb (fun a c => str_eqb (h_host a) (h_host c) && str_eqb (h_path a) (h_path c) &&
                         str_eqb (h_scheme a) (h_scheme c) && str_eqb (h_port a) (h_port c))
             (p_http x) (p_http y).

(* the clauses of the property for one observed replica, separately (for diagnostics) *)
Definition rep_defaults (c : ocase) (k : str) (r : proc) : bool :=
  match lookup (name r) (c_procs c) with
  | None => false                                   (* "has its name": the key of a process in the file *)
  | Some s =>
      let n := if (s_replicas s <? 1)%Z then 1%Z else s_replicas s in
      str_eqb (namespace r) (match s_namespace s with [] => s_default | x => x end) &&
      (1 <=? replicas r)%Z && Z.eqb (replicas r) n &&
      (1 <=? launch_timeout r)%Z &&
      Z.eqb (launch_timeout r) (if (s_lt s <? 1)%Z then 5%Z else s_lt s)
  end.
Definition rep_names (c : ocase) (k : str) (r : proc) : bool :=
  match lookup (name r) (c_procs c) with
  | None => false
  | Some s =>
      let n := if (s_replicas s <? 1)%Z then 1%Z else s_replicas s in
      Nat.ltb (replica_num r) (Z.to_nat n) &&
      str_eqb k (replica_name r) &&
      str_eqb k (spec_name (name r) (Z.to_nat n) (replica_num r))
  end.
Definition rep_fields (c : ocase) (k : str) (r : proc) : bool :=
  match lookup (name r) (c_procs c) with
  | None => false
  | Some s =>
      let R := spec_render (c_gvars c) (s_vars s) (replica_num r) in
      str_eqb (command r) (R (s_command s)) &&
      str_eqb (working_dir r) (R (s_wd s)) &&
      str_eqb (log_location r) (R (s_log s)) &&
      str_eqb (description r) (R (s_desc s))
  end.
Definition rep_probes (c : ocase) (k : str) (r : proc) : bool :=
  match lookup (name r) (c_procs c) with
  | None => false
  | Some s =>
      let i := replica_num r in
      option_eqb probe_tpl_eqb (readiness r)
                 (option_map (spec_probe (c_gvars c) (s_vars s) i (unparse (s_wd s))) (s_ready s)) &&
      option_eqb probe_tpl_eqb (liveness r)
                 (option_map (spec_probe (c_gvars c) (s_vars s) i (unparse (s_wd s))) (s_live s))
  end.
Definition rep_vars (c : ocase) (k : str) (r : proc) : bool :=
  match lookup (name r) (c_procs c) with
  | None => false
  | Some s => vars_eqb (pvars r) (upsert pc_replica_num (sdec (replica_num r)) (s_vars s))
  end.

Definition holds_replica (c : ocase) (k : str) (r : proc) : bool :=
  rep_defaults c k r && rep_names c k r && rep_fields c k r && rep_probes c k r && rep_vars c k r.

(* every replica number of every process of the file is there (unless a process with several
   replicas produces the same name, which then wins) *)
Definition all_present (c : ocase) (o : pmap) : bool :=
  forallb (fun kv =>
    let n := Z.to_nat (if (s_replicas (snd kv) <? 1)%Z then 1%Z else s_replicas (snd kv)) in
    forallb (fun i => match lookup (spec_name (fst kv) n i) o with
                      | Some r => (str_eqb (name r) (fst kv) && Nat.eqb (replica_num r) i) || Nat.eqb n 1
                      | None => false
                      end) (seq 0 n)) (c_procs c).

Definition holds_obs (c : ocase) (o : shellcfg * pmap) : bool :=
  distinct (map fst (snd o)) &&
  forallb (fun kv => holds_replica c (fst kv) (snd kv)) (snd o) &&
  all_present c (snd o).

Definition holds_C16 (c : ocase) : bool :=
  Nat.leb 2 (c_nloads c) &&
  match c_obs c with
  | [o] => holds_obs c o                     (* all loads gave the same project *)
  | _ => false
  end.

(* which clauses fail on a case: 1 loads differ, 2 defaults/name, 4 replica names, 8 command/working dir/
   log location/description, 16 probe fields, 32 vars, 64 a replica is missing or keys repeat *)
Definition diag (c : ocase) : nat :=
  let all f := forallb (fun o => forallb (fun kv => f c (fst kv) (snd kv)) (snd o)) (c_obs c) in
  (match c_obs c with [_] => 0 | _ => 1 end) +
  (if all rep_defaults then 0 else 2) + (if all rep_names then 0 else 4) +
  (if all rep_fields then 0 else 8) + (if all rep_probes then 0 else 16) + (if all rep_vars then 0 else 32) +
  (if forallb (fun o => distinct (map fst (snd o)) && all_present c (snd o)) (c_obs c) then 0 else 64).
Definition diags (cs : list ocase) : list nat := map diag cs.

Definition bad_model (cs : list ocase) : list nat := failing model_ok cs.
Definition bad_monitor (cs : list ocase) : list nat := failing holds_C16 cs.
(* cases on which different loads of the same file gave different projects *)
Definition nondeterministic (cs : list ocase) : list nat :=
  failing (fun c => match c_obs c with [_] => true | _ => false end) cs.
