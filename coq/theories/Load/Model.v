(* Model of the loader pipeline of process-compose after merging (property C16).
   No proofs in this file: it must stay evaluable when a proof is broken.

   Go code modelled (pinned commit, AFTER the two proposed repairs
     fixes/F4-clone-replicas-deep-copy.diff      every replica owns its probes and its Vars map
     fixes/F34-nonpositive-replicas-default.diff  replicas < 1 is defaulted to 1 (was: only == 0)):
     loader.Load, pipeline            src/loader/loader.go:52-66
     setDefaultShell                  src/loader/mutators.go:31-40
     assignDefaultProcessValues       src/loader/mutators.go:42-59
     cloneReplicas                    src/loader/mutators.go:90-114
     copyWorkingDirToProbes           src/loader/mutators.go:75-88
     renderTemplates                  src/loader/mutators.go:125-136
     Templater.RenderProcess/renderProbe/render   src/templater/templater.go:22-97
     Probe.ValidateAndSetDefaults     src/health/probe.go:44-87
     assignExecutableAndArgs          src/loader/mutators.go:116-123
     CalculateReplicaName, AssignProcessExecutableAndArgs   src/types/process.go:69-75,120-147

   Go maps are association lists with distinct keys; `for k, v := range m` visits the entries in an
   order that is an explicit parameter of every pass ([order]); `m[k] = v` is [upsert].
   Byte strings are [list N].  text/template is modelled for the SUBSET literal text + {{.NAME}}
   ([parse] returns None outside it); variable values arrive already formatted (fmt.Sprint) . *)
From Coq Require Import List ZArith Bool NArith.
From PC.Base Require Import Util.
Import ListNotations.

Definition str := list N.
Definition str_eqb : str -> str -> bool := list_eqb N.eqb.

(* ---------- association lists as Go maps ------------------------------------------------------- *)
Section Assoc.
Context {V : Type}.
Fixpoint lookup (k : str) (m : list (str * V)) : option V :=
  match m with
  | [] => None
  | (k', v) :: r => if str_eqb k' k then Some v else lookup k r
  end.
(* m[k] = v *)
Fixpoint upsert (k : str) (v : V) (m : list (str * V)) : list (str * V) :=
  match m with
  | [] => [(k, v)]
  | (k', v') :: r => if str_eqb k' k then (k', v) :: r else (k', v') :: upsert k v r
  end.
(* delete(m, k) *)
Fixpoint remove (k : str) (m : list (str * V)) : list (str * V) :=
  match m with
  | [] => []
  | (k', v') :: r => if str_eqb k' k then remove k r else (k', v') :: remove k r
  end.
End Assoc.

(* ---------- decimal printing (%d) and CalculateReplicaName ------------------------------------- *)
(* little-endian decimal digits; [dsucc] adds one *)
Fixpoint dsucc (l : list N) : list N :=
  match l with
  | [] => [1%N]
  | d :: r => if (d =? 9)%N then 0%N :: dsucc r else (d + 1)%N :: r
  end.
Definition ddigits (n : nat) : list N := Nat.iter n dsucc [0%N].
Definition ascii_digits (l : list N) : str := map (fun d => (48 + d)%N) (rev l).
Definition dec (n : nat) : str := ascii_digits (ddigits n).
(* 1 + int(math.Log10(float64(n))) for n >= 1 = number of decimal digits of n *)
Definition width (n : nat) : nat := length (ddigits n).
(* fmt.Sprintf("%0*d", w, i): zero padded to at least w digits *)
Definition padded (w i : nat) : str :=
  ascii_digits (ddigits i ++ repeat 0%N (w - length (ddigits i))).
Definition hyphen : N := 45%N.
Definition rname (nm : str) (reps i : nat) : str :=
  if Nat.leb reps 1 then nm else nm ++ hyphen :: padded (width reps) i.

(* ---------- templates: literal text and {{.NAME}} ---------------------------------------------- *)
Inductive seg := SLit (s : str) | SVar (nm : str).

Definition is_digit (c : N) : bool := ((48 <=? c) && (c <=? 57))%N.
Definition is_alpha (c : N) : bool :=
  (((65 <=? c) && (c <=? 90)) || ((97 <=? c) && (c <=? 122)) || (c =? 95))%N.
Definition lbrace : N := 123%N.
Definition rbrace : N := 125%N.
Definition dot : N := 46%N.

Inductive pmode :=
| MText (lit : str)      (* in text; lit is reversed *)
| MOpen1 (lit : str)     (* one '{' seen *)
| MOpen2                 (* "{{" seen *)
| MName (nm : str)       (* "{{." seen, nm reversed *)
| MClose (nm : str)      (* "{{.NAME}" seen *)
| MErr.

Definition flush (lit : str) (acc : list seg) : list seg :=
  match lit with [] => acc | _ => SLit (rev lit) :: acc end.

Definition pstep (st : list seg * pmode) (c : N) : list seg * pmode :=
  let '(acc, m) := st in
  match m with
  | MText lit => if (c =? lbrace)%N then (acc, MOpen1 lit) else (acc, MText (c :: lit))
  | MOpen1 lit => if (c =? lbrace)%N then (flush lit acc, MOpen2) else (acc, MText (c :: lbrace :: lit))
  | MOpen2 => if (c =? dot)%N then (acc, MName []) else (acc, MErr)
  | MName nm =>
      match nm with
      | [] => if is_alpha c then (acc, MName [c]) else (acc, MErr)
      | _ => if is_alpha c || is_digit c then (acc, MName (c :: nm))
             else if (c =? rbrace)%N then (acc, MClose nm) else (acc, MErr)
      end
  | MClose nm => if (c =? rbrace)%N then (SVar (rev nm) :: acc, MText []) else (acc, MErr)
  | MErr => (acc, MErr)
  end.

(* None: the string is outside the modelled template subset *)
Definition parse (s : str) : option (list seg) :=
  match fold_left pstep s ([], MText []) with
  | (acc, MText lit) => Some (rev (flush lit acc))
  | (acc, MOpen1 lit) => Some (rev (flush (lbrace :: lit) acc))
  | _ => None
  end.

Definition vars := list (str * str).
Definition no_value : str := [60; 110; 111; 32; 118; 97; 108; 117; 101; 62]%N.   (* "<no value>" *)
Definition subst (e : vars) (s : seg) : str :=
  match s with
  | SLit l => l
  | SVar n => match lookup n e with Some v => v | None => no_value end
  end.
Definition render_segs (e : vars) (segs : list seg) : str := concat (map (subst e) segs).

(* Templater.render with extra != nil and len(extra) >= 1 (PC_REPLICA_NUM is always present) *)
Definition render (e : vars) (s : str) : str :=
  match s with
  | [] => []
  | _ => match parse s with Some segs => render_segs e segs | None => s end
  end.

Definition pc_replica_num : str :=
  [80; 67; 95; 82; 69; 80; 76; 73; 67; 65; 95; 78; 85; 77]%N.   (* "PC_REPLICA_NUM" *)
(* maps.Clone(global); maps.Copy(m, procVars) with procVars["PC_REPLICA_NUM"] = i :
   the first binding wins in [lookup] *)
Definition env (G P : vars) (i : nat) : vars := (pc_replica_num, dec i) :: P ++ G.

(* ---------- probes ------------------------------------------------------------------------------ *)
Record eprobe := mkE { e_cmd : str; e_wd : str }.
Record hprobe := mkH { h_host : str; h_path : str; h_scheme : str; h_port : str; h_num : Z }.
Record probe := mkP {
  p_exec : option eprobe; p_http : option hprobe;
  p_delay : Z; p_period : Z; p_timeout : Z; p_succ : Z; p_fail : Z }.

Fixpoint digits_val (s : str) (acc : Z) : option Z :=
  match s with
  | [] => Some acc
  | c :: r => if is_digit c then digits_val r (acc * 10 + (Z.of_N c - 48))%Z else None
  end.
(* v, _ = strconv.Atoi(s): 0 on a syntax error; a range error gives +-MaxInt64, which the caller
   treats like any value outside 1..65535, so unbounded Z is equivalent here *)
Definition atoi (s : str) : Z :=
  match s with
  | [] => 0%Z
  | c :: r =>
      if (c =? 43)%N then match r with [] => 0%Z | _ => match digits_val r 0 with Some v => v | None => 0%Z end end
      else if (c =? 45)%N then match r with [] => 0%Z | _ => match digits_val r 0 with Some v => (- v)%Z | None => 0%Z end end
      else match digits_val s 0 with Some v => v | None => 0%Z end
  end.
(* len(strings.TrimSpace(s)) == 0 for ASCII strings *)
Definition is_space (c : N) : bool := ((9 <=? c) && (c <=? 13) || (c =? 32))%N.
Definition blank (s : str) : bool := forallb is_space s.

Definition s_localhost : str := [49; 50; 55; 46; 48; 46; 48; 46; 49]%N.  (* "127.0.0.1" *)
Definition s_http : str := [104; 116; 116; 112]%N.
Definition s_slash : str := [47]%N.

Definition http_defaults (h : hprobe) : hprobe :=
  let host := if blank (h_host h) then s_localhost else h_host h in
  let scheme := if blank (h_scheme h) then s_http else h_scheme h in
  let path := if blank (h_path h) then s_slash else h_path h in
  let n := match h_port h with [] => 0%Z | _ => atoi (h_port h) end in
  let n := if ((n <? 1) || (n >? 65535))%Z then 0%Z else n in
  mkH host path scheme (h_port h) n.

Definition probe_defaults (p : probe) : probe :=
  mkP (p_exec p) (option_map http_defaults (p_http p))
      (if (p_delay p <? 0)%Z then 0%Z else p_delay p)
      (if (p_period p <? 1)%Z then 10%Z else p_period p)
      (if (p_timeout p <? 1)%Z then 1%Z else p_timeout p)
      (if (p_succ p <? 1)%Z then 1%Z else p_succ p)
      (if (p_fail p <? 1)%Z then 3%Z else p_fail p).

(* copyWorkingDirToProbes for one probe: the (still unrendered) process working dir *)
Definition probe_wd (wd : str) (p : probe) : probe :=
  match p_exec p with
  | Some e => match e_wd e with
              | [] => mkP (Some (mkE (e_cmd e) wd)) (p_http p) (p_delay p) (p_period p) (p_timeout p) (p_succ p) (p_fail p)
              | _ => p
              end
  | None => p
  end.

(* Templater.renderProbe *)
Definition render_probe (e : vars) (p : probe) : probe :=
  probe_defaults
    match p_exec p with
    | Some x => mkP (Some (mkE (render e (e_cmd x)) (e_wd x))) (p_http p)
                    (p_delay p) (p_period p) (p_timeout p) (p_succ p) (p_fail p)
    | None =>
        match p_http p with
        | Some h => mkP None (Some (mkH (render e (h_host h)) (render e (h_path h)) (render e (h_scheme h))
                                        (render e (h_port h)) (h_num h)))
                        (p_delay p) (p_period p) (p_timeout p) (p_succ p) (p_fail p)
        | None => p
        end
    end.

(* ---------- processes -------------------------------------------------------------------------- *)
Record proc := mkProc {
  name : str; namespace : str; replicas : Z; launch_timeout : Z;
  command : str; entrypoint : list str; working_dir : str; log_location : str; description : str;
  pvars : vars; is_elevated : bool;
  readiness : option probe; liveness : option probe;
  replica_num : nat; replica_name : str; executable : str; args : list str }.

Record shellcfg := mkSh { sh_cmd : str; sh_arg : str; sh_ecmd : str; sh_earg : str }.

Record config := mkCfg {
  g_vars : vars;                   (* project-level vars *)
  shell_in : option shellcfg;      (* `shell:` section *)
  shell_dflt : shellcfg;           (* command.DefaultShellConfig() of the environment *)
  tui_disabled : bool;
  procs : list (str * proc) }.

Definition pmap := list (str * proc).
Record project := mkPrj { o_shell : shellcfg; o_procs : pmap }.

Definition s_default : str := [100; 101; 102; 97; 117; 108; 116]%N.   (* "default" *)
Definition default_launch_timeout : Z := 5.

(* setDefaultShell *)
Definition set_default_shell (c : config) : shellcfg :=
  match shell_in c with
  | None => shell_dflt c
  | Some s => match sh_ecmd s, sh_earg s with
              | _ :: _, _ :: _ => s
              | _, _ => mkSh (sh_cmd s) (sh_arg s) (sh_ecmd (shell_dflt c)) (sh_earg (shell_dflt c))
              end
  end.

(* body of assignDefaultProcessValues for the entry with key k *)
Definition dflt (k : str) (p : proc) : proc :=
  mkProc k (match namespace p with [] => s_default | _ => namespace p end)
         (if (replicas p <? 1)%Z then 1%Z else replicas p)
         (if (launch_timeout p <? 1)%Z then default_launch_timeout else launch_timeout p)
         (command p) (entrypoint p) (working_dir p) (log_location p) (description p)
         (pvars p) (is_elevated p) (readiness p) (liveness p)
         (replica_num p) (replica_name p) (executable p) (args p).

Definition nreps (p : proc) : nat := Z.to_nat (replicas p).
Definition multi (p : proc) : bool := (1 <? replicas p)%Z.

(* one iteration of the inner loop of cloneReplicas: a copy BY VALUE (repaired code) *)
Definition mkrep (p : proc) (i : nat) : proc :=
  mkProc (name p) (namespace p) (replicas p) (launch_timeout p)
         (command p) (entrypoint p) (working_dir p) (log_location p) (description p)
         (pvars p) (is_elevated p) (readiness p) (liveness p)
         i (rname (name p) (nreps p) i) (executable p) (args p).

(* body of copyWorkingDirToProbes *)
Definition copy_wd (p : proc) : proc :=
  mkProc (name p) (namespace p) (replicas p) (launch_timeout p)
         (command p) (entrypoint p) (working_dir p) (log_location p) (description p)
         (pvars p) (is_elevated p)
         (option_map (probe_wd (working_dir p)) (readiness p))
         (option_map (probe_wd (working_dir p)) (liveness p))
         (replica_num p) (replica_name p) (executable p) (args p).

(* Templater.RenderProcess (OriginalConfig is not part of the record) *)
Definition render_proc (G : vars) (p : proc) : proc :=
  let e := env G (pvars p) (replica_num p) in
  mkProc (name p) (namespace p) (replicas p) (launch_timeout p)
         (render e (command p)) (entrypoint p) (render e (working_dir p)) (render e (log_location p))
         (render e (description p))
         (upsert pc_replica_num (dec (replica_num p)) (pvars p)) (is_elevated p)
         (option_map (render_probe e) (readiness p))
         (option_map (render_probe e) (liveness p))
         (replica_num p) (replica_name p) (executable p) (args p).

Definition space : N := 32%N.
(* ProcessConfig.AssignProcessExecutableAndArgs; earg = Project.GetElevatedShellArg() *)
Definition assign_exec (sh : shellcfg) (earg : str) (p : proc) : proc :=
  let upd ep ex ar :=
    mkProc (name p) (namespace p) (replicas p) (launch_timeout p)
           (command p) ep (working_dir p) (log_location p) (description p)
           (pvars p) (is_elevated p) (readiness p) (liveness p)
           (replica_num p) (replica_name p) ex ar in
  match command p, entrypoint p with
  | [], x :: r =>
      let ep := if is_elevated p then sh_ecmd sh :: earg :: x :: r else x :: r in
      upd ep (hd [] ep) (tl ep)
  | [], [] => upd [] (sh_cmd sh) (args p)
  | c, ep =>
      upd ep (sh_cmd sh)
          (if is_elevated p then [sh_arg sh; sh_ecmd sh ++ space :: earg ++ space :: c]
           else [sh_arg sh; c])
  end.

(* ---------- passes over the process map, iteration order explicit ------------------------------ *)
(* the order in which `range` visits the entries of the map it is given *)
Definition order := pmap -> pmap.

(* for k, v := range m { m[k] = f k v } *)
Definition range_update (o : order) (f : str -> proc -> proc) (m : pmap) : pmap :=
  fold_left (fun acc kv => upsert (fst kv) (f (fst kv) (snd kv)) acc) (o m) m.

(* cloneReplicas *)
Definition clone (o : order) (m : pmap) : pmap :=
  let it := o m in
  let m1 := fold_left (fun acc kv => if multi (snd kv) || (replicas (snd kv) <? 1)%Z then acc
                                     else upsert (replica_name (mkrep (snd kv) 0)) (mkrep (snd kv) 0) acc) it m in
  let mult := filter (fun kv => multi (snd kv)) it in
  let to_del := map fst mult in
  let to_add := flat_map (fun kv => map (mkrep (snd kv)) (seq 0 (nreps (snd kv)))) mult in
  let m2 := fold_left (fun acc k => remove k acc) to_del m1 in
  fold_left (fun acc p => upsert (replica_name p) p acc) to_add m2.

Record orders := mkOrd { o_dflt : order; o_clone : order; o_wd : order; o_render : order; o_exec : order }.

Definition elevated_arg (c : config) (sh : shellcfg) : str := if tui_disabled c then [] else sh_earg sh.

(* the passes after cloneReplicas *)
Definition post_clone (os : orders) (G : vars) (sh : shellcfg) (earg : str) (m : pmap) : pmap :=
  range_update (o_exec os) (fun _ => assign_exec sh earg)
    (range_update (o_render os) (fun _ => render_proc G)
       (range_update (o_wd os) (fun _ => copy_wd) m)).

Definition load (os : orders) (c : config) : project :=
  let sh := set_default_shell c in
  mkPrj sh (post_clone os (g_vars c) sh (elevated_arg c sh)
              (clone (o_clone os) (range_update (o_dflt os) dflt (procs c)))).

Definition id_orders : orders := mkOrd (fun m => m) (fun m => m) (fun m => m) (fun m => m) (fun m => m).
Definition rev_orders : orders := mkOrd (@rev _) (@rev _) (@rev _) (@rev _) (@rev _).

(* what a single replica looks like at the end, as a function of its source entry only *)
Definition final (c : config) (k : str) (p : proc) (i : nat) : proc :=
  let sh := set_default_shell c in
  assign_exec sh (elevated_arg c sh) (render_proc (g_vars c) (copy_wd (mkrep (dflt k p) i))).

(* the whole template subset check for one source process *)
Definition ok_tpl (s : str) : bool := match s with [] => true | _ => match parse s with Some _ => true | None => false end end.
Definition probe_in_subset (p : probe) : bool :=
  match p_exec p with
  | Some x => ok_tpl (e_cmd x)
  | None => match p_http p with
            | Some h => ok_tpl (h_host h) && ok_tpl (h_path h) && ok_tpl (h_scheme h) && ok_tpl (h_port h)
            | None => true
            end
  end.
Definition proc_in_subset (p : proc) : bool :=
  ok_tpl (command p) && ok_tpl (working_dir p) && ok_tpl (log_location p) && ok_tpl (description p) &&
  match readiness p with Some x => probe_in_subset x | None => true end &&
  match liveness p with Some x => probe_in_subset x | None => true end.
Definition in_subset (c : config) : bool := forallb (fun kv => proc_in_subset (snd kv)) (procs c).
