(* Model of replica naming and of scaling a process at run time.  No proofs in this file.

   Go code modelled (line numbers of the pinned commit; "after repair" = with fixes/D1..D3 and the
   cloneReplicas deep copy F4 applied):
     CalculateReplicaName   src/types/process.go:68-74      width, pad, replica_name
     cloneReplicas          src/loader/mutators.go:90-114   load_one / load        (after repair F4)
     ScaleProcess           src/app/project_runner.go:669-693   scale
     getCurrentReplicaCount :695-703                        count_base
     scaleUpProcess         :705-721                        scale_up   (after repair D2/D3: the replica
                                                            re-created from OriginalConfig renders as a loaded one)
     scaleDownProcess       :723-749                        scale_down
     updateReplicaCount     :751-761                        update_rc  (a loop over the map that is mutated)
     renameProcess          :763-788                        rename     (running registry, log, state, config)
     removeProcess          :800-816                        mdel       (after repair D1: the state entry goes too)
     addProcessAndRun       :818-827                        mset of a new entry

   The project is the list of its replica entries in the order in which Go's map iteration happens to
   produce them; all theorems hold for every order.  One entry stands for the four per-replica records
   that must stay in step: configuration (project.Processes), state (processStates), log (processLogs),
   running instance (runningProcesses); all four are keyed by the replica name [rname]. *)
From Coq Require Import List NArith ZArith Bool Arith.
Import ListNotations.

Definition bytes := list N.

Fixpoint beq (a b : bytes) : bool :=
  match a, b with
  | [], [] => true
  | x :: r, y :: s => N.eqb x y && beq r s
  | _, _ => false
  end.

(* ---- decimal rendering: fmt.Sprintf("%0*d", w, i) for i >= 0 -------------------------------------- *)
(* little-endian digit values of n (empty for 0); fuel bounds the recursion, see [fuel_of] *)
Fixpoint dig_le (fuel : nat) (n : N) : list N :=
  match fuel with
  | O => []
  | S f => if (n =? 0)%N then [] else (n mod 10)%N :: dig_le f (n / 10)%N
  end.
Definition fuel_of (n : N) : nat := S (N.to_nat (N.log2 n)).
Definition dec (n : N) : bytes :=
  if (n =? 0)%N then [48%N] else map (fun d => (48 + d)%N) (rev (dig_le (fuel_of n) n)).
(* 1 + int(math.Log10(float64(n))): the number of decimal digits of n (lemma width_spec); the
   floating-point computation is compared, not trusted (exact up to 10^15 - 1 on this platform) *)
Definition width (n : N) : nat := length (dec n).
Definition pad (w : nat) (i : N) : bytes := repeat 48%N (w - length (dec i)) ++ dec i.

Definition replica_name (b : bytes) (reps num : nat) : bytes :=
  if reps <=? 1 then b else b ++ [45%N] ++ pad (width (N.of_nat reps)) (N.of_nat num).

(* ---- entries ------------------------------------------------------------------------------------ *)
Record entry := mkE {
  rname : bytes;   (* ReplicaName = key in all four maps *)
  base  : bytes;   (* Name *)
  num   : nat;     (* ReplicaNum *)
  reps  : nat;     (* Replicas *)
  orig  : N;       (* identity of the pre-render template (OriginalConfig) *)
  rend  : nat;     (* the replica number command/args/description/vars were rendered for *)
  prend : nat;     (* the replica number the probe was rendered for *)
  inst  : N;       (* identity of the running command instance *)
  logw  : N;       (* identity of the log buffer (= the instance that writes into it) *)
  logn  : nat      (* number of lines in that log buffer (one marker line per observation) *)
}.

Definition set_reps (n : nat) (e : entry) : entry :=
  mkE (rname e) (base e) (num e) n (orig e) (rend e) (prend e) (inst e) (logw e) (logn e).
Definition set_rname (k : bytes) (e : entry) : entry :=
  mkE k (base e) (num e) (reps e) (orig e) (rend e) (prend e) (inst e) (logw e) (logn e).

(* ---- the map ------------------------------------------------------------------------------------ *)
Definition proj := list entry.

Fixpoint mfind (k : bytes) (m : proj) : option entry :=
  match m with
  | [] => None
  | e :: r => if beq (rname e) k then Some e else mfind k r
  end.
(* m[rname e] = e *)
Fixpoint mset (e : entry) (m : proj) : proj :=
  match m with
  | [] => [e]
  | x :: r => if beq (rname x) (rname e) then e :: r else x :: mset e r
  end.
(* delete(m, k) *)
Definition mdel (k : bytes) (m : proj) : proj := filter (fun e => negb (beq (rname e) k)) m.

(* ---- loading (the reference) --------------------------------------------------------------------- *)
(* cloneReplicas + renderTemplates for one configured process: [k] replicas (0 means 1, see
   assignDefaultProcessValues), template [t]; [i0] gives the run-time identities *)
Definition norm_reps (k : nat) : nat := if k =? 0 then 1 else k.
Definition load_entry (b : bytes) (k : nat) (t : N) (i0 : nat -> N) (i : nat) : entry :=
  mkE (replica_name b k i) b i k t i i (i0 i) (i0 i) 0.
Definition load_one (b : bytes) (k : nat) (t : N) (i0 : nat -> N) : proj :=
  map (load_entry b (norm_reps k) t i0) (seq 0 (norm_reps k)).
Definition load (cfg : list (bytes * nat * N)) (i0 : bytes -> nat -> N) : proj :=
  flat_map (fun c => let '(b, k, t) := c in load_one b k t (i0 b)) cfg.

(* ---- scaling ------------------------------------------------------------------------------------- *)
Definition count_base (b : bytes) (m : proj) : nat := length (filter (fun e => beq (base e) b) m).

(* renameProcess(name, newName): running registry, log, state and configuration move together *)
Definition rename (old new : bytes) (m : proj) : proj :=
  match mfind old m with
  | Some c => mset (set_rname new c) (mdel old m)
  | None => m
  end.

(* one iteration of updateReplicaCount's loop body for the entry e that the iteration produced *)
Definition urc_step (b : bytes) (n : nat) (m : proj) (e : entry) : proj :=
  if beq (base e) b then
    let e1 := set_reps n e in
    let m1 := mset e1 m in
    let nn := replica_name (base e1) (reps e1) (num e1) in
    if beq (rname e1) nn then m1 else rename (rname e1) nn m1
  else m.
(* the loop ranges over the map it mutates: every entry present at the start is produced once (entries
   are only removed by their own iteration); entries inserted by a rename may be produced too, for them
   the body changes nothing (lemma urc_step_revisit) *)
Definition update_rc (b : bytes) (n : nat) (m : proj) : proj := fold_left (urc_step b n) m m.

Definition sd_keep (b : bytes) (n : nat) (e : entry) : bool := beq (base e) b && (num e <? n).
Definition sd_drop (b : bytes) (n : nat) (e : entry) : bool := beq (base e) b && (n <=? num e).
Definition scale_down (b : bytes) (n : nat) (m : proj) : proj * list N :=
  let m1 := fold_left (fun acc e => if sd_keep b n e then mset (set_reps n e) acc else acc) m m in
  let rm := filter (sd_drop b n) m in
  (fold_left (fun acc e => mdel (rname e) acc) rm m1, map inst rm).

Definition new_entry (e : entry) (n : nat) (fresh : nat -> N) (i : nat) : entry :=
  mkE (replica_name (base e) n i) (base e) i n (orig e) i i (fresh i) (fresh i) 0.
Definition scale_up (e : entry) (o n : nat) (fresh : nat -> N) (m : proj) : proj :=
  fold_left (fun acc i => mset (new_entry e n fresh i) acc) (seq o (n - o)) m.

Inductive res := Ok | Err.

(* ScaleProcess(name, scale): result, new project, instances stopped, instances launched *)
Definition scale (fresh : nat -> N) (m : proj) (nm : bytes) (n : Z) : res * proj * list N * list N :=
  if (n <? 1)%Z then (Err, m, [], []) else
  match mfind nm m with
  | None => (Err, m, [], [])
  | Some e =>
      let b := base e in
      let k := Z.to_nat n in
      let o := count_base b m in
      if k <? o then
        let '(m1, st) := scale_down b k m in (Ok, update_rc b k m1, st, [])
      else if o <? k then
        (Ok, update_rc b k (scale_up e o k fresh m), [], map fresh (seq o (k - o)))
      else (Ok, m, [], [])
  end.

Definition scale_proj (fresh : nat -> N) (m : proj) (nm : bytes) (n : Z) : proj :=
  match scale fresh m nm n with (_, m', _, _) => m' end.

(* a history of requests; the i-th request draws its fresh identities from [fresh i] *)
Fixpoint run_reqs (fresh : nat -> nat -> N) (i : nat) (m : proj) (reqs : list (bytes * Z)) : proj :=
  match reqs with
  | [] => m
  | (nm, n) :: r => run_reqs fresh (S i) (scale_proj (fresh i) m nm n) r
  end.

(* the name function on binary numbers (same body; lemma replica_name_N_eq), used to evaluate the
   name function far beyond the counts for which replicas can actually be created *)
Definition replica_name_N (b : bytes) (reps num : N) : bytes :=
  if (reps <=? 1)%N then b else b ++ [45%N] ++ pad (width reps) num.
