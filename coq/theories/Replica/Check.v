(* Correspondence checker (model vs observation) and property monitor (specification-level oracle evaluated
   on the implementation's observed behaviour) for C13; evaluated by vm_compute on the cases written by
   harness/cmd/c13.  No proofs in this file. *)
From Coq Require Import String Ascii.
From Coq Require Import List ZArith Bool NArith Arith.
From PC.Base Require Import Util.
From PC.Replica Require Import Model.
Import ListNotations.

Definition b (s : string) : bytes := map N_of_ascii (list_ascii_of_string s).

(* one replica as observed after a request (keys are the keys of project.Processes) *)
Record oent := mkO {
  o_key : bytes; o_base : bytes; o_num : nat; o_reps : nat; o_rname : bytes;
  o_tmpl : N; o_rend : nat; o_prend : nat;
  o_inst : N;        (* the live command registered under this name (0 = none) *)
  o_nalive : nat;    (* number of live commands under this name *)
  o_logw : N;        (* whose marker lines the log stored under this name holds (999999999 = mixed) *)
  o_logn : nat;      (* how many marker lines *)
  o_stinst : N;      (* the command whose pid the state stored under this name reports *)
  o_sname : bytes;   (* state.Name *)
  o_runname : bytes; (* the name the running Process object reports *)
  o_cfg : N          (* digest of the whole configuration (all fields but OriginalConfig/extensions) *)
}.
(* one replica of the reference: a fresh loader.Load of the same YAML with the requested count *)
Record rent := mkR { r_key : bytes; r_base : bytes; r_num : nat; r_reps : nat; r_tmpl : N; r_rend : nat; r_prend : nat; r_cfg : N }.

Record obs := mkObs {
  ob_err : bool; ob_quiet : bool; ob_entries : list oent;
  ob_statekeys : list bytes; ob_logkeys : list bytes; ob_runkeys : list bytes; ob_apistates : list bytes;
  ob_orphans : list N; ob_stopped : list (N * bool); ob_launched : list N; ob_ref : list rent }.

Record ocase := mkCase { c_cfg : list (bytes * nat * N); c_reqs : list (bytes * Z); c_init : obs; c_steps : list obs }.

Definition memN (x : N) (l : list N) : bool := existsb (N.eqb x) l.
Definition subsetN (l1 l2 : list N) : bool := forallb (fun x => memN x l2) l1.
Definition seteqN (l1 l2 : list N) : bool := subsetN l1 l2 && subsetN l2 l1 && Nat.eqb (length l1) (length l2).
Definition keys_eqb := list_eqb beq.

(* the four maps hold the same keys and every record under a key belongs to that key *)
Definition coherent (o : oent) : bool :=
  beq (o_key o) (o_rname o) && beq (o_sname o) (o_key o) && beq (o_runname o) (o_key o) &&
  N.eqb (o_stinst o) (o_inst o) && N.eqb (o_logw o) (o_inst o) && Nat.eqb (o_nalive o) 1 && negb (N.eqb (o_inst o) 0).
Definition maps_ok (o : obs) : bool :=
  let ks := map o_key (ob_entries o) in
  keys_eqb (ob_statekeys o) ks && keys_eqb (ob_logkeys o) ks && keys_eqb (ob_runkeys o) ks &&
  keys_eqb (ob_apistates o) ks && forallb coherent (ob_entries o).
Definition quiet_ok (o : obs) : bool :=
  ob_quiet o && match ob_orphans o with [] => true | _ => false end.

(* ---- model agreement --------------------------------------------------------------------------------- *)
Fixpoint idx_of (x : bytes) (cfg : list (bytes * nat * N)) : nat :=
  match cfg with
  | [] => 0
  | (y, _, _) :: r => if beq y x then 0 else S (idx_of x r)
  end.
Definition init_ids (cfg : list (bytes * nat * N)) (x : bytes) (i : nat) : N := (N.of_nat (idx_of x cfg) * 1000 + N.of_nat i + 1)%N.
Definition fresh_ids (step : nat) (i : nat) : N := (N.of_nat (S step) * 100000 + N.of_nat i + 1)%N.
Definition bump (m : proj) : proj :=
  map (fun e => mkE (rname e) (base e) (num e) (reps e) (orig e) (rend e) (prend e) (inst e) (logw e) (S (logn e))) m.

Definition ent_eqb (e : entry) (o : oent) : bool :=
  beq (rname e) (o_rname o) && beq (base e) (o_base o) && Nat.eqb (num e) (o_num o) && Nat.eqb (reps e) (o_reps o) &&
  N.eqb (orig e) (o_tmpl o) && Nat.eqb (rend e) (o_rend o) && Nat.eqb (prend e) (o_prend o) &&
  N.eqb (inst e) (o_inst o) && N.eqb (logw e) (o_logw o) && Nat.eqb (logn e) (o_logn o).

Definition proj_agrees (m : proj) (o : obs) : bool :=
  Nat.eqb (length m) (length (ob_entries o)) &&
  forallb (fun oe => match mfind (o_key oe) m with Some e => ent_eqb e oe | None => false end) (ob_entries o).

Definition res_eqb (r : res) (e : bool) : bool := match r with Ok => negb e | Err => e end.

Fixpoint model_steps (i : nat) (m : proj) (reqs : list (bytes * Z)) (os : list obs) : bool :=
  match reqs, os with
  | [], [] => true
  | (nm, n) :: rq, o :: ro =>
      let '(r, m', st, la) := scale (fresh_ids i) m nm n in
      let m'' := bump m' in
      res_eqb r (ob_err o) && proj_agrees m'' o && maps_ok o && quiet_ok o &&
      seteqN st (map fst (ob_stopped o)) && forallb snd (ob_stopped o) && seteqN la (ob_launched o) &&
      model_steps (S i) m'' rq ro
  | _, _ => false
  end.

Definition model_ok (c : ocase) : bool :=
  let m0 := bump (load (c_cfg c) (init_ids (c_cfg c))) in
  proj_agrees m0 (c_init c) && maps_ok (c_init c) && quiet_ok (c_init c) &&
  seteqN (map inst m0) (ob_launched (c_init c)) &&
  model_steps 0 m0 (c_reqs c) (c_steps c).

(* ---- the property monitor ------------------------------------------------------------------------------ *)
Definition is_digit (c : N) : bool := (48 <=? c)%N && (c <=? 57)%N.
Definition parse_dec (l : bytes) : N := fold_left (fun a c => (10 * a + (c - 48))%N) l 0%N.
Fixpoint strip_prefix (p l : bytes) : option bytes :=
  match p, l with
  | [], _ => Some l
  | x :: p', y :: l' => if N.eqb x y then strip_prefix p' l' else None
  | _, [] => None
  end.

(* "numbered 0..n-1 with distinct names of uniform zero-padded width (the bare name when n is 1)" *)
Definition names_ok (bs : bytes) (k : nat) (B : list oent) : bool :=
  list_eqb Nat.eqb (map o_num B) (seq 0 k) &&
  forallb (fun o => Nat.eqb (o_reps o) k && beq (o_base o) bs) B &&
  if Nat.eqb k 1 then forallb (fun o => beq (o_key o) bs) B
  else
    let sufs := map (fun o => strip_prefix (bs ++ [45%N]) (o_key o)) B in
    let w := match sufs with Some s :: _ => length s | _ => 0 end in
    negb (Nat.eqb w 0) &&
    forallb (fun p => match snd p with
                      | Some s => Nat.eqb (length s) w && forallb is_digit s && N.eqb (parse_dec s) (N.of_nat (o_num (fst p)))
                      | None => false end) (combine B sufs).

(* "each with its own ... configuration rendered for its own replica number - the same set a fresh load
   with replicas: n would produce": the whole project equals the reference, and the reference is sane *)
Definition cfg_eqb (o : oent) (r : rent) : bool :=
  beq (o_key o) (r_key r) && beq (o_base o) (r_base r) && Nat.eqb (o_num o) (r_num r) && Nat.eqb (o_reps o) (r_reps r) &&
  N.eqb (o_tmpl o) (r_tmpl r) && Nat.eqb (o_rend o) (r_rend r) && Nat.eqb (o_prend o) (r_prend r) && N.eqb (o_cfg o) (r_cfg r).
Fixpoint list_all2 {A B} (f : A -> B -> bool) (l1 : list A) (l2 : list B) : bool :=
  match l1, l2 with
  | [], [] => true
  | x :: r1, y :: r2 => f x y && list_all2 f r1 r2
  | _, _ => false
  end.
Definition own_number (o : oent) : bool := Nat.eqb (o_rend o) (o_num o) && Nat.eqb (o_prend o) (o_num o).
Definition config_ok (o : obs) : bool :=
  list_all2 cfg_eqb (ob_entries o) (ob_ref o) && forallb own_number (ob_entries o).

Definition find_key (k : bytes) (l : list oent) : option oent := find (fun o => beq (o_key o) k) l.
Definition of_base (bs : bytes) (l : list oent) : list oent := filter (fun o => beq (o_base o) bs) l.
Definition not_base (bs : bytes) (l : list oent) : list oent := filter (fun o => negb (beq (o_base o) bs)) l.

(* same replica, untouched: same instance, same log (one more marker line), same state *)
Definition same_live (p o : oent) : bool :=
  N.eqb (o_inst p) (o_inst o) && N.eqb (o_logw p) (o_logw o) && Nat.eqb (S (o_logn p)) (o_logn o) &&
  N.eqb (o_stinst p) (o_stinst o) && Nat.eqb (o_nalive o) 1.
Definition same_all (p o : oent) : bool :=
  same_live p o && beq (o_key p) (o_key o) && beq (o_base p) (o_base o) && Nat.eqb (o_num p) (o_num o) &&
  Nat.eqb (o_reps p) (o_reps o) && N.eqb (o_cfg p) (o_cfg o).

Record stepview := mkSV { sv_prev : obs; sv_cur : obs; sv_nm : bytes; sv_n : Z }.
Definition sv_valid (s : stepview) : bool :=
  (1 <=? sv_n s)%Z && match find_key (sv_nm s) (ob_entries (sv_prev s)) with Some _ => true | None => false end.
Definition sv_base (s : stepview) : bytes :=
  match find_key (sv_nm s) (ob_entries (sv_prev s)) with Some o => o_base o | None => [] end.
Definition sv_k (s : stepview) : nat := Z.to_nat (sv_n s).
Definition sv_old (s : stepview) : nat := length (of_base (sv_base s) (ob_entries (sv_prev s))).

(* "scale requests with n<1 or an unknown name fail without changing anything" *)
Definition h_error (s : stepview) : bool :=
  if sv_valid s then negb (ob_err (sv_cur s))
  else ob_err (sv_cur s) && list_all2 same_all (ob_entries (sv_prev s)) (ob_entries (sv_cur s)) &&
       match ob_stopped (sv_cur s), ob_launched (sv_cur s) with [], [] => true | _, _ => false end.
Definition h_names (s : stepview) : bool :=
  if sv_valid s then names_ok (sv_base s) (sv_k s) (of_base (sv_base s) (ob_entries (sv_cur s))) else true.
Definition h_config (s : stepview) : bool := config_ok (sv_cur s).
Definition h_maps (s : stepview) : bool := maps_ok (sv_cur s).
Definition h_quiet (s : stepview) : bool := quiet_ok (sv_cur s).
(* "replicas that exist both before and after keep running without being restarted" *)
Definition h_kept (s : stepview) : bool :=
  if sv_valid s then
    let P := of_base (sv_base s) (ob_entries (sv_prev s)) in
    forallb (fun p => if o_num p <? sv_k s then
                        match find (fun o => Nat.eqb (o_num o) (o_num p)) (of_base (sv_base s) (ob_entries (sv_cur s))) with
                        | Some o => same_live p o
                        | None => false
                        end
                      else true) P
  else true.
(* "removed replicas are terminated" *)
Definition h_removed (s : stepview) : bool :=
  if sv_valid s then
    let P := filter (fun p => sv_k s <=? o_num p) (of_base (sv_base s) (ob_entries (sv_prev s))) in
    seteqN (map o_inst P) (map fst (ob_stopped (sv_cur s))) && forallb snd (ob_stopped (sv_cur s)) &&
    forallb (fun p => negb (memN (o_inst p) (map o_inst (ob_entries (sv_cur s))))) P
  else true.
(* "added ones are launched" *)
Definition h_added (s : stepview) : bool :=
  if sv_valid s then
    let A := filter (fun o => sv_old s <=? o_num o) (of_base (sv_base s) (ob_entries (sv_cur s))) in
    seteqN (map o_inst A) (ob_launched (sv_cur s)) &&
    forallb (fun o => negb (memN (o_inst o) (map o_inst (ob_entries (sv_prev s)))) && Nat.eqb (o_logn o) 1 &&
                      N.eqb (o_logw o) (o_inst o) && negb (N.eqb (o_inst o) 0)) A
  else true.
(* "other processes are untouched" *)
Definition h_others (s : stepview) : bool :=
  if sv_valid s then
    list_all2 same_all (not_base (sv_base s) (ob_entries (sv_prev s))) (not_base (sv_base s) (ob_entries (sv_cur s)))
  else true.

Fixpoint views (prev : obs) (reqs : list (bytes * Z)) (os : list obs) : list stepview :=
  match reqs, os with
  | (nm, n) :: rq, o :: ro => mkSV prev o nm n :: views o rq ro
  | _, _ => []
  end.
Definition all_steps (h : stepview -> bool) (c : ocase) : bool :=
  forallb h (views (c_init c) (c_reqs c) (c_steps c)) && Nat.eqb (length (c_reqs c)) (length (c_steps c)).

Definition h_init (c : ocase) : bool :=
  config_ok (c_init c) && maps_ok (c_init c) && quiet_ok (c_init c) &&
  forallb (fun cf => let '(bs, k, _) := cf in
                     names_ok bs (norm_reps k) (of_base bs (ob_entries (c_init c)))) (c_cfg c).

Definition holds_C13 (c : ocase) : bool :=
  h_init c && all_steps h_error c && all_steps h_names c && all_steps h_config c && all_steps h_maps c &&
  all_steps h_kept c && all_steps h_removed c && all_steps h_added c && all_steps h_others c && all_steps h_quiet c.

Definition bad_model (cs : list ocase) : list nat := failing model_ok cs.
Definition bad_monitor (cs : list ocase) : list nat := failing holds_C13 cs.
Definition bad_init (cs : list ocase) : list nat := failing h_init cs.
Definition bad_error (cs : list ocase) : list nat := failing (all_steps h_error) cs.
Definition bad_names (cs : list ocase) : list nat := failing (all_steps h_names) cs.
Definition bad_config (cs : list ocase) : list nat := failing (all_steps h_config) cs.
Definition bad_maps (cs : list ocase) : list nat := failing (all_steps h_maps) cs.
Definition bad_kept (cs : list ocase) : list nat := failing (all_steps h_kept) cs.
Definition bad_removed (cs : list ocase) : list nat := failing (all_steps h_removed) cs.
Definition bad_added (cs : list ocase) : list nat := failing (all_steps h_added) cs.
Definition bad_others (cs : list ocase) : list nat := failing (all_steps h_others) cs.
Definition bad_quiet (cs : list ocase) : list nat := failing (all_steps h_quiet) cs.

(* the name function alone: (base, replicas, number, what CalculateReplicaName returned) *)
Definition bad_namecases (ns : list (bytes * N * N * bytes)) : list nat :=
  failing (fun x => let '(bs, r, i, got) := x in beq (replica_name_N bs r i) got) ns.
