(* Proofs about the Replica model: decimal names, the map operations, the loops of scaling, and the main
   result: scaling a loaded project gives (a permutation of) the project loaded with the new count. *)
From Coq Require Import List NArith ZArith Bool Arith Lia Permutation.
From PC.Replica Require Import Model.
Import ListNotations.

Ltac Zify.zify_post_hook ::= Z.to_euclidean_division_equations.

(* ---------------------------------------------------------------------------------------------- bytes *)
Lemma beq_eq : forall a b, beq a b = true <-> a = b.
Proof.
  induction a as [|x r IH]; intros [|y s]; cbn; try (split; congruence).
  rewrite andb_true_iff, N.eqb_eq, IH. split; [intros [-> ->]; reflexivity|intros E; inversion E; auto].
Qed.
Lemma beq_refl : forall a, beq a a = true.
Proof. intros; apply beq_eq; reflexivity. Qed.
Lemma beq_neq : forall a b, beq a b = false <-> a <> b.
Proof. intros a b. rewrite <- beq_eq. destruct (beq a b); split; congruence. Qed.
Lemma beq_sym : forall a b, beq a b = beq b a.
Proof.
  intros a b. destruct (beq a b) eqn:E.
  - apply beq_eq in E. subst. symmetry. apply beq_refl.
  - destruct (beq b a) eqn:F; auto. apply beq_eq in F. subst. rewrite beq_refl in E. discriminate.
Qed.

(* -------------------------------------------------------------------------------------------- decimal *)
Definition val_le (l : list N) : N := fold_right (fun d acc => (d + 10 * acc)%N) 0%N l.
Definition vb (acc : N) (l : bytes) : N := fold_left (fun a c => (10 * a + (c - 48))%N) l acc.

Lemma pow2_succ : forall f, (2 ^ N.of_nat (S f) = 2 * 2 ^ N.of_nat f)%N.
Proof. intros. rewrite Nat2N.inj_succ, N.pow_succ_r'. reflexivity. Qed.
Lemma pow10_succ : forall f, (10 ^ N.of_nat (S f) = 10 * 10 ^ N.of_nat f)%N.
Proof. intros. rewrite Nat2N.inj_succ, N.pow_succ_r'. reflexivity. Qed.
Lemma pow10_pos : forall f, (0 < 10 ^ N.of_nat f)%N.
Proof. intros. apply N.neq_0_lt_0. apply N.pow_nonzero. discriminate. Qed.

Lemma dig_le_val : forall fuel n, (n < 2 ^ N.of_nat fuel)%N -> val_le (dig_le fuel n) = n.
Proof.
  induction fuel as [|f IH]; intros n H.
  - cbn in H. cbn. lia.
  - cbn [dig_le]. destruct (N.eqb_spec n 0); [subst; reflexivity|].
    cbn [val_le fold_right]. fold (val_le (dig_le f (n / 10))).
    rewrite pow2_succ in H. rewrite IH by lia. lia.
Qed.

Lemma dig_le_len_upper : forall k fuel n, (n < 10 ^ N.of_nat k)%N -> length (dig_le fuel n) <= k.
Proof.
  induction k as [|k IH]; intros fuel n H.
  - cbn in H. destruct fuel; cbn; [lia|]. destruct (N.eqb_spec n 0); cbn; lia.
  - destruct fuel; cbn [dig_le]; [cbn; lia|]. destruct (N.eqb_spec n 0); [cbn; lia|].
    cbn [length]. rewrite pow10_succ in H. specialize (IH fuel (n / 10)%N). lia.
Qed.

Lemma dig_le_bound : forall fuel n, (n < 2 ^ N.of_nat fuel)%N -> (n < 10 ^ N.of_nat (length (dig_le fuel n)))%N.
Proof.
  induction fuel as [|f IH]; intros n H.
  - cbn in *. lia.
  - cbn [dig_le]. destruct (N.eqb_spec n 0); [subst; cbn; lia|].
    cbn [length]. rewrite pow10_succ. rewrite pow2_succ in H.
    specialize (IH (n / 10)%N). lia.
Qed.

Lemma dig_le_lower : forall fuel n, (n < 2 ^ N.of_nat fuel)%N -> n <> 0%N ->
  exists L, length (dig_le fuel n) = S L /\ (10 ^ N.of_nat L <= n)%N.
Proof.
  induction fuel as [|f IH]; intros n H Hn.
  - cbn in H. lia.
  - cbn [dig_le]. destruct (N.eqb_spec n 0); [contradiction|].
    rewrite pow2_succ in H. destruct (N.eqb_spec (n / 10) 0) as [E|E].
    + exists 0. split.
      * cbn [length]. rewrite E. destruct f; reflexivity.
      * change (N.of_nat 0) with 0%N. rewrite N.pow_0_r. lia.
    + destruct (IH (n / 10)%N) as [L [HL HB]]; [lia|assumption|].
      exists (S L). split; [cbn [length]; rewrite HL; reflexivity|]. rewrite pow10_succ. lia.
Qed.

Lemma fuel_ok : forall n, (n < 2 ^ N.of_nat (fuel_of n))%N.
Proof.
  intros n. unfold fuel_of. rewrite Nat2N.inj_succ, N2Nat.id.
  destruct (N.eqb_spec n 0); [subst; cbn; lia|]. apply N.log2_spec. lia.
Qed.

Lemma vb_app : forall x y acc, vb acc (x ++ y) = vb (vb acc x) y.
Proof. intros. unfold vb. apply fold_left_app. Qed.
Lemma vb_zeros : forall k, vb 0 (repeat 48%N k) = 0%N.
Proof. induction k; cbn; auto. Qed.
Lemma vb_digits : forall l, vb 0 (map (fun d => (48 + d)%N) (rev l)) = val_le l.
Proof.
  induction l as [|d l IH]; [reflexivity|].
  cbn [rev]. rewrite map_app, vb_app, IH. unfold vb, val_le. cbn [map fold_left fold_right]. lia.
Qed.
Lemma vb_dec : forall n, vb 0 (dec n) = n.
Proof.
  intros n. unfold dec. destruct (N.eqb_spec n 0); [subst; reflexivity|].
  rewrite vb_digits. apply dig_le_val, fuel_ok.
Qed.
Lemma vb_pad : forall w i, vb 0 (pad w i) = i.
Proof. intros. unfold pad. rewrite vb_app, vb_zeros. apply vb_dec. Qed.

Lemma pad_inj : forall w w' i j, pad w i = pad w' j -> i = j.
Proof. intros w w' i j H. rewrite <- (vb_pad w i), <- (vb_pad w' j), H. reflexivity. Qed.

Lemma dec_length_pos : forall n, 1 <= length (dec n).
Proof.
  intros n. unfold dec. destruct (N.eqb_spec n 0); [cbn; lia|].
  rewrite map_length, rev_length. destruct (dig_le_lower _ _ (fuel_ok n) n0) as [L [HL _]]. lia.
Qed.

(* width n = 1 + floor(log10 n) *)
Lemma width_spec : forall n, (1 <= n)%N ->
  (10 ^ N.of_nat (width n - 1) <= n < 10 ^ N.of_nat (width n))%N.
Proof.
  intros n Hn. unfold width, dec. destruct (N.eqb_spec n 0); [lia|].
  rewrite map_length, rev_length.
  destruct (dig_le_lower _ _ (fuel_ok n) n0) as [L [HL HB]]. split.
  - rewrite HL. replace (S L - 1) with L by lia. exact HB.
  - apply dig_le_bound, fuel_ok.
Qed.

Lemma dec_length_mono : forall i n, (i < n)%N -> length (dec i) <= length (dec n).
Proof.
  intros i n H. unfold dec at 1. destruct (N.eqb_spec i 0); [cbn; apply dec_length_pos|].
  rewrite map_length, rev_length. apply dig_le_len_upper.
  eapply N.lt_trans; [exact H|]. apply (width_spec n). lia.
Qed.

Lemma pad_length : forall w i, length (dec i) <= w -> length (pad w i) = w.
Proof. intros. unfold pad. rewrite app_length, repeat_length. lia. Qed.

(* ---------------------------------------------------------------------------------------------- names *)
Lemma replica_name_bare : forall b i, replica_name b 1 i = b.
Proof. reflexivity. Qed.

Lemma replica_name_dashed : forall b r i, 1 < r ->
  replica_name b r i = b ++ [45%N] ++ pad (width (N.of_nat r)) (N.of_nat i).
Proof. intros. unfold replica_name. destruct (Nat.leb_spec r 1); [lia|reflexivity]. Qed.

(* two replica names of one base are equal only for equal numbers, whatever the two widths *)
Lemma replica_name_inj : forall b r r' i j, 1 < r -> 1 < r' ->
  replica_name b r i = replica_name b r' j -> i = j.
Proof.
  intros b r r' i j Hr Hr' H. rewrite !replica_name_dashed in H by assumption.
  apply app_inv_head in H. inversion H as [H1]. apply pad_inj in H1. lia.
Qed.

Lemma replica_name_not_bare : forall b r i, 1 < r -> replica_name b r i <> b.
Proof.
  intros b r i Hr H. rewrite replica_name_dashed in H by assumption.
  apply (f_equal (@length N)) in H. rewrite app_length in H. cbn in H. lia.
Qed.

Lemma names_distinct : forall b n i j, i < n -> j < n -> replica_name b n i = replica_name b n j -> i = j.
Proof.
  intros b n i j Hi Hj H. destruct (Nat.leb_spec n 1); [lia|]. apply (replica_name_inj b n n i j); assumption.
Qed.

Lemma names_equal_length : forall b n i j, i < n -> j < n ->
  length (replica_name b n i) = length (replica_name b n j).
Proof.
  intros b n i j Hi Hj. unfold replica_name. destruct (n <=? 1); [reflexivity|].
  rewrite !app_length, !pad_length; auto; apply dec_length_mono; lia.
Qed.

Lemma name_length : forall b n i, 1 < n -> i < n ->
  length (replica_name b n i) = length b + 1 + width (N.of_nat n).
Proof.
  intros. rewrite replica_name_dashed by assumption. rewrite !app_length, pad_length; [cbn; lia|].
  apply dec_length_mono. lia.
Qed.

(* any two names generated for one base: equal names have equal numbers, unless both counts are <= 1 *)
Lemma replica_name_eq_cases : forall b r r' i j,
  replica_name b r i = replica_name b r' j -> (r <= 1 /\ r' <= 1) \/ (1 < r /\ 1 < r' /\ i = j).
Proof.
  intros b r r' i j H. destruct (Nat.leb_spec r 1) as [A|A]; destruct (Nat.leb_spec r' 1) as [B|B].
  - left. split; assumption.
  - exfalso. unfold replica_name at 1 in H. destruct (Nat.leb_spec r 1); [|lia].
    symmetry in H. eapply replica_name_not_bare; eauto.
  - exfalso. unfold replica_name at 2 in H. destruct (Nat.leb_spec r' 1); [|lia].
    eapply replica_name_not_bare; eauto.
  - right. repeat split; auto. apply (replica_name_inj b r r' i j); assumption.
Qed.

(* ------------------------------------------------------------------------------------------- the map *)
Definition keys (m : proj) : list bytes := map rname m.
Definition meq (m m' : proj) : Prop := forall k, mfind k m = mfind k m'.

Lemma mfind_mset_eq : forall e m, mfind (rname e) (mset e m) = Some e.
Proof.
  intros e m. induction m as [|x r IH]; cbn.
  - rewrite beq_refl. reflexivity.
  - destruct (beq (rname x) (rname e)) eqn:E; cbn; [rewrite beq_refl; reflexivity|]. rewrite E. exact IH.
Qed.
Lemma mfind_mset_neq : forall e m k, rname e <> k -> mfind k (mset e m) = mfind k m.
Proof.
  intros e m k H. apply beq_neq in H. induction m as [|x r IH]; cbn.
  - rewrite H. reflexivity.
  - destruct (beq (rname x) (rname e)) eqn:E; cbn.
    + apply beq_eq in E. rewrite E, H. reflexivity.
    + destruct (beq (rname x) k); auto.
Qed.
Lemma mfind_mdel_eq : forall k m, mfind k (mdel k m) = None.
Proof.
  intros k m. induction m as [|x r IH]; cbn; auto.
  destruct (beq (rname x) k) eqn:E; cbn; auto. rewrite E. exact IH.
Qed.
Lemma mfind_mdel_neq : forall k k' m, k <> k' -> mfind k' (mdel k m) = mfind k' m.
Proof.
  intros k k' m H. induction m as [|x r IH]; cbn; auto.
  destruct (beq (rname x) k) eqn:E; cbn.
  - apply beq_eq in E. subst k. apply beq_neq in H. rewrite H. exact IH.
  - destruct (beq (rname x) k'); auto.
Qed.

Lemma keys_mset : forall e m k, In k (keys (mset e m)) <-> k = rname e \/ In k (keys m).
Proof.
  intros e m k. induction m as [|x r IH]; cbn; [intuition|].
  destruct (beq (rname x) (rname e)) eqn:E; cbn.
  - apply beq_eq in E. rewrite E. intuition.
  - rewrite IH. intuition.
Qed.
Lemma K_mset : forall e m, NoDup (keys m) -> NoDup (keys (mset e m)).
Proof.
  intros e m. induction m as [|x r IH]; cbn; intros H.
  - constructor; [intros []|constructor].
  - inversion H as [|? ? Hx Hr]; subst. destruct (beq (rname x) (rname e)) eqn:E; cbn.
    + apply beq_eq in E. constructor; [rewrite <- E|]; assumption.
    + constructor; [|apply IH; assumption]. intros Hin. apply keys_mset in Hin as [Hin|Hin]; [|contradiction].
      rewrite Hin, beq_refl in E. discriminate.
Qed.
Lemma K_mdel : forall k m, NoDup (keys m) -> NoDup (keys (mdel k m)).
Proof.
  intros k m. induction m as [|x r IH]; cbn; intros H; [constructor|].
  inversion H as [|? ? Hx Hr]; subst. destruct (negb (beq (rname x) k)); cbn; [|auto].
  constructor; [|auto]. intros Hin. apply Hx. unfold keys, mdel in *. apply in_map_iff in Hin as [y [Hy Hin]].
  apply filter_In in Hin as [Hin _]. apply in_map_iff. eauto.
Qed.

Lemma mfind_In : forall k m x, mfind k m = Some x -> In x m /\ rname x = k.
Proof.
  intros k m x. induction m as [|y r IH]; cbn; [discriminate|].
  destruct (beq (rname y) k) eqn:E; [intros [= ->]; split; auto; apply beq_eq; assumption|].
  intros H. destruct (IH H). auto.
Qed.
Lemma In_mfind : forall m x, NoDup (keys m) -> In x m -> mfind (rname x) m = Some x.
Proof.
  induction m as [|y r IH]; cbn; intros x H Hin; [contradiction|].
  inversion H as [|? ? Hy Hr]; subst. destruct Hin as [->|Hin]; [rewrite beq_refl; reflexivity|].
  destruct (beq (rname y) (rname x)) eqn:E; [|auto].
  apply beq_eq in E. exfalso. apply Hy. rewrite E. apply in_map. assumption.
Qed.
Lemma mfind_None : forall k m, mfind k m = None <-> ~ In k (keys m).
Proof.
  intros k m. induction m as [|y r IH]; cbn; [intuition|].
  destruct (beq (rname y) k) eqn:E.
  - apply beq_eq in E. split; [discriminate|]. intros H. exfalso. apply H. auto.
  - apply beq_neq in E. rewrite IH. intuition.
Qed.

Lemma NoDup_map_inj_on : forall {A B} (f : A -> B) l x y,
  NoDup (map f l) -> In x l -> In y l -> f x = f y -> x = y.
Proof.
  intros A B f l. induction l as [|a r IH]; cbn; intros x y H Hx Hy E; [contradiction|].
  inversion H as [|? ? Ha Hr]; subst. destruct Hx as [->|Hx], Hy as [->|Hy]; auto.
  - exfalso. apply Ha. rewrite E. apply in_map. assumption.
  - exfalso. apply Ha. rewrite <- E. apply in_map. assumption.
Qed.

(* two maps with duplicate-free keys and the same lookups are permutations of each other *)
Lemma meq_perm : forall m m', NoDup (keys m) -> NoDup (keys m') -> meq m m' -> Permutation m m'.
Proof.
  intros m m' K K' H. apply NoDup_Permutation.
  - eapply NoDup_map_inv; exact K.
  - eapply NoDup_map_inv; exact K'.
  - intros x. split; intros Hin.
    + apply (In_mfind _ _ K) in Hin. rewrite H in Hin. apply mfind_In in Hin. tauto.
    + apply (In_mfind _ _ K') in Hin. rewrite <- H in Hin. apply mfind_In in Hin. tauto.
Qed.
Lemma perm_meq : forall m m', NoDup (keys m) -> Permutation m m' -> meq m m'.
Proof.
  intros m m' K P k.
  assert (K' : NoDup (keys m')) by (eapply Permutation_NoDup; [apply Permutation_map; exact P|exact K]).
  destruct (mfind k m) as [x|] eqn:E.
  - apply mfind_In in E as [Hin <-]. symmetry. apply In_mfind; auto. eapply Permutation_in; eauto.
  - destruct (mfind k m') as [y|] eqn:F; auto. apply mfind_In in F as [Hin <-].
    apply mfind_None in E. exfalso. apply E. apply in_map. eapply Permutation_in; [apply Permutation_sym|]; eauto.
Qed.

Lemma mset_fresh : forall e m, ~ In (rname e) (keys m) -> mset e m = m ++ [e].
Proof.
  intros e m. induction m as [|x r IH]; cbn; intros H; [reflexivity|].
  destruct (beq (rname x) (rname e)) eqn:E.
  - apply beq_eq in E. exfalso. apply H. auto.
  - rewrite IH; auto.
Qed.

(* ---------------------------------------------------------------------------- the loops of scaling *)
(* (1) in-place updates while ranging over the map: the result is the pointwise image *)
Lemma mset_inplace : forall pre x post y, rname y = rname x -> ~ In (rname x) (keys pre) ->
  mset y (pre ++ x :: post) = pre ++ y :: post.
Proof.
  intros pre x post y E. induction pre as [|a r IH]; cbn; intros H.
  - rewrite E, beq_refl. reflexivity.
  - destruct (beq (rname a) (rname y)) eqn:F.
    + apply beq_eq in F. exfalso. apply H. left. congruence.
    + rewrite IH; auto.
Qed.

Lemma fold_inplace : forall (P : entry -> bool) (f : entry -> entry), (forall e, rname (f e) = rname e) ->
  forall todo pre, NoDup (keys (pre ++ todo)) ->
  fold_left (fun acc e => if P e then mset (f e) acc else acc) todo (pre ++ todo)
  = pre ++ map (fun e => if P e then f e else e) todo.
Proof.
  intros P f Hf. induction todo as [|x r IH]; intros pre K; [reflexivity|].
  cbn [fold_left map].
  assert (Hx : ~ In (rname x) (keys pre)).
  { unfold keys in K. rewrite map_app in K. cbn in K. apply NoDup_remove_2 in K. intros H. apply K. apply in_or_app. auto. }
  set (y := if P x then f x else x).
  assert (Ey : rname y = rname x) by (unfold y; destruct (P x); auto).
  replace (if P x then mset (f x) (pre ++ x :: r) else pre ++ x :: r) with (pre ++ y :: r).
  2:{ unfold y. destruct (P x); auto. symmetry. apply mset_inplace; auto. }
  replace (pre ++ y :: r) with ((pre ++ [y]) ++ r) by (rewrite <- app_assoc; reflexivity).
  rewrite IH.
  - rewrite <- app_assoc. reflexivity.
  - rewrite <- app_assoc. cbn. unfold keys in *. rewrite map_app in *. cbn in *. rewrite Ey. exact K.
Qed.

(* (2) deleting a list of keys *)
Lemma fold_mdel : forall rm m,
  fold_left (fun acc e => mdel (rname e) acc) rm m
  = filter (fun x => negb (existsb (fun e => beq (rname e) (rname x)) rm)) m.
Proof.
  induction rm as [|e r IH]; intros m; cbn [fold_left].
  - cbn. induction m as [|a m IHm]; cbn; congruence.
  - rewrite IH. unfold mdel. induction m as [|a m IHm]; cbn; auto.
    rewrite (beq_sym (rname e) (rname a)). destruct (beq (rname a) (rname e)); cbn; rewrite IHm; auto.
Qed.

(* (3) adding entries under new keys *)
Lemma fold_mset_fresh : forall ys m, NoDup (keys ys) -> (forall y, In y ys -> ~ In (rname y) (keys m)) ->
  fold_left (fun acc y => mset y acc) ys m = m ++ ys.
Proof.
  induction ys as [|y r IH]; intros m K H; cbn [fold_left]; [rewrite app_nil_r; reflexivity|].
  rewrite mset_fresh by (apply H; left; reflexivity).
  rewrite IH.
  - rewrite <- app_assoc. reflexivity.
  - inversion K; assumption.
  - intros z Hz Hin. unfold keys in Hin. rewrite map_app in Hin. apply in_app_or in Hin as [Hin|Hin].
    + apply (H z); [right; assumption|exact Hin].
    + cbn in Hin. destruct Hin as [Hin|[]]. inversion K as [|? ? Hy _]; subst. apply Hy. rewrite Hin. apply in_map. assumption.
Qed.

(* (4) updateReplicaCount: rename while ranging over the map *)
Definition retarget (b : bytes) (n : nat) (e : entry) : entry :=
  set_rname (replica_name (base e) n (num e)) (set_reps n e).
Definition tgt (b : bytes) (n : nat) (e : entry) : entry := if beq (base e) b then retarget b n e else e.

Lemma set_rname_same : forall e, set_rname (rname e) e = e.
Proof. intros []; reflexivity. Qed.

Lemma urc_step_lookup : forall b n m e k, beq (base e) b = true ->
  mfind k (urc_step b n m e) =
    if beq (rname (tgt b n e)) k then Some (tgt b n e)
    else if beq (rname e) k then None else mfind k m.
Proof.
  intros b n m e k Hb. unfold urc_step, tgt. rewrite Hb.
  set (e1 := set_reps n e). set (nn := replica_name (base e1) (reps e1) (num e1)).
  assert (R : retarget b n e = set_rname nn e1) by reflexivity.
  assert (N1 : rname e1 = rname e) by reflexivity.
  rewrite R. change (rname (set_rname nn e1)) with nn.
  destruct (beq (rname e1) nn) eqn:E.
  - apply beq_eq in E. rewrite <- E, set_rname_same.
    destruct (beq (rname e1) k) eqn:F.
    + apply beq_eq in F. subst k. apply mfind_mset_eq.
    + rewrite N1 in F. rewrite F. apply mfind_mset_neq. apply beq_neq. rewrite N1. exact F.
  - unfold rename. rewrite mfind_mset_eq.
    destruct (beq nn k) eqn:F.
    + apply beq_eq in F. subst k. apply (mfind_mset_eq (set_rname nn e1)).
    + rewrite mfind_mset_neq by (apply beq_neq; exact F).
      rewrite <- N1. destruct (beq (rname e1) k) eqn:G.
      * apply beq_eq in G. subst k. apply mfind_mdel_eq.
      * apply beq_neq in G. rewrite mfind_mdel_neq by exact G. apply mfind_mset_neq. exact G.
Qed.

Lemma urc_step_other : forall b n m e, beq (base e) b = false -> urc_step b n m e = m.
Proof. intros. unfold urc_step. rewrite H. reflexivity. Qed.

Lemma K_urc_step : forall b n m e, NoDup (keys m) -> NoDup (keys (urc_step b n m e)).
Proof.
  intros b n m e K. unfold urc_step. destruct (beq (base e) b); auto.
  destruct (beq _ _); [apply K_mset; auto|]. unfold rename.
  destruct (mfind _ _); [apply K_mset, K_mdel|]; apply K_mset; auto.
Qed.

Definition is_old (b : bytes) (k : bytes) (e : entry) : bool := beq (base e) b && beq (rname e) k.

Lemma find_app_l : forall {A} (f : A -> bool) l1 l2, find f (l1 ++ l2) =
  match find f l1 with Some x => Some x | None => find f l2 end.
Proof. intros A f l1 l2. induction l1 as [|a r IH]; cbn; auto. destruct (f a); auto. Qed.

(* no entry's new name is another entry's (old or new) name *)
Definition clash_free (b : bytes) (n : nat) (m : proj) : Prop :=
  forall e e', In e m -> In e' m ->
    (rname (tgt b n e) = rname (tgt b n e') -> e = e') /\ (rname (tgt b n e) = rname e' -> e = e').

Definition is_new (b : bytes) (n : nat) (k : bytes) (e : entry) : bool :=
  beq (base e) b && beq (rname (tgt b n e)) k.

Lemma urc_fold_lookup : forall b n m0 todo,
  (forall e e', In e todo -> In e' todo ->
     (rname (tgt b n e) = rname (tgt b n e') -> e = e') /\ (rname (tgt b n e) = rname e' -> e = e')) ->
  forall k, mfind k (fold_left (urc_step b n) todo m0) =
    match find (is_new b n k) todo with
    | Some e => Some (tgt b n e)
    | None => if existsb (is_old b k) todo then None else mfind k m0
    end.
Proof.
  intros b n m0 todo. induction todo as [|e r IH] using rev_ind; intros H k; [reflexivity|].
  rewrite fold_left_app. cbn [fold_left].
  assert (Hr : forall e e', In e r -> In e' r ->
     (rname (tgt b n e) = rname (tgt b n e') -> e = e') /\ (rname (tgt b n e) = rname e' -> e = e')).
  { intros x y Hx Hy. apply H; apply in_or_app; auto. }
  specialize (IH Hr). rewrite find_app_l, existsb_app. cbn [find existsb]. rewrite orb_false_r.
  assert (He : In e (r ++ [e])) by (apply in_or_app; right; left; reflexivity).
  destruct (beq (base e) b) eqn:Hb.
  - rewrite urc_step_lookup by exact Hb. unfold is_new at 2. rewrite Hb. cbn [andb].
    destruct (beq (rname (tgt b n e)) k) eqn:E.
    + (* k is e's new name: nobody earlier has it *)
      apply beq_eq in E.
      destruct (find (is_new b n k) r) as [x|] eqn:F; [|reflexivity].
      apply find_some in F as [Hx Fx]. unfold is_new in Fx. apply andb_true_iff in Fx as [_ Fx]. apply beq_eq in Fx.
      assert (x = e) by (destruct (H x e) as [H1 _]; [apply in_or_app; auto|exact He|apply H1; congruence]). subst x. reflexivity.
    + unfold is_old at 2. rewrite Hb. cbn [andb]. destruct (beq (rname e) k) eqn:G.
      * (* k is e's old name and e was renamed away *)
        apply beq_eq in G. rewrite orb_true_r.
        destruct (find (is_new b n k) r) as [x|] eqn:F; [|reflexivity].
        apply find_some in F as [Hx Fx]. unfold is_new in Fx. apply andb_true_iff in Fx as [_ Fx]. apply beq_eq in Fx.
        assert (x = e) by (destruct (H x e) as [_ H2]; [apply in_or_app; auto|exact He|apply H2; congruence]). subst x.
        apply beq_neq in E. exfalso. apply E. exact Fx.
      * rewrite orb_false_r. rewrite IH. destruct (find (is_new b n k) r); reflexivity.
  - rewrite urc_step_other by exact Hb. rewrite IH.
    assert (N1 : is_new b n k e = false) by (unfold is_new; rewrite Hb; reflexivity).
    assert (O1 : is_old b k e = false) by (unfold is_old; rewrite Hb; reflexivity).
    rewrite N1, O1, orb_false_r. destruct (find (is_new b n k) r); reflexivity.
Qed.

Lemma NoDup_map_on : forall {A B} (f : A -> B) l, NoDup l ->
  (forall x y, In x l -> In y l -> f x = f y -> x = y) -> NoDup (map f l).
Proof.
  intros A B f l. induction l as [|a r IH]; cbn; intros N H; [constructor|].
  inversion N as [|? ? Ha Nr]; subst. constructor.
  - intros Hin. apply in_map_iff in Hin as [y [E Hy]]. apply Ha. rewrite (H a y); auto.
  - apply IH; auto.
Qed.

Lemma K_NoDup : forall m, NoDup (keys m) -> NoDup m.
Proof. intros m K. eapply NoDup_map_inv; exact K. Qed.

Lemma K_map_tgt : forall b n m, NoDup (keys m) -> clash_free b n m -> NoDup (keys (map (tgt b n) m)).
Proof.
  intros b n m K C. unfold keys. rewrite map_map. apply NoDup_map_on; [apply K_NoDup; exact K|].
  intros x y Hx Hy E. destruct (C x y Hx Hy) as [H1 _]. apply H1. exact E.
Qed.

Lemma K_urc_fold : forall b n todo m, NoDup (keys m) -> NoDup (keys (fold_left (urc_step b n) todo m)).
Proof.
  intros b n todo. induction todo as [|e r IH]; cbn; intros m K; auto. apply IH. apply K_urc_step. exact K.
Qed.
Lemma K_update_rc : forall b n m, NoDup (keys m) -> NoDup (keys (update_rc b n m)).
Proof. intros. apply K_urc_fold. assumption. Qed.

Lemma update_rc_meq : forall b n m, NoDup (keys m) -> clash_free b n m ->
  meq (update_rc b n m) (map (tgt b n) m).
Proof.
  intros b n m K C k. unfold update_rc. rewrite urc_fold_lookup by exact C.
  pose proof (K_map_tgt b n m K C) as KT.
  destruct (find (is_new b n k) m) as [e|] eqn:F.
  - apply find_some in F as [He Fe]. unfold is_new in Fe. apply andb_true_iff in Fe as [_ Fe]. apply beq_eq in Fe.
    subst k. symmetry. apply In_mfind; [exact KT|]. apply in_map. exact He.
  - pose proof (find_none _ _ F) as FN.
    destruct (existsb (is_old b k) m) eqn:X.
    + apply existsb_exists in X as [x [Hx Ox]]. unfold is_old in Ox. apply andb_true_iff in Ox as [Bx Nx]. apply beq_eq in Nx.
      destruct (mfind k (map (tgt b n) m)) as [y|] eqn:Y; [|reflexivity].
      apply mfind_In in Y as [Hy Ny]. apply in_map_iff in Hy as [e' [<- He']].
      assert (e' = x) by (destruct (C e' x He' Hx) as [_ H2]; apply H2; congruence). subst e'.
      specialize (FN x Hx). unfold is_new in FN. rewrite Bx in FN. cbn in FN. apply beq_neq in FN. contradiction.
    + destruct (mfind k m) as [x|] eqn:M.
      * apply mfind_In in M as [Hx Nx]. subst k.
        assert (Bx : beq (base x) b = false).
        { destruct (beq (base x) b) eqn:Bx; auto. exfalso.
          assert (existsb (is_old b (rname x)) m = true); [|congruence].
          apply existsb_exists. exists x. split; auto. unfold is_old. rewrite Bx, beq_refl. reflexivity. }
        assert (T : tgt b n x = x) by (unfold tgt; rewrite Bx; reflexivity).
        symmetry. rewrite <- T at 1. rewrite <- T at 2. apply In_mfind; [exact KT|]. apply in_map. exact Hx.
      * destruct (mfind k (map (tgt b n) m)) as [y|] eqn:Y; [|reflexivity].
        apply mfind_In in Y as [Hy Ny]. apply in_map_iff in Hy as [e' [<- He']].
        specialize (FN e' He'). unfold is_new in FN. destruct (beq (base e') b) eqn:Be.
        -- cbn in FN. apply beq_neq in FN. contradiction.
        -- unfold tgt in Ny. rewrite Be in Ny. apply mfind_None in M. exfalso. apply M. rewrite <- Ny. apply in_map. exact He'.
Qed.

(* entries created by a rename may be produced again by the iteration: for them the body is the identity *)
Lemma urc_step_revisit : forall b n m e, NoDup (keys m) -> In e m -> reps e = n ->
  rname e = replica_name (base e) n (num e) -> urc_step b n m e = m.
Proof.
  intros b n m e K He Hr Hn. unfold urc_step. destruct (beq (base e) b); [|reflexivity].
  assert (E1 : set_reps n e = e) by (destruct e; cbn in *; subst; reflexivity).
  rewrite E1. rewrite Hr. rewrite <- Hn, beq_refl.
  clear -K He. induction m as [|x r IH]; cbn in *; [contradiction|].
  inversion K as [|? ? Hx Kr]; subst. destruct He as [->|He]; [rewrite beq_refl; reflexivity|].
  destruct (beq (rname x) (rname e)) eqn:E.
  - apply beq_eq in E. exfalso. apply Hx. rewrite E. apply in_map. exact He.
  - rewrite IH; auto.
Qed.
