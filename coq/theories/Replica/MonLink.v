(* The name clause of the C13 MONITOR (Replica/Check.v: names_ok - strip the prefix "<base>-", demand a
   non-empty all-digit suffix of one common width whose decimal value is the replica number) accepts the
   names the MODEL computes (replica_name = CalculateReplicaName), for every base name, every count n > 1
   and every number i < n; for n = 1 the bare name.  The monitor parses, the model prints: the two were
   written independently. *)
From Coq Require Import List ZArith NArith Bool Arith Lia.
From PC.Base Require Import Util.
From PC.Replica Require Import Model Proofs Check.
Import ListNotations.

Lemma strip_prefix_app p s : strip_prefix p (p ++ s) = Some s.
Proof. induction p as [|x p IH]; cbn; [reflexivity|]. now rewrite N.eqb_refl. Qed.

Lemma dig_le_lt10 : forall fuel n d, In d (dig_le fuel n) -> (d < 10)%N.
Proof.
  induction fuel as [|f IH]; intros n d; cbn [dig_le]; [intros []|].
  destruct (n =? 0)%N; [intros []|]. intros [<-|H]; [apply N.mod_lt; lia|apply (IH _ _ H)].
Qed.

Lemma dec_digits n : forallb is_digit (dec n) = true.
Proof.
  unfold dec. destruct (n =? 0)%N; [reflexivity|].
  rewrite forallb_forall. intros c Hc. apply in_map_iff in Hc. destruct Hc as (d & <- & Hd).
  apply in_rev in Hd. apply dig_le_lt10 in Hd. unfold is_digit.
  apply andb_true_intro. split; apply N.leb_le; lia.
Qed.

Lemma pad_digits w i : forallb is_digit (pad w i) = true.
Proof.
  unfold pad. rewrite forallb_app, dec_digits, andb_true_r.
  rewrite forallb_forall. intros c Hc. apply repeat_spec in Hc. subst c. reflexivity.
Qed.

Lemma parse_dec_vb l : parse_dec l = vb 0 l.
Proof. reflexivity. Qed.

Theorem name_parses b n i : 1 < n -> i < n ->
  let w := width (N.of_nat n) in
  let s := pad w (N.of_nat i) in
  strip_prefix (b ++ [45%N]) (replica_name b n i) = Some s /\
  length s = w /\ w <> 0 /\ forallb is_digit s = true /\ parse_dec s = N.of_nat i.
Proof.
  intros Hn Hi. cbv zeta. rewrite replica_name_dashed by exact Hn.
  rewrite app_assoc, strip_prefix_app. split; [reflexivity|].
  split; [apply pad_length, dec_length_mono; lia|].
  split; [unfold width; pose proof (dec_length_pos (N.of_nat n)); lia|].
  split; [apply pad_digits|]. rewrite parse_dec_vb. apply vb_pad.
Qed.

(* an observed entry of replica i of n as the model predicts its naming fields *)
Definition name_view (bs : bytes) (n i : nat) (o : oent) : Prop :=
  o_key o = replica_name bs n i /\ o_base o = bs /\ o_num o = i /\ o_reps o = n.

Lemma names_ok_model_gen bs n : 1 < n -> forall (B : list oent) (is : list nat),
  Forall2 (fun o i => name_view bs n i o /\ i < n) B is ->
  let sufs := map (fun o => strip_prefix (bs ++ [45%N]) (o_key o)) B in
  forallb (fun o => Nat.eqb (o_reps o) n && beq (o_base o) bs) B = true /\
  map o_num B = is /\
  sufs = map (fun i => Some (pad (width (N.of_nat n)) (N.of_nat i))) is /\
  forallb (fun p => match snd p with
                    | Some s => Nat.eqb (length s) (width (N.of_nat n)) && forallb is_digit s &&
                                N.eqb (parse_dec s) (N.of_nat (o_num (fst p)))
                    | None => false end) (combine B sufs) = true.
Proof.
  intros Hn B is H. induction H as [|o i B is [(Hk & Hb & Hnum & Hr) Hi] _ IH]; cbv zeta in *.
  - repeat split; reflexivity.
  - destruct IH as (I1 & I2 & I3 & I4).
    destruct (name_parses bs n i Hn Hi) as (P1 & P2 & _ & P4 & P5). cbv zeta in *.
    cbn [forallb map combine fst snd]. rewrite Hk, P1, Hr, Hb, Hnum, Nat.eqb_refl, beq_refl, I1, I2, I3.
    cbn [andb]. repeat split; try reflexivity.
    rewrite P2, Nat.eqb_refl, P4, P5, N.eqb_refl. cbn [andb]. rewrite <- I3. exact I4.
Qed.

Lemma list_eqb_nat_refl l : list_eqb Nat.eqb l l = true.
Proof. induction l as [|x l IH]; cbn; [reflexivity|]. now rewrite Nat.eqb_refl. Qed.

Lemma forall2_seq bs n (B : list oent) : forall start len,
  Forall2 (fun o i => name_view bs n i o) B (seq start len) -> start + len <= n ->
  Forall2 (fun o i => name_view bs n i o /\ i < n) B (seq start len).
Proof.
  intros start len. revert B start. induction len as [|len IH]; intros B start H Hle; cbn [seq] in *.
  - inversion H. constructor.
  - inversion H as [|o i B' is' Ho Hr]; subst. constructor; [split; [exact Ho|lia]|]. apply IH; [exact Hr|lia].
Qed.

(* the monitor's name clause accepts the model's names of ALL n replicas of a process *)
Theorem names_ok_accepts_model bs n (B : list oent) : 1 <= n ->
  Forall2 (fun o i => name_view bs n i o) B (seq 0 n) -> names_ok bs n B = true.
Proof.
  intros Hn H. unfold names_ok.
  destruct (Nat.eqb_spec n 1) as [->|Hn1].
  - cbn [seq] in H. destruct B as [|o [|o2 B']].
    + inversion H.
    + inversion H as [|o' i' B'' is'' Hv Hrest]. destruct Hv as (Hk & Hb & Hnum & Hr).
      cbn. rewrite Hnum, Hr, Hb, Hk, !beq_refl. reflexivity.
    + inversion H as [|o' i' B'' is'' Hv Hrest]. inversion Hrest.
  - assert (Hn2 : 1 < n) by lia.
    destruct (names_ok_model_gen bs n Hn2 B (seq 0 n) (forall2_seq bs n B 0 n H (le_n _))) as (I1 & I2 & I3 & I4).
    destruct (name_parses bs n 0 Hn2 ltac:(lia)) as (_ & P2 & P3 & _).
    cbv zeta in *. rewrite I1, I2, list_eqb_nat_refl. cbn [andb]. rewrite I3 in I4 |- *.
    destruct n as [|n']; [lia|]. change (seq 0 (S n')) with (0 :: seq 1 n') in *.
    cbn [map] in I4 |- *. change (N.of_nat 0) with 0%N in *. rewrite P2, I4, andb_true_r.
    destruct (width (N.of_nat (S n'))); [contradiction|reflexivity].
Qed.
