(* Main result about scaling: a project that is (a permutation of) a loaded project stays one under every
   scale request; the request changes exactly the replica count of the addressed process, keeps the
   run-time identities (instance, log) of the replicas that exist before and after, gives fresh ones to
   the added replicas, and leaves all other processes alone. *)
From Coq Require Import List NArith ZArith Bool Arith Lia Permutation.
From PC.Replica Require Import Model Proofs.
Import ListNotations.

(* ---- a loaded project with arbitrary run-time data ---------------------------------------------- *)
Definition rtd := (N * N * nat)%type.          (* instance, log identity, log length *)
Definition cfgt := (bytes * nat * N)%type.     (* base name, replicas, template *)
Definition cbase (c : cfgt) : bytes := fst (fst c).
Definition ccount (c : cfgt) : nat := snd (fst c).

Definition gen_entry (b : bytes) (k : nat) (t : N) (rt : nat -> rtd) (i : nat) : entry :=
  mkE (replica_name b k i) b i k t i i (fst (fst (rt i))) (snd (fst (rt i))) (snd (rt i)).
Definition gen_one (rt : bytes -> nat -> rtd) (c : cfgt) : proj :=
  map (gen_entry (cbase c) (ccount c) (snd c) (rt (cbase c))) (seq 0 (ccount c)).
Definition gen (cfg : list cfgt) (rt : bytes -> nat -> rtd) : proj := flat_map (gen_one rt) cfg.

Definition set_k (b : bytes) (n : nat) (cfg : list cfgt) : list cfgt :=
  map (fun c => if beq (cbase c) b then (cbase c, n, snd c) else c) cfg.

(* names generated for two different bases never coincide, whatever the counts *)
Definition sep (b b' : bytes) : Prop :=
  forall r i r' i', replica_name b r i <> replica_name b' r' i'.

Definition cfg_ok (cfg : list cfgt) : Prop :=
  NoDup (map cbase cfg) /\ (forall c, In c cfg -> 1 <= ccount c) /\
  (forall c c', In c cfg -> In c' cfg -> cbase c <> cbase c' -> sep (cbase c) (cbase c')).

(* run-time data after a request on base b that had o replicas: fresh for the added numbers *)
Definition rt_after (b : bytes) (o : nat) (fresh : nat -> N) (rt : bytes -> nat -> rtd) : bytes -> nat -> rtd :=
  fun b' i => if beq b' b && (o <=? i) then (fresh i, fresh i, 0) else rt b' i.

(* ---- small list facts ----------------------------------------------------------------------------- *)
Lemma NoDup_app_intro : forall {A} (l1 l2 : list A), NoDup l1 -> NoDup l2 ->
  (forall x, In x l1 -> ~ In x l2) -> NoDup (l1 ++ l2).
Proof.
  intros A l1 l2 N1 N2 D. induction l1 as [|a r IH]; cbn; auto.
  inversion N1 as [|? ? Ha Nr]; subst. constructor.
  - intros Hin. apply in_app_or in Hin as [Hin|Hin]; [contradiction|]. apply (D a); [left; reflexivity|assumption].
  - apply IH; auto. intros x Hx. apply D. right. assumption.
Qed.

Lemma Permutation_filter : forall {A} (f : A -> bool) l l', Permutation l l' -> Permutation (filter f l) (filter f l').
Proof.
  intros A f l l' P. induction P; cbn.
  - constructor.
  - destruct (f x); [constructor|]; assumption.
  - destruct (f x), (f y); try apply Permutation_refl. apply perm_swap.
  - eapply Permutation_trans; eauto.
Qed.

Lemma filter_true_on : forall {A} (f : A -> bool) l, (forall x, In x l -> f x = true) -> filter f l = l.
Proof.
  intros A f l. induction l as [|a r IH]; cbn; intros H; auto.
  rewrite (H a) by (left; reflexivity). f_equal. apply IH. intros; apply H; right; assumption.
Qed.
Lemma filter_false_on : forall {A} (f : A -> bool) l, (forall x, In x l -> f x = false) -> filter f l = [].
Proof.
  intros A f l. induction l as [|a r IH]; cbn; intros H; auto.
  rewrite (H a) by (left; reflexivity). apply IH. intros; apply H; right; assumption.
Qed.

Lemma filter_seq_lt : forall n k, n <= k -> filter (fun i => i <? n) (seq 0 k) = seq 0 n.
Proof.
  intros n k H. replace k with (n + (k - n)) by lia. rewrite seq_app, filter_app.
  rewrite filter_true_on, filter_false_on; [apply app_nil_r| |].
  - intros x Hx. apply in_seq in Hx. apply Nat.ltb_ge. lia.
  - intros x Hx. apply in_seq in Hx. apply Nat.ltb_lt. lia.
Qed.

Lemma filter_map_comm : forall {A B} (p : B -> bool) (g : A -> B) l,
  filter p (map g l) = map g (filter (fun x => p (g x)) l).
Proof. intros A B p g l. induction l as [|a r IH]; cbn; auto. destruct (p (g a)); cbn; rewrite IH; auto. Qed.

Lemma K_filter : forall (p : entry -> bool) m, NoDup (keys m) -> NoDup (keys (filter p m)).
Proof.
  intros p m. induction m as [|x r IH]; cbn; intros H; [constructor|].
  inversion H as [|? ? Hx Hr]; subst. destruct (p x); cbn; [|auto].
  constructor; [|auto]. intros Hin. apply Hx. unfold keys in *. apply in_map_iff in Hin as [y [Hy Hin]].
  apply filter_In in Hin as [Hin _]. apply in_map_iff. eauto.
Qed.

(* ---- facts about gen -------------------------------------------------------------------------------- *)
Lemma in_gen : forall cfg rt x, In x (gen cfg rt) <->
  exists c i, In c cfg /\ i < ccount c /\ x = gen_entry (cbase c) (ccount c) (snd c) (rt (cbase c)) i.
Proof.
  intros. unfold gen. rewrite in_flat_map. split.
  - intros [c [Hc Hx]]. unfold gen_one in Hx. apply in_map_iff in Hx as [i [E Hi]]. apply in_seq in Hi.
    exists c, i. repeat split; auto. lia.
  - intros [c [i [Hc [Hi E]]]]. exists c. split; auto. unfold gen_one. apply in_map_iff. exists i. split; auto.
    apply in_seq. lia.
Qed.

Lemma gen_cons : forall c r rt, gen (c :: r) rt = gen_one rt c ++ gen r rt.
Proof. reflexivity. Qed.
Lemma gen_app : forall l1 l2 rt, gen (l1 ++ l2) rt = gen l1 rt ++ gen l2 rt.
Proof. intros. unfold gen. apply flat_map_app. Qed.

Lemma cfg_same : forall cfg c c', NoDup (map cbase cfg) -> In c cfg -> In c' cfg -> cbase c = cbase c' -> c = c'.
Proof. intros. eapply NoDup_map_inj_on; eauto. Qed.

Lemma NoDup_gen : forall cfg rt, NoDup (map cbase cfg) -> NoDup (gen cfg rt).
Proof.
  induction cfg as [|c r IH]; intros rt N; [constructor|]. rewrite gen_cons.
  cbn in N. inversion N as [|? ? Hc Nr]; subst. apply NoDup_app_intro.
  - unfold gen_one. apply NoDup_map_on; [apply seq_NoDup|]. intros x y _ _ E. apply (f_equal num) in E. exact E.
  - apply IH; auto.
  - intros x Hx Hin. unfold gen_one in Hx. apply in_map_iff in Hx as [i [<- _]].
    apply in_gen in Hin as [c' [j [Hc' [_ E]]]]. apply (f_equal base) in E. cbn in E. apply Hc. rewrite E.
    apply in_map. exact Hc'.
Qed.

Lemma K_gen : forall cfg rt, cfg_ok cfg -> NoDup (keys (gen cfg rt)).
Proof.
  intros cfg rt [N [_ S]]. apply NoDup_map_on; [apply NoDup_gen; exact N|].
  intros x y Hx Hy E. apply in_gen in Hx as [c [i [Hc [Hi ->]]]]. apply in_gen in Hy as [c' [j [Hc' [Hj ->]]]].
  unfold gen_entry in E. cbn [rname] in E. destruct (beq (cbase c) (cbase c')) eqn:B.
  - apply beq_eq in B. assert (c = c') by (eapply cfg_same; eauto). subst c'.
    assert (i = j) by (eapply names_distinct; eauto). subst. reflexivity.
  - apply beq_neq in B. exfalso. apply (S c c' Hc Hc' B _ _ _ _ E).
Qed.

Lemma gen_one_ext : forall rt rt' c, (forall i, i < ccount c -> rt (cbase c) i = rt' (cbase c) i) ->
  gen_one rt c = gen_one rt' c.
Proof.
  intros rt rt' c H. unfold gen_one. apply map_ext_in. intros i Hi. apply in_seq in Hi. unfold gen_entry.
  rewrite H by lia. reflexivity.
Qed.
Lemma gen_ext : forall cfg rt rt', (forall c i, In c cfg -> i < ccount c -> rt (cbase c) i = rt' (cbase c) i) ->
  gen cfg rt = gen cfg rt'.
Proof.
  induction cfg as [|c r IH]; intros rt rt' H; [reflexivity|]. rewrite !gen_cons. f_equal.
  - apply gen_one_ext. intros. apply H; [left; reflexivity|assumption].
  - apply IH. intros. apply H; [right|]; assumption.
Qed.

Lemma count_gen_one_same : forall rt c, count_base (cbase c) (gen_one rt c) = ccount c.
Proof.
  intros. unfold count_base. rewrite filter_true_on.
  - unfold gen_one. rewrite map_length, seq_length. reflexivity.
  - intros x Hx. unfold gen_one in Hx. apply in_map_iff in Hx as [i [<- _]]. cbn. apply beq_refl.
Qed.
Lemma count_gen_other : forall rt cfg b, (forall c, In c cfg -> cbase c <> b) -> count_base b (gen cfg rt) = 0.
Proof.
  intros. unfold count_base. rewrite filter_false_on; [reflexivity|].
  intros x Hx. apply in_gen in Hx as [c [i [Hc [_ ->]]]]. cbn. apply beq_neq. apply H. exact Hc.
Qed.
Lemma count_app : forall b l1 l2, count_base b (l1 ++ l2) = count_base b l1 + count_base b l2.
Proof. intros. unfold count_base. rewrite filter_app, app_length. reflexivity. Qed.

Lemma count_gen : forall cfg rt c, NoDup (map cbase cfg) -> In c cfg -> count_base (cbase c) (gen cfg rt) = ccount c.
Proof.
  induction cfg as [|a r IH]; intros rt c N Hc; [contradiction|]. rewrite gen_cons, count_app.
  cbn in N. inversion N as [|? ? Ha Nr]; subst. destruct Hc as [->|Hc].
  - rewrite count_gen_one_same, count_gen_other; [lia|]. intros c' Hc' E. apply Ha. rewrite <- E. apply in_map. exact Hc'.
  - rewrite IH by assumption.
    replace (count_base (cbase c) (gen_one rt a)) with 0; [reflexivity|]. symmetry.
    change (gen_one rt a) with (gen_one rt a). rewrite <- (app_nil_r (gen_one rt a)). change (gen_one rt a ++ []) with (gen [a] rt).
    apply count_gen_other. intros c' [<-|[]] E. apply Ha. rewrite E. apply in_map. exact Hc.
Qed.

Lemma count_perm : forall b m m', Permutation m m' -> count_base b m = count_base b m'.
Proof. intros. unfold count_base. apply Permutation_length. apply Permutation_filter. assumption. Qed.

(* ---- what a permutation of a loaded project satisfies ------------------------------------------------ *)
Definition mfacts (cfg : list cfgt) (m : proj) : Prop :=
  NoDup (keys m) /\
  (forall x, In x m -> rname x = replica_name (base x) (reps x) (num x)) /\
  (forall x y, In x m -> In y m -> base x = base y -> num x = num y -> x = y) /\
  (forall x, In x m -> exists c, In c cfg /\ cbase c = base x /\ ccount c = reps x /\ snd c = orig x /\ num x < reps x) /\
  (forall x y, In x m -> In y m -> base x <> base y -> sep (base x) (base y)).

Lemma mfacts_of_perm : forall cfg rt m, cfg_ok cfg -> Permutation m (gen cfg rt) -> mfacts cfg m.
Proof.
  intros cfg rt m OK P. pose proof OK as [N [K1 S]].
  assert (Hin : forall x, In x m -> exists c i, In c cfg /\ i < ccount c /\
             x = gen_entry (cbase c) (ccount c) (snd c) (rt (cbase c)) i).
  { intros x Hx. apply in_gen. eapply Permutation_in; eauto. }
  repeat split.
  - eapply Permutation_NoDup; [apply Permutation_map, Permutation_sym; exact P|]. apply K_gen. exact OK.
  - intros x Hx. destruct (Hin x Hx) as [c [i [_ [_ ->]]]]. reflexivity.
  - intros x y Hx Hy Eb En. destruct (Hin x Hx) as [c [i [Hc [_ ->]]]]. destruct (Hin y Hy) as [c' [j [Hc' [_ ->]]]].
    cbn in Eb, En. assert (c = c') by (eapply cfg_same; eauto). subst. reflexivity.
  - intros x Hx. destruct (Hin x Hx) as [c [i [Hc [Hi ->]]]]. exists c. cbn. auto.
  - intros x y Hx Hy Eb. destruct (Hin x Hx) as [c [i [Hc [_ ->]]]]. destruct (Hin y Hy) as [c' [j [Hc' [_ ->]]]].
    cbn in *. apply S; auto.
Qed.

(* ---- clash freedom of the rename loop ------------------------------------------------------------------ *)
Definition glike (b : bytes) (n : nat) (m : proj) : Prop :=
  NoDup (keys m) /\
  (forall x, In x m -> exists r', rname x = replica_name (base x) r' (num x)) /\
  (forall x y, In x m -> In y m -> base x = base y -> num x = num y -> x = y) /\
  (forall x, In x m -> base x = b -> num x < n) /\
  (forall x y, In x m -> In y m -> base x <> base y -> sep (base x) (base y)).

Lemma tgt_name_b : forall b n x, base x = b -> rname (tgt b n x) = replica_name b n (num x).
Proof. intros b n x E. unfold tgt. rewrite E, beq_refl. cbn. rewrite E. reflexivity. Qed.
Lemma tgt_other : forall b n x, base x <> b -> tgt b n x = x.
Proof. intros b n x E. unfold tgt. apply beq_neq in E. rewrite E. reflexivity. Qed.

Lemma glike_clash_free : forall b n m, glike b n m -> clash_free b n m.
Proof.
  intros b n m [K [B [C [D S]]]] x y Hx Hy.
  destruct (beq (base x) b) eqn:Bx; [apply beq_eq in Bx|apply beq_neq in Bx].
  - rewrite (tgt_name_b b n x Bx). split.
    + destruct (beq (base y) b) eqn:By; [apply beq_eq in By|apply beq_neq in By].
      * rewrite (tgt_name_b b n y By). intros E. apply C; auto; [congruence|].
        eapply names_distinct; [apply D| apply D|exact E]; auto.
      * rewrite (tgt_other b n y By). destruct (B y Hy) as [r' Ey]. rewrite Ey. intros E. exfalso.
        assert (Hs : base x <> base y) by congruence. apply (S x y Hx Hy Hs n (num x) r' (num y)). rewrite Bx. exact E.
    + destruct (B y Hy) as [r' Ey]. rewrite Ey. intros E.
      destruct (beq (base y) b) eqn:By; [apply beq_eq in By|apply beq_neq in By].
      * rewrite By in E. apply C; auto; [congruence|].
        apply replica_name_eq_cases in E as [[A1 A2]|[_ [_ E]]]; [|exact E].
        pose proof (D x Hx Bx). pose proof (D y Hy By). lia.
      * exfalso. assert (Hs : base x <> base y) by congruence.
        apply (S x y Hx Hy Hs n (num x) r' (num y)). rewrite Bx. exact E.
  - rewrite (tgt_other b n x Bx). split.
    + destruct (beq (base y) b) eqn:By; [apply beq_eq in By|apply beq_neq in By].
      * rewrite (tgt_name_b b n y By). destruct (B x Hx) as [r' Ex]. rewrite Ex. intros E. exfalso.
        assert (Hs : base x <> base y) by congruence. apply (S x y Hx Hy Hs r' (num x) n (num y)). rewrite By. exact E.
      * rewrite (tgt_other b n y By). intros E. eapply NoDup_map_inj_on; eauto.
    + intros E. eapply NoDup_map_inj_on; eauto.
Qed.

Lemma finish : forall b k m2 G', NoDup (keys m2) -> clash_free b k m2 ->
  Permutation (map (tgt b k) m2) G' -> Permutation (update_rc b k m2) G'.
Proof.
  intros b k m2 G' K C P.
  pose proof (K_map_tgt b k m2 K C) as KT.
  assert (KG : NoDup (keys G')) by (eapply Permutation_NoDup; [apply Permutation_map; exact P|exact KT]).
  apply meq_perm; [apply K_update_rc; exact K|exact KG|].
  intros key. rewrite (update_rc_meq b k m2 K C key). apply perm_meq; assumption.
Qed.

(* ---- scale_down as a filter of a pointwise image ---------------------------------------------------- *)
Definition fdown (b : bytes) (k : nat) (x : entry) : entry := if sd_keep b k x then set_reps k x else x.
Definition qkeep (b : bytes) (k : nat) (x : entry) : bool := negb (sd_drop b k x).

Lemma fdown_rname : forall b k x, rname (fdown b k x) = rname x.
Proof. intros. unfold fdown. destruct (sd_keep b k x); reflexivity. Qed.
Lemma fdown_base : forall b k x, base (fdown b k x) = base x.
Proof. intros. unfold fdown. destruct (sd_keep b k x); reflexivity. Qed.
Lemma fdown_num : forall b k x, num (fdown b k x) = num x.
Proof. intros. unfold fdown. destruct (sd_keep b k x); reflexivity. Qed.
Lemma fdown_drop : forall b k x, sd_drop b k (fdown b k x) = sd_drop b k x.
Proof. intros. unfold sd_drop. rewrite fdown_base, fdown_num. reflexivity. Qed.

Lemma scale_down_eq : forall b k m, NoDup (keys m) ->
  fst (scale_down b k m) = filter (qkeep b k) (map (fdown b k) m).
Proof.
  intros b k m K. unfold scale_down. cbn [fst].
  pose proof (fold_inplace (sd_keep b k) (set_reps k) (fun e => eq_refl) m []) as H1. cbn [app] in H1.
  rewrite H1 by exact K. rewrite fold_mdel. apply filter_ext_in. intros x Hx. unfold qkeep. f_equal.
  apply in_map_iff in Hx as [x0 [<- Hx0]]. fold (fdown b k x0).
  rewrite fdown_rname, fdown_drop. destruct (sd_drop b k x0) eqn:D.
  - apply existsb_exists. exists x0. split; [apply filter_In; auto|apply beq_refl].
  - destruct (existsb _ _) eqn:X; auto. apply existsb_exists in X as [e [He Ee]].
    apply filter_In in He as [He De]. apply beq_eq in Ee.
    assert (e = x0) by (eapply NoDup_map_inj_on; eauto). subst. congruence.
Qed.

Lemma keys_map_fdown : forall b k m, keys (map (fdown b k) m) = keys m.
Proof. intros. unfold keys. rewrite map_map. apply map_ext. intros. apply fdown_rname. Qed.

Lemma glike_down : forall cfg b k m, mfacts cfg m -> glike b k (filter (qkeep b k) (map (fdown b k) m)).
Proof.
  intros cfg b k m [K [B [C [Dd S]]]].
  assert (Hin : forall x, In x (filter (qkeep b k) (map (fdown b k) m)) ->
                exists x0, In x0 m /\ x = fdown b k x0 /\ sd_drop b k x0 = false).
  { intros x Hx. apply filter_In in Hx as [Hx Q]. apply in_map_iff in Hx as [x0 [<- Hx0]]. exists x0.
    repeat split; auto. unfold qkeep in Q. rewrite fdown_drop in Q. destruct (sd_drop b k x0); [discriminate|reflexivity]. }
  repeat split.
  - apply K_filter. rewrite keys_map_fdown. exact K.
  - intros x Hx. destruct (Hin x Hx) as [x0 [H0 [-> _]]]. exists (reps x0).
    rewrite fdown_rname, fdown_base, fdown_num. apply B. exact H0.
  - intros x y Hx Hy Eb En. destruct (Hin x Hx) as [x0 [H0 [-> _]]]. destruct (Hin y Hy) as [y0 [H1 [-> _]]].
    rewrite !fdown_base in Eb. rewrite !fdown_num in En. rewrite (C x0 y0 H0 H1 Eb En). reflexivity.
  - intros x Hx Eb. destruct (Hin x Hx) as [x0 [H0 [-> Dx]]]. rewrite fdown_base in Eb. rewrite fdown_num.
    unfold sd_drop in Dx. rewrite Eb, beq_refl in Dx. cbn in Dx. apply Nat.leb_gt in Dx. exact Dx.
  - intros x y Hx Hy Eb. destruct (Hin x Hx) as [x0 [H0 [-> _]]]. destruct (Hin y Hy) as [y0 [H1 [-> _]]].
    rewrite !fdown_base in *. apply S; auto.
Qed.

(* ---- scale_up as an append --------------------------------------------------------------------------- *)
Lemma fold_left_map_in : forall {A B C} (f : A -> B -> A) (g : C -> B) l a,
  fold_left f (map g l) a = fold_left (fun a x => f a (g x)) l a.
Proof. intros A B C f g l. induction l as [|x r IH]; cbn; intros a; auto. Qed.

Definition news (e : entry) (o k : nat) (fresh : nat -> N) : proj := map (new_entry e k fresh) (seq o (k - o)).

Lemma news_fresh : forall cfg b k o fresh e m, mfacts cfg m -> In e m -> base e = b -> o < k ->
  (forall x, In x m -> base x = b -> num x < o) ->
  NoDup (keys (news e o k fresh)) /\ (forall y, In y (news e o k fresh) -> ~ In (rname y) (keys m)).
Proof.
  intros cfg b k o fresh e m [K [B [C [Dd S]]]] He Eb Hok Hnum.
  assert (Ho : 1 <= o) by (specialize (Hnum e He Eb); lia).
  split.
  - unfold keys, news. rewrite map_map. cbn [rname new_entry]. apply NoDup_map_on; [apply seq_NoDup|].
    intros i j Hi Hj E. apply in_seq in Hi, Hj. eapply names_distinct; [| |exact E]; lia.
  - intros y Hy Hin. unfold news in Hy. apply in_map_iff in Hy as [i [<- Hi]]. apply in_seq in Hi.
    cbn [rname new_entry] in Hin. unfold keys in Hin. apply in_map_iff in Hin as [x [Ex Hx]].
    rewrite (B x Hx) in Ex. destruct (beq (base x) b) eqn:Bx; [apply beq_eq in Bx|apply beq_neq in Bx].
    + rewrite Bx, Eb in Ex. apply replica_name_eq_cases in Ex as [[_ A2]|[_ [_ Ex]]]; [lia|].
      specialize (Hnum x Hx Bx). lia.
    + assert (Hs : base x <> base e) by congruence. exact (S x e Hx He Hs _ _ _ _ Ex).
Qed.

Lemma scale_up_eq : forall cfg b k o fresh e m, mfacts cfg m -> In e m -> base e = b -> o < k ->
  (forall x, In x m -> base x = b -> num x < o) ->
  scale_up e o k fresh m = m ++ news e o k fresh.
Proof.
  intros cfg b k o fresh e m F He Eb Hok Hnum. destruct (news_fresh cfg b k o fresh e m F He Eb Hok Hnum) as [N1 N2].
  unfold scale_up. rewrite <- (fold_mset_fresh (news e o k fresh) m N1 N2). unfold news.
  rewrite fold_left_map_in. reflexivity.
Qed.

Lemma glike_up : forall cfg b k o fresh e m, mfacts cfg m -> In e m -> base e = b -> o < k ->
  (forall x, In x m -> base x = b -> num x < o) ->
  glike b k (m ++ news e o k fresh).
Proof.
  intros cfg b k o fresh e m F He Eb Hok Hnum. destruct (news_fresh cfg b k o fresh e m F He Eb Hok Hnum) as [N1 N2].
  destruct F as [K [B [C [Dd S]]]].
  assert (Hnew : forall y, In y (news e o k fresh) -> exists i, o <= i < k /\ y = new_entry e k fresh i).
  { intros y Hy. unfold news in Hy. apply in_map_iff in Hy as [i [<- Hi]]. apply in_seq in Hi. exists i. split; [lia|reflexivity]. }
  repeat split.
  - unfold keys. rewrite map_app. apply NoDup_app_intro; auto.
    intros key Hk Hk2. apply in_map_iff in Hk2 as [y [<- Hy]]. exact (N2 y Hy Hk).
  - intros x Hx. apply in_app_or in Hx as [Hx|Hx]; [exists (reps x); apply B; exact Hx|].
    destruct (Hnew x Hx) as [i [_ ->]]. exists k. reflexivity.
  - intros x y Hx Hy Ebb En. apply in_app_or in Hx as [Hx|Hx]; apply in_app_or in Hy as [Hy|Hy].
    + apply C; auto.
    + destruct (Hnew y Hy) as [j [Hj ->]]. cbn in Ebb, En. assert (num x < o) by (apply Hnum; congruence). lia.
    + destruct (Hnew x Hx) as [i [Hi ->]]. cbn in Ebb, En. assert (num y < o) by (apply Hnum; congruence). lia.
    + destruct (Hnew x Hx) as [i [Hi ->]]. destruct (Hnew y Hy) as [j [Hj ->]]. cbn in En. subst. reflexivity.
  - intros x Hx Ebb. apply in_app_or in Hx as [Hx|Hx]; [specialize (Hnum x Hx Ebb); lia|].
    destruct (Hnew x Hx) as [i [Hi ->]]. cbn. lia.
  - intros x y Hx Hy Ebb.
    assert (Hb : forall z, In z (m ++ news e o k fresh) -> exists z0, In z0 m /\ base z0 = base z).
    { intros z Hz. apply in_app_or in Hz as [Hz|Hz]; [exists z; auto|]. destruct (Hnew z Hz) as [i [_ ->]]. exists e. auto. }
    destruct (Hb x Hx) as [x0 [Hx0 Ex0]]. destruct (Hb y Hy) as [y0 [Hy0 Ey0]]. rewrite <- Ex0, <- Ey0.
    apply S; auto. congruence.
Qed.

(* ---- the images of a loaded project ------------------------------------------------------------------- *)
Lemma comp_other : forall b k o fresh rt c, beq (cbase c) b = false ->
  map (tgt b k) (gen_one rt c) = gen_one (rt_after b o fresh rt) c.
Proof.
  intros b k o fresh rt c Hb. unfold gen_one. rewrite map_map. apply map_ext. intros i.
  unfold tgt, gen_entry, rt_after. cbn [base]. rewrite Hb. cbn [andb]. reflexivity.
Qed.

Lemma set_k_other : forall b k c r, beq (cbase c) b = false -> set_k b k (c :: r) = c :: set_k b k r.
Proof. intros. unfold set_k. cbn [map]. rewrite H. reflexivity. Qed.
Lemma set_k_same : forall b k c r, beq (cbase c) b = true -> set_k b k (c :: r) = (cbase c, k, snd c) :: set_k b k r.
Proof. intros. unfold set_k. cbn [map]. rewrite H. reflexivity. Qed.

Lemma untouched : forall b k o fresh rt r, (forall c, In c r -> cbase c <> b) ->
  map (tgt b k) (gen r rt) = gen (set_k b k r) (rt_after b o fresh rt).
Proof.
  intros b k o fresh rt r. induction r as [|c r IH]; intros H; [reflexivity|].
  assert (Hb : beq (cbase c) b = false) by (apply beq_neq, H; left; reflexivity).
  rewrite set_k_other by exact Hb. rewrite !gen_cons, map_app. f_equal.
  - apply comp_other. exact Hb.
  - apply IH. intros. apply H. right. assumption.
Qed.

Lemma comp_b_down : forall b k o fresh rt kc t, k <= kc -> kc <= o ->
  map (tgt b k) (filter (qkeep b k) (map (fdown b k) (gen_one rt (b, kc, t))))
  = gen_one (rt_after b o fresh rt) (b, k, t).
Proof.
  intros b k o fresh rt kc t H1 H2. unfold gen_one. cbn [cbase ccount fst snd].
  rewrite map_map, filter_map_comm, map_map.
  rewrite (filter_ext _ (fun i => i <? k)).
  2:{ intros i. unfold qkeep. rewrite fdown_drop. unfold sd_drop, gen_entry. cbn [base num]. rewrite beq_refl. cbn [andb].
      destruct (Nat.leb_spec k i), (Nat.ltb_spec i k); auto; lia. }
  rewrite filter_seq_lt by exact H1. apply map_ext_in. intros i Hi. apply in_seq in Hi.
  unfold fdown, sd_keep, gen_entry. cbn [base num]. rewrite beq_refl. cbn [andb].
  destruct (Nat.ltb_spec i k); [|lia]. unfold tgt. cbn [base set_reps]. rewrite beq_refl.
  unfold retarget, rt_after. cbn. rewrite beq_refl. cbn [andb]. destruct (Nat.leb_spec o i); [lia|]. reflexivity.
Qed.

Lemma down_all : forall b k o fresh rt cfg, (forall c, In c cfg -> cbase c = b -> k <= ccount c <= o) ->
  map (tgt b k) (filter (qkeep b k) (map (fdown b k) (gen cfg rt))) = gen (set_k b k cfg) (rt_after b o fresh rt).
Proof.
  intros b k o fresh rt cfg. induction cfg as [|c r IH]; intros H; [reflexivity|].
  rewrite gen_cons, map_app, filter_app, map_app.
  rewrite IH by (intros; apply H; [right|]; assumption).
  destruct (beq (cbase c) b) eqn:Hb.
  - rewrite set_k_same by exact Hb. rewrite gen_cons. f_equal. apply beq_eq in Hb.
    destruct (H c (or_introl eq_refl) Hb) as [A1 A2]. destruct c as [[b0 kc] t]. cbn in *. subst b0.
    apply comp_b_down; assumption.
  - rewrite set_k_other by exact Hb. rewrite gen_cons. f_equal.
    rewrite <- (comp_other b k o fresh rt c Hb). f_equal.
    assert (E : map (fdown b k) (gen_one rt c) = gen_one rt c).
    { rewrite <- (map_id (gen_one rt c)) at 2. apply map_ext_in. intros x Hx. unfold gen_one in Hx.
      apply in_map_iff in Hx as [i [<- _]]. unfold fdown, sd_keep. cbn [base gen_entry]. rewrite Hb. reflexivity. }
    rewrite E. apply filter_true_on. intros x Hx. unfold gen_one in Hx. apply in_map_iff in Hx as [i [<- _]].
    unfold qkeep, sd_drop. cbn [base gen_entry]. rewrite Hb. reflexivity.
Qed.

Lemma comp_b_up : forall b k o fresh rt t e, base e = b -> orig e = t -> o <= k ->
  map (tgt b k) (gen_one rt (b, o, t)) ++ map (tgt b k) (news e o k fresh)
  = gen_one (rt_after b o fresh rt) (b, k, t).
Proof.
  intros b k o fresh rt t e Eb Et Hok. subst b t. unfold gen_one, news. cbn [cbase ccount fst snd].
  replace (seq 0 k) with (seq 0 o ++ seq o (k - o)) by (rewrite <- seq_app; f_equal; lia).
  rewrite map_app, !map_map. f_equal.
  - apply map_ext_in. intros i Hi. apply in_seq in Hi. unfold tgt, gen_entry. cbn [base]. rewrite beq_refl.
    unfold retarget, rt_after. cbn. rewrite beq_refl. cbn [andb]. destruct (Nat.leb_spec o i); [lia|]. reflexivity.
  - apply map_ext_in. intros i Hi. apply in_seq in Hi. unfold tgt, new_entry. cbn [base]. rewrite beq_refl.
    unfold retarget, gen_entry, rt_after. cbn. rewrite beq_refl. cbn [andb]. destruct (Nat.leb_spec o i); [|lia]. reflexivity.
Qed.

Lemma up_all : forall b k o fresh rt t e cfg, NoDup (map cbase cfg) -> In (b, o, t) cfg ->
  base e = b -> orig e = t -> o <= k ->
  Permutation (map (tgt b k) (gen cfg rt ++ news e o k fresh)) (gen (set_k b k cfg) (rt_after b o fresh rt)).
Proof.
  intros b k o fresh rt t e cfg N Hc Eb Et Hok. apply in_split in Hc as [l1 [l2 ->]].
  assert (H1 : forall c, In c l1 -> cbase c <> b).
  { intros c Hc E. rewrite map_app in N. cbn in N. apply NoDup_remove_2 in N. apply N. apply in_or_app. left.
    rewrite <- E. apply in_map. exact Hc. }
  assert (H2 : forall c, In c l2 -> cbase c <> b).
  { intros c Hc E. rewrite map_app in N. cbn in N. apply NoDup_remove_2 in N. apply N. apply in_or_app. right.
    rewrite <- E. apply in_map. exact Hc. }
  assert (SK : set_k b k (l1 ++ (b, o, t) :: l2) = set_k b k l1 ++ (b, k, t) :: set_k b k l2).
  { unfold set_k at 1. rewrite map_app. fold (set_k b k l1). f_equal. apply (set_k_same b k (b, o, t) l2). apply beq_refl. }
  rewrite SK.
  rewrite !gen_app, !gen_cons, !map_app.
  rewrite (untouched b k o fresh rt l1 H1), (untouched b k o fresh rt l2 H2).
  rewrite <- (comp_b_up b k o fresh rt t e Eb Et Hok).
  rewrite <- !app_assoc. apply Permutation_app_head. apply Permutation_app_head. apply Permutation_app_comm.
Qed.

(* ---- the main result ------------------------------------------------------------------------------------ *)
Lemma cfg_ok_set_k : forall b k cfg, 1 <= k -> cfg_ok cfg -> cfg_ok (set_k b k cfg).
Proof.
  intros b k cfg Hk [N [K1 S]].
  assert (Eb : map cbase (set_k b k cfg) = map cbase cfg).
  { unfold set_k. rewrite map_map. apply map_ext. intros c. destruct (beq (cbase c) b); reflexivity. }
  assert (Hin : forall c, In c (set_k b k cfg) -> exists c0, In c0 cfg /\ cbase c = cbase c0 /\ (ccount c = k \/ c = c0)).
  { intros c Hc. unfold set_k in Hc. apply in_map_iff in Hc as [c0 [<- Hc0]]. exists c0. split; auto.
    destruct (beq (cbase c0) b); cbn; auto. }
  repeat split.
  - rewrite Eb. exact N.
  - intros c Hc. destruct (Hin c Hc) as [c0 [Hc0 [_ [->| ->]]]]; auto.
  - intros c c' Hc Hc' E. destruct (Hin c Hc) as [c0 [Hc0 [E0 _]]]. destruct (Hin c' Hc') as [c1 [Hc1 [E1 _]]].
    rewrite E0, E1 in *. apply S; auto.
Qed.

Theorem scale_gen : forall fresh cfg rt m nm n e,
  cfg_ok cfg -> Permutation m (gen cfg rt) -> mfind nm m = Some e -> (1 <= n)%Z ->
  Permutation (scale_proj fresh m nm n)
              (gen (set_k (base e) (Z.to_nat n) cfg) (rt_after (base e) (count_base (base e) m) fresh rt))
  /\ cfg_ok (set_k (base e) (Z.to_nat n) cfg).
Proof.
  intros fresh cfg rt m nm n e OK P Hf Hn.
  split; [|apply cfg_ok_set_k; [lia|exact OK]].
  pose proof (mfacts_of_perm cfg rt m OK P) as F. pose proof F as [K [B [C [Dd S]]]].
  pose proof OK as [N [K1 S0]].
  apply mfind_In in Hf as Hf'. destruct Hf' as [He _].
  destruct (Dd e He) as [c0 [Hc0 [Eb [Ek [Et Hnum]]]]].
  set (b := base e) in *. set (k := Z.to_nat n). set (o := count_base b m).
  assert (Ho : o = ccount c0).
  { unfold o. rewrite (count_perm b m _ P). rewrite <- Eb. apply count_gen; assumption. }
  assert (Hb : forall x, In x m -> base x = b -> num x < o /\ reps x = o).
  { intros x Hx Ex. destruct (Dd x Hx) as [c [Hc [E1 [E2 [_ E4]]]]].
    assert (c = c0) by (apply (cfg_same cfg); auto; congruence). subst c. rewrite Ho. lia. }
  assert (Hc0' : c0 = (b, o, orig e)).
  { rewrite Ho. destruct c0 as [[b0 k0] t0]. cbn in Eb, Ek, Et |- *. congruence. }
  unfold scale_proj, scale. destruct (Z.ltb_spec n 1); [lia|]. rewrite Hf. fold b. fold k. fold o.
  destruct (Nat.ltb_spec k o) as [Hko|Hko].
  - (* scale down *)
    destruct (scale_down b k m) as [m1 st] eqn:SD.
    assert (E1 : m1 = fst (scale_down b k m)) by (rewrite SD; reflexivity).
    rewrite scale_down_eq in E1 by exact K. subst m1.
    apply finish.
    + apply K_filter. rewrite keys_map_fdown. exact K.
    + apply glike_clash_free. eapply glike_down. exact F.
    + rewrite <- (down_all b k o fresh rt cfg).
      * apply Permutation_map, Permutation_filter, Permutation_map. exact P.
      * intros c Hc Ec. assert (c = c0) by (apply (cfg_same cfg); auto; congruence). subst c. lia.
  - destruct (Nat.ltb_spec o k) as [Hok|Hok].
    + (* scale up *)
      assert (Hnum' : forall x, In x m -> base x = b -> num x < o) by (intros x Hx Ex; apply (Hb x Hx Ex)).
      rewrite (scale_up_eq cfg b k o fresh e m F He eq_refl Hok Hnum').
      apply finish.
      * pose proof (glike_up cfg b k o fresh e m F He eq_refl Hok Hnum') as [G1 _]. exact G1.
      * apply glike_clash_free. eapply glike_up; eauto.
      * eapply Permutation_trans.
        -- apply Permutation_map. apply Permutation_app_tail. exact P.
        -- apply (up_all b k o fresh rt (orig e) e cfg N); [rewrite <- Hc0'; exact Hc0|reflexivity|reflexivity|lia].
    + (* same count: nothing happens *)
      assert (k = o) by lia.
      assert (E1 : set_k b k cfg = cfg).
      { unfold set_k. rewrite <- (map_id cfg) at 2. apply map_ext_in. intros c Hc.
        destruct (beq (cbase c) b) eqn:Bc; auto. apply beq_eq in Bc.
        assert (c = c0) by (apply (cfg_same cfg); auto; congruence). subst c. rewrite Hc0'. cbn. congruence. }
      rewrite E1. rewrite (gen_ext cfg (rt_after b o fresh rt) rt); [exact P|].
      intros c i Hc Hi. unfold rt_after. destruct (beq (cbase c) b) eqn:Bc; auto. apply beq_eq in Bc.
      assert (c = c0) by (apply (cfg_same cfg); auto; congruence). subst c.
      destruct (Nat.leb_spec o i); [lia|]. reflexivity.
Qed.

(* ---- corollaries ------------------------------------------------------------------------------------------ *)
Lemma scale_error : forall fresh m nm n, (n < 1)%Z \/ mfind nm m = None -> scale fresh m nm n = (Err, m, [], []).
Proof.
  intros fresh m nm n [H|H]; unfold scale.
  - destruct (Z.ltb_spec n 1); [reflexivity|lia].
  - destruct (n <? 1)%Z; [reflexivity|]. rewrite H. reflexivity.
Qed.

(* who is terminated and who is launched *)
Lemma scale_ok_effects : forall fresh m nm n e, (1 <= n)%Z -> mfind nm m = Some e ->
  scale fresh m nm n =
    (Ok, scale_proj fresh m nm n,
     if Z.to_nat n <? count_base (base e) m then map inst (filter (sd_drop (base e) (Z.to_nat n)) m) else [],
     if Z.to_nat n <? count_base (base e) m then []
     else if count_base (base e) m <? Z.to_nat n
          then map fresh (seq (count_base (base e) m) (Z.to_nat n - count_base (base e) m)) else []).
Proof.
  intros fresh m nm n e Hn Hf. unfold scale_proj, scale. destruct (Z.ltb_spec n 1); [lia|]. rewrite Hf.
  destruct (Z.to_nat n <? count_base (base e) m).
  - unfold scale_down. reflexivity.
  - destruct (count_base (base e) m <? Z.to_nat n); reflexivity.
Qed.

(* run-time identities: untouched for other processes and for the replicas that exist before and after *)
Lemma rt_after_other : forall b o fresh rt b' i, b' <> b -> rt_after b o fresh rt b' i = rt b' i.
Proof. intros. unfold rt_after. apply beq_neq in H. rewrite H. reflexivity. Qed.
Lemma rt_after_kept : forall b o fresh rt i, i < o -> rt_after b o fresh rt b i = rt b i.
Proof. intros. unfold rt_after. destruct (Nat.leb_spec o i); [lia|]. rewrite andb_false_r. reflexivity. Qed.
Lemma rt_after_added : forall b o fresh rt i, o <= i -> rt_after b o fresh rt b i = (fresh i, fresh i, 0).
Proof. intros. unfold rt_after. rewrite beq_refl. destruct (Nat.leb_spec o i); [reflexivity|lia]. Qed.

Definition shape (cfg : list cfgt) : list (bytes * N) := map (fun c => (cbase c, snd c)) cfg.

Lemma shape_set_k : forall b k cfg, shape (set_k b k cfg) = shape cfg.
Proof. intros. unfold shape, set_k. rewrite map_map. apply map_ext. intros c. destruct (beq (cbase c) b); reflexivity. Qed.

Lemma count_set_k : forall b k cfg c, In c (set_k b k cfg) -> cbase c = b -> ccount c = k.
Proof.
  intros b k cfg c Hc E. unfold set_k in Hc. apply in_map_iff in Hc as [c0 [<- _]].
  destruct (beq (cbase c0) b) eqn:B; [reflexivity|]. apply beq_neq in B. contradiction.
Qed.

(* histories: induction over the request list *)
Theorem run_reqs_gen : forall reqs fresh i cfg rt m,
  cfg_ok cfg -> Permutation m (gen cfg rt) ->
  exists cfg' rt', cfg_ok cfg' /\ shape cfg' = shape cfg /\ Permutation (run_reqs fresh i m reqs) (gen cfg' rt').
Proof.
  induction reqs as [|[nm n] r IH]; intros fresh i cfg rt m OK P; cbn [run_reqs].
  - exists cfg, rt. auto.
  - destruct (Z.ltb_spec n 1) as [Hn|Hn].
    + unfold scale_proj. rewrite scale_error by (left; exact Hn). apply (IH fresh (S i) cfg rt m); assumption.
    + destruct (mfind nm m) as [e|] eqn:Hf.
      * destruct (scale_gen (fresh i) cfg rt m nm n e OK P Hf Hn) as [P' OK'].
        destruct (IH fresh (S i) _ _ _ OK' P') as [cfg' [rt' [A [B C]]]].
        exists cfg', rt'. split; [exact A|]. split; [rewrite B; apply shape_set_k|exact C].
      * unfold scale_proj. rewrite scale_error by (right; exact Hf). apply (IH fresh (S i) cfg rt m); assumption.
Qed.

(* the loader model is gen with the initial run-time data *)
Definition norm_cfg (cfg : list cfgt) : list cfgt := map (fun c => (cbase c, norm_reps (ccount c), snd c)) cfg.
Lemma load_is_gen : forall cfg i0,
  load cfg i0 = gen (norm_cfg cfg) (fun b i => (i0 b i, i0 b i, 0)).
Proof.
  intros cfg i0. unfold load, gen, norm_cfg. rewrite flat_map_concat_map, flat_map_concat_map, map_map. f_equal.
  apply map_ext. intros [[b k] t]. reflexivity.
Qed.

Lemma sep_first : forall x y b b', x <> y -> sep (x :: b) (y :: b').
Proof.
  intros x y b b' H r i r' i' E. unfold replica_name in E.
  destruct (r <=? 1), (r' <=? 1); cbn in E; inversion E; contradiction.
Qed.

Lemma replica_name_N_eq : forall b r i, replica_name b r i = replica_name_N b (N.of_nat r) (N.of_nat i).
Proof.
  intros. unfold replica_name, replica_name_N. destruct (Nat.leb_spec r 1), (N.leb_spec (N.of_nat r) 1); auto; lia.
Qed.
