(* Proofs about the abstract process tree under the stop plan: for ALL trees (induction over the member
   list), all parameters. *)
From Coq Require Import List ZArith NArith Bool Lia.
From PC.StopPlan Require Import Model Proofs.
From PC.OsTree Require Import Model.
Import ListNotations.
Open Scope Z_scope.

(* ---------------------------------------------------------------- single members *)
Lemma deliver_attrs : forall s m,
  m_id (deliver s m) = m_id m /\ m_leader (deliver s m) = m_leader m /\
  m_in_group (deliver s m) = m_in_group m /\ m_ignores (deliver s m) = m_ignores m /\
  m_holds_pipe (deliver s m) = m_holds_pipe m.
Proof. intros s m. unfold deliver. destruct (dies_on s m); cbn; auto. Qed.

Lemma deliver_alive : forall s m, m_alive (deliver s m) = m_alive m && negb (dies_on s m).
Proof. intros s m. unfold deliver. destruct (dies_on s m); cbn; [rewrite andb_false_r|rewrite andb_true_r]; reflexivity. Qed.

Lemma dies_on_kill : forall m, dies_on SIGKILL m = true.
Proof. intro m. reflexivity. Qed.

Definition step1 (t : target) (s : Z) (m : member) : member := if addressed t m then deliver s m else m.

Lemma step1_attrs : forall t s m,
  m_id (step1 t s m) = m_id m /\ m_leader (step1 t s m) = m_leader m /\
  m_in_group (step1 t s m) = m_in_group m /\ m_ignores (step1 t s m) = m_ignores m /\
  m_holds_pipe (step1 t s m) = m_holds_pipe m.
Proof. intros t s m. unfold step1. destruct (addressed t m); [apply deliver_attrs|auto]. Qed.

Lemma step1_alive : forall t s m,
  m_alive (step1 t s m) = m_alive m && negb (addressed t m && dies_on s m).
Proof.
  intros t s m. unfold step1. destruct (addressed t m) eqn:A; cbn.
  - apply deliver_alive.
  - rewrite andb_true_r. reflexivity.
Qed.

Lemma addressed_step1 : forall t t' s m, addressed t (step1 t' s m) = addressed t m.
Proof.
  intros t t' s m. destruct (step1_attrs t' s m) as (_ & L & G & _). destruct t; cbn; congruence.
Qed.

Lemma dies_on_step1 : forall s t s' m, dies_on s (step1 t s' m) = dies_on s m.
Proof.
  intros s t s' m. destruct (step1_attrs t s' m) as (_ & _ & _ & I & _). unfold dies_on. rewrite I. reflexivity.
Qed.

Lemma kill_is_map : forall t s tr, kill t s tr = map (step1 t s) tr.
Proof. reflexivity. Qed.

(* ---------------------------------------------------------------- whole trees *)
Lemma all_dead_map : forall (f : member -> member) tr,
  (forall m, In m tr -> m_alive (f m) = false) -> all_dead (map f tr) = true.
Proof.
  intros f tr. induction tr as [|m r IH]; intro H; cbn; [reflexivity|].
  rewrite (H m (or_introl eq_refl)). cbn. apply IH. intros m' Hm'. apply H. right. exact Hm'.
Qed.

Lemma all_dead_spec : forall tr, all_dead tr = true <-> forall m, In m tr -> m_alive m = false.
Proof.
  intro tr. unfold all_dead. rewrite forallb_forall. split; intros H m Hm; specialize (H m Hm).
  - destruct (m_alive m); [discriminate|reflexivity].
  - rewrite H. reflexivity.
Qed.

Lemma all_dead_survivors : forall tr, all_dead tr = true <-> survivors tr = [].
Proof.
  intro tr. unfold survivors, all_dead. induction tr as [|m r IH]; cbn; [tauto|].
  destruct (m_alive m); cbn; [split; discriminate|exact IH].
Qed.

Lemma kill9_group_all_dead : forall tr,
  forallb m_in_group tr = true -> all_dead (kill TGroup SIGKILL tr) = true.
Proof.
  intros tr H. rewrite kill_is_map. apply all_dead_map. intros m Hm.
  rewrite forallb_forall in H. rewrite step1_alive. cbn [addressed]. rewrite (H m Hm), dies_on_kill.
  cbn. apply andb_false_r.
Qed.

Lemma in_group_kill : forall t s tr, forallb m_in_group (kill t s tr) = forallb m_in_group tr.
Proof.
  intros t s tr. rewrite kill_is_map. induction tr as [|m r IH]; cbn [map forallb]; [reflexivity|].
  destruct (step1_attrs t s m) as (_ & _ & G & _). rewrite G, IH. reflexivity.
Qed.

(* dead members stay dead *)
Lemma kill_monotone : forall t s tr m', In m' (kill t s tr) ->
  exists m, In m tr /\ m' = step1 t s m.
Proof. intros t s tr m' H. rewrite kill_is_map in H. apply in_map_iff in H. destruct H as [m [E I]]. eauto. Qed.

Lemma all_dead_kill : forall t s tr, all_dead tr = true -> all_dead (kill t s tr) = true.
Proof.
  intros t s tr H. rewrite kill_is_map. apply all_dead_map. intros m Hm.
  rewrite all_dead_spec in H. rewrite step1_alive, (H m Hm). reflexivity.
Qed.

(* ---------------------------------------------------------------- the stop procedure on a tree *)
Section Exec.
Context {E D : Type}.
Notation action := (action E D).
Notation procinfo := (procinfo E D).

Lemma eff_kill : eff_signal SIGKILL = SIGKILL.
Proof. reflexivity. Qed.

Lemma apply_esc : forall cb tr t, apply_action cb tr (AEsc t : action) = kill t SIGKILL tr.
Proof. reflexivity. Qed.

Lemma apply_stop : forall cb tr t s, apply_action cb tr (AStop t s : action) = kill t (eff_signal s) tr.
Proof. reflexivity. Qed.

Lemma apply_keeps_group : forall cb tr (a : action),
  forallb m_in_group (apply_action cb tr a) = forallb m_in_group tr.
Proof.
  intros cb tr a. unfold apply_action. destruct (os_wire a) as [[t s]|].
  - apply in_group_kill.
  - destruct (cb_effect cb) as [[t s]|]; [apply in_group_kill|reflexivity].
Qed.

(* signal path, group target: the final tree in closed form *)
Lemma run_stop_signal_path : forall p (info : procinfo) cb tr,
  p_has_cmd p = false ->
  let tgt := target_of (p_parent_only p) in
  let tr1 := kill tgt (eff_signal (p_signal p)) tr in
  run_stop p info cb tr =
    if p_timeout p =? 0 then tr1
    else if ended tr1 && (0 <? deadline_ms (p_timeout p)) then tr1
    else kill tgt SIGKILL tr1.
Proof.
  intros p info cb tr Hc tgt tr1. unfold run_stop, plan, plan_signal. rewrite Hc.
  destruct (p_timeout p =? 0) eqn:Hto; [reflexivity|].
  unfold answers_of. fold tgt. fold tr1. cbn [a_proc].
  destruct (ended tr1) eqn:He; cbn [ended_before andb].
  - destruct (0 <? deadline_ms (p_timeout p)); reflexivity.
  - reflexivity.
Qed.

(* MAIN: under the side condition, nothing is left alive *)
Lemma stop_reaches_all_dead : forall p (info : procinfo) cb tr,
  stop_reaches_all p cb tr = true -> all_dead (run_stop p info cb tr) = true.
Proof.
  intros p info cb tr H. unfold stop_reaches_all in H. destruct (p_has_cmd p) eqn:Hc.
  - (* shutdown command that fails / times out: SIGKILL to the group *)
    apply andb_true_iff in H. destruct H as [Hf Hg]. unfold cmd_fails in Hf.
    unfold run_stop, plan, plan_cmd. rewrite Hc. cbn [answers_of a_cmd].
    destruct (deadline_ms (cmd_timeout p) =? 0).
    + cbn. apply kill9_group_all_dead. exact Hg.
    + destruct (cmd_error_at (cb_result cb) (deadline_ms (cmd_timeout p))); [|discriminate].
      cbn [map snd fold_left]. rewrite apply_esc. apply kill9_group_all_dead.
      rewrite apply_keeps_group. exact Hg.
  - apply andb_true_iff in H. destruct H as [Hpo Hok]. apply negb_true_iff in Hpo.
    rewrite run_stop_signal_path by exact Hc. rewrite Hpo. cbn [target_of].
    rewrite forallb_forall in Hok.
    assert (Hg : forallb m_in_group tr = true).
    { apply forallb_forall. intros m Hm. specialize (Hok m Hm). unfold member_ok in Hok.
      apply andb_true_iff in Hok. tauto. }
    destruct (p_timeout p =? 0) eqn:Hto.
    + (* no timeout: every member dies of the signal *)
      rewrite kill_is_map. apply all_dead_map. intros m Hm. specialize (Hok m Hm).
      unfold member_ok in Hok. rewrite Hto in Hok. cbn [negb andb] in Hok. rewrite orb_false_r in Hok.
      apply andb_true_iff in Hok. destruct Hok as [G Dd]. rewrite step1_alive. cbn [addressed].
      rewrite G, Dd. apply andb_false_r.
    + destruct (ended (kill TGroup (eff_signal (p_signal p)) tr) && (0 <? deadline_ms (p_timeout p))) eqn:He.
      * (* the supervisor saw the end: pipe holders and the leader are dead, the others died of the signal *)
        apply andb_true_iff in He. destruct He as [He _].
        unfold ended in He. rewrite forallb_forall in He.
        apply all_dead_spec. intros m' Hm'. pose proof (He m' Hm') as Hend.
        destruct (kill_monotone _ _ _ _ Hm') as [m [Hm ->]]. specialize (Hok m Hm).
        unfold member_ok in Hok. apply andb_true_iff in Hok. destruct Hok as [G Hok].
        apply orb_true_iff in Hok. destruct Hok as [Dd|Hp].
        -- rewrite step1_alive. cbn [addressed]. rewrite G, Dd. apply andb_false_r.
        -- apply andb_true_iff in Hp. destruct Hp as [_ Hp].
           destruct (step1_attrs TGroup (eff_signal (p_signal p)) m) as (_ & _ & _ & _ & P).
           rewrite P, Hp, orb_true_r, andb_true_r in Hend. apply negb_true_iff in Hend. exact Hend.
      * apply kill9_group_all_dead. rewrite in_group_kill. exact Hg.
Qed.

(* with a timeout the launched pid itself is always dead afterwards, parent_only or not *)
Lemma leader_dead_with_timeout : forall p (info : procinfo) cb tr m,
  p_has_cmd p = false -> p_timeout p <> 0 -> wf tr = true ->
  In m (run_stop p info cb tr) -> m_leader m = true -> m_alive m = false.
Proof.
  intros p info cb tr m Hc Hto Hwf Hm Hl. rewrite run_stop_signal_path in Hm by exact Hc.
  apply Z.eqb_neq in Hto. rewrite Hto in Hm.
  set (tgt := target_of (p_parent_only p)) in *.
  set (tr1 := kill tgt (eff_signal (p_signal p)) tr) in *.
  destruct (ended tr1 && (0 <? deadline_ms (p_timeout p))) eqn:He.
  - apply andb_true_iff in He. destruct He as [He _]. unfold ended in He. rewrite forallb_forall in He.
    specialize (He m Hm). rewrite Hl in He. cbn in He. rewrite andb_true_r in He.
    apply negb_true_iff in He. exact He.
  - destruct (kill_monotone _ _ _ _ Hm) as [m1 [Hm1 ->]].
    destruct (step1_attrs tgt SIGKILL m1) as (_ & L & G & _).
    rewrite L in Hl. rewrite step1_alive.
    assert (A : addressed tgt m1 = true).
    { destruct (kill_monotone _ _ _ _ Hm1) as [m0 [Hm0 ->]].
      rewrite addressed_step1. destruct (step1_attrs tgt (eff_signal (p_signal p)) m0) as (_ & L0 & _).
      rewrite L0 in Hl. unfold wf in Hwf. rewrite forallb_forall in Hwf. specialize (Hwf m0 Hm0).
      rewrite Hl in Hwf. cbn in Hwf. unfold tgt. destruct (p_parent_only p); cbn; assumption. }
    rewrite A, dies_on_kill. apply andb_false_r.
Qed.

(* with a timeout and the group target, every group member that holds the output pipe is dead *)
Lemma pipe_holders_dead_with_timeout : forall p (info : procinfo) cb tr m,
  p_has_cmd p = false -> p_timeout p <> 0 -> p_parent_only p = false ->
  In m (run_stop p info cb tr) -> m_in_group m = true -> m_holds_pipe m = true -> m_alive m = false.
Proof.
  intros p info cb tr m Hc Hto Hpo Hm Hg Hp. rewrite run_stop_signal_path in Hm by exact Hc.
  apply Z.eqb_neq in Hto. rewrite Hto, Hpo in Hm. cbn [target_of] in Hm.
  set (tr1 := kill TGroup (eff_signal (p_signal p)) tr) in *.
  destruct (ended tr1 && (0 <? deadline_ms (p_timeout p))) eqn:He.
  - apply andb_true_iff in He. destruct He as [He _]. unfold ended in He. rewrite forallb_forall in He.
    specialize (He m Hm). rewrite Hp, orb_true_r, andb_true_r in He. apply negb_true_iff in He. exact He.
  - destruct (kill_monotone _ _ _ _ Hm) as [m1 [Hm1 ->]].
    destruct (step1_attrs TGroup SIGKILL m1) as (_ & _ & G & _). rewrite G in Hg.
    rewrite step1_alive. cbn [addressed]. rewrite Hg, dies_on_kill. apply andb_false_r.
Qed.

(* members outside the addressed set are untouched (parent_only leaves the children alone) *)
Lemma parent_only_spares_children : forall p (info : procinfo) cb tr,
  p_has_cmd p = false -> p_parent_only p = true ->
  filter (fun m => negb (m_leader m)) (run_stop p info cb tr) = filter (fun m => negb (m_leader m)) tr.
Proof.
  intros p info cb tr Hc Hpo. rewrite run_stop_signal_path by exact Hc. rewrite Hpo. cbn [target_of].
  assert (K : forall s tr0, filter (fun m => negb (m_leader m)) (kill TParent s tr0)
                           = filter (fun m => negb (m_leader m)) tr0).
  { intros s tr0. induction tr0 as [|m r IH]; [reflexivity|].
    cbn [kill map]. fold (kill TParent s r). cbn [addressed filter].
    destruct (m_leader m) eqn:L.
    - destruct (deliver_attrs s m) as (_ & L' & _). rewrite L', L. cbn. exact IH.
    - rewrite L. cbn. rewrite IH. reflexivity. }
  destruct (p_timeout p =? 0); [apply K|].
  destruct (_ && _); [apply K|]. rewrite K. apply K.
Qed.

(* project level: every managed tree, for any number of processes *)
Lemma shutdown_all_dead : forall (ps : list (params * procinfo * cmd_behaviour * tree)),
  forallb (fun x => match x with (p, _, cb, tr) => stop_reaches_all p cb tr end) ps = true ->
  forallb all_dead (shutdown_all ps) = true.
Proof.
  intros ps. unfold shutdown_all. induction ps as [|[[[p i] cb] tr] r IH]; cbn [map forallb]; [reflexivity|].
  intro H. apply andb_true_iff in H. destruct H as [H1 H2].
  rewrite (stop_reaches_all_dead p i cb tr H1). cbn [andb]. apply IH. exact H2.
Qed.

End Exec.

(* ---------------------------------------------------------------- counter-examples (findings) *)
Definition leader_plain : member := mkMember 1 true true [] true true.
Definition child_ign_term (pipe : bool) : member := mkMember 2 false true [15; 2; 3] pipe true.
Definition child_plain : member := mkMember 2 false true [2; 3] true true.
Definition no_cmd : cmd_behaviour := mkCmdB None CmdHang.
Definition uinfo : procinfo unit unit := mkInfo tt tt.

(* F24a: no timeout configured and a member ignores the signal *)
Lemma survivor_without_timeout :
  survivors (run_stop (mkParams 15 0 false false) uinfo no_cmd [leader_plain; child_ign_term true]) = [2%N].
Proof. vm_compute. reflexivity. Qed.

(* F24b: a timeout IS configured, but the ignoring member does not hold the output pipe: the
   supervisor sees the instance end and cancels the escalation *)
Lemma survivor_despite_timeout :
  survivors (run_stop (mkParams 15 5 false false) uinfo no_cmd [leader_plain; child_ign_term false]) = [2%N].
Proof. vm_compute. reflexivity. Qed.

Lemma parent_only_survivor :
  survivors (run_stop (mkParams 15 5 false true) uinfo no_cmd [leader_plain; child_plain]) = [2%N].
Proof. vm_compute. reflexivity. Qed.

(* a member that left the group (setsid) *)
Lemma left_group_survivor :
  survivors (run_stop (mkParams 15 5 false false) uinfo no_cmd
               [leader_plain; mkMember 2 false false [] true true]) = [2%N].
Proof. vm_compute. reflexivity. Qed.

(* a shutdown command that "succeeds" without ending the process: nothing else is done *)
Lemma cmd_ok_survivor :
  survivors (run_stop (mkParams 15 5 true false) uinfo (mkCmdB None (CmdOk 10)) [leader_plain]) = [1%N].
Proof. vm_compute. reflexivity. Qed.
