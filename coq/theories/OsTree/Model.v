(* OsTree: an abstract process tree under the stop procedure of StopPlan (property C06).

   ASSUMED operating-system behaviour (nothing here is derived from kernel code; the real-process
   scenarios of harness/cmd/c06 compare these predictions with Linux):
   - setpgid at launch (stopper_unix.go:42-44): the launched pid leads a process group of its own and
     descendants stay in it unless they call setsid/setpgid themselves ([m_in_group]);
   - kill(-pgid, s) delivers s to every live member of the group, Process.Signal(s) to the launched
     pid only;
   - SIGKILL (9) terminates any process; a signal whose default action is "ignore" (SIGCHLD 17,
     SIGCONT 18, SIGURG 23, SIGWINCH 28) or "stop" (19-22) does not terminate; any other signal
     terminates a member unless the member ignores or handles-and-continues it ([m_ignores]);
   - the supervisor sees the instance end (process.go:138-141: EOF on stdout/stderr, then Wait) when
     the launched pid is dead and no live member holds the write end of the output pipes;
   - delivery is prompt: a member that dies of the first signal is dead before the timeout; members do
     not die on their own; pids are not reused meanwhile; no zombie counts as alive. *)
From Coq Require Import List ZArith NArith Bool.
From PC.StopPlan Require Import Model.
Import ListNotations.
Open Scope Z_scope.

Record member := mkMember {
  m_id         : N;
  m_leader     : bool;       (* the pid process-compose launched *)
  m_in_group   : bool;       (* still in the leader's process group *)
  m_ignores    : list Z;     (* signals that do not terminate it (SIG_IGN or a handler that continues) *)
  m_holds_pipe : bool;       (* holds the write end of the captured stdout/stderr *)
  m_alive      : bool
}.
Definition tree := list member.

Definition zmem (s : Z) (l : list Z) : bool := existsb (Z.eqb s) l.
Definition default_ignored (s : Z) : bool := zmem s [17; 18; 23; 28].
Definition stops_only (s : Z) : bool := zmem s [19; 20; 21; 22].

(* s is an effective signal (1..31) *)
Definition dies_on (s : Z) (m : member) : bool :=
  (s =? SIGKILL) || negb (default_ignored s || stops_only s || zmem s (m_ignores m)).

Definition set_dead (m : member) : member :=
  mkMember (m_id m) (m_leader m) (m_in_group m) (m_ignores m) (m_holds_pipe m) false.

Definition deliver (s : Z) (m : member) : member := if dies_on s m then set_dead m else m.

Definition addressed (t : target) (m : member) : bool :=
  match t with TGroup => m_in_group m | TParent => m_leader m end.

Definition kill (t : target) (s : Z) (tr : tree) : tree :=
  map (fun m => if addressed t m then deliver s m else m) tr.

(* what the supervisor can see: the launched pid is gone and the output pipes are closed *)
Definition ended (tr : tree) : bool :=
  forallb (fun m => negb (m_alive m && (m_leader m || m_holds_pipe m))) tr.

(* the launched pid leads its group *)
Definition wf (tr : tree) : bool := forallb (fun m => implb (m_leader m) (m_in_group m)) tr.

Definition survivors (tr : tree) : list N := map m_id (filter m_alive tr).
Definition all_dead (tr : tree) : bool := forallb (fun m => negb (m_alive m)) tr.

(* what the shutdown command itself does to the tree (it is an arbitrary user program; the scenarios
   use "signal the launched pid" or nothing) and how it ends *)
Record cmd_behaviour := mkCmdB { cb_effect : option (target * Z); cb_result : cmd_answer }.

Section Exec.
Context {E D : Type}.

Definition apply_action (cb : cmd_behaviour) (tr : tree) (a : action E D) : tree :=
  match os_wire a with
  | Some (t, s) => kill t s tr
  | None => match cb_effect cb with Some (t, s) => kill t (eff_signal s) tr | None => tr end
  end.

(* the environment's answers as they follow from the tree: the instance ends at once if the first
   action leaves nothing the supervisor waits for, otherwise not at all *)
Definition answers_of (p : params) (cb : cmd_behaviour) (tr : tree) : answers :=
  let tr1 := kill (target_of (p_parent_only p)) (eff_signal (p_signal p)) tr in
  mkAns (if ended tr1 then EndsAfter 0 else NeverEnds) (cb_result cb).

Definition run_stop (p : params) (info : procinfo E D) (cb : cmd_behaviour) (tr : tree) : tree :=
  fold_left (apply_action cb) (map snd (plan p info (answers_of p cb tr))) tr.

(* project shutdown: every managed process is stopped (order and concurrency do not matter for the
   final trees: the trees are disjoint) *)
Definition shutdown_all (ps : list (params * procinfo E D * cmd_behaviour * tree)) : list tree :=
  map (fun x => match x with (p, i, cb, tr) => run_stop p i cb tr end) ps.

End Exec.

(* the decidable side condition under which "no descendant is left alive" holds *)
Definition cmd_fails (p : params) (cb : cmd_behaviour) : bool :=
  match cmd_error_at (cb_result cb) (deadline_ms (cmd_timeout p)) with Some _ => true | None => false end.

Definition member_ok (p : params) (m : member) : bool :=
  m_in_group m &&
  (dies_on (eff_signal (p_signal p)) m || (negb (p_timeout p =? 0) && m_holds_pipe m)).

Definition stop_reaches_all (p : params) (cb : cmd_behaviour) (tr : tree) : bool :=
  if p_has_cmd p then cmd_fails p cb && forallb m_in_group tr
  else negb (p_parent_only p) && forallb (member_ok p) tr.
