(* C04  Project completion: Run() ends when all are terminal, with the right exit code.
   (level: PROOF over the (hardened) supervisor model Sup for the safety half of the property text:
   NO side condition, NO window hypothesis of known_findings.json, no well-formedness of configurations.)
   This file contains only statements; every proof is `exact <lemma>` (lemmas: Sup/RelC04.v).

   What the monitor holds_C04 / mon_C04 (Sup/Monitors.v) checks, in words.  The observer folds the history
   into facts per instance: `o_alive` (a command was launched by ELaunch true and no ECmdExit followed),
   `o_byapi` (the instance was created inside a StartProcess/RestartProcess call), `o_sd_victim` (when
   its last command exited it was already in the snapshot of some ShutDownProject), and globally
   `o_triggers` (one entry (instance, code, victim?) per exit_trigger event: exit_on_failure with a
   non-zero code, exit_on_end, exit_on_skipped with code 1) and `o_api_sd_first` (a shutdown requested
   through the API took its snapshot before the project exit code was fixed, i.e. before any goroutine
   that logged exit_trigger logged its next event resume / shutdown_call / exit_code_set: exitCodeOnce.Do
   directly follows the exit_trigger trace point).  At every event `ERunReturn c`
   (Run() returns c) it demands:
     (1) no instance has a command alive, except instances started through the API;
     (2) if there was no exit_trigger, c = 0; otherwise c is the code of some exit_trigger, and - unless
         an API shutdown came first or every trigger was itself a shutdown victim - of a trigger that
         was NOT a victim of a shutdown.
   All other events pass.  (`C04_declarative` below states exactly this, position by position.)
   The liveness half of the property text ("it does return", "never waits forever") is not a property of
   finite accepted histories.  Its model-level core is proved below as two ENABLEDNESS theorems
   (C04_run_can_return, C04_waiter_released, C04_own_step_enabled, C04_spawned_can_begin,
   C04_progress_modulo_busy, C04_progress_partial: in every reachable state
   the step in question is possible);
   they are NOT a fairness or termination proof - that every process does reach a terminal state, and that the
   scheduler eventually runs the enabled step, is covered only by the monitor-only test of checks/C04.py
   (quiescence event of the controlled-scheduling harness).

   History: the first version needed two side conditions.  (b) "no API shutdown between exit_trigger and
   exitCodeOnce.Do" went away when the observer made "project exit code fixed" observable; (a) "every EBegin
   is preceded by its ESpawn" went away when the model staged instance creation (Model.v `stage`): EBegin i
   is accepted only after do_spawn (waitGroup.Add) of i. *)
From Coq Require Import List ZArith NArith Bool Lia.
From PC.Base Require Import Assoc.
From PC.Sup Require Import Model Monitors Check LemC04l RelC04 EnC04 EnC04p EnC04b EnC04q EnC04c EnC04d EnC04e.
Import ListNotations.

(* for ALL configurations (any dependency graph, policies, exit_on_* settings, several triggers),
   both shutdown modes, and ALL accepted histories (all interleavings, exit codes, API calls): *)
Theorem C04_main : forall cs ord evs s,
  accept (init cs ord) evs = Some s -> holds_C04 cs evs = true.
Proof. exact C04_main_lemma. Qed.
Print Assumptions C04_main.

(* the same, with the monitor unfolded: at every position k of the history that is a Run() return *)
Theorem C04_declarative : forall cs ord evs s,
  accept (init cs ord) evs = Some s ->
  forall k th c, nth_error evs k = Some (th, ERunReturn c) ->
    let o := obs_at cs evs k in
    (forall x, In x (vals (oi o)) -> o_alive x = true -> o_byapi x = true) /\
    (o_triggers o = [] -> c = 0%Z) /\
    (o_triggers o <> [] ->
       exists t, In t (o_triggers o) /\ snd (fst t) = c /\
                 (snd t = false \/ o_api_sd_first o = true \/ forall t', In t' (o_triggers o) -> snd t' = true)).
Proof. exact C04_declarative_lemma. Qed.
Print Assumptions C04_declarative.

(* ---- enabledness (the model-level core of the liveness half; no fairness, no termination) ------------- *)

(* Run() is not blocked: in every state s reached by an accepted history, if the Run() call of thread th is in
   its waitGroup.Wait() (ARunWait) and nothing of the wait group is outstanding - wg_quiet s: no instance is
   spawned-but-not-begun (stage 3), and every goroutine that began is at inst_exit or beyond (pc IWgDone/IGone)
   with its waitGroup.Done() executed (no RWgDone pending) - then the event "Run() returns the project exit
   code" is accepted in s.  (wg_quiet talks about instances only; that the counter wg is then 0 is the content.) *)
Theorem C04_run_can_return : forall cs ord evs s th,
  accept (init cs ord) evs = Some s ->
  apc (get_thread s th) = ARunWait -> wg_quiet s ->
  exists s', step s (th, ERunReturn (proj_code s)) = Some s'.
Proof. exact run_can_return. Qed.
Print Assumptions C04_run_can_return.

(* A waiter is released: in every reachable state, if the goroutine th of instance i waits for its dependency k
   on the instance j (pc IBlocked k c j todo) and j has gone through onProcessEnd (l_done: Completed, Error,
   Skipped, or stopped while pending), then th can take its dep_done step - WHATEVER the condition c
   (completed, completed_successfully, healthy, log_ready, started): an ended instance has released every
   latch a dependent can wait on (invariant R6: l_done -> ready, run-context and log-ready latches released,
   because onProcessEnd releases them before it sets done).  [step] performs the waiting thread's own pending
   release first (flush convention of the model); latches only go up, so this cannot block the step. *)
Theorem C04_waiter_released : forall cs ord evs s th i x k c j todo y,
  accept (init cs ord) evs = Some s ->
  get th (thinst s) = Some i -> get i (insts s) = Some x -> pc x = IBlocked k c j todo ->
  get j (insts s) = Some y -> l_done y = true ->
  exists ok s', step s (th, EDepDone k ok) = Some s'.
Proof. exact waiter_released. Qed.
Print Assumptions C04_waiter_released.

(* An instance goroutine never sits at a program counter from which the model offers no step although nothing
   outside is being waited for.  In every reachable state s, for every begun instance i (goroutine th) that is
   not `busy`, one of the goroutine's own events for its program counter (own_event (pc x) e: the table in
   Sup/EnC04b.v, e.g. IPreStart/EStarted, IStateSet/ELaunch, IExited/EExitCode, ICodeWritten/ERestartDecision,
   IEnding/EProcEnd, IInEnd/EState or EProcEnded, IRunRet/ERunReturned, IDoneReg/EDoneAdd or EInstDone,
   IProjEnd/EDoneAdd, EExitTrigger or EInstExit, ITriggered/EShutdownCall, ILeaving/EInstExit,
   IWgDone/ERegDel or EInstGone, IBackoff/EBackoffElapsed, IDeps []/ERunChecked, IBlocked/EDepDone) is accepted.
   busy s th i x = true exactly in these cases:
     (a) pc = IAlive and the command's exit has not been delivered (exited = None);
     (b) pc = IBlocked k c j _ and the latch that condition c waits on is not released for instance j
         (by C04_waiter_released's invariant it IS released once j has ended);
     (d) pc = IWgDone, the instance is still registered and another thread holds the registry lock;
     (e) pc = IGone;
     (f) the goroutine is inside ShutDownProject / a stop execution (spc <> SIdle or dpc <> DNone; only a
         triggering goroutine at ITriggered gets there) - its steps there are not covered;
     (g) pc = IDeps (k :: _): the dependency lookup protocol (registry reads) is not covered.
   A back-off (c) is never busy: EBackoffElapsed is always accepted. *)
Theorem C04_own_step_enabled : forall cs ord evs s th i x,
  accept (init cs ord) evs = Some s ->
  get th (thinst s) = Some i -> get i (insts s) = Some x -> busy s th i x = false ->
  exists e s', own_event (pc x) e = true /\ step s (th, e) = Some s'.
Proof. exact own_step_enabled. Qed.
Print Assumptions C04_own_step_enabled.

(* A goroutine that runProcess has started (waitGroup.Add + go: stage 3) can always begin, on a thread
   identifier that is not in use. *)
Theorem C04_spawned_can_begin : forall cs ord evs s i c,
  accept (init cs ord) evs = Some s -> get i (stage s) = Some (c, 3) ->
  exists th s', get th (thinst s) = None /\ step s (th, EBegin i) = Some s'.
Proof. exact spawned_can_begin. Qed.
Print Assumptions C04_spawned_can_begin.

(* Deadlock-freedom modulo "busy": in every reachable state in which no begun goroutine is busy (cases (a)-(g)
   above; a goroutine that is gone with its waitGroup.Done() executed is allowed), either nothing of Run()'s
   wait group is outstanding (wg_quiet s - then Run() can return by C04_run_can_return) or some step is
   enabled: a spawned goroutine begins, or a goroutine takes one of its own events.  This is the frame of
   "Run() never waits forever on a process that can no longer start"; NOT proved is the induction along the
   dependency order that would discharge case (b) for a quiet supervisor (see notes/C04.md for what it needs). *)
Theorem C04_progress_modulo_busy : forall cs ord evs s,
  accept (init cs ord) evs = Some s ->
  (forall th i x, get th (thinst s) = Some i -> get i (insts s) = Some x ->
     busy s th i x = false \/ (pc x = IGone /\ pend (get_thread s th) <> Some RWgDone)) ->
  wg_quiet s \/
  exists th e s', step s (th, e) = Some s' /\
    ((exists i, e = EBegin i /\ get th (thinst s) = None) \/
     (exists i x, get th (thinst s) = Some i /\ get i (insts s) = Some x /\ own_event (pc x) e = true)).
Proof. exact progress_modulo_busy. Qed.
Print Assumptions C04_progress_modulo_busy.

(* ---- invariants of reachable states used by the progress theorem (each holds after every accepted history) -- *)

(* An instance that waits for a dependency waits for an EXISTING instance j of exactly the awaited name k, k is
   a configured dependency of the waiter and c is its configured condition. *)
Theorem C04_blocked_on_configured_dependency : forall cs ord evs s i x k c j todo,
  accept (init cs ord) evs = Some s -> get i (insts s) = Some x -> pc x = IBlocked k c j todo ->
  (exists y, get j (insts s) = Some y /\ nm y = k) /\ dep_cond (cf x) k = Some c.
Proof. intros cs ord evs s i x k c j todo H. exact (k_blk _ (K_reach cs ord evs s H) i x k c j todo). Qed.
Print Assumptions C04_blocked_on_configured_dependency.

(* The registries only name existing instances of that name. *)
Theorem C04_registries_name_instances : forall cs ord evs s k j,
  accept (init cs ord) evs = Some s -> get k (running s) = Some j \/ get k (donereg s) = Some j ->
  exists y, get j (insts s) = Some y /\ nm y = k.
Proof. intros cs ord evs s k j H [E|E]; [exact (k_run _ (K_reach cs ord evs s H) k j E)|exact (k_done _ (K_reach cs ord evs s H) k j E)]. Qed.
Print Assumptions C04_registries_name_instances.

(* A goroutine in Wait() has a command that is alive or whose exit is waiting to be collected. *)
Theorem C04_alive_has_command : forall cs ord evs s i x,
  accept (init cs ord) evs = Some s -> get i (insts s) = Some x -> pc x = IAlive -> alive x = true \/ exited x <> None.
Proof. intros cs ord evs s i x H. exact (k_alive _ (K_reach cs ord evs s H) i x). Qed.
Print Assumptions C04_alive_has_command.

(* Every instance has a goroutine or is still in runProcess; a pending waitGroup.Done() sits exactly at inst_exit. *)
Theorem C04_instance_begun_or_staged : forall cs ord evs s i x,
  accept (init cs ord) evs = Some s -> get i (insts s) = Some x ->
  (exists t, get t (thinst s) = Some i) \/ (exists v, get i (stage s) = Some v).
Proof. intros cs ord evs s i x H. exact (k_ex _ (K_reach cs ord evs s H) i x). Qed.
Print Assumptions C04_instance_begun_or_staged.

(* A half-created instance (stage 0, 1, 2: created / Pending written / registered, not yet spawned) belongs to a
   thread that is inside the creation of exactly that process, and a thread has at most one such instance. *)
Theorem C04_staged_has_creator : forall cs ord evs s i c k,
  accept (init cs ord) evs = Some s -> get i (stage s) = Some (c, k) -> k < 3 ->
  (exists x, get i (insts s) = Some x /\ creates (get_thread s c) (nm x) = true) /\
  (forall i2 k2, get i2 (stage s) = Some (c, k2) -> k2 < 3 -> i2 = i).
Proof.
  intros cs ord evs s i c k H Hi Hk. pose proof (St_reach cs ord evs s H) as HS. split; [exact (s_cr _ HS i c k Hi Hk)|].
  intros i2 k2 H2 Hk2. exact (s_uniq _ HS i2 i c k2 k H2 Hi Hk2 Hk).
Qed.
Print Assumptions C04_staged_has_creator.

(* ---- progress of the quiet supervisor ------------------------------------------------------------------- *)
(* "Run() never waits forever on a process that can no longer start", as a deadlock-freedom (enabledness)
   statement: for an acyclic dependency graph (ranked cs rank, the definition of Sup/EnC12.v), in every reachable
   state s of a QUIET supervisor (quiet2 s) -
     q_cmd   no command is alive and no exit is waiting to be collected,
     q_lock  the registry lock is free,
     q2_api  no thread is inside a creation: no Run() call is in its spawn loop with a process left to start and no
             Start/Restart call is between its check and its spawn (creates (get_thread s th) n = false),
     q_idle  no instance goroutine is inside a stop execution or ShutDownProject,
     q_gone  every goroutine that is gone has ended its process (l_done) -
   in which something of Run()'s wait group is outstanding (~ wg_quiet s), some instance-side step is enabled:
   a spawned goroutine begins, or a goroutine takes one of its own events (own_event2 = the table own_event plus
   the first registry read EDoneGet of a dependency lookup, which is always possible).  Proof: induction along
   the dependency order - a blocked instance's dependency instance exists (C04_blocked_on_configured_dependency)
   and is ended (then the latch is released, R6) or, by induction, something is enabled.
   Where Run() itself stands is irrelevant for the statement (with wg_quiet it could return: C04_run_can_return).
   q_gone is a premise because the corresponding invariant is FALSE in the model: an instance stopped while Pending
   whose stop concluded "not running" (known windows F32/F38) leaves without ever being ended.  (The former
   premise "no instance is half-created" is now derived: since ENewInst requires that the creating thread has
   no other stage entry below 3, a half-created instance belongs to a thread that is inside a creation -
   C04_staged_has_creator.)  This is an enabledness statement, not a fairness/termination proof. *)
Theorem C04_progress_partial : forall cs ord rank evs s,
  ranked cs rank -> accept (init cs ord) evs = Some s -> quiet2 s -> ~ wg_quiet s ->
  exists th e s', step s (th, e) = Some s' /\
    ((exists i, e = EBegin i /\ get th (thinst s) = None) \/
     (exists i x, get th (thinst s) = Some i /\ get i (insts s) = Some x /\ own_event2 (pc x) e = true)).
Proof. exact progress_partial2. Qed.
Print Assumptions C04_progress_partial.

(* Regression for the former model looseness "EBegin without ESpawn": the 10-event history in which a
   goroutine that was never added to the wait group still had its command alive at Run()'s return is
   now REJECTED by the model, and a history that is in program order except for the missing ESpawn is
   rejected exactly at the EBegin (position 4). *)
Example C04_nospawn_rejected :
  accept (init C04Refute.cs1 false) C04Refute.evs1 = None /\
  accept (init C04Refute.cs1b false) C04Refute.evs1b = None /\
  fst (accept_prefix (init C04Refute.cs1b false) C04Refute.evs1b 0) = 4.
Proof. exact C04_nospawn_rejected_lemma. Qed.

(* Regression for the former finding "API shutdown between exit_trigger and exitCodeOnce.Do" (84 events:
   A, exit_on_failure, fails with 3 and is parked in front of exitCodeOnce.Do; a shutdown requested through
   the API kills B, exit_on_failure, which exits with 7 and fixes the project exit code first; Run()
   returns 7).  The observer now records that the API shutdown took its snapshot before the code was
   fixed (o_api_sd_first), so the monitor accepts the code of any trigger: the history is accepted by
   the model and satisfies the monitor. *)
Example C04_api_shutdown_race_regression :
  accepted_hist C04Refute.cs2 false C04Refute.evs2 = true /\
  holds_C04 C04Refute.cs2 C04Refute.evs2 = true /\ o_api_sd_first (final_obs C04Refute.cs2 C04Refute.evs2) = true.
Proof. exact C04_api_shutdown_race_ok. Qed.

(* non-vacuity: a recorded history of the implementation (66 events: one exit_on_failure process that fails
   to start, triggers the shutdown, Run() returns 1, and a second shutdown through the API afterwards)
   is accepted by the model, contains a Run() return, and the monitor holds *)
Definition ex_conf : amap pconf :=
   [(0%N, mkConf [] PExitOnFailure 1 0%N false false false false true false false)].
Definition ex_evs : list (tid * event) := [
  (1%N, EApiBegin OpRun); (1%N, ERegGet 0%N None); (1%N, ENewInst 1%N 0%N); (1%N, EState 1%N SPending);
  (1%N, ERegAdd 1%N 0%N); (1%N, ESpawn 1%N 0%N); (1%N, EResume); (1%N, ERunSpawned); (2%N, EBegin 1%N);
  (2%N, EResume); (2%N, ERunChecked false); (2%N, EResume); (2%N, EProcEnd 1%N SError); (1%N, EResume);
  (2%N, EResume); (2%N, EState 1%N SError); (2%N, EProcEnded 1%N SError); (2%N, EResume);
  (2%N, ERunReturned 1%Z); (2%N, EResume); (2%N, EDoneAdd 1%N); (2%N, EInstDone); (2%N, EResume);
  (2%N, EExitTrigger 1%Z); (2%N, EResume); (2%N, EShutdownCall); (2%N, EResume); (2%N, EShutdownBegin);
  (2%N, EResume); (2%N, EShutdownOrder [1%N]); (2%N, EStopEnter 1%N true); (2%N, EResume);
  (2%N, EStopReturn 1%N); (2%N, EResume); (2%N, EShutdownEnd); (2%N, EResume); (2%N, EShutdownUnlocked);
  (2%N, EResume); (2%N, EExitCodeSet 1%Z); (3%N, EApiBegin OpShutdown); (2%N, EResume); (2%N, EInstExit);
  (3%N, EResume); (3%N, EShutdownCall); (3%N, EResume); (3%N, EShutdownBegin); (3%N, EResume);
  (3%N, EShutdownOrder [1%N]); (3%N, EStopEnter 1%N true); (3%N, EResume); (3%N, EStopReturn 1%N);
  (3%N, EResume); (3%N, EShutdownEnd); (2%N, EResume); (2%N, EWgDone); (1%N, ERunReturn 1%Z); (3%N, EResume);
  (3%N, EShutdownUnlocked); (2%N, ERegDel 1%N); (2%N, EInstGone); (3%N, EResume); (3%N, EApiReturn true);
  (3%N, EResume); (1%N, EResume); (1%N, EApiReturn false); (1%N, EResume)].
Example C04_nonvacuous :
  accepted_hist ex_conf false ex_evs = true /\
  length ex_evs = 66 /\ In (1%N, ERunReturn 1%Z) ex_evs /\ holds_C04 ex_conf ex_evs = true.
Proof. repeat split; try (vm_compute; reflexivity). vm_compute. tauto. Qed.

(* the two enabledness theorems instantiated on concrete reachable states *)
(* (1) the state of the recorded history above just before its Run() return (first 55 events) *)
Example C04_run_can_return_ex :
  exists s s', accept (init ex_conf false) (firstn 55 ex_evs) = Some s /\ wg_quiet s /\
               step s (1%N, ERunReturn 1%Z) = Some s'.
Proof.
  destruct (accept (init ex_conf false) (firstn 55 ex_evs)) as [s|] eqn:E; [|vm_compute in E; discriminate].
  pose proof E as E0. vm_compute in E0. injection E0 as E0.
  assert (Hq : wg_quiet s) by (apply wg_quiet_b_spec; subst s; vm_compute; reflexivity).
  assert (Ha : apc (get_thread s 1%N) = ARunWait) by (subst s; vm_compute; reflexivity).
  assert (Hc : proj_code s = 1%Z) by (subst s; vm_compute; reflexivity).
  destruct (C04_run_can_return _ _ _ _ _ E Ha Hq) as (s' & Hs'). rewrite Hc in Hs'. eauto.
Qed.

(* (2) B waits for A to become healthy (A has no readiness probe); A runs, exits and ends: B's dep_done is enabled *)
Definition w_conf : amap pconf :=
  [(0%N, mkConf [] PNo 0 0%N false false false false false false false);
   (1%N, mkConf [(0%N, CHealthy)] PNo 0 0%N false false false false false false false)].
Definition w_evs : list (tid * event) :=
 [(1%N, EApiBegin OpRun);
  (1%N, ENewInst 1%N 0%N); (1%N, EState 1%N SPending); (1%N, ERegAdd 1%N 0%N); (1%N, ESpawn 1%N 0%N);
  (1%N, ENewInst 2%N 1%N); (1%N, EState 2%N SPending); (1%N, ERegAdd 2%N 1%N); (1%N, ESpawn 2%N 1%N);
  (1%N, ERunSpawned); (2%N, EBegin 1%N); (3%N, EBegin 2%N);
  (3%N, EDoneGet 0%N None); (3%N, ELookupMid 0%N); (3%N, ERegGet 0%N (Some 1%N)); (3%N, EDepWait 0%N (Some 1%N));
  (2%N, ERunChecked false); (2%N, EStarted); (2%N, EState 1%N SRunning); (2%N, ELaunch true);
  (0%N, ECmdExit 1%N 0%Z); (2%N, EWaitReturn 0%Z); (2%N, EExitCode 0%Z); (2%N, ERestartDecision false);
  (2%N, EProcEnd 1%N SCompleted); (2%N, EState 1%N SCompleted)].
Example C04_waiter_released_ex :
  exists s ok s', accept (init w_conf false) w_evs = Some s /\
                  option_map pc (get 2%N (insts s)) = Some (IBlocked 0%N CHealthy 1%N []) /\
                  step s (3%N, EDepDone 0%N ok) = Some s'.
Proof.
  destruct (accept (init w_conf false) w_evs) as [s|] eqn:E; [|vm_compute in E; discriminate].
  pose proof E as E0. vm_compute in E0. injection E0 as E0.
  destruct (get 2%N (insts s)) as [x|] eqn:Hx; [|subst s; vm_compute in Hx; discriminate].
  destruct (get 1%N (insts s)) as [y|] eqn:Hy; [|subst s; vm_compute in Hy; discriminate].
  assert (Hpc : pc x = IBlocked 0%N CHealthy 1%N []) by (subst s; vm_compute in Hx; injection Hx as <-; reflexivity).
  assert (Hd : l_done y = true) by (subst s; vm_compute in Hy; injection Hy as <-; reflexivity).
  assert (Ht : get 3%N (thinst s) = Some 2%N) by (subst s; vm_compute; reflexivity).
  destruct (C04_waiter_released _ _ _ _ _ _ _ _ _ _ _ _ E Ht Hx Hpc Hy Hd) as (ok & s' & Hs').
  exists s, ok, s'. split; [reflexivity|split; [rewrite Hx; cbn; now rewrite Hpc|exact Hs']].
Qed.

(* (3) in the final state of w_evs instance A (goroutine 2) is inside onProcessEnd after its status write: it is
   not busy and proc_ended is enabled; (4) after the first 10 events of w_evs both goroutines are spawned and
   none has begun: instance 1 can begin *)
Example C04_own_step_enabled_ex :
  exists s e s', accept (init w_conf false) w_evs = Some s /\ own_event (IInEnd SCompleted 0%Z true) e = true /\
                 step s (2%N, e) = Some s'.
Proof.
  destruct (accept (init w_conf false) w_evs) as [s|] eqn:E; [|vm_compute in E; discriminate].
  pose proof E as E0. vm_compute in E0. injection E0 as E0.
  destruct (get 1%N (insts s)) as [x|] eqn:Hx; [|subst s; vm_compute in Hx; discriminate].
  assert (Hpc : pc x = IInEnd SCompleted 0%Z true) by (subst s; vm_compute in Hx; injection Hx as <-; reflexivity).
  assert (Ht : get 2%N (thinst s) = Some 1%N) by (subst s; vm_compute; reflexivity).
  assert (Hb : busy s 2%N 1%N x = false) by (subst s; vm_compute in Hx; injection Hx as <-; vm_compute; reflexivity).
  destruct (C04_own_step_enabled _ _ _ _ _ _ _ E Ht Hx Hb) as (e & s' & He & Hs'). rewrite Hpc in He. eauto 6.
Qed.
Example C04_spawned_can_begin_ex :
  exists s th s', accept (init w_conf false) (firstn 10 w_evs) = Some s /\ step s (th, EBegin 1%N) = Some s'.
Proof.
  destruct (accept (init w_conf false) (firstn 10 w_evs)) as [s|] eqn:E; [|vm_compute in E; discriminate].
  pose proof E as E0. vm_compute in E0. injection E0 as E0.
  assert (Hst : get 1%N (stage s) = Some (1%N, 3)) by (subst s; vm_compute; reflexivity).
  destruct (C04_spawned_can_begin _ _ _ _ _ _ E Hst) as (th & s' & _ & Hs'). eauto.
Qed.

(* (5) C04_progress_partial on the final state of w_evs: A is inside onProcessEnd, B waits for A to become healthy;
   the supervisor is quiet, Run()'s wait group is not, and some instance-side step is enabled *)
Example w_conf_ranked : ranked w_conf (fun n => N.to_nat n).
Proof.
  intros n c d Hg Hin. unfold w_conf in Hg. unfold get in Hg.
  destruct (N.eqb_spec 0 n) as [<-|_].
  - injection Hg as <-. destruct Hin.
  - destruct (N.eqb_spec 1 n) as [<-|_]; [|discriminate]. injection Hg as <-. cbn in Hin. destruct Hin as [<-|[]]. cbn. lia.
Qed.
Example C04_progress_partial_ex :
  exists s th e s', accept (init w_conf false) w_evs = Some s /\ quiet2 s /\ ~ wg_quiet s /\ step s (th, e) = Some s'.
Proof.
  destruct (accept (init w_conf false) w_evs) as [s|] eqn:E; [|vm_compute in E; discriminate].
  pose proof E as E0. vm_compute in E0. injection E0 as E0.
  assert (Hq : quiet2 s) by (apply quiet2_b_spec; subst s; vm_compute; reflexivity).
  assert (Hpc : option_map pc (get 2%N (insts s)) = Some (IBlocked 0%N CHealthy 1%N [])) by (subst s; vm_compute; reflexivity).
  assert (Ht : get 3%N (thinst s) = Some 2%N) by (subst s; vm_compute; reflexivity).
  assert (Hn : ~ wg_quiet s).
  { intros [_ Q2]. destruct (get 2%N (insts s)) as [x|] eqn:Hx; [|discriminate Hpc]. cbn in Hpc. injection Hpc as Hpc.
    destruct (Q2 _ _ _ Ht Hx) as ([Hp|Hp] & _); congruence. }
  clear E0 Hpc Ht.
  destruct (C04_progress_partial _ _ _ _ _ w_conf_ranked E Hq Hn) as (th & e & s' & Hs' & _).
  exists s, th, e, s'. split; [reflexivity|split; [exact Hq|split; [exact Hn|exact Hs']]].
Qed.
