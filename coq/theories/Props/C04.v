(* C04  Project completion: Run() ends when all are terminal, with the right exit code.
   (level: PROOF over the (hardened) supervisor model Sup for the safety half of the property text:
   NO side condition, NO window hypothesis of known_findings.json, no well-formedness of configurations.)
   This file contains only statements; every proof is `exact <lemma>` (lemmas: Sup/RelC04.v).

   What the monitor holds_C04 / mon_C04 (Sup/Monitors.v) checks, in words.  The observer folds the history
   into facts per instance: `o_alive` (a command was launched by ELaunch true and no ECmdExit followed),
   `o_byapi` (the instance was created inside a StartProcess/RestartProcess call), `o_sd_victim` (when
   its last command exited it was already in the snapshot of some ShutDownProject), and globally
   `o_triggers` (one entry (instance, code, victim?) per exit_trigger event: exit_on_failure with a
   non-zero code, exit_on_end, exit_on_skipped with code 1) and `o_api_sd_first` (a shutdown requested
   through the API took its snapshot before the project exit code was fixed, i.e. before any goroutine
   that logged exit_trigger logged its next event resume / shutdown_call / exit_code_set: exitCodeOnce.Do
   directly follows the exit_trigger trace point).  At every event `ERunReturn c`
   (Run() returns c) it demands:
     (1) no instance has a command alive, except instances started through the API;
     (2) if there was no exit_trigger, c = 0; otherwise c is the code of some exit_trigger, and - unless
         an API shutdown came first or every trigger was itself a shutdown victim - of a trigger that
         was NOT a victim of a shutdown.
   All other events pass.  (`C04_declarative` below states exactly this, position by position.)
   The liveness half of the property text ("it does return", "never waits forever") is not a property of
   finite accepted histories; it is covered by the monitor-only test of checks/C04.py (quiescence).

   History: the first version needed two side conditions.  (b) "no API shutdown between exit_trigger and
   exitCodeOnce.Do" went away when the observer made "project exit code fixed" observable; (a) "every EBegin
   is preceded by its ESpawn" went away when the model staged instance creation (Model.v `stage`): EBegin i
   is accepted only after do_spawn (waitGroup.Add) of i. *)
From Coq Require Import List ZArith NArith Bool.
From PC.Base Require Import Assoc.
From PC.Sup Require Import Model Monitors Check RelC04.
Import ListNotations.

(* for ALL configurations (any dependency graph, policies, exit_on_* settings, several triggers),
   both shutdown modes, and ALL accepted histories (all interleavings, exit codes, API calls): *)
Theorem C04_main : forall cs ord evs s,
  accept (init cs ord) evs = Some s -> holds_C04 cs evs = true.
Proof. exact C04_main_lemma. Qed.
Print Assumptions C04_main.

(* the same, with the monitor unfolded: at every position k of the history that is a Run() return *)
Theorem C04_declarative : forall cs ord evs s,
  accept (init cs ord) evs = Some s ->
  forall k th c, nth_error evs k = Some (th, ERunReturn c) ->
    let o := obs_at cs evs k in
    (forall x, In x (vals (oi o)) -> o_alive x = true -> o_byapi x = true) /\
    (o_triggers o = [] -> c = 0%Z) /\
    (o_triggers o <> [] ->
       exists t, In t (o_triggers o) /\ snd (fst t) = c /\
                 (snd t = false \/ o_api_sd_first o = true \/ forall t', In t' (o_triggers o) -> snd t' = true)).
Proof. exact C04_declarative_lemma. Qed.
Print Assumptions C04_declarative.

(* Regression for the former model looseness "EBegin without ESpawn": the 10-event history in which a
   goroutine that was never added to the wait group still had its command alive at Run()'s return is
   now REJECTED by the model, and a history that is in program order except for the missing ESpawn is
   rejected exactly at the EBegin (position 4). *)
Example C04_nospawn_rejected :
  accept (init C04Refute.cs1 false) C04Refute.evs1 = None /\
  accept (init C04Refute.cs1b false) C04Refute.evs1b = None /\
  fst (accept_prefix (init C04Refute.cs1b false) C04Refute.evs1b 0) = 4.
Proof. exact C04_nospawn_rejected_lemma. Qed.

(* Regression for the former finding "API shutdown between exit_trigger and exitCodeOnce.Do" (84 events:
   A, exit_on_failure, fails with 3 and is parked in front of exitCodeOnce.Do; a shutdown requested through
   the API kills B, exit_on_failure, which exits with 7 and fixes the project exit code first; Run()
   returns 7).  The observer now records that the API shutdown took its snapshot before the code was
   fixed (o_api_sd_first), so the monitor accepts the code of any trigger: the history is accepted by
   the model and satisfies the monitor. *)
Example C04_api_shutdown_race_regression :
  accepted_hist C04Refute.cs2 false C04Refute.evs2 = true /\
  holds_C04 C04Refute.cs2 C04Refute.evs2 = true /\ o_api_sd_first (final_obs C04Refute.cs2 C04Refute.evs2) = true.
Proof. exact C04_api_shutdown_race_ok. Qed.

(* non-vacuity: a recorded history of the implementation (66 events: one exit_on_failure process that fails
   to start, triggers the shutdown, Run() returns 1, and a second shutdown through the API afterwards)
   is accepted by the model, contains a Run() return, and the monitor holds *)
Definition ex_conf : amap pconf :=
   [(0%N, mkConf [] PExitOnFailure 1 0%N false false false false true false false)].
Definition ex_evs : list (tid * event) := [
  (1%N, EApiBegin OpRun); (1%N, ERegGet 0%N None); (1%N, ENewInst 1%N 0%N); (1%N, EState 1%N SPending);
  (1%N, ERegAdd 1%N 0%N); (1%N, ESpawn 1%N 0%N); (1%N, EResume); (1%N, ERunSpawned); (2%N, EBegin 1%N);
  (2%N, EResume); (2%N, ERunChecked false); (2%N, EResume); (2%N, EProcEnd 1%N SError); (1%N, EResume);
  (2%N, EResume); (2%N, EState 1%N SError); (2%N, EProcEnded 1%N SError); (2%N, EResume);
  (2%N, ERunReturned 1%Z); (2%N, EResume); (2%N, EDoneAdd 1%N); (2%N, EInstDone); (2%N, EResume);
  (2%N, EExitTrigger 1%Z); (2%N, EResume); (2%N, EShutdownCall); (2%N, EResume); (2%N, EShutdownBegin);
  (2%N, EResume); (2%N, EShutdownOrder [1%N]); (2%N, EStopEnter 1%N true); (2%N, EResume);
  (2%N, EStopReturn 1%N); (2%N, EResume); (2%N, EShutdownEnd); (2%N, EResume); (2%N, EShutdownUnlocked);
  (2%N, EResume); (2%N, EExitCodeSet 1%Z); (3%N, EApiBegin OpShutdown); (2%N, EResume); (2%N, EInstExit);
  (3%N, EResume); (3%N, EShutdownCall); (3%N, EResume); (3%N, EShutdownBegin); (3%N, EResume);
  (3%N, EShutdownOrder [1%N]); (3%N, EStopEnter 1%N true); (3%N, EResume); (3%N, EStopReturn 1%N);
  (3%N, EResume); (3%N, EShutdownEnd); (2%N, EResume); (2%N, EWgDone); (1%N, ERunReturn 1%Z); (3%N, EResume);
  (3%N, EShutdownUnlocked); (2%N, ERegDel 1%N); (2%N, EInstGone); (3%N, EResume); (3%N, EApiReturn true);
  (3%N, EResume); (1%N, EResume); (1%N, EApiReturn false); (1%N, EResume)].
Example C04_nonvacuous :
  accepted_hist ex_conf false ex_evs = true /\
  length ex_evs = 66 /\ In (1%N, ERunReturn 1%Z) ex_evs /\ holds_C04 ex_conf ex_evs = true.
Proof. repeat split; try (vm_compute; reflexivity). vm_compute. tauto. Qed.
