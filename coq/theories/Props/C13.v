(* C13 Scaling: exactly n consistently named replicas, survivors undisturbed.
   This file contains only the property statements; every proof is `exact <lemma>`.
   The model (coq/theories/Replica/Model.v) describes process-compose after the repairs fixes/D1..D3 and
   the cloneReplicas deep copy (F4); [gen cfg rt] is the project a fresh load of configuration [cfg]
   produces (Model.load, lemma load_is_gen), carrying run-time identities [rt] (instance, log, log length)
   per base name and replica number. *)
From Coq Require Import List ZArith NArith Bool Permutation Lia.
From PC.Replica Require Import Model Proofs Scale Check MonLink.
Import ListNotations.

(* "numbered 0..n-1 with distinct names": for ALL n, two replicas of one process never share a name *)
Theorem C13_names_distinct : forall b n i j, i < n -> j < n -> replica_name b n i = replica_name b n j -> i = j.
Proof. exact names_distinct. Qed.
Print Assumptions C13_names_distinct.

(* "of uniform zero-padded width": all n names have the same length, namely |base| + 1 + (digits of n) *)
Theorem C13_names_uniform_width : forall b n i j, i < n -> j < n ->
  length (replica_name b n i) = length (replica_name b n j).
Proof. exact names_equal_length. Qed.
Print Assumptions C13_names_uniform_width.

Theorem C13_name_width : forall b n i, 1 < n -> i < n ->
  length (replica_name b n i) = length b + 1 + width (N.of_nat n).
Proof. exact name_length. Qed.
Print Assumptions C13_name_width.

(* the width is the number of decimal digits: 1 + floor(log10 n), for every n >= 1 *)
Theorem C13_width_is_decimal : forall n, (1 <= n)%N ->
  (10 ^ N.of_nat (width n - 1) <= n < 10 ^ N.of_nat (width n))%N.
Proof. exact width_spec. Qed.
Print Assumptions C13_width_is_decimal.

(* "(the bare name when n is 1)" *)
Theorem C13_name_bare : forall b i, replica_name b 1 i = b.
Proof. exact replica_name_bare. Qed.
Print Assumptions C13_name_bare.

(* names of the old and of the new width never collide while replicas are being renamed *)
Theorem C13_names_across_widths : forall b r r' i j, 1 < r -> 1 < r' ->
  replica_name b r i = replica_name b r' j -> i = j.
Proof. exact replica_name_inj. Qed.
Print Assumptions C13_names_across_widths.

(* "After a scale request to n (n>=1) on a process, exactly n replicas of it exist ... the same set a fresh
   load with replicas: n would produce", for every starting count, every n >= 1, every order in which Go's
   map iteration produces the entries (m is any permutation of the loaded project), addressed through any of
   its replica names; and: "Replicas that exist both before and after keep running without being restarted
   ... other processes are untouched": the run-time identities of the result are [rt_after], which is [rt]
   for every other process and for every replica number below the old count (C13_kept, C13_others), and the
   fresh identities for the added numbers (C13_added). *)
Theorem C13_scale_is_load : forall fresh cfg rt m nm n e,
  cfg_ok cfg -> Permutation m (gen cfg rt) -> mfind nm m = Some e -> (1 <= n)%Z ->
  Permutation (scale_proj fresh m nm n)
              (gen (set_k (base e) (Z.to_nat n) cfg) (rt_after (base e) (count_base (base e) m) fresh rt))
  /\ cfg_ok (set_k (base e) (Z.to_nat n) cfg).
Proof. exact scale_gen. Qed.
Print Assumptions C13_scale_is_load.

Theorem C13_new_count : forall b k cfg c, In c (set_k b k cfg) -> cbase c = b -> ccount c = k.
Proof. exact count_set_k. Qed.
Print Assumptions C13_new_count.

Theorem C13_kept : forall b o fresh rt i, i < o -> rt_after b o fresh rt b i = rt b i.
Proof. exact rt_after_kept. Qed.
Print Assumptions C13_kept.

Theorem C13_others : forall b o fresh rt b' i, b' <> b -> rt_after b o fresh rt b' i = rt b' i.
Proof. exact rt_after_other. Qed.
Print Assumptions C13_others.

Theorem C13_added : forall b o fresh rt i, o <= i -> rt_after b o fresh rt b i = (fresh i, fresh i, 0).
Proof. exact rt_after_added. Qed.
Print Assumptions C13_added.

(* "removed replicas are terminated, added ones are launched": the instances the request stops are exactly
   those of the replicas numbered >= n, the instances it launches are the fresh ones numbered old..n-1 *)
Theorem C13_stopped_and_launched : forall fresh m nm n e, (1 <= n)%Z -> mfind nm m = Some e ->
  scale fresh m nm n =
    (Ok, scale_proj fresh m nm n,
     if Z.to_nat n <? count_base (base e) m then map inst (filter (sd_drop (base e) (Z.to_nat n)) m) else [],
     if Z.to_nat n <? count_base (base e) m then []
     else if count_base (base e) m <? Z.to_nat n
          then map fresh (seq (count_base (base e) m) (Z.to_nat n - count_base (base e) m)) else []).
Proof. exact scale_ok_effects. Qed.
Print Assumptions C13_stopped_and_launched.

(* "scale requests with n<1 or an unknown name fail without changing anything" *)
Theorem C13_error_identity : forall fresh m nm n, (n < 1)%Z \/ mfind nm m = None ->
  scale fresh m nm n = (Err, m, [], []).
Proof. exact scale_error. Qed.
Print Assumptions C13_error_identity.

(* "for all sequences of scale requests": after any history (valid and failing requests mixed) the project is
   still a fresh load of the same processes and templates with some counts *)
Theorem C13_histories : forall reqs fresh i cfg rt m,
  cfg_ok cfg -> Permutation m (gen cfg rt) ->
  exists cfg' rt', cfg_ok cfg' /\ shape cfg' = shape cfg /\ Permutation (run_reqs fresh i m reqs) (gen cfg' rt').
Proof. exact run_reqs_gen. Qed.
Print Assumptions C13_histories.

(* the loop of updateReplicaCount ranges over the map it mutates: producing an entry again is harmless *)
Theorem C13_revisit_harmless : forall b n m e, NoDup (keys m) -> In e m -> reps e = n ->
  rname e = replica_name (base e) n (num e) -> urc_step b n m e = m.
Proof. exact urc_step_revisit. Qed.
Print Assumptions C13_revisit_harmless.

(* non-vacuity: a loaded project with two processes meets the hypotheses; scaling web 9 -> 10 renames across
   the width boundary and keeps the nine instances *)
Definition ex_web : bytes := [119; 101; 98]%N.
Definition ex_db : bytes := [100; 98]%N.
Definition ex_cfg : list cfgt := [(ex_web, 9, 1%N); (ex_db, 1, 2%N)].
Definition ex_rt : bytes -> nat -> rtd := fun b i => (N.of_nat (length b * 100 + i), N.of_nat i, 0).

Example C13_example_cfg_ok : cfg_ok ex_cfg.
Proof.
  split; [|split].
  - cbn. constructor; [intros [H|[]]; inversion H|]. constructor; [intros []|constructor].
  - intros c [<-|[<-|[]]]; cbn; lia.
  - intros c c' [<-|[<-|[]]] [<-|[<-|[]]] H; try (exfalso; apply H; reflexivity); apply sep_first; intros E; inversion E.
Qed.

Example C13_example :
  let m := gen ex_cfg ex_rt in
  let m' := scale_proj (fun i => (N.of_nat i + 7000)%N) m (replica_name ex_web 9 8) 10 in
  mfind (replica_name ex_web 9 8) m <> None /\
  length m' = 11 /\
  mfind (replica_name ex_web 9 0) m' = None /\
  option_map inst (mfind (replica_name ex_web 10 0) m') = Some 300%N /\
  option_map inst (mfind (replica_name ex_web 10 9) m') = Some 7009%N /\
  map inst m' = [200; 7009; 300; 301; 302; 303; 304; 305; 306; 307; 308]%N.
Proof. vm_compute. split; [discriminate|]. repeat split; reflexivity. Qed.

(* ---------- monitor and model agree on names ---------------------------------------------------------
   The check's monitor (Replica/Check.v) PARSES names: it strips "<base>-", demands a non-empty all-digit
   suffix of one common width whose decimal value is the replica number.  The model PRINTS them
   (CalculateReplicaName).  For every base, every n > 1 and every i < n the printed name parses back to i
   with width = number of decimal digits of n; and the monitor's whole name clause accepts the n names the
   model produces, for every n >= 1 (the bare name when n = 1). *)
Theorem C13_monitor_name_parses : forall (b : bytes) (n i : nat), 1 < n -> i < n ->
  let w := width (N.of_nat n) in
  let s := pad w (N.of_nat i) in
  strip_prefix (b ++ [45%N]) (replica_name b n i) = Some s /\
  length s = w /\ w <> 0 /\ forallb is_digit s = true /\ parse_dec s = N.of_nat i.
Proof. exact name_parses. Qed.
Print Assumptions C13_monitor_name_parses.

Theorem C13_monitor_names_accept_model : forall (bs : bytes) (n : nat) (B : list oent), 1 <= n ->
  Forall2 (fun o i => name_view bs n i o) B (seq 0 n) -> names_ok bs n B = true.
Proof. exact names_ok_accepts_model. Qed.
Print Assumptions C13_monitor_names_accept_model.

Example C13_monitor_names_example :
  let mk i := mkO (replica_name ex_web 11 i) ex_web i 11 [] 0 0 0 0 0 0 0 0 [] [] 0 in
  names_ok ex_web 11 (map mk (seq 0 11)) = true /\
  names_ok ex_web 11 (map mk (seq 0 10)) = false /\
  names_ok ex_web 11 (map (fun i => mkO (replica_name ex_web 9 i) ex_web i 11 [] 0 0 0 0 0 0 0 0 [] [] 0) (seq 0 11)) = false.
Proof. vm_compute. repeat split; reflexivity. Qed.
