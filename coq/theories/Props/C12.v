(* C12 Ordered shutdown stops dependents before the processes they depend on.
   This file contains only the property statements; every proof is `exact <lemma>` (Sup/SimC12.v, Sup/ExC12.v).

   Vocabulary.  A history is the list of (thread, trace point) pairs of one run; [accept (init cs ord) evs = Some s]
   says the supervisor model Sup replays it (cs = process configurations, ord = ordered-shutdown flag).
   The observer (Sup/Monitors.v) folds a history into facts per instance: [o_alive j] = a command of instance j
   was started and has not exited; [o_sd_cur] = for every ShutDownProject call in progress (between its
   shutdown_order and shutdown_end trace points) the snapshot of registered instances it is stopping.

   What the monitor checks.  [holds_C12 ord cs evs = true] says: with ordered shutdown on, at EVERY stop signal
   (trace point ESignal i: Commander.Stop() of instance i, whoever issues it), for every shutdown in progress
   whose snapshot contains i, every instance j of that snapshot whose configuration lists i's process name
   among its dependencies has no command alive.  ([C12_declarative] spells this out position by position.)

   What is proved (hardened model: staged instance creation, probe results only after the first launch).
   [C12_workers] (the statement the check judges histories with) and [C12_main_partial]: every accepted history
   satisfies the monitor, provided
     (W)  the history did not go through the check-then-act window commit (F20/F21)
          ([W_C12] = w_commit; the other six window flags, sdlag included, are NOT needed),
     (S)  [c12_side]: every stop execution that concluded "Pending" (stop_pending) was about an instance whose
          command had never been launched and did not run on that instance's own goroutine
          (decidable, evaluated on the history; it fails only inside the dup/zombie anomalies F25/F38),
     (N)  [c12_noforeign]: no stop signal to a member of the snapshot of a shutdown in progress was issued by a
          thread other than a worker of that shutdown (a thread that passed ordered_go for that instance).
   [C12_workers] is the same without (N) for the monitor restricted to the signals of the shutdown's own
   workers ([holds_C12w]) - this is the statement "the ordered shutdown never signals a process while a
   dependent that was registered when the shutdown began is alive".
   [C12_refuted]: without (N) the statement is FALSE of the model (and of the code): StopProcess(p) that read
   the registry before ShutDownProject took the lock signals p while its dependents are alive, outside every
   window.  [C12_commit_needed]: (W) is needed (the monitor, even restricted to workers, fails on an accepted
   history that sets only w_commit).  [C12_sdlag_witness_rejected]: the history that made w_sdlag necessary
   before the hardening is rejected by the model.
   [C12_worker_waits]: a worker passes ordered_go(i) only when every dependent of i in the snapshot has
   completed (the guard of the model; liveness - "the shutdown still completes" - is not proved here). *)
From Coq Require Import List ZArith NArith Bool.
From PC.Base Require Import Assoc.
From PC.Sup Require Import Model Monitors Sim MonC12w SimC12 ExC12.
Import ListNotations.

Theorem C12_main_partial : forall cs ord evs s,
  accept (init cs ord) evs = Some s ->
  W_C12 (final_obs cs evs) = false ->
  c12_side cs evs = true ->
  c12_noforeign cs evs = true ->
  holds_C12 ord cs evs = true.
Proof. exact C12_main_partial_thm. Qed.
Print Assumptions C12_main_partial.

Theorem C12_workers : forall cs ord evs s,
  accept (init cs ord) evs = Some s ->
  W_C12 (final_obs cs evs) = false ->
  c12_side cs evs = true ->
  holds_C12w ord cs evs = true.
Proof. exact C12_workers_thm. Qed.
Print Assumptions C12_workers.

(* with ordered shutdown off the monitor constrains nothing: the hypotheses (W), (S), (N) only matter for ord = true *)
Theorem C12_unordered : forall cs evs, holds_C12 false cs evs = true.
Proof. exact C12_unordered_thm. Qed.
Print Assumptions C12_unordered.

(* the monitor, read position by position: at a stop signal for i, for a shutdown in progress whose snapshot
   contains i, a member j of the snapshot whose configuration depends on i's name has no command alive *)
Theorem C12_declarative : forall cs evs, holds_C12 true cs evs = true ->
  forall pre th i sig ponly post, evs = pre ++ (th, ESignal i sig ponly) :: post ->
  let o := final_obs cs pre in
  forall sdth snap j, In (sdth, snap) (o_sd_cur o) -> In i snap -> In j snap ->
    In (o_nm (oi_get o i)) (map fst (deps (conf_of cs (o_nm (oi_get o j))))) ->
    o_alive (oi_get o j) = false.
Proof. exact C12_declarative_thm. Qed.
Print Assumptions C12_declarative.

(* at ordered_go(i) every dependent of i in the snapshot of the shutdown has completed *)
Theorem C12_worker_waits : forall cs ord evs th i s2,
  accept (init cs ord) (evs ++ [(th, EOrderedGo i)]) = Some s2 ->
  exists sdth order x, sd_active s2 = Some (sdth, order) /\ In i order /\ get i (insts s2) = Some x /\
    forall j y, In j order -> get j (insts s2) = Some y -> In (nm x) (map fst (deps (cf y))) -> l_done y = true.
Proof. exact C12_worker_waits_thm. Qed.
Print Assumptions C12_worker_waits.

(* the statement without hypothesis (N) is false of the model, outside every window *)
Theorem C12_refuted : exists cs ord evs s,
  accept (init cs ord) evs = Some s /\ holds_C12 ord cs evs = false /\
  any_window (final_obs cs evs) = false /\ c12_side cs evs = true.
Proof. exact C12_refuted_thm. Qed.
Print Assumptions C12_refuted.

(* the window flag of W_C12 is needed: an accepted history that sets ONLY w_commit (index 2 in windows_of),
   satisfies (S) and (N), and on which the monitor fails *)
Theorem C12_commit_needed : exists cs evs s,
  accept (init cs true) evs = Some s /\ holds_C12 true cs evs = false /\ holds_C12w true cs evs = false /\
  only_flag 2 (final_obs cs evs) = true /\ c12_side cs evs = true /\ c12_noforeign cs evs = true.
Proof. exact C12_commit_needed_thm. Qed.
Print Assumptions C12_commit_needed.

(* the former witness for "window sdlag is needed" (an internal stop after a fatal probe result finds a never-launched
   instance Pending) is no longer a history of the model: probe results exist only after the first launch *)
Example C12_sdlag_witness_rejected :
  accept (init ex_cs true) ex_sdlag = None /\ fst (accept_prefix (init ex_cs true) ex_sdlag 0) = 21%nat /\
  nth_error ex_sdlag 21 = Some (500%N, EProbe 12%N false true).
Proof. exact ex_sdlag_rejected. Qed.

(* non-vacuity: a 46-event accepted history (Run of two processes, 2 depends on 1; ordered shutdown stops 2,
   waits for its completion, then stops 1) on which all hypotheses hold and the monitor is exercised twice *)
Example C12_nonvacuous :
  (exists s, accept (init ex_cs true) ex_good = Some s) /\ length ex_good = 46%nat /\
  W_C12 (final_obs ex_cs ex_good) = false /\ c12_side ex_cs ex_good = true /\ c12_noforeign ex_cs ex_good = true /\
  holds_C12 true ex_cs ex_good = true /\ holds_C12w true ex_cs ex_good = true.
Proof. exact ex_good_ok. Qed.
