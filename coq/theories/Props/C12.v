(* C12 Ordered shutdown stops dependents before the processes they depend on.
   This file contains only the property statements; every proof is `exact <lemma>` (Sup/SimC12.v, Sup/ExC12.v).

   Vocabulary.  A history is the list of (thread, trace point) pairs of one run; [accept (init cs ord) evs = Some s]
   says the supervisor model Sup replays it (cs = process configurations, ord = ordered-shutdown flag).
   The observer (Sup/Monitors.v) folds a history into facts per instance: [o_alive j] = a command of instance j
   was started and has not exited; [o_sd_cur] = for every ShutDownProject call in progress (between its
   shutdown_order and shutdown_end trace points) the snapshot of registered instances it is stopping.

   What the monitor checks.  [holds_C12 ord cs evs = true] says: with ordered shutdown on, at EVERY stop signal
   (trace point ESignal i: Commander.Stop() of instance i, whoever issues it), for every shutdown in progress
   whose snapshot contains i, every instance j of that snapshot whose configuration lists i's process name
   among its dependencies has no command alive.  ([C12_declarative] spells this out position by position.)

   What is proved (hardened model: staged instance creation, probe results only after the first launch).
   [C12_workers] (the statement the check judges histories with) and [C12_main_partial]: every accepted history
   satisfies the monitor, provided
     (W)  the history did not go through the check-then-act window commit (F20/F21)
          ([W_C12] = w_commit; the other six window flags, sdlag included, are NOT needed),
     (S)  [c12_side]: every stop execution that concluded "Pending" (stop_pending) was about an instance whose
          command had never been launched and did not run on that instance's own goroutine
          (decidable, evaluated on the history; it fails only inside the dup/zombie anomalies F25/F38),
     (N)  [c12_noforeign]: no stop signal to a member of the snapshot of a shutdown in progress was issued by a
          thread other than a worker of that shutdown (a thread that passed ordered_go for that instance).
   [C12_workers] is the same without (N) for the monitor restricted to the signals of the shutdown's own
   workers ([holds_C12w]) - this is the statement "the ordered shutdown never signals a process while a
   dependent that was registered when the shutdown began is alive".
   [C12_refuted]: without (N) the statement is FALSE of the model (and of the code): StopProcess(p) that read
   the registry before ShutDownProject took the lock signals p while its dependents are alive, outside every
   window.  [C12_commit_needed]: (W) is needed (the monitor, even restricted to workers, fails on an accepted
   history that sets only w_commit).  [C12_sdlag_witness_rejected]: the history that made w_sdlag necessary
   before the hardening is rejected by the model.
   [C12_worker_waits]: a worker passes ordered_go(i) only when every dependent of i in the snapshot has
   completed (the guard of the model; liveness - "the shutdown still completes" - is not proved here). *)
From Coq Require Import List ZArith NArith Bool.
From PC.Base Require Import Assoc.
From PC.Sup Require Import Model Monitors Sim MonC12w SimC12 EnC12 ExC12.
Import ListNotations.

Theorem C12_main_partial : forall cs ord evs s,
  accept (init cs ord) evs = Some s ->
  W_C12 (final_obs cs evs) = false ->
  c12_side cs evs = true ->
  c12_noforeign cs evs = true ->
  holds_C12 ord cs evs = true.
Proof. exact C12_main_partial_thm. Qed.
Print Assumptions C12_main_partial.

Theorem C12_workers : forall cs ord evs s,
  accept (init cs ord) evs = Some s ->
  W_C12 (final_obs cs evs) = false ->
  c12_side cs evs = true ->
  holds_C12w ord cs evs = true.
Proof. exact C12_workers_thm. Qed.
Print Assumptions C12_workers.

(* with ordered shutdown off the monitor constrains nothing: the hypotheses (W), (S), (N) only matter for ord = true *)
Theorem C12_unordered : forall cs evs, holds_C12 false cs evs = true.
Proof. exact C12_unordered_thm. Qed.
Print Assumptions C12_unordered.

(* the monitor, read position by position: at a stop signal for i, for a shutdown in progress whose snapshot
   contains i, a member j of the snapshot whose configuration depends on i's name has no command alive *)
Theorem C12_declarative : forall cs evs, holds_C12 true cs evs = true ->
  forall pre th i sig ponly post, evs = pre ++ (th, ESignal i sig ponly) :: post ->
  let o := final_obs cs pre in
  forall sdth snap j, In (sdth, snap) (o_sd_cur o) -> In i snap -> In j snap ->
    In (o_nm (oi_get o i)) (map fst (deps (conf_of cs (o_nm (oi_get o j))))) ->
    o_alive (oi_get o j) = false.
Proof. exact C12_declarative_thm. Qed.
Print Assumptions C12_declarative.

(* at ordered_go(i) every dependent of i in the snapshot of the shutdown has completed *)
Theorem C12_worker_waits : forall cs ord evs th i s2,
  accept (init cs ord) (evs ++ [(th, EOrderedGo i)]) = Some s2 ->
  exists sdth order x, sd_active s2 = Some (sdth, order) /\ In i order /\ get i (insts s2) = Some x /\
    forall j y, In j order -> get j (insts s2) = Some y -> In (nm x) (map fst (deps (cf y))) -> l_done y = true.
Proof. exact C12_worker_waits_thm. Qed.
Print Assumptions C12_worker_waits.

(* the statement without hypothesis (N) is false of the model, outside every window *)
Theorem C12_refuted : exists cs ord evs s,
  accept (init cs ord) evs = Some s /\ holds_C12 ord cs evs = false /\
  any_window (final_obs cs evs) = false /\ c12_side cs evs = true.
Proof. exact C12_refuted_thm. Qed.
Print Assumptions C12_refuted.

(* the window flag of W_C12 is needed: an accepted history that sets ONLY w_commit (index 2 in windows_of),
   satisfies (S) and (N), and on which the monitor fails *)
Theorem C12_commit_needed : exists cs evs s,
  accept (init cs true) evs = Some s /\ holds_C12 true cs evs = false /\ holds_C12w true cs evs = false /\
  only_flag 2 (final_obs cs evs) = true /\ c12_side cs evs = true /\ c12_noforeign cs evs = true.
Proof. exact C12_commit_needed_thm. Qed.
Print Assumptions C12_commit_needed.

(* the former witness for "window sdlag is needed" (an internal stop after a fatal probe result finds a never-launched
   instance Pending) is no longer a history of the model: probe results exist only after the first launch *)
Example C12_sdlag_witness_rejected :
  accept (init ex_cs true) ex_sdlag = None /\ fst (accept_prefix (init ex_cs true) ex_sdlag 0) = 21%nat /\
  nth_error ex_sdlag 21 = Some (500%N, EProbe 12%N false true).
Proof. exact ex_sdlag_rejected. Qed.

(* non-vacuity: a 46-event accepted history (Run of two processes, 2 depends on 1; ordered shutdown stops 2,
   waits for its completion, then stops 1) on which all hypotheses hold and the monitor is exercised twice *)
Example C12_nonvacuous :
  (exists s, accept (init ex_cs true) ex_good = Some s) /\ length ex_good = 46%nat /\
  W_C12 (final_obs ex_cs ex_good) = false /\ c12_side ex_cs ex_good = true /\ c12_noforeign ex_cs ex_good = true /\
  holds_C12 true ex_cs ex_good = true /\ holds_C12w true ex_cs ex_good = true.
Proof. exact ex_good_ok. Qed.

(* ---- last clause of C12: "processes unrelated by dependencies may stop concurrently, and the shutdown still
   completes".  What follows are ENABLEDNESS facts about the model (Sup/EnC12.v): which ordered_go steps the model
   offers in every reachable state.  They contain no fairness assumption and no termination argument: they say that
   the ordered shutdown is never stuck on its own bookkeeping, not that it ends (that also needs the signalled
   commands to exit and the scheduler to run the workers; it stays a scheduler-level test of the check).
   [fresh s th] = thread id th has no entry in threads/thinst of s (the goroutine shutDownInOrder starts for one
   process); [worker_started th i s] = s with that thread about to call shutDown() on i;
   [dependents_done s order i] = the guard of the model: every member of the snapshot whose configuration depends on
   i's name has completed (waitForCompletion returned). ---- *)

(* 1. in every reachable state with an ordered shutdown in progress, a member whose dependents in the snapshot
   are done can be given its go by a fresh worker ... *)
Theorem C12_worker_can_go : forall cs evs s sdth order i th,
  accept (init cs true) evs = Some s -> sd_active s = Some (sdth, order) ->
  In i order -> dependents_done s order i = true -> fresh s th ->
  step s (th, EOrderedGo i) = Some (worker_started th i s) /\
  accept (init cs true) (evs ++ [(th, EOrderedGo i)]) = Some (worker_started th i s).
Proof. exact worker_can_go. Qed.
Print Assumptions C12_worker_can_go.

(* ... and if the model refuses the go of a fresh worker, the reason is a dependent of i in the snapshot that has
   not completed: the ordered shutdown waits for nothing else *)
Theorem C12_worker_blocked_only_by_dependent : forall cs evs s sdth order i th,
  accept (init cs true) evs = Some s -> sd_active s = Some (sdth, order) -> In i order -> fresh s th ->
  step s (th, EOrderedGo i) = None ->
  exists x j y, get i (insts s) = Some x /\ In j order /\ get j (insts s) = Some y /\
                In (nm x) (map fst (deps (cf y))) /\ l_done y = false.
Proof. exact worker_blocked_only_by_dependent. Qed.
Print Assumptions C12_worker_blocked_only_by_dependent.

(* 2. two members whose dependents are done (in particular: two processes unrelated by dependencies once their
   own dependents have completed) get their go in either order - neither go disables the other ... *)
Theorem C12_independent_concurrent : forall cs evs s sdth order i j thi thj,
  accept (init cs true) evs = Some s -> sd_active s = Some (sdth, order) ->
  In i order -> In j order -> dependents_done s order i = true -> dependents_done s order j = true ->
  fresh s thi -> fresh s thj -> thi <> thj ->
  accept (init cs true) (evs ++ [(thi, EOrderedGo i); (thj, EOrderedGo j)]) =
    Some (worker_started thj j (worker_started thi i s)) /\
  accept (init cs true) (evs ++ [(thj, EOrderedGo j); (thi, EOrderedGo i)]) =
    Some (worker_started thi i (worker_started thj j s)).
Proof. exact independent_concurrent. Qed.
Print Assumptions C12_independent_concurrent.

(* ... and the go of j stays enabled whatever any thread does afterwards (other workers stopping their processes,
   API calls, exits), as long as this shutdown is in progress: the guard is never withdrawn *)
Theorem C12_go_stays_enabled : forall cs evs s sdth order j evs2 s2 th,
  accept (init cs true) evs = Some s -> sd_active s = Some (sdth, order) ->
  In j order -> dependents_done s order j = true ->
  accept s evs2 = Some s2 -> sd_active s2 = Some (sdth, order) -> fresh s2 th ->
  dependents_done s2 order j = true /\ step s2 (th, EOrderedGo j) = Some (worker_started th j s2).
Proof. exact go_stays_enabled. Qed.
Print Assumptions C12_go_stays_enabled.

(* 3. no cyclic wait: if the dependency graph of the configuration is acyclic ([ranked cs rank]: every dependency
   has a smaller rank) and some member of the snapshot has not completed, then some uncompleted member has all its
   dependents done - so some worker can always go *)
Theorem C12_no_cyclic_wait : forall cs rank evs s sdth order,
  ranked cs rank -> accept (init cs true) evs = Some s -> sd_active s = Some (sdth, order) ->
  all_done s order = false ->
  exists i x, In i order /\ get i (insts s) = Some x /\ l_done x = false /\ dependents_done s order i = true.
Proof. exact no_cyclic_wait. Qed.
Print Assumptions C12_no_cyclic_wait.

Theorem C12_some_worker_can_go : forall cs rank evs s sdth order,
  ranked cs rank -> accept (init cs true) evs = Some s -> sd_active s = Some (sdth, order) ->
  all_done s order = false ->
  exists i x, In i order /\ get i (insts s) = Some x /\ l_done x = false /\
    forall th, fresh s th -> step s (th, EOrderedGo i) = Some (worker_started th i s).
Proof. exact some_worker_can_go. Qed.
Print Assumptions C12_some_worker_can_go.

(* non-vacuity of the enabledness theorems: three running processes (2 depends on 1, 3 unrelated), the ordered
   shutdown has taken its snapshot [13; 12; 11]: the workers of 12 and 13 can go in either order, the worker of 11
   cannot; the configuration is ranked by the process number *)
Example C12_enabledness_nonvacuous :
  ranked ex3_cs N.to_nat /\
  exists s,
  accept (init ex3_cs true) ex3_pre = Some s /\ sd_active s = Some (300%N, [13; 12; 11]%N) /\
  all_done s [13; 12; 11]%N = false /\
  dependents_done s [13; 12; 11]%N 12%N = true /\ dependents_done s [13; 12; 11]%N 13%N = true /\
  dependents_done s [13; 12; 11]%N 11%N = false /\
  get 400%N (threads s) = None /\ get 400%N (thinst s) = None /\ get 401%N (threads s) = None /\ get 401%N (thinst s) = None /\
  step s (400%N, EOrderedGo 11%N) = None /\
  (exists s2, accept s [(400%N, EOrderedGo 12%N); (401%N, EOrderedGo 13%N)] = Some s2) /\
  (exists s2, accept s [(401%N, EOrderedGo 13%N); (400%N, EOrderedGo 12%N)] = Some s2).
Proof. split; [exact ex3_ranked|exact ex3_enabledness]. Qed.
