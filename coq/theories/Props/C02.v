(* C02 (supervisor core) - INTERIM statement file: the full simulation theorem for mon_C02 is being
   proved in Sup/RelC02.v; until it lands, this file states what is already machine-checked for every
   accepted history of the Sup model: the observer's picture (on which the monitor holds_C02 is
   evaluated) agrees with the model state. *)
From Coq Require Import List ZArith NArith Bool.
From PC.Base Require Import Assoc.
From PC.Sup Require Import Model Monitors RelCore Agreement RelC02.

Theorem C02_observer_agrees_with_model : forall cs ord evs s,
  accept (init cs ord) evs = Some s -> Rc cs s (final_obs cs evs).
Proof. exact sup_agreement. Qed.
Print Assumptions C02_observer_agrees_with_model.

(* the decision table of isRestartable (process.go:284-316), for all policies, codes and counters *)
Theorem C02_decision_table : forall stopped p c maxr restarts,
  restart_ok stopped p c maxr restarts = true <->
  stopped = false /\ policy_allows p c = true /\ (maxr = 0 \/ restarts < maxr).
Proof. exact restart_ok_spec. Qed.
Print Assumptions C02_decision_table.
