(* C02  Restart policy: relaunch exactly when availability says so.
   Statements only; every proof is `exact <lemma>` (the development is in Sup/LemC02.v, RelC02t.v, RelC02b.v,
   RelC02c.v, RelC02d.v, RelC02f.v, RelC02e.v).

   What is proved.  For EVERY configuration (any number of processes, policies, max_restarts, back-off values,
   dependency lists - no well-formedness condition is needed), every history `evs` of trace points that the
   supervisor model Sup accepts (`accept (init cs ord) evs = Some s`: all interleavings, all exit-code
   sequences, all instants of stop / restart / shutdown requests, any number of API calls), the monitor
   `holds_C02` is true unless the history went through one of the known check-then-act windows.

   What the monitor `mon_C02` (Sup/Monitors.v) checks, in plain words.  The observer folds the history into
   facts per instance: how often its command was started (o_launches), the exit code of its last command
   (o_code), whether a back-off elapsed since that exit (o_elapsed), whether a stop of the instance or a
   project shutdown including it was requested (o_stopreq: no_restart, stop_enter(cancel), stop_pending,
   shutdown_order), and per name the reported Restarts counter (r_restarts).  At each event it checks:
     (1) launch of a command by an instance that was launched before (a RELAUNCH): its last command exited
         with a code ec such that the policy allows a relaunch (always: any ec, on_failure: ec <> 0, no /
         exit_on_failure: never), max_restarts = 0 or launches so far <= max_restarts, a back-off elapsed
         since that exit, and no stop/shutdown was requested for the instance;
     (2) restart_decision(true): no stop/shutdown was requested for the instance;
     (3) backoff_wait(secs): secs = max(1, backoff_seconds) of the process;
     (4) proc_ended(i, Completed) (the instance GAVE UP after an exit with code ec): the policy forbids the
         relaunch for ec, or max_restarts > 0 is reached by the reported Restarts counter, or a stop was
         requested - i.e. no relaunch is ever omitted.
   The reported restart count equals the number of back-offs begun (r_restarts is incremented exactly at
   backoff_wait, model and observer agree on it: Sup/RelCore.v rc_name).

   Window hypotheses (sticky observer flags, known findings): W_C02 = w_commit (F20/F21) || w_sdlag (F37) ||
   w_dup (F25).  Clauses (1), (3), (4) alone need only w_commit || w_sdlag (C02_core); each of the three flags is
   necessary (C02_restart_policy_refuted: sdlag; C02_restart_policy_dup_needed: dup). *)
From Coq Require Import List ZArith NArith Bool.
From PC.Base Require Import Assoc.
From PC.Sup Require Import Model Monitors LemC02 RelC02defs RelC02e.

Theorem C02_restart_policy : forall cs ord evs s,
  accept (init cs ord) evs = Some s -> W_C02 (final_obs cs evs) = false -> holds_C02 cs evs = true.
Proof. exact C02_main. Qed.
Print Assumptions C02_restart_policy.

(* the clauses about launches, back-off and giving up (1)(3)(4) need only the commit and sdlag windows *)
Theorem C02_restart_policy_core : forall cs ord evs s,
  accept (init cs ord) evs = Some s -> W_C02_core (final_obs cs evs) = false -> holds cs mon_C02_core evs = true.
Proof. exact C02_core. Qed.
Print Assumptions C02_restart_policy_core.

(* the same, unfolded into a statement about every position of the history *)
Theorem C02_restart_policy_declarative : forall cs ord evs s,
  accept (init cs ord) evs = Some s -> W_C02 (final_obs cs evs) = false ->
  forall pre th e post, evs = pre ++ (th, e) :: post ->
  let o := final_obs cs pre in
  (forall i, e = ELaunch true -> get th (o_th o) = Some i -> o_launches (oi_get o i) <> 0 ->
     exists ec, o_code (oi_get o i) = Some ec /\
       policy_allows (pol (conf_of cs (o_nm (oi_get o i)))) ec = true /\
       (maxr (conf_of cs (o_nm (oi_get o i))) = 0 \/ o_launches (oi_get o i) <= maxr (conf_of cs (o_nm (oi_get o i)))) /\
       o_elapsed (oi_get o i) = true /\ o_stopreq (oi_get o i) = false) /\
  (forall i, e = ERestartDecision true -> get th (o_th o) = Some i -> o_stopreq (oi_get o i) = false) /\
  (forall i secs, e = EBackoffWait secs -> get th (o_th o) = Some i ->
     secs = N.max 1 (backoff (conf_of cs (o_nm (oi_get o i))))) /\
  (forall i ec, e = EProcEnded i SCompleted -> o_code (oi_get o i) = Some ec ->
     policy_allows (pol (conf_of cs (o_nm (oi_get o i)))) ec = false \/
     (maxr (conf_of cs (o_nm (oi_get o i))) <> 0 /\
      maxr (conf_of cs (o_nm (oi_get o i))) <= r_restarts (on_get o (o_nm (oi_get o i)))) \/
     o_stopreq (oi_get o i) = true).
Proof. exact C02_declarative. Qed.
Print Assumptions C02_restart_policy_declarative.

(* the decision table of isRestartable (process.go:284-316), for all policies, codes and counters *)
Theorem C02_decision_table : forall stopped p c maxr restarts,
  restart_ok stopped p c maxr restarts = true <->
  stopped = false /\ policy_allows p c = true /\ (maxr = 0 \/ restarts < maxr).
Proof. exact restart_ok_spec. Qed.
Print Assumptions C02_decision_table.

(* without a window hypothesis the statement is false of the model (and of the code: finding F37): policy
   always, the command exits, StopProcess sets isStopped during the back-off but has not yet entered
   stopProcess when the back-off elapses - the command is launched again.  24 accepted events. *)
Theorem C02_restart_policy_refuted : exists cs ord evs s,
  accept (init cs ord) evs = Some s /\ holds_C02 cs evs = false /\ holds cs mon_C02_core evs = false.
Proof. exact C02_refuted. Qed.
Print Assumptions C02_restart_policy_refuted.

(* the dup window is necessary for clause (2): StartProcess + Run() create two live instances of a probed process, a fatal
   probe result then records a stop request (stop_pending) on the launched one without isStopped; 23 accepted events,
   only w_dup raised *)
Theorem C02_restart_policy_dup_needed : exists cs ord evs s,
  accept (init cs ord) evs = Some s /\ holds_C02 cs evs = false /\
  w_commit (final_obs cs evs) = false /\ w_sdlag (final_obs cs evs) = false /\ w_zombie (final_obs cs evs) = false.
Proof. exact C02_dup_needed. Qed.
Print Assumptions C02_restart_policy_dup_needed.

(* non-vacuity: an accepted history of 28 events (on_failure, max_restarts 1: exit 1, back-off, relaunch,
   exit 2, gives up) that stays out of every window and exercises all four clauses *)
Example C02_nonvacuous_example :
  (exists s, accept (init (ex_cfg POnFailure 1) false) ex_good = Some s) /\
  W_C02 (final_obs (ex_cfg POnFailure 1) ex_good) = false /\ length ex_good = 28 /\
  holds_C02 (ex_cfg POnFailure 1) ex_good = true.
Proof. exact C02_nonvacuous. Qed.
