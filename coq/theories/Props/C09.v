(* C09 Reported state is truthful: status transitions, is_running, exit code.
   This file contains only the property statements; every proof is `exact <lemma>` (or vm_compute on a
   concrete history).  The model is Sup/Model.v (accept = replay of a recorded history of trace points),
   the monitor is Sup/Monitors.v: mon_C09 / holds_C09.

   WHAT THE MONITOR CHECKS (holds_C09 cs evs = true means: at every position of the history evs, on the
   facts the observer accumulated from the events BEFORE that position):
   (a1) mon_legal   at every status write  EState i s0 : the pair (status reported for the name of i so far, s0)
                    is in the table `legal` (Pending -> Running/Launching/Skipped/Terminating/Error, Running ->
                    Restarting/Terminating/Completed/Error, Restarting -> Running/..., Terminating ->
                    Completed/Error/Restarting/Skipped; terminal statuses have no successor), or s0 = Pending is
                    written for an instance that has never launched (the creation of an instance IS the start, by
                    Run()'s automatic start-up or by StartProcess/RestartProcess), or Pending is written over Pending;
   (a2) mon_term    at every status write of Completed / Skipped / Error: no command of that instance is alive
                    (every launched command has exited);
   (b)  mon_launch  at every successful launch (ELaunch true): the status reported for the name is a running
                    status (Running / Launching / Launched);
   (c)  mon_code    at every write of the reported exit code (EExitCode c): c is the exit code with which the
                    instance's last command exited (the last ECmdExit of that instance).
   mon_C09 is exactly the conjunction of the four (C09_monitor_split).

   WHAT IS PROVED (hardened model: instance creation is staged on one creating thread, probes only after the
   first launch)
   * (a2) and (c): for ALL accepted histories, no window hypothesis, no hypothesis on the configuration.
   * (a1) and (b): still FALSE of the model without hypotheses, outside all known windows
     (C09_refuted_stale_stop).  They are proved, for every configuration, for the histories that (1) stay out
     of the duplicate-instance window w_dup (F25) and (2) satisfy the decidable assumption monitor `asm`
     (C09_assumptions), which has ONE clause left:
       - Terminating is only written over a running status while a command of that instance is alive and
         not by the stopped-while-Pending path (i.e. the stop's check-then-act gap was not hit: this
         excludes the windows F26 late, F20/F21 commit, F37 sdlag, F38 zombie, F32 stale as far as status
         writes are concerned, and a stop execution that still holds the id of a finished instance).
     History of the hypotheses: "a process created by Run is not disabled" and "the goroutine of an instance
     begins only after Pending was written" became invariants of the hardened model (p_staged); "Run()'s spawn
     loop creates only the first instance of a name" and wf_confs disappeared when the monitor was changed to
     excuse the initial Pending of ANY never-launched instance (round 3): the history that needed them
     (StartProcess(n) completes before Run() spawns n) now satisfies the monitor
     (Example C09_start_before_run_now_holds). *)
From Coq Require Import List ZArith NArith Bool.
From PC.Base Require Import Assoc.
From PC.Sup Require Import Model Monitors Sim LemC09 RelC09 RelC09b.
Import ListNotations.

(* the monitor is the conjunction of its four clauses *)
Theorem C09_monitor_split : forall cs o e, mon_C09 cs o e = mon_a o e && mon_b o e && mon_c o e.
Proof. exact mon_C09_split. Qed.
Print Assumptions C09_monitor_split.

Theorem C09_holds_split : forall cs evs,
  holds_C09 cs evs = holds' cs mon_legal evs && holds' cs mon_term evs && holds' cs mon_launch evs && holds' cs mon_code evs.
Proof. exact holds_C09_split. Qed.
Print Assumptions C09_holds_split.

(* (c) the reported exit code is the exit code of the instance's last command: every accepted history *)
Theorem C09_exit_code : forall cs ord evs s,
  accept (init cs ord) evs = Some s -> holds' cs mon_code evs = true.
Proof. exact C09_code_holds. Qed.
Print Assumptions C09_exit_code.

(* ... read position by position: whenever thread th (running instance i) writes exit code c, the last
   command of i that exited, exited with c *)
Theorem C09_exit_code_declarative : forall cs ord evs s, accept (init cs ord) evs = Some s ->
  forall p th c i, nth_error evs p = Some (th, EExitCode c) ->
    get th (o_th (obs_before cs evs p)) = Some i ->
    o_code (oi_get (obs_before cs evs p) i) = Some c.
Proof. exact C09_code_declarative. Qed.
Print Assumptions C09_exit_code_declarative.

(* (a2) Completed / Skipped / Error is reported only when no command of the instance is alive *)
Theorem C09_terminal_not_alive : forall cs ord evs s,
  accept (init cs ord) evs = Some s -> holds' cs mon_term evs = true.
Proof. exact C09_term_holds. Qed.
Print Assumptions C09_terminal_not_alive.

Theorem C09_terminal_not_alive_declarative : forall cs ord evs s, accept (init cs ord) evs = Some s ->
  forall p th i s0, nth_error evs p = Some (th, EState i s0) -> terminal s0 = true ->
    o_alive (oi_get (obs_before cs evs p) i) = false.
Proof. exact C09_term_declarative. Qed.
Print Assumptions C09_terminal_not_alive_declarative.

(* (a1) + (b): legal transitions and running status at launch, under the assumption monitor, outside w_dup *)
Theorem C09_legal_and_launch_partial : forall cs ord evs s,
  accept (init cs ord) evs = Some s -> C09_assumptions cs evs = true -> w_dup (final_obs cs evs) = false ->
  holds' cs mon_legal evs = true /\ holds' cs mon_launch evs = true.
Proof. exact C09_legal_launch_holds. Qed.
Print Assumptions C09_legal_and_launch_partial.

(* the whole monitor *)
Theorem C09_main_partial : forall cs ord evs s,
  accept (init cs ord) evs = Some s -> C09_assumptions cs evs = true -> w_dup (final_obs cs evs) = false ->
  holds_C09 cs evs = true.
Proof. exact C09_main_partial_lemma. Qed.
Print Assumptions C09_main_partial.

(* ---- the statement without hypotheses is false of the model, outside every known window ------------------ *)
Open Scope N_scope.
Definition conf_plain := mkConf [] PNo 0 0 false false false false false false false.
Definition conf_probe := mkConf [] PNo 0 0 false false true false false false false.
Definition conf_disabled := mkConf [] PNo 0 0 false false false false false false true.
Definition conf_retry := mkConf [] POnFailure 1 0 false false false false false false false.

(* a fatal readiness probe stops the process between "status := Running" and the launch: the command is
   launched while Terminating is reported; no window flag is raised (the stop is internal, cancel = false) *)
Definition refute_cs : amap pconf := [(1, conf_probe)].
Definition refute_evs : list (tid * event) :=
 [(0, EApiBegin OpRun); (0, ENewInst 1 1); (0, EState 1 SPending); (0, ERegAdd 1 1); (0, ESpawn 1 1); (0, ERunSpawned);
  (1, EBegin 1); (1, ERunChecked false); (1, EStarted); (1, EState 1 SRunning);
  (2, EProbe 1 false true); (2, EStopEnter 1 false); (2, EStopRunning 1); (2, EState 1 STerminating);
  (1, ELaunch true)].

(* the hardened model rejects it: probes exist only after the first launch *)
Example C09_probe_before_launch_rejected :
  accept (init refute_cs false) refute_evs = None /\
  fst (accept_prefix (init refute_cs false) refute_evs 0) = 10%nat.   (* rejected at the EProbe *)
Proof. split; vm_compute; reflexivity. Qed.

(* instance creation is tied to a creating thread (Run's spawn loop, StartProcess, RestartProcess): a thread
   that is in none of them cannot create an instance *)
Example C09_stray_creation_rejected :
  accept (init [(1, conf_disabled)] false) [(0, ENewInst 1 1); (0, EState 1 SPending)] = None /\
  fst (accept_prefix (init [(1, conf_disabled)] false) [(0, ENewInst 1 1); (0, EState 1 SPending)] 0) = 0%nat.
Proof. split; vm_compute; reflexivity. Qed.
(* ... and Run() does not create instances of disabled processes *)
Example C09_run_creates_disabled_rejected :
  accept (init [(1, conf_disabled)] false) [(0, EApiBegin OpRun); (0, ENewInst 1 1); (0, EState 1 SPending)] = None /\
  fst (accept_prefix (init [(1, conf_disabled)] false) [(0, EApiBegin OpRun); (0, ENewInst 1 1); (0, EState 1 SPending)] 0) = 1%nat.
Proof. split; vm_compute; reflexivity. Qed.

(* the initial Pending write cannot be skipped any more: registration requires it *)
Definition nopending_evs : list (tid * event) :=
 [(0, EApiBegin OpRun); (0, ENewInst 1 1); (0, EState 1 SPending); (0, ERegAdd 1 1); (0, ESpawn 1 1); (0, ERunSpawned);
  (1, EBegin 1); (1, ERunChecked false); (1, EStarted); (1, EState 1 SRunning); (1, ELaunch true);
  (9, ECmdExit 1 0%Z); (1, EWaitReturn 0%Z); (1, EExitCode 0%Z); (1, ERestartDecision false);
  (1, EProcEnd 1 SCompleted); (1, EState 1 SCompleted); (1, EProcEnded 1 SCompleted); (1, ERunReturned 0%Z);
  (1, EDoneAdd 1); (1, EInstDone); (1, EInstExit); (1, ERegDel 1); (1, EInstGone); (0, ERunReturn 0%Z); (0, EApiReturn true);
  (3, EApiBegin (OpStart 1)); (3, ERegGet 1 None); (3, EStartChecked 1 false); (3, ENewInst 2 1); (3, ERegAdd 2 1);
  (3, ESpawn 2 1); (3, EApiReturn true);
  (4, EBegin 2); (4, ERunChecked false); (4, EStarted); (4, EState 2 SRunning)].
Example C09_nopending_rejected :
  accept (init [(1, conf_plain)] false) nopending_evs = None /\
  fst (accept_prefix (init [(1, conf_plain)] false) nopending_evs 0) = 30%nat.   (* rejected at (3, ERegAdd 2 1) *)
Proof. split; vm_compute; reflexivity. Qed.

(* ---- the statement without hypotheses is still false of the model, outside every known window ------------ *)
(* a stop execution keeps the instance it looked up: the old instance finishes, a successor of the same name
   is started and reports Running, the stale stop reads the SHARED status, writes Terminating over it and the
   successor launches under Terminating.  Only external stops, orderly creation, no window flag. *)
Definition stale_evs : list (tid * event) :=
 [(0, EApiBegin OpRun); (0, ENewInst 1 1); (0, EState 1 SPending); (0, ERegAdd 1 1); (0, ESpawn 1 1); (0, ERunSpawned);
  (1, EBegin 1); (1, ERunChecked false); (1, EStarted); (1, EState 1 SRunning); (1, ELaunch true);
  (2, EApiBegin (OpStop 1)); (2, ERegGet 1 (Some 1)); (2, EStopChecked 1 (Some 1));
  (9, ECmdExit 1 0%Z); (1, EWaitReturn 0%Z); (1, EExitCode 0%Z); (1, ERestartDecision false);
  (1, EProcEnd 1 SCompleted); (1, EState 1 SCompleted); (1, EProcEnded 1 SCompleted); (1, ERunReturned 0%Z);
  (1, EDoneAdd 1); (1, EInstDone); (1, EInstExit); (1, ERegDel 1); (1, EInstGone); (0, ERunReturn 0%Z); (0, EApiReturn true);
  (3, EApiBegin (OpStart 1)); (3, ERegGet 1 None); (3, EStartChecked 1 false); (3, ENewInst 2 1); (3, EState 2 SPending);
  (3, ERegAdd 2 1); (3, ESpawn 2 1); (3, EApiReturn true);
  (4, EBegin 2); (4, ERunChecked false); (4, EStarted); (4, EState 2 SRunning);
  (2, ENoRestart 1); (2, EStopEnter 1 true); (2, EStopRunning 1); (2, EState 1 STerminating);
  (4, ELaunch true)].
Theorem C09_refuted_stale_stop : exists cs ord evs s,
  accept (init cs ord) evs = Some s /\ any_window (final_obs cs evs) = false /\ holds_C09 cs evs = false.
Proof.
  exists [(1, conf_plain)], false, stale_evs.
  destruct (accept (init [(1, conf_plain)] false) stale_evs) as [s|] eqn:E; [|vm_compute in E; discriminate].
  exists s. repeat split; vm_compute; reflexivity.
Qed.
Print Assumptions C09_refuted_stale_stop.

(* StartProcess(n) runs to completion before Run()'s spawn loop reaches n: Run then writes Pending over
   Completed for a new, never launched instance.  This refuted the monitor before round 3 (it excused the initial
   Pending only for instances created by an API call); the creation of an instance is a start, so it is legal now. *)
Definition start_before_run_evs : list (tid * event) :=
 [(3, EApiBegin (OpStart 1)); (3, ERegGet 1 None); (3, EStartChecked 1 false); (3, ENewInst 1 1); (3, EState 1 SPending);
  (3, ERegAdd 1 1); (3, ESpawn 1 1); (3, EApiReturn true);
  (4, EBegin 1); (4, ERunChecked false); (4, EStarted); (4, EState 1 SRunning); (4, ELaunch true);
  (9, ECmdExit 1 0%Z); (4, EWaitReturn 0%Z); (4, EExitCode 0%Z); (4, ERestartDecision false);
  (4, EProcEnd 1 SCompleted); (4, EState 1 SCompleted); (4, EProcEnded 1 SCompleted); (4, ERunReturned 0%Z);
  (4, EDoneAdd 1); (4, EInstDone); (4, EInstExit); (4, ERegDel 1); (4, EInstGone);
  (0, EApiBegin OpRun); (0, ENewInst 2 1); (0, EState 2 SPending)].
Example C09_start_before_run_now_holds :
  (exists s, accept (init [(1, conf_plain)] false) start_before_run_evs = Some s) /\
  C09_assumptions [(1, conf_plain)] start_before_run_evs = true /\
  w_dup (final_obs [(1, conf_plain)] start_before_run_evs) = false /\
  holds_C09 [(1, conf_plain)] start_before_run_evs = true.
Proof.
  split.
  - destruct (accept (init [(1, conf_plain)] false) start_before_run_evs) as [s|] eqn:E; [eauto|vm_compute in E; discriminate].
  - repeat split; vm_compute; reflexivity.
Qed.

(* ---- non-vacuity: a 45-event accepted history (launch, failure, back-off, relaunch, API stop of the running
   command, completion, Run returns) that satisfies every hypothesis of C09_main_partial ------------------- *)
Definition example_cs : amap pconf := [(1, conf_retry)].
Definition example_evs : list (tid * event) :=
 [(0, EApiBegin OpRun); (0, ENewInst 1 1); (0, EState 1 SPending); (0, ERegAdd 1 1); (0, ESpawn 1 1); (0, ERunSpawned);
  (1, EBegin 1); (1, ERunChecked false); (1, EStarted); (1, EState 1 SRunning); (1, ELaunch true);
  (9, ECmdExit 1 3%Z); (1, EWaitReturn 3%Z); (1, EExitCode 3%Z); (1, ERestartDecision true); (1, EState 1 SRestarting);
  (1, EBackoffWait 1); (1, EBackoffElapsed); (1, EState 1 SRunning); (1, ELaunch true);
  (2, EApiBegin (OpStop 1)); (2, ERegGet 1 (Some 1)); (2, EStopChecked 1 (Some 1)); (2, ENoRestart 1); (2, EStopEnter 1 true);
  (2, EStopRunning 1); (2, EState 1 STerminating); (2, ESignal 1 15%Z false); (2, EStopReturn 1); (2, EApiReturn true);
  (9, ECmdExit 1 (-1)%Z); (1, EWaitReturn (-1)%Z); (1, EExitCode (-1)%Z); (1, ERestartDecision false);
  (1, EProcEnd 1 SCompleted); (1, EState 1 SCompleted); (1, EProcEnded 1 SCompleted); (1, ERunReturned (-1)%Z);
  (1, EDoneAdd 1); (1, EInstDone); (1, EInstExit); (1, ERegDel 1); (1, EInstGone); (0, ERunReturn 0%Z); (0, EApiReturn true)].

Example C09_nonvacuous :
  length example_evs = 45%nat /\
  (exists s, accept (init example_cs false) example_evs = Some s) /\
  C09_assumptions example_cs example_evs = true /\
  w_dup (final_obs example_cs example_evs) = false /\
  holds_C09 example_cs example_evs = true.
Proof.
  split; [reflexivity|]. split.
  - destruct (accept (init example_cs false) example_evs) as [s|] eqn:E; [eauto|vm_compute in E; discriminate].
  - repeat split; vm_compute; reflexivity.
Qed.
