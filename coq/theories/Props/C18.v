(* C18 Log window and live subscription: right window, no gap, no duplicate.
   This file contains only the property statements; every proof is `exact <lemma>`. *)
From Coq Require Import List ZArith NArith Bool.
From PC.LogBuf Require Import Model Proofs Check MonLink.
Import ListNotations.

(* "The in-memory log always holds its most recent lines in order - at least the configured length
   once that many were written, and never unboundedly more": for every operation sequence. *)
Theorem C18_buffer_recent : forall (A : Type) (size : nat) (ops : list (op A)),
  let s := run (init size) ops in
  (exists pre, written ops = pre ++ buf s) /\
  Nat.min (length (written ops)) size <= length (buf s) <= size + slack.
Proof. exact @buffer_suffix. Qed.
Print Assumptions C18_buffer_recent.

(* "A range request (offset from the end, limit) returns exactly that window, clamped to what exists,
   and never fails whatever numbers are passed": get_range is a total function on all of Z x Z and its
   result is the contiguous block that starts clamp(offset) lines before the end and has
   min(limit, clamp(offset)) lines (all clamp(offset) lines when limit < 1). *)
Theorem C18_range_window : forall (A : Type) (b : list A) (off lim : Z),
  exists pre post, b = pre ++ get_range b off lim ++ post /\
    Z.of_nat (length pre) = (Z.of_nat (length b) - clamp_off b off)%Z /\
    Z.of_nat (length (get_range b off lim)) = window_len b off lim.
Proof. exact @get_range_window. Qed.
Print Assumptions C18_range_window.

(* End to end, over histories: after ANY operation sequence (writes, trims, observers coming and going)
   the answer to a range request is a contiguous block of everything written so far, ending
   clamp(offset) - len lines before the last written line. *)
Theorem C18_range_of_history : forall (A : Type) (size : nat) (ops : list (op A)) (off lim : Z),
  let s := run (init size) ops in
  let r := get_range (buf s) off lim in
  exists pre post, written ops = pre ++ r ++ post /\
    Z.of_nat (length post) = (clamp_off (buf s) off - window_len (buf s) off lim)%Z /\
    Z.of_nat (length r) = window_len (buf s) off lim.
Proof. exact @range_of_history. Qed.
Print Assumptions C18_range_of_history.

(* "at least the configured length once that many were written": a request reaching back no further than
   min(#written, size) lines is never clamped, whatever was trimmed before. *)
Theorem C18_range_served_in_full : forall (A : Type) (size : nat) (ops : list (op A)) (off lim : Z),
  (0 <= off <= Z.of_nat (Nat.min (length (written ops)) size))%Z ->
  let s := run (init size) ops in
  clamp_off (buf s) off = off /\
  Z.of_nat (length (get_range (buf s) off lim)) = (if (lim <? 1)%Z then off else Z.min lim off).
Proof. exact @range_served_in_full. Qed.
Print Assumptions C18_range_served_in_full.

(* "A follower that subscribes with a tail length and keeps reading receives that tail and then every
   subsequently written line exactly once and in order": at any reachable state, for any later
   operations (writes, range reads, other observers coming and going). *)
Theorem C18_follower_stream : forall (A : Type) size (ops1 : list (op A)) id tail ops2,
  forallb (fun o => negb (touches id o)) ops2 = true ->
  let s1 := run (init size) ops1 in
  let s2 := run s1 (OSub id tail :: ops2) in
  stream_of id (streams s2) = stream_of id (streams s1) ++ get_range (buf s1) tail 0 ++ written ops2.
Proof. exact @follower_stream. Qed.
Print Assumptions C18_follower_stream.

(* "with no gap or duplicate at the hand-over": the stream of a fresh follower is a suffix of
   everything ever written to the buffer. *)
Theorem C18_follower_no_gap : forall (A : Type) size (ops1 : list (op A)) id tail ops2,
  forallb (fun o => negb (touches id o)) ops2 = true ->
  let s1 := run (init size) ops1 in
  let s2 := run s1 (OSub id tail :: ops2) in
  stream_of id (streams s1) = [] ->
  (exists pre, written ops1 ++ written ops2 = pre ++ stream_of id (streams s2)) /\
  Z.of_nat (length (stream_of id (streams s2))) =
     (clamp_off (buf s1) tail + Z.of_nat (length (written ops2)))%Z.
Proof. exact @follower_no_gap. Qed.
Print Assumptions C18_follower_no_gap.

Theorem C18_unsub_silent : forall (A : Type) (s : st A) id ops,
  NoDup (active s) ->
  forallb (fun o => negb (touches id o)) ops = true ->
  stream_of id (streams (run s (OUnsub id :: ops))) = stream_of id (streams s).
Proof. exact @unsub_silent. Qed.
Print Assumptions C18_unsub_silent.

(* "... or its other followers" (for observers that are handed lines directly): whatever OTHER observers
   do - subscribe, re-subscribe, unsubscribe, read ranges, in any number and order - observer [id] receives
   the same stream; it depends only on the lines written. *)
Theorem C18_followers_independent : forall (A : Type) (s : st A) id (ops ops' : list (op A)),
  NoDup (active s) ->
  forallb (fun o => negb (touches id o)) ops = true ->
  forallb (fun o => negb (touches id o)) ops' = true ->
  written ops = written ops' ->
  stream_of id (streams (run s ops)) = stream_of id (streams (run s ops')) /\
  mem id (active (run s ops)) = mem id (active (run s ops')).
Proof. exact @followers_independent. Qed.
Print Assumptions C18_followers_independent.

(* "a follower that stops reading never holds up the process it follows": FALSE of the code for the
   websocket follower (bounded channel filled under the buffer mutex) - finding F29. *)
Theorem C18_nonblocking_refuted :
  exists fs : list follower, write_enabled fs = true /\ write_enabled (Nat.iter 256 deliver fs) = false.
Proof. exact bounded_follower_blocks. Qed.
Print Assumptions C18_nonblocking_refuted.

(* model => monitor: the check's property monitor (holds_C18, written from the property text: declarative
   window over the history of written lines, length discipline, expected follower streams) and its
   correspondence predicate accept what the model produces, for EVERY size, operation sequence and set of
   observer ids; and the monitor's declarative window IS the model's GetLogRange on all of Z x Z.  A history
   the monitor rejects is therefore one on which the implementation left the model. *)
Theorem C18_monitor_accepts_model : forall (size : nat) (ops : list (op N)) (ids : list N),
  holds_C18 (observe size ops ids) = true /\ model_ok (observe size ops ids) = true.
Proof. exact (fun size ops ids => conj (monitor_accepts_model size ops ids) (model_accepts_model size ops ids)). Qed.
Print Assumptions C18_monitor_accepts_model.

Theorem C18_monitor_window_is_range : forall (b : list N) (off lim : Z),
  window_spec b off lim = get_range b off lim.
Proof. exact window_spec_get_range. Qed.
Print Assumptions C18_monitor_window_is_range.

(* non-vacuity: a concrete run that meets the hypotheses of the follower theorems *)
Example C18_example :
  let ops1 := [OWrite 1%N; OWrite 2%N; OWrite 3%N] in
  let ops2 := [OWrite 4%N; ORange 1 1; OSub 9%N 0; OWrite 5%N] in
  forallb (fun o => negb (touches 7%N o)) ops2 = true /\
  stream_of 7%N (streams (run (run (init 2) ops1) (OSub 7%N 2 :: ops2))) = [2%N; 3%N; 4%N; 5%N].
Proof. vm_compute. split; reflexivity. Qed.

(* non-vacuity of the history-level range theorems on a buffer that HAS been trimmed: size 2, 103 writes
   (the trim fires at the 103rd); a request for the last 2 lines is served in full with the two newest lines,
   and an oversized request is clamped to what the buffer still holds (3 lines) *)
Example C18_range_example :
  let ops := map (fun i => OWrite (N.of_nat i)) (seq 1 103) in
  let s := run (init 2) ops in
  length (buf s) = 3 /\
  (0 <= 2 <= Z.of_nat (Nat.min (length (written ops)) 2))%Z /\
  get_range (buf s) 2 0 = [102%N; 103%N] /\
  get_range (buf s) 2 1 = [102%N] /\
  get_range (buf s) 1000 0 = [101%N; 102%N; 103%N] /\
  holds_C18 (observe 2 (ops ++ [ORange 2 0; OSub 5%N 1; OWrite 7%N]) [5%N]) = true.
Proof. vm_compute. repeat split; try reflexivity; discriminate. Qed.
