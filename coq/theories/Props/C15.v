From Coq Require Import List ZArith NArith Bool.
From PC.Merge Require Import Model Proofs.
