(* C15 Config merge: override wins, nothing the override does not mention is lost.
   This file contains only the property statements; every proof is `exact <lemma>`.
   Model: PC.Merge.Model (the code AFTER fixes/F2-env-split.diff and fixes/F34-loglength-default.diff;
   the unrepaired behaviour is refuted below).  sget f m = Some v means "option f has the non-zero Go
   value v", None means "it has its zero value" (= what a file that does not mention it decodes to). *)
From Coq Require Import List ZArith NArith Bool.
From PC.Merge Require Import Model Proofs Check Link.
Import ListNotations.

(* "a single-valued option set in a later file replaces the earlier value" - for every struct of the
   configuration (all of them merge their scalars with merge_smap), PROVIDED the later value is not the
   zero value of its type (finding F28: mergo cannot override with an empty value). *)
Theorem C15_override_wins_partial : forall (f : N) (b o : smap) (v : scalar),
  lookup f o = Some v -> is_zero v = false -> sget f (merge_smap b o) = Some v.
Proof. exact scalar_override_wins. Qed.
Print Assumptions C15_override_wins_partial.

(* without the side condition the clause is false of the code: `disabled: false` over `disabled: true` *)
Theorem C15_override_wins_refuted :
  exists (f : N) (b o : smap) (v : scalar), lookup f o = Some v /\ sget f (merge_smap b o) <> sget f [(f, v)].
Proof. exact scalar_override_zero_refuted. Qed.
Print Assumptions C15_override_wins_refuted.

(* the same at the level of two whole files, both directions in one equation *)
Theorem C15_project_option : forall (f : N) (b o : project),
  sget f (g_scal (merge b o)) = match sget f (g_scal o) with Some v => Some v | None => sget f (g_scal b) end.
Proof. exact merge_scalar. Qed.
Print Assumptions C15_project_option.

(* "environment entries ... are merged by key with the later file winning": the last entry of the later
   file for a key is in the result; when the earlier environment exists, the result has exactly one entry
   per key, the last one of earlier ++ later; nothing else appears. *)
Theorem C15_env_later_wins : forall (b o : env) (e : bytes),
  last_with_key (key_of e) (olist o) = Some e -> In e (olist (merge_env b o)).
Proof. exact env_later_wins. Qed.
Print Assumptions C15_env_later_wins.

Theorem C15_env_by_key : forall (bl : list bytes) (o : env) (e : bytes),
  In e (olist (merge_env (Some bl) o)) -> last_with_key (key_of e) (bl ++ olist o) = Some e.
Proof. exact env_by_key. Qed.
Print Assumptions C15_env_by_key.

Theorem C15_env_no_junk : forall (b o : env) (e : bytes),
  In e (olist (merge_env b o)) -> In e (olist b) \/ In e (olist o).
Proof. exact env_no_junk. Qed.
Print Assumptions C15_env_no_junk.

(* "environment values are preserved byte for byte whatever characters they contain": an entry of the
   earlier file (the last with its key) whose key the later file does not set is a member of the result -
   the very same byte string, for ALL byte strings (with or without '=', empty value, any bytes). *)
Theorem C15_env_preserved : forall (b o : env) (e : bytes),
  last_with_key (key_of e) (olist b) = Some e ->
  (forall x, In x (olist o) -> key_of x <> key_of e) ->
  In e (olist (merge_env b o)).
Proof. exact env_preserved. Qed.
Print Assumptions C15_env_preserved.

(* F2: false of the unrepaired toEnvVarMap (strings.Split, len == 2): `A=b=c` vanishes although the later
   file has no environment at all *)
Theorem C15_env_preserved_unfixed_refuted :
  exists (b o : env) (e : bytes),
    last_with_key (key_of e) (olist b) = Some e /\
    (forall x, In x (olist o) -> key_of x <> key_of e) /\
    ~ In e (olist (merge_env_unfixed b o)).
Proof. exact env_preserved_unfixed_refuted. Qed.
Print Assumptions C15_env_preserved_unfixed_refuted.

(* "depends_on entries are merged by key with the later file winning" (and vars, env_cmds): *)
Theorem C15_map_entry : forall (f k : N) (b o : mmap),
  lookup k (mget f (merge_mmap b o)) =
  match lookup k (mget f o) with Some v => Some v | None => lookup k (mget f b) end.
Proof. exact mget_merge. Qed.
Print Assumptions C15_map_entry.

(* []string options are appended (mergo WithAppendSlice: entrypoint, fields_order) - the reading of
   "merged" that the code implements for list-valued options; nothing of the earlier file is lost *)
Theorem C15_list_appended : forall (f : N) (b o : lmap), lget f (merge_lmap b o) = lget f b ++ lget f o.
Proof. exact lget_merge. Qed.
Print Assumptions C15_list_appended.

(* "processes defined in only one file are kept" *)
Theorem C15_process_only_in_one : forall (b o : project) (k : N) (p : proc),
  (lookup k (g_procs b) = Some p /\ lookup k (g_procs o) = None) \/
  (lookup k (g_procs b) = None /\ lookup k (g_procs o) = Some p) ->
  lookup k (g_procs (merge b o)) = Some p.
Proof. exact procs_only_in_one. Qed.
Print Assumptions C15_process_only_in_one.

(* FRAME: "every setting of the earlier file that the later file does not mention survives unchanged":
   for the options, environment, maps, nested records and processes of the project, and recursively
   inside every process / nested record that both files define (project_frame spells this out). *)
Theorem C15_frame : forall (b o : project), project_frame b o (merge b o).
Proof. exact merge_frame. Qed.
Print Assumptions C15_frame.

(* F34: false of the unrepaired loader, which puts log_length = 1000 into every parsed file BEFORE the
   merge: base says 500, the later file is silent, the result is 1000 *)
Theorem C15_frame_loglength_unfixed_refuted :
  exists (b o : project), sget G_LOGLEN (g_scal o) = None /\
    sget G_LOGLEN (g_scal (merge (inject_loglen b) (inject_loglen o))) <> sget G_LOGLEN (g_scal b).
Proof. exact loglen_frame_unfixed_refuted. Qed.
Print Assumptions C15_frame_loglength_unfixed_refuted.

(* chain of n files = left fold; along the whole chain the last file that sets an option / a map key wins,
   and a process is the fold of its definitions in file order (so one definition is kept as it is) *)
Theorem C15_chain_option : forall (f : N) (b : project) (os : list project),
  merge_all (b :: os) = Some (fold_left merge os b) /\
  sget f (g_scal (fold_left merge os b)) = last_some (map (fun g => sget f (g_scal g)) (b :: os)).
Proof. exact chain_last_wins. Qed.
Print Assumptions C15_chain_option.

Theorem C15_chain_map_entry : forall (f k : N) (os : list project) (b : project),
  lookup k (mget f (g_maps (fold_left merge os b))) =
  last_some (map (fun g => lookup k (mget f (g_maps g))) (b :: os)).
Proof. exact chain_map_entry. Qed.
Print Assumptions C15_chain_map_entry.

Theorem C15_chain_process : forall (k : N) (os : list project) (b : project),
  lookup k (g_procs (fold_left merge os b)) =
  match pdefs k (b :: os) with [] => None | p :: ps => Some (fold_left merge_proc ps p) end.
Proof. exact chain_process. Qed.
Print Assumptions C15_chain_process.

(* "Loading a file that extends a base gives the same processes as naming both files in that order, apart
   from empty or relative working directories of the base's processes, which are resolved against the base
   file's directory": for extends chains of ANY depth; the files must be pairwise different (otherwise Load
   answers "already specified"). *)
Theorem C15_extends : forall (defshell : leaf) (f : cfile) (anc : list cfile),
  NoDup (map f_name (f :: anc)) ->
  load defshell [(f, anc)] = load defshell (map plain (map resolve_file (rev anc) ++ [f])).
Proof. exact extends_is_explicit_chain. Qed.
Print Assumptions C15_extends.

(* what resolve_file changes: the working directory of the base's processes and nothing else *)
Theorem C15_extends_only_wd : forall (dir : bytes) (g : project) (k : N) (p : proc) (f : N),
  lookup k (g_procs g) = Some p -> f <> F_WD ->
  exists p', lookup k (g_procs (resolve_wd dir g)) = Some p' /\
             sget f (p_scal p') = sget f (p_scal p) /\ p_lists p' = p_lists p /\ p_env p' = p_env p /\
             p_maps p' = p_maps p /\ p_ptrs p' = p_ptrs p.
Proof. exact resolve_wd_only_wd. Qed.
Print Assumptions C15_extends_only_wd.

Theorem C15_extends_wd_value : forall (dir : bytes) (p : proc),
  str_of F_WD (p_scal (resolve_wd_proc dir p)) =
  match str_of F_WD (p_scal p) with
  | [] => dir
  | c :: r => if N.eqb c slash then c :: r else dir ++ slash :: c :: r
  end.
Proof. exact resolve_wd_value. Qed.
Print Assumptions C15_extends_wd_value.

(* model and monitor: the environment the model computes for two files satisfies the monitor's clause *)
Theorem C15_model_meets_env_monitor : forall (b o : env), env_spec_ok [b; o] (merge_env b o) = true.
Proof. exact model_env_satisfies_monitor. Qed.
Print Assumptions C15_model_meets_env_monitor.

(* non-vacuity: a base and an override that meet the hypotheses of the frame, override and extends
   theorems - values with '=', without '=', empty; overlapping and disjoint processes *)
Local Open Scope N_scope.
Example C15_example :
  let A_bc := [65;61;98;61;99]%N in   (* "A=b=c" *)
  let NOEQ := [78;79]%N in            (* "NO"    *)
  let K_ := [75;61]%N in              (* "K="    *)
  let K_v := [75;61;118]%N in         (* "K=v"   *)
  let p1b := mkProc [(3, SStr [99]); (1, SBool true)]%N [] (Some [A_bc; NOEQ; K_]) [] [] in
  let p1o := mkProc [(1, SBool false); (10, SStr [100])]%N [] (Some [K_v]) [] [] in
  let p2 := mkProc [(3, SStr [120])]%N [] None [] [] in
  let base := mkProject [(4, SInt 500%Z)] (Some [A_bc]) [] [] [] [(1, p1b); (2, p2)]%N in
  let over := mkProject [] None [] [] [] [(1, p1o); (3, p2)]%N in
  let m := merge base over in
  sget 4 (g_scal m) = Some (SInt 500%Z) /\
  g_env m = Some [A_bc] /\
  lookup 2%N (g_procs m) = Some p2 /\ lookup 3%N (g_procs m) = Some p2 /\
  (exists p, lookup 1%N (g_procs m) = Some p /\ p_env p = Some [A_bc; K_v; NOEQ] /\
             sget 1 (p_scal p) = Some (SBool true) /\ sget 10 (p_scal p) = Some (SStr [100]%N)) /\
  last_with_key (key_of A_bc) (olist (p_env p1b)) = Some A_bc /\
  NoDup (map f_name [mkFile 2 [47;99] over; mkFile 1 [47;98] base]) /\
  load (mkLeaf [] []) [(mkFile 2 [47;99]%N over, [mkFile 1 [47;98]%N base])] <> None.
Proof.
  vm_compute. repeat split; try reflexivity.
  - eexists. repeat split; reflexivity.
  - repeat constructor; cbn; intuition discriminate.
  - discriminate.
Qed.
