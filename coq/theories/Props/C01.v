(* C01 Dependency gating: no launch before every depends_on condition is met.
   This file contains only the property statements; every proof is `exact <lemma>` or a vm_compute witness.

   WHAT THE MONITOR CHECKS (Sup/Monitors.v, mon_C01 / holds_C01), in plain words.  The observer remembers per
   instance: registered (addRunningProcess, with a registration index in order of registration), ended
   (onProcessEnd(status) was entered and that status was written), succeeded (ended and the reported exit code of
   its name was 0 at some later moment), its ready line was seen, started (onProcessStart), a stop was requested
   for it; per process name: its health was Ready at some time; and, per instance and dependency name, what the
   dependent's lookup returned when it began to wait (trace point dep_wait): the instance found, or nothing
   together with the registration counter at the moment its running-registry lookup missed.
   At EVERY successful Commander.Start() (event ELaunch true) of an instance i, for EVERY dependency (k, c) in the
   configuration of i's process:
     - the lookup returned instance j: j is an instance of k and j has met c;
     - the lookup found nothing: no instance of k had been registered when i looked into the running registry
       (k was not scheduled to run), or one of those instances has met c;
     - i never looked k up: the same, judged against every instance of k registered until the launch;
   where "has met c" is
     process_completed              -> it ended
     process_completed_successfully -> it ended and the exit code reported for k was 0
     process_healthy                -> the health of k was Ready at some time
     process_log_ready              -> its ready line was seen
     process_started                -> it started, or a stop was requested for it, or it entered onProcessEnd.
   holds_C01 cs evs = true means this check succeeded at every launch in the history evs.

   WHAT IS PROVED.  C01_main_partial: every history accepted by the model Sup (all configurations with unique
   dependency names per process, all interleavings, unbounded length) satisfies the monitor, provided ONE
   scheduling pattern does not occur (decidable predicate sched_ok_C01, Sup/LemC01.v, flag g_endov): a status
   write for an instance that differs from the latest onProcessEnd entered for it while the observer has not seen
   the instance end - two overlapping onProcessEnd executions (stop of a Pending process racing with its own
   Skipped end); the observer has a single o_endst slot, so its "ended" lags behind the done flag of the code.
   NO known-finding window flag is needed.  C01_refuted: without that hypothesis the statement is false of the
   model (witness through none of the known windows; the property text is respected in it: the dependency did
   end).  The two earlier side conditions (creation racing with registration; dependency restarted between
   creation and lookup) are gone: the former witnesses now satisfy the monitor (Examples C01_former_witness_unregistered, C01_former_witness_newer_instance). *)
From Coq Require Import List ZArith NArith Bool.
From PC.Base Require Import Assoc.
From PC.Sup Require Import Model Monitors Sim LemC01 RelC01.
Import ListNotations.

Theorem C01_main_partial : forall cs ord evs s,
  wf_confs cs = true ->                      (* dependency names are unique within each process *)
  accept (init cs ord) evs = Some s ->       (* the history is a behaviour of the model *)
  sched_ok_C01 cs evs = true ->              (* no overlapping onProcessEnd executions with different statuses (g_endov) *)
  holds_C01 cs evs = true.
Proof. exact C01_main_partial_lemma. Qed.
Print Assumptions C01_main_partial.

(* the same, with the monitor unfolded: position-quantified statement about the history *)
Theorem C01_declarative : forall cs ord evs s,
  wf_confs cs = true -> accept (init cs ord) evs = Some s -> sched_ok_C01 cs evs = true ->
  forall pre th post, evs = pre ++ (th, ELaunch true) :: post ->        (* at every successful launch ... *)
  let o := fold_left (obs_step cs) pre (obs0 cs) in                     (* (facts observed before it) *)
  forall i, get th (o_th o) = Some i ->                                 (* ... of instance i ... *)
  let x := oi_get o i in
  forall k c, In (k, c) (deps (conf_of cs (o_nm x))) ->                 (* ... for every dependency (k, c): *)
  dep_ok o x k c.     (* RelC01.dep_ok: the instance found has met c / nothing was registered (or one of them met c) *)
Proof. exact C01_declarative_lemma. Qed.
Print Assumptions C01_declarative.

(* ---- the hypothesis sched_ok_C01 is needed: the unrestricted statement is false of the model ---------------- *)
Definition conf0 (ds : list (name * cond)) : pconf := mkConf ds PNo 0 0 false false false false false false false.
(* process 2 needs process 1 to succeed, process 3 needs process 2 to complete.  Process 1 exits with 1, so 2 decides
   to skip; StopProcess(2) (thread 7) finds 2 still Pending and enters onProcessEnd(Terminating) between 2's own
   onProcessEnd(Skipped) entry and its status write: that write sets the done flag of the code (3 is released and
   launches), but the observer, whose single o_endst slot now says Terminating, does not count 2 as ended *)
Definition cs_ref : amap pconf := [(1%N, conf0 []); (2%N, conf0 [(1%N, CSuccess)]); (3%N, conf0 [(2%N, CCompleted)])].
Definition evs_ref : list (tid * event) :=
  [ (0, EApiBegin OpRun);
    (0, ENewInst 10 1); (0, EState 10 SPending); (0, ERegAdd 10 1); (0, ESpawn 10 1);
    (0, ENewInst 20 2); (0, EState 20 SPending); (0, ERegAdd 20 2); (0, ESpawn 20 2);
    (0, ENewInst 30 3); (0, EState 30 SPending); (0, ERegAdd 30 3); (0, ESpawn 30 3); (0, ERunSpawned);
    (1, EBegin 10); (1, ERunChecked false); (1, EStarted); (1, EState 10 SRunning); (1, ELaunch true);
    (2, EBegin 20); (2, EDoneGet 1 None); (2, ELookupMid 1); (2, ERegGet 1 (Some 10)); (2, EDepWait 1 (Some 10));
    (3, EBegin 30); (3, EDoneGet 2 None); (3, ELookupMid 2); (3, ERegGet 2 (Some 20)); (3, EDepWait 2 (Some 20));
    (9, ECmdExit 10 1%Z); (1, EWaitReturn 1%Z); (1, EExitCode 1%Z); (1, ERestartDecision false);
    (1, EProcEnd 10 SCompleted); (1, EState 10 SCompleted);
    (2, EDepDone 1 false); (2, ESkip);
    (7, EApiBegin (OpStop 2)); (7, ERegGet 2 (Some 20)); (7, EStopChecked 2 (Some 20)); (7, ENoRestart 20);
    (7, EStopEnter 20 true); (7, EStopPending 20);
    (2, EProcEnd 20 SSkipped); (7, EProcEnd 20 STerminating); (2, EState 20 SSkipped);
    (3, EDepDone 2 true); (3, ERunChecked false); (3, EStarted); (3, EState 30 SRunning); (3, ELaunch true) ]%N.

Theorem C01_refuted : exists cs ord evs s,
  wf_confs cs = true /\ accept (init cs ord) evs = Some s /\ no_windows cs evs = true /\ holds_C01 cs evs = false.
Proof.
  exists cs_ref, false, evs_ref.
  destruct (accept (init cs_ref false) evs_ref) as [s|] eqn:E; [|vm_compute in E; discriminate E].
  exists s. repeat split; vm_compute; reflexivity.
Qed.
Print Assumptions C01_refuted.

(* ... and that history is one that the hypothesis excludes *)
Example C01_refuted_excluded : sched_ok_C01 cs_ref evs_ref = false.
Proof. vm_compute. reflexivity. Qed.

(* ---- the witnesses of the two former side conditions now SATISFY the monitor --------------------------------- *)
(* (former g_unreg) StartProcess(1) has created but not yet registered instance 10 while Run() creates, registers and
   begins instance 20 of process 2, which depends on process 1, finds nothing and launches: an instance that is
   not registered is not "registered before" anybody *)
Definition cs_unreg : amap pconf :=
  [(1%N, mkConf [] PNo 0 0 false false false false false false true); (2%N, conf0 [(1%N, CCompleted)])].
Definition evs_unreg : list (tid * event) :=
  [ (7, EApiBegin (OpStart 1)); (7, ERegGet 1 None); (7, EStartChecked 1 false); (7, ENewInst 10 1);
    (0, EApiBegin OpRun); (0, ENewInst 20 2); (0, EState 20 SPending); (0, ERegAdd 20 2); (0, ESpawn 20 2);
    (0, ERunSpawned);
    (5, EBegin 20); (5, EDoneGet 1 None); (5, ELookupMid 1); (5, ERegGet 1 None); (5, EDoneGet 1 None);
    (5, EDepWait 1 None); (5, ERunChecked false); (5, EStarted); (5, EState 20 SRunning); (5, ELaunch true) ]%N.
Example C01_former_witness_unregistered :
  (exists s, accept (init cs_unreg false) evs_unreg = Some s) /\ sched_ok_C01 cs_unreg evs_unreg = true /\
  holds_C01 cs_unreg evs_unreg = true.
Proof.
  split; [|split; vm_compute; reflexivity].
  destruct (accept (init cs_unreg false) evs_unreg) as [s|] eqn:E; [eauto|vm_compute in E; discriminate E].
Qed.

(* (former g_newer) process 1 ends without its ready line and is started again as instance 11 between the creation of
   dependent 20 (process_log_ready) and 20's lookup; 20 waits for 11's ready line and launches: the monitor now
   judges the instance the lookup returned *)
Definition cs_new : amap pconf :=
  [(1%N, mkConf [] PNo 0 0 false false false true false false false); (2%N, conf0 [(1%N, CLogReady)])].
Definition evs_new : list (tid * event) :=
  [ (0, EApiBegin OpRun);
    (0, ENewInst 10 1); (0, EState 10 SPending); (0, ERegAdd 10 1); (0, ESpawn 10 1);
    (1, EBegin 10); (1, ERunChecked false); (1, EStarted); (1, EState 10 SRunning); (1, ELaunch true);
    (0, ENewInst 20 2); (0, EState 20 SPending); (0, ERegAdd 20 2); (0, ESpawn 20 2); (0, ERunSpawned);
    (2, EBegin 20); (2, EDoneGet 1 None); (2, ELookupMid 1);
    (9, ECmdExit 10 0%Z); (1, EWaitReturn 0%Z); (1, EExitCode 0%Z); (1, ERestartDecision false);
    (1, EProcEnd 10 SCompleted); (1, EState 10 SCompleted); (1, EProcEnded 10 SCompleted); (1, ERunReturned 0%Z);
    (1, EDoneAdd 10); (1, EInstDone); (1, EInstExit); (1, ERegDel 10); (1, EInstGone);
    (7, EApiBegin (OpStart 1)); (7, ERegGet 1 None); (7, EStartChecked 1 false);
    (7, ENewInst 11 1); (7, EState 11 SPending); (7, ERegAdd 11 1); (7, ESpawn 11 1); (7, EApiReturn true);
    (3, EBegin 11); (3, ERunChecked false); (3, EStarted); (3, EState 11 SRunning); (3, ELaunch true);
    (2, ERegGet 1 (Some 11)); (2, EDepWait 1 (Some 11));
    (9, EOutLine 11 true); (9, ELogReady 11);
    (2, EDepDone 1 true); (2, ERunChecked false); (2, EStarted); (2, EState 20 SRunning); (2, ELaunch true) ]%N.
Example C01_former_witness_newer_instance :
  (exists s, accept (init cs_new false) evs_new = Some s) /\ sched_ok_C01 cs_new evs_new = true /\
  holds_C01 cs_new evs_new = true.
Proof.
  split; [|split; vm_compute; reflexivity].
  destruct (accept (init cs_new false) evs_new) as [s|] eqn:E; [eauto|vm_compute in E; discriminate E].
Qed.

(* the monitor is still an oracle: the same history with the ready line of instance 11 removed (the dependent is
   released although the instance it waits on never printed its line) is rejected by the model AND fails the monitor *)
Definition evs_new_bad : list (tid * event) :=
  filter (fun te => match snd te with EOutLine _ _ | ELogReady _ => false | _ => true end) evs_new.
Example C01_monitor_still_rejects :
  accept (init cs_new false) evs_new_bad = None /\ holds_C01 cs_new evs_new_bad = false.
Proof. vm_compute. split; reflexivity. Qed.

(* ---- non-vacuity: a 31-event accepted history that meets all hypotheses; process 2 waits for process 1 to
   complete, process 1 runs and exits with 0, then process 2 is released and launches ------------------------------ *)
Definition cs_ok : amap pconf := [(1%N, conf0 []); (2%N, conf0 [(1%N, CCompleted)])].
Definition evs_ok : list (tid * event) :=
  [ (0, EApiBegin OpRun);
    (0, ENewInst 10 1); (0, EState 10 SPending); (0, ERegAdd 10 1); (0, ESpawn 10 1);
    (0, ENewInst 20 2); (0, EState 20 SPending); (0, ERegAdd 20 2); (0, ESpawn 20 2);
    (0, ERunSpawned);
    (1, EBegin 10); (1, ERunChecked false); (1, EStarted); (1, EState 10 SRunning); (1, ELaunch true);
    (2, EBegin 20); (2, EDoneGet 1 None); (2, ELookupMid 1); (2, ERegGet 1 (Some 10)); (2, EDepWait 1 (Some 10));
    (9, ECmdExit 10 0%Z);
    (1, EWaitReturn 0%Z); (1, EExitCode 0%Z); (1, ERestartDecision false); (1, EProcEnd 10 SCompleted);
    (1, EState 10 SCompleted);
    (2, EDepDone 1 true); (2, ERunChecked false); (2, EStarted); (2, EState 20 SRunning); (2, ELaunch true) ]%N.

Example C01_example :
  wf_confs cs_ok = true /\
  (exists s, accept (init cs_ok false) evs_ok = Some s) /\
  sched_ok_C01 cs_ok evs_ok = true /\
  length evs_ok = 31 /\
  holds_C01 cs_ok evs_ok = true.
Proof.
  split; [vm_compute; reflexivity|]. split.
  - destruct (accept (init cs_ok false) evs_ok) as [s|] eqn:E; [eauto|vm_compute in E; discriminate E].
  - repeat split; vm_compute; reflexivity.
Qed.
