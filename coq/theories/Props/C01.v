(* C01 Dependency gating: no launch before every depends_on condition is met.
   This file contains only the property statements; every proof is `exact <lemma>` or a vm_compute witness.

   WHAT THE MONITOR CHECKS (Sup/Monitors.v, mon_C01 / holds_C01), in plain words.  The observer gives every
   instance a creation index (o_idx, assigned at NewProcess = event ENewInst) and remembers per instance:
   ended (onProcessEnd(status) was entered and that status was written), succeeded (ended and the reported
   exit code of its name was 0 at some later moment), its ready line was seen, started (onProcessStart),
   a stop was requested for it; and per process name: its health was Ready at some time.
   At EVERY successful Commander.Start() (event ELaunch true) of an instance i, for EVERY dependency (k, c)
   in the configuration of i's process:  let J be the instances of k created BEFORE i.  Either J is empty
   (k was not scheduled when i was created), or some instance in J has met c:
     process_completed              -> it ended
     process_completed_successfully -> it ended and the exit code reported for k was 0
     process_healthy                -> the health of k was Ready at some time
     process_log_ready              -> its ready line was seen
     process_started                -> it started, or a stop was requested for it, or it entered onProcessEnd.
   holds_C01 cs evs = true means this check succeeded at every launch in the history evs.

   WHAT IS PROVED (hardened model: an instance is created, set Pending, registered, spawned and begun in program
   order by ONE thread).  C01_main_partial: every history accepted by the model Sup (all configurations with
   unique dependency names per process, all interleavings, unbounded length) satisfies the monitor, PROVIDED the
   history avoids three scheduling patterns (decidable predicate sched_ok_C01, Sup/LemC01.v):
     g_unreg : an instance of process n is created while an instance of a process that n DEPENDS ON is between
               NewProcess and addRunningProcess (two creating requests race; impossible inside Run()'s loop);
     g_newer : a dependent resolves a dependency name to an instance not older than itself although an older
               instance of that name exists (the dependency was restarted between creation and lookup);
     g_endov : a status write for an instance differs from the latest onProcessEnd entered for it while the
               observer has not seen it end (two overlapping onProcessEnd executions);
   in these the monitor, as written, is stricter than the code.  NO known-finding window flag (w_commit, w_dup,
   w_zombie, ...) is needed.  C01_refuted / C01_refuted_newer_instance: without that hypothesis the statement
   is false of the (hardened) model - machine-checked witnesses through none of the known windows.  The
   witnesses of the earlier, looser model are now REJECTED by the model (Examples C01_old_witness_rejected and C01_old_witness_rejected_newer). *)
From Coq Require Import List ZArith NArith Bool.
From PC.Base Require Import Assoc.
From PC.Sup Require Import Model Monitors Sim LemC01 RelC01.
Import ListNotations.

Theorem C01_main_partial : forall cs ord evs s,
  wf_confs cs = true ->                      (* dependency names are unique within each process *)
  accept (init cs ord) evs = Some s ->       (* the history is a behaviour of the model *)
  sched_ok_C01 cs evs = true ->              (* none of g_unreg / g_newer / g_endov happened *)
  holds_C01 cs evs = true.
Proof. exact C01_main_partial_lemma. Qed.
Print Assumptions C01_main_partial.

(* the same, with the monitor unfolded: position-quantified statement about the history *)
Theorem C01_declarative : forall cs ord evs s,
  wf_confs cs = true -> accept (init cs ord) evs = Some s -> sched_ok_C01 cs evs = true ->
  forall pre th post, evs = pre ++ (th, ELaunch true) :: post ->        (* at every successful launch ... *)
  let o := fold_left (obs_step cs) pre (obs0 cs) in                     (* (facts observed before it) *)
  forall i, get th (o_th o) = Some i ->                                 (* ... of instance i ... *)
  let x := oi_get o i in
  forall k c, In (k, c) (deps (conf_of cs (o_nm x))) ->                 (* ... for every dependency (k, c) *)
  older_insts o k (o_idx x) = [] \/                                     (* no instance of k was created before i, or *)
  exists y, In y (older_insts o k (o_idx x)) /\ met o c y = true.       (* one of them has met c *)
Proof. exact C01_declarative_lemma. Qed.
Print Assumptions C01_declarative.

(* ---- the hypothesis sched_ok_C01 is needed: the unrestricted statement is false of the model ---------------- *)
Definition conf0 (ds : list (name * cond)) : pconf := mkConf ds PNo 0 0 false false false false false false false.
(* process 1 is disabled (started on request), process 2 depends on process 1 *)
Definition cs_ref : amap pconf :=
  [(1%N, mkConf [] PNo 0 0 false false false false false false true); (2%N, conf0 [(1%N, CCompleted)])].
(* StartProcess(1) (thread 7) has created instance 10 but not yet registered it when Run() (thread 0) creates,
   registers and spawns instance 20 of process 2; 20 looks process 1 up, finds nothing and launches *)
Definition evs_ref : list (tid * event) :=
  [ (7, EApiBegin (OpStart 1)); (7, ERegGet 1 None); (7, EStartChecked 1 false); (7, ENewInst 10 1);
    (0, EApiBegin OpRun); (0, ENewInst 20 2); (0, EState 20 SPending); (0, ERegAdd 20 2); (0, ESpawn 20 2);
    (0, ERunSpawned);
    (5, EBegin 20); (5, EDoneGet 1 None); (5, ELookupMid 1); (5, ERegGet 1 None); (5, EDoneGet 1 None);
    (5, EDepWait 1 None); (5, ERunChecked false); (5, EStarted); (5, EState 20 SRunning); (5, ELaunch true) ]%N.

Theorem C01_refuted : exists cs ord evs s,
  wf_confs cs = true /\ accept (init cs ord) evs = Some s /\ no_windows cs evs = true /\ holds_C01 cs evs = false.
Proof.
  exists cs_ref, false, evs_ref.
  destruct (accept (init cs_ref false) evs_ref) as [s|] eqn:E; [|vm_compute in E; discriminate E].
  exists s. repeat split; vm_compute; reflexivity.
Qed.
Print Assumptions C01_refuted.

(* ... and that history is one that the hypothesis excludes (only g_unreg is set) *)
Example C01_refuted_excluded : snd (og_final cs_ref evs_ref) = mkG [10%N] true false false.
Proof. vm_compute. reflexivity. Qed.

(* the witness of the earlier model (one thread without any API call creating both instances, a goroutine that
   begins without having been registered and spawned) is no longer a behaviour of the model *)
Definition evs_ref_old : list (tid * event) :=
  [ (0, ENewInst 10 1); (0, ENewInst 20 2); (5, EBegin 20);
    (5, EDoneGet 1 None); (5, ELookupMid 1); (5, ERegGet 1 None); (5, EDoneGet 1 None); (5, EDepWait 1 None);
    (5, ERunChecked false); (5, EStarted); (5, EState 20 SRunning); (5, ELaunch true) ]%N.
Example C01_old_witness_rejected :
  accept (init cs_ref false) evs_ref_old = None /\ fst (accept_prefix (init cs_ref false) evs_ref_old 0) = 0.
Proof. vm_compute. split; reflexivity. Qed.

(* Second witness (finding): the dependency is RESTARTED between the creation of the dependent and its lookup.
   Process 2 depends on process 1 with process_log_ready.  Run() starts both; instance 10 of process 1 completes
   without ever printing its ready line and is deregistered; StartProcess(1) starts it again as instance 11;
   instance 20 of process 2 (created between 10 and 11) resolves process 1 to the NEWER instance 11, waits for
   11's ready line and launches.  The property text is respected (process 1 did print its ready line before the
   launch), but mon_C01 only accepts instances created before 20 and fails; no known window is involved.  This
   is the pattern g_newer. *)
Definition cs_new : amap pconf :=
  [(1%N, mkConf [] PNo 0 0 false false false true false false false); (2%N, conf0 [(1%N, CLogReady)])].
Definition evs_new : list (tid * event) :=
  [ (0, EApiBegin OpRun);
    (0, ENewInst 10 1); (0, EState 10 SPending); (0, ERegAdd 10 1); (0, ESpawn 10 1);
    (1, EBegin 10); (1, ERunChecked false); (1, EStarted); (1, EState 10 SRunning); (1, ELaunch true);
    (0, ENewInst 20 2); (0, EState 20 SPending); (0, ERegAdd 20 2); (0, ESpawn 20 2); (0, ERunSpawned);
    (2, EBegin 20); (2, EDoneGet 1 None); (2, ELookupMid 1);
    (9, ECmdExit 10 0%Z); (1, EWaitReturn 0%Z); (1, EExitCode 0%Z); (1, ERestartDecision false);
    (1, EProcEnd 10 SCompleted); (1, EState 10 SCompleted); (1, EProcEnded 10 SCompleted); (1, ERunReturned 0%Z);
    (1, EDoneAdd 10); (1, EInstDone); (1, EInstExit); (1, ERegDel 10); (1, EInstGone);
    (7, EApiBegin (OpStart 1)); (7, ERegGet 1 None); (7, EStartChecked 1 false);
    (7, ENewInst 11 1); (7, EState 11 SPending); (7, ERegAdd 11 1); (7, ESpawn 11 1); (7, EApiReturn true);
    (3, EBegin 11); (3, ERunChecked false); (3, EStarted); (3, EState 11 SRunning); (3, ELaunch true);
    (2, ERegGet 1 (Some 11)); (2, EDepWait 1 (Some 11));
    (9, EOutLine 11 true); (9, ELogReady 11);
    (2, EDepDone 1 true); (2, ERunChecked false); (2, EStarted); (2, EState 20 SRunning); (2, ELaunch true) ]%N.

Theorem C01_refuted_newer_instance :
  wf_confs cs_new = true /\ (exists s, accept (init cs_new false) evs_new = Some s) /\
  no_windows cs_new evs_new = true /\ holds_C01 cs_new evs_new = false /\
  snd (og_final cs_new evs_new) = mkG [] false true false.      (* only g_newer is set *)
Proof.
  split; [vm_compute; reflexivity|]. split.
  - destruct (accept (init cs_new false) evs_new) as [s|] eqn:E; [eauto|vm_compute in E; discriminate E].
  - repeat split; vm_compute; reflexivity.
Qed.
Print Assumptions C01_refuted_newer_instance.

(* the earlier version of this witness (instances created by a thread that is in no API call) is rejected at
   its first event *)
Example C01_old_witness_rejected_newer :
  accept (init cs_new false) ((0, ENewInst 10 1) :: (0, EState 10 SPending) :: (0, ERegAdd 10 1) :: (1, EBegin 10) :: nil)%N = None.
Proof. vm_compute. reflexivity. Qed.

(* creations of UNRELATED processes may overlap without leaving the hypothesis (the earlier, coarser g_unreg
   excluded this history): StartProcess(1) has created instance 10 while Run() creates and launches process 3 *)
Definition cs_ovl : amap pconf := [(1%N, mkConf [] PNo 0 0 false false false false false false true); (3%N, conf0 [])].
Definition evs_ovl : list (tid * event) :=
  [ (7, EApiBegin (OpStart 1)); (7, ERegGet 1 None); (7, EStartChecked 1 false); (7, ENewInst 10 1);
    (0, EApiBegin OpRun); (0, ENewInst 30 3); (0, EState 30 SPending); (0, ERegAdd 30 3); (0, ESpawn 30 3);
    (0, ERunSpawned);
    (5, EBegin 30); (5, ERunChecked false); (5, EStarted); (5, EState 30 SRunning); (5, ELaunch true);
    (7, EState 10 SPending); (7, ERegAdd 10 1); (7, ESpawn 10 1); (7, EApiReturn true) ]%N.
Example C01_example_overlapping_creations :
  (exists s, accept (init cs_ovl false) evs_ovl = Some s) /\ sched_ok_C01 cs_ovl evs_ovl = true.
Proof.
  split; [|vm_compute; reflexivity].
  destruct (accept (init cs_ovl false) evs_ovl) as [s|] eqn:E; [eauto|vm_compute in E; discriminate E].
Qed.

(* ---- non-vacuity: a 31-event accepted history that meets all hypotheses; process 2 waits for process 1 to
   complete, process 1 runs and exits with 0, then process 2 is released and launches ------------------------------ *)
Definition cs_ok : amap pconf := [(1%N, conf0 []); (2%N, conf0 [(1%N, CCompleted)])].
Definition evs_ok : list (tid * event) :=
  [ (0, EApiBegin OpRun);
    (0, ENewInst 10 1); (0, EState 10 SPending); (0, ERegAdd 10 1); (0, ESpawn 10 1);
    (0, ENewInst 20 2); (0, EState 20 SPending); (0, ERegAdd 20 2); (0, ESpawn 20 2);
    (0, ERunSpawned);
    (1, EBegin 10); (1, ERunChecked false); (1, EStarted); (1, EState 10 SRunning); (1, ELaunch true);
    (2, EBegin 20); (2, EDoneGet 1 None); (2, ELookupMid 1); (2, ERegGet 1 (Some 10)); (2, EDepWait 1 (Some 10));
    (9, ECmdExit 10 0%Z);
    (1, EWaitReturn 0%Z); (1, EExitCode 0%Z); (1, ERestartDecision false); (1, EProcEnd 10 SCompleted);
    (1, EState 10 SCompleted);
    (2, EDepDone 1 true); (2, ERunChecked false); (2, EStarted); (2, EState 20 SRunning); (2, ELaunch true) ]%N.

Example C01_example :
  wf_confs cs_ok = true /\
  (exists s, accept (init cs_ok false) evs_ok = Some s) /\
  sched_ok_C01 cs_ok evs_ok = true /\
  length evs_ok = 31 /\
  holds_C01 cs_ok evs_ok = true.
Proof.
  split; [vm_compute; reflexivity|]. split.
  - destruct (accept (init cs_ok false) evs_ok) as [s|] eqn:E; [eauto|vm_compute in E; discriminate E].
  - repeat split; vm_compute; reflexivity.
Qed.
